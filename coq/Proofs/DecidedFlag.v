(* STRETCH, part 4: the sticky "witnesses decided" flag of a round.  Round tables evolve
   monotonically (entries persist, a recorded fame and a set flag never change); a flag that is
   set was set in an (earlier or the current) reachable state of the same run in which all known
   witnesses of the round were decided (full_dec). *)
From Coq Require Import ZArith List Bool Lia ZifyBool Permutation.
From RecordUpdate Require Import RecordSet.
From V Require Import Model.ZMap Model.Quorum Model.Voting Model.VotingRef Model.HgImpl
  Proofs.ZMapFacts Proofs.QuorumProofs Proofs.HgFrames Proofs.HgDagFrames Proofs.AdmissionProofs Proofs.Ancestry
  Proofs.BlockInv Proofs.RoundOrder Proofs.OrderFrames Proofs.OrderProofs
  Proofs.VotingProofs Proofs.FameBridge Proofs.Static Proofs.FirstDesc Proofs.FdWalk Proofs.DivInv Proofs.CInvRun
  Proofs.Height Proofs.StronglySee Proofs.RoundFun Proofs.ViewOk Proofs.SameHistory Proofs.Agreement Proofs.NoFail
  Proofs.LrFrames Proofs.FameInv Proofs.LateWitness Proofs.FamousSet.
Import ListNotations RecordSetNotations.
Open Scope Z_scope.

(** * Monotone evolution of the round tables *)
Definition ent_mono (l l' : list (Z * (bool * trilean))) : Prop :=
  forall x w f, aget x l = Some (w, f) -> exists f', aget x l' = Some (w, f') /\ (f <> Undefined -> f' = f).

Definition tmono (s s' : hg) : Prop :=
  forall r ri, get_round s r = Some ri -> exists ri', get_round s' r = Some ri' /\
    (ri_decided ri = true -> ri_decided ri' = true) /\ ent_mono (ri_created ri) (ri_created ri').

Lemma ent_mono_refl l : ent_mono l l.
Proof. intros x w f H. exists f. auto. Qed.
Lemma ent_mono_trans a b c : ent_mono a b -> ent_mono b c -> ent_mono a c.
Proof.
  intros H1 H2 x w f Ha. destruct (H1 x w f Ha) as [f1 [Hb E1]]. destruct (H2 x w f1 Hb) as [f2 [Hc E2]].
  exists f2. split; [exact Hc|]. intros Hn. rewrite <- (E1 Hn). apply E2. rewrite (E1 Hn). exact Hn.
Qed.
Lemma tmono_refl s : tmono s s.
Proof. intros r ri H. exists ri. split; [exact H|split; [auto|apply ent_mono_refl]]. Qed.
Lemma tmono_trans a b c : tmono a b -> tmono b c -> tmono a c.
Proof.
  intros H1 H2 r ri Ha. destruct (H1 r ri Ha) as [rb [Hb [D1 E1]]]. destruct (H2 r rb Hb) as [rc [Hc [D2 E2]]].
  exists rc. split; [exact Hc|split; [auto|eapply ent_mono_trans; eauto]].
Qed.
Lemma tmono_rounds s s' : rounds s' = rounds s -> tmono s s'.
Proof. intros E r ri H. exists ri. unfold get_round in *. rewrite E. split; [exact H|split; [auto|apply ent_mono_refl]]. Qed.

Lemma tmono_frec s s' r x v : tmono s s' -> frec s r x v -> frec s' r x v.
Proof.
  intros T [ri [Hg Ha]]. destruct (T r ri Hg) as [ri' [Hg' [_ E]]].
  destruct (E x true (tri_of v) Ha) as [f' [Ha' Hf]]. rewrite (Hf (tri_of_not_undefined v)) in Ha'. exists ri'. auto.
Qed.

Definition flag (st : hg) (r : Z) : Prop := exists ri, get_round st r = Some ri /\ ri_decided ri = true.

Lemma tmono_flag s s' r : tmono s s' -> flag s r -> flag s' r.
Proof. intros T [ri [Hg Hd]]. destruct (T r ri Hg) as [ri' [Hg' [D _]]]. exists ri'. auto. Qed.

(* replacing the RoundInfo of an existing round *)
Lemma tmono_zset s (s' : hg) r0 ri0 ri0' : get_round s r0 = Some ri0 -> rounds s' = zset r0 ri0' (rounds s) ->
  (ri_decided ri0 = true -> ri_decided ri0' = true) -> ent_mono (ri_created ri0) (ri_created ri0') -> tmono s s'.
Proof.
  intros Hg E D M r ri Hr.
  rewrite (get_round_zset s s' r0 ri0' r (get_round_some_nonneg _ _ _ Hg) E).
  destruct (Z.eqb_spec r0 r) as [<-|]; [|exists ri; split; [exact Hr|split; [auto|apply ent_mono_refl]]].
  rewrite Hg in Hr. inversion Hr; subst ri. exists ri0'. auto.
Qed.

(** ** DivideRounds *)
Lemma ent_mono_add_created ri y w : ent_mono (ri_created ri) (ri_created (add_created ri y w)).
Proof.
  unfold add_created. destruct (aget y (ri_created ri)); [apply ent_mono_refl|].
  replace (ri_created (ri <| ri_created := ri_created ri ++ [(y, (w, Undefined))] |>))
    with (ri_created ri ++ [(y, (w, Undefined))]) by (destruct ri; reflexivity).
  intros x w0 f H. exists f. split; [apply aget_app_some; exact H|auto].
Qed.

Lemma tmono_add_created st (st' : hg) r0 y w :
  rounds st' = zset r0 (add_created (round_or_new st r0) y w) (rounds st) -> tmono st st'.
Proof.
  intros E r ri Hr. unfold get_round. rewrite E, zget_zset.
  destruct ((r0 =? r) && (0 <=? r0)) eqn:Eb; [|exists ri; split; [exact Hr|split; [auto|apply ent_mono_refl]]].
  apply andb_true_iff in Eb. destruct Eb as [Er _]. apply Z.eqb_eq in Er. subst r0.
  unfold round_or_new. rewrite Hr. eexists. split; [reflexivity|].
  split; [rewrite add_created_decided; auto|apply ent_mono_add_created].
Qed.

Lemma tmono_divide_round st y : tmono st (divide_round st y).
Proof.
  unfold divide_round.
  pose proof (nomemo_eq_rounds _ _ (round_f_nomemo (fuel_of st) st y)) as R1.
  destruct (round_f (fuel_of st) st y) as [[r0|] s]; cbn [snd] in R1.
  2:{ apply tmono_rounds. rewrite <- R1. destruct s; reflexivity. }
  cbv zeta. set (s1 := set_event_round s y r0).
  assert (R2 : rounds s1 = rounds st).
  { rewrite <- R1. unfold s1, set_event_round. destruct (get_event s y); [destruct s|]; reflexivity. }
  assert (Eri : round_or_new s1 r0 = round_or_new st r0) by (unfold round_or_new, get_round; rewrite R2; reflexivity).
  rewrite Eri. set (ri := round_or_new st r0). set (s2 := maybe_queue s1 r0 ri).
  assert (R3 : rounds s2 = rounds st) by (unfold s2; rewrite rounds_maybe_queue; exact R2).
  pose proof (nomemo_eq_rounds _ _ (witness_f_nomemo (fuel_of s2) s2 y)) as R4.
  destruct (witness_f (fuel_of s2) s2 y) as [[w|] s']; cbn [snd] in R4.
  - apply (tmono_add_created st _ r0 y w). rewrite <- R3, <- R4. destruct s'; reflexivity.
  - apply tmono_rounds. rewrite <- R3, <- R4. destruct s'; reflexivity.
Qed.

Lemma tmono_divide_one st y : tmono st (divide_one st y).
Proof.
  unfold divide_one. destruct (failed st); [apply tmono_refl|].
  destruct (get_event st y) as [ev|]; [|apply tmono_rounds; destruct st; reflexivity].
  cbv zeta. set (st1 := match ev_round ev with Some _ => st | None => divide_round st y end).
  assert (H1 : tmono st st1) by (unfold st1; destruct (ev_round ev); [apply tmono_refl|apply tmono_divide_round]).
  destruct (failed st1); [exact H1|].
  destruct (get_event st1 y) as [ev1|]; [|eapply tmono_trans; [exact H1|apply tmono_rounds; destruct st1; reflexivity]].
  destruct (ev_lt ev1); [exact H1|]. eapply tmono_trans; [exact H1|apply tmono_rounds, rounds_divide_lt].
Qed.

Lemma tmono_divide_rounds st : tmono st (divide_rounds st).
Proof.
  unfold divide_rounds. generalize (undetermined st). intros l. revert st.
  induction l as [|y l IH]; intros st; cbn [fold_left]; [apply tmono_refl|].
  eapply tmono_trans; [apply tmono_divide_one|apply IH].
Qed.

(* DivideRounds sets no flag *)
Lemma flag_add_created st (st' : hg) r0 y w :
  rounds st' = zset r0 (add_created (round_or_new st r0) y w) (rounds st) -> forall r, flag st' r -> flag st r.
Proof.
  intros E r [ri' [Hg Hd]]. unfold get_round in Hg. rewrite E, zget_zset in Hg.
  destruct ((r0 =? r) && (0 <=? r0)) eqn:Eb; [|exists ri'; auto].
  apply andb_true_iff in Eb. destruct Eb as [Er _]. apply Z.eqb_eq in Er. subst r0.
  inversion Hg; subst ri'. rewrite add_created_decided in Hd. unfold round_or_new in Hd.
  destruct (get_round st r) as [ri|] eqn:Hri; [exists ri; auto|discriminate].
Qed.

Lemma flag_rounds s s' : rounds s' = rounds s -> forall r, flag s' r -> flag s r.
Proof. intros E r [ri [Hg Hd]]. exists ri. unfold get_round in *. rewrite <- E. auto. Qed.

Lemma flag_divide_round st y r : flag (divide_round st y) r -> flag st r.
Proof.
  unfold divide_round.
  pose proof (nomemo_eq_rounds _ _ (round_f_nomemo (fuel_of st) st y)) as R1.
  destruct (round_f (fuel_of st) st y) as [[r0|] s]; cbn [snd] in R1.
  2:{ apply flag_rounds. rewrite <- R1. destruct s; reflexivity. }
  cbv zeta. set (s1 := set_event_round s y r0).
  assert (R2 : rounds s1 = rounds st).
  { rewrite <- R1. unfold s1, set_event_round. destruct (get_event s y); [destruct s|]; reflexivity. }
  assert (Eri : round_or_new s1 r0 = round_or_new st r0) by (unfold round_or_new, get_round; rewrite R2; reflexivity).
  rewrite Eri. set (ri := round_or_new st r0). set (s2 := maybe_queue s1 r0 ri).
  assert (R3 : rounds s2 = rounds st) by (unfold s2; rewrite rounds_maybe_queue; exact R2).
  pose proof (nomemo_eq_rounds _ _ (witness_f_nomemo (fuel_of s2) s2 y)) as R4.
  destruct (witness_f (fuel_of s2) s2 y) as [[w|] s']; cbn [snd] in R4.
  - apply (flag_add_created st _ r0 y w). rewrite <- R3, <- R4. destruct s'; reflexivity.
  - apply flag_rounds. rewrite <- R3, <- R4. destruct s'; reflexivity.
Qed.

Lemma flag_divide_one st y r : flag (divide_one st y) r -> flag st r.
Proof.
  unfold divide_one. destruct (failed st); [auto|].
  destruct (get_event st y) as [ev|]; [|apply flag_rounds; destruct st; reflexivity].
  cbv zeta. set (st1 := match ev_round ev with Some _ => st | None => divide_round st y end).
  assert (H1 : flag st1 r -> flag st r) by (unfold st1; destruct (ev_round ev); [auto|apply flag_divide_round]).
  destruct (failed st1); [exact H1|].
  destruct (get_event st1 y) as [ev1|]; [|intros H; apply H1; revert H; apply flag_rounds; destruct st1; reflexivity].
  destruct (ev_lt ev1); [exact H1|]. intros H. apply H1. revert H. apply flag_rounds, rounds_divide_lt.
Qed.

Lemma flag_divide_rounds st r : flag (divide_rounds st) r -> flag st r.
Proof.
  unfold divide_rounds. generalize (undetermined st). intros l. revert st.
  induction l as [|y l IH]; intros st; cbn [fold_left]; [auto|].
  intros H. apply (flag_divide_one st y). apply IH. exact H.
Qed.

(** ** DecideFame *)
Lemma ent_mono_set_fame ri y v :
  (forall w f, aget y (ri_created ri) = Some (w, f) -> f = Undefined) ->
  ent_mono (ri_created ri) (ri_created (set_fame ri y v)).
Proof.
  intros Hu x w f Hx. unfold set_fame. fold (tri_of v).
  destruct (aget y (ri_created ri)) as [[w0 t]|] eqn:Ey.
  - replace (ri_created (ri <| ri_created := aset y (w0, tri_of v) (ri_created ri) |>))
      with (aset y (w0, tri_of v) (ri_created ri)) by (destruct ri; reflexivity).
    rewrite Ancestry.aget_aset. destruct (Z.eqb_spec y x) as [->|Hne]; [|exists f; auto].
    rewrite Ey in Hx. inversion Hx; subst w0 t. exists (tri_of v). split; [reflexivity|].
    intros Hn. exfalso. apply Hn. apply (Hu w f eq_refl).
  - replace (ri_created (ri <| ri_created := ri_created ri ++ [(y, (true, tri_of v))] |>))
      with (ri_created ri ++ [(y, (true, tri_of v))]) by (destruct ri; reflexivity).
    exists f. split; [apply aget_app_some; exact Hx|auto].
Qed.

Lemma fame_fold_mono s r ws : forall ri0 ri',
  (forall y, In y ws -> exists f, aget y (ri_created ri0) = Some (true, f)) ->
  fold_left (fun (a : option rinfo) y =>
               match a with
               | None => None
               | Some ri' =>
                 if is_decided ri' y then Some ri'
                 else match fame_of s y r with
                      | None => None
                      | Some None => Some ri'
                      | Some (Some v) => Some (set_fame ri' y v)
                      end
               end) ws (Some ri0) = Some ri' ->
  ent_mono (ri_created ri0) (ri_created ri') /\ ri_decided ri' = ri_decided ri0.
Proof.
  induction ws as [|y ws IH]; intros ri0 ri' Hw; cbn [fold_left].
  - intros E; inversion E; subst. split; [apply ent_mono_refl|reflexivity].
  - assert (Hws : forall z, In z ws -> exists f, aget z (ri_created ri0) = Some (true, f))
      by (intros z Hz; apply Hw; right; exact Hz).
    destruct (is_decided ri0 y) eqn:Ed; [apply IH; exact Hws|].
    destruct (fame_of s y r) as [[v|]|].
    + intros Hf.
      assert (M1 : ent_mono (ri_created ri0) (ri_created (set_fame ri0 y v))).
      { apply ent_mono_set_fame. intros w f Ha. destruct (Hw y (or_introl eq_refl)) as [f0 Hf0].
        rewrite Hf0 in Ha. inversion Ha; subst w f0. unfold is_decided in Ed. rewrite Hf0 in Ed.
        destruct f; [reflexivity|discriminate|discriminate]. }
      destruct (IH (set_fame ri0 y v) ri') as [M2 D2]; [|exact Hf|].
      * intros z Hz. destruct (Hws z Hz) as [f Hf0]. destruct (M1 z true f Hf0) as [f' [Hf' _]]. eauto.
      * split; [eapply ent_mono_trans; eauto|rewrite D2; apply set_fame_decided].
    + apply IH; exact Hws.
    + intros E. exfalso. clear -E. induction ws as [|z ws IHw]; cbn [fold_left] in E; [discriminate|auto].
Qed.

Lemma witness_entry g st r ri y : cinv g None st -> get_round st r = Some ri -> In y (witnesses ri) ->
  exists f, aget y (ri_created ri) = Some (true, f).
Proof.
  intros I Hg Hy. unfold witnesses in Hy. apply in_map_iff in Hy. destruct Hy as [[y' [w f]] [E Hy]]. cbn in E. subst y'.
  apply filter_In in Hy. destruct Hy as [Hin Hw]. cbn in Hw. subst w. exists f.
  apply ukeys_In_aget; [|exact Hin].
  pose proof (c_tabu _ _ _ I r) as U. unfold wl in U. rewrite Hg in U. unfold wl_of in U.
  rewrite map_map in U. cbn [fst] in U. exact U.
Qed.

Lemma full_dec_of_table g st r ri : good g st -> get_round st r = Some ri ->
  existsb (fun e : Z * (bool * trilean) => match snd e with (true, Undefined) => true | _ => false end) (ri_created ri) = false ->
  super_majority g <= Z.of_nat (length (witnesses ri)) -> full_dec g st r.
Proof.
  intros G Hg Ex Hsm.
  split; [rewrite (wits_get_round st r ri Hg); exact Hsm|].
  intros x Hx. rewrite (wits_get_round st r ri Hg) in Hx.
  destruct (witness_entry g st r ri x (gd_c _ _ G) Hg Hx) as [f Ha].
  assert (Hf : f <> Undefined).
  { intros ->. assert (C : existsb (fun e : Z * (bool * trilean) => match snd e with (true, Undefined) => true | _ => false end)
                             (ri_created ri) = true).
    { apply existsb_exists. exists (x, (true, Undefined)). split; [apply aget_In; exact Ha|reflexivity]. }
    congruence. }
  destruct f; [contradiction|exists true|exists false]; exists ri; auto.
Qed.

(* what WitnessesDecided does to the RoundInfo *)
Lemma witnesses_decided_cases ri ps :
  ri_created (snd (witnesses_decided ri ps)) = ri_created ri /\
  (ri_decided ri = true -> ri_decided (snd (witnesses_decided ri ps)) = true) /\
  (ri_decided (snd (witnesses_decided ri ps)) = true -> ri_decided ri = true \/
     (existsb (fun e : Z * (bool * trilean) => match snd e with (true, Undefined) => true | _ => false end) (ri_created ri) = false /\
      super_majority ps <= Z.of_nat (length (witnesses ri)))).
Proof.
  split; [apply created_witnesses_decided|]. split; [apply witnesses_decided_sticky|].
  unfold witnesses_decided. destruct (ri_decided ri) eqn:Hd; [auto|].
  destruct (existsb _ _) eqn:Ex; [cbn [snd]; rewrite Hd; discriminate|]. cbn [snd].
  replace (ri_decided (ri <| ri_decided := super_majority ps <=? Z.of_nat (length (witnesses ri)) |>))
    with (super_majority ps <=? Z.of_nat (length (witnesses ri))) by (destruct ri; reflexivity).
  intros H. right. split; [reflexivity|apply Z.leb_le; exact H].
Qed.

Lemma witnesses_same_created ri ri' : ri_created ri' = ri_created ri -> witnesses ri' = witnesses ri.
Proof. unfold witnesses. intros ->. reflexivity. Qed.

Lemma decide_fame_round_tmono g s dec pr : cinv g None s -> tmono s (fst (decide_fame_round (s, dec) pr)).
Proof.
  intros I. unfold decide_fame_round.
  destruct (failed s); [apply tmono_refl|].
  assert (Tf : tmono s (fail s)) by (apply tmono_rounds; destruct s; reflexivity).
  destruct (get_round s (fst pr)) as [ri|] eqn:Hri; [|exact Tf].
  destruct (get_peerset s (fst pr)) as [rps|]; [|exact Tf].
  match goal with |- context [fold_left ?f ?l ?a] => destruct (fold_left f l a) as [ri'|] eqn:Hf end; [|exact Tf].
  destruct (fame_fold_mono s (fst pr) (witnesses ri) ri ri' (fun y => witness_entry g s _ ri y I Hri) Hf) as [M D].
  destruct (witnesses_decided_cases ri' rps) as [Hc [Hs _]].
  destruct (witnesses_decided ri' rps) as [d ri'']. cbn [fst snd] in *.
  apply (tmono_zset s _ (fst pr) ri ri'' Hri); [destruct s; reflexivity|intros Hd; apply Hs; congruence|].
  rewrite Hc. exact M.
Qed.

Lemma decide_fame_round_flag g s dec pr r : good g s ->
  flag (fst (decide_fame_round (s, dec) pr)) r -> flag s r \/ full_dec g (fst (decide_fame_round (s, dec) pr)) r.
Proof.
  intros G.
  pose proof (good_step g s _ G (decide_fame_round_frame s dec pr) (decide_fame_round_ckeep s dec pr)) as G'.
  revert G'. unfold decide_fame_round.
  destruct (failed s); [auto|].
  assert (Ff : flag (fail s) r -> flag s r) by (apply flag_rounds; destruct s; reflexivity).
  destruct (get_round s (fst pr)) as [ri|] eqn:Hri; [|auto].
  rewrite (get_peerset_static g s (fst pr) (c_static _ _ _ (gd_c _ _ G))).
  match goal with |- context [fold_left ?f ?l ?a] => destruct (fold_left f l a) as [ri'|] eqn:Hf end; [|auto].
  destruct (fame_fold_mono s (fst pr) (witnesses ri) ri ri' (fun y => witness_entry g s _ ri y (gd_c _ _ G) Hri) Hf) as [M D].
  destruct (witnesses_decided_cases ri' g) as [Hc [_ Hn]].
  destruct (witnesses_decided ri' g) as [d ri'']. cbn [fst snd] in *.
  intros G' [rj [Hg Hd]].
  assert (H0 : 0 <= fst pr) by (eapply get_round_some_nonneg; eauto).
  pose proof (get_round_zset s (set_round s (fst pr) ri'') (fst pr) ri'' r H0 ltac:(destruct s; reflexivity)) as Eg.
  rewrite Eg in Hg. destruct (Z.eqb_spec (fst pr) r) as [<-|Hne]; [|left; exists rj; auto].
  inversion Hg; subst rj. destruct (Hn Hd) as [Hold|[Ex Hsm]].
  - left. exists ri. split; [exact Hri|congruence].
  - right. apply (full_dec_of_table g _ (fst pr) ri'' G').
    + rewrite (get_round_zset s (set_round s (fst pr) ri'') (fst pr) ri'' (fst pr) H0) by (destruct s; reflexivity).
      rewrite Z.eqb_refl. reflexivity.
    + rewrite Hc. exact Ex.
    + rewrite (witnesses_same_created _ _ Hc). exact Hsm.
Qed.

Lemma ckeep_wits_eq s s' r : ckeep s s' -> wits s' r = wits s r.
Proof. apply ckeep_wits. Qed.

Lemma full_dec_step g s s' r : ckeep s s' -> tmono s s' -> full_dec g s r -> full_dec g s' r.
Proof.
  intros K T [Hsm Hall]. split; [rewrite (ckeep_wits_eq s s' r K); exact Hsm|].
  intros x Hx. rewrite (ckeep_wits_eq s s' r K) in Hx. destruct (Hall x Hx) as [v Hv].
  exists v. eapply tmono_frec; eauto.
Qed.

Lemma decide_fame_fold_tmono g l : forall s dec, cinv g None s -> tmono s (fst (fold_left decide_fame_round l (s, dec))).
Proof.
  induction l as [|pr l IH]; intros s dec I; cbn [fold_left]; [apply tmono_refl|].
  pose proof (decide_fame_round_tmono g s dec pr I) as T1. pose proof (decide_fame_round_ckeep s dec pr) as K1.
  destruct (decide_fame_round (s, dec) pr) as [s' dec']. cbn [fst] in *.
  eapply tmono_trans; [exact T1|]. apply IH. eapply cinv_ckeep; eauto.
Qed.

Lemma decide_fame_tmono g st : cinv g None st -> tmono st (decide_fame st).
Proof.
  intros I. unfold decide_fame. pose proof (decide_fame_fold_tmono g (pending st) st [] I) as T.
  destruct (fold_left decide_fame_round (pending st) (st, [])) as [s decided]. cbn [fst] in T.
  destruct (failed s); [exact T|]. eapply tmono_trans; [exact T|apply tmono_rounds; destruct s; reflexivity].
Qed.

Lemma decide_fame_fold_good g l : forall s dec, good g s -> good g (fst (fold_left decide_fame_round l (s, dec))).
Proof.
  induction l as [|pr l IH]; intros s dec G; cbn [fold_left]; [exact G|].
  pose proof (good_step g s _ G (decide_fame_round_frame s dec pr) (decide_fame_round_ckeep s dec pr)) as G1.
  destruct (decide_fame_round (s, dec) pr) as [s' dec']. cbn [fst] in *. apply IH. exact G1.
Qed.

Lemma decide_fame_flag g st r : good g st ->
  flag (decide_fame st) r -> flag st r \/ full_dec g (decide_fame st) r.
Proof.
  intros G. unfold decide_fame.
  assert (H : forall l s dec, good g s ->
              flag (fst (fold_left decide_fame_round l (s, dec))) r ->
              flag s r \/ full_dec g (fst (fold_left decide_fame_round l (s, dec))) r).
  { induction l as [|pr l IH]; intros s dec Gs; cbn [fold_left]; [auto|].
    pose proof (decide_fame_round_flag g s dec pr r Gs) as B1.
    pose proof (good_step g s _ Gs (decide_fame_round_frame s dec pr) (decide_fame_round_ckeep s dec pr)) as G1.
    pose proof (decide_fame_fold_tmono g l) as T2. pose proof (fold_ckeep_fst decide_fame_round l decide_fame_round_ckeep) as K2.
    destruct (decide_fame_round (s, dec) pr) as [s' dec']. cbn [fst] in *.
    intros Hfl. destruct (IH s' dec' G1 Hfl) as [H'|H']; [|auto].
    destruct (B1 H') as [H''|H'']; [auto|]. right.
    apply (full_dec_step g s' _ r (K2 s' dec') (T2 s' dec' (gd_c _ _ G1)) H''). }
  specialize (H (pending st) st [] G).
  destruct (fold_left decide_fame_round (pending st) (st, [])) as [s decided]. cbn [fst] in H.
  destruct (failed s); [exact H|].
  intros Hfl. assert (H0 : flag s r) by (revert Hfl; apply flag_rounds; destruct s; reflexivity).
  destruct (H H0) as [H1|H1]; [auto|]. right.
  apply (full_dec_step g s _ r); [apply ckeep_set_pending|apply tmono_rounds; destruct s; reflexivity|exact H1].
Qed.

(** ** DecideRoundReceived *)
Lemma rr_loop_tmono x : forall is_ st, tmono st (fst (rr_loop st x is_)).
Proof.
  induction is_ as [|i rest IH]; intros st; cbn [rr_loop]; [apply tmono_refl|].
  destruct (get_round st i) as [tr|] eqn:Hg;
    [|destruct (lower_bound st) as [lb0|]; [destruct (i <=? lb0); [apply IH|apply tmono_refl]|apply tmono_refl]].
  assert (Tf : forall s, tmono s (fail s)) by (intros s; apply tmono_rounds; destruct s; reflexivity).
  destruct (get_peerset st i) as [tps|]; [|apply Tf].
  destruct (witnesses_decided_cases tr tps) as [Hc [Hs _]].
  destruct (witnesses_decided tr tps) as [d tr']. cbn [snd] in *.
  set (st1 := st <| rounds := zset i tr' (rounds st) |>).
  assert (T1 : tmono st st1).
  { apply (tmono_zset st st1 i tr tr' Hg); [unfold st1; destruct st; reflexivity|exact Hs|rewrite Hc; apply ent_mono_refl]. }
  assert (Hi : 0 <= i) by (eapply get_round_some_nonneg; eauto).
  assert (Hg1 : get_round st1 i = Some tr').
  { rewrite (get_round_zset st st1 i tr' i Hi) by (unfold st1; destruct st; reflexivity).
    rewrite Z.eqb_refl. reflexivity. }
  destruct d; cbn [negb].
  - match goal with |- context [fold_left ?f ?l ?a] => destruct (fold_left f l a) as [sees|] end;
      [|cbn [fst]; eapply tmono_trans; [exact T1|apply Tf]].
    destruct (_ && _).
    + destruct (get_event st1 x) as [ex|] eqn:Hx; cbn [fst]; [|eapply tmono_trans; [exact T1|apply Tf]].
      eapply tmono_trans; [exact T1|].
      set (st2 := set_evst st1 x (ex <| ev_rr := Some i |>)).
      assert (T2 : tmono st1 st2) by (apply tmono_rounds; unfold st2; destruct st1; reflexivity).
      eapply tmono_trans; [exact T2|].
      assert (Hg2 : get_round st2 i = Some tr') by (unfold st2, get_round, set_evst; unfold get_round in Hg1; destruct st1; exact Hg1).
      apply (tmono_zset st2 _ i tr' (tr' <| ri_received := ri_received tr' ++ [x] |>) Hg2); [destruct st2; reflexivity|destruct tr'; auto|destruct tr'; apply ent_mono_refl].
    + eapply tmono_trans; [exact T1|apply IH].
  - destruct (lower_bound st1) as [lb|]; [|exact T1].
    destruct (lb <? i); [exact T1|]. eapply tmono_trans; [exact T1|apply IH].
Qed.

Lemma decide_rr_one_tmono s und x : tmono s (fst (decide_rr_one (s, und) x)).
Proof.
  unfold decide_rr_one. destruct (failed s); [apply tmono_refl|].
  pose proof (nomemo_eq_rounds _ _ (round_f_nomemo (fuel_of s) s x)) as R1.
  destruct (round_f (fuel_of s) s x) as [[r0|] s1]; cbn [snd] in R1.
  - pose proof (rr_loop_tmono x (zrange (r0 + 1) (last_round s1)) s1) as H.
    destruct (rr_loop s1 x (zrange (r0 + 1) (last_round s1))) as [s' received]. cbn [fst] in *.
    eapply tmono_trans; [apply tmono_rounds; exact R1|exact H].
  - cbn [fst]. apply tmono_rounds. rewrite <- R1. destruct s1; reflexivity.
Qed.

Lemma decide_round_received_tmono st : tmono st (decide_round_received st).
Proof.
  unfold decide_round_received.
  assert (G : forall l s und, tmono s (fst (fold_left decide_rr_one l (s, und)))).
  { induction l as [|x l IH]; intros s und; cbn [fold_left]; [apply tmono_refl|].
    pose proof (decide_rr_one_tmono s und x) as H. destruct (decide_rr_one (s, und) x) as [s' und']. cbn [fst] in *.
    eapply tmono_trans; [exact H|apply IH]. }
  specialize (G (undetermined st) st []).
  destruct (fold_left decide_rr_one (undetermined st) (st, [])) as [s und]. cbn [fst] in G.
  destruct (failed s); [exact G|]. eapply tmono_trans; [exact G|apply tmono_rounds; destruct s; reflexivity].
Qed.

Lemma good_ckeep_events g s s' : good g s -> events s' = events s -> pevents s' = pevents s -> topo s' = topo s ->
  ckeep s s' -> good g s'.
Proof. intros G E P T K. apply (good_step g s s' G); [apply dag_frame_same; assumption|exact K]. Qed.

Lemma rr_loop_flag g x r : forall is_ st, good g st ->
  flag (fst (rr_loop st x is_)) r -> flag st r \/ full_dec g (fst (rr_loop st x is_)) r.
Proof.
  induction is_ as [|i rest IH]; intros st G; cbn [rr_loop]; [auto|].
  destruct (get_round st i) as [tr|] eqn:Hg;
    [|destruct (lower_bound st) as [lb0|]; [destruct (i <=? lb0); [apply IH; exact G|auto]|auto]].
  assert (Ff : forall s, flag (fail s) r -> flag s r) by (intros s; apply flag_rounds; destruct s; reflexivity).
  rewrite (get_peerset_static g st i (c_static _ _ _ (gd_c _ _ G))).
  destruct (witnesses_decided_cases tr g) as [Hc [Hs Hn]].
  pose proof (wl_of_witnesses_decided tr g) as Hwl.
  destruct (witnesses_decided tr g) as [d tr']. cbn [snd] in *.
  set (st1 := st <| rounds := zset i tr' (rounds st) |>).
  assert (K1 : ckeep st st1) by (apply (ckeep_set_rounds st i tr tr' Hg Hwl)).
  assert (G1 : good g st1).
  { apply (good_ckeep_events g st st1 G); try (unfold st1; destruct st; reflexivity). exact K1. }
  assert (Hi : 0 <= i) by (eapply get_round_some_nonneg; eauto).
  assert (Eg1 : forall r', get_round st1 r' = if i =? r' then Some tr' else get_round st r').
  { intros r'. apply (get_round_zset st st1 i tr' r' Hi). unfold st1. destruct st; reflexivity. }
  (* the flag of st1 *)
  assert (B1 : flag st1 r -> flag st r \/ full_dec g st1 r).
  { intros [rj [Hgj Hdj]]. rewrite Eg1 in Hgj. destruct (Z.eqb_spec i r) as [<-|Hne]; [|left; exists rj; auto].
    inversion Hgj; subst rj. destruct (Hn Hdj) as [Hold|[Ex Hsm]]; [left; exists tr; auto|right].
    apply (full_dec_of_table g st1 i tr' G1); [rewrite Eg1, Z.eqb_refl; reflexivity|rewrite Hc; exact Ex|].
    rewrite (witnesses_same_created _ _ Hc). exact Hsm. }
  (* continuing from st1 *)
  assert (Cont : forall s_end, ckeep st1 s_end -> tmono st1 s_end ->
            (flag s_end r -> flag st1 r \/ full_dec g s_end r) ->
            flag s_end r -> flag st r \/ full_dec g s_end r).
  { intros s_end K T B Hfl. destruct (B Hfl) as [H|H]; [|auto].
    destruct (B1 H) as [H'|H']; [auto|right]. eapply full_dec_step; eauto. }
  assert (Same : forall s_end, rounds s_end = rounds st1 -> ckeep st1 s_end -> flag s_end r -> flag st r \/ full_dec g s_end r).
  { intros s_end E K. apply (Cont s_end K (tmono_rounds _ _ E)). intros H. left. revert H. apply flag_rounds. exact E. }
  destruct d; cbn [negb].
  - match goal with |- context [fold_left ?f ?l ?a] => destruct (fold_left f l a) as [sees|] end;
      [|cbn [fst]; apply Same; [destruct st1; reflexivity|apply ckeep_fail]].
    destruct (_ && _).
    + destruct (get_event st1 x) as [ex|] eqn:Hx; cbn [fst]; [|apply Same; [destruct st1; reflexivity|apply ckeep_fail]].
      set (st2 := set_evst st1 x (ex <| ev_rr := Some i |>)).
      assert (K2 : ckeep st1 st2) by (eapply ckeep_set_evst; [exact Hx|destruct ex; reflexivity]).
      assert (Hg2 : get_round st2 i = Some tr').
      { unfold st2, get_round, set_evst. pose proof (Eg1 i) as E. rewrite Z.eqb_refl in E. unfold get_round in E. destruct st1; exact E. }
      set (tr2 := tr' <| ri_received := ri_received tr' ++ [x] |>).
      assert (K3 : ckeep st2 (set_round st2 i tr2)) by (apply (ckeep_set_round st2 i tr'); [exact Hg2|destruct tr'; reflexivity]).
      assert (T2' : tmono st1 st2) by (apply tmono_rounds; unfold st2; destruct st1; reflexivity).
      assert (T3 : tmono st1 (set_round st2 i tr2)).
      { eapply tmono_trans; [exact T2'|].
        apply (tmono_zset st2 _ i tr' tr2 Hg2); [destruct st2; reflexivity|destruct tr'; auto|destruct tr'; apply ent_mono_refl]. }
      apply (Cont _ (ckeep_trans _ _ _ K2 K3) T3).
      intros [rj [Hgj Hdj]]. left.
      rewrite (get_round_zset st2 (set_round st2 i tr2) i tr2 r Hi) in Hgj by (destruct st2; reflexivity).
      destruct (Z.eqb_spec i r) as [<-|Hne].
      * inversion Hgj; subst rj. exists tr'. split; [rewrite Eg1, Z.eqb_refl; reflexivity|destruct tr'; exact Hdj].
      * exists rj. split; [|exact Hdj]. unfold st2, get_round, set_evst in Hgj. unfold get_round. destruct st1; exact Hgj.
    + apply (Cont _ (rr_loop_ckeep x rest st1) (rr_loop_tmono x rest st1)). apply IH. exact G1.
  - destruct (lower_bound st1) as [lb|]; [|apply Same; [reflexivity|apply ckeep_refl]].
    destruct (lb <? i); [apply Same; [reflexivity|apply ckeep_refl]|].
    apply (Cont _ (rr_loop_ckeep x rest st1) (rr_loop_tmono x rest st1)). apply IH. exact G1.
Qed.

Lemma decide_rr_one_flag g s und x r : good g s ->
  flag (fst (decide_rr_one (s, und) x)) r -> flag s r \/ full_dec g (fst (decide_rr_one (s, und) x)) r.
Proof.
  intros G. unfold decide_rr_one. destruct (failed s); [auto|].
  pose proof (round_f_pure g (Z.to_nat (topo s)) s x (gd_c _ _ G)) as Hp. unfold fuel_of.
  destruct (round_f (S (Z.to_nat (topo s))) s x) as [[r0|] s1]; cbn [snd] in Hp; subst s1.
  - pose proof (rr_loop_flag g x r (zrange (r0 + 1) (last_round s)) s G) as H.
    destruct (rr_loop s x (zrange (r0 + 1) (last_round s))) as [s' received]. exact H.
  - cbn [fst]. intros H. left. revert H. apply flag_rounds. destruct s; reflexivity.
Qed.

Lemma decide_rr_one_good g s und x : good g s -> good g (fst (decide_rr_one (s, und) x)).
Proof.
  intros G. apply (good_step g s _ G); [apply decide_rr_one_frame|apply (decide_rr_one_ckeep g), (gd_c _ _ G)].
Qed.

Lemma decide_round_received_flag g st r : good g st ->
  flag (decide_round_received st) r -> flag st r \/ full_dec g (decide_round_received st) r.
Proof.
  intros G. unfold decide_round_received.
  assert (Kf : forall l s und, good g s -> ckeep s (fst (fold_left decide_rr_one l (s, und))) /\
                 tmono s (fst (fold_left decide_rr_one l (s, und)))).
  { induction l as [|x l IH]; intros s und Gs; cbn [fold_left]; [split; [apply ckeep_refl|apply tmono_refl]|].
    pose proof (decide_rr_one_ckeep g s und x (gd_c _ _ Gs)) as K1. pose proof (decide_rr_one_tmono s und x) as T1.
    pose proof (decide_rr_one_good g s und x Gs) as G1.
    destruct (decide_rr_one (s, und) x) as [s' und']. cbn [fst] in *.
    destruct (IH s' und' G1) as [K2 T2]. split; [eapply ckeep_trans; eauto|eapply tmono_trans; eauto]. }
  assert (H : forall l s und, good g s ->
              flag (fst (fold_left decide_rr_one l (s, und))) r ->
              flag s r \/ full_dec g (fst (fold_left decide_rr_one l (s, und))) r).
  { induction l as [|x l IH]; intros s und Gs; cbn [fold_left]; [auto|].
    pose proof (decide_rr_one_flag g s und x r Gs) as B1. pose proof (decide_rr_one_good g s und x Gs) as G1.
    pose proof (Kf l) as Kl.
    destruct (decide_rr_one (s, und) x) as [s' und']. cbn [fst] in *.
    intros Hfl. destruct (IH s' und' G1 Hfl) as [H'|H']; [|auto].
    destruct (B1 H') as [H''|H'']; [auto|]. right. destruct (Kl s' und' G1) as [K2 T2].
    eapply full_dec_step; eauto. }
  specialize (H (undetermined st) st [] G).
  destruct (fold_left decide_rr_one (undetermined st) (st, [])) as [s und]. cbn [fst] in H.
  destruct (failed s); [exact H|].
  intros Hfl. assert (H0 : flag s r) by (revert Hfl; apply flag_rounds; destruct s; reflexivity).
  destruct (H H0) as [H1|H1]; [auto|]. right.
  apply (full_dec_step g s _ r); [apply ckeep_set_undetermined|apply tmono_rounds; destruct s; reflexivity|exact H1].
Qed.

(** * One step, and all reachable states *)
Lemma hstep_tmono g all st o : ids_determine all -> no_accept all -> hop_ok all o -> nf_inv g all st ->
  tmono st (hstep st o).
Proof.
  intros ID NA Ho N. destruct o as [e|]; cbn [hstep].
  2:{ apply tmono_rounds. destruct (cw_fields _ _ (cw_process_sigpool st)) as [_ [Ro _]]. exact Ro. }
  destruct Ho as [Hin Hid]. unfold step, insert_and_run.
  pose proof (g_dag _ _ (gi_core _ _ (nf_g _ _ _ N))) as OK. pose proof (g_from _ _ (gi_core _ _ (nf_g _ _ _ N))) as FA.
  destruct (insert_event st e) as [r0 s] eqn:E.
  destruct (insert_event_inv st e all r0 s OK FA ID Hin Hid E) as [_ [_ Hns]].
  assert (Hrej : r0 <> InsOk -> tmono st (snd (r0, s))).
  { intros Hn. rewrite (insert_reject_noop st e r0 s E Hn Hns). apply tmono_refl. }
  destruct r0; try (apply Hrej; discriminate). clear Hrej. cbn [snd].
  destruct (insert_post_ins g all st e s ID Hin Hid N E) as [PI _].
  pose proof (run_consensus_stages g all (e_id e) s NA PI) as SG. rewrite (sg_eq _ _ _ SG).
  pose proof (insert_event_rounds st e) as [Rs _]. rewrite E in Rs. cbn [snd] in Rs.
  eapply tmono_trans; [apply tmono_rounds; exact Rs|].
  eapply tmono_trans; [apply tmono_divide_rounds|].
  eapply tmono_trans; [apply (decide_fame_tmono g), (sg_i1 _ _ _ SG)|].
  eapply tmono_trans; [apply decide_round_received_tmono|].
  apply tmono_rounds. destruct (cw_fields _ _ (cw_process_decided_rounds (decide_round_received (decide_fame (divide_rounds s))))) as [_ [Ro _]]. exact Ro.
Qed.

Lemma hstep_flag g all st o r : ids_determine all -> no_accept all -> hop_ok all o -> nf_inv g all st ->
  flag (hstep st o) r -> flag st r \/ full_dec g (hstep st o) r.
Proof.
  intros ID NA Ho N. destruct o as [e|]; cbn [hstep].
  2:{ intros H. left. revert H. apply flag_rounds. destruct (cw_fields _ _ (cw_process_sigpool st)) as [_ [Ro _]]. exact Ro. }
  destruct Ho as [Hin Hid]. unfold step, insert_and_run.
  pose proof (g_dag _ _ (gi_core _ _ (nf_g _ _ _ N))) as OK. pose proof (g_from _ _ (gi_core _ _ (nf_g _ _ _ N))) as FA.
  destruct (insert_event st e) as [r0 s] eqn:E.
  destruct (insert_event_inv st e all r0 s OK FA ID Hin Hid E) as [_ [_ Hns]].
  assert (Hrej : r0 <> InsOk -> flag (snd (r0, s)) r -> flag st r \/ full_dec g (snd (r0, s)) r).
  { intros Hn. rewrite (insert_reject_noop st e r0 s E Hn Hns). auto. }
  destruct r0; try (apply Hrej; discriminate). clear Hrej. cbn [snd].
  destruct (insert_post_ins g all st e s ID Hin Hid N E) as [PI _].
  pose proof (run_consensus_stages g all (e_id e) s NA PI) as SG. rewrite (sg_eq _ _ _ SG).
  set (s1 := divide_rounds s) in *. set (s2 := decide_fame s1) in *. set (s3 := decide_round_received s2) in *.
  pose proof (insert_event_rounds st e) as [Rs _]. rewrite E in Rs. cbn [snd] in Rs.
  pose proof (sg_g1 _ _ _ SG) as G1.
  assert (G2 : good g s2) by (apply (good_step g s1 s2 G1); [apply decide_fame_frame|apply decide_fame_ckeep]).
  assert (K3 : ckeep s2 s3) by (apply (decide_round_received_ckeep g), (gd_c _ _ G2)).
  assert (K4 : ckeep s3 (process_decided_rounds s3)).
  { apply ckeep_cw; [apply cw_process_decided_rounds|].
    apply (process_decided_rounds_peersets all); [apply (sg_fa3 _ _ _ SG)|exact NA]. }
  assert (T4 : tmono s3 (process_decided_rounds s3)).
  { apply tmono_rounds. destruct (cw_fields _ _ (cw_process_decided_rounds s3)) as [_ [Ro _]]. exact Ro. }
  intros H4.
  assert (H3 : flag s3 r).
  { revert H4. apply flag_rounds. destruct (cw_fields _ _ (cw_process_decided_rounds s3)) as [_ [Ro _]]. exact Ro. }
  destruct (decide_round_received_flag g s2 r G2 H3) as [H2|H2];
    [|right; apply (full_dec_step g s3 _ r K4 T4 H2)].
  destruct (decide_fame_flag g s1 r G1 H2) as [H1|H1].
  - left. apply (flag_rounds st s Rs). apply flag_divide_rounds. exact H1.
  - right. apply (full_dec_step g s3 _ r K4 T4). apply (full_dec_step g s2 s3 r K3 (decide_round_received_tmono s2) H1).
Qed.

(** * Along a run *)
Section Run.
  Variables (g : peerset) (all : list event).
  Hypothesis ID : ids_determine all.
  Hypothesis NA : no_accept all.

  Lemma hrun_nf_from ops : Forall (hop_ok all) ops -> forall st, nf_inv g all st -> nf_inv g all (hrun st ops).
  Proof.
    induction 1 as [|o ops Ho Hops IH]; intros st N; cbn [hrun fold_left]; [exact N|].
    apply IH. apply hstep_nf; assumption.
  Qed.

  Lemma hrun_tmono_from ops : Forall (hop_ok all) ops -> forall st, nf_inv g all st -> tmono st (hrun st ops).
  Proof.
    induction 1 as [|o ops Ho Hops IH]; intros st N; cbn [hrun fold_left]; [apply tmono_refl|].
    eapply tmono_trans; [apply (hstep_tmono g all st o ID NA Ho N)|]. apply IH. apply hstep_nf; assumption.
  Qed.

  Lemma hrun_stored_from ops : Forall (hop_ok all) ops -> forall st, nf_inv g all st ->
    forall y, get_event st y <> None -> get_event (hrun st ops) y <> None.
  Proof.
    induction 1 as [|o ops Ho Hops IH]; intros st N y Hy; cbn [hrun fold_left]; [exact Hy|].
    apply IH; [apply hstep_nf; assumption|].
    destruct (get_event st y) as [ey|] eqn:E; [|contradiction].
    destruct (m_e _ _ (proj2 (hstep_ginv all st o ID Ho (nf_g _ _ _ N))) y ey E) as [ey' [E' _]]. rewrite E'. discriminate.
  Qed.

  Lemma Forall_firstn {A} (P : A -> Prop) k l : Forall P l -> Forall P (firstn k l).
  Proof. intros H. apply Forall_forall. intros x Hx. rewrite Forall_forall in H. apply H. eapply In_firstn; eauto. Qed.
  Lemma Forall_skipn {A} (P : A -> Prop) k : forall l, Forall P l -> Forall P (skipn k l).
  Proof.
    induction k as [|k IH]; intros l H; [exact H|]. destruct l as [|a l]; [constructor|].
    cbn [skipn]. apply IH. inversion H; assumption.
  Qed.

  Variables (self_ : Z) (oracle_ : list Z).
  Let init := init_hg self_ g oracle_.

  Lemma hrun_split ops k : hrun init ops = hrun (hrun init (firstn k ops)) (skipn k ops).
  Proof. rewrite <- hrun_app, firstn_skipn. reflexivity. Qed.

  (* a set flag was set in a state of the run where the round was fully decided *)
  Theorem flag_history ops r : Forall (hop_ok all) ops ->
    flag (hrun init ops) r -> exists k, full_dec g (hrun init (firstn k ops)) r.
  Proof.
    induction ops as [|o ops IH] using rev_ind; intros H Hf.
    - exfalso. destruct Hf as [ri [Hg _]]. cbn [hrun fold_left] in Hg. unfold get_round in Hg.
      destruct (cw_fields _ _ (cw_init self_ g oracle_)) as [_ [Ro _]]. unfold init in Hg. rewrite Ro in Hg. cbn in Hg.
      rewrite zget_empty in Hg. discriminate.
    - apply Forall_app in H. destruct H as [Hops Ho]. inversion Ho as [|? ? Ho' _]; subst.
      rewrite hrun_app in Hf. cbn [hrun fold_left] in Hf.
      pose proof (hrun_nf g all self_ oracle_ ops ID NA Hops) as N. fold init in N.
      destruct (hstep_flag g all (hrun init ops) o r ID NA Ho' N Hf) as [H|H].
      + destruct (IH Hops H) as [k Hk]. exists (Nat.min k (length ops)).
        rewrite firstn_app. replace (Nat.min k (length ops) - length ops)%nat with O by lia.
        cbn [firstn]. rewrite app_nil_r.
        destruct (Nat.le_ge_cases k (length ops)) as [Hle|Hge].
        * rewrite Nat.min_l by exact Hle. exact Hk.
        * rewrite Nat.min_r by exact Hge. rewrite firstn_all2 in Hk by exact Hge. rewrite firstn_all. exact Hk.
      + exists (length (ops ++ [o])). rewrite firstn_all, hrun_app. exact H.
  Qed.

  (* the famous witnesses of a round do not change after it has been fully decided *)
  Theorem famous_stable ops k r x : Forall (hop_ok all) ops ->
    full_dec g (hrun init (firstn k ops)) r ->
    (frec (hrun init ops) r x true <-> frec (hrun init (firstn k ops)) r x true).
  Proof.
    intros H D.
    pose proof (Forall_firstn _ k ops H) as Hk. pose proof (Forall_skipn _ k ops H) as Hs.
    pose proof (hrun_nf g all self_ oracle_ (firstn k ops) ID NA Hk) as NT. fold init in NT.
    pose proof (hrun_nf g all self_ oracle_ ops ID NA H) as N. fold init in N.
    pose proof (hrun_FI g all self_ oracle_ (firstn k ops) ID NA Hk) as FT. fold init in FT.
    pose proof (hrun_FI g all self_ oracle_ ops ID NA H) as F. fold init in F.
    set (sT := hrun init (firstn k ops)) in *. set (st := hrun init ops) in *.
    assert (Est : st = hrun sT (skipn k ops)) by (apply hrun_split).
    assert (Sub : forall y, get_event sT y <> None -> get_event st y <> None).
    { intros y Hy. rewrite Est. apply (hrun_stored_from _ Hs sT NT y Hy). }
    split.
    - intros Hr.
      pose proof (nf_good g all st N) as G. pose proof (nf_good g all sT NT) as GT.
      assert (SB : same_bodies st sT).
      { apply (same_bodies_of_universe all g); auto;
          [apply (g_from _ _ (gi_core _ _ (nf_g _ _ _ N)))|apply (g_from _ _ (gi_core _ _ (nf_g _ _ _ NT)))]. }
      assert (NFk : no_cross_fork st sT).
      { intros x1 x2 e1 e2 H1 H2 Hc Hi.
        assert (H2' : get_event st x2 <> None) by (apply Sub; rewrite H2; discriminate).
        destruct (get_event st x2) as [e2'|] eqn:E2; [|contradiction].
        apply (dag_ok_no_fork st x1 x2 e1 e2' (gd_dag _ _ G) H1 E2); rewrite (SB x2 e2' e2 E2 H2); assumption. }
      apply (famous_transfer g st sT G GT (rinv_contig _ (nf_r _ _ _ N)) (rinv_contig _ (nf_r _ _ _ NT))
               (nf_r _ _ _ N) (nf_r _ _ _ NT) F FT SB NFk r x Hr D).
    - intros Hr. rewrite Est. apply (tmono_frec sT _ r x true (hrun_tmono_from _ Hs sT NT) Hr).
  Qed.
End Run.

(** * Two nodes whose round r is flagged decided hold the same famous witnesses of round r *)
Theorem famous_agree_flags :
  forall genesis all self1 self2 oracle1 oracle2 ops1 ops2 r x,
  ids_determine all -> no_accept all -> Forall (hop_ok all) ops1 -> Forall (hop_ok all) ops2 ->
  let st1 := hrun (init_hg self1 genesis oracle1) ops1 in
  let st2 := hrun (init_hg self2 genesis oracle2) ops2 in
  no_cross_fork st1 st2 -> flag st1 r -> flag st2 r ->
  (frec st1 r x true <-> frec st2 r x true).
Proof.
  intros g all s1 s2 o1 o2 ops1 ops2 r x ID NA H1 H2 st1 st2 NF Fl1 Fl2.
  destruct (flag_history g all ID NA s1 o1 ops1 r H1 Fl1) as [k1 D1].
  destruct (flag_history g all ID NA s2 o2 ops2 r H2 Fl2) as [k2 D2].
  unfold st1, st2.
  rewrite (famous_stable g all ID NA s1 o1 ops1 k1 r x H1 D1).
  rewrite (famous_stable g all ID NA s2 o2 ops2 k2 r x H2 D2).
  pose proof (Forall_firstn _ k1 ops1 H1) as Hk1. pose proof (Forall_firstn _ k2 ops2 H2) as Hk2.
  pose proof (hrun_nf g all s1 o1 _ ID NA Hk1) as NT1. pose proof (hrun_nf g all s2 o2 _ ID NA Hk2) as NT2.
  pose proof (hrun_nf g all s1 o1 _ ID NA H1) as N1. pose proof (hrun_nf g all s2 o2 _ ID NA H2) as N2.
  pose proof (hrun_FI g all s1 o1 _ ID NA Hk1) as FT1. pose proof (hrun_FI g all s2 o2 _ ID NA Hk2) as FT2.
  set (sT1 := hrun (init_hg s1 g o1) (firstn k1 ops1)) in *. set (sT2 := hrun (init_hg s2 g o2) (firstn k2 ops2)) in *.
  pose proof (nf_good g all sT1 NT1) as G1. pose proof (nf_good g all sT2 NT2) as G2.
  assert (SBT : same_bodies sT1 sT2).
  { apply (same_bodies_of_universe all g); auto;
      [apply (g_from _ _ (gi_core _ _ (nf_g _ _ _ NT1)))|apply (g_from _ _ (gi_core _ _ (nf_g _ _ _ NT2)))]. }
  assert (Sub1 : forall y, get_event sT1 y <> None -> get_event st1 y <> None).
  { intros y Hy. unfold st1. rewrite (hrun_split g s1 o1 ops1 k1).
    apply (hrun_stored_from g all ID NA _ (Forall_skipn _ k1 ops1 H1) sT1 NT1 y Hy). }
  assert (Sub2 : forall y, get_event sT2 y <> None -> get_event st2 y <> None).
  { intros y Hy. unfold st2. rewrite (hrun_split g s2 o2 ops2 k2).
    apply (hrun_stored_from g all ID NA _ (Forall_skipn _ k2 ops2 H2) sT2 NT2 y Hy). }
  assert (SB1 : same_bodies sT1 st1).
  { apply (same_bodies_of_universe all g); auto; [apply (nf_good g all st1 N1)|
      apply (g_from _ _ (gi_core _ _ (nf_g _ _ _ NT1)))|apply (g_from _ _ (gi_core _ _ (nf_g _ _ _ N1)))]. }
  assert (SB2 : same_bodies sT2 st2).
  { apply (same_bodies_of_universe all g); auto; [apply (nf_good g all st2 N2)|
      apply (g_from _ _ (gi_core _ _ (nf_g _ _ _ NT2)))|apply (g_from _ _ (gi_core _ _ (nf_g _ _ _ N2)))]. }
  assert (NFT : no_cross_fork sT1 sT2).
  { intros x1 x2 e1 e2 Hx1 Hx2 Hc Hi.
    assert (A1 : get_event st1 x1 <> None) by (apply Sub1; rewrite Hx1; discriminate).
    assert (A2 : get_event st2 x2 <> None) by (apply Sub2; rewrite Hx2; discriminate).
    destruct (get_event st1 x1) as [e1'|] eqn:E1; [|contradiction].
    destruct (get_event st2 x2) as [e2'|] eqn:E2; [|contradiction].
    apply (NF x1 x2 e1' e2' E1 E2); rewrite <- (SB1 x1 e1 e1' Hx1 E1), <- (SB2 x2 e2 e2' Hx2 E2); assumption. }
  split; intros H.
  - apply (famous_transfer g sT1 sT2 G1 G2 (rinv_contig _ (nf_r _ _ _ NT1)) (rinv_contig _ (nf_r _ _ _ NT2))
             (nf_r _ _ _ NT1) (nf_r _ _ _ NT2) FT1 FT2 SBT NFT r x H D2).
  - apply (famous_transfer g sT2 sT1 G2 G1 (rinv_contig _ (nf_r _ _ _ NT2)) (rinv_contig _ (nf_r _ _ _ NT1))
             (nf_r _ _ _ NT2) (nf_r _ _ _ NT1) FT2 FT1 (same_bodies_sym _ _ SBT) (no_cross_fork_sym _ _ NFT) r x H D1).
Qed.

(* in the vocabulary of the model *)
Theorem famous_witnesses_agree_decided_hrun :
  forall genesis all self1 self2 oracle1 oracle2 ops1 ops2 r ri1 ri2 x,
  ids_determine all -> no_accept all -> Forall (hop_ok all) ops1 -> Forall (hop_ok all) ops2 ->
  let st1 := hrun (init_hg self1 genesis oracle1) ops1 in
  let st2 := hrun (init_hg self2 genesis oracle2) ops2 in
  no_cross_fork st1 st2 ->
  get_round st1 r = Some ri1 -> get_round st2 r = Some ri2 ->
  ri_decided ri1 = true -> ri_decided ri2 = true ->
  (In x (famous_witnesses ri1) <-> In x (famous_witnesses ri2)).
Proof.
  intros g all s1 s2 o1 o2 ops1 ops2 r ri1 ri2 x ID NA H1 H2 st1 st2 NF Hg1 Hg2 Hd1 Hd2.
  pose proof (nf_good g all st1 (hrun_nf g all s1 o1 ops1 ID NA H1)) as G1.
  pose proof (nf_good g all st2 (hrun_nf g all s2 o2 ops2 ID NA H2)) as G2.
  rewrite (famous_witnesses_frec g st1 r ri1 x G1 Hg1), (famous_witnesses_frec g st2 r ri2 x G2 Hg2).
  apply (famous_agree_flags g all s1 s2 o1 o2 ops1 ops2 r x ID NA H1 H2 NF); [exists ri1|exists ri2]; auto.
Qed.
