(* Dynamic membership (model after fix 05eda0b): the sticky "witnesses decided" flag of a round.  A flag that is
   set was set in an (earlier or the current) state of the same run in which all known witnesses of the round were
   decided and were a super-majority of the set the table gives for that round ([full_decD (P r)]); the famous
   witnesses of the round have not changed since.  Adapted from Proofs/DecidedFlag.v (the table is threaded through
   the stages of a pass: [gT]). *)
From Coq Require Import ZArith List Bool Lia ZifyBool Permutation.
From RecordUpdate Require Import RecordSet.
From V Require Import Model.ZMap Model.Quorum Model.Voting Model.VotingRef Model.HgImpl Model.PeerSetSpec Model.Window
  Proofs.ZMapFacts Proofs.QuorumProofs Proofs.HgFrames Proofs.HgDagFrames Proofs.AdmissionProofs Proofs.Ancestry
  Proofs.HgBlockFrames Proofs.BlockInv Proofs.RoundOrder Proofs.OrderFrames Proofs.OrderProofs
  Proofs.VotingProofs Proofs.FameBridge Proofs.Static Proofs.FirstDesc Proofs.FdWalk Proofs.DivInv Proofs.CInvRun
  Proofs.Height Proofs.StronglySee Proofs.RoundFun Proofs.ViewOk Proofs.SameHistory Proofs.Agreement Proofs.NoFail
  Proofs.LrFrames Proofs.FameInv Proofs.LateWitness Proofs.FamousSet Proofs.DecidedFlag
  Proofs.PeerSetProofs Proofs.LrMono Proofs.WindowStable Proofs.GapWindow
  Proofs.FirstDescD Proofs.InsertInvD Proofs.DivInvD Proofs.CInvRunD Proofs.StronglySeeD Proofs.RoundFunD Proofs.RoundAgreeD
  Proofs.ViewOkD Proofs.SameHistoryD Proofs.AgreementD Proofs.FameInvD Proofs.LateWitnessD Proofs.FamousSetD.
Import ListNotations RecordSetNotations.
Open Scope Z_scope.

(** * A state inside a pass: the division invariant, contiguous rounds, and the table answers P on its rounds *)
Definition tblD (P : Z -> peerset) (s : hg) : Prop := forall q, 0 <= q <= last_round s -> get_peerset s q = Some (P q).
Record gT (P : Z -> peerset) (s : hg) : Prop := {
  gt_i : cinvD P None s; gt_c : contig s; gt_lr : -1 <= last_round s; gt_t : tblD P s }.

Lemma gT_bounded P s : gT P s -> rounds_bounded s.
Proof. intros [_ C L _]. split; [exact L|]. intros r Hr. apply C. exact Hr. Qed.

Lemma gT_step P s s' : gT P s -> ckeepD s s' -> bview s' = bview s -> last_round s' = last_round s -> gT P s'.
Proof.
  intros [I C L T] K B E. constructor.
  - eapply cinvD_ckeepD; eauto.
  - intros r. rewrite E. rewrite <- (C r). split; intros H0 D; apply H0; apply (kd_rd _ _ K r); exact D.
  - rewrite E. exact L.
  - intros q Hq. rewrite (get_peerset_bview _ _ q B). apply T. rewrite <- E. exact Hq.
Qed.

Lemma ckeepD_wits s s' r : ckeepD s s' -> wits s' r = wits s r.
Proof. intros K. unfold wits. rewrite (kd_wl _ _ K r). reflexivity. Qed.

Lemma witness_entryD P st r ri y : cinvD P None st -> get_round st r = Some ri -> In y (witnesses ri) ->
  exists f, aget y (ri_created ri) = Some (true, f).
Proof.
  intros I Hg Hy. unfold witnesses in Hy. apply in_map_iff in Hy. destruct Hy as [[y' [w f]] [E Hy]]. cbn in E. subst y'.
  apply filter_In in Hy. destruct Hy as [Hin Hw]. cbn in Hw. subst w. exists f.
  apply ukeys_In_aget; [|exact Hin].
  pose proof (cd_tabu _ _ _ I r) as U. unfold wl in U. rewrite Hg in U. unfold wl_of in U.
  rewrite map_map in U. cbn [fst] in U. exact U.
Qed.

Lemma full_dec_of_tableD P g st r ri : cinvD P None st -> get_round st r = Some ri ->
  existsb (fun e : Z * (bool * trilean) => match snd e with (true, Undefined) => true | _ => false end) (ri_created ri) = false ->
  super_majority g <= Z.of_nat (length (witnesses ri)) -> full_decD g st r.
Proof.
  intros G Hg Ex Hsm.
  split; [rewrite (wits_get_round st r ri Hg); exact Hsm|].
  intros x Hx. rewrite (wits_get_round st r ri Hg) in Hx.
  destruct (witness_entryD P st r ri x G Hg Hx) as [f Ha].
  assert (Hf : f <> Undefined).
  { intros ->. assert (C : existsb (fun e : Z * (bool * trilean) => match snd e with (true, Undefined) => true | _ => false end)
                             (ri_created ri) = true).
    { apply existsb_exists. exists (x, (true, Undefined)). split; [apply aget_In; exact Ha|reflexivity]. }
    congruence. }
  destruct f; [contradiction|exists true|exists false]; exists ri; auto.
Qed.

Lemma decide_fame_round_tmonoD P s dec pr : cinvD P None s -> tmono s (fst (decide_fame_round (s, dec) pr)).
Proof.
  intros I. unfold decide_fame_round.
  destruct (failed s); [apply tmono_refl|].
  assert (Tf : tmono s (fail s)) by (apply tmono_rounds; destruct s; reflexivity).
  destruct (get_round s (fst pr)) as [ri|] eqn:Hri; [|exact Tf].
  destruct (get_peerset s (fst pr)) as [rps|]; [|exact Tf].
  match goal with |- context [fold_left ?f ?l ?a] => destruct (fold_left f l a) as [ri'|] eqn:Hf end; [|exact Tf].
  destruct (fame_fold_mono s (fst pr) (witnesses ri) ri ri' (fun y => witness_entryD P s _ ri y I Hri) Hf) as [M D].
  destruct (witnesses_decided_cases ri' rps) as [Hc [Hs _]].
  destruct (witnesses_decided ri' rps) as [d ri'']. cbn [fst snd] in *.
  apply (tmono_zset s _ (fst pr) ri ri'' Hri); [destruct s; reflexivity|intros Hd; apply Hs; congruence|].
  rewrite Hc. exact M.
Qed.

Lemma decide_fame_round_gT P s dec pr : gT P s -> gT P (fst (decide_fame_round (s, dec) pr)).
Proof.
  intros G. apply (gT_step P s _ G (ckeep_ckeepD _ _ (decide_fame_round_ckeep s dec pr))
                   (decide_fame_round_bview s dec pr)).
  apply (fk_lr _ _ (decide_fame_round_fkeep s dec pr (gt_c _ _ G))).
Qed.

Lemma decide_fame_round_flagD P s dec pr r : gT P s ->
  flag (fst (decide_fame_round (s, dec) pr)) r -> flag s r \/ full_decD (P r) (fst (decide_fame_round (s, dec) pr)) r.
Proof.
  intros G.
  pose proof (decide_fame_round_gT P s dec pr G) as G'.
  revert G'. unfold decide_fame_round.
  destruct (failed s); [auto|].
  assert (Ff : flag (fail s) r -> flag s r) by (apply flag_rounds; destruct s; reflexivity).
  destruct (get_round s (fst pr)) as [ri|] eqn:Hri; [|auto].
  assert (H0 : 0 <= fst pr) by (eapply get_round_some_nonneg; eauto).
  assert (Hrng : 0 <= fst pr <= last_round s) by (apply (gt_c _ _ G); rewrite Hri; discriminate).
  rewrite (gt_t _ _ G (fst pr) Hrng).
  match goal with |- context [fold_left ?f ?l ?a] => destruct (fold_left f l a) as [ri'|] eqn:Hf end; [|auto].
  destruct (fame_fold_mono s (fst pr) (witnesses ri) ri ri' (fun y => witness_entryD P s _ ri y (gt_i _ _ G) Hri) Hf) as [M D].
  destruct (witnesses_decided_cases ri' (P (fst pr))) as [Hc [_ Hn]].
  destruct (witnesses_decided ri' (P (fst pr))) as [d ri'']. cbn [fst snd] in *.
  intros G' [rj [Hg Hd]].
  pose proof (get_round_zset s (set_round s (fst pr) ri'') (fst pr) ri'' r H0 ltac:(destruct s; reflexivity)) as Eg.
  rewrite Eg in Hg. destruct (Z.eqb_spec (fst pr) r) as [<-|Hne]; [|left; exists rj; auto].
  inversion Hg; subst rj. destruct (Hn Hd) as [Hold|[Ex Hsm]].
  - left. exists ri. split; [exact Hri|congruence].
  - right. apply (full_dec_of_tableD P _ _ (fst pr) ri'' (gt_i _ _ G')).
    + rewrite (get_round_zset s (set_round s (fst pr) ri'') (fst pr) ri'' (fst pr) H0) by (destruct s; reflexivity).
      rewrite Z.eqb_refl. reflexivity.
    + rewrite Hc. exact Ex.
    + rewrite (witnesses_same_created _ _ Hc). exact Hsm.
Qed.

Lemma full_dec_stepD g s s' r : ckeepD s s' -> tmono s s' -> full_decD g s r -> full_decD g s' r.
Proof.
  intros K T [Hsm Hall]. split; [rewrite (ckeepD_wits s s' r K); exact Hsm|].
  intros x Hx. rewrite (ckeepD_wits s s' r K) in Hx. destruct (Hall x Hx) as [v Hv].
  exists v. eapply tmono_frec; eauto.
Qed.

Lemma decide_fame_fold_tmonoD P l : forall s dec, cinvD P None s -> tmono s (fst (fold_left decide_fame_round l (s, dec))).
Proof.
  induction l as [|pr l IH]; intros s dec I; cbn [fold_left]; [apply tmono_refl|].
  pose proof (decide_fame_round_tmonoD P s dec pr I) as T1. pose proof (decide_fame_round_ckeep s dec pr) as K1.
  destruct (decide_fame_round (s, dec) pr) as [s' dec']. cbn [fst] in *.
  eapply tmono_trans; [exact T1|]. apply IH. eapply cinvD_ckeepD; [exact I|apply ckeep_ckeepD; exact K1].
Qed.

Lemma decide_fame_tmonoD P st : cinvD P None st -> tmono st (decide_fame st).
Proof.
  intros I. unfold decide_fame. pose proof (decide_fame_fold_tmonoD P (pending st) st [] I) as T.
  destruct (fold_left decide_fame_round (pending st) (st, [])) as [s decided]. cbn [fst] in T.
  destruct (failed s); [exact T|]. eapply tmono_trans; [exact T|apply tmono_rounds; destruct s; reflexivity].
Qed.

Lemma decide_fame_flagD P st r : gT P st ->
  flag (decide_fame st) r -> flag st r \/ full_decD (P r) (decide_fame st) r.
Proof.
  intros G. unfold decide_fame.
  assert (H : forall l s dec, gT P s ->
              flag (fst (fold_left decide_fame_round l (s, dec))) r ->
              flag s r \/ full_decD (P r) (fst (fold_left decide_fame_round l (s, dec))) r).
  { induction l as [|pr l IH]; intros s dec Gs; cbn [fold_left]; [auto|].
    pose proof (decide_fame_round_flagD P s dec pr r Gs) as B1.
    pose proof (decide_fame_round_gT P s dec pr Gs) as G1.
    pose proof (decide_fame_fold_tmonoD P l) as T2. pose proof (fold_ckeep_fst decide_fame_round l decide_fame_round_ckeep) as K2.
    destruct (decide_fame_round (s, dec) pr) as [s' dec']. cbn [fst] in *.
    intros Hfl. destruct (IH s' dec' G1 Hfl) as [H'|H']; [|auto].
    destruct (B1 H') as [H''|H'']; [auto|]. right.
    apply (full_dec_stepD _ s' _ r (ckeep_ckeepD _ _ (K2 s' dec')) (T2 s' dec' (gt_i _ _ G1)) H''). }
  specialize (H (pending st) st [] G).
  destruct (fold_left decide_fame_round (pending st) (st, [])) as [s decided]. cbn [fst] in H.
  destruct (failed s); [exact H|].
  intros Hfl. assert (H0 : flag s r) by (revert Hfl; apply flag_rounds; destruct s; reflexivity).
  destruct (H H0) as [H1|H1]; [auto|]. right.
  apply (full_dec_stepD _ s _ r); [apply ckeep_ckeepD, ckeep_set_pending|apply tmono_rounds; destruct s; reflexivity|exact H1].
Qed.

(** ** DecideRoundReceived *)
Lemma rr_loop_flagD P x r : forall is_ st, gT P st ->
  flag (fst (rr_loop st x is_)) r -> flag st r \/ full_decD (P r) (fst (rr_loop st x is_)) r.
Proof.
  induction is_ as [|i rest IH]; intros st G; cbn [rr_loop]; [auto|].
  destruct (get_round st i) as [tr|] eqn:Hg;
    [|destruct (lower_bound st) as [lb0|]; [destruct (i <=? lb0); [apply IH; exact G|auto]|auto]].
  assert (Ff : forall s, flag (fail s) r -> flag s r) by (intros s; apply flag_rounds; destruct s; reflexivity).
  assert (Hi : 0 <= i) by (eapply get_round_some_nonneg; eauto).
  assert (Hrng : 0 <= i <= last_round st) by (apply (gt_c _ _ G); rewrite Hg; discriminate).
  rewrite (gt_t _ _ G i Hrng).
  destruct (witnesses_decided_cases tr (P i)) as [Hc [Hs Hn]].
  pose proof (wl_of_witnesses_decided tr (P i)) as Hwl.
  destruct (witnesses_decided tr (P i)) as [d tr']. cbn [snd] in *.
  set (st1 := st <| rounds := zset i tr' (rounds st) |>).
  assert (K1 : ckeep st st1) by (apply (ckeep_set_rounds st i tr tr' Hg Hwl)).
  assert (G1 : gT P st1).
  { apply (gT_step P st st1 G); [apply ckeep_ckeepD; exact K1|
      apply bview_set_rounds|unfold st1; destruct st; reflexivity]. }
  assert (Eg1 : forall r', get_round st1 r' = if i =? r' then Some tr' else get_round st r').
  { intros r'. apply (get_round_zset st st1 i tr' r' Hi). unfold st1. destruct st; reflexivity. }
  (* the flag of st1 *)
  assert (B1 : flag st1 r -> flag st r \/ full_decD (P r) st1 r).
  { intros [rj [Hgj Hdj]]. rewrite Eg1 in Hgj. destruct (Z.eqb_spec i r) as [<-|Hne]; [|left; exists rj; auto].
    inversion Hgj; subst rj. destruct (Hn Hdj) as [Hold|[Ex Hsm]]; [left; exists tr; auto|right].
    apply (full_dec_of_tableD P _ st1 i tr' (gt_i _ _ G1)); [rewrite Eg1, Z.eqb_refl; reflexivity|rewrite Hc; exact Ex|].
    rewrite (witnesses_same_created _ _ Hc). exact Hsm. }
  (* continuing from st1 *)
  assert (Cont : forall s_end, ckeep st1 s_end -> tmono st1 s_end ->
            (flag s_end r -> flag st1 r \/ full_decD (P r) s_end r) ->
            flag s_end r -> flag st r \/ full_decD (P r) s_end r).
  { intros s_end K T B Hfl. destruct (B Hfl) as [H|H]; [|auto].
    destruct (B1 H) as [H'|H']; [auto|right]. eapply full_dec_stepD; [apply ckeep_ckeepD; exact K|exact T|exact H']. }
  assert (Same : forall s_end, rounds s_end = rounds st1 -> ckeep st1 s_end -> flag s_end r -> flag st r \/ full_decD (P r) s_end r).
  { intros s_end E K. apply (Cont s_end K (tmono_rounds _ _ E)). intros H. left. revert H. apply flag_rounds. exact E. }
  destruct d; cbn [negb].
  - match goal with |- context [fold_left ?f ?l ?a] => destruct (fold_left f l a) as [sees|] end;
      [|cbn [fst]; apply Same; [destruct st1; reflexivity|apply ckeep_fail]].
    destruct (_ && _).
    + destruct (get_event st1 x) as [ex|] eqn:Hx; cbn [fst]; [|apply Same; [destruct st1; reflexivity|apply ckeep_fail]].
      set (st2 := set_evst st1 x (ex <| ev_rr := Some i |>)).
      assert (K2 : ckeep st1 st2) by (eapply ckeep_set_evst; [exact Hx|destruct ex; reflexivity]).
      assert (Hg2 : get_round st2 i = Some tr').
      { unfold st2, get_round, set_evst. pose proof (Eg1 i) as E. rewrite Z.eqb_refl in E. unfold get_round in E. destruct st1; exact E. }
      set (tr2 := tr' <| ri_received := ri_received tr' ++ [x] |>).
      assert (K3 : ckeep st2 (set_round st2 i tr2)) by (apply (ckeep_set_round st2 i tr'); [exact Hg2|destruct tr'; reflexivity]).
      assert (T2' : tmono st1 st2) by (apply tmono_rounds; unfold st2; destruct st1; reflexivity).
      assert (T3 : tmono st1 (set_round st2 i tr2)).
      { eapply tmono_trans; [exact T2'|].
        apply (tmono_zset st2 _ i tr' tr2 Hg2); [destruct st2; reflexivity|destruct tr'; auto|destruct tr'; apply ent_mono_refl]. }
      apply (Cont _ (ckeep_trans _ _ _ K2 K3) T3).
      intros [rj [Hgj Hdj]]. left.
      rewrite (get_round_zset st2 (set_round st2 i tr2) i tr2 r Hi) in Hgj by (destruct st2; reflexivity).
      destruct (Z.eqb_spec i r) as [<-|Hne].
      * inversion Hgj; subst rj. exists tr'. split; [rewrite Eg1, Z.eqb_refl; reflexivity|destruct tr'; exact Hdj].
      * exists rj. split; [|exact Hdj]. unfold st2, get_round, set_evst in Hgj. unfold get_round. destruct st1; exact Hgj.
    + apply (Cont _ (rr_loop_ckeep x rest st1) (rr_loop_tmono x rest st1)). apply IH. exact G1.
  - destruct (lower_bound st1) as [lb|]; [|apply Same; [reflexivity|apply ckeep_refl]].
    destruct (lb <? i); [apply Same; [reflexivity|apply ckeep_refl]|].
    apply (Cont _ (rr_loop_ckeep x rest st1) (rr_loop_tmono x rest st1)). apply IH. exact G1.
Qed.

Lemma decide_rr_one_flagD P s und x r : gT P s ->
  flag (fst (decide_rr_one (s, und) x)) r -> flag s r \/ full_decD (P r) (fst (decide_rr_one (s, und) x)) r.
Proof.
  intros G. unfold decide_rr_one. destruct (failed s); [auto|].
  pose proof (round_f_pureD P (Z.to_nat (topo s)) s x (gt_i _ _ G)) as Hp. unfold fuel_of.
  destruct (round_f (S (Z.to_nat (topo s))) s x) as [[r0|] s1]; cbn [snd] in Hp; subst s1.
  - pose proof (rr_loop_flagD P x r (zrange (r0 + 1) (last_round s)) s G) as H.
    destruct (rr_loop s x (zrange (r0 + 1) (last_round s))) as [s' received]. exact H.
  - cbn [fst]. intros H. left. revert H. apply flag_rounds. destruct s; reflexivity.
Qed.

Lemma decide_rr_one_gT P s und x : gT P s -> gT P (fst (decide_rr_one (s, und) x)).
Proof.
  intros G. apply (gT_step P s _ G); [apply (decide_rr_one_ckeepD P), (gt_i _ _ G)|
    apply decide_rr_one_bview|apply (s_lr _ _ (decide_rr_one_rstep s und x (gT_bounded P s G)))].
Qed.

Lemma decide_round_received_flagD P st r : gT P st ->
  flag (decide_round_received st) r -> flag st r \/ full_decD (P r) (decide_round_received st) r.
Proof.
  intros G. unfold decide_round_received.
  assert (Kf : forall l s und, gT P s -> ckeepD s (fst (fold_left decide_rr_one l (s, und))) /\
                 tmono s (fst (fold_left decide_rr_one l (s, und)))).
  { induction l as [|x l IH]; intros s und Gs; cbn [fold_left]; [split; [apply ckeepD_refl|apply tmono_refl]|].
    pose proof (decide_rr_one_ckeepD P s und x (gt_i _ _ Gs)) as K1. pose proof (decide_rr_one_tmono s und x) as T1.
    pose proof (decide_rr_one_gT P s und x Gs) as G1.
    destruct (decide_rr_one (s, und) x) as [s' und']. cbn [fst] in *.
    destruct (IH s' und' G1) as [K2 T2]. split; [eapply ckeepD_trans; eauto|eapply tmono_trans; eauto]. }
  assert (H : forall l s und, gT P s ->
              flag (fst (fold_left decide_rr_one l (s, und))) r ->
              flag s r \/ full_decD (P r) (fst (fold_left decide_rr_one l (s, und))) r).
  { induction l as [|x l IH]; intros s und Gs; cbn [fold_left]; [auto|].
    pose proof (decide_rr_one_flagD P s und x r Gs) as B1. pose proof (decide_rr_one_gT P s und x Gs) as G1.
    pose proof (Kf l) as Kl.
    destruct (decide_rr_one (s, und) x) as [s' und']. cbn [fst] in *.
    intros Hfl. destruct (IH s' und' G1 Hfl) as [H'|H']; [|auto].
    destruct (B1 H') as [H''|H'']; [auto|]. right. destruct (Kl s' und' G1) as [K2 T2].
    eapply full_dec_stepD; eauto. }
  specialize (H (undetermined st) st [] G).
  destruct (fold_left decide_rr_one (undetermined st) (st, [])) as [s und]. cbn [fst] in H.
  destruct (failed s); [exact H|].
  intros Hfl. assert (H0 : flag s r) by (revert Hfl; apply flag_rounds; destruct s; reflexivity).
  destruct (H H0) as [H1|H1]; [auto|]. right.
  apply (full_dec_stepD _ s _ r); [apply ckeep_ckeepD, ckeep_set_undetermined|apply tmono_rounds; destruct s; reflexivity|exact H1].
Qed.

(** * One step of the node *)
Section Step.
  Variables (P : Z -> peerset) (all : list event) (st : hg) (o : hop).
  Hypothesis ID : ids_determine all.
  Hypothesis Ho : hop_ok all o.
  Hypothesis Gi : ginv all st.
  Hypothesis LA : la_ok st.
  Hypothesis R : rinv st.
  Hypothesis Hne : peersets st <> [].
  Hypothesis I : cinvD P None st.
  Hypothesis Hf' : failed (hstep st o) = false.
  Hypothesis Tq : forall q, 0 <= q <= last_round (hstep st o) -> get_peerset st q = Some (P q).

  Lemma hstep_tmonoD : tmono st (hstep st o).
  Proof.
    revert Hf' Tq. destruct o as [e|]; cbn [hstep]; intros Hf' Tq.
    2:{ apply tmono_rounds. destruct (cw_fields _ _ (cw_process_sigpool st)) as [_ [Ro _]]. exact Ro. }
    destruct Ho as [Hin Hid]. revert Hf' Tq. unfold step, insert_and_run.
    pose proof (g_dag _ _ (gi_core _ _ Gi)) as OK. pose proof (g_from _ _ (gi_core _ _ Gi)) as FA.
    pose proof (insert_event_bview st e) as Bv. pose proof (insert_event_rstep st e) as Sr.
    pose proof (NoFail.insert_event_rounds st e) as [Rs _].
    destruct (insert_event st e) as [r0 s] eqn:E. cbn [snd] in Bv, Sr, Rs.
    destruct (insert_event_inv st e all r0 s OK FA ID Hin Hid E) as [OK' [FA' Hns]].
    assert (Hrej : r0 <> InsOk -> tmono st (snd (r0, s))).
    { intros Hn. rewrite (insert_reject_noop st e r0 s E Hn Hns). apply tmono_refl. }
    destruct r0; try (intros _ _; apply Hrej; discriminate). clear Hrej. cbn [snd]. intros Hf' Tq.
    destruct (insert_cinvD P all st e s OK LA FA ID Hin Hid I E) as [Is Hund].
    assert (Rs' : rinv s) by (apply (rinv_rstep st s R Sr)).
    assert (Hnes : peersets s <> []) by (rewrite (bview_peersets _ _ Bv); exact Hne).
    assert (Hpss : forall q, 0 <= q <= last_round (run_consensus s) -> get_peerset s q = Some (P q))
      by (intros q Hq; rewrite (get_peerset_bview _ _ q Bv); apply Tq; exact Hq).
    destruct (run_consensus_stagesD P s (e_id e) OK' Rs' Hnes Hpss Is Hund Hf') as [Hf1 [Hf2 [Hf3 [Eq [I1 [I2 [I3 [R1 R2]]]]]]]].
    cbv zeta in *. rewrite Eq.
    eapply tmono_trans; [apply tmono_rounds; exact Rs|].
    eapply tmono_trans; [apply tmono_divide_rounds|].
    eapply tmono_trans; [apply (decide_fame_tmonoD P), I1|].
    eapply tmono_trans; [apply decide_round_received_tmono|].
    apply tmono_rounds. destruct (cw_fields _ _ (cw_process_decided_rounds (decide_round_received (decide_fame (divide_rounds s))))) as [_ [Ro _]]. exact Ro.
  Qed.

  Lemma hstep_flagD r : flag (hstep st o) r -> flag st r \/ full_decD (P r) (hstep st o) r.
  Proof.
    revert Hf' Tq. destruct o as [e|]; cbn [hstep]; intros Hf' Tq.
    2:{ intros H. left. revert H. apply flag_rounds. destruct (cw_fields _ _ (cw_process_sigpool st)) as [_ [Ro _]]. exact Ro. }
    destruct Ho as [Hin Hid]. revert Hf' Tq. unfold step, insert_and_run.
    pose proof (g_dag _ _ (gi_core _ _ Gi)) as OK. pose proof (g_from _ _ (gi_core _ _ Gi)) as FA.
    pose proof (insert_event_bview st e) as Bv. pose proof (insert_event_rstep st e) as Sr.
    pose proof (NoFail.insert_event_rounds st e) as [Rs _].
    destruct (insert_event st e) as [r0 s] eqn:E. cbn [snd] in Bv, Sr, Rs.
    destruct (insert_event_inv st e all r0 s OK FA ID Hin Hid E) as [OK' [FA' Hns]].
    assert (Hrej : r0 <> InsOk -> flag (snd (r0, s)) r -> flag st r \/ full_decD (P r) (snd (r0, s)) r).
    { intros Hn. rewrite (insert_reject_noop st e r0 s E Hn Hns). auto. }
    destruct r0; try (intros _ _; apply Hrej; discriminate). clear Hrej. cbn [snd]. intros Hf' Tq.
    destruct (insert_cinvD P all st e s OK LA FA ID Hin Hid I E) as [Is Hund].
    assert (Rs' : rinv s) by (apply (rinv_rstep st s R Sr)).
    assert (Hnes : peersets s <> []) by (rewrite (bview_peersets _ _ Bv); exact Hne).
    assert (Hpss : forall q, 0 <= q <= last_round (run_consensus s) -> get_peerset s q = Some (P q))
      by (intros q Hq; rewrite (get_peerset_bview _ _ q Bv); apply Tq; exact Hq).
    destruct (run_consensus_stagesD P s (e_id e) OK' Rs' Hnes Hpss Is Hund Hf') as [Hf1 [Hf2 [Hf3 [Eq [I1 [I2 [I3 [R1 R2]]]]]]]].
    cbv zeta in *. rewrite Eq in *.
    set (s1 := divide_rounds s) in *. set (s2 := decide_fame s1) in *. set (s3 := decide_round_received s2) in *.
    assert (L3 : last_round s3 = last_round s2)
      by (apply (s_lr _ _ (decide_round_received_rstep s2 (proj1 (rinv_bounded _ R2))))).
    pose proof (lrv_process_decided_rounds s3) as L4. unfold LrFrames.lrv in L4.
    assert (L2 : last_round s2 = last_round s1)
      by (apply (fk_lr _ _ (proj1 (decide_fame_fkeep s1 (rinv_contig _ R1))))).
    assert (G1 : gT P s1).
    { constructor; [exact I1|apply rinv_contig; exact R1|apply (r_lr _ (proj1 R1))|].
      intros q Hq. unfold s1. rewrite (get_peerset_bview _ _ q (divide_rounds_bview _)). apply Hpss. lia. }
    assert (G2 : gT P s2).
    { constructor; [exact I2|apply rinv_contig; exact R2|apply (r_lr _ (proj1 R2))|].
      intros q Hq. unfold s2. rewrite (get_peerset_bview _ _ q (decide_fame_bview _)). apply (gt_t _ _ G1). lia. }
    assert (K3 : ckeepD s2 s3) by (apply (decide_round_received_ckeepD P s2 I2)).
    assert (K4 : ckeepD s3 (process_decided_rounds s3)) by (apply ckeepD_cw, cw_process_decided_rounds).
    assert (T4 : tmono s3 (process_decided_rounds s3)).
    { apply tmono_rounds. destruct (cw_fields _ _ (cw_process_decided_rounds s3)) as [_ [Ro _]]. exact Ro. }
    intros H4.
    assert (H3 : flag s3 r).
    { revert H4. apply flag_rounds. destruct (cw_fields _ _ (cw_process_decided_rounds s3)) as [_ [Ro _]]. exact Ro. }
    destruct (decide_round_received_flagD P s2 r G2 H3) as [H2|H2];
      [|right; apply (full_dec_stepD _ s3 _ r K4 T4 H2)].
    destruct (decide_fame_flagD P s1 r G1 H2) as [H1|H1].
    - left. apply (flag_rounds st s Rs). apply flag_divide_rounds. exact H1.
    - right. apply (full_dec_stepD _ s3 _ r K4 T4). apply (full_dec_stepD _ s2 s3 r K3 (decide_round_received_tmono s2) H1).
  Qed.
End Step.

(** * Along a run that respects the distance bound *)
Section RunD.
  Variables (self_ : Z) (genesis : peerset) (oracle_ : list Z) (all : list event) (ops : list hop).
  Hypothesis Hs : self_ <> -1.
  Hypothesis ID : ids_determine all.
  Hypothesis H : Forall (hop_ok all) ops.
  Hypothesis Hg : gap_runb (init_hg self_ genesis oracle_) ops = true.
  Let init := init_hg self_ genesis oracle_.
  Let pre (k : nat) := hrun init (firstn k ops).
  (* any assignment that coincides with the final table on the rounds of the final state *)
  Variable P : Z -> peerset.
  Hypothesis HP : forall q, 0 <= q <= last_round (hrun init ops) -> P q = psat (hrun init ops) q.

  Lemma pre_split k : hrun init ops = hrun (pre k) (skipn k ops).
  Proof. unfold pre. rewrite <- hrun_app, firstn_skipn. reflexivity. Qed.

  Lemma pre_lr_le k : last_round (pre k) <= last_round (hrun init ops).
  Proof. rewrite (pre_split k). apply hrun_lrq_le. Qed.

  Lemma pre_tbl k : tblD P (pre k).
  Proof.
    intros q Hq. pose proof (pre_lr_le k) as L. unfold pre, init in *.
    rewrite (gap_lookup_final self_ genesis oracle_ ops k q Hs Hg) by lia.
    rewrite (psat_some self_ genesis oracle_ ops q Hs). f_equal. symmetry. apply HP. lia.
  Qed.

  Lemma pre_facts k : failed (pre k) = false ->
    ginv all (pre k) /\ la_ok (pre k) /\ rinv (pre k) /\ peersets (pre k) <> [] /\ cinvD P None (pre k) /\ goodD P (pre k).
  Proof.
    intros Hf. destruct (prefix_facts self_ genesis oracle_ all ops Hs ID H Hg k Hf) as [Gi [LA [R [Hne [I G]]]]].
    fold init in Gi, LA, R, Hne, I, G. fold (pre k) in Gi, LA, R, Hne, I, G.
    assert (EQ : forall q, get_round (pre k) q <> None -> psat (hrun init ops) q = P q).
    { intros q Hq. symmetry. apply HP. apply (rinv_contig _ R) in Hq. pose proof (pre_lr_le k). lia. }
    repeat (split; [assumption|]). split; [apply (cinvD_ext _ _ None _ EQ I)|apply (goodD_ext _ _ _ EQ G)].
  Qed.

  (* step k -> k+1 *)
  Lemma pre_step k : (k < length ops)%nat -> failed (pre (S k)) = false ->
    exists o, hop_ok all o /\ pre (S k) = hstep (pre k) o /\ failed (pre k) = false /\
      (forall q, 0 <= q <= last_round (hstep (pre k) o) -> get_peerset (pre k) q = Some (P q)).
  Proof.
    intros Hk Hf.
    destruct (nth_error ops k) as [o|] eqn:Eo; [|apply nth_error_None in Eo; lia].
    assert (E1 : firstn (S k) ops = firstn k ops ++ [o]).
    { clear - Eo. revert k Eo. induction ops as [|a l IHl]; intros k Eo; [destruct k; discriminate|].
      destruct k as [|k]; [cbn in Eo; inversion Eo; reflexivity|]. cbn [nth_error] in Eo.
      change (a :: firstn (S k) l = a :: (firstn k l ++ [o])). f_equal. apply IHl. exact Eo. }
    assert (ES : pre (S k) = hstep (pre k) o) by (unfold pre; rewrite E1, hrun_app; reflexivity).
    exists o. split; [rewrite Forall_forall in H; apply H; eapply nth_error_In; exact Eo|]. split; [exact ES|].
    assert (Hfk : failed (pre k) = false).
    { destruct (failed (pre k)) eqn:E; [|reflexivity]. rewrite ES, (hstep_failed_mono _ o E) in Hf. discriminate. }
    split; [exact Hfk|]. intros q Hq. rewrite <- ES in Hq.
    pose proof (pre_lr_le (S k)) as L.
    pose proof (gap_run_window self_ genesis oracle_ Hs ops [] Hg) as Hw. unfold reach in Hw. cbn in Hw.
    unfold pre, init in *.
    destruct (window_lookup_final_step self_ genesis oracle_ Hs ops k q Hw Hk) as [A _]; [unfold reach; lia|].
    unfold reach in A. rewrite A.
    rewrite (psat_some self_ genesis oracle_ ops q Hs). f_equal. symmetry. apply HP. lia.
  Qed.

  Lemma pre_all k : (length ops <= k)%nat -> pre k = hrun init ops.
  Proof. intros Hk. unfold pre. rewrite firstn_all2 by lia. reflexivity. Qed.

  Lemma pre_tmono_step k : failed (pre (S k)) = false -> tmono (pre k) (pre (S k)).
  Proof.
    intros Hf. destruct (Nat.lt_ge_cases k (length ops)) as [Hk|Hk].
    - destruct (pre_step k Hk Hf) as [o [Ho [ES [Hfk Tq]]]].
      destruct (pre_facts k Hfk) as [Gi [LA [R [Hne [I _]]]]].
      rewrite ES in Hf |- *. apply (hstep_tmonoD P all (pre k) o ID Ho Gi LA R Hne I Hf Tq).
    - rewrite (pre_all k), (pre_all (S k)) by lia. apply tmono_refl.
  Qed.

  Lemma pre_failed_mono k d : failed (pre (k + d)) = false -> failed (pre k) = false.
  Proof.
    induction d as [|d IH]; [rewrite Nat.add_0_r; auto|]. rewrite Nat.add_succ_r. intros Hf. apply IH.
    destruct (Nat.lt_ge_cases (k + d) (length ops)) as [Hk|Hk].
    - destruct (pre_step (k + d) Hk Hf) as [o [_ [_ [Hfk _]]]]. exact Hfk.
    - rewrite (pre_all (k + d)) by lia. rewrite (pre_all (S (k + d))) in Hf by lia. exact Hf.
  Qed.

  Lemma pre_tmono k d : failed (pre (k + d)) = false -> tmono (pre k) (pre (k + d)).
  Proof.
    induction d as [|d IH]; [rewrite Nat.add_0_r; intros _; apply tmono_refl|]. rewrite Nat.add_succ_r. intros Hf.
    assert (Hfd : failed (pre (k + d)) = false) by (apply (pre_failed_mono (k + d) 1); rewrite Nat.add_1_r; exact Hf).
    eapply tmono_trans; [apply IH; exact Hfd|apply pre_tmono_step; exact Hf].
  Qed.

  Lemma pre_stored k d y : failed (pre (k + d)) = false -> get_event (pre k) y <> None -> get_event (pre (k + d)) y <> None.
  Proof.
    induction d as [|d IH]; [rewrite Nat.add_0_r; auto|]. rewrite Nat.add_succ_r. intros Hf Hy.
    assert (Hfd : failed (pre (k + d)) = false) by (apply (pre_failed_mono (k + d) 1); rewrite Nat.add_1_r; exact Hf).
    specialize (IH Hfd Hy).
    destruct (Nat.lt_ge_cases (k + d) (length ops)) as [Hk|Hk].
    - destruct (pre_step (k + d) Hk Hf) as [o [Ho [ES [Hfk _]]]].
      destruct (pre_facts (k + d) Hfk) as [Gi _]. rewrite ES.
      destruct (get_event (pre (k + d)) y) as [ey|] eqn:E; [|contradiction].
      destruct (m_e _ _ (proj2 (hstep_ginv all _ o ID Ho Gi)) y ey E) as [ey' [E' _]]. rewrite E'. discriminate.
    - rewrite (pre_all (S (k + d))) by lia. rewrite (pre_all (k + d)) in IH by lia. exact IH.
  Qed.

  (* a set flag was set in a state of the run where the round was fully decided *)
  Theorem flag_historyD k r : failed (pre k) = false -> flag (pre k) r ->
    exists k0, (k0 <= k)%nat /\ full_decD (P r) (pre k0) r.
  Proof.
    induction k as [|k IH]; intros Hf Hfl.
    - exfalso. destruct Hfl as [ri [Hgr _]]. unfold pre in Hgr. cbn [firstn hrun fold_left] in Hgr. unfold get_round in Hgr.
      destruct (cw_fields _ _ (cw_init self_ genesis oracle_)) as [_ [Ro _]]. unfold init in Hgr. rewrite Ro in Hgr. cbn in Hgr.
      rewrite zget_empty in Hgr. discriminate.
    - destruct (Nat.lt_ge_cases k (length ops)) as [Hk|Hk].
      + destruct (pre_step k Hk Hf) as [o [Ho [ES [Hfk Tq]]]].
        destruct (pre_facts k Hfk) as [Gi [LA [R [Hne [I _]]]]].
        rewrite ES in Hf, Hfl.
        destruct (hstep_flagD P all (pre k) o ID Ho Gi LA R Hne I Hf Tq r Hfl) as [H0|H0].
        * destruct (IH Hfk H0) as [k0 [Hle D]]. exists k0. split; [lia|exact D].
        * exists (S k). split; [lia|]. rewrite ES. exact H0.
      + rewrite (pre_all (S k)) in Hf, Hfl by lia. rewrite <- (pre_all k) in Hf, Hfl by lia.
        destruct (IH Hf Hfl) as [k0 [Hle D]]. exists k0. split; [lia|exact D].
  Qed.

  (* the famous witnesses of a round do not change after it has been fully decided *)
  Theorem famous_stableD k d r x : failed (pre (k + d)) = false ->
    full_decD (P r) (pre k) r -> (frec (pre (k + d)) r x true <-> frec (pre k) r x true).
  Proof.
    intros Hf D. pose proof (pre_failed_mono k d Hf) as Hfk.
    destruct (pre_facts k Hfk) as [GiT [_ [RT [_ [_ GT]]]]]. destruct (pre_facts (k + d) Hf) as [Gi [_ [R [_ [_ G]]]]].
    pose proof (hrun_FI_D self_ genesis oracle_ all ops Hs ID H Hg k Hfk) as FT. fold init in FT. fold (pre k) in FT.
    pose proof (hrun_FI_D self_ genesis oracle_ all ops Hs ID H Hg (k + d) Hf) as F. fold init in F. fold (pre (k + d)) in F.
    split.
    - intros Hr.
      assert (SB : same_bodies (pre (k + d)) (pre k)).
      { apply (same_bodies_of_universeD all P P _ _ ID G GT); [apply (g_from _ _ (gi_core _ _ Gi))|apply (g_from _ _ (gi_core _ _ GiT))]. }
      assert (NFk : no_cross_fork (pre (k + d)) (pre k)).
      { intros x1 x2 e1 e2 H1 H2 Hc Hi.
        assert (H2' : get_event (pre (k + d)) x2 <> None) by (apply (pre_stored k d x2 Hf); rewrite H2; discriminate).
        destruct (get_event (pre (k + d)) x2) as [e2'|] eqn:E2; [|contradiction].
        apply (dag_ok_no_fork (pre (k + d)) x1 x2 e1 e2' (gD_dag _ _ G) H1 E2); rewrite (SB x2 e2' e2 E2 H2); assumption. }
      apply (famous_transferD P (pre (k + d)) (pre k) G GT (rinv_contig _ R) (rinv_contig _ RT) R RT F FT SB NFk
               (pre_tbl (k + d)) (pre_tbl k) r x Hr D).
    - intros Hr. apply (tmono_frec (pre k) _ r x true (pre_tmono k d Hf) Hr).
  Qed.
End RunD.

(** * Two nodes whose round r is flagged decided hold the same famous witnesses of round r *)
Theorem famous_agree_flags_gap :
  forall all s1 s2 g1 g2 o1 o2 ops1 ops2 r x,
  ids_determine all -> s1 <> -1 -> s2 <> -1 ->
  Forall (hop_ok all) ops1 -> Forall (hop_ok all) ops2 ->
  gap_runb (init_hg s1 g1 o1) ops1 = true -> gap_runb (init_hg s2 g2 o2) ops2 = true ->
  let st1 := hrun (init_hg s1 g1 o1) ops1 in
  let st2 := hrun (init_hg s2 g2 o2) ops2 in
  failed st1 = false -> failed st2 = false -> tables_agree st1 st2 -> no_cross_fork st1 st2 ->
  flag st1 r -> flag st2 r ->
  (frec st1 r x true <-> frec st2 r x true).
Proof.
  intros all s1 s2 g1 g2 o1 o2 ops1 ops2 r x ID S1 S2 H1 H2 B1 B2 st1 st2 F1 F2 T NF Fl1 Fl2.
  destruct (two_runs_common all s1 s2 g1 g2 o1 o2 ops1 ops2 ID S1 S2 H1 H2 B1 B2 F1 F2 T) as [P [G1 [G2 [R1 [R2 [T1 [T2 SB]]]]]]].
  fold st1 in G1, R1, T1, SB. fold st2 in G2, R2, T2, SB.
  assert (HP1 : forall q, 0 <= q <= last_round st1 -> P q = psat st1 q).
  { intros q Hq. pose proof (T1 q Hq) as A. pose proof (psat_some s1 g1 o1 ops1 q S1) as Q. fold st1 in Q. rewrite Q in A. inversion A. reflexivity. }
  assert (HP2 : forall q, 0 <= q <= last_round st2 -> P q = psat st2 q).
  { intros q Hq. pose proof (T2 q Hq) as A. pose proof (psat_some s2 g2 o2 ops2 q S2) as Q. fold st2 in Q. rewrite Q in A. inversion A. reflexivity. }
  set (pre1 := fun k => hrun (init_hg s1 g1 o1) (firstn k ops1)).
  set (pre2 := fun k => hrun (init_hg s2 g2 o2) (firstn k ops2)).
  assert (E1 : pre1 (length ops1) = st1) by (unfold pre1; rewrite firstn_all; reflexivity).
  assert (E2 : pre2 (length ops2) = st2) by (unfold pre2; rewrite firstn_all; reflexivity).
  destruct (flag_historyD s1 g1 o1 all ops1 S1 ID H1 B1 P HP1 (length ops1) r) as [k1 [Hk1 D1]];
    [fold (pre1 (length ops1)); rewrite E1; exact F1|fold (pre1 (length ops1)); rewrite E1; exact Fl1|].
  destruct (flag_historyD s2 g2 o2 all ops2 S2 ID H2 B2 P HP2 (length ops2) r) as [k2 [Hk2 D2]];
    [fold (pre2 (length ops2)); rewrite E2; exact F2|fold (pre2 (length ops2)); rewrite E2; exact Fl2|].
  fold (pre1 k1) in D1. fold (pre2 k2) in D2.
  assert (L1 : (k1 + (length ops1 - k1) = length ops1)%nat) by lia.
  assert (L2 : (k2 + (length ops2 - k2) = length ops2)%nat) by lia.
  assert (Ff1 : failed (pre1 (k1 + (length ops1 - k1))%nat) = false) by (rewrite L1, E1; exact F1).
  assert (Ff2 : failed (pre2 (k2 + (length ops2 - k2))%nat) = false) by (rewrite L2, E2; exact F2).
  pose proof (famous_stableD s1 g1 o1 all ops1 S1 ID H1 B1 P HP1 k1 (length ops1 - k1)%nat r x Ff1 D1) as St1.
  pose proof (famous_stableD s2 g2 o2 all ops2 S2 ID H2 B2 P HP2 k2 (length ops2 - k2)%nat r x Ff2 D2) as St2.
  rewrite L1, firstn_all in St1. fold (pre1 k1) in St1.
  rewrite L2, firstn_all in St2. fold (pre2 k2) in St2.
  pose proof (pre_failed_mono s1 g1 o1 all ops1 S1 H1 B1 P HP1 k1 (length ops1 - k1)%nat Ff1) as Fk1.
  pose proof (pre_failed_mono s2 g2 o2 all ops2 S2 H2 B2 P HP2 k2 (length ops2 - k2)%nat Ff2) as Fk2.
  fold (pre1 k1) in Fk1. fold (pre2 k2) in Fk2.
  destruct (pre_facts s1 g1 o1 all ops1 S1 ID H1 B1 P HP1 k1 Fk1) as [Gi1 [_ [RT1 [_ [_ GT1]]]]].
  destruct (pre_facts s2 g2 o2 all ops2 S2 ID H2 B2 P HP2 k2 Fk2) as [Gi2 [_ [RT2 [_ [_ GT2]]]]].
  fold (pre1 k1) in Gi1, RT1, GT1. fold (pre2 k2) in Gi2, RT2, GT2.
  pose proof (hrun_FI_D s1 g1 o1 all ops1 S1 ID H1 B1 k1 Fk1) as FT1. fold (pre1 k1) in FT1.
  pose proof (hrun_FI_D s2 g2 o2 all ops2 S2 ID H2 B2 k2 Fk2) as FT2. fold (pre2 k2) in FT2.
  pose proof (pre_tbl s1 g1 o1 ops1 S1 B1 P HP1 k1) as TT1. fold (pre1 k1) in TT1.
  pose proof (pre_tbl s2 g2 o2 ops2 S2 B2 P HP2 k2) as TT2. fold (pre2 k2) in TT2.
  assert (SBT : same_bodies (pre1 k1) (pre2 k2)).
  { apply (same_bodies_of_universeD all P P _ _ ID GT1 GT2); [apply (g_from _ _ (gi_core _ _ Gi1))|apply (g_from _ _ (gi_core _ _ Gi2))]. }
  assert (Sub1 : forall y, get_event (pre1 k1) y <> None -> get_event st1 y <> None).
  { intros y Hy. rewrite <- E1, <- L1. apply (pre_stored s1 g1 o1 all ops1 S1 ID H1 B1 P HP1 k1 (length ops1 - k1)%nat y Ff1 Hy). }
  assert (Sub2 : forall y, get_event (pre2 k2) y <> None -> get_event st2 y <> None).
  { intros y Hy. rewrite <- E2, <- L2. apply (pre_stored s2 g2 o2 all ops2 S2 ID H2 B2 P HP2 k2 (length ops2 - k2)%nat y Ff2 Hy). }
  destruct (gap_goodD s1 g1 o1 all ops1 S1 ID H1 B1 F1) as [_ FA1]. fold st1 in FA1.
  destruct (gap_goodD s2 g2 o2 all ops2 S2 ID H2 B2 F2) as [_ FA2]. fold st2 in FA2.
  assert (SB1 : same_bodies (pre1 k1) st1).
  { apply (same_bodies_of_universeD all P P _ _ ID GT1 G1); [apply (g_from _ _ (gi_core _ _ Gi1))|exact FA1]. }
  assert (SB2 : same_bodies (pre2 k2) st2).
  { apply (same_bodies_of_universeD all P P _ _ ID GT2 G2); [apply (g_from _ _ (gi_core _ _ Gi2))|exact FA2]. }
  assert (NFT : no_cross_fork (pre1 k1) (pre2 k2)).
  { intros x1 x2 e1 e2 Hx1 Hx2 Hc Hi.
    assert (A1 : get_event st1 x1 <> None) by (apply Sub1; rewrite Hx1; discriminate).
    assert (A2 : get_event st2 x2 <> None) by (apply Sub2; rewrite Hx2; discriminate).
    destruct (get_event st1 x1) as [e1'|] eqn:Ex1; [|contradiction].
    destruct (get_event st2 x2) as [e2'|] eqn:Ex2; [|contradiction].
    apply (NF x1 x2 e1' e2' Ex1 Ex2); rewrite <- (SB1 x1 e1 e1' Hx1 Ex1), <- (SB2 x2 e2 e2' Hx2 Ex2); assumption. }
  split; intros Hfr.
  - apply (proj2 St2).
    apply (famous_transferD P (pre1 k1) (pre2 k2) GT1 GT2 (rinv_contig _ RT1) (rinv_contig _ RT2) RT1 RT2 FT1 FT2 SBT NFT TT1 TT2 r x (proj1 St1 Hfr) D2).
  - apply (proj2 St1).
    apply (famous_transferD P (pre2 k2) (pre1 k1) GT2 GT1 (rinv_contig _ RT2) (rinv_contig _ RT1) RT2 RT1 FT2 FT1
             (same_bodies_sym _ _ SBT) (no_cross_fork_sym _ _ NFT) TT2 TT1 r x (proj1 St2 Hfr) D1).
Qed.

(* in the vocabulary of the model *)
Theorem famous_witnesses_agree_decided_gap :
  forall all s1 s2 g1 g2 o1 o2 ops1 ops2 r ri1 ri2 x,
  ids_determine all -> s1 <> -1 -> s2 <> -1 ->
  Forall (hop_ok all) ops1 -> Forall (hop_ok all) ops2 ->
  gap_runb (init_hg s1 g1 o1) ops1 = true -> gap_runb (init_hg s2 g2 o2) ops2 = true ->
  let st1 := hrun (init_hg s1 g1 o1) ops1 in
  let st2 := hrun (init_hg s2 g2 o2) ops2 in
  failed st1 = false -> failed st2 = false -> tables_agree st1 st2 -> no_cross_fork st1 st2 ->
  get_round st1 r = Some ri1 -> get_round st2 r = Some ri2 ->
  ri_decided ri1 = true -> ri_decided ri2 = true ->
  (In x (famous_witnesses ri1) <-> In x (famous_witnesses ri2)).
Proof.
  intros all s1 s2 g1 g2 o1 o2 ops1 ops2 r ri1 ri2 x ID S1 S2 H1 H2 B1 B2 st1 st2 F1 F2 T NF Hg1 Hg2 Hd1 Hd2.
  destruct (gap_goodD s1 g1 o1 all ops1 S1 ID H1 B1 F1) as [G1 _]. fold st1 in G1.
  destruct (gap_goodD s2 g2 o2 all ops2 S2 ID H2 B2 F2) as [G2 _]. fold st2 in G2.
  rewrite (famous_witnesses_frecD _ st1 r ri1 x G1 Hg1), (famous_witnesses_frecD _ st2 r ri2 x G2 Hg2).
  apply (famous_agree_flags_gap all s1 s2 g1 g2 o1 o2 ops1 ops2 r x ID S1 S2 H1 H2 B1 B2 F1 F2 T NF); [exists ri1|exists ri2]; auto.
Qed.
