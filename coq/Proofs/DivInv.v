(* Stage S2c, division: DivideRounds on the event just inserted (per-event mode) memoises its
   round and witness flag according to the equations of [cinv], appends it to the round table,
   and re-establishes [cinv g None]. *)
From Coq Require Import ZArith List Bool Lia ZifyBool.
From RecordUpdate Require Import RecordSet.
From V Require Import Model.ZMap Model.Quorum Model.Voting Model.HgImpl
  Proofs.ZMapFacts Proofs.HgFrames Proofs.HgDagFrames Proofs.AdmissionProofs Proofs.InsertShape
  Proofs.Ancestry Proofs.OrderFrames Proofs.QuorumProofs Proofs.Static Proofs.FirstDesc.
Import ListNotations RecordSetNotations.
Open Scope Z_scope.

(** * Evaluating round_f / witness_f when the parents are memoised *)

Lemma round_f_memo_hit fuel st x r : rmemo st x = Some r -> round_f fuel st x = (Some r, st).
Proof. unfold rmemo. intros H. destruct fuel; cbn [round_f]; rewrite H; reflexivity. Qed.

Lemma parent_round_eval f st p r : prnd st p = Some r ->
  (if p =? -1 then (Some (-1), st) else round_f f st p) = (Some r, st).
Proof.
  unfold prnd. destruct (p =? -1); [intros H; inversion H; reflexivity|apply round_f_memo_hit].
Qed.

Lemma ss_fold_count g st x ws :
  (forall w, In w ws -> strongly_see st x w g <> None) -> forall n,
  fold_left (fun (acc : option Z) w =>
               match acc, strongly_see st x w g with
               | Some n, Some b => Some (if b then n + 1 else n)
               | _, _ => None
               end) ws (Some n)
  = Some (n + Z.of_nat (length (filter (ss_true g st x) ws))).
Proof.
  induction ws as [|w r IH]; intros H n; cbn [fold_left filter length].
  - f_equal. lia.
  - assert (Hw : strongly_see st x w g <> None) by (apply H; left; reflexivity).
    unfold ss_true at 1. destruct (strongly_see st x w g) as [[|]|]; [| |contradiction].
    + rewrite IH by (intros w' Hw'; apply H; right; exact Hw'). cbn [length]. f_equal. lia.
    + rewrite IH by (intros w' Hw'; apply H; right; exact Hw'). reflexivity.
Qed.

Lemma round_f_eval g f st x ex spr opr :
  rmemo st x = None -> get_event st x = Some ex ->
  prnd st (e_sp (ev_e ex)) = Some spr -> prnd st (e_op (ev_e ex)) = Some opr ->
  (Z.max spr opr = -1 \/
   exists pri, get_round st (Z.max spr opr) = Some pri /\ get_peerset st (Z.max spr opr) = Some g /\
               forall w, In w (witnesses pri) -> strongly_see st x w g <> None) ->
  exists r, round_f (S f) st x = (Some r, st <| round_memo := zset x r (round_memo st) |>) /\
    (Z.max spr opr = -1 -> r = 0) /\
    (Z.max spr opr <> -1 -> forall pri, get_round st (Z.max spr opr) = Some pri ->
       r = if super_majority g <=? Z.of_nat (length (filter (ss_true g st x) (witnesses pri)))
           then Z.max spr opr + 1 else Z.max spr opr).
Proof.
  intros Hm Hx Hs Ho Hc. unfold rmemo in Hm. cbn [round_f]. rewrite Hm, Hx.
  rewrite (parent_round_eval f st _ spr Hs). cbv beta iota.
  rewrite (parent_round_eval f st _ opr Ho). cbv beta iota zeta.
  assert (Emax : (if spr <? opr then opr else spr) = Z.max spr opr) by (destruct (Z.ltb_spec spr opr); lia).
  rewrite Emax.
  destruct (Z.eqb_spec (Z.max spr opr) (-1)) as [E|Hne].
  - exists 0. split; [reflexivity|]. split; [auto|contradiction].
  - destruct Hc as [C|[pri [Hr [Hp Hss]]]]; [contradiction|].
    rewrite Hr, Hp. rewrite (ss_fold_count g st x _ Hss 0). cbn [Z.add].
    eexists. split; [reflexivity|]. split; [contradiction|].
    intros _ pri' Hr'. inversion Hr'; subst pri'. reflexivity.
Qed.

Lemma witness_f_eval g fuel st x ex r spr :
  wmemo st x = None -> get_event st x = Some ex -> rmemo st x = Some r ->
  get_peerset st r = Some g -> prnd st (e_sp (ev_e ex)) = Some spr ->
  witness_f fuel st x =
    (Some (mem_key (e_creator (ev_e ex)) (keys g) && (spr <? r)),
     st <| witness_memo := zset x (mem_key (e_creator (ev_e ex)) (keys g) && (spr <? r)) (witness_memo st) |>).
Proof.
  intros Hw Hx Hr Hp Hs. unfold wmemo in Hw. unfold witness_f. rewrite Hw, Hx.
  rewrite (round_f_memo_hit fuel st x r Hr). rewrite Hp.
  destruct (mem_key (e_creator (ev_e ex)) (keys g)); cbn [negb andb]; [|reflexivity].
  rewrite (parent_round_eval fuel st _ spr Hs). reflexivity.
Qed.

(* the state after the "ev.round == nil" block for event x, given its round r and flag w *)
Definition div_result (st : hg) (x : Z) (ex : evst) (r : Z) (w : bool) : hg :=
  let s := st <| round_memo := zset x r (round_memo st) |> in
  let s1 := set_evst s x (ex <| ev_round := Some r |>) in
  let ri := round_or_new s1 r in
  let s2 := maybe_queue s1 r ri in
  let s' := s2 <| witness_memo := zset x w (witness_memo s2) |> in
  set_round s' r (add_created ri x w).

Lemma maybe_queue_fields s r ri :
  events (maybe_queue s r ri) = events s /\ round_memo (maybe_queue s r ri) = round_memo s /\
  witness_memo (maybe_queue s r ri) = witness_memo s /\ rounds (maybe_queue s r ri) = rounds s /\
  peersets (maybe_queue s r ri) = peersets s /\ topo (maybe_queue s r ri) = topo s /\
  failed (maybe_queue s r ri) = failed s.
Proof. unfold maybe_queue. destruct (_ && _ && _); [destruct s|]; repeat split; reflexivity. Qed.

Lemma divide_round_eval g st x ex spr opr :
  0 <= x -> rmemo st x = None -> wmemo st x = None -> get_event st x = Some ex ->
  prnd st (e_sp (ev_e ex)) = Some spr -> prnd st (e_op (ev_e ex)) = Some opr ->
  e_sp (ev_e ex) <> x ->
  (forall r, get_peerset st r = Some g) ->
  (Z.max spr opr = -1 \/
   exists pri, get_round st (Z.max spr opr) = Some pri /\
               forall w, In w (witnesses pri) -> strongly_see st x w g <> None) ->
  exists r, divide_round st x = div_result st x ex r (mem_key (e_creator (ev_e ex)) (keys g) && (spr <? r)) /\
    (Z.max spr opr = -1 -> r = 0) /\
    (Z.max spr opr <> -1 -> forall pri, get_round st (Z.max spr opr) = Some pri ->
       r = if super_majority g <=? Z.of_nat (length (filter (ss_true g st x) (witnesses pri)))
           then Z.max spr opr + 1 else Z.max spr opr).
Proof.
  intros Hx0 Hm Hw Hx Hs Ho Hspx Hps Hc.
  assert (Hc' : Z.max spr opr = -1 \/
    exists pri, get_round st (Z.max spr opr) = Some pri /\ get_peerset st (Z.max spr opr) = Some g /\
                forall w, In w (witnesses pri) -> strongly_see st x w g <> None).
  { destruct Hc as [?|[pri [? ?]]]; [left; auto|right; exists pri; auto]. }
  destruct (round_f_eval g (Z.to_nat (topo st)) st x ex spr opr Hm Hx Hs Ho Hc') as [r [Hrf [H1 H2]]].
  exists r. split; [|split; assumption].
  unfold divide_round. unfold fuel_of at 1. rewrite Hrf.
  set (s := st <| round_memo := zset x r (round_memo st) |>).
  assert (Hxs : get_event s x = Some ex) by (destruct st; exact Hx).
  unfold set_event_round. rewrite Hxs. cbv zeta.
  set (s1 := set_evst s x (ex <| ev_round := Some r |>)).
  set (ri := round_or_new s1 r). set (s2 := maybe_queue s1 r ri).
  destruct (maybe_queue_fields s1 r ri) as [E2 [R2 [W2 [Ro2 [P2 [T2 F2]]]]]]. fold s2 in E2, R2, W2, Ro2, P2, T2, F2.
  assert (Hw2 : wmemo s2 x = None).
  { unfold wmemo. rewrite W2. unfold s1, s. destruct st; exact Hw. }
  assert (Hx2 : get_event s2 x = Some (ex <| ev_round := Some r |>)).
  { unfold get_event. rewrite E2. fold (get_event s1 x). unfold s1. rewrite get_event_set_evst, Z.eqb_refl.
    replace (0 <=? x) with true by lia. reflexivity. }
  assert (Hr2 : rmemo s2 x = Some r).
  { unfold rmemo. rewrite R2. unfold s1, s. destruct st; cbn. apply zget_zset_same. exact Hx0. }
  assert (Hp2 : get_peerset s2 r = Some g).
  { unfold get_peerset. rewrite P2. unfold s1, s. specialize (Hps r). destruct st; exact Hps. }
  assert (Hs2 : prnd s2 (e_sp (ev_e ex)) = Some spr).
  { unfold prnd, rmemo. rewrite R2. unfold s1, s. unfold prnd, rmemo in Hs.
    destruct (e_sp (ev_e ex) =? -1); [exact Hs|]. destruct st; cbn in *.
    rewrite zget_zset_other by congruence. exact Hs. }
  pose proof (witness_f_eval g (fuel_of s2) s2 x (ex <| ev_round := Some r |>) r spr Hw2 Hx2 Hr2 Hp2) as Hwf.
  replace (ev_e (ex <| ev_round := Some r |>)) with (ev_e ex) in Hwf by (destruct ex; reflexivity).
  rewrite (Hwf Hs2). reflexivity.
Qed.

Lemma div_result_obs st x ex r w : 0 <= x ->
  let F := div_result st x ex r w in
  (forall y, get_event F y = if y =? x then Some (ex <| ev_round := Some r |>) else get_event st y) /\
  round_memo F = zset x r (round_memo st) /\ witness_memo F = zset x w (witness_memo st) /\
  rounds F = zset r (add_created (round_or_new st r) x w) (rounds st) /\
  peersets F = peersets st /\ topo F = topo st /\ failed F = failed st.
Proof.
  intros Hx0. unfold div_result. cbv zeta.
  set (s := st <| round_memo := zset x r (round_memo st) |>).
  set (s1 := set_evst s x (ex <| ev_round := Some r |>)).
  assert (Eri : round_or_new s1 r = round_or_new st r) by (unfold s1, s; destruct st; reflexivity).
  rewrite Eri. set (ri := round_or_new st r). set (s2 := maybe_queue s1 r ri).
  destruct (maybe_queue_fields s1 r ri) as [E2 [R2 [W2 [Ro2 [P2 [T2 F2]]]]]]. fold s2 in E2, R2, W2, Ro2, P2, T2, F2.
  set (s' := s2 <| witness_memo := zset x w (witness_memo s2) |>).
  assert (A1 : events (set_round s' r (add_created ri x w)) = events s1) by (rewrite <- E2; unfold s'; destruct s2; reflexivity).
  assert (A2 : round_memo (set_round s' r (add_created ri x w)) = round_memo s1) by (rewrite <- R2; unfold s'; destruct s2; reflexivity).
  assert (A3 : witness_memo (set_round s' r (add_created ri x w)) = zset x w (witness_memo s1)) by (rewrite <- W2; unfold s'; destruct s2; reflexivity).
  assert (A4 : rounds (set_round s' r (add_created ri x w)) = zset r (add_created ri x w) (rounds s1)) by (rewrite <- Ro2; unfold s'; destruct s2; reflexivity).
  assert (A5 : peersets (set_round s' r (add_created ri x w)) = peersets s1) by (rewrite <- P2; unfold s'; destruct s2; reflexivity).
  assert (A6 : topo (set_round s' r (add_created ri x w)) = topo s1) by (rewrite <- T2; unfold s'; destruct s2; reflexivity).
  assert (A7 : failed (set_round s' r (add_created ri x w)) = failed s1) by (rewrite <- F2; unfold s'; destruct s2; reflexivity).
  split.
  { intros y. unfold get_event at 1. rewrite A1. fold (get_event s1 y). unfold s1.
    rewrite get_event_set_evst, (Z.eqb_sym y). replace (0 <=? x) with true by lia. rewrite andb_true_r.
    destruct (x =? y); [reflexivity|]. unfold s. destruct st; reflexivity. }
  split; [rewrite A2; unfold s1, s; destruct st; reflexivity|].
  split; [rewrite A3; unfold s1, s; destruct st; reflexivity|].
  split; [rewrite A4; unfold s1, s; destruct st; reflexivity|].
  split; [rewrite A5; unfold s1, s; destruct st; reflexivity|].
  split; [rewrite A6; unfold s1, s; destruct st; reflexivity|].
  rewrite A7; unfold s1, s; destruct st; reflexivity.
Qed.

(** * x is new: no other event strongly sees it *)
Lemma super_majority_pos g : 1 <= super_majority g.
Proof. unfold super_majority, sm, ps_len. lia. Qed.

Lemma exc_ss_false g st x y ey :
  cinv g (Some x) st -> get_event st y = Some ey -> y <> x -> ss_true g st y x = false.
Proof.
  intros I Hy Hne. destruct (c_exc _ _ _ I x eq_refl) as [_ [_ [ex [Hx [_ [_ [_ Htop]]]]]]].
  unfold ss_true, strongly_see. rewrite Hy, Hx.
  assert (E : ss_count (ev_la ey) (ev_fd ex) (dedup (keys g)) = 0).
  { unfold ss_count.
    assert (F : forall l, filter (fun p => match aget p (ev_la ey), aget p (ev_fd ex) with
                         | Some (i0, _), Some (j, _) => j <=? i0 | _, _ => false end) l = []).
    { induction l as [|p l IH]; [reflexivity|]. cbn [filter]. rewrite IH.
      destruct (aget p (ev_la ey)) as [[i0 y0]|] eqn:El; [|reflexivity].
      destruct (aget p (ev_fd ex)) as [[j z]|] eqn:Ef; [|reflexivity].
      destruct (Z.leb_spec j i0) as [Hle|]; [exfalso|reflexivity].
      destruct (Z.eq_dec p (e_creator (ev_e ex))) as [->|Hp].
      - rewrite (c_own _ _ _ I x ex Hx) in Ef. inversion Ef; subst j z.
        pose proof (Htop y ey i0 y0 Hy Hne El). lia.
      - destruct (c_sound _ _ _ I x ex p j z Hx Ef Hp) as [ez [Hz [Hcz [_ Hcond]]]].
        destruct Hcond as [ez' [ex' [t [y' [Hz' [Hx' [Hl [Hi _]]]]]]]].
        rewrite Hz in Hz'. inversion Hz'; subst ez'. rewrite Hx in Hx'. inversion Hx'; subst ex'.
        assert (z <> x) by (intros ->; rewrite Hx in Hz; inversion Hz; subst ez; congruence).
        pose proof (Htop z ez t y' Hz H Hl). lia. }
    rewrite F. reflexivity. }
  rewrite E. pose proof (super_majority_pos g).
  destruct (Z.leb_spec (super_majority g) 0); [lia|reflexivity].
Qed.

(** * counting over an extended witness list *)
Lemma cntss_app g s x ws ws' : cntss g s x (ws ++ ws') = cntss g s x ws + cntss g s x ws'.
Proof. unfold cntss. rewrite filter_app, app_length. lia. Qed.
Lemma cntss_self g s x : cntss g s x [x] = 0.
Proof. unfold cntss. cbn [filter]. rewrite Z.eqb_refl. reflexivity. Qed.
Lemma cntss_nil g s x : cntss g s x [] = 0.
Proof. reflexivity. Qed.
Lemma cntss_notin g s x ws : ~ In x ws ->
  cntss g s x ws = Z.of_nat (length (filter (ss_true g s x) ws)).
Proof.
  intros H. unfold cntss. f_equal. f_equal. apply filter_ext_in. intros w Hw.
  destruct (Z.eqb_spec w x) as [->|]; [contradiction|reflexivity].
Qed.

Lemma prnd_ge g E st p v : cinv g E st -> prnd st p = Some v -> -1 <= v.
Proof.
  intros I. unfold prnd. destruct (p =? -1); [intros H; inversion H; lia|]. intros H.
  destruct (c_rdom _ _ _ I p v H) as [H0 _]. lia.
Qed.
Lemma round_value_nonneg g E st r spr opr p1 p2 (c : Z) :
  cinv g E st -> prnd st p1 = Some spr -> prnd st p2 = Some opr ->
  (Z.max spr opr = -1 -> r = 0) ->
  (Z.max spr opr <> -1 -> r = if super_majority g <=? c then Z.max spr opr + 1 else Z.max spr opr) ->
  0 <= r.
Proof.
  intros I Hs Ho Hr0 Hr1.
  pose proof (prnd_ge _ _ _ _ _ I Hs). pose proof (prnd_ge _ _ _ _ _ I Ho).
  destruct (Z.eq_dec (Z.max spr opr) (-1)) as [E0|Hne]; [rewrite (Hr0 E0); lia|].
  rewrite (Hr1 Hne). destruct (_ <=? _); lia.
Qed.

Section Divide.
  Variables (g : peerset) (st F : hg) (x : Z) (ex : evst) (r : Z) (w : bool) (spr opr : Z).
  Hypothesis I : cinv g (Some x) st.
  Hypothesis Hx : get_event st x = Some ex.
  Hypothesis Hs : prnd st (e_sp (ev_e ex)) = Some spr.
  Hypothesis Ho : prnd st (e_op (ev_e ex)) = Some opr.
  Hypothesis Hr0 : Z.max spr opr = -1 -> r = 0.
  Hypothesis Hr1 : Z.max spr opr <> -1 ->
     get_round st (Z.max spr opr) <> None /\
     r = if super_majority g <=? Z.of_nat (length (filter (ss_true g st x) (wits st (Z.max spr opr))))
         then Z.max spr opr + 1 else Z.max spr opr.
  Hypothesis Hw : w = mem_key (e_creator (ev_e ex)) (keys g) && (spr <? r).
  Hypothesis GF : forall y, get_event F y = if y =? x then Some (ex <| ev_round := Some r |>) else get_event st y.
  Hypothesis RF : forall y, rmemo F y = if y =? x then Some r else rmemo st y.
  Hypothesis WF : forall y, wmemo F y = if y =? x then Some w else wmemo st y.
  Hypothesis WL : forall r', wl F r' = if r' =? r then wl st r ++ [(x, w)] else wl st r'.
  Hypothesis RD : forall r', get_round F r' = None <-> r' <> r /\ get_round st r' = None.
  Hypothesis PF : peersets F = peersets st.
  Hypothesis TF : topo F = topo st.

  Let Hrx : rmemo st x = None := proj1 (c_exc _ _ _ I x eq_refl).
  Let Hwx : wmemo st x = None := proj1 (proj2 (c_exc _ _ _ I x eq_refl)).

  Lemma div_r_nonneg : 0 <= r.
  Proof.
    eapply (round_value_nonneg g (Some x) st r spr opr); [exact I|exact Hs|exact Ho|exact Hr0|].
    intros H. apply (proj2 (Hr1 H)).
  Qed.

  Lemma div_prnd p v : prnd st p = Some v -> prnd F p = Some v.
  Proof.
    unfold prnd. destruct (p =? -1); [auto|]. rewrite RF. intros H.
    destruct (Z.eqb_spec p x) as [->|]; [congruence|exact H].
  Qed.
  Lemma div_old y ey : get_event st y = Some ey -> y <> x ->
    get_event F y = Some ey /\ rmemo F y = rmemo st y /\ wmemo F y = wmemo st y.
  Proof.
    intros Hy Hne. rewrite GF, RF, WF. destruct (Z.eqb_spec y x); [contradiction|auto].
  Qed.
  Lemma div_back y ey : get_event F y = Some ey ->
    (y = x /\ ey = ex <| ev_round := Some r |>) \/ (y <> x /\ get_event st y = Some ey).
  Proof. rewrite GF. destruct (Z.eqb_spec y x) as [->|]; [intros H; inversion H; left; auto|right; auto]. Qed.

  Lemma div_strongly_see y w' : strongly_see F y w' g = strongly_see st y w' g.
  Proof.
    unfold strongly_see. rewrite !GF.
    destruct (Z.eqb_spec y x) as [->|]; destruct (Z.eqb_spec w' x) as [->|]; rewrite ?Hx;
      try reflexivity; destruct (get_event st y); try reflexivity; destruct (get_event st w'); reflexivity.
  Qed.
  Lemma div_ss_true y w' : ss_true g F y w' = ss_true g st y w'.
  Proof. unfold ss_true. rewrite div_strongly_see. reflexivity. Qed.

  Lemma div_wit y : y <> x -> wit F y = wit st y.
  Proof. intros H. unfold wit. rewrite WF. destruct (Z.eqb_spec y x); [contradiction|reflexivity]. Qed.
  Lemma div_wit_x_st : wit st x = false.
  Proof. unfold wit. rewrite Hwx. reflexivity. Qed.

  Lemma div_x_notin r' : ~ In x (map fst (wl st r')).
  Proof.
    intros H. apply in_map_iff in H. destruct H as [[x' b] [E H]]. cbn in E. subst x'.
    destruct (c_tab _ _ _ I r' x b H) as [C _]. congruence.
  Qed.
  Lemma div_x_notin_wits r' : ~ In x (wits st r').
  Proof.
    intros H. unfold wits in H. apply in_map_iff in H. destruct H as [[x' b] [E H]]. cbn in E. subst x'.
    apply filter_In in H. destruct H as [H _]. apply (div_x_notin r'). apply (in_map fst) in H. exact H.
  Qed.

  (* the witness list of a round in the new state *)
  Lemma div_wits r' : exists extra, wits F r' = wits st r' ++ extra /\ (extra = [] \/ extra = [x]).
  Proof.
    unfold wits. rewrite WL. destruct (r' =? r) eqn:E.
    - apply Z.eqb_eq in E. subst r'. rewrite filter_app, map_app. cbn [filter snd].
      destruct w; cbn [map fst]; eauto.
    - exists []. rewrite app_nil_r. auto.
  Qed.

  Lemma div_cntss_old y ey pr : get_event st y = Some ey -> y <> x ->
    cntss g F y (wits F pr) = cntss g st y (wits st pr).
  Proof.
    intros Hy Hne. destruct (div_wits pr) as [extra [-> Hex]]. rewrite cntss_app.
    rewrite (cntss_ext g st F y (wits st pr)) by (intros; apply div_ss_true).
    destruct Hex as [->| ->]; [rewrite cntss_nil; lia|].
    unfold cntss. cbn [filter]. rewrite div_ss_true, (exc_ss_false g st x y ey I Hy Hne).
    rewrite andb_false_r. cbn. lia.
  Qed.
  Lemma div_cntss_x pr :
    cntss g F x (wits F pr) = Z.of_nat (length (filter (ss_true g st x) (wits st pr))).
  Proof.
    destruct (div_wits pr) as [extra [-> Hex]]. rewrite cntss_app.
    rewrite (cntss_ext g st F x (wits st pr)) by (intros; apply div_ss_true).
    rewrite (cntss_notin g st x _ (div_x_notin_wits pr)).
    destruct Hex as [->| ->]; [rewrite cntss_nil|rewrite cntss_self]; lia.
  Qed.

  Lemma div_get_round_mono r' : get_round st r' <> None -> get_round F r' <> None.
  Proof. intros H C. apply RD in C. tauto. Qed.

  Lemma div_req_old y ey r0 : get_event st y = Some ey -> y <> x -> req g st y ey r0 -> req g F y ey r0.
  Proof.
    intros Hy Hne [s1 [o1 [H1 [H2 [H3 H4]]]]]. exists s1, o1.
    split; [apply div_prnd; exact H1|split; [apply div_prnd; exact H2|split; [exact H3|]]].
    intros Hn. destruct (H4 Hn) as [Hg Hq]. split; [apply div_get_round_mono; exact Hg|].
    rewrite (div_cntss_old y ey _ Hy Hne). exact Hq.
  Qed.

  Lemma div_nwb q lo hi : no_wit_between st q lo hi ->
    (q = e_creator (ev_e ex) -> hi < e_index (ev_e ex)) -> no_wit_between F q lo hi.
  Proof.
    intros H Hq y ey Hy Hc Hi. destruct (div_back y ey Hy) as [[-> ->]|[Hne Hy0]].
    - exfalso. replace (ev_e (ex <| ev_round := Some r |>)) with (ev_e ex) in * by (destruct ex; reflexivity).
      specialize (Hq (eq_sym Hc)). lia.
    - rewrite (div_wit y Hne). eapply H; eauto.
  Qed.

  Lemma div_ev_e_x : ev_e (ex <| ev_round := Some r |>) = ev_e ex.
  Proof. destruct ex; reflexivity. Qed.
  Lemma div_ev_la_x : ev_la (ex <| ev_round := Some r |>) = ev_la ex.
  Proof. destruct ex; reflexivity. Qed.
  Lemma div_ev_fd_x : ev_fd (ex <| ev_round := Some r |>) = ev_fd ex.
  Proof. destruct ex; reflexivity. Qed.

  (* reading an event of the old state in the new one *)
  Lemma div_fwd y ey : get_event st y = Some ey ->
    exists ey', get_event F y = Some ey' /\ ev_e ey' = ev_e ey /\ ev_la ey' = ev_la ey /\ ev_fd ey' = ev_fd ey.
  Proof.
    intros Hy. rewrite GF. destruct (Z.eqb_spec y x) as [->|].
    - rewrite Hx in Hy. inversion Hy; subst ey. eexists. split; [reflexivity|].
      rewrite div_ev_e_x, div_ev_la_x, div_ev_fd_x. auto.
    - exists ey. auto.
  Qed.
  Lemma div_bwd y ey' : get_event F y = Some ey' ->
    exists ey, get_event st y = Some ey /\ ev_e ey' = ev_e ey /\ ev_la ey' = ev_la ey /\ ev_fd ey' = ev_fd ey.
  Proof.
    intros Hy. destruct (div_back y ey' Hy) as [[-> ->]|[_ Hy0]].
    - exists ex. rewrite div_ev_e_x, div_ev_la_x, div_ev_fd_x. auto.
    - exists ey'. auto.
  Qed.

  Lemma div_cond z a ea : get_event st a = Some ea -> z <> x ->
    cond st z a -> cond F z a.
  Proof.
    intros Ha Hzx [ez [ea0 [t [y [Hz [Ha0 [Hl [Hi Hn]]]]]]]].
    rewrite Ha in Ha0. inversion Ha0; subst ea0.
    destruct (div_fwd z ez Hz) as [ez' [Hz' [_ [El _]]]].
    destruct (div_fwd a ea Ha) as [ea' [Ha' [Ee _]]].
    exists ez', ea', t, y. rewrite Ee, El. split; [auto|split; [auto|split; [auto|split; [auto|]]]].
    apply div_nwb; [exact Hn|]. intros Hq.
    pose proof (c_exc _ _ _ I x eq_refl) as Hexc. destruct Hexc as [_ [_ [ex0 [Hx0 [_ [_ [_ Htop]]]]]]].
    rewrite Hx in Hx0. inversion Hx0; subst ex0. rewrite Hq in Hl.
    apply (Htop z ez t y Hz Hzx Hl).
  Qed.

  Theorem divide_cinv_core : cinv g None F.
  Proof.
    pose proof div_r_nonneg as Hr.
    constructor.
    - unfold static. rewrite PF. apply (c_static _ _ _ I).
    - rewrite TF. apply (c_topo0 _ _ _ I).
    - intros y ey' Hy. rewrite TF. destruct (div_bwd y ey' Hy) as [ey [Hy0 [Ee _]]]. rewrite Ee.
      eapply (c_fuel _ _ _ I); eauto.
    - (* rdom *)
      intros y r0. rewrite RF. destruct (Z.eqb_spec y x) as [->|Hne].
      + intros E. inversion E; subst r0. split; [exact Hr|].
        exists (ex <| ev_round := Some r |>). split; [rewrite GF, Z.eqb_refl; reflexivity|].
        exists spr, opr. rewrite div_ev_e_x.
        split; [apply div_prnd; exact Hs|split; [apply div_prnd; exact Ho|split; [exact Hr0|]]].
        intros Hn. destruct (Hr1 Hn) as [Hg Hq]. split; [apply div_get_round_mono; exact Hg|].
        rewrite div_cntss_x. exact Hq.
      + intros Hr0'. destruct (c_rdom _ _ _ I y r0 Hr0') as [H0 [ey [Hy Hq]]]. split; [exact H0|].
        exists ey. split; [apply (div_old y ey Hy Hne)|]. apply div_req_old; auto.
    - (* wdom *)
      intros y w0. rewrite WF. destruct (Z.eqb_spec y x) as [->|Hne].
      + intros E. inversion E; subst w0. exists (ex <| ev_round := Some r |>), r.
        split; [rewrite GF, Z.eqb_refl; reflexivity|]. split; [rewrite RF, Z.eqb_refl; reflexivity|].
        exists spr. rewrite div_ev_e_x. split; [apply div_prnd; exact Hs|exact Hw].
      + intros Hw0. destruct (c_wdom _ _ _ I y w0 Hw0) as [ey [r0 [Hy [Hry [s1 [H1 H2]]]]]].
        exists ey, r0. split; [apply (div_old y ey Hy Hne)|]. split.
        * rewrite RF. destruct (Z.eqb_spec y x); [contradiction|exact Hry].
        * exists s1. split; [apply div_prnd; exact H1|exact H2].
    - (* all *)
      intros y ey' Hy _. rewrite RF, WF. destruct (div_back y ey' Hy) as [[-> ->]|[Hne Hy0]].
      + rewrite Z.eqb_refl. exists r, w. split; [reflexivity|split; [reflexivity|]]. destruct ex; reflexivity.
      + destruct (Z.eqb_spec y x); [contradiction|]. apply (c_all _ _ _ I y ey' Hy0). congruence.
    - intros y C. discriminate.
    - (* tab *)
      intros r' y w0. rewrite WL, RF, WF. destruct (Z.eqb_spec r' r) as [->|Hnr].
      + intros Hin. apply in_app_or in Hin. destruct Hin as [Hin|[E|[]]].
        * destruct (c_tab _ _ _ I r y w0 Hin) as [A B].
          destruct (Z.eqb_spec y x) as [->|]; [congruence|auto].
        * inversion E; subst y w0. rewrite Z.eqb_refl. auto.
      + intros Hin. destruct (c_tab _ _ _ I r' y w0 Hin) as [A B].
        destruct (Z.eqb_spec y x) as [->|]; [congruence|auto].
    - (* tabc *)
      intros y r0 w0. rewrite RF, WF, WL. destruct (Z.eqb_spec y x) as [->|Hne].
      + intros E1 E2. inversion E1; inversion E2; subst r0 w0. rewrite Z.eqb_refl.
        apply in_or_app. right. left. reflexivity.
      + intros A B. pose proof (c_tabc _ _ _ I y r0 w0 A B) as Hin.
        destruct (r0 =? r) eqn:E; [apply Z.eqb_eq in E; subst r0; apply in_or_app; left; exact Hin|exact Hin].
    - (* tabu *)
      intros r'. rewrite WL. destruct (Z.eqb_spec r' r) as [->|]; [|apply (c_tabu _ _ _ I)].
      rewrite map_app. cbn [map fst]. apply NoDup_app_intro'; [apply (c_tabu _ _ _ I)|constructor; [intros []|constructor]|].
      intros y Hy [<-|[]]. apply (div_x_notin r). exact Hy.
    - (* tabne *)
      intros r' Hr'. rewrite WL. destruct (Z.eqb_spec r' r) as [->|Hne].
      + intros C. apply app_eq_nil in C. destruct C as [_ C]. discriminate.
      + apply (c_tabne _ _ _ I). intros C. apply Hr'. apply RD. auto.
    - (* own *)
      intros a ea' Ha. destruct (div_bwd a ea' Ha) as [ea [Ha0 [Ee [_ Ef]]]]. rewrite Ee, Ef.
      apply (c_own _ _ _ I a ea Ha0).
    - (* sound *)
      intros a ea' c i z Ha Hg Hc. destruct (div_bwd a ea' Ha) as [ea [Ha0 [Ee [_ Ef]]]].
      rewrite Ef in Hg. rewrite Ee in Hc.
      destruct (c_sound _ _ _ I a ea c i z Ha0 Hg Hc) as [ez [Hz [H1 [H2 H3]]]].
      destruct (div_fwd z ez Hz) as [ez' [Hz' [Ee' _]]]. exists ez'. rewrite Ee'.
      split; [exact Hz'|split; [exact H1|split; [exact H2|]]].
      destruct (Z.eq_dec z x) as [->|Hzx]; [|apply (div_cond z a ea Ha0 Hzx H3)].
      (* z = x: the chain of a is not x's chain, x cannot lie in the range *)
      destruct H3 as [ez0 [ea0 [t [y [Hz0 [Ha00 [Hl [Hi Hn]]]]]]]].
      rewrite Hx in Hz0. inversion Hz0; subst ez0. rewrite Ha0 in Ha00. inversion Ha00; subst ea0.
      rewrite Hx in Hz. inversion Hz; subst ez.
      destruct (div_fwd a ea Ha0) as [ea2 [Ha2 [Ee2 _]]].
      exists (ex <| ev_round := Some r |>), ea2, t, y. rewrite Ee2, div_ev_la_x.
      split; [rewrite GF, Z.eqb_refl; reflexivity|split; [exact Ha2|split; [exact Hl|split; [exact Hi|]]]].
      apply div_nwb; [exact Hn|]. intros Hq. congruence.
    - (* closed *)
      intros a ea' c i z Ha Hg Hwa Hsp. destruct (div_bwd a ea' Ha) as [ea [Ha0 [Ee [_ Ef]]]].
      rewrite Ef in Hg. rewrite Ee in *.
      assert (Hwa0 : wit st a = false).
      { destruct (Z.eq_dec a x) as [->|Hne]; [apply div_wit_x_st|rewrite <- (div_wit a Hne); exact Hwa]. }
      destruct (c_closed _ _ _ I a ea c i z Ha0 Hg Hwa0 Hsp) as [es [i' [z' [Hes [Hg' Hle]]]]].
      destruct (div_fwd _ es Hes) as [es' [Hes' [_ [_ Ef']]]]. exists es', i', z'. rewrite Ef'. auto.
    - (* top *)
      intros z ez' q t y Hz Hg. destruct (div_bwd z ez' Hz) as [ez [Hz0 [Ee [El _]]]].
      rewrite El in Hg. rewrite Ee.
      destruct (c_top _ _ _ I z ez q t y Hz0 Hg) as [ey [i [z' [Hy [Hg' Hle]]]]].
      destruct (div_fwd y ey Hy) as [ey' [Hy' [_ [_ Ef']]]]. exists ey', i, z'. rewrite Ef'. auto.
  Qed.
End Divide.

Lemma wl_of_add_created ri x w : aget x (ri_created ri) = None -> wl_of (add_created ri x w) = wl_of ri ++ [(x, w)].
Proof.
  intros H. unfold add_created. rewrite H. unfold wl_of. destruct ri; cbn. rewrite map_app. reflexivity.
Qed.

Lemma aget_none_notin {A} k (l : list (Z * A)) : ~ In k (map fst l) -> aget k l = None.
Proof. apply aget_not_In. Qed.

Lemma get_round_zset st st' r ri r' : 0 <= r -> rounds st' = zset r ri (rounds st) ->
  get_round st' r' = if r =? r' then Some ri else get_round st r'.
Proof.
  intros Hr E. unfold get_round. rewrite E, zget_zset. replace (0 <=? r) with true by lia.
  rewrite andb_true_r. reflexivity.
Qed.

Theorem divide_round_cinv g st x :
  dag_ok st -> cinv g (Some x) st ->
  cinv g None (divide_round st x) /\ failed (divide_round st x) = failed st.
Proof.
  intros OK I.
  destruct (c_exc _ _ _ I x eq_refl) as [Hrx [Hwx [ex [Hx [_ [Hp1 [Hp2 _]]]]]]].
  assert (Hx0 : 0 <= x) by (eapply zget_some_nonneg; exact Hx).
  destruct (prnd st (e_sp (ev_e ex))) as [spr|] eqn:Hs; [|contradiction].
  destruct (prnd st (e_op (ev_e ex))) as [opr|] eqn:Ho; [|contradiction].
  assert (Hspx : e_sp (ev_e ex) <> x).
  { intros C. rewrite C in Hs. unfold prnd in Hs. replace (x =? -1) with false in Hs by lia. congruence. }
  assert (Hps : forall r, get_peerset st r = Some g) by (intros r; apply get_peerset_static, (c_static _ _ _ I)).
  (* the parent round is in the table, its witnesses are stored *)
  assert (Hpar : Z.max spr opr <> -1 ->
     exists pri, get_round st (Z.max spr opr) = Some pri /\
                 forall w, In w (witnesses pri) -> strongly_see st x w g <> None).
  { intros Hn.
    assert (Hp : exists p, p <> -1 /\ rmemo st p = Some (Z.max spr opr)).
    { unfold prnd in Hs, Ho. destruct (Z.max_spec spr opr) as [[_ E]|[_ E]]; rewrite E in *.
      - destruct (Z.eqb_spec (e_op (ev_e ex)) (-1)); [inversion Ho; lia|eauto].
      - destruct (Z.eqb_spec (e_sp (ev_e ex)) (-1)); [inversion Hs; lia|eauto]. }
    destruct Hp as [p [Hpn Hrp]].
    destruct (c_rdom _ _ _ I p _ Hrp) as [_ [ep [Hep _]]].
    assert (Hpx : p <> x) by (intros ->; congruence).
    destruct (c_all _ _ _ I p ep Hep ltac:(congruence)) as [r0 [w0 [Hr0 [Hw0 _]]]].
    rewrite Hrp in Hr0. inversion Hr0; subst r0.
    pose proof (c_tabc _ _ _ I p _ w0 Hrp Hw0) as Hin.
    unfold wl in Hin. destruct (get_round st (Z.max spr opr)) as [pri|] eqn:Hg; [|destruct Hin].
    exists pri. split; [reflexivity|]. intros w Hw.
    rewrite <- (wits_get_round st _ pri Hg) in Hw.
    unfold wits in Hw. apply in_map_iff in Hw. destruct Hw as [[w' b] [E Hw]]. cbn in E. subst w'.
    apply filter_In in Hw. destruct Hw as [Hw _].
    destruct (c_tab _ _ _ I _ w b Hw) as [Hrw _].
    destruct (c_rdom _ _ _ I w _ Hrw) as [_ [ew [Hew _]]].
    unfold strongly_see. rewrite Hx, Hew. discriminate. }
  assert (Hc : Z.max spr opr = -1 \/
     exists pri, get_round st (Z.max spr opr) = Some pri /\
                 forall w, In w (witnesses pri) -> strongly_see st x w g <> None).
  { destruct (Z.eq_dec (Z.max spr opr) (-1)); [left; assumption|right; auto]. }
  destruct (divide_round_eval g st x ex spr opr Hx0 Hrx Hwx Hx Hs Ho Hspx Hps Hc) as [r [Hdiv [Hr0 Hr1]]].
  set (w := mem_key (e_creator (ev_e ex)) (keys g) && (spr <? r)) in *.
  assert (Hr1' : Z.max spr opr <> -1 ->
     get_round st (Z.max spr opr) <> None /\
     r = if super_majority g <=? Z.of_nat (length (filter (ss_true g st x) (wits st (Z.max spr opr))))
         then Z.max spr opr + 1 else Z.max spr opr).
  { intros Hn. destruct (Hpar Hn) as [pri [Hg _]]. split; [congruence|].
    rewrite (wits_get_round st _ pri Hg). apply Hr1; assumption. }
  assert (Hrn : 0 <= r).
  { eapply (round_value_nonneg g (Some x) st r spr opr); [exact I|exact Hs|exact Ho|exact Hr0|].
    intros H. apply (proj2 (Hr1' H)). }
  rewrite Hdiv.
  destruct (div_result_obs st x ex r w Hx0) as [GF [RF [WF [RoF [PF [TF FF]]]]]].
  set (F := div_result st x ex r w) in *.
  split; [|exact FF].
  assert (Hnotin : aget x (ri_created (round_or_new st r)) = None).
  { apply aget_not_In. intros Hin.
    unfold round_or_new in Hin. destruct (get_round st r) as [ri|] eqn:Hg; [|destruct Hin].
    apply in_map_iff in Hin. destruct Hin as [[x' [b f]] [E Hin]]. cbn in E. subst x'.
    assert (Hwl : In (x, b) (wl st r)).
    { unfold wl. rewrite Hg. unfold wl_of. apply in_map_iff. exists (x, (b, f)). auto. }
    destruct (c_tab _ _ _ I r x b Hwl) as [C _]. congruence. }
  apply (divide_cinv_core g st F x ex r w spr opr I Hx Hs Ho Hr0 Hr1' eq_refl GF).
  - intros y. unfold rmemo. rewrite RF, zget_zset, (Z.eqb_sym y). replace (0 <=? x) with true by lia.
    rewrite andb_true_r. reflexivity.
  - intros y. unfold wmemo. rewrite WF, zget_zset, (Z.eqb_sym y). replace (0 <=? x) with true by lia.
    rewrite andb_true_r. reflexivity.
  - intros r'. unfold wl at 1. rewrite (get_round_zset st F r _ r' Hrn RoF), (Z.eqb_sym r').
    destruct (Z.eqb_spec r r') as [<-|]; [|reflexivity].
    rewrite (wl_of_add_created _ x w Hnotin). f_equal.
    unfold wl, round_or_new. destruct (get_round st r); reflexivity.
  - intros r'. rewrite (get_round_zset st F r _ r' Hrn RoF).
    destruct (Z.eqb_spec r r') as [<-|Hne]; split; intros H; try discriminate; try tauto.
    split; [congruence|exact H].
  - exact PF.
  - exact TF.
Qed.
