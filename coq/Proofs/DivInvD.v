(* Stage D2 (b), division, without static membership.  GENERATED from DivInv.v (Section Divide) by text
   substitution + a new evaluation lemma (divide_round_evalD) that reads the two validator sets the division
   uses from the table: the set of the parents' highest round m (round equation) and the set of the event's
   own round r (witness flag).  Theorem divide_round_cinvD: if the table answers P q for every round q that
   exists after the division, [cinvD P (Some x)] becomes [cinvD P None]. *)
From Coq Require Import ZArith List Bool Lia ZifyBool.
From RecordUpdate Require Import RecordSet.
From V Require Import Model.ZMap Model.Quorum Model.Voting Model.HgImpl
  Proofs.ZMapFacts Proofs.HgFrames Proofs.HgDagFrames Proofs.AdmissionProofs Proofs.InsertShape
  Proofs.Ancestry Proofs.OrderFrames Proofs.QuorumProofs Proofs.Static Proofs.FirstDesc Proofs.DivInv
  Proofs.PeerSetProofs Proofs.FirstDescD.
Import ListNotations RecordSetNotations.
Open Scope Z_scope.

(** * x is new: no other event strongly sees it *)

Lemma exc_ss_falseD P g st x y ey :
  cinvD P (Some x) st -> get_event st y = Some ey -> y <> x -> ss_true g st y x = false.
Proof.
  intros I Hy Hne. destruct (cd_exc _ _ _ I x eq_refl) as [_ [_ [ex [Hx [_ [_ [_ Htop]]]]]]].
  unfold ss_true, strongly_see. rewrite Hy, Hx.
  assert (E : ss_count (ev_la ey) (ev_fd ex) (dedup (keys g)) = 0).
  { unfold ss_count.
    assert (F : forall l, filter (fun p => match aget p (ev_la ey), aget p (ev_fd ex) with
                         | Some (i0, _), Some (j, _) => j <=? i0 | _, _ => false end) l = []).
    { induction l as [|p l IH]; [reflexivity|]. cbn [filter]. rewrite IH.
      destruct (aget p (ev_la ey)) as [[i0 y0]|] eqn:El; [|reflexivity].
      destruct (aget p (ev_fd ex)) as [[j z]|] eqn:Ef; [|reflexivity].
      destruct (Z.leb_spec j i0) as [Hle|]; [exfalso|reflexivity].
      destruct (Z.eq_dec p (e_creator (ev_e ex))) as [->|Hp].
      - rewrite (cd_own _ _ _ I x ex Hx) in Ef. inversion Ef; subst j z.
        pose proof (Htop y ey i0 y0 Hy Hne El). lia.
      - destruct (cd_sound _ _ _ I x ex p j z Hx Ef Hp) as [ez [Hz [Hcz [_ Hcond]]]].
        destruct Hcond as [ez' [ex' [t [y' [Hz' [Hx' [Hl [Hi _]]]]]]]].
        rewrite Hz in Hz'. inversion Hz'; subst ez'. rewrite Hx in Hx'. inversion Hx'; subst ex'.
        assert (z <> x) by (intros ->; rewrite Hx in Hz; inversion Hz; subst ez; congruence).
        pose proof (Htop z ez t y' Hz H Hl). lia. }
    rewrite F. reflexivity. }
  rewrite E. pose proof (super_majority_pos g).
  destruct (Z.leb_spec (super_majority g) 0); [lia|reflexivity].
Qed.


Lemma prnd_geD P E st p v : cinvD P E st -> prnd st p = Some v -> -1 <= v.
Proof.
  intros I. unfold prnd. destruct (p =? -1); [intros H; inversion H; lia|]. intros H.
  destruct (cd_rdom _ _ _ I p v H) as [H0 _]. lia.
Qed.
Lemma round_value_nonnegD P g E st r spr opr p1 p2 (c : Z) :
  cinvD P E st -> prnd st p1 = Some spr -> prnd st p2 = Some opr ->
  (Z.max spr opr = -1 -> r = 0) ->
  (Z.max spr opr <> -1 -> r = if super_majority g <=? c then Z.max spr opr + 1 else Z.max spr opr) ->
  0 <= r.
Proof.
  intros I Hs Ho Hr0 Hr1.
  pose proof (prnd_geD _ _ _ _ _ I Hs). pose proof (prnd_geD _ _ _ _ _ I Ho).
  destruct (Z.eq_dec (Z.max spr opr) (-1)) as [E0|Hne]; [rewrite (Hr0 E0); lia|].
  rewrite (Hr1 Hne). destruct (_ <=? _); lia.
Qed.

Section Divide.
  Variables (P : Z -> peerset) (st F : hg) (x : Z) (ex : evst) (r : Z) (w : bool) (spr opr : Z).
  Let gm := P (Z.max spr opr).
  Hypothesis I : cinvD P (Some x) st.
  Hypothesis Hx : get_event st x = Some ex.
  Hypothesis Hs : prnd st (e_sp (ev_e ex)) = Some spr.
  Hypothesis Ho : prnd st (e_op (ev_e ex)) = Some opr.
  Hypothesis Hr0 : Z.max spr opr = -1 -> r = 0.
  Hypothesis Hr1 : Z.max spr opr <> -1 ->
     get_round st (Z.max spr opr) <> None /\
     r = if super_majority gm <=? Z.of_nat (length (filter (ss_true gm st x) (wits st (Z.max spr opr))))
         then Z.max spr opr + 1 else Z.max spr opr.
  Hypothesis Hw : w = mem_key (e_creator (ev_e ex)) (keys (P r)) && (spr <? r).
  Hypothesis GF : forall y, get_event F y = if y =? x then Some (ex <| ev_round := Some r |>) else get_event st y.
  Hypothesis RF : forall y, rmemo F y = if y =? x then Some r else rmemo st y.
  Hypothesis WF : forall y, wmemo F y = if y =? x then Some w else wmemo st y.
  Hypothesis WL : forall r', wl F r' = if r' =? r then wl st r ++ [(x, w)] else wl st r'.
  Hypothesis RD : forall r', get_round F r' = None <-> r' <> r /\ get_round st r' = None.
    Hypothesis TF : topo F = topo st.

  Let Hrx : rmemo st x = None := proj1 (cd_exc _ _ _ I x eq_refl).
  Let Hwx : wmemo st x = None := proj1 (proj2 (cd_exc _ _ _ I x eq_refl)).

  Lemma div_r_nonneg : 0 <= r.
  Proof.
    eapply (round_value_nonnegD P gm (Some x) st r spr opr); [exact I|exact Hs|exact Ho|exact Hr0|].
    intros H. apply (proj2 (Hr1 H)).
  Qed.

  Lemma div_prnd p v : prnd st p = Some v -> prnd F p = Some v.
  Proof.
    unfold prnd. destruct (p =? -1); [auto|]. rewrite RF. intros H.
    destruct (Z.eqb_spec p x) as [->|]; [congruence|exact H].
  Qed.
  Lemma div_old y ey : get_event st y = Some ey -> y <> x ->
    get_event F y = Some ey /\ rmemo F y = rmemo st y /\ wmemo F y = wmemo st y.
  Proof.
    intros Hy Hne. rewrite GF, RF, WF. destruct (Z.eqb_spec y x); [contradiction|auto].
  Qed.
  Lemma div_back y ey : get_event F y = Some ey ->
    (y = x /\ ey = ex <| ev_round := Some r |>) \/ (y <> x /\ get_event st y = Some ey).
  Proof. rewrite GF. destruct (Z.eqb_spec y x) as [->|]; [intros H; inversion H; left; auto|right; auto]. Qed.

  Lemma div_strongly_see g y w' : strongly_see F y w' g = strongly_see st y w' g.
  Proof.
    unfold strongly_see. rewrite !GF.
    destruct (Z.eqb_spec y x) as [->|]; destruct (Z.eqb_spec w' x) as [->|]; rewrite ?Hx;
      try reflexivity; destruct (get_event st y); try reflexivity; destruct (get_event st w'); reflexivity.
  Qed.
  Lemma div_ss_true g y w' : ss_true g F y w' = ss_true g st y w'.
  Proof. unfold ss_true. rewrite div_strongly_see. reflexivity. Qed.

  Lemma div_wit y : y <> x -> wit F y = wit st y.
  Proof. intros H. unfold wit. rewrite WF. destruct (Z.eqb_spec y x); [contradiction|reflexivity]. Qed.
  Lemma div_wit_x_st : wit st x = false.
  Proof. unfold wit. rewrite Hwx. reflexivity. Qed.

  Lemma div_x_notin r' : ~ In x (map fst (wl st r')).
  Proof.
    intros H. apply in_map_iff in H. destruct H as [[x' b] [E H]]. cbn in E. subst x'.
    destruct (cd_tab _ _ _ I r' x b H) as [C _]. congruence.
  Qed.
  Lemma div_x_notin_wits r' : ~ In x (wits st r').
  Proof.
    intros H. unfold wits in H. apply in_map_iff in H. destruct H as [[x' b] [E H]]. cbn in E. subst x'.
    apply filter_In in H. destruct H as [H _]. apply (div_x_notin r'). apply (in_map fst) in H. exact H.
  Qed.

  (* the witness list of a round in the new state *)
  Lemma div_wits r' : exists extra, wits F r' = wits st r' ++ extra /\ (extra = [] \/ extra = [x]).
  Proof.
    unfold wits. rewrite WL. destruct (r' =? r) eqn:E.
    - apply Z.eqb_eq in E. subst r'. rewrite filter_app, map_app. cbn [filter snd].
      destruct w; cbn [map fst]; eauto.
    - exists []. rewrite app_nil_r. auto.
  Qed.

  Lemma div_cntss_old g y ey pr : get_event st y = Some ey -> y <> x ->
    cntss g F y (wits F pr) = cntss g st y (wits st pr).
  Proof.
    intros Hy Hne. destruct (div_wits pr) as [extra [-> Hex]]. rewrite cntss_app.
    rewrite (cntss_ext g st F y (wits st pr)) by (intros; apply div_ss_true).
    destruct Hex as [->| ->]; [rewrite cntss_nil; lia|].
    unfold cntss. cbn [filter]. rewrite div_ss_true, (exc_ss_falseD P g st x y ey I Hy Hne).
    rewrite andb_false_r. cbn. lia.
  Qed.
  Lemma div_cntss_x g pr :
    cntss g F x (wits F pr) = Z.of_nat (length (filter (ss_true g st x) (wits st pr))).
  Proof.
    destruct (div_wits pr) as [extra [-> Hex]]. rewrite cntss_app.
    rewrite (cntss_ext g st F x (wits st pr)) by (intros; apply div_ss_true).
    rewrite (cntss_notin g st x _ (div_x_notin_wits pr)).
    destruct Hex as [->| ->]; [rewrite cntss_nil|rewrite cntss_self]; lia.
  Qed.

  Lemma div_get_round_mono r' : get_round st r' <> None -> get_round F r' <> None.
  Proof. intros H C. apply RD in C. tauto. Qed.

  Lemma div_req_old y ey r0 : get_event st y = Some ey -> y <> x -> reqD P st y ey r0 -> reqD P F y ey r0.
  Proof.
    intros Hy Hne [s1 [o1 [H1 [H2 [H3 H4]]]]]. exists s1, o1.
    split; [apply div_prnd; exact H1|split; [apply div_prnd; exact H2|split; [exact H3|]]].
    intros Hn. destruct (H4 Hn) as [Hg Hq]. split; [apply div_get_round_mono; exact Hg|].
    rewrite (div_cntss_old _ y ey _ Hy Hne). exact Hq.
  Qed.

  Lemma div_nwb q lo hi : no_wit_between st q lo hi ->
    (q = e_creator (ev_e ex) -> hi < e_index (ev_e ex)) -> no_wit_between F q lo hi.
  Proof.
    intros H Hq y ey Hy Hc Hi. destruct (div_back y ey Hy) as [[-> ->]|[Hne Hy0]].
    - exfalso. replace (ev_e (ex <| ev_round := Some r |>)) with (ev_e ex) in * by (destruct ex; reflexivity).
      specialize (Hq (eq_sym Hc)). lia.
    - rewrite (div_wit y Hne). eapply H; eauto.
  Qed.

  Lemma div_ev_e_x : ev_e (ex <| ev_round := Some r |>) = ev_e ex.
  Proof. destruct ex; reflexivity. Qed.
  Lemma div_ev_la_x : ev_la (ex <| ev_round := Some r |>) = ev_la ex.
  Proof. destruct ex; reflexivity. Qed.
  Lemma div_ev_fd_x : ev_fd (ex <| ev_round := Some r |>) = ev_fd ex.
  Proof. destruct ex; reflexivity. Qed.

  (* reading an event of the old state in the new one *)
  Lemma div_fwd y ey : get_event st y = Some ey ->
    exists ey', get_event F y = Some ey' /\ ev_e ey' = ev_e ey /\ ev_la ey' = ev_la ey /\ ev_fd ey' = ev_fd ey.
  Proof.
    intros Hy. rewrite GF. destruct (Z.eqb_spec y x) as [->|].
    - rewrite Hx in Hy. inversion Hy; subst ey. eexists. split; [reflexivity|].
      rewrite div_ev_e_x, div_ev_la_x, div_ev_fd_x. auto.
    - exists ey. auto.
  Qed.
  Lemma div_bwd y ey' : get_event F y = Some ey' ->
    exists ey, get_event st y = Some ey /\ ev_e ey' = ev_e ey /\ ev_la ey' = ev_la ey /\ ev_fd ey' = ev_fd ey.
  Proof.
    intros Hy. destruct (div_back y ey' Hy) as [[-> ->]|[_ Hy0]].
    - exists ex. rewrite div_ev_e_x, div_ev_la_x, div_ev_fd_x. auto.
    - exists ey'. auto.
  Qed.

  Lemma div_cond z a ea : get_event st a = Some ea -> z <> x ->
    cond st z a -> cond F z a.
  Proof.
    intros Ha Hzx [ez [ea0 [t [y [Hz [Ha0 [Hl [Hi Hn]]]]]]]].
    rewrite Ha in Ha0. inversion Ha0; subst ea0.
    destruct (div_fwd z ez Hz) as [ez' [Hz' [_ [El _]]]].
    destruct (div_fwd a ea Ha) as [ea' [Ha' [Ee _]]].
    exists ez', ea', t, y. rewrite Ee, El. split; [auto|split; [auto|split; [auto|split; [auto|]]]].
    apply div_nwb; [exact Hn|]. intros Hq.
    pose proof (cd_exc _ _ _ I x eq_refl) as Hexc. destruct Hexc as [_ [_ [ex0 [Hx0 [_ [_ [_ Htop]]]]]]].
    rewrite Hx in Hx0. inversion Hx0; subst ex0. rewrite Hq in Hl.
    apply (Htop z ez t y Hz Hzx Hl).
  Qed.

  Theorem divide_cinvD_core : cinvD P None F.
  Proof.
    pose proof div_r_nonneg as Hr.
    constructor.
    - rewrite TF. apply (cd_topo0 _ _ _ I).
    - intros y ey' Hy. rewrite TF. destruct (div_bwd y ey' Hy) as [ey [Hy0 [Ee _]]]. rewrite Ee.
      eapply (cd_fuel _ _ _ I); eauto.
    - (* rdom *)
      intros y r0. rewrite RF. destruct (Z.eqb_spec y x) as [->|Hne].
      + intros E. inversion E; subst r0. split; [exact Hr|].
        exists (ex <| ev_round := Some r |>). split; [rewrite GF, Z.eqb_refl; reflexivity|].
        exists spr, opr. rewrite div_ev_e_x.
        split; [apply div_prnd; exact Hs|split; [apply div_prnd; exact Ho|split; [exact Hr0|]]].
        intros Hn. destruct (Hr1 Hn) as [Hg Hq]. split; [apply div_get_round_mono; exact Hg|].
        fold gm. rewrite div_cntss_x. exact Hq.
      + intros Hr0'. destruct (cd_rdom _ _ _ I y r0 Hr0') as [H0 [ey [Hy Hq]]]. split; [exact H0|].
        exists ey. split; [apply (div_old y ey Hy Hne)|]. apply div_req_old; auto.
    - (* wdom *)
      intros y w0. rewrite WF. destruct (Z.eqb_spec y x) as [->|Hne].
      + intros E. inversion E; subst w0. exists (ex <| ev_round := Some r |>), r.
        split; [rewrite GF, Z.eqb_refl; reflexivity|]. split; [rewrite RF, Z.eqb_refl; reflexivity|].
        exists spr. rewrite div_ev_e_x. split; [apply div_prnd; exact Hs|exact Hw].
      + intros Hw0. destruct (cd_wdom _ _ _ I y w0 Hw0) as [ey [r0 [Hy [Hry [s1 [H1 H2]]]]]].
        exists ey, r0. split; [apply (div_old y ey Hy Hne)|]. split.
        * rewrite RF. destruct (Z.eqb_spec y x); [contradiction|exact Hry].
        * exists s1. split; [apply div_prnd; exact H1|exact H2].
    - (* all *)
      intros y ey' Hy _. rewrite RF, WF. destruct (div_back y ey' Hy) as [[-> ->]|[Hne Hy0]].
      + rewrite Z.eqb_refl. exists r, w. split; [reflexivity|split; [reflexivity|]]. destruct ex; reflexivity.
      + destruct (Z.eqb_spec y x); [contradiction|]. apply (cd_all _ _ _ I y ey' Hy0). congruence.
    - intros y C. discriminate.
    - (* tab *)
      intros r' y w0. rewrite WL, RF, WF. destruct (Z.eqb_spec r' r) as [->|Hnr].
      + intros Hin. apply in_app_or in Hin. destruct Hin as [Hin|[E|[]]].
        * destruct (cd_tab _ _ _ I r y w0 Hin) as [A B].
          destruct (Z.eqb_spec y x) as [->|]; [congruence|auto].
        * inversion E; subst y w0. rewrite Z.eqb_refl. auto.
      + intros Hin. destruct (cd_tab _ _ _ I r' y w0 Hin) as [A B].
        destruct (Z.eqb_spec y x) as [->|]; [congruence|auto].
    - (* tabc *)
      intros y r0 w0. rewrite RF, WF, WL. destruct (Z.eqb_spec y x) as [->|Hne].
      + intros E1 E2. inversion E1; inversion E2; subst r0 w0. rewrite Z.eqb_refl.
        apply in_or_app. right. left. reflexivity.
      + intros A B. pose proof (cd_tabc _ _ _ I y r0 w0 A B) as Hin.
        destruct (r0 =? r) eqn:E; [apply Z.eqb_eq in E; subst r0; apply in_or_app; left; exact Hin|exact Hin].
    - (* tabu *)
      intros r'. rewrite WL. destruct (Z.eqb_spec r' r) as [->|]; [|apply (cd_tabu _ _ _ I)].
      rewrite map_app. cbn [map fst]. apply NoDup_app_intro'; [apply (cd_tabu _ _ _ I)|constructor; [intros []|constructor]|].
      intros y Hy [<-|[]]. apply (div_x_notin r). exact Hy.
    - (* tabne *)
      intros r' Hr'. rewrite WL. destruct (Z.eqb_spec r' r) as [->|Hne].
      + intros C. apply app_eq_nil in C. destruct C as [_ C]. discriminate.
      + apply (cd_tabne _ _ _ I). intros C. apply Hr'. apply RD. auto.
    - (* own *)
      intros a ea' Ha. destruct (div_bwd a ea' Ha) as [ea [Ha0 [Ee [_ Ef]]]]. rewrite Ee, Ef.
      apply (cd_own _ _ _ I a ea Ha0).
    - (* sound *)
      intros a ea' c i z Ha Hg Hc. destruct (div_bwd a ea' Ha) as [ea [Ha0 [Ee [_ Ef]]]].
      rewrite Ef in Hg. rewrite Ee in Hc.
      destruct (cd_sound _ _ _ I a ea c i z Ha0 Hg Hc) as [ez [Hz [H1 [H2 H3]]]].
      destruct (div_fwd z ez Hz) as [ez' [Hz' [Ee' _]]]. exists ez'. rewrite Ee'.
      split; [exact Hz'|split; [exact H1|split; [exact H2|]]].
      destruct (Z.eq_dec z x) as [->|Hzx]; [|apply (div_cond z a ea Ha0 Hzx H3)].
      (* z = x: the chain of a is not x's chain, x cannot lie in the range *)
      destruct H3 as [ez0 [ea0 [t [y [Hz0 [Ha00 [Hl [Hi Hn]]]]]]]].
      rewrite Hx in Hz0. inversion Hz0; subst ez0. rewrite Ha0 in Ha00. inversion Ha00; subst ea0.
      rewrite Hx in Hz. inversion Hz; subst ez.
      destruct (div_fwd a ea Ha0) as [ea2 [Ha2 [Ee2 _]]].
      exists (ex <| ev_round := Some r |>), ea2, t, y. rewrite Ee2, div_ev_la_x.
      split; [rewrite GF, Z.eqb_refl; reflexivity|split; [exact Ha2|split; [exact Hl|split; [exact Hi|]]]].
      apply div_nwb; [exact Hn|]. intros Hq. congruence.
    - (* closed *)
      intros a ea' c i z Ha Hg Hwa Hsp. destruct (div_bwd a ea' Ha) as [ea [Ha0 [Ee [_ Ef]]]].
      rewrite Ef in Hg. rewrite Ee in *.
      assert (Hwa0 : wit st a = false).
      { destruct (Z.eq_dec a x) as [->|Hne]; [apply div_wit_x_st|rewrite <- (div_wit a Hne); exact Hwa]. }
      destruct (cd_closed _ _ _ I a ea c i z Ha0 Hg Hwa0 Hsp) as [es [i' [z' [Hes [Hg' Hle]]]]].
      destruct (div_fwd _ es Hes) as [es' [Hes' [_ [_ Ef']]]]. exists es', i', z'. rewrite Ef'. auto.
    - (* top *)
      intros z ez' q t y Hz Hg. destruct (div_bwd z ez' Hz) as [ez [Hz0 [Ee [El _]]]].
      rewrite El in Hg. rewrite Ee.
      destruct (cd_top _ _ _ I z ez q t y Hz0 Hg) as [ey [i [z' [Hy [Hg' Hle]]]]].
      destruct (div_fwd y ey Hy) as [ey' [Hy' [_ [_ Ef']]]]. exists ey', i, z'. rewrite Ef'. auto.
  Qed.
End Divide.


(** * Evaluating the division with the sets the table gives *)
Lemma divide_round_evalD st x ex spr opr :
  0 <= x -> rmemo st x = None -> wmemo st x = None -> get_event st x = Some ex ->
  prnd st (e_sp (ev_e ex)) = Some spr -> prnd st (e_op (ev_e ex)) = Some opr ->
  e_sp (ev_e ex) <> x -> peersets st <> [] ->
  (Z.max spr opr = -1 \/
   exists pri, get_round st (Z.max spr opr) = Some pri /\
               forall g w, In w (witnesses pri) -> strongly_see st x w g <> None) ->
  exists r gm gr,
    get_peerset st (Z.max spr opr) = Some gm /\ get_peerset st r = Some gr /\
    divide_round st x = div_result st x ex r (mem_key (e_creator (ev_e ex)) (keys gr) && (spr <? r)) /\
    (Z.max spr opr = -1 -> r = 0) /\
    (Z.max spr opr <> -1 -> forall pri, get_round st (Z.max spr opr) = Some pri ->
       r = if super_majority gm <=? Z.of_nat (length (filter (ss_true gm st x) (witnesses pri)))
           then Z.max spr opr + 1 else Z.max spr opr).
Proof.
  intros Hx0 Hm Hw Hx Hs Ho Hspx Hne Hc.
  destruct (get_nonempty (Z.max spr opr) (peersets st) Hne) as [gm Hgm].
  assert (Hc' : Z.max spr opr = -1 \/
    exists pri, get_round st (Z.max spr opr) = Some pri /\ get_peerset st (Z.max spr opr) = Some gm /\
                forall w, In w (witnesses pri) -> strongly_see st x w gm <> None).
  { destruct Hc as [?|[pri [? ?]]]; [left; auto|right; exists pri; auto]. }
  destruct (round_f_eval gm (Z.to_nat (topo st)) st x ex spr opr Hm Hx Hs Ho Hc') as [r [Hrf [H1 H2]]].
  destruct (get_nonempty r (peersets st) Hne) as [gr Hgr].
  exists r, gm, gr. split; [exact Hgm|]. split; [exact Hgr|]. split; [|split; assumption].
  unfold divide_round. unfold fuel_of at 1. rewrite Hrf.
  set (s := st <| round_memo := zset x r (round_memo st) |>).
  assert (Hxs : get_event s x = Some ex) by (destruct st; exact Hx).
  unfold set_event_round. rewrite Hxs. cbv zeta.
  set (s1 := set_evst s x (ex <| ev_round := Some r |>)).
  set (ri := round_or_new s1 r). set (s2 := maybe_queue s1 r ri).
  destruct (maybe_queue_fields s1 r ri) as [E2 [R2 [W2 [Ro2 [P2 [T2 F2]]]]]]. fold s2 in E2, R2, W2, Ro2, P2, T2, F2.
  assert (Hw2 : wmemo s2 x = None).
  { unfold wmemo. rewrite W2. unfold s1, s. destruct st; exact Hw. }
  assert (Hx2 : get_event s2 x = Some (ex <| ev_round := Some r |>)).
  { unfold get_event. rewrite E2. fold (get_event s1 x). unfold s1. rewrite get_event_set_evst, Z.eqb_refl.
    replace (0 <=? x) with true by lia. reflexivity. }
  assert (Hr2 : rmemo s2 x = Some r).
  { unfold rmemo. rewrite R2. unfold s1, s. destruct st; cbn. apply zget_zset_same. exact Hx0. }
  assert (Hp2 : get_peerset s2 r = Some gr).
  { unfold get_peerset. rewrite P2. unfold s1, s. unfold get_peerset in Hgr. destruct st; exact Hgr. }
  assert (Hs2 : prnd s2 (e_sp (ev_e ex)) = Some spr).
  { unfold prnd, rmemo. rewrite R2. unfold s1, s. unfold prnd, rmemo in Hs.
    destruct (e_sp (ev_e ex) =? -1); [exact Hs|]. destruct st; cbn in *.
    rewrite zget_zset_other by congruence. exact Hs. }
  pose proof (witness_f_eval gr (fuel_of s2) s2 x (ex <| ev_round := Some r |>) r spr Hw2 Hx2 Hr2 Hp2) as Hwf.
  replace (ev_e (ex <| ev_round := Some r |>)) with (ev_e ex) in Hwf by (destruct ex; reflexivity).
  rewrite (Hwf Hs2). reflexivity.
Qed.

Theorem divide_round_cinvD P st x :
  dag_ok st -> cinvD P (Some x) st -> peersets st <> [] ->
  (forall q, get_round (divide_round st x) q <> None -> get_peerset st q = Some (P q)) ->
  cinvD P None (divide_round st x) /\ failed (divide_round st x) = failed st.
Proof.
  intros OK I Hne Hps.
  destruct (cd_exc _ _ _ I x eq_refl) as [Hrx [Hwx [ex [Hx [_ [Hp1 [Hp2 _]]]]]]].
  assert (Hx0 : 0 <= x) by (eapply zget_some_nonneg; exact Hx).
  destruct (prnd st (e_sp (ev_e ex))) as [spr|] eqn:Hs; [|contradiction].
  destruct (prnd st (e_op (ev_e ex))) as [opr|] eqn:Ho; [|contradiction].
  assert (Hspx : e_sp (ev_e ex) <> x).
  { intros C. rewrite C in Hs. unfold prnd in Hs. replace (x =? -1) with false in Hs by lia. congruence. }
  (* the parent round is in the table, its witnesses are stored *)
  assert (Hpar : Z.max spr opr <> -1 ->
     exists pri, get_round st (Z.max spr opr) = Some pri /\
                 forall g w, In w (witnesses pri) -> strongly_see st x w g <> None).
  { intros Hn.
    assert (Hp : exists p, p <> -1 /\ rmemo st p = Some (Z.max spr opr)).
    { unfold prnd in Hs, Ho. destruct (Z.max_spec spr opr) as [[_ E]|[_ E]]; rewrite E in *.
      - destruct (Z.eqb_spec (e_op (ev_e ex)) (-1)); [inversion Ho; lia|eauto].
      - destruct (Z.eqb_spec (e_sp (ev_e ex)) (-1)); [inversion Hs; lia|eauto]. }
    destruct Hp as [p [Hpn Hrp]].
    destruct (cd_rdom _ _ _ I p _ Hrp) as [_ [ep [Hep _]]].
    assert (Hpx : p <> x) by (intros ->; congruence).
    destruct (cd_all _ _ _ I p ep Hep ltac:(congruence)) as [r0 [w0 [Hr0 [Hw0 _]]]].
    rewrite Hrp in Hr0. inversion Hr0; subst r0.
    pose proof (cd_tabc _ _ _ I p _ w0 Hrp Hw0) as Hin.
    unfold wl in Hin. destruct (get_round st (Z.max spr opr)) as [pri|] eqn:Hg; [|destruct Hin].
    exists pri. split; [reflexivity|]. intros g w Hw.
    rewrite <- (wits_get_round st _ pri Hg) in Hw.
    unfold wits in Hw. apply in_map_iff in Hw. destruct Hw as [[w' b] [E Hw]]. cbn in E. subst w'.
    apply filter_In in Hw. destruct Hw as [Hw _].
    destruct (cd_tab _ _ _ I _ w b Hw) as [Hrw _].
    destruct (cd_rdom _ _ _ I w _ Hrw) as [_ [ew [Hew _]]].
    unfold strongly_see. rewrite Hx, Hew. discriminate. }
  assert (Hc : Z.max spr opr = -1 \/
     exists pri, get_round st (Z.max spr opr) = Some pri /\
                 forall g w, In w (witnesses pri) -> strongly_see st x w g <> None).
  { destruct (Z.eq_dec (Z.max spr opr) (-1)); [left; assumption|right; auto]. }
  destruct (divide_round_evalD st x ex spr opr Hx0 Hrx Hwx Hx Hs Ho Hspx Hne Hc) as [r [gm [gr [Hgm [Hgr [Hdiv [Hr0 Hr1]]]]]]].
  set (w := mem_key (e_creator (ev_e ex)) (keys gr) && (spr <? r)) in *.
  (* r is not negative whatever the sets are *)
  assert (Hrn : 0 <= r).
  { pose proof (prnd_geD _ _ _ _ _ I Hs). pose proof (prnd_geD _ _ _ _ _ I Ho).
    destruct (Z.eq_dec (Z.max spr opr) (-1)) as [E0|Hn]; [rewrite (Hr0 E0); lia|].
    destruct (Hpar Hn) as [pri [Hg _]]. rewrite (Hr1 Hn pri Hg). destruct (_ <=? _); lia. }
  rewrite Hdiv in Hps |- *.
  destruct (div_result_obs st x ex r w Hx0) as [GF [RF [WF [RoF [PF [TF FF]]]]]].
  set (F := div_result st x ex r w) in *.
  split; [|exact FF].
  (* the two sets are the ones P gives: both rounds exist after the division *)
  assert (GRF : forall r', get_round F r' = if r =? r' then Some (add_created (round_or_new st r) x w) else get_round st r')
    by (intros r'; apply (get_round_zset st F r _ r' Hrn RoF)).
  assert (Egr : gr = P r).
  { assert (Hex : get_round F r <> None) by (rewrite GRF, Z.eqb_refl; discriminate).
    pose proof (Hps r Hex) as H. rewrite Hgr in H. inversion H. reflexivity. }
  assert (Egm : Z.max spr opr <> -1 -> gm = P (Z.max spr opr)).
  { intros Hn. destruct (Hpar Hn) as [pri [Hg _]].
    assert (Hex : get_round F (Z.max spr opr) <> None).
    { rewrite GRF. destruct (r =? Z.max spr opr); [discriminate|rewrite Hg; discriminate]. }
    pose proof (Hps _ Hex) as H. rewrite Hgm in H. inversion H. reflexivity. }
  assert (Hr1' : Z.max spr opr <> -1 ->
     get_round st (Z.max spr opr) <> None /\
     r = if super_majority (P (Z.max spr opr)) <=? Z.of_nat (length (filter (ss_true (P (Z.max spr opr)) st x) (wits st (Z.max spr opr))))
         then Z.max spr opr + 1 else Z.max spr opr).
  { intros Hn. destruct (Hpar Hn) as [pri [Hg _]]. split; [congruence|].
    rewrite (wits_get_round st _ pri Hg), <- (Egm Hn). apply Hr1; assumption. }
  assert (Hnotin : aget x (ri_created (round_or_new st r)) = None).
  { apply aget_not_In. intros Hin.
    unfold round_or_new in Hin. destruct (get_round st r) as [ri|] eqn:Hg; [|destruct Hin].
    apply in_map_iff in Hin. destruct Hin as [[x' [b f]] [E Hin]]. cbn in E. subst x'.
    assert (Hwl : In (x, b) (wl st r)).
    { unfold wl. rewrite Hg. unfold wl_of. apply in_map_iff. exists (x, (b, f)). auto. }
    destruct (cd_tab _ _ _ I r x b Hwl) as [C _]. congruence. }
  assert (Hw' : w = mem_key (e_creator (ev_e ex)) (keys (P r)) && (spr <? r)) by (unfold w; rewrite Egr; reflexivity).
  apply (divide_cinvD_core P st F x ex r w spr opr I Hx Hs Ho Hr0 Hr1' Hw' GF).
  - intros y. unfold rmemo. rewrite RF, zget_zset, (Z.eqb_sym y). replace (0 <=? x) with true by lia.
    rewrite andb_true_r. reflexivity.
  - intros y. unfold wmemo. rewrite WF, zget_zset, (Z.eqb_sym y). replace (0 <=? x) with true by lia.
    rewrite andb_true_r. reflexivity.
  - intros r'. unfold wl at 1. rewrite (get_round_zset st F r _ r' Hrn RoF), (Z.eqb_sym r').
    destruct (Z.eqb_spec r r') as [<-|]; [|reflexivity].
    rewrite (wl_of_add_created _ x w Hnotin). f_equal.
    unfold wl, round_or_new. destruct (get_round st r); reflexivity.
  - intros r'. rewrite (get_round_zset st F r _ r' Hrn RoF).
    destruct (Z.eqb_spec r r') as [<-|Hne']; split; intros H; try discriminate; try tauto.
    split; [congruence|exact H].
  - exact TF.
Qed.
