(* Bridge between HgImpl.fame_of (store lookups) and the abstract voting loop over explicit
   witness lists. *)
From Coq Require Import ZArith List Bool.
From V Require Import Model.ZMap Model.Quorum Model.Voting Model.HgImpl.
Import ListNotations.
Open Scope Z_scope.

Lemma fame_loop_ext P rw1 rw2 r : forall js votes,
  (forall j, In j js -> rw1 j = rw2 j) ->
  fame_loop P rw1 r js votes = fame_loop P rw2 r js votes.
Proof.
  induction js as [|j rest IH]; intros votes H; cbn [fame_loop]; [reflexivity|].
  rewrite (H j (or_introl eq_refl)).
  destruct (rw2 j) as [ws|]; [|reflexivity].
  destruct (fame_round_j P r j ws votes) as [[votes' [v|]]|]; try reflexivity.
  apply IH. intros j' Hj'. apply H. right. exact Hj'.
Qed.

(* the view of a node about candidate x of round r: the witnesses it knows per round *)
Definition view_witnesses (st : hg) (j : Z) : list Z :=
  match round_witnesses st j with Some ws => ws | None => [] end.

Lemma fame_of_as_view st x r :
  (forall j, In j (zrange (r + 1) (last_round st)) -> round_witnesses st j <> None) ->
  fame_of st x r =
  fame_loop (vparams_of st x) (fun j => Some (view_witnesses st j)) r (zrange (r + 1) (last_round st)) [].
Proof.
  intros H. unfold fame_of. apply fame_loop_ext. intros j Hj. unfold view_witnesses.
  specialize (H j Hj). destruct (round_witnesses st j); [reflexivity|contradiction].
Qed.
