(* STRETCH, part 1: the fame values recorded in the round tables are the values of DecideFame's
   voting loop read in the current state, and they never change once set. *)
From Coq Require Import ZArith List Bool Lia ZifyBool Permutation.
From RecordUpdate Require Import RecordSet.
From V Require Import Model.ZMap Model.Quorum Model.Voting Model.VotingRef Model.HgImpl
  Proofs.ZMapFacts Proofs.QuorumProofs Proofs.HgFrames Proofs.HgDagFrames Proofs.AdmissionProofs Proofs.InsertShape
  Proofs.HgBlockFrames Proofs.BlockInv Proofs.RoundOrder Proofs.OrderFrames Proofs.OrderProofs Proofs.Ancestry
  Proofs.VotingProofs Proofs.VotingTheorems Proofs.FameBridge
  Proofs.Static Proofs.FirstDesc Proofs.FdWalk Proofs.InsertInv Proofs.DivInv Proofs.CInvRun Proofs.Height
  Proofs.StronglySee Proofs.RoundFun Proofs.ViewOk Proofs.SameHistory Proofs.Agreement Proofs.NoFail Proofs.LrFrames.
Import ListNotations RecordSetNotations.
Open Scope Z_scope.

(** * The voting loop only depends on the values of its parameters *)
Definition vp_eq (P Q : vparams) : Prop :=
  (forall y, vp_sees P y = vp_sees Q y) /\ (forall j, vp_prev P j = vp_prev Q j) /\
  (forall j y w, vp_ss P j y w = vp_ss Q j y w) /\ (forall j, vp_sm P j = vp_sm Q j) /\
  (forall y, vp_coin P y = vp_coin Q y).

Lemma ss_witnesses_ext P Q j y prev : vp_eq P Q -> ss_witnesses P j y prev = ss_witnesses Q j y prev.
Proof.
  intros [_ [_ [Hss _]]]. unfold ss_witnesses. generalize (Some (@nil Z)).
  induction prev as [|w l IH]; intros acc; cbn [fold_left]; [reflexivity|]. rewrite Hss. apply IH.
Qed.

Lemma fame_round_j_ext P Q r j : vp_eq P Q -> forall ys votes,
  fame_round_j P r j ys votes = fame_round_j Q r j ys votes.
Proof.
  intros E. pose proof E as [Hs [Hp [Hss [Hsm Hc]]]].
  induction ys as [|y ys IH]; intros votes; cbn [fame_round_j]; [reflexivity|].
  destruct (j - r =? 1).
  - rewrite Hs. destruct (vp_sees Q y); [apply IH|reflexivity].
  - rewrite Hp, Hsm. destruct (vp_prev Q j) as [prev|]; [|reflexivity]. destruct (vp_sm Q j) as [smj|]; [|reflexivity].
    rewrite (ss_witnesses_ext P Q j y prev E). destruct (ss_witnesses Q j y prev) as [ssw|]; [|reflexivity].
    destruct (tally votes ssw) as [v t]. rewrite Hc.
    destruct (0 <? (j - r) mod 4); destruct (smj <=? t); try reflexivity; apply IH.
Qed.

Lemma fame_loop_ext_P P Q rw r : vp_eq P Q -> forall js votes,
  fame_loop P rw r js votes = fame_loop Q rw r js votes.
Proof.
  intros E. induction js as [|j js IH]; intros votes; cbn [fame_loop]; [reflexivity|].
  destruct (rw j) as [ws|]; [|reflexivity]. rewrite (fame_round_j_ext P Q r j E).
  destruct (fame_round_j Q r j ws votes) as [[votes' [v|]]|]; try reflexivity. apply IH.
Qed.

(** * States that agree on what DecideFame reads *)
Record fkeep (s s' : hg) : Prop := { fk_c : ckeep s s'; fk_lr : last_round s' = last_round s }.

Lemma fkeep_refl s : fkeep s s.
Proof. constructor; [apply ckeep_refl|reflexivity]. Qed.
Lemma fkeep_trans a b c : fkeep a b -> fkeep b c -> fkeep a c.
Proof. intros [A1 A2] [B1 B2]. constructor; [eapply ckeep_trans; eauto|congruence]. Qed.
Lemma fkeep_sym a b : fkeep a b -> fkeep b a.
Proof. intros [A1 A2]. constructor; [apply ckeep_sym; exact A1|congruence]. Qed.

Lemma ckeep_get_event_e s s' x : ckeep s s' ->
  option_map (fun e => (ev_e e, ev_la e)) (get_event s' x) = option_map (fun e => (ev_e e, ev_la e)) (get_event s x).
Proof.
  intros K. pose proof (ck_ev _ _ K x) as E.
  destruct (get_event s' x), (get_event s x); cbn in *; try discriminate; [|reflexivity].
  unfold ev_c in E. inversion E. reflexivity.
Qed.

Lemma ckeep_see s s' y x : ckeep s s' -> see s' y x = see s y x.
Proof.
  intros K. unfold see, ancestor. destruct (y =? x); [reflexivity|].
  pose proof (ckeep_get_event_e s s' y K) as Ey. pose proof (ckeep_get_event_e s s' x K) as Ex.
  destruct (get_event s' y), (get_event s y); cbn in Ey; try discriminate; [|reflexivity].
  destruct (get_event s' x), (get_event s x); cbn in Ex; try discriminate; [|reflexivity].
  inversion Ey. inversion Ex. congruence.
Qed.

Lemma ckeep_round_lists s s' j : ckeep s s' ->
  match get_round s' j with Some ri => Some (witnesses ri) | None => None end =
  match get_round s j with Some ri => Some (witnesses ri) | None => None end.
Proof.
  intros K. pose proof (ck_wl _ _ K j) as Hw. pose proof (ck_rd _ _ K j) as Hd. unfold wl in Hw.
  destruct (get_round s' j) as [ri'|] eqn:E', (get_round s j) as [ri|] eqn:E.
  - rewrite !witnesses_wl, Hw. reflexivity.
  - exfalso. assert (C : Some ri' = None) by (apply Hd; reflexivity). discriminate.
  - exfalso. assert (C : Some ri = None) by (apply Hd; reflexivity). discriminate.
  - reflexivity.
Qed.

Lemma ckeep_vparams s s' x : ckeep s s' -> vp_eq (vparams_of s' x) (vparams_of s x).
Proof.
  intros K. unfold vp_eq, vparams_of. cbn [vp_sees vp_prev vp_ss vp_sm vp_coin].
  split; [intros y; apply ckeep_see; exact K|].
  split; [intros j; apply ckeep_round_lists; exact K|].
  split.
  { intros j y w. unfold get_peerset. rewrite (ck_ps _ _ K).
    destruct (ps_table_get (j - 1) (peersets s)); [apply ckeep_strongly_see; exact K|reflexivity]. }
  split; [intros j; unfold get_peerset; rewrite (ck_ps _ _ K); reflexivity|].
  intros y. unfold coin_of. pose proof (ckeep_get_event_e s s' y K) as Ey.
  destruct (get_event s' y), (get_event s y); cbn in Ey; try discriminate; [|reflexivity].
  inversion Ey. congruence.
Qed.

Lemma ckeep_round_witnesses s s' j : ckeep s s' -> round_witnesses s' j = round_witnesses s j.
Proof.
  intros K. unfold round_witnesses. pose proof (ckeep_round_lists s s' j K) as H.
  unfold get_peerset. rewrite (ck_ps _ _ K).
  destruct (get_round s' j), (get_round s j); try discriminate; [|reflexivity].
  destruct (ps_table_get j (peersets s)); [exact H|reflexivity].
Qed.

Lemma fame_of_fkeep s s' x r : fkeep s s' -> fame_of s' x r = fame_of s x r.
Proof.
  intros [K L]. unfold fame_of. rewrite L.
  rewrite (fame_loop_ext_P _ _ _ r (ckeep_vparams s s' x K)).
  apply fame_loop_ext. intros j _. apply ckeep_round_witnesses. exact K.
Qed.

(** * Recorded fame *)
Definition tri_of (v : bool) : trilean := if v then TTrue else TFalse.
Definition frec (st : hg) (r x : Z) (v : bool) : Prop :=
  exists ri, get_round st r = Some ri /\ aget x (ri_created ri) = Some (true, tri_of v).

Lemma frec_rounds s s' : rounds s' = rounds s -> forall r x v, frec s' r x v <-> frec s r x v.
Proof. intros E r x v. unfold frec, get_round. rewrite E. reflexivity. Qed.

Lemma aget_app_one {A} k (l : list (Z * A)) k0 v0 u :
  aget k (l ++ [(k0, v0)]) = Some u -> aget k l = Some u \/ (aget k l = None /\ k0 = k /\ u = v0).
Proof.
  destruct (aget k l) as [u'|] eqn:E.
  - rewrite (aget_app_some k l _ u' E). intros H. left. exact H.
  - rewrite (aget_app_none k l _ E). cbn [aget]. destruct (Z.eqb_spec k0 k); [|discriminate].
    intros H. inversion H. right. auto.
Qed.

Lemma tri_of_not_undefined v : tri_of v <> Undefined.
Proof. destruct v; discriminate. Qed.

(* adding a created event never adds a recorded fame *)
Lemma frec_add_created st (st' : hg) r0 y w : rounds st' = zset r0 (add_created (round_or_new st r0) y w) (rounds st) ->
  forall r x v, frec st' r x v -> frec st r x v.
Proof.
  intros E r x v [ri' [Hg Ha]]. unfold get_round in Hg. rewrite E, zget_zset in Hg.
  destruct ((r0 =? r) && (0 <=? r0)) eqn:Eb; [|exists ri'; split; [exact Hg|exact Ha]].
  apply andb_true_iff in Eb. destruct Eb as [Er _]. apply Z.eqb_eq in Er. subst r0.
  inversion Hg; subst ri'; clear Hg. unfold add_created, round_or_new in Ha.
  destruct (get_round st r) as [ri|] eqn:Hri.
  - destruct (aget y (ri_created ri)); [exists ri; auto|].
    replace (ri_created (ri <| ri_created := ri_created ri ++ [(y, (w, Undefined))] |>))
      with (ri_created ri ++ [(y, (w, Undefined))]) in Ha by (destruct ri; reflexivity).
    destruct (aget_app_one _ _ _ _ _ Ha) as [H|[_ [_ H]]]; [exists ri; auto|].
    inversion H. exfalso. eapply tri_of_not_undefined; eauto.
  - cbn in Ha. destruct (Z.eqb_spec y x); [|discriminate]. inversion Ha. exfalso. eapply tri_of_not_undefined; eauto.
Qed.

Lemma rounds_maybe_queue s r ri : rounds (maybe_queue s r ri) = rounds s.
Proof. destruct (maybe_queue_fields s r ri) as [_ [_ [_ [H _]]]]. exact H. Qed.

Lemma frec_divide_round st y r x v : frec (divide_round st y) r x v -> frec st r x v.
Proof.
  unfold divide_round.
  pose proof (nomemo_eq_rounds _ _ (round_f_nomemo (fuel_of st) st y)) as R1.
  destruct (round_f (fuel_of st) st y) as [[r0|] s]; cbn [snd] in R1.
  2:{ apply (frec_rounds st (fail s)). rewrite <- R1. destruct s; reflexivity. }
  cbv zeta.
  set (s1 := set_event_round s y r0).
  assert (R2 : rounds s1 = rounds st).
  { rewrite <- R1. unfold s1, set_event_round. destruct (get_event s y); [destruct s|]; reflexivity. }
  assert (Eri : round_or_new s1 r0 = round_or_new st r0) by (unfold round_or_new, get_round; rewrite R2; reflexivity).
  rewrite Eri. set (ri := round_or_new st r0). set (s2 := maybe_queue s1 r0 ri).
  assert (R3 : rounds s2 = rounds st) by (unfold s2; rewrite rounds_maybe_queue; exact R2).
  pose proof (nomemo_eq_rounds _ _ (witness_f_nomemo (fuel_of s2) s2 y)) as R4.
  destruct (witness_f (fuel_of s2) s2 y) as [[w|] s']; cbn [snd] in R4.
  - apply (frec_add_created st _ r0 y w). rewrite <- R3, <- R4. destruct s'; reflexivity.
  - apply (frec_rounds st (fail s')). rewrite <- R3, <- R4. destruct s'; reflexivity.
Qed.

Lemma rounds_divide_lt st y : rounds (divide_lt st y) = rounds st.
Proof.
  unfold divide_lt. pose proof (nomemo_eq_rounds _ _ (lamport_f_nomemo (fuel_of st) st y)) as R1.
  destruct (lamport_f (fuel_of st) st y) as [[t|] s]; cbn [snd] in R1.
  - rewrite <- R1. unfold set_event_lt. destruct (get_event s y); [destruct s|]; reflexivity.
  - rewrite <- R1. destruct s; reflexivity.
Qed.

Lemma frec_divide_one st y r x v : frec (divide_one st y) r x v -> frec st r x v.
Proof.
  unfold divide_one. destruct (failed st); [auto|].
  destruct (get_event st y) as [ev|]; [|apply (frec_rounds st (fail st)); destruct st; reflexivity].
  cbv zeta. set (st1 := match ev_round ev with Some _ => st | None => divide_round st y end).
  assert (H1 : frec st1 r x v -> frec st r x v).
  { unfold st1. destruct (ev_round ev); [auto|apply frec_divide_round]. }
  destruct (failed st1); [exact H1|].
  destruct (get_event st1 y) as [ev1|]; [|intros H; apply H1; revert H; apply (frec_rounds st1 (fail st1)); destruct st1; reflexivity].
  destruct (ev_lt ev1); [exact H1|].
  intros H. apply H1. revert H. apply (frec_rounds st1). apply rounds_divide_lt.
Qed.

Lemma frec_divide_rounds st r x v : frec (divide_rounds st) r x v -> frec st r x v.
Proof.
  unfold divide_rounds. generalize (undetermined st). intros l. revert st.
  induction l as [|y l IH]; intros st; cbn [fold_left]; [auto|].
  intros H. apply (frec_divide_one st y). apply IH. exact H.
Qed.

(** ** DecideFame *)
Lemma aget_set_fame ri y v x u : aget x (ri_created (set_fame ri y v)) = Some u ->
  aget x (ri_created ri) = Some u \/
  (x = y /\ exists w, u = (w, tri_of v) /\ (aget y (ri_created ri) = None \/ exists t, aget y (ri_created ri) = Some (w, t))).
Proof.
  unfold set_fame. fold (tri_of v).
  destruct (aget y (ri_created ri)) as [[w t]|] eqn:Ey.
  - replace (ri_created (ri <| ri_created := aset y (w, tri_of v) (ri_created ri) |>))
      with (aset y (w, tri_of v) (ri_created ri)) by (destruct ri; reflexivity).
    rewrite Ancestry.aget_aset. destruct (Z.eqb_spec y x) as [->|]; [|auto].
    intros H. inversion H. right. split; [reflexivity|]. exists w. split; [reflexivity|]. right. eauto.
  - replace (ri_created (ri <| ri_created := ri_created ri ++ [(y, (true, tri_of v))] |>))
      with (ri_created ri ++ [(y, (true, tri_of v))]) by (destruct ri; reflexivity).
    intros H. destruct (aget_app_one _ _ _ _ _ H) as [H'|[_ [E ->]]]; [auto|].
    right. split; [auto|]. exists true. auto.
Qed.

Lemma fame_fold_frec s r ws : forall ri0 ri' x u,
  fold_left (fun (a : option rinfo) y =>
               match a with
               | None => None
               | Some ri' =>
                 if is_decided ri' y then Some ri'
                 else match fame_of s y r with
                      | None => None
                      | Some None => Some ri'
                      | Some (Some v) => Some (set_fame ri' y v)
                      end
               end) ws (Some ri0) = Some ri' ->
  aget x (ri_created ri') = Some u ->
  aget x (ri_created ri0) = Some u \/ exists v w, u = (w, tri_of v) /\ fame_of s x r = Some (Some v).
Proof.
  induction ws as [|y ws IH]; intros ri0 ri' x u; cbn [fold_left].
  - intros E; inversion E; subst. auto.
  - destruct (is_decided ri0 y); [apply IH|].
    destruct (fame_of s y r) as [[v|]|] eqn:Ef.
    + intros Hf Ha. destruct (IH _ _ x u Hf Ha) as [H|H]; [|auto].
      destruct (aget_set_fame ri0 y v x u H) as [H'|[-> [w [-> _]]]]; [auto|]. right. exists v, w. auto.
    + apply IH.
    + intros E. exfalso. clear -E. induction ws as [|z ws IHw]; cbn [fold_left] in E; [discriminate|auto].
Qed.

Lemma frec_decide_fame_round s dec pr r x v :
  frec (fst (decide_fame_round (s, dec) pr)) r x v -> frec s r x v \/ fame_of s x r = Some (Some v).
Proof.
  unfold decide_fame_round.
  destruct (failed s); [auto|].
  assert (Hfail : frec (fail s) r x v -> frec s r x v) by (apply (frec_rounds s (fail s)); destruct s; reflexivity).
  destruct (get_round s (fst pr)) as [ri|] eqn:Hri; [|auto].
  destruct (get_peerset s (fst pr)) as [rps|]; [|auto].
  match goal with |- context [fold_left ?f ?l ?a] => destruct (fold_left f l a) as [ri'|] eqn:Hf end; [|auto].
  pose proof (wl_of_witnesses_decided ri' rps) as _.
  assert (Hcr : ri_created (snd (witnesses_decided ri' rps)) = ri_created ri').
  { unfold witnesses_decided. destruct (ri_decided ri'); [reflexivity|]. destruct (existsb _ _); [reflexivity|].
    cbn [snd]. destruct ri'; reflexivity. }
  destruct (witnesses_decided ri' rps) as [d ri'']. cbn [fst snd] in *.
  intros [rj [Hg Ha]].
  assert (H0 : 0 <= fst pr) by (eapply get_round_some_nonneg; eauto).
  rewrite (get_round_zset s (set_round s (fst pr) ri'') (fst pr) ri'' r H0) in Hg by (destruct s; reflexivity).
  destruct (Z.eqb_spec (fst pr) r) as [<-|Hne]; [|left; exists rj; auto].
  inversion Hg; subst rj. rewrite Hcr in Ha.
  destruct (fame_fold_frec s (fst pr) _ ri ri' x _ Hf Ha) as [H|[v' [w [E Hfo]]]]; [left; exists ri; auto|].
  inversion E as [[Ew Et]]. assert (v' = v) by (destruct v, v'; cbn in Et; congruence). subst v'. right. exact Hfo.
Qed.

Lemma contig_fail s : contig s -> contig (fail s).
Proof. intros C. apply (contig_same s); [intros r; destruct s; reflexivity|destruct s; reflexivity|exact C]. Qed.

Lemma decide_fame_round_contig s dec pr : contig s -> contig (fst (decide_fame_round (s, dec) pr)).
Proof.
  intros C. unfold decide_fame_round. destruct (failed s); [exact C|].
  destruct (get_round s (fst pr)) as [ri|] eqn:Hri; [|apply contig_fail; exact C].
  destruct (get_peerset s (fst pr)); [|apply contig_fail; exact C].
  match goal with |- context [fold_left ?f ?l ?a] => destruct (fold_left f l a) end; [|apply contig_fail; exact C].
  destruct (witnesses_decided _ _) as [d ri'']. cbn [fst]. eapply contig_set_round; eauto.
Qed.

Lemma decide_fame_round_fkeep s dec pr : contig s -> fkeep s (fst (decide_fame_round (s, dec) pr)).
Proof.
  intros C. constructor; [apply decide_fame_round_ckeep|].
  unfold decide_fame_round. destruct (failed s); [reflexivity|].
  destruct (get_round s (fst pr)) as [ri|] eqn:Hri; [|destruct s; reflexivity].
  destruct (get_peerset s (fst pr)); [|destruct s; reflexivity].
  match goal with |- context [fold_left ?f ?l ?a] => destruct (fold_left f l a) end; [|destruct s; reflexivity].
  destruct (witnesses_decided _ _) as [d ri'']. cbn [fst].
  assert (Hr : 0 <= fst pr <= last_round s) by (apply C; rewrite Hri; discriminate).
  unfold set_round. destruct s; cbn in *. lia.
Qed.

Lemma decide_fame_fold_fkeep l : forall s dec, contig s ->
  fkeep s (fst (fold_left decide_fame_round l (s, dec))) /\ contig (fst (fold_left decide_fame_round l (s, dec))).
Proof.
  induction l as [|pr l IH]; intros s dec C; cbn [fold_left]; [split; [apply fkeep_refl|exact C]|].
  pose proof (decide_fame_round_fkeep s dec pr C) as K1. pose proof (decide_fame_round_contig s dec pr C) as C1.
  destruct (decide_fame_round (s, dec) pr) as [s' dec']. cbn [fst] in *.
  destruct (IH s' dec' C1) as [K2 C2]. split; [eapply fkeep_trans; eauto|exact C2].
Qed.

Lemma decide_fame_fkeep st : contig st -> fkeep st (decide_fame st) /\ contig (decide_fame st).
Proof.
  intros C. unfold decide_fame. destruct (decide_fame_fold_fkeep (pending st) st [] C) as [K C'].
  destruct (fold_left decide_fame_round (pending st) (st, [])) as [s decided]. cbn [fst] in *.
  destruct (failed s); [auto|]. split.
  - eapply fkeep_trans; [exact K|]. constructor; [apply ckeep_set_pending|destruct s; reflexivity].
  - apply (contig_same s); [intros r; destruct s; reflexivity|destruct s; reflexivity|exact C'].
Qed.

Lemma frec_decide_fame st r x v : contig st ->
  frec (decide_fame st) r x v -> frec st r x v \/ fame_of (decide_fame st) x r = Some (Some v).
Proof.
  intros C. destruct (decide_fame_fkeep st C) as [Kall _]. unfold decide_fame in *.
  assert (G : forall l s dec, contig s ->
              frec (fst (fold_left decide_fame_round l (s, dec))) r x v ->
              frec s r x v \/ fame_of (fst (fold_left decide_fame_round l (s, dec))) x r = Some (Some v)).
  { induction l as [|pr l IH]; intros s dec Cs; cbn [fold_left]; [auto|].
    pose proof (decide_fame_round_fkeep s dec pr Cs) as K1. pose proof (decide_fame_round_contig s dec pr Cs) as C1.
    pose proof (frec_decide_fame_round s dec pr r x v) as B1.
    destruct (decide_fame_round (s, dec) pr) as [s' dec']. cbn [fst] in *.
    intros H. destruct (IH s' dec' C1 H) as [H'|H']; [|auto].
    destruct (B1 H') as [H''|H'']; [auto|]. right.
    destruct (decide_fame_fold_fkeep l s' dec' C1) as [K2 _].
    rewrite (fame_of_fkeep s _ x r (fkeep_trans _ _ _ K1 K2)). exact H''. }
  specialize (G (pending st) st [] C).
  destruct (fold_left decide_fame_round (pending st) (st, [])) as [s decided]. cbn [fst] in *.
  destruct (failed s); [exact G|].
  intros H. assert (H0 : frec s r x v) by (revert H; apply (frec_rounds s); destruct s; reflexivity).
  destruct (G H0) as [H1|H1]; [auto|]. right.
  rewrite (fame_of_fkeep s _ x r); [exact H1|]. constructor; [apply ckeep_set_pending|destruct s; reflexivity].
Qed.

(** ** DecideRoundReceived and the remaining passes keep the created lists *)
Definition crt (st : hg) (r : Z) : option (list (Z * (bool * trilean))) := option_map ri_created (get_round st r).

Lemma frec_crt st r x v : frec st r x v <-> exists l, crt st r = Some l /\ aget x l = Some (true, tri_of v).
Proof.
  unfold frec, crt. split.
  - intros [ri [Hg Ha]]. exists (ri_created ri). rewrite Hg. auto.
  - intros [l [Hc Ha]]. destruct (get_round st r) as [ri|]; [|discriminate]. inversion Hc; subst. exists ri. auto.
Qed.

Lemma crt_set_rounds st i tr tr' r : get_round st i = Some tr -> ri_created tr' = ri_created tr ->
  crt (st <| rounds := zset i tr' (rounds st) |>) r = crt st r.
Proof.
  intros Hg Hc. unfold crt.
  rewrite (get_round_zset st _ i tr' r (get_round_some_nonneg _ _ _ Hg)) by (destruct st; reflexivity).
  destruct (Z.eqb_spec i r) as [<-|]; [rewrite Hg; cbn; congruence|reflexivity].
Qed.

Lemma created_witnesses_decided tr ps : ri_created (snd (witnesses_decided tr ps)) = ri_created tr.
Proof.
  unfold witnesses_decided. destruct (ri_decided tr); [reflexivity|]. destruct (existsb _ _); [reflexivity|].
  cbn [snd]. destruct tr; reflexivity.
Qed.

Lemma rr_loop_crt x r : forall is_ st, crt (fst (rr_loop st x is_)) r = crt st r.
Proof.
  induction is_ as [|i rest IH]; intros st; cbn [rr_loop]; [reflexivity|].
  destruct (get_round st i) as [tr|] eqn:Hg;
    [|destruct (lower_bound st) as [lb0|]; [destruct (i <=? lb0); [apply IH|reflexivity]|reflexivity]].
  assert (Hfail : forall s, crt (fail s) r = crt s r) by (intros s; destruct s; reflexivity).
  destruct (get_peerset st i) as [tps|]; [|apply Hfail].
  pose proof (created_witnesses_decided tr tps) as Hd.
  destruct (witnesses_decided tr tps) as [d tr']. cbn [snd] in Hd.
  set (st1 := st <| rounds := zset i tr' (rounds st) |>).
  assert (K1 : crt st1 r = crt st r) by (apply (crt_set_rounds st i tr tr' r Hg Hd)).
  assert (Hi : 0 <= i) by (eapply get_round_some_nonneg; eauto).
  assert (Hg1 : get_round st1 i = Some tr').
  { rewrite (get_round_zset st st1 i tr' i Hi) by (unfold st1; destruct st; reflexivity).
    rewrite Z.eqb_refl. reflexivity. }
  destruct d; cbn [negb].
  - match goal with |- context [fold_left ?f ?l ?a] => destruct (fold_left f l a) as [sees|] end;
      [|cbn [fst]; rewrite Hfail; exact K1].
    destruct (_ && _).
    + destruct (get_event st1 x) as [ex|] eqn:Hx; cbn [fst]; [|rewrite Hfail; exact K1].
      rewrite <- K1. set (st2 := set_evst st1 x (ex <| ev_rr := Some i |>)).
      assert (Hg2 : get_round st2 i = Some tr') by (unfold st2, get_round, set_evst; unfold get_round in Hg1; destruct st1; exact Hg1).
      assert (E2 : crt st2 r = crt st1 r) by (unfold crt, st2, get_round, set_evst; destruct st1; reflexivity).
      rewrite <- E2. unfold crt.
      rewrite (get_round_zset st2 (set_round st2 i _) i _ r Hi) by (destruct st2; reflexivity).
      destruct (Z.eqb_spec i r) as [<-|]; [rewrite Hg2; cbn; destruct tr'; reflexivity|reflexivity].
    + rewrite IH. exact K1.
  - destruct (lower_bound st1) as [lb|]; [|exact K1].
    destruct (lb <? i); [exact K1|]. rewrite IH. exact K1.
Qed.

Lemma decide_rr_one_crt s und x r : crt (fst (decide_rr_one (s, und) x)) r = crt s r.
Proof.
  unfold decide_rr_one. destruct (failed s); [reflexivity|].
  pose proof (nomemo_eq_rounds _ _ (round_f_nomemo (fuel_of s) s x)) as R1.
  destruct (round_f (fuel_of s) s x) as [[r0|] s1]; cbn [snd] in R1.
  - pose proof (rr_loop_crt x r (zrange (r0 + 1) (last_round s1)) s1) as H.
    destruct (rr_loop s1 x (zrange (r0 + 1) (last_round s1))) as [s' received]. cbn [fst] in *.
    rewrite H. unfold crt, get_round. rewrite R1. reflexivity.
  - cbn [fst]. unfold crt, get_round. replace (rounds (fail s1)) with (rounds s1) by (destruct s1; reflexivity).
    rewrite R1. reflexivity.
Qed.

Lemma decide_round_received_crt st r : crt (decide_round_received st) r = crt st r.
Proof.
  unfold decide_round_received.
  assert (G : forall l s und, crt (fst (fold_left decide_rr_one l (s, und))) r = crt s r).
  { induction l as [|x l IH]; intros s und; cbn [fold_left]; [reflexivity|].
    pose proof (decide_rr_one_crt s und x r) as H. destruct (decide_rr_one (s, und) x) as [s' und']. cbn [fst] in *.
    rewrite IH. exact H. }
  specialize (G (undetermined st) st []).
  destruct (fold_left decide_rr_one (undetermined st) (st, [])) as [s und]. cbn [fst] in G.
  destruct (failed s); [exact G|]. rewrite <- G. destruct s; reflexivity.
Qed.

Lemma decide_round_received_fkeep g st : cinv g None st -> rinv st -> fkeep st (decide_round_received st).
Proof.
  intros I R. constructor; [apply (decide_round_received_ckeep g); exact I|].
  apply (s_lr _ _ (decide_round_received_rstep st (proj1 (rinv_bounded _ R)))).
Qed.

(** * The recorded fame values are the values of the voting loop in the current state *)
Definition FI (st : hg) : Prop := forall r x v, frec st r x v -> fame_of st x r = Some (Some v).

Lemma nf_good g all st : nf_inv g all st -> good g st.
Proof.
  intros [Gi LA I R Hf Lce]. constructor; [apply (g_dag _ _ (gi_core _ _ Gi))|exact LA|exact I|].
  eexists. apply (ginv_hmeasure all st Gi Hf).
Qed.

(* a later state of the same node is a larger view of the same history *)
Lemma fame_stable_step g all st st' x r v :
  ids_determine all -> nf_inv g all st -> nf_inv g all st' ->
  (forall y, get_event st y <> None -> get_event st' y <> None) ->
  fame_of st x r = Some (Some v) -> fame_of st' x r = Some (Some v).
Proof.
  intros ID N N' Sub F.
  pose proof (nf_good g all st N) as G. pose proof (nf_good g all st' N') as G'.
  assert (SB : same_bodies st st').
  { apply (same_bodies_of_universe all g); auto;
      [apply (g_from _ _ (gi_core _ _ (nf_g _ _ _ N)))|apply (g_from _ _ (gi_core _ _ (nf_g _ _ _ N')))]. }
  apply (fame_stable_states g st st' x r v G (nf_r _ _ _ N) G' (nf_r _ _ _ N') SB); [| |exact F].
  - intros x1 x2 e1 e2 H1 H2 Hc Hi.
    assert (H1' : get_event st' x1 <> None) by (apply Sub; rewrite H1; discriminate).
    destruct (get_event st' x1) as [e1'|] eqn:E1; [|contradiction].
    apply (dag_ok_no_fork st' x1 x2 e1' e2 (gd_dag _ _ G') E1 H2); rewrite <- (SB x1 e1 e1' H1 E1); assumption.
  - intros y e Hy. apply Sub. rewrite Hy. discriminate.
Qed.

Lemma hstep_FI g all st o :
  ids_determine all -> no_accept all -> hop_ok all o -> nf_inv g all st -> FI st -> FI (hstep st o).
Proof.
  intros ID NA Ho N Fi.
  pose proof (hstep_nf g all st o ID NA Ho N) as N'.
  assert (Sub : forall y, get_event st y <> None -> get_event (hstep st o) y <> None).
  { intros y Hy. destruct (get_event st y) as [ey|] eqn:E; [|contradiction].
    destruct (m_e _ _ (proj2 (hstep_ginv all st o ID Ho (nf_g _ _ _ N))) y ey E) as [ey' [E' _]]. rewrite E'. discriminate. }
  (* every record of the new state is an old one or was produced by this step's DecideFame *)
  assert (B : forall r x v, frec (hstep st o) r x v -> frec st r x v \/ fame_of (hstep st o) x r = Some (Some v)).
  { intros r x v. destruct o as [e|]; cbn [hstep].
    2:{ intros H. left. revert H. apply (frec_rounds st). destruct (cw_fields _ _ (cw_process_sigpool st)) as [_ [Ro _]]. exact Ro. }
    destruct Ho as [Hin Hid]. unfold step, insert_and_run.
    pose proof (g_dag _ _ (gi_core _ _ (nf_g _ _ _ N))) as OK. pose proof (g_from _ _ (gi_core _ _ (nf_g _ _ _ N))) as FA.
    destruct (insert_event st e) as [r0 s] eqn:E.
    destruct (insert_event_inv st e all r0 s OK FA ID Hin Hid E) as [_ [_ Hns]].
    assert (Hrej : r0 <> InsOk -> frec (snd (r0, s)) r x v -> frec st r x v \/ fame_of (snd (r0, s)) x r = Some (Some v)).
    { intros Hn. rewrite (insert_reject_noop st e r0 s E Hn Hns). auto. }
    destruct r0; try (apply Hrej; discriminate). clear Hrej. cbn [snd].
    destruct (insert_post_ins g all st e s ID Hin Hid N E) as [PI _].
    pose proof (run_consensus_stages g all (e_id e) s NA PI) as SG.
    rewrite (sg_eq _ _ _ SG).
    set (s1 := divide_rounds s) in *. set (s2 := decide_fame s1) in *. set (s3 := decide_round_received s2) in *.
    pose proof (insert_event_rounds st e) as [Rs _]. rewrite E in Rs. cbn [snd] in Rs.
    intros H4.
    assert (H3 : frec s3 r x v).
    { revert H4. apply (frec_rounds s3). destruct (cw_fields _ _ (cw_process_decided_rounds s3)) as [_ [Ro _]]. exact Ro. }
    assert (H2 : frec s2 r x v).
    { apply frec_crt in H3. apply frec_crt. unfold s3 in H3. rewrite decide_round_received_crt in H3. exact H3. }
    destruct (frec_decide_fame s1 r x v (rinv_contig _ (sg_r1 _ _ _ SG)) H2) as [H1|H1].
    - left. apply (frec_rounds st s Rs). apply frec_divide_rounds. exact H1.
    - right.
      assert (K3 : fkeep s2 s3) by (apply (decide_round_received_fkeep g); [apply (sg_i2 _ _ _ SG)|apply (sg_r2 _ _ _ SG)]).
      assert (K4 : fkeep s3 (process_decided_rounds s3)).
      { constructor; [|apply lrv_process_decided_rounds].
        apply ckeep_cw; [apply cw_process_decided_rounds|].
        apply (process_decided_rounds_peersets all); [apply (sg_fa3 _ _ _ SG)|exact NA]. }
      rewrite (fame_of_fkeep s2 _ x r (fkeep_trans _ _ _ K3 K4)). exact H1. }
  intros r x v H. destruct (B r x v H) as [H0|H0]; [|exact H0].
  apply (fame_stable_step g all st (hstep st o) x r v ID N N' Sub). apply Fi. exact H0.
Qed.

Theorem hrun_FI g all self_ oracle_ ops :
  ids_determine all -> no_accept all -> Forall (hop_ok all) ops -> FI (hrun (init_hg self_ g oracle_) ops).
Proof.
  intros ID NA H.
  assert (G : forall st, nf_inv g all st -> FI st -> FI (hrun st ops) /\ nf_inv g all (hrun st ops)).
  { induction H as [|o ops Ho Hops IH]; intros st N Fi; cbn [hrun fold_left]; [auto|].
    apply IH; [apply hstep_nf; assumption|apply (hstep_FI g all); assumption]. }
  apply G.
  - pose proof (hrun_nf g all self_ oracle_ [] ID NA (Forall_nil _)) as N0. exact N0.
  - intros r x v [ri [Hg _]]. exfalso. unfold get_round in Hg.
    destruct (cw_fields _ _ (cw_init self_ g oracle_)) as [_ [Ro _]]. rewrite Ro in Hg. cbn in Hg.
    rewrite zget_empty in Hg. discriminate.
Qed.
