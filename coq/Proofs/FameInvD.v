(* Dynamic membership (model after fix 05eda0b): the fame values recorded in the round tables of a node that
   respects the distance bound are the values of DecideFame's voting loop read in the current state, hence (with
   Proofs/AgreementD.v) two such nodes whose tables agree never RECORD different fame for one witness.
   Adapted from Proofs/FameInv.v; the per-step argument runs over the prefixes of one fixed run, with P = the final
   table (Proofs/CInvRunD.v hrun_cinvD, Proofs/GapWindow.v). *)
From Coq Require Import ZArith List Bool Lia ZifyBool Permutation.
From RecordUpdate Require Import RecordSet.
From V Require Import Model.ZMap Model.Quorum Model.Voting Model.VotingRef Model.HgImpl Model.PeerSetSpec Model.Window
  Proofs.ZMapFacts Proofs.QuorumProofs Proofs.HgFrames Proofs.HgDagFrames Proofs.AdmissionProofs Proofs.InsertShape
  Proofs.HgBlockFrames Proofs.BlockInv Proofs.RoundOrder Proofs.OrderFrames Proofs.OrderProofs Proofs.Ancestry
  Proofs.VotingProofs Proofs.FameBridge
  Proofs.Static Proofs.FirstDesc Proofs.FdWalk Proofs.InsertInv Proofs.DivInv Proofs.CInvRun Proofs.Height
  Proofs.StronglySee Proofs.RoundFun Proofs.ViewOk Proofs.SameHistory Proofs.Agreement Proofs.NoFail Proofs.LrFrames
  Proofs.FameInv Proofs.PeerSetProofs Proofs.LrMono Proofs.WindowStable Proofs.GapWindow
  Proofs.FirstDescD Proofs.InsertInvD Proofs.DivInvD Proofs.CInvRunD Proofs.StronglySeeD Proofs.RoundFunD Proofs.RoundAgreeD
  Proofs.ViewOkD Proofs.SameHistoryD Proofs.AgreementD.
Import ListNotations RecordSetNotations.
Open Scope Z_scope.

(** * The voting loop only reads its parameters at the rounds it visits *)
Lemma ss_witnesses_ext_at P Q j y prev : (forall w, vp_ss P j y w = vp_ss Q j y w) ->
  ss_witnesses P j y prev = ss_witnesses Q j y prev.
Proof.
  intros Hss. unfold ss_witnesses. generalize (Some (@nil Z)).
  induction prev as [|w l IH]; intros acc; cbn [fold_left]; [reflexivity|]. rewrite Hss. apply IH.
Qed.

Lemma fame_round_j_ext_at P Q r j :
  (forall y, vp_sees P y = vp_sees Q y) -> (forall y, vp_coin P y = vp_coin Q y) ->
  vp_prev P j = vp_prev Q j -> (forall y w, vp_ss P j y w = vp_ss Q j y w) -> vp_sm P j = vp_sm Q j ->
  forall ys votes, fame_round_j P r j ys votes = fame_round_j Q r j ys votes.
Proof.
  intros Hs Hc Hp Hss Hsm.
  induction ys as [|y ys IH]; intros votes; cbn [fame_round_j]; [reflexivity|].
  destruct (j - r =? 1).
  - rewrite Hs. destruct (vp_sees Q y); [apply IH|reflexivity].
  - rewrite Hp, Hsm. destruct (vp_prev Q j) as [prev|]; [|reflexivity]. destruct (vp_sm Q j) as [smj|]; [|reflexivity].
    rewrite (ss_witnesses_ext_at P Q j y prev (Hss y)). destruct (ss_witnesses Q j y prev) as [ssw|]; [|reflexivity].
    destruct (tally votes ssw) as [v t]. rewrite Hc.
    destruct (0 <? (j - r) mod 4); destruct (smj <=? t); try reflexivity; apply IH.
Qed.

Lemma fame_loop_ext_on P Q rw r :
  (forall y, vp_sees P y = vp_sees Q y) -> (forall y, vp_coin P y = vp_coin Q y) ->
  forall js, (forall j, In j js -> vp_prev P j = vp_prev Q j /\ (forall y w, vp_ss P j y w = vp_ss Q j y w) /\ vp_sm P j = vp_sm Q j) ->
  forall votes, fame_loop P rw r js votes = fame_loop Q rw r js votes.
Proof.
  intros Hs Hc. induction js as [|j js IH]; intros H votes; cbn [fame_loop]; [reflexivity|].
  destruct (rw j) as [ws|]; [|reflexivity].
  destruct (H j (or_introl eq_refl)) as [Hp [Hss Hsm]].
  rewrite (fame_round_j_ext_at P Q r j Hs Hc Hp Hss Hsm).
  destruct (fame_round_j Q r j ws votes) as [[votes' [v|]]|]; try reflexivity.
  apply IH. intros j' Hj'. apply H. right. exact Hj'.
Qed.

(** * States that agree on what DecideFame reads: the table only up to the last round *)
Record fkeepD (s s' : hg) : Prop := {
  fD_c : ckeepD s s';
  fD_lr : last_round s' = last_round s;
  fD_ps : forall q, q <= last_round s -> get_peerset s' q = get_peerset s q
}.

Lemma fkeepD_refl s : fkeepD s s.
Proof. constructor; [apply ckeepD_refl|reflexivity|reflexivity]. Qed.
Lemma fkeepD_trans a b c : fkeepD a b -> fkeepD b c -> fkeepD a c.
Proof.
  intros [A1 A2 A3] [B1 B2 B3]. constructor; [eapply ckeepD_trans; eauto|congruence|].
  intros q Hq. rewrite B3 by (rewrite A2; exact Hq). apply A3. exact Hq.
Qed.

Lemma ckeepD_get_event_e s s' x : ckeepD s s' ->
  option_map (fun e => (ev_e e, ev_la e)) (get_event s' x) = option_map (fun e => (ev_e e, ev_la e)) (get_event s x).
Proof.
  intros K. pose proof (kd_ev _ _ K x) as E.
  destruct (get_event s' x), (get_event s x); cbn in *; try discriminate; [|reflexivity].
  unfold FirstDescD.ev_c in E. inversion E. reflexivity.
Qed.

Lemma ckeepD_see s s' y x : ckeepD s s' -> see s' y x = see s y x.
Proof.
  intros K. unfold see, ancestor. destruct (y =? x); [reflexivity|].
  pose proof (ckeepD_get_event_e s s' y K) as Ey. pose proof (ckeepD_get_event_e s s' x K) as Ex.
  destruct (get_event s' y), (get_event s y); cbn in Ey; try discriminate; [|reflexivity].
  destruct (get_event s' x), (get_event s x); cbn in Ex; try discriminate; [|reflexivity].
  inversion Ey. inversion Ex. congruence.
Qed.

Lemma ckeepD_round_lists s s' j : ckeepD s s' ->
  match get_round s' j with Some ri => Some (witnesses ri) | None => None end =
  match get_round s j with Some ri => Some (witnesses ri) | None => None end.
Proof.
  intros K. pose proof (kd_wl _ _ K j) as Hw. pose proof (kd_rd _ _ K j) as Hd. unfold wl in Hw.
  destruct (get_round s' j) as [ri'|] eqn:E', (get_round s j) as [ri|] eqn:E.
  - rewrite !witnesses_wl, Hw. reflexivity.
  - exfalso. assert (C : Some ri' = None) by (apply Hd; reflexivity). discriminate.
  - exfalso. assert (C : Some ri = None) by (apply Hd; reflexivity). discriminate.
  - reflexivity.
Qed.

Lemma ckeepD_strongly_see g s s' x w : ckeepD s s' -> strongly_see s' x w g = strongly_see s x w g.
Proof.
  intros K. unfold strongly_see.
  pose proof (kd_ev _ _ K x) as Ex. pose proof (kd_ev _ _ K w) as Ew.
  destruct (get_event s' x) as [ex'|], (get_event s x) as [ex|]; cbn in Ex; try discriminate; [|reflexivity].
  destruct (get_event s' w) as [ew'|], (get_event s w) as [ew|]; cbn in Ew; try discriminate; [|reflexivity].
  unfold FirstDescD.ev_c in *. inversion Ex. inversion Ew. congruence.
Qed.

Lemma fame_of_fkeepD s s' x r : fkeepD s s' -> fame_of s' x r = fame_of s x r.
Proof.
  intros [K L Tq]. unfold fame_of. rewrite L.
  assert (E : fame_loop (vparams_of s' x) (round_witnesses s') r (zrange (r + 1) (last_round s)) [] =
              fame_loop (vparams_of s x) (round_witnesses s') r (zrange (r + 1) (last_round s)) []).
  { apply fame_loop_ext_on.
    - intros y. unfold vparams_of. cbn [vp_sees]. apply ckeepD_see. exact K.
    - intros y. unfold vparams_of. cbn [vp_coin]. unfold coin_of. pose proof (ckeepD_get_event_e s s' y K) as Ey.
      destruct (get_event s' y), (get_event s y); cbn in Ey; try discriminate; [|reflexivity].
      inversion Ey. congruence.
    - intros j Hj. apply In_zrange in Hj. unfold vparams_of. cbn [vp_prev vp_ss vp_sm].
      split; [apply ckeepD_round_lists; exact K|]. rewrite (Tq (j - 1)) by lia. split; [|reflexivity].
      intros y w. destruct (get_peerset s (j - 1)); [apply ckeepD_strongly_see; exact K|reflexivity]. }
  rewrite E. apply fame_loop_ext. intros j Hj. apply In_zrange in Hj.
  unfold round_witnesses. pose proof (ckeepD_round_lists s s' j K) as H. rewrite (Tq j) by lia.
  destruct (get_round s' j), (get_round s j); try discriminate; [|reflexivity].
  destruct (get_peerset s j); [exact H|reflexivity].
Qed.

(** * The stages of one consensus pass that did not fail *)
Lemma run_consensus_stagesD P st x :
  dag_ok st -> rinv st -> peersets st <> [] ->
  (forall q, 0 <= q <= last_round (run_consensus st) -> get_peerset st q = Some (P q)) ->
  cinvD P (Some x) st -> In x (undetermined st) ->
  failed (run_consensus st) = false ->
  let s1 := divide_rounds st in let s2 := decide_fame s1 in let s3 := decide_round_received s2 in
  failed s1 = false /\ failed s2 = false /\ failed s3 = false /\
  run_consensus st = process_decided_rounds s3 /\
  cinvD P None s1 /\ cinvD P None s2 /\ cinvD P None s3 /\ rinv s1 /\ rinv s2.
Proof.
  intros OK R Hne Hps I Hin Hf.
  pose proof (run_consensus_lrq_le st) as Mall. unfold lrq in Mall.
  unfold run_consensus in *. cbv zeta.
  set (s1 := divide_rounds st) in *.
  assert (HL1 : last_round s1 <= last_round (if failed s1 then s1 else
            let s := decide_fame s1 in if failed s then s else
            let s0 := decide_round_received s in if failed s0 then s0 else process_decided_rounds s0)).
  { destruct (failed s1); [lia|]. cbv zeta.
    pose proof (decide_fame_lrq_le s1) as L2. unfold lrq in L2. set (s2 := decide_fame s1) in *.
    destruct (failed s2); [lia|].
    pose proof (decide_round_received_lrq_le s2) as L3. unfold lrq in L3. set (s3 := decide_round_received s2) in *.
    destruct (failed s3); [lia|]. pose proof (lrv_process_decided_rounds s3) as L4. unfold LrFrames.lrv in L4. lia. }
  pose proof (divide_rounds_cinvD P _ (undetermined st) st (Some x) OK (or_intror I) (or_intror R) Hne
                (fun q Hq => Hps q Hq) HL1 Hin) as H1.
  fold (divide_rounds st) in H1. fold s1 in H1.
  pose proof (divide_rounds_rinv st (or_intror R)) as R1. fold s1 in R1.
  destruct (failed s1) eqn:Hf1; [congruence|]. destruct H1 as [H1|I1]; [congruence|].
  destruct R1 as [R1|R1]; [congruence|].
  pose proof (decide_fame_ckeep s1) as K2. pose proof (decide_fame_rinv s1 R1) as R2.
  cbv zeta in Hf. set (s2 := decide_fame s1) in *.
  assert (I2 : cinvD P None s2) by (eapply cinvD_ckeepD; [exact I1|apply ckeep_ckeepD; exact K2]).
  destruct (failed s2) eqn:Hf2; [congruence|].
  pose proof (decide_round_received_ckeepD P s2 I2) as K3. set (s3 := decide_round_received s2) in *.
  assert (I3 : cinvD P None s3) by (eapply cinvD_ckeepD; eauto).
  destruct (failed s3) eqn:Hf3; [congruence|].
  refine (conj eq_refl (conj eq_refl (conj eq_refl (conj eq_refl (conj I1 (conj I2 (conj I3 (conj R1 R2)))))))).
Qed.

(** * One step of the node *)
Lemma hstep_FI_D P all st o :
  ids_determine all -> hop_ok all o ->
  ginv all st -> la_ok st -> rinv st -> peersets st <> [] -> cinvD P None st ->
  failed (hstep st o) = false ->
  goodD P (hstep st o) -> rinv (hstep st o) ->
  (forall q, 0 <= q <= last_round (hstep st o) -> get_peerset st q = Some (P q)) ->
  (forall q, q <= last_round (hstep st o) -> get_peerset (hstep st o) q = get_peerset st q) ->
  FI st -> FI (hstep st o).
Proof.
  intros ID Ho Gi LA R Hne I Hf' G' R' Tq Wq Fi.
  assert (Hf : failed st = false).
  { destruct (failed st) eqn:E; [|reflexivity]. rewrite (hstep_failed_mono st o E) in Hf'. discriminate. }
  pose proof (g_dag _ _ (gi_core _ _ Gi)) as OK. pose proof (g_from _ _ (gi_core _ _ Gi)) as FA.
  destruct (hstep_ginv all st o ID Ho Gi) as [Gi' Mo].
  assert (G : goodD P st).
  { constructor; [exact OK|exact LA|exact I|]. eexists. apply (ginv_hmeasure all st Gi Hf). }
  pose proof (hstep_lrq_le st o) as Lle.
  assert (Tst : forall q, 0 <= q <= last_round st -> get_peerset st q = Some (P q)) by (intros q Hq; apply Tq; lia).
  assert (Tst' : forall q, 0 <= q <= last_round (hstep st o) -> get_peerset (hstep st o) q = Some (P q))
    by (intros q Hq; rewrite Wq by lia; apply Tq; exact Hq).
  assert (Sub : forall y, get_event st y <> None -> get_event (hstep st o) y <> None).
  { intros y Hy. destruct (get_event st y) as [ey|] eqn:E; [|contradiction].
    destruct (m_e _ _ Mo y ey E) as [ey' [E' _]]. rewrite E'. discriminate. }
  (* every record of the new state is an old one or was produced by this step's DecideFame *)
  assert (B : forall r x v, frec (hstep st o) r x v -> frec st r x v \/ fame_of (hstep st o) x r = Some (Some v)).
  { intros r x v. revert Hf' Tq Wq. destruct o as [e|]; cbn [hstep]; intros Hf' Tq Wq.
    2:{ intros H. left. revert H. apply (frec_rounds st). destruct (cw_fields _ _ (cw_process_sigpool st)) as [_ [Ro _]]. exact Ro. }
    destruct Ho as [Hin Hid]. revert Hf' Tq Wq. unfold step, insert_and_run.
    pose proof (insert_event_bview st e) as Bv. pose proof (insert_event_rstep st e) as Sr.
    pose proof (NoFail.insert_event_rounds st e) as [Rs _].
    destruct (insert_event st e) as [r0 s] eqn:E. cbn [snd] in Bv, Sr, Rs.
    destruct (insert_event_inv st e all r0 s OK FA ID Hin Hid E) as [OK' [FA' Hns]].
    assert (Hrej : r0 <> InsOk -> frec (snd (r0, s)) r x v -> frec st r x v \/ fame_of (snd (r0, s)) x r = Some (Some v)).
    { intros Hn. rewrite (insert_reject_noop st e r0 s E Hn Hns). auto. }
    destruct r0; try (intros _ _ _; apply Hrej; discriminate). clear Hrej. cbn [snd]. intros Hf' Tq Wq.
    destruct (insert_cinvD P all st e s OK LA FA ID Hin Hid I E) as [Is Hund].
    assert (Rs' : rinv s) by (apply (rinv_rstep st s R Sr)).
    assert (Hnes : peersets s <> []) by (rewrite (bview_peersets _ _ Bv); exact Hne).
    assert (Hpss : forall q, 0 <= q <= last_round (run_consensus s) -> get_peerset s q = Some (P q))
      by (intros q Hq; rewrite (get_peerset_bview _ _ q Bv); apply Tq; exact Hq).
    destruct (run_consensus_stagesD P s (e_id e) OK' Rs' Hnes Hpss Is Hund Hf') as [Hf1 [Hf2 [Hf3 [Eq [I1 [I2 [I3 [R1 R2]]]]]]]].
    cbv zeta in *. rewrite Eq in *.
    set (s1 := divide_rounds s) in *. set (s2 := decide_fame s1) in *. set (s3 := decide_round_received s2) in *.
    intros H4.
    assert (H3 : frec s3 r x v).
    { revert H4. apply (frec_rounds s3). destruct (cw_fields _ _ (cw_process_decided_rounds s3)) as [_ [Ro _]]. exact Ro. }
    assert (H2 : frec s2 r x v).
    { apply frec_crt in H3. apply frec_crt. unfold s3 in H3. rewrite decide_round_received_crt in H3. exact H3. }
    destruct (frec_decide_fame s1 r x v (rinv_contig _ R1) H2) as [H1|H1].
    - left. apply (frec_rounds st s Rs). apply frec_divide_rounds. exact H1.
    - right.
      assert (L3 : last_round s3 = last_round s2)
        by (apply (s_lr _ _ (decide_round_received_rstep s2 (proj1 (rinv_bounded _ R2))))).
      pose proof (lrv_process_decided_rounds s3) as L4. unfold LrFrames.lrv in L4.
      assert (K : fkeepD s2 (process_decided_rounds s3)).
      { constructor.
        - eapply ckeepD_trans; [apply (decide_round_received_ckeepD P s2 I2)|apply ckeepD_cw, cw_process_decided_rounds].
        - congruence.
        - intros q Hq. rewrite Wq by lia.
          unfold s2, s1. rewrite (get_peerset_bview _ _ q (decide_fame_bview _)).
          rewrite (get_peerset_bview _ _ q (divide_rounds_bview _)). symmetry. apply (get_peerset_bview _ _ q Bv). }
      rewrite (fame_of_fkeepD s2 _ x r K). exact H1. }
  intros r x v H. destruct (B r x v H) as [H0|H0]; [|exact H0].
  assert (SB : same_bodies st (hstep st o)).
  { apply (same_bodies_of_universeD all P P st (hstep st o) ID G G' FA). apply (g_from _ _ (gi_core _ _ Gi')). }
  apply (fame_stable_statesD P st (hstep st o) x r v G R Tst G' R' Tst' SB); [| |apply Fi; exact H0].
  - intros x1 x2 e1 e2 H1 H2 Hc Hi.
    assert (H1' : get_event (hstep st o) x1 <> None) by (apply Sub; rewrite H1; discriminate).
    destruct (get_event (hstep st o) x1) as [e1'|] eqn:E1; [|contradiction].
    apply (dag_ok_no_fork (hstep st o) x1 x2 e1' e2 (gD_dag _ _ G') E1 H2); rewrite <- (SB x1 e1 e1' H1 E1); assumption.
  - intros y e Hy. apply Sub. rewrite Hy. discriminate.
Qed.

(** * Every state of a run that respects the distance bound *)
Section Run.
  Variables (self_ : Z) (genesis : peerset) (oracle_ : list Z) (all : list event) (ops : list hop).
  Hypothesis Hs : self_ <> -1.
  Hypothesis ID : ids_determine all.
  Hypothesis H : Forall (hop_ok all) ops.
  Hypothesis Hg : gap_runb (init_hg self_ genesis oracle_) ops = true.
  Let init := init_hg self_ genesis oracle_.
  Let P := psat (hrun init ops).

  Lemma prefix_ok k : Forall (hop_ok all) (firstn k ops).
  Proof.
    rewrite Forall_forall in *. intros o' Ho'. apply H. clear - Ho'. revert k Ho'.
    induction ops as [|a l IHl]; intros k Ho'; destruct k; cbn in *; try contradiction.
    destruct Ho'; [left; assumption|right; eapply IHl; eauto].
  Qed.

  Lemma prefix_facts k : failed (hrun init (firstn k ops)) = false ->
    ginv all (hrun init (firstn k ops)) /\ la_ok (hrun init (firstn k ops)) /\ rinv (hrun init (firstn k ops)) /\
    peersets (hrun init (firstn k ops)) <> [] /\ cinvD P None (hrun init (firstn k ops)) /\ goodD P (hrun init (firstn k ops)).
  Proof.
    intros Hf. pose proof (prefix_ok k) as Hpre.
    pose proof (hrun_ginv all self_ genesis oracle_ (firstn k ops) ID Hpre) as G. fold init in G.
    assert (LA : la_ok (hrun init (firstn k ops))).
    { apply (hrun_la_ok all (firstn k ops) ID Hpre init); [apply ginv_init|].
      apply la_ok_no_events. intros x. destruct (cw_fields _ _ (cw_init self_ genesis oracle_)) as [Ev _].
      unfold get_event, init. rewrite Ev. cbn. apply zget_empty. }
    assert (R : rinv (hrun init (firstn k ops))) by (apply (proj2 (hrun_rtop self_ genesis oracle_ (firstn k ops)) Hf)).
    destruct (hrun_c10inv self_ genesis oracle_ (firstn k ops) Hs) as [_ C10]. fold init in C10.
    pose proof (hrun_cinvD self_ genesis oracle_ all ops Hs ID H Hg k Hf) as I. fold init in I. fold P in I.
    repeat (split; [assumption|]). split; [apply table_wf_nonempty, (c_wf _ _ C10)|]. split; [exact I|].
    constructor; [apply (g_dag _ _ (gi_core _ _ G))|exact LA|exact I|]. eexists. apply (ginv_hmeasure all _ G Hf).
  Qed.

  Theorem hrun_FI_D k : failed (hrun init (firstn k ops)) = false -> FI (hrun init (firstn k ops)).
  Proof.
    pose proof (gap_run_window self_ genesis oracle_ Hs ops [] Hg) as Hw. unfold reach in Hw. cbn in Hw. fold init in Hw.
    induction k as [|k IH]; intros Hf.
    - cbn [firstn hrun fold_left]. intros r x v [ri [Hgr _]]. exfalso. unfold get_round in Hgr.
      destruct (cw_fields _ _ (cw_init self_ genesis oracle_)) as [_ [Ro _]]. unfold init in Hgr. rewrite Ro in Hgr. cbn in Hgr.
      rewrite zget_empty in Hgr. discriminate.
    - destruct (nth_error ops k) as [o|] eqn:Eo.
      2:{ apply nth_error_None in Eo. rewrite firstn_all2 in Hf |- * by lia.
          rewrite <- (firstn_all2 (n := k) ops) by lia. apply IH. rewrite firstn_all2 by lia. exact Hf. }
      assert (Hk : (k < length ops)%nat) by (apply nth_error_Some; rewrite Eo; discriminate).
      assert (E1 : firstn (S k) ops = firstn k ops ++ [o]).
      { clear - Eo. revert k Eo. induction ops as [|a l IHl]; intros k Eo; [destruct k; discriminate|].
        destruct k as [|k]; [cbn in Eo; inversion Eo; reflexivity|]. cbn [nth_error] in Eo.
        change (a :: firstn (S k) l = a :: (firstn k l ++ [o])). f_equal. apply IHl. exact Eo. }
      assert (ES : hrun init (firstn (S k) ops) = hstep (hrun init (firstn k ops)) o).
      { rewrite E1, hrun_app. reflexivity. }
      destruct (prefix_facts (S k) Hf) as [_ [_ [R' [_ [_ G']]]]].
      assert (Hfk : failed (hrun init (firstn k ops)) = false).
      { destruct (failed (hrun init (firstn k ops))) eqn:E; [|reflexivity].
        rewrite ES, (hstep_failed_mono _ o E) in Hf. discriminate. }
      destruct (prefix_facts k Hfk) as [Gi [LA [R [Hne [I _]]]]].
      assert (Ho : hop_ok all o) by (rewrite Forall_forall in H; apply H; eapply nth_error_In; exact Eo).
      assert (Wboth : forall q, q <= last_round (hrun init (firstn (S k) ops)) ->
                get_peerset (hrun init (firstn k ops)) q = get_peerset (hrun init ops) q /\
                get_peerset (hrun init (firstn (S k) ops)) q = get_peerset (hrun init ops) q).
      { intros q Hq. apply (window_lookup_final_step self_ genesis oracle_ Hs ops k q Hw Hk). unfold reach. fold init. exact Hq. }
      rewrite ES in *.
      apply (hstep_FI_D P all _ o ID Ho Gi LA R Hne I Hf G' R').
      + intros q Hq. destruct (Wboth q ltac:(lia)) as [A _]. rewrite A. unfold P. apply psat_some. exact Hs.
      + intros q Hq. destruct (Wboth q Hq) as [A B]. congruence.
      + apply IH. exact Hfk.
  Qed.

  Theorem hrun_FI_D_final : failed (hrun init ops) = false -> FI (hrun init ops).
  Proof. intros Hf. pose proof (hrun_FI_D (length ops)) as Q. rewrite firstn_all in Q. exact (Q Hf). Qed.
End Run.

(** * Two nodes never record different fame for one witness *)
Theorem gap_recorded_fame_agreement all s1 s2 g1 g2 o1 o2 ops1 ops2 r x v1 v2 :
  ids_determine all -> s1 <> -1 -> s2 <> -1 ->
  Forall (hop_ok all) ops1 -> Forall (hop_ok all) ops2 ->
  gap_runb (init_hg s1 g1 o1) ops1 = true -> gap_runb (init_hg s2 g2 o2) ops2 = true ->
  failed (hrun (init_hg s1 g1 o1) ops1) = false -> failed (hrun (init_hg s2 g2 o2) ops2) = false ->
  tables_agree (hrun (init_hg s1 g1 o1) ops1) (hrun (init_hg s2 g2 o2) ops2) ->
  no_cross_fork (hrun (init_hg s1 g1 o1) ops1) (hrun (init_hg s2 g2 o2) ops2) ->
  frec (hrun (init_hg s1 g1 o1) ops1) r x v1 -> frec (hrun (init_hg s2 g2 o2) ops2) r x v2 -> v1 = v2.
Proof.
  intros ID S1 S2 H1 H2 B1 B2 F1 F2 T NF R1 R2.
  apply (gap_fame_agreement all s1 s2 g1 g2 o1 o2 ops1 ops2 ID S1 S2 H1 H2 B1 B2 F1 F2 T NF x r v1 v2).
  - apply (hrun_FI_D_final s1 g1 o1 all ops1 S1 ID H1 B1 F1). exact R1.
  - apply (hrun_FI_D_final s2 g2 o2 all ops2 S2 ID H2 B2 F2). exact R2.
Qed.

(* the two theorems with the record spelled out *)
Theorem recorded_fame_is_vote_gap genesis all self_ oracle_ ops r ri x (v : bool) :
  self_ <> -1 -> ids_determine all -> Forall (hop_ok all) ops ->
  gap_runb (init_hg self_ genesis oracle_) ops = true ->
  failed (hrun (init_hg self_ genesis oracle_) ops) = false ->
  get_round (hrun (init_hg self_ genesis oracle_) ops) r = Some ri ->
  aget x (ri_created ri) = Some (true, if v then TTrue else TFalse) ->
  fame_of (hrun (init_hg self_ genesis oracle_) ops) x r = Some (Some v).
Proof.
  intros Hs ID H B F Hr Ha.
  apply (hrun_FI_D_final self_ genesis oracle_ all ops Hs ID H B F r x v). exists ri. split; [exact Hr|exact Ha].
Qed.

Theorem recorded_fame_agreement_gap all s1 s2 g1 g2 o1 o2 ops1 ops2 r x ri1 ri2 (v1 v2 : bool) :
  ids_determine all -> s1 <> -1 -> s2 <> -1 ->
  Forall (hop_ok all) ops1 -> Forall (hop_ok all) ops2 ->
  gap_runb (init_hg s1 g1 o1) ops1 = true -> gap_runb (init_hg s2 g2 o2) ops2 = true ->
  failed (hrun (init_hg s1 g1 o1) ops1) = false -> failed (hrun (init_hg s2 g2 o2) ops2) = false ->
  tables_agree (hrun (init_hg s1 g1 o1) ops1) (hrun (init_hg s2 g2 o2) ops2) ->
  no_cross_fork (hrun (init_hg s1 g1 o1) ops1) (hrun (init_hg s2 g2 o2) ops2) ->
  get_round (hrun (init_hg s1 g1 o1) ops1) r = Some ri1 -> aget x (ri_created ri1) = Some (true, if v1 then TTrue else TFalse) ->
  get_round (hrun (init_hg s2 g2 o2) ops2) r = Some ri2 -> aget x (ri_created ri2) = Some (true, if v2 then TTrue else TFalse) ->
  v1 = v2.
Proof.
  intros ID S1 S2 H1 H2 B1 B2 F1 F2 T NF A1 A2 C1 C2.
  apply (gap_recorded_fame_agreement all s1 s2 g1 g2 o1 o2 ops1 ops2 r x v1 v2 ID S1 S2 H1 H2 B1 B2 F1 F2 T NF).
  - exists ri1. split; assumption.
  - exists ri2. split; assumption.
Qed.
