(* STRETCH, part 3: the famous witnesses of a round.  If node 1 has recorded x as a famous witness of
   round r and node 2 has decided all the round-r witnesses it knows (at least a supermajority),
   then node 2 has recorded x as famous too: a witness that node 2 did not know when it decided the
   round is decided not famous by everybody (late-witness lemma).  Hence two nodes that have both
   fully decided round r hold the same set of famous witnesses. *)
From Coq Require Import ZArith List Bool Lia ZifyBool Permutation.
From RecordUpdate Require Import RecordSet.
From V Require Import Model.ZMap Model.Quorum Model.Voting Model.VotingRef Model.HgImpl
  Proofs.ZMapFacts Proofs.QuorumProofs Proofs.AdmissionProofs Proofs.Ancestry Proofs.BlockInv Proofs.RoundOrder
  Proofs.OrderProofs Proofs.VotingProofs Proofs.VotingTheorems Proofs.FameBridge Proofs.Static Proofs.FirstDesc
  Proofs.FdWalk Proofs.DivInv Proofs.CInvRun Proofs.Height Proofs.StronglySee Proofs.RoundFun Proofs.ViewOk Proofs.SameHistory
  Proofs.Agreement Proofs.NoFail Proofs.FameInv Proofs.LateWitness.
Import ListNotations RecordSetNotations.
Open Scope Z_scope.

(* all the round-r witnesses known to the state have a recorded fame, and they are a supermajority:
   the condition under which WitnessesDecided answers true (and sets the sticky flag) *)
Definition full_dec (g : peerset) (st : hg) (r : Z) : Prop :=
  super_majority g <= Z.of_nat (length (wits st r)) /\
  forall x, In x (wits st r) -> exists v, frec st r x v.

Lemma frec_wits g st r x v : good g st -> frec st r x v -> In x (wits st r).
Proof.
  intros G [ri [Hg Ha]]. rewrite (wits_get_round st r ri Hg). unfold witnesses.
  apply in_map_iff. exists (x, (true, tri_of v)). split; [reflexivity|]. apply filter_In. split; [|reflexivity].
  apply aget_In. exact Ha.
Qed.

(* a decision needs a deciding witness at least two rounds later *)
Lemma decided_has_later_witness g st x r v : good g st -> contig st ->
  fame_of st x r = Some (Some v) -> exists y0, In y0 (wits st (r + 2)).
Proof.
  intros G C F.
  destruct (fame_decided_pre g st G C x r v F) as [Hn [Hr [ex Hx]]].
  pose proof (view_ok_reach g st G C x r ex Hn Hr Hx) as V.
  assert (N : forall j, In j (zrange (r + 1) (last_round st)) -> round_witnesses st j <> None).
  { intros j Hj. apply In_zrange in Hj. apply (round_witnesses_some g st G C). lia. }
  rewrite (fame_of_as_view st x r N) in F.
  destruct (loop_no_error_and_votes _ _ _ _ _ V) as [E _]. cbv zeta in E. rewrite E in F. inversion F as [F'].
  apply (loop_ref_Some_iff _ _ _ _ _ V) in F'. destruct F' as [j [y [Hj [Hy [Hd _]]]]].
  unfold decider in Hd. apply andb_true_iff in Hd. destruct Hd as [Hd _]. apply andb_true_iff in Hd. destruct Hd as [Hd _].
  assert (Hj2 : r + 2 <= j) by lia.
  rewrite (view_witnesses_wits g st G) in Hy.
  destruct (wits st (r + 2)) as [|y0 l] eqn:E2; [exfalso|exists y0; left; reflexivity].
  rewrite (wits_empty_up g st G (r + 2) ltac:(lia) E2 (Z.to_nat (j - (r + 2))) j ltac:(lia)) in Hy. destruct Hy.
Qed.

Section Famous.
  Variables (g : peerset) (st1 st2 : hg).
  Hypothesis G1 : good g st1.
  Hypothesis G2 : good g st2.
  Hypothesis C1 : contig st1.
  Hypothesis C2 : contig st2.
  Hypothesis R1 : rinv st1.
  Hypothesis R2 : rinv st2.
  Hypothesis FI1 : FI st1.
  Hypothesis FI2 : FI st2.
  Hypothesis SAME : same_bodies st1 st2.
  Hypothesis NF : no_cross_fork st1 st2.

  Theorem famous_transfer r x : frec st1 r x true -> full_dec g st2 r -> frec st2 r x true.
  Proof.
    intros H1 [Hsm Hall].
    pose proof (FI1 r x true H1) as F1.
    (* some witness of round r is decided in st2, so st2 has a witness of round r+2 *)
    pose proof (super_majority_pos g) as Hp.
    destruct (wits st2 r) as [|w0 l] eqn:Ew; [cbn in Hsm; lia|].
    assert (Hw0 : In w0 (wits st2 r)) by (rewrite Ew; left; reflexivity).
    rewrite <- Ew in *. clear Ew l.
    destruct (Hall w0 Hw0) as [v0 Hr0].
    destruct (decided_has_later_witness g st2 w0 r v0 G2 C2 (FI2 r w0 v0 Hr0)) as [y0 Hy0].
    (* hence st2 stores x *)
    pose proof (famous_is_known g st1 st2 G1 G2 C1 C2 SAME NF x r y0 F1 Hy0) as Hx2.
    destruct (get_event st2 x) as [e2x|] eqn:H2x; [|contradiction].
    pose proof (frec_wits g st1 r x true G1 H1) as Hw1.
    destruct (wits_stored g st1 G1 r x Hw1) as [e1x H1x].
    destruct (memo_agree g st1 st2 G1 G2 SAME x e1x e2x H1x H2x) as [Er Ewm].
    assert (Hw2 : In x (wits st2 r)).
    { apply (wits_spec g st2 G2). rewrite <- Er, <- Ewm. apply (wits_spec g st1 G1). exact Hw1. }
    destruct (Hall x Hw2) as [v Hr2].
    pose proof (FI2 r x v Hr2) as F2.
    rewrite (fame_agreement_states g st1 st2 x r true v G1 R1 G2 R2 SAME NF F1 F2). exact Hr2.
  Qed.
End Famous.

(* the famous witnesses listed by the model are the witnesses recorded famous *)
Lemma famous_witnesses_frec g st r ri x : good g st -> get_round st r = Some ri ->
  (In x (famous_witnesses ri) <-> frec st r x true).
Proof.
  intros G Hg. unfold famous_witnesses. split.
  - intros H. apply in_map_iff in H. destruct H as [[x' [w f]] [E H]]. cbn in E. subst x'.
    apply filter_In in H. destruct H as [Hin Hf]. cbn in Hf. destruct w; [|discriminate]. destruct f; try discriminate.
    exists ri. split; [exact Hg|].
    apply ukeys_In_aget; [|exact Hin].
    pose proof (c_tabu _ _ _ (gd_c _ _ G) r) as U. unfold wl in U. rewrite Hg in U. unfold wl_of in U.
    rewrite map_map in U. cbn [fst] in U. exact U.
  - intros [ri' [Hg' Ha]]. rewrite Hg in Hg'. inversion Hg'; subst ri'.
    apply in_map_iff. exists (x, (true, TTrue)). split; [reflexivity|]. apply filter_In.
    split; [apply aget_In; exact Ha|reflexivity].
Qed.

(* WitnessesDecided answering true on a round whose flag is not yet set means full_dec *)
Lemma witnesses_decided_full_dec g st r ri : good g st -> get_round st r = Some ri ->
  ri_decided ri = false -> fst (witnesses_decided ri g) = true -> full_dec g st r.
Proof.
  intros G Hg Hd. unfold witnesses_decided. rewrite Hd.
  destruct (existsb _ _) eqn:Ex; [discriminate|]. cbn [fst]. intros Hsm. apply Z.leb_le in Hsm.
  split; [rewrite (wits_get_round st r ri Hg); exact Hsm|].
  intros x Hx. rewrite (wits_get_round st r ri Hg) in Hx. unfold witnesses in Hx.
  apply in_map_iff in Hx. destruct Hx as [[x' [w f]] [E Hx]]. cbn in E. subst x'.
  apply filter_In in Hx. destruct Hx as [Hin Hw]. cbn in Hw. subst w.
  assert (Hf : f <> Undefined).
  { intros ->. assert (C : existsb (fun e : Z * (bool * trilean) => match snd e with (true, Undefined) => true | _ => false end)
                             (ri_created ri) = true).
    { apply existsb_exists. exists (x, (true, Undefined)). auto. }
    congruence. }
  assert (Ha : aget x (ri_created ri) = Some (true, f)).
  { apply ukeys_In_aget; [|exact Hin].
    pose proof (c_tabu _ _ _ (gd_c _ _ G) r) as U. unfold wl in U. rewrite Hg in U. unfold wl_of in U.
    rewrite map_map in U. cbn [fst] in U. exact U. }
  destruct f; [contradiction|exists true|exists false]; exists ri; auto.
Qed.

(** * On reachable states *)
Theorem famous_witnesses_agree_hrun :
  forall genesis all self1 self2 oracle1 oracle2 ops1 ops2 r ri1 ri2 x,
  ids_determine all -> no_accept all -> Forall (hop_ok all) ops1 -> Forall (hop_ok all) ops2 ->
  let st1 := hrun (init_hg self1 genesis oracle1) ops1 in
  let st2 := hrun (init_hg self2 genesis oracle2) ops2 in
  no_cross_fork st1 st2 ->
  full_dec genesis st1 r -> full_dec genesis st2 r ->
  get_round st1 r = Some ri1 -> get_round st2 r = Some ri2 ->
  (In x (famous_witnesses ri1) <-> In x (famous_witnesses ri2)).
Proof.
  intros g all s1 s2 o1 o2 ops1 ops2 r ri1 ri2 x ID NA H1 H2 st1 st2 NF D1 D2 Hg1 Hg2.
  pose proof (hrun_nf g all s1 o1 ops1 ID NA H1) as N1. pose proof (hrun_nf g all s2 o2 ops2 ID NA H2) as N2.
  pose proof (hrun_FI g all s1 o1 ops1 ID NA H1) as F1. pose proof (hrun_FI g all s2 o2 ops2 ID NA H2) as F2.
  fold st1 in N1, F1. fold st2 in N2, F2.
  pose proof (nf_good g all st1 N1) as G1. pose proof (nf_good g all st2 N2) as G2.
  pose proof (nf_r _ _ _ N1) as R1. pose proof (nf_r _ _ _ N2) as R2.
  assert (SB : same_bodies st1 st2).
  { apply (same_bodies_of_universe all g); auto;
      [apply (g_from _ _ (gi_core _ _ (nf_g _ _ _ N1)))|apply (g_from _ _ (gi_core _ _ (nf_g _ _ _ N2)))]. }
  rewrite (famous_witnesses_frec g st1 r ri1 x G1 Hg1), (famous_witnesses_frec g st2 r ri2 x G2 Hg2).
  split; intros H.
  - apply (famous_transfer g st1 st2 G1 G2 (rinv_contig _ R1) (rinv_contig _ R2) R1 R2 F1 F2 SB NF r x H D2).
  - apply (famous_transfer g st2 st1 G2 G1 (rinv_contig _ R2) (rinv_contig _ R1) R2 R1 F2 F1
             (same_bodies_sym _ _ SB) (no_cross_fork_sym _ _ NF) r x H D1).
Qed.

(* the recorded fame values are the values of the voting loop, in every reachable state *)
Theorem recorded_fame_is_vote_hrun : forall genesis all self_ oracle_ ops r ri x (v : bool),
  ids_determine all -> no_accept all -> Forall (hop_ok all) ops ->
  let st := hrun (init_hg self_ genesis oracle_) ops in
  get_round st r = Some ri -> aget x (ri_created ri) = Some (true, if v then TTrue else TFalse) ->
  fame_of st x r = Some (Some v).
Proof.
  intros g all s o ops r ri x v ID NA H st Hg Ha.
  apply (hrun_FI g all s o ops ID NA H r x v). exists ri. auto.
Qed.

(* executable form of full_dec *)
Definition full_decb (g : peerset) (st : hg) (r : Z) : bool :=
  (super_majority g <=? Z.of_nat (length (wits st r))) &&
  forallb (fun x => match get_round st r with
                    | Some ri => match aget x (ri_created ri) with
                                 | Some (true, TTrue) | Some (true, TFalse) => true
                                 | _ => false end
                    | None => false end) (wits st r).

Lemma full_decb_sound g st r : full_decb g st r = true -> full_dec g st r.
Proof.
  unfold full_decb. intros H. apply andb_true_iff in H. destruct H as [H1 H2].
  split; [apply Z.leb_le; exact H1|]. rewrite forallb_forall in H2. intros x Hx. specialize (H2 x Hx).
  destruct (get_round st r) as [ri|] eqn:Hg; [|discriminate].
  destruct (aget x (ri_created ri)) as [[[|] [| |]]|] eqn:Ha; try discriminate.
  - exists true, ri. auto.
  - exists false, ri. auto.
Qed.
