(* Dynamic membership (model after fix 05eda0b): the famous witnesses of a round.  If node 1 has recorded x as a
   famous witness of round r and node 2 has decided all the round-r witnesses it knows (at least a super-majority of the
   set of round r), node 2 has recorded x as famous too.  Adapted from Proofs/FamousSet.v. *)
From Coq Require Import ZArith List Bool Lia ZifyBool Permutation.
From RecordUpdate Require Import RecordSet.
From V Require Import Model.ZMap Model.Quorum Model.Voting Model.VotingRef Model.VotingRefD Model.HgImpl Model.Window
  Proofs.ZMapFacts Proofs.QuorumProofs Proofs.AdmissionProofs Proofs.Ancestry Proofs.BlockInv Proofs.RoundOrder
  Proofs.OrderProofs Proofs.VotingProofs Proofs.VotingProofsD Proofs.FameBridge Proofs.Static Proofs.FirstDesc
  Proofs.FdWalk Proofs.DivInv Proofs.CInvRun Proofs.Height Proofs.StronglySee Proofs.RoundFun Proofs.ViewOk Proofs.SameHistory
  Proofs.Agreement Proofs.NoFail Proofs.FameInv Proofs.LateWitness Proofs.FamousSet Proofs.GapWindow
  Proofs.FirstDescD Proofs.CInvRunD Proofs.StronglySeeD Proofs.RoundFunD Proofs.RoundAgreeD Proofs.ViewOkD Proofs.SameHistoryD
  Proofs.AgreementD Proofs.FameInvD Proofs.LateWitnessD.
Import ListNotations RecordSetNotations.
Open Scope Z_scope.

(* all the round-r witnesses known to the state have a recorded fame, and they are a supermajority:
   the condition under which WitnessesDecided answers true (and sets the sticky flag) *)
Definition full_decD (g : peerset) (st : hg) (r : Z) : Prop :=
  super_majority g <= Z.of_nat (length (wits st r)) /\
  forall x, In x (wits st r) -> exists v, frec st r x v.

Lemma frec_witsD P st r x v : goodD P st -> frec st r x v -> In x (wits st r).
Proof.
  intros G [ri [Hg Ha]]. rewrite (wits_get_round st r ri Hg). unfold witnesses.
  apply in_map_iff. exists (x, (true, tri_of v)). split; [reflexivity|]. apply filter_In. split; [|reflexivity].
  apply aget_In. exact Ha.
Qed.

(* a decision needs a deciding witness at least two rounds later *)
Lemma decided_has_later_witnessD P st x r v : goodD P st -> contig st ->
  (forall q, 0 <= q <= last_round st -> get_peerset st q = Some (P q)) ->
  fame_of st x r = Some (Some v) -> exists y0, In y0 (wits st (r + 2)).
Proof.
  intros G C T F.
  destruct (fame_decided_preD P st G C T x r v F) as [Hr [ex Hx]].
  pose proof (view_ok_reachD P st G C T x r ex Hr Hx) as V.
  assert (N : forall j, In j (zrange (r + 1) (last_round st)) -> round_witnesses st j <> None).
  { intros j Hj. apply In_zrange in Hj. apply (round_witnesses_someD P st C T). lia. }
  rewrite (fame_of_as_view st x r N) in F.
  destruct (loop_no_error_and_votesD _ _ _ _ _ V) as [E _]. cbv zeta in E. rewrite E in F. inversion F as [F'].
  apply (loop_ref_Some_iffD _ _ _ _ _ V) in F'. destruct F' as [j [y [Hj [Hy [Hd _]]]]].
  unfold VotingRefD.deciderD in Hd. apply andb_true_iff in Hd. destruct Hd as [Hd _]. apply andb_true_iff in Hd. destruct Hd as [Hd _].
  assert (Hj2 : r + 2 <= j) by lia.
  rewrite (view_witnesses_witsD P st T) in Hy by lia.
  destruct (wits st (r + 2)) as [|y0 l] eqn:E2; [exfalso|exists y0; left; reflexivity].
  rewrite (wits_empty_upD P st G T (r + 2) ltac:(lia) E2 (Z.to_nat (j - (r + 2))) j ltac:(lia)) in Hy. destruct Hy.
Qed.

Section Famous.
  Variables (P : Z -> peerset) (st1 st2 : hg).
  Hypothesis G1 : goodD P st1.
  Hypothesis G2 : goodD P st2.
  Hypothesis C1 : contig st1.
  Hypothesis C2 : contig st2.
  Hypothesis R1 : rinv st1.
  Hypothesis R2 : rinv st2.
  Hypothesis FI1 : FI st1.
  Hypothesis FI2 : FI st2.
  Hypothesis SAME : same_bodies st1 st2.
  Hypothesis NF : no_cross_fork st1 st2.
  Hypothesis T1 : forall q, 0 <= q <= last_round st1 -> get_peerset st1 q = Some (P q).
  Hypothesis T2 : forall q, 0 <= q <= last_round st2 -> get_peerset st2 q = Some (P q).

  Theorem famous_transferD r x : frec st1 r x true -> full_decD (P r) st2 r -> frec st2 r x true.
  Proof.
    intros H1 [Hsm Hall].
    pose proof (FI1 r x true H1) as F1.
    (* some witness of round r is decided in st2, so st2 has a witness of round r+2 *)
    pose proof (super_majority_pos (P r)) as Hp.
    destruct (wits st2 r) as [|w0 l] eqn:Ew; [cbn in Hsm; lia|].
    assert (Hw0 : In w0 (wits st2 r)) by (rewrite Ew; left; reflexivity).
    rewrite <- Ew in *. clear Ew l.
    destruct (Hall w0 Hw0) as [v0 Hr0].
    destruct (decided_has_later_witnessD P st2 w0 r v0 G2 C2 T2 (FI2 r w0 v0 Hr0)) as [y0 Hy0].
    (* hence st2 stores x *)
    pose proof (famous_is_knownD P st1 st2 G1 G2 C1 C2 SAME NF T1 T2 x r y0 F1 Hy0) as Hx2.
    destruct (get_event st2 x) as [e2x|] eqn:H2x; [|contradiction].
    pose proof (frec_witsD P st1 r x true G1 H1) as Hw1.
    destruct (wits_storedD P st1 G1 r x Hw1) as [e1x H1x].
    destruct (memo_agreeD P P st1 st2 G1 G2 SAME (fun q _ _ => eq_refl) x e1x e2x H1x H2x) as [Er Ewm].
    assert (Hw2 : In x (wits st2 r)).
    { apply (wits_specD P st2 G2). rewrite <- Er, <- Ewm. apply (wits_specD P st1 G1). exact Hw1. }
    destruct (Hall x Hw2) as [v Hr2].
    pose proof (FI2 r x v Hr2) as F2.
    rewrite (fame_agreement_statesD P st1 st2 x r true v G1 R1 T1 G2 R2 T2 SAME NF F1 F2). exact Hr2.
  Qed.
End Famous.

(* the famous witnesses listed by the model are the witnesses recorded famous *)
Lemma famous_witnesses_frecD P st r ri x : goodD P st -> get_round st r = Some ri ->
  (In x (famous_witnesses ri) <-> frec st r x true).
Proof.
  intros G Hg. unfold famous_witnesses. split.
  - intros H. apply in_map_iff in H. destruct H as [[x' [w f]] [E H]]. cbn in E. subst x'.
    apply filter_In in H. destruct H as [Hin Hf]. cbn in Hf. destruct w; [|discriminate]. destruct f; try discriminate.
    exists ri. split; [exact Hg|].
    apply ukeys_In_aget; [|exact Hin].
    pose proof (cd_tabu _ _ _ (gD_c _ _ G) r) as U. unfold wl in U. rewrite Hg in U. unfold wl_of in U.
    rewrite map_map in U. cbn [fst] in U. exact U.
  - intros [ri' [Hg' Ha]]. rewrite Hg in Hg'. inversion Hg'; subst ri'.
    apply in_map_iff. exists (x, (true, TTrue)). split; [reflexivity|]. apply filter_In.
    split; [apply aget_In; exact Ha|reflexivity].
Qed.

(* WitnessesDecided answering true on a round whose flag is not yet set means full_decD *)
Lemma witnesses_decided_full_decD P g st r ri : goodD P st -> get_round st r = Some ri ->
  ri_decided ri = false -> fst (witnesses_decided ri g) = true -> full_decD g st r.
Proof.
  intros G Hg Hd. unfold witnesses_decided. rewrite Hd.
  destruct (existsb _ _) eqn:Ex; [discriminate|]. cbn [fst]. intros Hsm. apply Z.leb_le in Hsm.
  split; [rewrite (wits_get_round st r ri Hg); exact Hsm|].
  intros x Hx. rewrite (wits_get_round st r ri Hg) in Hx. unfold witnesses in Hx.
  apply in_map_iff in Hx. destruct Hx as [[x' [w f]] [E Hx]]. cbn in E. subst x'.
  apply filter_In in Hx. destruct Hx as [Hin Hw]. cbn in Hw. subst w.
  assert (Hf : f <> Undefined).
  { intros ->. assert (C : existsb (fun e : Z * (bool * trilean) => match snd e with (true, Undefined) => true | _ => false end)
                             (ri_created ri) = true).
    { apply existsb_exists. exists (x, (true, Undefined)). auto. }
    congruence. }
  assert (Ha : aget x (ri_created ri) = Some (true, f)).
  { apply ukeys_In_aget; [|exact Hin].
    pose proof (cd_tabu _ _ _ (gD_c _ _ G) r) as U. unfold wl in U. rewrite Hg in U. unfold wl_of in U.
    rewrite map_map in U. cbn [fst] in U. exact U. }
  destruct f; [contradiction|exists true|exists false]; exists ri; auto.
Qed.


(** * Two nodes that respect the distance bound *)
Theorem famous_witnesses_agree_gap :
  forall all self1 self2 genesis1 genesis2 oracle1 oracle2 ops1 ops2 r ri1 ri2 x,
  ids_determine all -> self1 <> -1 -> self2 <> -1 ->
  Forall (hop_ok all) ops1 -> Forall (hop_ok all) ops2 ->
  gap_runb (init_hg self1 genesis1 oracle1) ops1 = true -> gap_runb (init_hg self2 genesis2 oracle2) ops2 = true ->
  let st1 := hrun (init_hg self1 genesis1 oracle1) ops1 in
  let st2 := hrun (init_hg self2 genesis2 oracle2) ops2 in
  failed st1 = false -> failed st2 = false -> tables_agree st1 st2 -> no_cross_fork st1 st2 ->
  full_decD (psat st1 r) st1 r -> full_decD (psat st2 r) st2 r ->
  get_round st1 r = Some ri1 -> get_round st2 r = Some ri2 ->
  (In x (famous_witnesses ri1) <-> In x (famous_witnesses ri2)).
Proof.
  intros all s1 s2 g1 g2 o1 o2 ops1 ops2 r ri1 ri2 x ID S1 S2 H1 H2 B1 B2 st1 st2 F1 F2 T NF D1 D2 Hg1 Hg2.
  destruct (two_runs_common all s1 s2 g1 g2 o1 o2 ops1 ops2 ID S1 S2 H1 H2 B1 B2 F1 F2 T) as [P [G1 [G2 [R1 [R2 [T1 [T2 SB]]]]]]].
  fold st1 in G1, R1, T1, SB. fold st2 in G2, R2, T2, SB.
  pose proof (hrun_FI_D_final s1 g1 o1 all ops1 S1 ID H1 B1 F1) as Fi1.
  pose proof (hrun_FI_D_final s2 g2 o2 all ops2 S2 ID H2 B2 F2) as Fi2.
  fold st1 in Fi1. fold st2 in Fi2.
  pose proof (rinv_contig _ R1) as C1. pose proof (rinv_contig _ R2) as C2.
  assert (E1 : psat st1 r = P r).
  { assert (Hr : 0 <= r <= last_round st1) by (apply C1; rewrite Hg1; discriminate).
    pose proof (T1 r Hr) as A. pose proof (psat_some s1 g1 o1 ops1 r S1) as Q. fold st1 in Q. rewrite Q in A. inversion A. reflexivity. }
  assert (E2 : psat st2 r = P r).
  { assert (Hr : 0 <= r <= last_round st2) by (apply C2; rewrite Hg2; discriminate).
    pose proof (T2 r Hr) as A. pose proof (psat_some s2 g2 o2 ops2 r S2) as Q. fold st2 in Q. rewrite Q in A. inversion A. reflexivity. }
  rewrite E1 in D1. rewrite E2 in D2.
  rewrite (famous_witnesses_frecD P st1 r ri1 x G1 Hg1), (famous_witnesses_frecD P st2 r ri2 x G2 Hg2).
  split; intros H.
  - apply (famous_transferD P st1 st2 G1 G2 C1 C2 R1 R2 Fi1 Fi2 SB NF T1 T2 r x H D2).
  - apply (famous_transferD P st2 st1 G2 G1 C2 C1 R2 R1 Fi2 Fi1 (same_bodies_sym _ _ SB) (no_cross_fork_sym _ _ NF) T2 T1 r x H D1).
Qed.
