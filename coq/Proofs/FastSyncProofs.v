(* Lemmas about Model/FastSync.v (C12, C14). *)
From Coq Require Import ZArith List Bool Lia ZifyBool Permutation.
From V Require Import Model.Quorum Model.FastSync Proofs.QuorumProofs.
Import ListNotations.
Open Scope Z_scope.
Ltac Zify.zify_post_hook ::= Z.div_mod_to_equations.

(** * Small list facts *)

Lemma zlist_eqb_eq a : forall b, zlist_eqb a b = true <-> a = b.
Proof.
  induction a as [|x a IH]; intros [|y b]; simpl; try (split; [discriminate|discriminate]); [tauto|].
  rewrite andb_true_iff, IH, Z.eqb_eq. split; [intros [-> ->]; reflexivity|intros H; inversion H; auto].
Qed.

Lemma dedup_length_le l : (length (dedup l) <= length l)%nat.
Proof.
  induction l as [|x r IH]; simpl; [lia|].
  destruct (mem_key x r); simpl; lia.
Qed.

Lemma fp_dedup_length_le ps : (length (fp_dedup ps) <= length ps)%nat.
Proof.
  induction ps as [|x r IH]; simpl; [lia|].
  destruct (fp_mem x r); simpl; lia.
Qed.

Lemma fp_dedup_nonempty ps : ps <> [] -> fp_dedup ps <> [].
Proof.
  induction ps as [|x r IH]; [congruence|intros _; simpl].
  destruct (fp_mem x r) eqn:E; [|discriminate].
  apply IH; destruct r; [discriminate|discriminate].
Qed.

Lemma fs_len_le_slice ps : fs_len ps <= fs_slice_len ps.
Proof. unfold fs_len, fs_slice_len; pose proof (fp_dedup_length_le ps); lia. Qed.

Lemma fs_len_pos ps : ps <> [] -> 1 <= fs_len ps.
Proof.
  intros H; apply fp_dedup_nonempty in H; unfold fs_len.
  destruct (fp_dedup ps); [congruence|simpl length; lia].
Qed.

Lemma fs_tc_nonneg ps : 0 <= fs_tc ps.
Proof.
  unfold fs_tc, tc, fs_len. destruct (fs_slice_len ps <=? 1); [lia|].
  pose proof (Zle_0_nat (length (fp_dedup ps))); lia.
Qed.

Lemma member_nonempty ps v : member ps v = true -> ps <> [].
Proof. destruct ps; [discriminate|discriminate]. Qed.

Lemma filter_length_le {A} (p : A -> bool) l : (length (filter p l) <= length l)%nat.
Proof. induction l as [|x r IH]; simpl; [lia|destruct (p x); simpl; lia]. Qed.

Lemma filter_impl_length {A} (p q : A -> bool) l :
  (forall x, p x = true -> q x = true) -> (length (filter p l) <= length (filter q l))%nat.
Proof.
  intros H; induction l as [|x r IH]; simpl; [lia|].
  destruct (p x) eqn:E; [rewrite (H _ E); simpl; lia|destruct (q x); simpl; lia].
Qed.

Lemma existsb_false_forall {A} (p : A -> bool) l : existsb p l = false -> forall x, In x l -> p x = false.
Proof.
  intros H x Hx; destruct (p x) eqn:E; [|reflexivity].
  assert (existsb p l = true) by (apply existsb_exists; eauto); congruence.
Qed.

Lemma existsb_perm {A} (p : A -> bool) l l' : Permutation l l' -> existsb p l = existsb p l'.
Proof.
  intros HP. destruct (existsb p l) eqn:E1, (existsb p l') eqn:E2; try reflexivity.
  - apply existsb_exists in E1 as [x [Hx Hp]].
    assert (existsb p l' = true) by (apply existsb_exists; exists x; split; [eapply Permutation_in; eauto|auto]); congruence.
  - apply existsb_exists in E2 as [x [Hx Hp]].
    assert (existsb p l = true) by (apply existsb_exists; exists x; split; [eapply Permutation_in; [apply Permutation_sym|]; eauto|auto]); congruence.
Qed.

Lemma filter_perm {A} (p : A -> bool) l l' : Permutation l l' -> Permutation (filter p l) (filter p l').
Proof.
  induction 1 as [|x l l' HP IH|x y l|l l' l'' H1 IH1 H2 IH2]; simpl.
  - constructor.
  - destruct (p x); [constructor; auto|auto].
  - destruct (p x), (p y); try apply Permutation_refl; apply perm_swap.
  - eapply Permutation_trans; eauto.
Qed.

(** * The decision of the current code *)

Lemma reset_result_cases f :
  reset_result f = FFOk /\ ff_reset f = 1 \/ reset_result f = FFPanicReset \/ reset_result f = FFResetError.
Proof.
  unfold reset_result. destruct (Z.eqb_spec (ff_reset f) 1); [left; auto|].
  destruct (ff_reset f =? 2); auto.
Qed.

Lemma check_block_ok b f :
  check_block b f = FFOk ->
  fb_peers_hash b = Some (peers_digest (ff_peers f)) /\
  existsb se_short (fb_sigs b) = false /\
  existsb (verify_panics (ff_peers f)) (fb_sigs b) = false /\
  fs_tc (ff_peers f) < valid_sigs (ff_peers f) (fb_sigs b).
Proof.
  unfold check_block, peers_hash_ok.
  destruct (fb_peers_hash b) as [l|] eqn:EP; cbn [negb]; [|discriminate].
  destruct (zlist_eqb l (peers_digest (ff_peers f))) eqn:EL; cbn [negb]; [|discriminate].
  apply zlist_eqb_eq in EL; subst l.
  destruct (existsb se_short (fb_sigs b)); [discriminate|].
  destruct (existsb (verify_panics (ff_peers f)) (fb_sigs b)); [discriminate|].
  destruct (valid_sigs (ff_peers f) (fb_sigs b) <=? fs_tc (ff_peers f)) eqn:EC; [discriminate|].
  intros _; repeat split; auto; lia.
Qed.

Lemma check_block_res b f :
  check_block b f = FFOk \/ check_block b f = FFWrongPeerSet \/
  check_block b f = FFPanicCheck \/ check_block b f = FFNotEnoughSigs.
Proof.
  unfold check_block.
  destruct (negb (peers_hash_ok b f)); auto.
  destruct (existsb se_short (fb_sigs b)); auto.
  destruct (existsb (verify_panics (ff_peers f)) (fb_sigs b)); auto.
  destruct (valid_sigs (ff_peers f) (fb_sigs b) <=? fs_tc (ff_peers f)); auto.
Qed.

Lemma ff_decide_ok b f :
  ff_decide b f = FFOk ->
  check_block b f = FFOk /\ fb_frame_hash b = ff_hash f /\ ff_reset f = 1.
Proof.
  unfold ff_decide.
  destruct (check_block_res b f) as [E|[E|[E|E]]]; rewrite E; try discriminate.
  destruct (Z.eqb_spec (fb_frame_hash b) (ff_hash f)); [|discriminate].
  destruct (reset_result_cases f) as [[E1 E2]|[E1|E1]]; rewrite E1; try discriminate; auto.
Qed.

Lemma counted_member ps s : counted ps s = true -> member ps (se_bytes s) = true /\ se_verif s = 1.
Proof. unfold counted; rewrite andb_true_iff, Z.eqb_eq; auto. Qed.

Lemma valid_sigs_pos_nonempty ps sigs : 0 < valid_sigs ps sigs -> ps <> [].
Proof.
  unfold valid_sigs; intros H.
  destruct (filter (counted ps) sigs) as [|s r] eqn:E; [simpl in H; lia|].
  assert (Hin : In s (filter (counted ps) sigs)) by (rewrite E; left; reflexivity).
  apply filter_In in Hin as [_ Hc]. apply counted_member in Hc as [Hm _].
  eapply member_nonempty; eauto.
Qed.

(* what an accepted response has passed (per map ENTRY) *)
Lemma ff_accept_checks b f :
  ff_decide b f = FFOk ->
  fb_frame_hash b = ff_hash f /\
  fb_peers_hash b = Some (peers_digest (ff_peers f)) /\
  fs_tc (ff_peers f) < valid_sigs (ff_peers f) (fb_sigs b) /\
  3 * valid_sigs (ff_peers f) (fb_sigs b) > fs_len (ff_peers f).
Proof.
  intros H; apply ff_decide_ok in H as [HC [HF _]].
  apply check_block_ok in HC as [HP [_ [_ HV]]].
  repeat split; auto.
  pose proof (fs_tc_nonneg (ff_peers f)) as H0.
  assert (Hne : ff_peers f <> []) by (apply (valid_sigs_pos_nonempty _ (fb_sigs b)); lia).
  apply (trusted_gt_third _ (fs_slice_len (ff_peers f)) (fs_len (ff_peers f))).
  - apply fs_len_pos; auto.
  - apply fs_len_le_slice.
  - unfold trusted; fold (fs_tc (ff_peers f)); lia.
Qed.

(* Go iterates the signature map in random order: the decision does not depend on it *)
Lemma valid_sigs_perm ps s s' : Permutation s s' -> valid_sigs ps s = valid_sigs ps s'.
Proof.
  intros HP; unfold valid_sigs. f_equal.
  apply Permutation_length, filter_perm; auto.
Qed.

Lemma check_block_perm i rr ph fh s s' f :
  Permutation s s' -> check_block (mkBlock i rr ph fh s) f = check_block (mkBlock i rr ph fh s') f.
Proof.
  intros HP; unfold check_block, peers_hash_ok; cbn [fb_sigs fb_peers_hash].
  rewrite (existsb_perm se_short _ _ HP), (existsb_perm (verify_panics (ff_peers f)) _ _ HP),
    (valid_sigs_perm _ _ _ HP). reflexivity.
Qed.

Lemma ff_decide_perm i rr ph fh s s' f :
  Permutation s s' -> ff_decide (mkBlock i rr ph fh s) f = ff_decide (mkBlock i rr ph fh s') f.
Proof.
  intros HP; unfold ff_decide. rewrite (check_block_perm i rr ph fh s s' f HP). reflexivity.
Qed.

(** * core.fastForward: state *)

Definition pre_reset (r : ffres) : Prop :=
  r = FFWrongPeerSet \/ r = FFNotEnoughSigs \/ r = FFBadFrameHash \/ r = FFPanicCheck.

Lemma core_ff_decision st b f : fst (core_ff st b f) = ff_decide b f.
Proof.
  unfold core_ff, ff_decide.
  destruct (check_block b f); try reflexivity.
  destruct (fb_frame_hash b =? ff_hash f); [|reflexivity].
  destruct (reset_result f); reflexivity.
Qed.

Lemma core_ff_reject_noop st b f r st' :
  core_ff st b f = (r, st') -> pre_reset r -> st' = st.
Proof.
  unfold core_ff, pre_reset.
  destruct (check_block_res b f) as [E|[E|[E|E]]]; rewrite E;
    try (intros H _; inversion H; reflexivity).
  destruct (fb_frame_hash b =? ff_hash f); [|intros H _; inversion H; reflexivity].
  destruct (reset_result_cases f) as [[E1 _]|[E1|E1]]; rewrite E1;
    intros H [Hr|[Hr|[Hr|Hr]]]; inversion H; subst; discriminate.
Qed.

Lemma core_ff_rest st b f : cs_rest (snd (core_ff st b f)) = cs_rest st.
Proof.
  unfold core_ff.
  destruct (check_block b f); try reflexivity.
  destruct (fb_frame_hash b =? ff_hash f); [|reflexivity].
  destruct (reset_result f); reflexivity.
Qed.

Lemma core_ff_accept_state st b f st' :
  core_ff st b f = (FFOk, st') ->
  st' = mkCore (HgReset b f) (new_validators f) (ff_peers f) (cs_rest st).
Proof.
  unfold core_ff.
  destruct (check_block_res b f) as [E|[E|[E|E]]]; rewrite E; try discriminate.
  destruct (fb_frame_hash b =? ff_hash f); [|discriminate].
  destruct (reset_result_cases f) as [[E1 _]|[E1|E1]]; rewrite E1; intros H; inversion H; reflexivity.
Qed.

(* the victim's state plays no part in the decision *)
Lemma core_ff_state_blind st1 st2 b f : fst (core_ff st1 b f) = fst (core_ff st2 b f).
Proof. rewrite !core_ff_decision; reflexivity. Qed.

(** * Specification-side signer set *)

Lemma distinct_valid_signers_NoDup ps sigs : NoDup (distinct_valid_signers ps sigs).
Proof. apply dedup_NoDup. Qed.

Lemma distinct_valid_signers_spec ps sigs v :
  In v (distinct_valid_signers ps sigs) <->
  member ps v = true /\ exists s, In s sigs /\ se_bytes s = v /\ se_verif s = 1.
Proof.
  unfold distinct_valid_signers. rewrite dedup_In, in_map_iff. split.
  - intros [s [Hb Hin]]. apply filter_In in Hin as [Hin Hc].
    apply counted_member in Hc as [Hm Hv]. subst v. split; [auto|exists s; auto].
  - intros [Hm [s [Hin [Hb Hv]]]]. exists s; split; [auto|].
    apply filter_In; split; [auto|]. unfold counted. subst v. rewrite Hm, Hv. reflexivity.
Qed.

(* any duplicate-free list of endorsing members is no longer than the computed one *)
Lemma distinct_valid_signers_max ps sigs l :
  NoDup l ->
  (forall v, In v l -> member ps v = true /\ exists s, In s sigs /\ se_bytes s = v /\ se_verif s = 1) ->
  (length l <= length (distinct_valid_signers ps sigs))%nat.
Proof.
  intros ND H. apply NoDup_incl_length; [auto|].
  intros v Hv. apply distinct_valid_signers_spec. auto.
Qed.

(** * The repaired rule *)

Lemma signer_ok_inv known ps s :
  signer_ok known ps s = true ->
  se_short s = false /\ member ps (se_bytes s) = true /\ in_known known (se_bytes s) = true /\ se_verif s = 1.
Proof.
  unfold signer_ok. rewrite !andb_true_iff, negb_true_iff, Z.eqb_eq. tauto.
Qed.

Lemma signer_ok_counted known ps s : signer_ok known ps s = true -> counted ps s = true.
Proof.
  intros H; apply signer_ok_inv in H as [_ [Hm [_ Hv]]]. unfold counted; rewrite Hm, Hv; reflexivity.
Qed.

Lemma valid_signers_fixed_NoDup known ps sigs : NoDup (valid_signers_fixed known ps sigs).
Proof. apply dedup_NoDup. Qed.

Lemma valid_signers_fixed_spec known ps sigs v :
  In v (valid_signers_fixed known ps sigs) <->
  exists s, In s sigs /\ se_bytes s = v /\ signer_ok known ps s = true.
Proof.
  unfold valid_signers_fixed. rewrite dedup_In, in_map_iff. split.
  - intros [s [Hb Hin]]. apply filter_In in Hin as [Hin Hc]. exists s; auto.
  - intros [s [Hin [Hb Hc]]]. exists s; split; [auto|apply filter_In; auto].
Qed.

Lemma valid_signers_fixed_incl known ps sigs :
  incl (valid_signers_fixed known ps sigs) (distinct_valid_signers ps sigs).
Proof.
  intros v Hv. apply valid_signers_fixed_spec in Hv as [s [Hin [Hb Hc]]].
  apply signer_ok_inv in Hc as [_ [Hm [_ Hvf]]].
  apply distinct_valid_signers_spec. subst v. split; [auto|exists s; auto].
Qed.

Lemma check_block_fixed_res known b f :
  check_block_fixed known b f = FFOk \/ check_block_fixed known b f = FFWrongPeerSet \/
  check_block_fixed known b f = FFPanicCheck \/ check_block_fixed known b f = FFNotEnoughSigs.
Proof.
  unfold check_block_fixed.
  destruct (negb (peers_hash_ok b f)); auto.
  destruct (existsb (verify_panics_fixed known (ff_peers f)) (fb_sigs b)); auto.
  destruct (Z.of_nat (length (valid_signers_fixed known (ff_peers f) (fb_sigs b))) <=? fs_tc (ff_peers f)); auto.
Qed.

Lemma check_block_fixed_ok known b f :
  check_block_fixed known b f = FFOk ->
  fb_peers_hash b = Some (peers_digest (ff_peers f)) /\
  existsb (verify_panics_fixed known (ff_peers f)) (fb_sigs b) = false /\
  fs_tc (ff_peers f) < Z.of_nat (length (valid_signers_fixed known (ff_peers f) (fb_sigs b))).
Proof.
  unfold check_block_fixed, peers_hash_ok.
  destruct (fb_peers_hash b) as [l|] eqn:EP; cbn [negb]; [|discriminate].
  destruct (zlist_eqb l (peers_digest (ff_peers f))) eqn:EL; cbn [negb]; [|discriminate].
  apply zlist_eqb_eq in EL; subst l.
  destruct (existsb (verify_panics_fixed known (ff_peers f)) (fb_sigs b)); [discriminate|].
  destruct (Z.of_nat (length (valid_signers_fixed known (ff_peers f) (fb_sigs b))) <=? fs_tc (ff_peers f)) eqn:EC;
    [discriminate|].
  intros _; repeat split; auto; lia.
Qed.

Lemma check_ff_fixed_res known b f :
  check_ff_fixed known b f = FFOk \/ pre_reset (check_ff_fixed known b f).
Proof.
  unfold check_ff_fixed, pre_reset.
  destruct (check_block_fixed_res known b f) as [E|[E|[E|E]]]; rewrite E; auto.
  destruct (fb_frame_hash b =? ff_hash f); auto.
Qed.

Lemma check_ff_fixed_ok known b f :
  check_ff_fixed known b f = FFOk ->
  check_block_fixed known b f = FFOk /\ fb_frame_hash b = ff_hash f.
Proof.
  unfold check_ff_fixed.
  destruct (check_block_fixed_res known b f) as [E|[E|[E|E]]]; rewrite E; try discriminate.
  destruct (Z.eqb_spec (fb_frame_hash b) (ff_hash f)); [auto|discriminate].
Qed.

Lemma ff_decide_fixed_ok known b f :
  ff_decide_fixed known b f = FFOk -> check_ff_fixed known b f = FFOk /\ ff_reset f = 1.
Proof.
  unfold ff_decide_fixed.
  destruct (check_ff_fixed_res known b f) as [E|[E|[E|[E|E]]]]; rewrite E; try discriminate.
  destruct (reset_result_cases f) as [[E1 E2]|[E1|E1]]; rewrite E1; try discriminate; auto.
Qed.

Lemma fixed_signers_nonempty_member known ps sigs :
  0 < Z.of_nat (length (valid_signers_fixed known ps sigs)) ->
  exists s, In s sigs /\ signer_ok known ps s = true.
Proof.
  intros H. destruct (valid_signers_fixed known ps sigs) as [|v r] eqn:E; [simpl in H; lia|].
  assert (Hin : In v (valid_signers_fixed known ps sigs)) by (rewrite E; left; reflexivity).
  apply valid_signers_fixed_spec in Hin as [s [Hs [_ Hok]]]. eauto.
Qed.

(* C12 for the repaired rule: DISTINCT members with a verifying signature exceed one third *)
Lemma accept_fixed_sound known b f :
  ff_decide_fixed known b f = FFOk ->
  fb_frame_hash b = ff_hash f /\
  fb_peers_hash b = Some (peers_digest (ff_peers f)) /\
  3 * Z.of_nat (length (distinct_valid_signers (ff_peers f) (fb_sigs b))) > fs_len (ff_peers f).
Proof.
  intros H; apply ff_decide_fixed_ok in H as [HC _].
  apply check_ff_fixed_ok in HC as [HB HF].
  apply check_block_fixed_ok in HB as [HP [_ HV]].
  repeat split; auto.
  pose proof (fs_tc_nonneg (ff_peers f)) as H0.
  destruct (fixed_signers_nonempty_member known (ff_peers f) (fb_sigs b)) as [s [Hs Hok]]; [lia|].
  apply signer_ok_inv in Hok as [_ [Hm _]].
  assert (Hne : ff_peers f <> []) by (eapply member_nonempty; eauto).
  assert (Hle : (length (valid_signers_fixed known (ff_peers f) (fb_sigs b)) <=
                 length (distinct_valid_signers (ff_peers f) (fb_sigs b)))%nat).
  { apply NoDup_incl_length; [apply valid_signers_fixed_NoDup|apply valid_signers_fixed_incl]. }
  assert (3 * Z.of_nat (length (valid_signers_fixed known (ff_peers f) (fb_sigs b))) > fs_len (ff_peers f)).
  { apply (trusted_gt_third _ (fs_slice_len (ff_peers f)) (fs_len (ff_peers f))).
    - apply fs_len_pos; auto.
    - apply fs_len_le_slice.
    - unfold trusted; fold (fs_tc (ff_peers f)); lia. }
  lia.
Qed.

(* C14 for the repaired rule: a counted signer is known to the node *)
Lemma accept_fixed_known_signer known b f :
  ff_decide_fixed known b f = FFOk ->
  exists s, In s (fb_sigs b) /\ se_verif s = 1 /\ member (ff_peers f) (se_bytes s) = true /\
            in_known known (se_bytes s) = true.
Proof.
  intros H; apply ff_decide_fixed_ok in H as [HC _].
  apply check_ff_fixed_ok in HC as [HB _].
  apply check_block_fixed_ok in HB as [_ [_ HV]].
  pose proof (fs_tc_nonneg (ff_peers f)) as H0.
  destruct (fixed_signers_nonempty_member known (ff_peers f) (fb_sigs b)) as [s [Hs Hok]]; [lia|].
  apply signer_ok_inv in Hok as [_ [Hm [Hk Hv]]]. exists s; auto.
Qed.

(* ... more precisely: more than TrustCount distinct known members signed *)
Lemma accept_fixed_known_quorum known b f :
  ff_decide_fixed known b f = FFOk ->
  exists signers, NoDup signers /\
    (forall v, In v signers -> in_known known v = true /\ member (ff_peers f) v = true /\
               exists s, In s (fb_sigs b) /\ se_bytes s = v /\ se_verif s = 1) /\
    fs_tc (ff_peers f) < Z.of_nat (length signers).
Proof.
  intros H; apply ff_decide_fixed_ok in H as [HC _].
  apply check_ff_fixed_ok in HC as [HB _].
  apply check_block_fixed_ok in HB as [_ [_ HV]].
  exists (valid_signers_fixed known (ff_peers f) (fb_sigs b)).
  split; [apply valid_signers_fixed_NoDup|split; [|auto]].
  intros v Hv. apply valid_signers_fixed_spec in Hv as [s [Hs [Hb Hok]]].
  apply signer_ok_inv in Hok as [_ [Hm [Hk Hvf]]]. subst v. repeat split; eauto.
Qed.

Lemma strangers_refused_fixed known b f :
  (forall s, In s (fb_sigs b) -> in_known known (se_bytes s) = false) ->
  ff_decide_fixed known b f <> FFOk.
Proof.
  intros HS H. apply accept_fixed_known_signer in H as [s [Hin [_ [_ Hk]]]].
  rewrite (HS s Hin) in Hk; discriminate.
Qed.

(* tampering: if every entry that verifies on this body was made with one of the adversary's
   keys, and the adversary owns at most a third of the declared set, the response is refused *)
Lemma tamper_refused_fixed known b f adv :
  NoDup adv ->
  (forall s, In s (fb_sigs b) -> se_verif s = 1 -> In (se_bytes s) adv) ->
  3 * Z.of_nat (length adv) <= fs_len (ff_peers f) ->
  ff_decide_fixed known b f <> FFOk.
Proof.
  intros ND HA H3 H. apply ff_decide_fixed_ok in H as [HC _].
  apply check_ff_fixed_ok in HC as [HB _].
  apply check_block_fixed_ok in HB as [_ [_ HV]].
  assert (Hle : (length (valid_signers_fixed known (ff_peers f) (fb_sigs b)) <= length adv)%nat).
  { apply NoDup_incl_length; [apply valid_signers_fixed_NoDup|].
    intros v Hv. apply valid_signers_fixed_spec in Hv as [s [Hs [Hb Hok]]].
    apply signer_ok_inv in Hok as [_ [_ [_ Hvf]]]. subst v. auto. }
  pose proof (fs_len_le_slice (ff_peers f)) as Hsl.
  revert HV H3. unfold fs_tc, tc.
  destruct (fs_slice_len (ff_peers f) <=? 1) eqn:E; lia.
Qed.

(* the repaired rule is stricter than the current one *)
Lemma fixed_implies_current known b f :
  existsb se_short (fb_sigs b) = false ->
  existsb (verify_panics (ff_peers f)) (fb_sigs b) = false ->
  ff_decide_fixed known b f = FFOk -> ff_decide b f = FFOk.
Proof.
  intros HS E1 H. apply ff_decide_fixed_ok in H as [HC HR].
  apply check_ff_fixed_ok in HC as [HB HF].
  apply check_block_fixed_ok in HB as [HP [HVP HV]].
  unfold ff_decide, check_block, peers_hash_ok. rewrite HP, HS.
  assert (E0 : zlist_eqb (peers_digest (ff_peers f)) (peers_digest (ff_peers f)) = true)
    by (apply zlist_eqb_eq; reflexivity).
  rewrite E0; cbn [negb].
  rewrite E1.
  assert (Hle : (length (valid_signers_fixed known (ff_peers f) (fb_sigs b)) <=
                 length (filter (counted (ff_peers f)) (fb_sigs b)))%nat).
  { unfold valid_signers_fixed.
    eapply Nat.le_trans; [apply dedup_length_le|]. rewrite map_length.
    apply filter_impl_length. intros s; apply signer_ok_counted. }
  unfold valid_sigs.
  destruct (Z.of_nat (length (filter (counted (ff_peers f)) (fb_sigs b))) <=? fs_tc (ff_peers f)) eqn:E2; [lia|].
  rewrite HF, Z.eqb_refl. unfold reset_result. rewrite HR. reflexivity.
Qed.

Lemma core_ff_fixed_decision known st b f : fst (core_ff_fixed known st b f) = ff_decide_fixed known b f.
Proof.
  unfold core_ff_fixed, ff_decide_fixed.
  destruct (check_ff_fixed known b f); try reflexivity.
  destruct (reset_result f); reflexivity.
Qed.

Lemma core_ff_fixed_reject_noop known st b f r st' :
  core_ff_fixed known st b f = (r, st') -> pre_reset r -> st' = st.
Proof.
  unfold core_ff_fixed.
  destruct (check_ff_fixed_res known b f) as [E|E].
  - rewrite E. destruct (reset_result_cases f) as [[E1 _]|[E1|E1]]; rewrite E1;
      intros H [Hr|[Hr|[Hr|Hr]]]; inversion H; subst; discriminate.
  - destruct E as [E|[E|[E|E]]]; rewrite E; intros H _; inversion H; reflexivity.
Qed.

(* repaired node-level order: a response refused by the checks leaves node AND application untouched *)
Lemma node_ff_fixed_reject_noop known ns l r ns' :
  node_ff_fixed known ns l = (Some r, ns') -> pre_reset r -> ns' = ns.
Proof.
  unfold node_ff_fixed.
  destruct (best_response l) as [x|]; [|discriminate].
  destruct (check_ff_fixed_res known (r_block x) (r_frame x)) as [E|E].
  - rewrite E. unfold core_ff_fixed; rewrite E.
    destruct (reset_result_cases (r_frame x)) as [[E1 _]|[E1|E1]]; rewrite E1;
      intros H [Hr|[Hr|[Hr|Hr]]]; inversion H; subst; discriminate.
  - destruct E as [E|[E|[E|E]]]; rewrite E; intros H _; inversion H; reflexivity.
Qed.

(* the repaired node restores the application only for a response that passed every check *)
Lemma node_ff_fixed_restore_checked known ns l r ns' :
  node_ff_fixed known ns l = (r, ns') -> ns_app ns' <> ns_app ns ->
  exists x, best_response l = Some x /\ check_ff_fixed known (r_block x) (r_frame x) = FFOk /\
            ns_app ns' = r_snapshot x :: ns_app ns.
Proof.
  unfold node_ff_fixed.
  destruct (best_response l) as [x|]; [|intros H; inversion H; subst; simpl; congruence].
  destruct (check_ff_fixed_res known (r_block x) (r_frame x)) as [E|E].
  - rewrite E. destruct (core_ff_fixed known (ns_core ns) (r_block x) (r_frame x)) as [res c].
    intros H _. exists x. split; [reflexivity|split; [exact E|]].
    destruct res; inversion H; reflexivity.
  - destruct E as [E|[E|[E|E]]]; rewrite E; intros H; inversion H; subst; congruence.
Qed.

(** * getBestFastForwardResponse *)

Lemma best_from_in l : forall best maxb x,
  best_from l best maxb = Some x -> best = Some x \/ In (Some x) l.
Proof.
  induction l as [|o r IH]; intros best maxb x; simpl; [auto|].
  destruct o as [y|].
  - destruct (maxb <? fb_index (r_block y)); intros H; apply IH in H as [H|H]; auto.
  - intros H; apply IH in H as [H|H]; auto.
Qed.

Lemma best_from_index l : forall best maxb x,
  0 <= maxb ->
  (forall y, best = Some y -> 0 < fb_index (r_block y)) ->
  best_from l best maxb = Some x -> 0 < fb_index (r_block x).
Proof.
  induction l as [|o r IH]; intros best maxb x Hm Hb; simpl; [intros H; apply Hb; auto|].
  destruct o as [y|]; [|apply IH; auto].
  destruct (maxb <? fb_index (r_block y)) eqn:E.
  - apply IH; [lia|]. intros z Hz; inversion Hz; subst; lia.
  - apply IH; auto.
Qed.

Lemma best_response_in l x : best_response l = Some x -> In (Some x) l /\ 0 < fb_index (r_block x).
Proof.
  unfold best_response. intros H. split.
  - apply best_from_in in H as [H|H]; [discriminate|auto].
  - eapply best_from_index; [| |exact H]; [lia|discriminate].
Qed.

(** * Full-strength statements and their refutation on the faithful model *)
From V Require Import Model.FastSyncWitness.

(* adoption implies: the frame hashes to the block's frame hash, the frame's validator set hashes to
   the block's peer-set hash, and more than one third of the DISTINCT members of that set have a
   verifying signature ([distinct_valid_signers] is exactly that set: distinct_valid_signers_spec) *)
Definition accept_sound_statement (decide : ffblock -> ffframe -> ffres) : Prop :=
  forall b f, decide b f = FFOk ->
    fb_frame_hash b = ff_hash f /\
    fb_peers_hash b = Some (peers_digest (ff_peers f)) /\
    3 * Z.of_nat (length (distinct_valid_signers (ff_peers f) (fb_sigs b))) > fs_len (ff_peers f).

(* a refused response leaves core, application and node state untouched *)
Definition reject_noop_statement
  (nff : node_state -> list (option ffresp) -> option ffres * node_state) : Prop :=
  forall ns l r ns', nff ns l = (Some r, ns') -> r <> FFOk -> ns' = ns.

(* a response whose verifying entries all come from keys outside every known set is not adopted *)
Definition no_strangers_statement (decide : list (list Z) -> ffblock -> ffframe -> ffres) : Prop :=
  forall known b f,
    (forall s, In s (fb_sigs b) -> se_verif s = 1 -> in_known known (se_bytes s) = false) ->
    decide known b f <> FFOk.

(* tampering: every verifying entry was made with an adversary key, the adversary owns at most a third *)
Definition tamper_refused_statement (decide : ffblock -> ffframe -> ffres) : Prop :=
  forall b f adv, NoDup adv ->
    (forall s, In s (fb_sigs b) -> se_verif s = 1 -> In (se_bytes s) adv) ->
    3 * Z.of_nat (length adv) <= fs_len (ff_peers f) ->
    decide b f <> FFOk.

Lemma accept_fixed_sound_statement known : accept_sound_statement (ff_decide_fixed known).
Proof. intros b f; apply accept_fixed_sound. Qed.

Lemma accept_sound_refuted : ~ accept_sound_statement ff_decide.
Proof.
  intros H. specialize (H w_dup_block w_frame4 eq_refl). destruct H as [_ [_ H]].
  vm_compute in H. discriminate.
Qed.

Lemma distinct_signers_refuted : exists b f,
  NoDup (map se_key (fb_sigs b)) /\ ff_decide b f = FFOk /\
  distinct_valid_signers (ff_peers f) (fb_sigs b) = [1] /\ fs_len (ff_peers f) = 4.
Proof.
  exists w_dup_block, w_frame4. split; [|vm_compute; repeat split].
  cbn. constructor; [cbn; intros [H|[H|[]]]; discriminate|].
  constructor; [cbn; intros [H|[]]; discriminate|].
  constructor; [cbn; tauto|constructor].
Qed.

Lemma tamper_refused_fixed_statement known : tamper_refused_statement (ff_decide_fixed known).
Proof. intros b f adv; apply tamper_refused_fixed. Qed.

Lemma tamper_refused_refuted : ~ tamper_refused_statement ff_decide.
Proof.
  intros H. apply (H w_dup_block w_frame4 [1]).
  - repeat constructor; cbn; tauto.
  - intros s Hs _. cbn in Hs. destruct Hs as [<-|[<-|[<-|[]]]]; cbn; auto.
  - vm_compute. discriminate.
  - reflexivity.
Qed.

Lemma restore_before_check_refuted : exists ns l ns',
  node_ff ns l = (Some FFNotEnoughSigs, ns') /\ ns_core ns' = ns_core ns /\ ns_app ns' <> ns_app ns.
Proof.
  exists w_ns0, [None; Some w_tampered; None; None]. eexists.
  split; [vm_compute; reflexivity|split; [reflexivity|discriminate]].
Qed.

Lemma reject_noop_refuted : ~ reject_noop_statement node_ff.
Proof.
  intros H.
  assert (E : node_ff w_ns0 [None; Some w_tampered; None; None] =
              (Some FFNotEnoughSigs, mkNode w_core0 [7] false)) by (vm_compute; reflexivity).
  specialize (H _ _ _ _ E). assert (N : FFNotEnoughSigs <> FFOk) by discriminate.
  specialize (H N). discriminate.
Qed.

Lemma reset_failure_not_noop_refuted : exists st b f st',
  core_ff st b f = (FFResetError, st') /\ st' <> st.
Proof.
  exists w_core0, w_forged_block, w_forged_frame_bad. eexists.
  split; [vm_compute; reflexivity|discriminate].
Qed.

Lemma strangers_refused_fixed_statement : no_strangers_statement ff_decide_fixed.
Proof.
  intros known b f HS H. apply accept_fixed_known_signer in H as [s [Hin [Hv [_ Hk]]]].
  rewrite (HS s Hin Hv) in Hk; discriminate.
Qed.

Lemma no_strangers_refuted : ~ no_strangers_statement (fun _ => ff_decide).
Proof.
  intros H. apply (H w_known w_forged_block w_forged_frame).
  - intros s Hs _. cbn in Hs. destruct Hs as [<-|[]]. vm_compute. reflexivity.
  - vm_compute. reflexivity.
Qed.

(* the node-level form: a catching-up node configured with {0,1,2,3} whose peers answer honestly,
   except one that ships the forged response with a higher block index: the forged one is chosen,
   the application restored from its snapshot, the validator set replaced by {4} *)
Lemma stranger_adopted_node :
  exists ns',
  node_ff w_ns0 [Some (mkResp w_good_block w_frame4 0); Some w_forged; Some (mkResp w_good_block w_frame4 0)]
    = (Some FFOk, ns') /\
  cs_validators (ns_core ns') = [mkFPeer 4 0] /\ ns_app ns' = [2] /\
  (forall s, In s (fb_sigs w_forged_block) -> in_known w_known (se_bytes s) = false).
Proof.
  eexists. split; [vm_compute; reflexivity|split; [reflexivity|split; [reflexivity|]]].
  intros s Hs. cbn in Hs. destruct Hs as [<-|[]]. vm_compute. reflexivity.
Qed.

(* what the repaired rule does NOT stop (outside C14's quantifier: the signer is known) *)
Lemma fixed_insider_residual :
  ff_decide_fixed w_known w_insider_block w_insider_frame = FFOk /\
  fs_len (ff_peers w_insider_frame) = 1.
Proof. vm_compute. split; reflexivity. Qed.

Lemma check_ff_fixed_strangers known b f :
  (forall s, In s (fb_sigs b) -> se_verif s = 1 -> in_known known (se_bytes s) = false) ->
  check_ff_fixed known b f <> FFOk.
Proof.
  intros HS H. apply check_ff_fixed_ok in H as [HB _].
  apply check_block_fixed_ok in HB as [_ [_ HV]].
  pose proof (fs_tc_nonneg (ff_peers f)) as H0.
  destruct (fixed_signers_nonempty_member known (ff_peers f) (fb_sigs b)) as [s [Hs Hok]]; [lia|].
  apply signer_ok_inv in Hok as [_ [_ [Hk Hv]]]. rewrite (HS s Hs Hv) in Hk; discriminate.
Qed.

Lemma node_fixed_refuses_strangers known ns l x :
  best_response l = Some x ->
  (forall s, In s (fb_sigs (r_block x)) -> se_verif s = 1 -> in_known known (se_bytes s) = false) ->
  exists r, node_ff_fixed known ns l = (Some r, ns) /\ r <> FFOk.
Proof.
  intros HB HS. unfold node_ff_fixed. rewrite HB.
  pose proof (check_ff_fixed_strangers known (r_block x) (r_frame x) HS) as HN.
  destruct (check_ff_fixed_res known (r_block x) (r_frame x)) as [E|E]; [contradiction|].
  destruct E as [E|[E|[E|E]]]; rewrite E; eexists; (split; [reflexivity|discriminate]).
Qed.

(** * The switchable rule coincides with the two proved ones at its end points *)

Lemma existsb_ext_in {A} (p q : A -> bool) l :
  (forall x, In x l -> p x = q x) -> existsb p l = existsb q l.
Proof.
  induction l as [|x r IH]; intros H; simpl; [reflexivity|].
  rewrite (H x (or_introl eq_refl)), IH; [reflexivity|]. intros y Hy; apply H; right; auto.
Qed.

Lemma gen_current_check known b f : check_block_gen rule_current known b f = check_block b f.
Proof.
  unfold check_block_gen, check_block. cbn [rl_guard rule_current negb andb].
  destruct (negb (peers_hash_ok b f)); [reflexivity|].
  destruct (existsb se_short (fb_sigs b)) eqn:ES; [reflexivity|].
  pose proof (existsb_false_forall _ _ ES) as HS.
  assert (EP : existsb (panics_gen rule_current known (ff_peers f)) (fb_sigs b) =
               existsb (verify_panics (ff_peers f)) (fb_sigs b)).
  { apply existsb_ext_in. intros s Hs. unfold panics_gen, eligible_gen, verify_panics.
    rewrite (HS s Hs). cbn. rewrite andb_true_r. reflexivity. }
  rewrite EP. destruct (existsb (verify_panics (ff_peers f)) (fb_sigs b)); [reflexivity|].
  assert (EC : count_gen rule_current known (ff_peers f) (fb_sigs b) = valid_sigs (ff_peers f) (fb_sigs b)).
  { unfold count_gen, valid_sigs. cbn [rl_dedupe rule_current]. rewrite map_length. do 2 f_equal.
    apply filter_ext_in. intros s Hs. unfold signer_ok_gen, eligible_gen, counted.
    rewrite (HS s Hs). cbn. rewrite andb_true_r. reflexivity. }
  rewrite EC. reflexivity.
Qed.

Lemma gen_current_core known st b f : core_ff_gen rule_current known st b f = core_ff st b f.
Proof.
  unfold core_ff_gen, core_ff, check_ff_gen. rewrite gen_current_check.
  destruct (check_block b f); try reflexivity.
  destruct (fb_frame_hash b =? ff_hash f); reflexivity.
Qed.

Lemma gen_current_node known ns l : node_ff_gen rule_current known ns l = node_ff ns l.
Proof.
  unfold node_ff_gen, node_ff, restore_then_core. cbn [rl_check_first rule_current].
  destruct (best_response l) as [x|]; [|reflexivity].
  rewrite gen_current_core. reflexivity.
Qed.

Lemma gen_fixed_check known b f : check_block_gen rule_fixed known b f = check_block_fixed known b f.
Proof.
  unfold check_block_gen, check_block_fixed. cbn [rl_guard rule_fixed negb andb].
  destruct (negb (peers_hash_ok b f)); [reflexivity|].
  assert (EP : existsb (panics_gen rule_fixed known (ff_peers f)) (fb_sigs b) =
               existsb (verify_panics_fixed known (ff_peers f)) (fb_sigs b)).
  { apply existsb_ext_in. intros s _. reflexivity. }
  rewrite EP. destruct (existsb (verify_panics_fixed known (ff_peers f)) (fb_sigs b)); [reflexivity|].
  reflexivity.
Qed.

Lemma gen_fixed_check_ff known b f : check_ff_gen rule_fixed known b f = check_ff_fixed known b f.
Proof. unfold check_ff_gen, check_ff_fixed. rewrite gen_fixed_check. reflexivity. Qed.

Lemma gen_fixed_core known st b f : core_ff_gen rule_fixed known st b f = core_ff_fixed known st b f.
Proof. unfold core_ff_gen, core_ff_fixed. rewrite gen_fixed_check_ff. reflexivity. Qed.

Lemma gen_fixed_node known ns l : node_ff_gen rule_fixed known ns l = node_ff_fixed known ns l.
Proof.
  unfold node_ff_gen, node_ff_fixed, restore_then_core. cbn [rl_check_first rule_fixed].
  destruct (best_response l) as [x|]; [|reflexivity].
  rewrite gen_fixed_check_ff, gen_fixed_core. reflexivity.
Qed.

(* with any combination of repairs, a response refused by the checks leaves the core untouched *)
Lemma check_block_gen_res rl known b f :
  check_block_gen rl known b f = FFOk \/ check_block_gen rl known b f = FFWrongPeerSet \/
  check_block_gen rl known b f = FFPanicCheck \/ check_block_gen rl known b f = FFNotEnoughSigs.
Proof.
  unfold check_block_gen.
  destruct (negb (peers_hash_ok b f)); auto.
  destruct (negb (rl_guard rl) && existsb se_short (fb_sigs b)); auto.
  destruct (existsb (panics_gen rl known (ff_peers f)) (fb_sigs b)); auto.
  destruct (count_gen rl known (ff_peers f) (fb_sigs b) <=? fs_tc (ff_peers f)); auto.
Qed.

Lemma core_ff_gen_reject_noop rl known st b f r st' :
  core_ff_gen rl known st b f = (r, st') -> pre_reset r -> st' = st.
Proof.
  unfold core_ff_gen, check_ff_gen, pre_reset.
  destruct (check_block_gen_res rl known b f) as [E|[E|[E|E]]]; rewrite E;
    try (intros H _; inversion H; reflexivity).
  destruct (fb_frame_hash b =? ff_hash f); [|intros H _; inversion H; reflexivity].
  destruct (reset_result_cases f) as [[E1 _]|[E1|E1]]; rewrite E1;
    intros H [Hr|[Hr|[Hr|Hr]]]; inversion H; subst; discriminate.
Qed.

(** * Boolean form *)

Lemma is_ok_true r : is_ok r = true <-> r = FFOk.
Proof. destruct r; simpl; split; congruence. Qed.

Lemma accept_fixed_sound_bool known b f :
  accept_fixed known b f = true ->
  fb_frame_hash b = ff_hash f /\
  fb_peers_hash b = Some (peers_digest (ff_peers f)) /\
  3 * Z.of_nat (length (distinct_valid_signers (ff_peers f) (fb_sigs b))) > fs_len (ff_peers f).
Proof. unfold accept_fixed; intros H; apply is_ok_true in H; apply accept_fixed_sound in H; exact H. Qed.

Lemma accept_fixed_known_signer_bool known b f :
  accept_fixed known b f = true ->
  exists s, In s (fb_sigs b) /\ se_verif s = 1 /\ member (ff_peers f) (se_bytes s) = true /\
            in_known known (se_bytes s) = true.
Proof. unfold accept_fixed; intros H; apply is_ok_true in H; apply accept_fixed_known_signer in H; exact H. Qed.

(** * Tampering with the frame or with the declared validator set *)

(* a block adopted with frame f is adopted with no frame that hashes differently, nor with a frame
   whose validator set has another key list -- under either rule *)
Lemma frame_tamper_refused b f f' :
  ff_decide b f = FFOk ->
  ff_hash f' <> ff_hash f \/ peers_digest (ff_peers f') <> peers_digest (ff_peers f) ->
  ff_decide b f' <> FFOk.
Proof.
  intros H HD H'. apply ff_accept_checks in H as [HF [HP _]]. apply ff_accept_checks in H' as [HF' [HP' _]].
  destruct HD as [HD|HD]; [congruence|]. rewrite HP in HP'. inversion HP'. congruence.
Qed.

Lemma frame_tamper_refused_fixed known b f f' :
  ff_decide_fixed known b f = FFOk ->
  ff_hash f' <> ff_hash f \/ peers_digest (ff_peers f') <> peers_digest (ff_peers f) ->
  ff_decide_fixed known b f' <> FFOk.
Proof.
  intros H HD H'. apply accept_fixed_sound in H as [HF [HP _]]. apply accept_fixed_sound in H' as [HF' [HP' _]].
  destruct HD as [HD|HD]; [congruence|]. rewrite HP in HP'. inversion HP'. congruence.
Qed.

(** * Repaired rule: order independence, adopted state, exact acceptance condition *)

Lemma dedup_length_incl l l' : incl l l' -> (length (dedup l) <= length (dedup l'))%nat.
Proof.
  intros H. apply NoDup_incl_length; [apply dedup_NoDup|].
  intros x Hx. apply (proj2 (dedup_In x l')). apply H. exact (proj1 (dedup_In x l) Hx).
Qed.

Lemma dedup_length_perm l l' : Permutation l l' -> length (dedup l) = length (dedup l').
Proof.
  intros HP. apply Nat.le_antisymm; apply dedup_length_incl; intros x Hx.
  - eapply Permutation_in; eauto.
  - eapply Permutation_in; [apply Permutation_sym|]; eauto.
Qed.

Lemma ff_decide_fixed_perm known i rr ph fh s s' f :
  Permutation s s' ->
  ff_decide_fixed known (mkBlock i rr ph fh s) f = ff_decide_fixed known (mkBlock i rr ph fh s') f.
Proof.
  intros HP. unfold ff_decide_fixed, check_ff_fixed, check_block_fixed, peers_hash_ok, valid_signers_fixed.
  cbn [fb_sigs fb_peers_hash fb_frame_hash].
  rewrite (existsb_perm (verify_panics_fixed known (ff_peers f)) _ _ HP).
  rewrite (dedup_length_perm _ _ (Permutation_map se_bytes (filter_perm (signer_ok known (ff_peers f)) _ _ HP))).
  reflexivity.
Qed.

Lemma core_ff_fixed_accept_state known st b f st' :
  core_ff_fixed known st b f = (FFOk, st') ->
  st' = mkCore (HgReset b f) (new_validators f) (ff_peers f) (cs_rest st).
Proof.
  unfold core_ff_fixed.
  destruct (check_ff_fixed_res known b f) as [E|[E|[E|[E|E]]]]; rewrite E; try discriminate.
  destruct (reset_result_cases f) as [[E1 _]|[E1|E1]]; rewrite E1; intros H; inversion H; reflexivity.
Qed.

Lemma core_ff_fixed_rest known st b f : cs_rest (snd (core_ff_fixed known st b f)) = cs_rest st.
Proof.
  unfold core_ff_fixed. destruct (check_ff_fixed known b f); try reflexivity.
  destruct (reset_result f); reflexivity.
Qed.

(* exactly when the repaired rule adopts (on a response on which Block.Verify does not panic) *)
Lemma ff_decide_fixed_iff known b f :
  existsb (verify_panics_fixed known (ff_peers f)) (fb_sigs b) = false ->
  (ff_decide_fixed known b f = FFOk <->
   fb_peers_hash b = Some (peers_digest (ff_peers f)) /\
   fb_frame_hash b = ff_hash f /\
   ff_reset f = 1 /\
   fs_tc (ff_peers f) < Z.of_nat (length (valid_signers_fixed known (ff_peers f) (fb_sigs b)))).
Proof.
  intros HNP. split.
  - intros H. apply ff_decide_fixed_ok in H as [HC HR]. apply check_ff_fixed_ok in HC as [HB HF].
    apply check_block_fixed_ok in HB as [HP [_ HV]]. auto.
  - intros [HP [HF [HR HV]]].
    unfold ff_decide_fixed, check_ff_fixed, check_block_fixed, peers_hash_ok. rewrite HP, HNP.
    assert (E0 : zlist_eqb (peers_digest (ff_peers f)) (peers_digest (ff_peers f)) = true)
      by (apply zlist_eqb_eq; reflexivity).
    rewrite E0; cbn [negb].
    destruct (Z.of_nat (length (valid_signers_fixed known (ff_peers f) (fb_sigs b))) <=? fs_tc (ff_peers f)) eqn:E; [lia|].
    rewrite HF, Z.eqb_refl. unfold reset_result. rewrite HR. reflexivity.
Qed.

(* an honest response: digests consistent, Reset succeeds, every entry is a well-formed verifying
   signature of a distinct member of the frame's set *)
Definition honest_response (b : ffblock) (f : ffframe) : Prop :=
  fb_peers_hash b = Some (peers_digest (ff_peers f)) /\
  fb_frame_hash b = ff_hash f /\ ff_reset f = 1 /\
  NoDup (map se_bytes (fb_sigs b)) /\
  forall s, In s (fb_sigs b) -> se_short s = false /\ se_verif s = 1 /\ member (ff_peers f) (se_bytes s) = true.

Lemma filter_map_comm {A B} (g : A -> B) (p : B -> bool) l :
  map g (filter (fun x => p (g x)) l) = filter p (map g l).
Proof.
  induction l as [|x r IH]; simpl; [reflexivity|].
  destruct (p (g x)); simpl; rewrite IH; reflexivity.
Qed.

(* LIVENESS of the repaired rule, exactly: an honest response is adopted iff more than TrustCount of
   its signers belong to a set the node already knows *)
Lemma honest_accept_iff known b f :
  honest_response b f ->
  (ff_decide_fixed known b f = FFOk <->
   fs_tc (ff_peers f) < Z.of_nat (length (filter (in_known known) (map se_bytes (fb_sigs b))))).
Proof.
  intros [HP [HF [HR [ND HS]]]].
  assert (HNP : existsb (verify_panics_fixed known (ff_peers f)) (fb_sigs b) = false).
  { destruct (existsb (verify_panics_fixed known (ff_peers f)) (fb_sigs b)) eqn:E; [|reflexivity].
    apply existsb_exists in E as [s [Hs Hp]]. destruct (HS s Hs) as [_ [Hv _]].
    unfold verify_panics_fixed in Hp. rewrite Hv in Hp. rewrite andb_false_r in Hp. discriminate. }
  assert (EV : valid_signers_fixed known (ff_peers f) (fb_sigs b) =
               filter (in_known known) (map se_bytes (fb_sigs b))).
  { unfold valid_signers_fixed.
    assert (EF : filter (signer_ok known (ff_peers f)) (fb_sigs b) =
                 filter (fun s => in_known known (se_bytes s)) (fb_sigs b)).
    { apply filter_ext_in. intros s Hs. destruct (HS s Hs) as [Hsh [Hv Hm]].
      unfold signer_ok. rewrite Hsh, Hv, Hm. cbn. rewrite andb_true_r. reflexivity. }
    rewrite EF, (filter_map_comm se_bytes (in_known known)).
    apply dedup_id. apply NoDup_filter. exact ND. }
  rewrite (ff_decide_fixed_iff known b f HNP), EV. tauto.
Qed.

(* ... in particular it is adopted by a node that knows every signer *)
Lemma honest_accept_all_known known b f :
  honest_response b f ->
  (forall s, In s (fb_sigs b) -> in_known known (se_bytes s) = true) ->
  fs_tc (ff_peers f) < Z.of_nat (length (fb_sigs b)) ->
  ff_decide_fixed known b f = FFOk.
Proof.
  intros HH HK HL. apply (honest_accept_iff known b f HH).
  assert (E : filter (in_known known) (map se_bytes (fb_sigs b)) = map se_bytes (fb_sigs b)).
  { clear HL HH. induction (fb_sigs b) as [|s r IH]; simpl; [reflexivity|].
    rewrite (HK s (or_introl eq_refl)). f_equal. apply IH. intros x Hx; apply HK; right; auto. }
  rewrite E, map_length. exact HL.
Qed.

(* F4 on the repaired rule: the full no-op statement is still false when more than a third of the
   validators the node knows sign a frame that Reset cannot insert *)
Lemma reject_noop_fixed_refuted : ~ reject_noop_statement (node_ff_fixed w_known).
Proof.
  intros H.
  assert (E : node_ff_fixed w_known w_ns0 [None; Some w_byz] =
              (Some FFResetError, mkNode (mkCore (HgBroken w_byz_block w_byz_frame) w_set4 w_set4 0) [8] false))
    by (vm_compute; reflexivity).
  specialize (H _ _ _ _ E). assert (N : FFResetError <> FFOk) by discriminate.
  specialize (H N). discriminate.
Qed.

Lemma liveness_example :
  honest_response w_block5 w_frame5 /\
  ff_decide_fixed [[0; 1; 2; 3]] w_block5 w_frame5 = FFNotEnoughSigs /\
  ff_decide_fixed [[0; 1; 2; 3; 4]; [0; 1; 2; 3]] w_block5 w_frame5 = FFOk /\
  cs_validators (snd (core_ff_fixed [[0; 1; 2; 3; 4]] w_core0 w_block5 w_frame5)) = w_set5.
Proof.
  split; [|vm_compute; repeat split; reflexivity].
  unfold honest_response. split; [reflexivity|split; [reflexivity|split; [reflexivity|split]]].
  - cbn. constructor; [cbn; intros [H|[H|[]]]; discriminate|].
    constructor; [cbn; intros [H|[]]; discriminate|]. constructor; [cbn; tauto|constructor].
  - intros s Hs. cbn in Hs. destruct Hs as [<-|[<-|[<-|[]]]]; vm_compute; repeat split; reflexivity.
Qed.

Lemma distinct_signers_refuted_witness :
  NoDup (map se_key (fb_sigs w_dup_block)) /\ ff_decide w_dup_block w_frame4 = FFOk /\
  distinct_valid_signers (ff_peers w_frame4) (fb_sigs w_dup_block) = [1] /\ fs_len (ff_peers w_frame4) = 4.
Proof.
  split; [|vm_compute; repeat split].
  cbn. constructor; [cbn; intros [H|[H|[]]]; discriminate|].
  constructor; [cbn; intros [H|[]]; discriminate|].
  constructor; [cbn; tauto|constructor].
Qed.

(** * Sequences of fast-forward interactions: the decision has no memory *)

(* outcomes after which the node must be exactly as before: Restore failed after a successful check,
   or the response was refused by the checks *)
Definition quiet (r : nres) : Prop := r = NRestoreFailed \/ exists x, r = NRes x /\ pre_reset x.

Lemma quiet_not_adopted r : quiet r -> nres_adopted r = false.
Proof.
  intros [H|[x [H Hp]]]; subst; [reflexivity|].
  destruct Hp as [Hp|[Hp|[Hp|Hp]]]; subst; reflexivity.
Qed.

Lemma core_ff_fixed_after_check known st b f :
  check_ff_fixed known b f = FFOk ->
  fst (core_ff_fixed known st b f) = FFOk \/ fst (core_ff_fixed known st b f) = FFPanicReset \/
  fst (core_ff_fixed known st b f) = FFResetError.
Proof.
  intros E. unfold core_ff_fixed. rewrite E.
  destruct (reset_result_cases f) as [[E1 _]|[E1|E1]]; rewrite E1; simpl; auto.
Qed.

Lemma node_step_quiet_noop known ns l ok r ns' :
  node_step known ns l ok = (r, ns') -> quiet r -> ns' = ns.
Proof.
  unfold node_step, node_step_gen. cbn [rl_check_first rule_fixed].
  destruct (best_response l) as [x|].
  2:{ intros H [Hq|[y [Hq _]]]; inversion H; subst; discriminate. }
  rewrite gen_fixed_check_ff.
  destruct (check_ff_fixed_res known (r_block x) (r_frame x)) as [E|E].
  - rewrite E. destruct ok.
    + unfold restore_then_core. rewrite gen_fixed_core.
      pose proof (core_ff_fixed_after_check known (ns_core ns) (r_block x) (r_frame x) E) as HC.
      destruct (core_ff_fixed known (ns_core ns) (r_block x) (r_frame x)) as [res c]. simpl in HC.
      intros H Hq. destruct HC as [-> | [-> | ->]]; inversion H; subst;
        destruct Hq as [Hq|[y [Hq [Hp|[Hp|[Hp|Hp]]]]]]; try discriminate; inversion Hq; subst; discriminate.
    + intros H _. inversion H. reflexivity.
  - destruct E as [E|[E|[E|E]]]; rewrite E; intros H _; inversion H; reflexivity.
Qed.

(* a prefix of quiet outcomes leaves the node and what it knows exactly as they were, and the rest of
   the sequence runs as if the prefix had never happened *)
Lemma node_seq_quiet_prefix genesis known ns prefix : forall rest rs nsf kf,
  node_seq genesis known ns prefix = (rs, nsf, kf) ->
  Forall quiet rs ->
  nsf = ns /\ kf = known /\
  node_seq genesis known ns (prefix ++ rest) =
    (let '(rs', n', k') := node_seq genesis known ns rest in (rs ++ rs', n', k')).
Proof.
  induction prefix as [|s t IH]; intros rest rs nsf kf H HQ.
  - simpl in H. injection H as <- <- <-. simpl.
    destruct (node_seq genesis known ns rest) as [[a b] c]. auto.
  - simpl in H. simpl app. cbn [node_seq].
    destruct (node_step known ns (st_answers s) (st_restore_ok s)) as [r ns1] eqn:ES.
    destruct (node_seq genesis
                (if nres_adopted r then match best_response (st_answers s) with
                                        | Some x => known_after genesis (r_frame x) | None => known end
                 else known) ns1 t) as [[rs1 n1] k1] eqn:ET.
    injection H as <- <- <-. inversion HQ as [|? ? Hq HQ']; subst.
    pose proof (node_step_quiet_noop _ _ _ _ _ _ ES Hq) as ->.
    rewrite (quiet_not_adopted _ Hq) in *.
    destruct (IH rest _ _ _ ET HQ') as [-> [-> E]].
    split; [reflexivity|split; [reflexivity|]].
    rewrite E. destruct (node_seq genesis known ns rest) as [[a b] c]. reflexivity.
Qed.

(* in particular the call that follows answers exactly as it would on the untouched node *)
Lemma node_decision_independent_of_history genesis known ns prefix s rs nsf kf :
  node_seq genesis known ns prefix = (rs, nsf, kf) ->
  Forall quiet rs ->
  fst (fst (node_seq genesis known ns (prefix ++ [s]))) =
    rs ++ [fst (node_step known ns (st_answers s) (st_restore_ok s))] /\
  snd (fst (node_seq genesis known ns (prefix ++ [s]))) =
    snd (node_step known ns (st_answers s) (st_restore_ok s)).
Proof.
  intros H HQ. destruct (node_seq_quiet_prefix genesis known ns prefix [s] _ _ _ H HQ) as [_ [_ E]].
  rewrite E. cbn [node_seq].
  destruct (node_step known ns (st_answers s) (st_restore_ok s)) as [r ns1]. simpl. auto.
Qed.

(* core level: the list of decisions of a sequence is a function of the responses and of the initial
   known sets alone (not of the core state), and the known sets evolve by adoptions only *)
Fixpoint seq_decisions (genesis : list Z) (known : list (list Z)) (l : list (ffblock * ffframe))
  : list ffres * list (list Z) :=
  match l with
  | [] => ([], known)
  | (b, f) :: t =>
    let r := ff_decide_fixed known b f in
    let '(rs, kf) := seq_decisions genesis (if is_ok r then known_after genesis f else known) t in
    (r :: rs, kf)
  end.

Lemma core_seq_decisions genesis l : forall known st,
  fst (fst (core_seq genesis known st l)) = fst (seq_decisions genesis known l) /\
  snd (core_seq genesis known st l) = snd (seq_decisions genesis known l).
Proof.
  induction l as [|[b f] t IH]; intros known st; [simpl; auto|].
  cbn [core_seq seq_decisions].
  pose proof (core_ff_fixed_decision known st b f) as HD.
  destruct (core_ff_fixed known st b f) as [r st'] eqn:E. simpl in HD. subst r.
  specialize (IH (if is_ok (ff_decide_fixed known b f) then known_after genesis f else known) st').
  destruct (core_seq genesis (if is_ok (ff_decide_fixed known b f) then known_after genesis f else known) st' t)
    as [[rs stf] kf].
  destruct (seq_decisions genesis (if is_ok (ff_decide_fixed known b f) then known_after genesis f else known) t)
    as [rs' kf'].
  simpl in *. destruct IH as [-> ->]. auto.
Qed.

Lemma core_seq_state_blind genesis known st1 st2 l :
  fst (fst (core_seq genesis known st1 l)) = fst (fst (core_seq genesis known st2 l)) /\
  snd (core_seq genesis known st1 l) = snd (core_seq genesis known st2 l).
Proof.
  destruct (core_seq_decisions genesis l known st1) as [A B].
  destruct (core_seq_decisions genesis l known st2) as [C D]. rewrite A, B, C, D. auto.
Qed.

(* the genesis peers stay known whatever is adopted; so do the adopted frame's own validators *)
Lemma known_after_genesis genesis f v : mem_key v genesis = true -> in_known (known_after genesis f) v = true.
Proof.
  intros H. unfold in_known, known_after. cbn [existsb]. rewrite H. apply orb_true_r.
Qed.

Lemma known_after_peers genesis f v :
  mem_key v (peers_digest (ff_peers f)) = true -> in_known (known_after genesis f) v = true.
Proof. intros H. unfold in_known, known_after. cbn [existsb]. rewrite H. reflexivity. Qed.

(* with a succeeding Restore the one-call function is Node.fastForward of the earlier theorems *)
Lemma node_step_is_node_ff_fixed known ns l :
  node_step known ns l true =
    match node_ff_fixed known ns l with
    | (Some r, ns') => (NRes r, ns')
    | (None, ns') => (NNone, ns')
    end.
Proof.
  unfold node_step, node_step_gen, node_ff_fixed. cbn [rl_check_first rule_fixed].
  destruct (best_response l) as [x|]; [|reflexivity].
  rewrite gen_fixed_check_ff.
  destruct (check_ff_fixed known (r_block x) (r_frame x)) eqn:E; try reflexivity;
    unfold restore_then_core; rewrite gen_fixed_core;
    destruct (core_ff_fixed known (ns_core ns) (r_block x) (r_frame x)) as [res c];
    destruct res; reflexivity.
Qed.
