(* Stage S2a, insertion: what updateAncestorFirstDescendant does.  One downward walk along a
   creator's chain adds the entry (c -> (i, x)) exactly to the events from the starting point down
   to the first event that already has an entry for c or down to (and including) the first
   witness; nothing else in the state changes. *)
From Coq Require Import ZArith List Bool Lia ZifyBool.
From RecordUpdate Require Import RecordSet.
From V Require Import Model.ZMap Model.Quorum Model.Voting Model.HgImpl
  Proofs.ZMapFacts Proofs.HgFrames Proofs.HgDagFrames Proofs.AdmissionProofs Proofs.InsertShape
  Proofs.Ancestry Proofs.OrderFrames Proofs.Static Proofs.FirstDesc.
Import ListNotations RecordSetNotations.
Open Scope Z_scope.

Definition add_fd (c i x : Z) (eb : evst) : evst := eb <| ev_fd := ev_fd eb ++ [(c, (i, x))] |>.

Lemma add_fd_static c i x eb : ev_static (add_fd c i x eb) = ev_static eb.
Proof. destruct eb; reflexivity. Qed.
Lemma add_fd_e c i x eb : ev_e (add_fd c i x eb) = ev_e eb.
Proof. destruct eb; reflexivity. Qed.
Lemma add_fd_la c i x eb : ev_la (add_fd c i x eb) = ev_la eb.
Proof. destruct eb; reflexivity. Qed.
Lemma add_fd_round c i x eb : ev_round (add_fd c i x eb) = ev_round eb.
Proof. destruct eb; reflexivity. Qed.
Lemma add_fd_fd c i x eb : ev_fd (add_fd c i x eb) = ev_fd eb ++ [(c, (i, x))].
Proof. destruct eb; reflexivity. Qed.

Lemma aget_add_fd_same c i x eb : aget c (ev_fd eb) = None -> aget c (ev_fd (add_fd c i x eb)) = Some (i, x).
Proof. intros H. rewrite add_fd_fd, aget_app_none by exact H. cbn [aget]. rewrite Z.eqb_refl. reflexivity. Qed.
Lemma aget_add_fd_other c i x eb c' : c' <> c -> aget c' (ev_fd (add_fd c i x eb)) = aget c' (ev_fd eb).
Proof.
  intros H. rewrite add_fd_fd. destruct (aget c' (ev_fd eb)) as [v|] eqn:E.
  - apply aget_app_some. exact E.
  - rewrite aget_app_none by exact E. cbn [aget]. destruct (Z.eqb_spec c c'); [congruence|reflexivity].
Qed.
Lemma aget_add_fd_mono c i x eb c' v : aget c' (ev_fd eb) = Some v -> aget c' (ev_fd (add_fd c i x eb)) = Some v.
Proof. intros H. rewrite add_fd_fd. apply aget_app_some. exact H. Qed.

(** * fd-extension: only first-descendant entries for c are added, to events satisfying P *)
Record fdx (c i x : Z) (P : evst -> Prop) (s s' : hg) : Prop := {
  fx_rest : s' <| events := events s |> = s;
  fx_ev : forall b, get_event s' b = get_event s b \/
          exists eb, get_event s b = Some eb /\ aget c (ev_fd eb) = None /\
                     get_event s' b = Some (add_fd c i x eb) /\ P eb
}.

Lemma fdx_refl c i x P s : fdx c i x P s s.
Proof. constructor; [destruct s; reflexivity|intros b; left; reflexivity]. Qed.

Lemma fdx_trans c i x P a b d : fdx c i x P a b -> fdx c i x P b d -> fdx c i x P a d.
Proof.
  intros [R1 E1] [R2 E2]. constructor.
  - transitivity ((d <| events := events b |>) <| events := events a |>); [destruct d; reflexivity|].
    rewrite R2. exact R1.
  - intros y. destruct (E2 y) as [H2|[eb [H2 [N2 [S2 P2]]]]].
    + destruct (E1 y) as [H1|[eb [H1 [N1 [S1 P1]]]]]; [left; congruence|right].
      exists eb. rewrite H2. auto.
    + destruct (E1 y) as [H1|[eb0 [H1 [N1 [S1 P1]]]]].
      * right. exists eb. rewrite <- H1. auto.
      * exfalso. rewrite S1 in H2. inversion H2; subst eb.
        rewrite aget_add_fd_same in N2 by exact N1. discriminate.
Qed.

Lemma fdx_weaken c i x (P Q : evst -> Prop) s s' : (forall eb, P eb -> Q eb) -> fdx c i x P s s' -> fdx c i x Q s s'.
Proof.
  intros H [R E]. constructor; [exact R|]. intros b. destruct (E b) as [?|[eb [? [? [? ?]]]]]; [left; auto|right].
  exists eb. auto.
Qed.

Section FdxFacts.
  Variables (c i x : Z) (P : evst -> Prop) (s s' : hg).
  Hypothesis X : fdx c i x P s s'.

  Lemma fdx_round_memo : round_memo s' = round_memo s.
  Proof. pose proof (f_equal round_memo (fx_rest _ _ _ _ _ _ X)) as H. destruct s'; exact H. Qed.
  Lemma fdx_witness_memo : witness_memo s' = witness_memo s.
  Proof. pose proof (f_equal witness_memo (fx_rest _ _ _ _ _ _ X)) as H. destruct s'; exact H. Qed.
  Lemma fdx_rounds : rounds s' = rounds s.
  Proof. pose proof (f_equal rounds (fx_rest _ _ _ _ _ _ X)) as H. destruct s'; exact H. Qed.
  Lemma fdx_peersets : peersets s' = peersets s.
  Proof. pose proof (f_equal peersets (fx_rest _ _ _ _ _ _ X)) as H. destruct s'; exact H. Qed.
  Lemma fdx_topo : topo s' = topo s.
  Proof. pose proof (f_equal topo (fx_rest _ _ _ _ _ _ X)) as H. destruct s'; exact H. Qed.
  Lemma fdx_pevents : pevents s' = pevents s.
  Proof. pose proof (f_equal pevents (fx_rest _ _ _ _ _ _ X)) as H. destruct s'; exact H. Qed.
  Lemma fdx_failed : failed s' = failed s.
  Proof. pose proof (f_equal failed (fx_rest _ _ _ _ _ _ X)) as H. destruct s'; exact H. Qed.
  Lemma fdx_undetermined : undetermined s' = undetermined s.
  Proof. pose proof (f_equal undetermined (fx_rest _ _ _ _ _ _ X)) as H. destruct s'; exact H. Qed.

  Lemma fdx_rmemo y : rmemo s' y = rmemo s y.
  Proof. unfold rmemo. rewrite fdx_round_memo. reflexivity. Qed.
  Lemma fdx_wmemo y : wmemo s' y = wmemo s y.
  Proof. unfold wmemo. rewrite fdx_witness_memo. reflexivity. Qed.
  Lemma fdx_wit y : wit s' y = wit s y.
  Proof. unfold wit. rewrite fdx_wmemo. reflexivity. Qed.
  Lemma fdx_prnd p : prnd s' p = prnd s p.
  Proof. unfold prnd. rewrite fdx_rmemo. reflexivity. Qed.
  Lemma fdx_get_round r : get_round s' r = get_round s r.
  Proof. unfold get_round. rewrite fdx_rounds. reflexivity. Qed.
  Lemma fdx_wl r : wl s' r = wl s r.
  Proof. unfold wl. rewrite fdx_get_round. reflexivity. Qed.
  Lemma fdx_wits r : wits s' r = wits s r.
  Proof. unfold wits. rewrite fdx_wl. reflexivity. Qed.

  Lemma fdx_fwd b eb : get_event s b = Some eb ->
    exists eb', get_event s' b = Some eb' /\
      (eb' = eb \/ (aget c (ev_fd eb) = None /\ eb' = add_fd c i x eb /\ P eb)).
  Proof.
    intros H. destruct (fx_ev _ _ _ _ _ _ X b) as [E|[eb0 [H0 [N [S Pb]]]]].
    - exists eb. rewrite E. auto.
    - rewrite H in H0. inversion H0; subst eb0. exists (add_fd c i x eb). auto.
  Qed.
  Lemma fdx_bwd b eb' : get_event s' b = Some eb' ->
    exists eb, get_event s b = Some eb /\
      (eb' = eb \/ (aget c (ev_fd eb) = None /\ eb' = add_fd c i x eb /\ P eb)).
  Proof.
    intros H. destruct (fx_ev _ _ _ _ _ _ X b) as [E|[eb0 [H0 [N [S Pb]]]]].
    - exists eb'. rewrite <- E. auto.
    - rewrite H in S. inversion S; subst eb'. exists eb0. auto.
  Qed.

  Lemma fdx_fwd_e b eb : get_event s b = Some eb ->
    exists eb', get_event s' b = Some eb' /\ ev_e eb' = ev_e eb /\ ev_la eb' = ev_la eb /\ ev_round eb' = ev_round eb /\
                (forall c' v, aget c' (ev_fd eb) = Some v -> aget c' (ev_fd eb') = Some v).
  Proof.
    intros H. destruct (fdx_fwd b eb H) as [eb' [H' [->|[N [-> _]]]]].
    - exists eb. auto.
    - exists (add_fd c i x eb). rewrite add_fd_e, add_fd_la, add_fd_round.
      split; [exact H'|split; [reflexivity|split; [reflexivity|split; [reflexivity|]]]].
      intros c' v. apply aget_add_fd_mono.
  Qed.
  Lemma fdx_bwd_e b eb' : get_event s' b = Some eb' ->
    exists eb, get_event s b = Some eb /\ ev_e eb' = ev_e eb /\ ev_la eb' = ev_la eb /\ ev_round eb' = ev_round eb /\
               (forall c' v, aget c' (ev_fd eb') = Some v -> aget c' (ev_fd eb) = Some v \/ (c' = c /\ v = (i, x) /\ aget c (ev_fd eb) = None /\ P eb)).
  Proof.
    intros H. destruct (fdx_bwd b eb' H) as [eb [H0 [->|[N [-> Pb]]]]].
    - exists eb. auto 6.
    - exists eb. rewrite add_fd_e, add_fd_la, add_fd_round.
      split; [exact H0|split; [reflexivity|split; [reflexivity|split; [reflexivity|]]]].
      intros c' v Hv. destruct (Z.eq_dec c' c) as [->|Hne].
      + right. rewrite aget_add_fd_same in Hv by exact N. inversion Hv. auto.
      + left. rewrite aget_add_fd_other in Hv by exact Hne. exact Hv.
  Qed.

  Lemma fdx_dag_frame : dag_frame s s'.
  Proof.
    split; [|split; [rewrite fdx_pevents; apply pev_ext_refl|apply fdx_topo]].
    intros b. fold (get_event s' b). fold (get_event s b).
    destruct (fx_ev _ _ _ _ _ _ X b) as [E|[eb [H0 [N [S Pb]]]]]; [rewrite E; reflexivity|].
    rewrite S, H0. cbn [option_map]. rewrite add_fd_static. reflexivity.
  Qed.

  Lemma fdx_no_wit_between q lo hi : no_wit_between s q lo hi <-> no_wit_between s' q lo hi.
  Proof.
    split; intros H y ey Hy Hc Hi.
    - destruct (fdx_bwd_e y ey Hy) as [ey0 [Hy0 [Ee _]]]. rewrite fdx_wit. rewrite Ee in *. eapply H; eauto.
    - destruct (fdx_fwd_e y ey Hy) as [ey' [Hy' [Ee _]]]. rewrite <- fdx_wit. rewrite <- Ee in *. eapply H; eauto.
  Qed.
End FdxFacts.

(** * One walk *)

Lemma witness_f_memo_hit fuel st y w : wmemo st y = Some w -> witness_f fuel st y = (Some w, st).
Proof. unfold wmemo, witness_f. intros ->. reflexivity. Qed.

Lemma wmemo_set_evst st y es z : wmemo (set_evst st y es) z = wmemo st z.
Proof. destruct st; reflexivity. Qed.

(* the events that may receive the entry during the walk from creator q's event of index <= t *)
Definition PQ (s0 : hg) (q t : Z) (eb : evst) : Prop :=
  e_creator (ev_e eb) = q /\ e_index (ev_e eb) <= t /\ no_wit_between s0 q (e_index (ev_e eb)) t.

Lemma fdx_set_one c i x (P : evst -> Prop) st ah a :
  get_event st ah = Some a -> aget c (ev_fd a) = None -> P a ->
  fdx c i x P st (set_evst st ah (add_fd c i x a)).
Proof.
  intros Ha Hn Pa.
  assert (Hpos : 0 <= ah) by (eapply zget_some_nonneg; exact Ha).
  constructor; [unfold set_evst; destruct st; reflexivity|].
  intros b. rewrite get_event_set_evst.
  destruct (Z.eqb_spec ah b) as [<-|Hne]; cbn [andb]; [|left; reflexivity].
  replace (0 <=? ah) with true by lia. right. exists a. auto.
Qed.

Lemma fd_walk_spec c i x s0 q t : forall fuel st ah,
  dag_ok st ->
  fdx c i x (fun _ => True) s0 st ->
  (forall b eb, get_event st b = Some eb -> aget c (ev_fd eb) = None -> wmemo st b <> None) ->
  (forall ea, get_event st ah = Some ea ->
      e_creator (ev_e ea) = q /\ e_index (ev_e ea) <= t /\ no_wit_between s0 q (e_index (ev_e ea)) t /\
      (Z.to_nat (e_index (ev_e ea)) < fuel)%nat) ->
  fdx c i x (PQ s0 q t) st (fd_walk fuel st c i x ah) /\
  (forall ea, get_event st ah = Some ea ->
      exists ea' v, get_event (fd_walk fuel st c i x ah) ah = Some ea' /\ aget c (ev_fd ea') = Some v) /\
  (forall b eb, get_event st b = Some eb -> aget c (ev_fd eb) = None ->
      get_event (fd_walk fuel st c i x ah) b = Some (add_fd c i x eb) ->
      wit st b = false -> e_sp (ev_e eb) <> -1 ->
      exists es' v, get_event (fd_walk fuel st c i x ah) (e_sp (ev_e eb)) = Some es' /\ aget c (ev_fd es') = Some v).
Proof.
  induction fuel as [|f IH]; intros st ah OK X0 HM HA.
  - cbn [fd_walk]. split; [apply fdx_refl|]. split.
    + intros ea Ha. destruct (HA ea Ha) as [_ [_ [_ Hf]]]. lia.
    + intros b eb Hb Hn Hb'. rewrite Hb in Hb'. inversion Hb' as [E].
      exfalso. apply (f_equal (fun e => aget c (ev_fd e))) in E. rewrite aget_add_fd_same in E by exact Hn. congruence.
  - cbn [fd_walk]. destruct (get_event st ah) as [a|] eqn:Ha.
    2:{ split; [apply fdx_refl|]. split; [intros ea C; discriminate|].
        intros b eb Hb Hn Hb'. rewrite Hb in Hb'. inversion Hb' as [E].
        exfalso. apply (f_equal (fun e => aget c (ev_fd e))) in E. rewrite aget_add_fd_same in E by exact Hn. congruence. }
    destruct (aget c (ev_fd a)) as [v|] eqn:Hc.
    { split; [apply fdx_refl|]. split.
      - intros ea E. inversion E; subst ea. exists a, v. rewrite Ha. auto.
      - intros b eb Hb Hn Hb'. rewrite Hb in Hb'. inversion Hb' as [E].
        exfalso. apply (f_equal (fun e => aget c (ev_fd e))) in E. rewrite aget_add_fd_same in E by exact Hn. congruence. }
    destruct (HA a eq_refl) as [Hq [Ht [Hnw Hfuel]]].
    fold (add_fd c i x a).
    set (st1 := set_evst st ah (add_fd c i x a)).
    assert (X1 : fdx c i x (PQ s0 q t) st st1).
    { apply fdx_set_one; auto. split; auto. }
    assert (G1 : forall b, get_event st1 b = if ah =? b then Some (add_fd c i x a) else get_event st b).
    { intros b. unfold st1. rewrite get_event_set_evst.
      assert (0 <= ah) by (eapply zget_some_nonneg; exact Ha).
      replace (0 <=? ah) with true by lia. rewrite andb_true_r. reflexivity. }
    assert (Hah1 : get_event st1 ah = Some (add_fd c i x a)) by (rewrite G1, Z.eqb_refl; reflexivity).
    destruct (wmemo st ah) as [w|] eqn:Hw; [|exfalso; eapply HM; eauto].
    rewrite (witness_f_memo_hit _ st1 ah w) by (unfold st1; rewrite wmemo_set_evst; exact Hw).
    assert (Stop : fdx c i x (PQ s0 q t) st st1 /\
      (forall ea, Some a = Some ea -> exists ea' v, get_event st1 ah = Some ea' /\ aget c (ev_fd ea') = Some v) /\
      (wit st ah = true ->
       forall b eb, get_event st b = Some eb -> aget c (ev_fd eb) = None ->
        get_event st1 b = Some (add_fd c i x eb) -> wit st b = false -> e_sp (ev_e eb) <> -1 ->
        exists es' v, get_event st1 (e_sp (ev_e eb)) = Some es' /\ aget c (ev_fd es') = Some v)).
    { split; [exact X1|]. split.
      - intros ea _. exists (add_fd c i x a), (i, x). split; [exact Hah1|apply aget_add_fd_same; exact Hc].
      - intros Hwt b eb Hb Hn Hb' Hwb Hsp. exfalso. rewrite G1 in Hb'.
        destruct (Z.eqb_spec ah b) as [<-|Hne]; [congruence|].
        rewrite Hb in Hb'. inversion Hb' as [E].
        apply (f_equal (fun e => aget c (ev_fd e))) in E. rewrite aget_add_fd_same in E by exact Hn. congruence. }
    destruct w.
    { (* witness: stop *)
      destruct Stop as [S1 [S2 S3]]. split; [exact S1|]. split; [exact S2|].
      apply S3. unfold wit. rewrite Hw. reflexivity. }
    (* not a witness: continue with the self-parent *)
    assert (Hwf : wit st ah = false) by (unfold wit; rewrite Hw; reflexivity).
    assert (OK1 : dag_ok st1).
    { eapply dag_ok_frame; [exact OK|]. eapply dag_frame_set_evst; [exact Ha|apply add_fd_static]. }
    assert (X01 : fdx c i x (fun _ => True) s0 st1).
    { eapply fdx_trans; [exact X0|]. eapply fdx_weaken; [|exact X1]. auto. }
    assert (HM1 : forall b eb, get_event st1 b = Some eb -> aget c (ev_fd eb) = None -> wmemo st1 b <> None).
    { intros b eb Hb Hn. unfold st1. rewrite wmemo_set_evst. rewrite G1 in Hb.
      destruct (Z.eqb_spec ah b) as [<-|Hne].
      - inversion Hb; subst eb. rewrite aget_add_fd_same in Hn by exact Hc. discriminate.
      - eapply HM; eauto. }
    assert (HA1 : forall ea, get_event st1 (e_sp (ev_e a)) = Some ea ->
      e_creator (ev_e ea) = q /\ e_index (ev_e ea) <= t /\ no_wit_between s0 q (e_index (ev_e ea)) t /\
      (Z.to_nat (e_index (ev_e ea)) < f)%nat).
    { intros ea Hea.
      destruct (d_sp st OK _ _ Ha) as [[Hs _]|[ps [Hps [Hcp Hip]]]].
      { rewrite Hs in Hea. rewrite Ancestry.get_event_neg in Hea by lia. discriminate. }
      rewrite G1 in Hea. destruct (Z.eqb_spec ah (e_sp (ev_e a))) as [E|Hne].
      { exfalso. rewrite <- E in Hps. rewrite Ha in Hps. inversion Hps; subst ps. lia. }
      rewrite Hps in Hea. inversion Hea; subst ea.
      destruct (d_listed st OK _ _ Hps) as [_ [_ [Hge _]]].
      split; [congruence|]. split; [lia|]. split; [|lia].
      intros y ey Hy Hcy Hiy.
      destruct (Z.eq_dec (e_index (ev_e ey)) (e_index (ev_e a))) as [Eidx|Nidx].
      - destruct (fdx_fwd_e _ _ _ _ _ _ X0 y ey Hy) as [ey' [Hy' [Ee _]]].
        assert (y = ah).
        { eapply (dag_ok_no_fork st y ah ey' a OK Hy' Ha); rewrite Ee; congruence. }
        subst y. rewrite <- (fdx_wit _ _ _ _ _ _ X0). exact Hwf.
      - apply (Hnw y ey Hy Hcy). lia. }
    destruct (IH st1 (e_sp (ev_e a)) OK1 X01 HM1 HA1) as [R1 [R2 R3]].
    set (st' := fd_walk f st1 c i x (e_sp (ev_e a))) in *.
    split; [eapply fdx_trans; eauto|]. split.
    + intros ea E. inversion E; subst ea.
      destruct (fdx_fwd_e _ _ _ _ _ _ R1 ah _ Hah1) as [ea' [Hea' [_ [_ [_ Hmono]]]]].
      exists ea', (i, x). split; [exact Hea'|]. apply Hmono. apply aget_add_fd_same. exact Hc.
    + intros b eb Hb Hn Hb' Hwb Hsp.
      destruct (Z.eq_dec b ah) as [->|Hne].
      * rewrite Ha in Hb. inversion Hb; subst eb.
        destruct (d_sp st OK _ _ Ha) as [[Hs _]|[ps [Hps [Hcp Hip]]]]; [contradiction|].
        assert (Hps1 : get_event st1 (e_sp (ev_e a)) = Some ps).
        { rewrite G1. destruct (Z.eqb_spec ah (e_sp (ev_e a))) as [E|_]; [|exact Hps].
          exfalso. rewrite <- E in Hps. rewrite Ha in Hps. inversion Hps; subst ps. lia. }
        apply (R2 ps Hps1).
      * assert (Hb1 : get_event st1 b = Some eb).
        { rewrite G1. destruct (Z.eqb_spec ah b); [congruence|exact Hb]. }
        apply (R3 b eb Hb1 Hn Hb'); [|exact Hsp].
        rewrite (fdx_wit _ _ _ _ _ _ X1). exact Hwb.
Qed.

(** * All walks of one insertion *)

Lemma aget_In {A} k (l : list (Z * A)) v : aget k l = Some v -> In (k, v) l.
Proof.
  induction l as [|[k' v'] r IH]; cbn [aget]; [discriminate|].
  destruct (Z.eqb_spec k' k) as [->|Hne]; [intros H; inversion H; left; reflexivity|intros H; right; auto].
Qed.
Lemma ukeys_In_aget {A} k (l : list (Z * A)) v : ukeys l -> In (k, v) l -> aget k l = Some v.
Proof.
  unfold ukeys. induction l as [|[k' v'] r IH]; cbn [aget map fst]; intros U H; [destruct H|].
  inversion U as [|? ? Hn Ur]; subst. destruct H as [E|H].
  - inversion E; subst. rewrite Z.eqb_refl. reflexivity.
  - destruct (Z.eqb_spec k' k) as [->|Hne]; [|auto].
    exfalso. apply Hn. apply (in_map fst) in H. exact H.
Qed.

(* events that may receive the entry during the insertion of an event with last ancestors la *)
Definition PA (s0 : hg) (la : coords) (eb : evst) : Prop :=
  exists q t y, In (q, (t, y)) la /\ PQ s0 q t eb.

Section UpdateFd.
  Variables (s0 : hg) (e : event) (es : evst).
  Let c := e_creator e.
  Let i := e_index e.
  Let x := e_id e.
  Hypothesis OK0 : dag_ok s0.
  Hypothesis LA0 : la_ok s0.
  Hypothesis Hx : get_event s0 x = Some es.
  Hypothesis HM0 : forall b eb, get_event s0 b = Some eb -> aget c (ev_fd eb) = None -> wmemo s0 b <> None.
  Hypothesis Hfuel : forall b eb, get_event s0 b = Some eb -> 0 <= e_index (ev_e eb) < topo s0.

  Definition upd_inv (done : coords) (s : hg) : Prop :=
    dag_ok s /\ fdx c i x (PA s0 (ev_la es)) s0 s /\
    (forall q t y, In (q, (t, y)) done ->
       exists ey v, get_event s y = Some ey /\ aget c (ev_fd ey) = Some v) /\
    (forall b eb, get_event s0 b = Some eb -> aget c (ev_fd eb) = None ->
       get_event s b = Some (add_fd c i x eb) -> wit s0 b = false -> e_sp (ev_e eb) <> -1 ->
       exists es' v, get_event s (e_sp (ev_e eb)) = Some es' /\ aget c (ev_fd es') = Some v).

  Lemma upd_inv_step done s q t y :
    In (q, (t, y)) (ev_la es) -> upd_inv done s ->
    upd_inv (done ++ [(q, (t, y))]) (fd_walk (fuel_of s) s c i x y).
  Proof.
    intros Hin [OKs [Xs [Top Cl]]].
    assert (X0 : fdx c i x (fun _ => True) s0 s) by (eapply fdx_weaken; [|exact Xs]; auto).
    assert (HMs : forall b eb, get_event s b = Some eb -> aget c (ev_fd eb) = None -> wmemo s b <> None).
    { intros b eb Hb Hn. rewrite (fdx_wmemo _ _ _ _ _ _ Xs).
      destruct (fdx_bwd _ _ _ _ _ _ Xs b eb Hb) as [eb0 [Hb0 [->|[N [-> _]]]]].
      - eapply HM0; eauto.
      - rewrite aget_add_fd_same in Hn by exact N. discriminate. }
    assert (Hg : aget q (ev_la es) = Some (t, y)).
    { apply ukeys_In_aget; [apply (la_u s0 LA0 _ _ Hx)|exact Hin]. }
    destruct (la_s s0 LA0 _ _ _ _ _ Hx Hg) as [ey0 [Hy0 [Hcy [Hiy _]]]].
    assert (HAs : forall ea, get_event s y = Some ea ->
      e_creator (ev_e ea) = q /\ e_index (ev_e ea) <= t /\ no_wit_between s0 q (e_index (ev_e ea)) t /\
      (Z.to_nat (e_index (ev_e ea)) < fuel_of s)%nat).
    { intros ea Hea. destruct (fdx_bwd_e _ _ _ _ _ _ Xs y ea Hea) as [ea0 [Hea0 [Ee _]]].
      rewrite Hy0 in Hea0. inversion Hea0; subst ea0. rewrite Ee.
      split; [exact Hcy|]. split; [lia|]. split.
      - intros y' ey' _ _ Hr. lia.
      - unfold fuel_of. rewrite (fdx_topo _ _ _ _ _ _ Xs). pose proof (Hfuel _ _ Hy0). lia. }
    destruct (fd_walk_spec c i x s0 q t (fuel_of s) s y OKs X0 HMs HAs) as [R1 [R2 R3]].
    set (s' := fd_walk (fuel_of s) s c i x y) in *.
    assert (Xs' : fdx c i x (PA s0 (ev_la es)) s0 s').
    { eapply fdx_trans; [exact Xs|]. eapply fdx_weaken; [|exact R1].
      intros eb Hp. exists q, t, y. auto. }
    split; [eapply dag_ok_frame; [exact OKs|apply (fdx_dag_frame _ _ _ _ _ _ R1)]|].
    split; [exact Xs'|]. split.
    - intros q' t' y' Hin'. apply in_app_or in Hin'. destruct Hin' as [Hin'|[E|[]]].
      + destruct (Top q' t' y' Hin') as [ey [v [Hey Hv]]].
        destruct (fdx_fwd_e _ _ _ _ _ _ R1 y' ey Hey) as [ey' [Hey' [_ [_ [_ Hmono]]]]].
        exists ey', v. auto.
      + inversion E; subst q' t' y'.
        destruct (fdx_fwd_e _ _ _ _ _ _ Xs y ey0 Hy0) as [eys [Heys _]].
        apply (R2 eys Heys).
    - intros b eb Hb Hn Hb' Hwb Hsp.
      destruct (fdx_fwd _ _ _ _ _ _ Xs b eb Hb) as [ebs [Hbs [->|[_ [-> _]]]]].
      + (* changed by this walk *)
        apply (R3 b eb Hbs Hn Hb'); [|exact Hsp]. rewrite (fdx_wit _ _ _ _ _ _ Xs). exact Hwb.
      + (* changed earlier *)
        destruct (Cl b eb Hb Hn Hbs Hwb Hsp) as [es1 [v [Hes1 Hv]]].
        destruct (fdx_fwd_e _ _ _ _ _ _ R1 _ es1 Hes1) as [es2 [Hes2 [_ [_ [_ Hmono]]]]].
        exists es2, v. auto.
  Qed.

  Lemma upd_inv_fold l : forall done s,
    incl l (ev_la es) -> upd_inv done s ->
    upd_inv (done ++ l) (fold_left (fun s ce => fd_walk (fuel_of s) s c i x (snd (snd ce))) l s).
  Proof.
    induction l as [|[q [t y]] r IH]; intros done s Hl I; cbn [fold_left].
    - rewrite app_nil_r. exact I.
    - replace (done ++ (q, (t, y)) :: r) with ((done ++ [(q, (t, y))]) ++ r) by (rewrite <- app_assoc; reflexivity).
      apply IH; [intros z Hz; apply Hl; right; exact Hz|].
      cbn [snd]. apply upd_inv_step; [apply Hl; left; reflexivity|exact I].
  Qed.

  Lemma update_ancestor_fd_spec : upd_inv (ev_la es) (update_ancestor_fd s0 e (ev_la es)).
  Proof.
    unfold update_ancestor_fd. fold c i x.
    apply (upd_inv_fold (ev_la es) [] s0); [apply incl_refl|].
    split; [exact OK0|]. split; [apply fdx_refl|]. split; [intros q t y []|].
    intros b eb Hb Hn Hb'. rewrite Hb in Hb'. inversion Hb' as [E].
    exfalso. apply (f_equal (fun e0 => aget c (ev_fd e0))) in E. rewrite aget_add_fd_same in E by exact Hn. congruence.
  Qed.
End UpdateFd.
