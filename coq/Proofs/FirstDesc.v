(* Stage S2a: the invariant of the coordinates and of the division results.

   [cinv g E st] (static membership with genesis set g) says, for every stored event:
   - first descendants: own entry; every other entry (c -> (i, z)) names the creator-c event z of
     index i, a descendant of the event, such that no witness lies on the event's creator chain
     strictly above it up to z's last ancestor on that chain (the "walk stops at a witness" rule);
     entries are closed downwards along non-witness self-parent steps and every event is
     recorded in its last ancestors (these two give completeness);
   - memo tables: the memoised round satisfies the round equation READ IN THE CURRENT STATE (parents'
     memoised rounds, witnesses of the parent round currently in the round table, current
     coordinates), the memoised witness flag satisfies its equation, memoised events are exactly
     the events listed in the round tables;
   - E = Some x: x is the event just inserted, not yet divided (no memo, in no table);
     E = None: every stored event is memoised.
   Proved for every reachable state in per-event mode (hrun), as long as no pass failed. *)
From Coq Require Import ZArith List Bool Lia ZifyBool.
From RecordUpdate Require Import RecordSet.
From V Require Import Model.ZMap Model.Quorum Model.Voting Model.HgImpl
  Proofs.ZMapFacts Proofs.HgFrames Proofs.HgDagFrames Proofs.AdmissionProofs Proofs.InsertShape
  Proofs.Ancestry Proofs.HgBlockFrames Proofs.BlockInv Proofs.Static.
Import ListNotations RecordSetNotations.
Open Scope Z_scope.

(** * Observers *)

Definition rmemo (st : hg) (x : Z) : option Z := zget x (round_memo st).
Definition wmemo (st : hg) (x : Z) : option bool := zget x (witness_memo st).
Definition wit (st : hg) (y : Z) : bool := match wmemo st y with Some true => true | _ => false end.
(* memoised round of a parent reference; -1 for the empty parent *)
Definition prnd (st : hg) (p : Z) : option Z := if p =? -1 then Some (-1) else rmemo st p.

(* the (event, witness flag) listing of a round *)
Definition wl_of (ri : rinfo) : list (Z * bool) := map (fun en => (fst en, fst (snd en))) (ri_created ri).
Definition wl (st : hg) (r : Z) : list (Z * bool) :=
  match get_round st r with Some ri => wl_of ri | None => [] end.
Definition wits (st : hg) (r : Z) : list Z := map fst (filter snd (wl st r)).

Lemma witnesses_wl ri : witnesses ri = map fst (filter snd (wl_of ri)).
Proof.
  unfold witnesses, wl_of. induction (ri_created ri) as [|[x [w f]] l IH]; [reflexivity|].
  cbn [filter map fst snd]. destruct w; cbn [map fst]; rewrite IH; reflexivity.
Qed.

Lemma wits_get_round st r ri : get_round st r = Some ri -> wits st r = witnesses ri.
Proof. intros H. unfold wits, wl. rewrite H. symmetry. apply witnesses_wl. Qed.

Definition ss_true (g : peerset) (st : hg) (x w : Z) : bool :=
  match strongly_see st x w g with Some true => true | _ => false end.

Definition cntss (g : peerset) (st : hg) (x : Z) (ws : list Z) : Z :=
  Z.of_nat (length (filter (fun w => negb (w =? x) && ss_true g st x w) ws)).

(* the round equation, read in the current state *)
Definition req (g : peerset) (st : hg) (x : Z) (ex : evst) (r : Z) : Prop :=
  exists spr opr, prnd st (e_sp (ev_e ex)) = Some spr /\ prnd st (e_op (ev_e ex)) = Some opr /\
    (Z.max spr opr = -1 -> r = 0) /\
    (Z.max spr opr <> -1 ->
       get_round st (Z.max spr opr) <> None /\
       r = if super_majority g <=? cntss g st x (wits st (Z.max spr opr))
           then Z.max spr opr + 1 else Z.max spr opr).

Definition weq (g : peerset) (st : hg) (ex : evst) (r : Z) (w : bool) : Prop :=
  exists spr, prnd st (e_sp (ev_e ex)) = Some spr /\
    w = mem_key (e_creator (ev_e ex)) (keys g) && (spr <? r).

(* no witness on creator q's chain with index in (lo, hi] *)
Definition no_wit_between (st : hg) (q lo hi : Z) : Prop :=
  forall y ey, get_event st y = Some ey -> e_creator (ev_e ey) = q ->
    lo < e_index (ev_e ey) <= hi -> wit st y = false.

(* z's last ancestor on a's creator chain is at or above a, with no witness strictly above a *)
Definition cond (st : hg) (z a : Z) : Prop :=
  exists ez ea t y, get_event st z = Some ez /\ get_event st a = Some ea /\
    aget (e_creator (ev_e ea)) (ev_la ez) = Some (t, y) /\ e_index (ev_e ea) <= t /\
    no_wit_between st (e_creator (ev_e ea)) (e_index (ev_e ea)) t.

(** * The invariant *)

Record cinv (g : peerset) (E : option Z) (st : hg) : Prop := {
  c_static : static g st;
  c_topo0 : 0 <= topo st;
  c_fuel : forall x ex, get_event st x = Some ex -> e_index (ev_e ex) < topo st;
  c_rdom : forall x r, rmemo st x = Some r ->
           0 <= r /\ exists ex, get_event st x = Some ex /\ req g st x ex r;
  c_wdom : forall x w, wmemo st x = Some w ->
           exists ex r, get_event st x = Some ex /\ rmemo st x = Some r /\ weq g st ex r w;
  c_all : forall x ex, get_event st x = Some ex -> E <> Some x ->
          exists r w, rmemo st x = Some r /\ wmemo st x = Some w /\ ev_round ex = Some r;
  c_exc : forall x, E = Some x ->
          rmemo st x = None /\ wmemo st x = None /\
          exists ex, get_event st x = Some ex /\ ev_round ex = None /\
            (* its parents are divided *)
            prnd st (e_sp (ev_e ex)) <> None /\ prnd st (e_op (ev_e ex)) <> None /\
            (* nobody else knows x yet *)
            (forall z ez t y, get_event st z = Some ez -> z <> x ->
               aget (e_creator (ev_e ex)) (ev_la ez) = Some (t, y) -> t < e_index (ev_e ex));
  c_tab : forall r x w, In (x, w) (wl st r) -> rmemo st x = Some r /\ wmemo st x = Some w;
  c_tabc : forall x r w, rmemo st x = Some r -> wmemo st x = Some w -> In (x, w) (wl st r);
  c_tabu : forall r, NoDup (map fst (wl st r));
  c_tabne : forall r, get_round st r <> None -> wl st r <> [];
  c_own : forall a ea, get_event st a = Some ea ->
          aget (e_creator (ev_e ea)) (ev_fd ea) = Some (e_index (ev_e ea), a);
  c_sound : forall a ea c i z, get_event st a = Some ea -> aget c (ev_fd ea) = Some (i, z) ->
          c <> e_creator (ev_e ea) ->
          exists ez, get_event st z = Some ez /\ e_creator (ev_e ez) = c /\ e_index (ev_e ez) = i /\ cond st z a;
  c_closed : forall a ea c i z, get_event st a = Some ea -> aget c (ev_fd ea) = Some (i, z) ->
          wit st a = false -> e_sp (ev_e ea) <> -1 ->
          exists es i' z', get_event st (e_sp (ev_e ea)) = Some es /\
                           aget c (ev_fd es) = Some (i', z') /\ i' <= i;
  c_top : forall z ez q t y, get_event st z = Some ez -> aget q (ev_la ez) = Some (t, y) ->
          exists ey i z', get_event st y = Some ey /\
                          aget (e_creator (ev_e ez)) (ev_fd ey) = Some (i, z') /\ i <= e_index (ev_e ez)
}.

(** * States that agree on everything the invariant reads *)

Definition ev_c (es : evst) := (ev_e es, ev_la es, ev_fd es, ev_round es).

Record ckeep (s s' : hg) : Prop := {
  ck_ev : forall x, option_map ev_c (get_event s' x) = option_map ev_c (get_event s x);
  ck_rm : round_memo s' = round_memo s;
  ck_wm : witness_memo s' = witness_memo s;
  ck_wl : forall r, wl s' r = wl s r;
  ck_rd : forall r, get_round s' r = None <-> get_round s r = None;
  ck_ps : peersets s' = peersets s;
  ck_topo : topo s' = topo s
}.

Lemma ckeep_refl s : ckeep s s.
Proof. constructor; reflexivity. Qed.
Lemma ckeep_sym s s' : ckeep s s' -> ckeep s' s.
Proof. intros [A B C D E F G]. constructor; auto. intros r. symmetry. apply E. Qed.
Lemma ckeep_trans a b c : ckeep a b -> ckeep b c -> ckeep a c.
Proof.
  intros [A1 B1 C1 D1 E1 F1 G1] [A2 B2 C2 D2 E2 F2 G2]. constructor; try congruence.
  intros r. rewrite E2. apply E1.
Qed.

Lemma ckeep_fwd s s' x ex : ckeep s s' -> get_event s x = Some ex ->
  exists ex', get_event s' x = Some ex' /\ ev_e ex' = ev_e ex /\ ev_la ex' = ev_la ex /\
              ev_fd ex' = ev_fd ex /\ ev_round ex' = ev_round ex.
Proof.
  intros K H. pose proof (ck_ev _ _ K x) as E. rewrite H in E.
  destruct (get_event s' x) as [ex'|]; [|discriminate]. cbn in E. unfold ev_c in E. inversion E. eauto 6.
Qed.
Lemma ckeep_bwd s s' x ex' : ckeep s s' -> get_event s' x = Some ex' ->
  exists ex, get_event s x = Some ex /\ ev_e ex' = ev_e ex /\ ev_la ex' = ev_la ex /\
             ev_fd ex' = ev_fd ex /\ ev_round ex' = ev_round ex.
Proof.
  intros K H. destruct (ckeep_fwd _ _ _ _ (ckeep_sym _ _ K) H) as [ex [A [B [C [D E]]]]].
  exists ex. auto.
Qed.

Lemma ckeep_rmemo s s' x : ckeep s s' -> rmemo s' x = rmemo s x.
Proof. intros K. unfold rmemo. rewrite (ck_rm _ _ K). reflexivity. Qed.
Lemma ckeep_wmemo s s' x : ckeep s s' -> wmemo s' x = wmemo s x.
Proof. intros K. unfold wmemo. rewrite (ck_wm _ _ K). reflexivity. Qed.
Lemma ckeep_wit s s' x : ckeep s s' -> wit s' x = wit s x.
Proof. intros K. unfold wit. rewrite (ckeep_wmemo _ _ _ K). reflexivity. Qed.
Lemma ckeep_prnd s s' p : ckeep s s' -> prnd s' p = prnd s p.
Proof. intros K. unfold prnd. rewrite (ckeep_rmemo _ _ _ K). reflexivity. Qed.
Lemma ckeep_wits s s' r : ckeep s s' -> wits s' r = wits s r.
Proof. intros K. unfold wits. rewrite (ck_wl _ _ K). reflexivity. Qed.

Lemma ckeep_strongly_see g s s' x w : ckeep s s' -> strongly_see s' x w g = strongly_see s x w g.
Proof.
  intros K. unfold strongly_see.
  pose proof (ck_ev _ _ K x) as Ex. pose proof (ck_ev _ _ K w) as Ew.
  destruct (get_event s' x) as [ex'|], (get_event s x) as [ex|]; cbn in Ex; try discriminate; [|reflexivity].
  destruct (get_event s' w) as [ew'|], (get_event s w) as [ew|]; cbn in Ew; try discriminate; [|reflexivity].
  unfold ev_c in *. inversion Ex. inversion Ew. congruence.
Qed.
Lemma ckeep_ss_true g s s' x w : ckeep s s' -> ss_true g s' x w = ss_true g s x w.
Proof. intros K. unfold ss_true. rewrite (ckeep_strongly_see g _ _ x w K). reflexivity. Qed.
Lemma ckeep_cntss g s s' x ws : ckeep s s' -> cntss g s' x ws = cntss g s x ws.
Proof.
  intros K. unfold cntss. f_equal. f_equal. apply filter_ext. intros w.
  rewrite (ckeep_ss_true g _ _ x w K). reflexivity.
Qed.

Lemma ckeep_req g s s' x ex ex' r : ckeep s s' -> ev_e ex' = ev_e ex -> req g s x ex r -> req g s' x ex' r.
Proof.
  intros K Ee [spr [opr [H1 [H2 [H3 H4]]]]]. exists spr, opr. rewrite Ee, !(ckeep_prnd _ _ _ K).
  split; [exact H1|split; [exact H2|split; [exact H3|]]].
  intros Hn. destruct (H4 Hn) as [Hg Hr]. split.
  - intros C. apply Hg. apply (ck_rd _ _ K). exact C.
  - rewrite (ckeep_wits _ _ _ K), (ckeep_cntss g _ _ _ _ K). exact Hr.
Qed.
Lemma ckeep_weq g s s' ex ex' r w : ckeep s s' -> ev_e ex' = ev_e ex -> weq g s ex r w -> weq g s' ex' r w.
Proof.
  intros K Ee [spr [H1 H2]]. exists spr. rewrite Ee, (ckeep_prnd _ _ _ K). auto.
Qed.

Lemma ckeep_no_wit_between s s' q lo hi : ckeep s s' -> no_wit_between s q lo hi -> no_wit_between s' q lo hi.
Proof.
  intros K H y ey' Hy Hc Hi. destruct (ckeep_bwd _ _ _ _ K Hy) as [ey [Hy0 [Ee _]]].
  rewrite (ckeep_wit _ _ _ K). rewrite Ee in *. eapply H; eauto.
Qed.
Lemma ckeep_cond s s' z a : ckeep s s' -> cond s z a -> cond s' z a.
Proof.
  intros K [ez [ea [t [y [Hz [Ha [Hl [Hi Hn]]]]]]]].
  destruct (ckeep_fwd _ _ _ _ K Hz) as [ez' [Hz' [Ee [El _]]]].
  destruct (ckeep_fwd _ _ _ _ K Ha) as [ea' [Ha' [Ee' _]]].
  exists ez', ea', t, y. rewrite Ee', El. split; [auto|split; [auto|split; [auto|split; [auto|]]]].
  eapply ckeep_no_wit_between; eauto.
Qed.

Lemma cinv_ckeep g E s s' : cinv g E s -> ckeep s s' -> cinv g E s'.
Proof.
  intros I K. constructor.
  - unfold static. rewrite (ck_ps _ _ K). apply (c_static _ _ _ I).
  - rewrite (ck_topo _ _ K). apply (c_topo0 _ _ _ I).
  - intros x ex' Hx. destruct (ckeep_bwd _ _ _ _ K Hx) as [ex [Hx0 [Ee _]]].
    rewrite (ck_topo _ _ K), Ee. eapply (c_fuel _ _ _ I); eauto.
  - intros x r. rewrite (ckeep_rmemo _ _ _ K). intros Hr.
    destruct (c_rdom _ _ _ I x r Hr) as [H0 [ex [Hx Hq]]]. split; [exact H0|].
    destruct (ckeep_fwd _ _ _ _ K Hx) as [ex' [Hx' [Ee _]]]. exists ex'. split; [exact Hx'|].
    eapply ckeep_req; eauto.
  - intros x w. rewrite (ckeep_wmemo _ _ _ K). intros Hw.
    destruct (c_wdom _ _ _ I x w Hw) as [ex [r [Hx [Hr Hq]]]].
    destruct (ckeep_fwd _ _ _ _ K Hx) as [ex' [Hx' [Ee _]]]. exists ex', r.
    rewrite (ckeep_rmemo _ _ _ K). split; [exact Hx'|split; [exact Hr|]]. eapply ckeep_weq; eauto.
  - intros x ex' Hx HE. destruct (ckeep_bwd _ _ _ _ K Hx) as [ex [Hx0 [_ [_ [_ Er]]]]].
    rewrite (ckeep_rmemo _ _ _ K), (ckeep_wmemo _ _ _ K), Er. eapply (c_all _ _ _ I); eauto.
  - intros x HE. rewrite (ckeep_rmemo _ _ _ K), (ckeep_wmemo _ _ _ K).
    destruct (c_exc _ _ _ I x HE) as [A [B [ex [Hx [Hr [Hp1 [Hp2 Ht]]]]]]]. split; [exact A|split; [exact B|]].
    destruct (ckeep_fwd _ _ _ _ K Hx) as [ex' [Hx' [Ee [_ [_ Er]]]]]. exists ex'.
    split; [exact Hx'|split; [congruence|]].
    rewrite !(ckeep_prnd _ _ _ K), Ee. split; [exact Hp1|split; [exact Hp2|]].
    intros z ez' t y Hz Hne Hg. destruct (ckeep_bwd _ _ _ _ K Hz) as [ez [Hz0 [_ [El _]]]].
    rewrite El in Hg. eapply Ht; eauto.
  - intros r x w. rewrite (ck_wl _ _ K), (ckeep_rmemo _ _ _ K), (ckeep_wmemo _ _ _ K). apply (c_tab _ _ _ I).
  - intros x r w. rewrite (ck_wl _ _ K), (ckeep_rmemo _ _ _ K), (ckeep_wmemo _ _ _ K). apply (c_tabc _ _ _ I).
  - intros r. rewrite (ck_wl _ _ K). apply (c_tabu _ _ _ I).
  - intros r Hr. rewrite (ck_wl _ _ K). apply (c_tabne _ _ _ I). intros C. apply Hr. apply (ck_rd _ _ K). exact C.
  - intros a ea' Ha. destruct (ckeep_bwd _ _ _ _ K Ha) as [ea [Ha0 [Ee [_ [Ef _]]]]].
    rewrite Ee, Ef. eapply (c_own _ _ _ I); eauto.
  - intros a ea' c i z Ha Hg Hc. destruct (ckeep_bwd _ _ _ _ K Ha) as [ea [Ha0 [Ee [_ [Ef _]]]]].
    rewrite Ef in Hg. rewrite Ee in Hc.
    destruct (c_sound _ _ _ I a ea c i z Ha0 Hg Hc) as [ez [Hz [H1 [H2 H3]]]].
    destruct (ckeep_fwd _ _ _ _ K Hz) as [ez' [Hz' [Ee' _]]]. exists ez'. rewrite Ee'.
    split; [exact Hz'|split; [exact H1|split; [exact H2|]]]. eapply ckeep_cond; eauto.
  - intros a ea' c i z Ha Hg Hw Hs. destruct (ckeep_bwd _ _ _ _ K Ha) as [ea [Ha0 [Ee [_ [Ef _]]]]].
    rewrite Ef in Hg. rewrite Ee in *. rewrite (ckeep_wit _ _ _ K) in Hw.
    destruct (c_closed _ _ _ I a ea c i z Ha0 Hg Hw Hs) as [es [i' [z' [Hes [Hg' Hle]]]]].
    destruct (ckeep_fwd _ _ _ _ K Hes) as [es' [Hes' [_ [_ [Ef' _]]]]]. exists es', i', z'.
    rewrite Ef'. auto.
  - intros z ez' q t y Hz Hg. destruct (ckeep_bwd _ _ _ _ K Hz) as [ez [Hz0 [Ee [El _]]]].
    rewrite El in Hg. rewrite Ee.
    destruct (c_top _ _ _ I z ez q t y Hz0 Hg) as [ey [i [z' [Hy [Hg' Hle]]]]].
    destruct (ckeep_fwd _ _ _ _ K Hy) as [ey' [Hy' [_ [_ [Ef' _]]]]]. exists ey', i, z'.
    rewrite Ef'. auto.
Qed.

(** * Transport of the round equation between states that agree on what it reads *)
Lemma cntss_ext g s s' x ws :
  (forall w, In w ws -> w <> x -> ss_true g s' x w = ss_true g s x w) -> cntss g s' x ws = cntss g s x ws.
Proof.
  intros H. unfold cntss. f_equal. f_equal. apply filter_ext_in. intros w Hw.
  destruct (Z.eqb_spec w x) as [->|Hne]; cbn [negb andb]; [reflexivity|]. apply H; auto.
Qed.

Lemma req_ext g s s' x ex ex' r :
  ev_e ex' = ev_e ex -> (forall p, prnd s' p = prnd s p) ->
  (forall r0, get_round s' r0 = None <-> get_round s r0 = None) ->
  (forall r0, wits s' r0 = wits s r0) ->
  (forall pr w, In w (wits s pr) -> w <> x -> ss_true g s' x w = ss_true g s x w) ->
  req g s x ex r -> req g s' x ex' r.
Proof.
  intros Ee Hp Hr Hw Hs [spr [opr [H1 [H2 [H3 H4]]]]]. exists spr, opr. rewrite Ee, !Hp.
  split; [exact H1|split; [exact H2|split; [exact H3|]]].
  intros Hn. destruct (H4 Hn) as [Hg Hq]. split.
  - intros C. apply Hg. apply Hr. exact C.
  - rewrite Hw. rewrite (cntss_ext g s s' x _ (Hs _)). exact Hq.
Qed.

Lemma weq_ext g s s' ex ex' r w :
  ev_e ex' = ev_e ex -> (forall p, prnd s' p = prnd s p) -> weq g s ex r w -> weq g s' ex' r w.
Proof. intros Ee Hp [spr [H1 H2]]. exists spr. rewrite Ee, Hp. auto. Qed.
