(* Stage D2 (b): the invariant of the coordinates and of the division results WITHOUT static membership.
   GENERATED from FirstDesc.v by text substitution + hand edits.  [cinvD P E st]: as [cinv], but the round
   equation of an event whose parents' highest round is m uses the set P m (super-majority and strongly-see
   quorum of round m), the witness equation of an event of round r uses the set P r, and the invariant
   says nothing about the table itself.  P is meant to be "the set the FINAL table gives for the round"
   (Proofs/GapWindow.v: under the distance bound every lookup made during the run returns it).
   [ckeepD] = [ckeep] without the clause on the table. *)
From Coq Require Import ZArith List Bool Lia ZifyBool.
From RecordUpdate Require Import RecordSet.
From V Require Import Model.ZMap Model.Quorum Model.Voting Model.HgImpl
  Proofs.ZMapFacts Proofs.HgFrames Proofs.HgDagFrames Proofs.AdmissionProofs Proofs.InsertShape
  Proofs.Ancestry Proofs.HgBlockFrames Proofs.BlockInv Proofs.Static Proofs.FirstDesc.
Import ListNotations RecordSetNotations.
Open Scope Z_scope.

(* the round equation, read in the current state *)
Definition reqD (P : Z -> peerset) (st : hg) (x : Z) (ex : evst) (r : Z) : Prop :=
  exists spr opr, prnd st (e_sp (ev_e ex)) = Some spr /\ prnd st (e_op (ev_e ex)) = Some opr /\
    (Z.max spr opr = -1 -> r = 0) /\
    (Z.max spr opr <> -1 ->
       get_round st (Z.max spr opr) <> None /\
       r = if super_majority (P (Z.max spr opr)) <=? cntss (P (Z.max spr opr)) st x (wits st (Z.max spr opr))
           then Z.max spr opr + 1 else Z.max spr opr).

(** * The invariant *)

Record cinvD (P : Z -> peerset) (E : option Z) (st : hg) : Prop := {
  cd_topo0 : 0 <= topo st;
  cd_fuel : forall x ex, get_event st x = Some ex -> e_index (ev_e ex) < topo st;
  cd_rdom : forall x r, rmemo st x = Some r ->
           0 <= r /\ exists ex, get_event st x = Some ex /\ reqD P st x ex r;
  cd_wdom : forall x w, wmemo st x = Some w ->
           exists ex r, get_event st x = Some ex /\ rmemo st x = Some r /\ weq (P r) st ex r w;
  cd_all : forall x ex, get_event st x = Some ex -> E <> Some x ->
          exists r w, rmemo st x = Some r /\ wmemo st x = Some w /\ ev_round ex = Some r;
  cd_exc : forall x, E = Some x ->
          rmemo st x = None /\ wmemo st x = None /\
          exists ex, get_event st x = Some ex /\ ev_round ex = None /\
            (* its parents are divided *)
            prnd st (e_sp (ev_e ex)) <> None /\ prnd st (e_op (ev_e ex)) <> None /\
            (* nobody else knows x yet *)
            (forall z ez t y, get_event st z = Some ez -> z <> x ->
               aget (e_creator (ev_e ex)) (ev_la ez) = Some (t, y) -> t < e_index (ev_e ex));
  cd_tab : forall r x w, In (x, w) (wl st r) -> rmemo st x = Some r /\ wmemo st x = Some w;
  cd_tabc : forall x r w, rmemo st x = Some r -> wmemo st x = Some w -> In (x, w) (wl st r);
  cd_tabu : forall r, NoDup (map fst (wl st r));
  cd_tabne : forall r, get_round st r <> None -> wl st r <> [];
  cd_own : forall a ea, get_event st a = Some ea ->
          aget (e_creator (ev_e ea)) (ev_fd ea) = Some (e_index (ev_e ea), a);
  cd_sound : forall a ea c i z, get_event st a = Some ea -> aget c (ev_fd ea) = Some (i, z) ->
          c <> e_creator (ev_e ea) ->
          exists ez, get_event st z = Some ez /\ e_creator (ev_e ez) = c /\ e_index (ev_e ez) = i /\ cond st z a;
  cd_closed : forall a ea c i z, get_event st a = Some ea -> aget c (ev_fd ea) = Some (i, z) ->
          wit st a = false -> e_sp (ev_e ea) <> -1 ->
          exists es i' z', get_event st (e_sp (ev_e ea)) = Some es /\
                           aget c (ev_fd es) = Some (i', z') /\ i' <= i;
  cd_top : forall z ez q t y, get_event st z = Some ez -> aget q (ev_la ez) = Some (t, y) ->
          exists ey i z', get_event st y = Some ey /\
                          aget (e_creator (ev_e ez)) (ev_fd ey) = Some (i, z') /\ i <= e_index (ev_e ez)
}.

(** * States that agree on everything the invariant reads *)

Definition ev_c (es : evst) := (ev_e es, ev_la es, ev_fd es, ev_round es).

Record ckeepD (s s' : hg) : Prop := {
  kd_ev : forall x, option_map ev_c (get_event s' x) = option_map ev_c (get_event s x);
  kd_rm : round_memo s' = round_memo s;
  kd_wm : witness_memo s' = witness_memo s;
  kd_wl : forall r, wl s' r = wl s r;
  kd_rd : forall r, get_round s' r = None <-> get_round s r = None;
  kd_topo : topo s' = topo s
}.

Lemma ckeepD_refl s : ckeepD s s.
Proof. constructor; reflexivity. Qed.
Lemma ckeepD_sym s s' : ckeepD s s' -> ckeepD s' s.
Proof. intros [A B C D E G]. constructor; auto. intros r. symmetry. apply E. Qed.
Lemma ckeepD_trans a b c : ckeepD a b -> ckeepD b c -> ckeepD a c.
Proof.
  intros [A1 B1 C1 D1 E1 G1] [A2 B2 C2 D2 E2 G2]. constructor; try congruence.
  intros r. rewrite E2. apply E1.
Qed.

Lemma ckeepD_fwd s s' x ex : ckeepD s s' -> get_event s x = Some ex ->
  exists ex', get_event s' x = Some ex' /\ ev_e ex' = ev_e ex /\ ev_la ex' = ev_la ex /\
              ev_fd ex' = ev_fd ex /\ ev_round ex' = ev_round ex.
Proof.
  intros K H. pose proof (kd_ev _ _ K x) as E. rewrite H in E.
  destruct (get_event s' x) as [ex'|]; [|discriminate]. cbn in E. unfold ev_c in E. inversion E. eauto 6.
Qed.
Lemma ckeepD_bwd s s' x ex' : ckeepD s s' -> get_event s' x = Some ex' ->
  exists ex, get_event s x = Some ex /\ ev_e ex' = ev_e ex /\ ev_la ex' = ev_la ex /\
             ev_fd ex' = ev_fd ex /\ ev_round ex' = ev_round ex.
Proof.
  intros K H. destruct (ckeepD_fwd _ _ _ _ (ckeepD_sym _ _ K) H) as [ex [A [B [C [D E]]]]].
  exists ex. auto.
Qed.

Lemma ckeepD_rmemo s s' x : ckeepD s s' -> rmemo s' x = rmemo s x.
Proof. intros K. unfold rmemo. rewrite (kd_rm _ _ K). reflexivity. Qed.
Lemma ckeepD_wmemo s s' x : ckeepD s s' -> wmemo s' x = wmemo s x.
Proof. intros K. unfold wmemo. rewrite (kd_wm _ _ K). reflexivity. Qed.
Lemma ckeepD_wit s s' x : ckeepD s s' -> wit s' x = wit s x.
Proof. intros K. unfold wit. rewrite (ckeepD_wmemo _ _ _ K). reflexivity. Qed.
Lemma ckeepD_prnd s s' p : ckeepD s s' -> prnd s' p = prnd s p.
Proof. intros K. unfold prnd. rewrite (ckeepD_rmemo _ _ _ K). reflexivity. Qed.
Lemma ckeepD_wits s s' r : ckeepD s s' -> wits s' r = wits s r.
Proof. intros K. unfold wits. rewrite (kd_wl _ _ K). reflexivity. Qed.

Lemma ckeepD_strongly_see g s s' x w : ckeepD s s' -> strongly_see s' x w g = strongly_see s x w g.
Proof.
  intros K. unfold strongly_see.
  pose proof (kd_ev _ _ K x) as Ex. pose proof (kd_ev _ _ K w) as Ew.
  destruct (get_event s' x) as [ex'|], (get_event s x) as [ex|]; cbn in Ex; try discriminate; [|reflexivity].
  destruct (get_event s' w) as [ew'|], (get_event s w) as [ew|]; cbn in Ew; try discriminate; [|reflexivity].
  unfold ev_c in *. inversion Ex. inversion Ew. congruence.
Qed.
Lemma ckeepD_ss_true g s s' x w : ckeepD s s' -> ss_true g s' x w = ss_true g s x w.
Proof. intros K. unfold ss_true. rewrite (ckeepD_strongly_see g _ _ x w K). reflexivity. Qed.
Lemma ckeepD_cntss g s s' x ws : ckeepD s s' -> cntss g s' x ws = cntss g s x ws.
Proof.
  intros K. unfold cntss. f_equal. f_equal. apply filter_ext. intros w.
  rewrite (ckeepD_ss_true g _ _ x w K). reflexivity.
Qed.

Lemma ckeepD_reqD P s s' x ex ex' r : ckeepD s s' -> ev_e ex' = ev_e ex -> reqD P s x ex r -> reqD P s' x ex' r.
Proof.
  intros K Ee [spr [opr [H1 [H2 [H3 H4]]]]]. exists spr, opr. rewrite Ee, !(ckeepD_prnd _ _ _ K).
  split; [exact H1|split; [exact H2|split; [exact H3|]]].
  intros Hn. destruct (H4 Hn) as [Hg Hr]. split.
  - intros C. apply Hg. apply (kd_rd _ _ K). exact C.
  - rewrite (ckeepD_wits _ _ _ K), (ckeepD_cntss _ _ _ _ _ K). exact Hr.
Qed.
Lemma ckeepD_weq g s s' ex ex' r w : ckeepD s s' -> ev_e ex' = ev_e ex -> weq g s ex r w -> weq g s' ex' r w.
Proof.
  intros K Ee [spr [H1 H2]]. exists spr. rewrite Ee, (ckeepD_prnd _ _ _ K). auto.
Qed.

Lemma ckeepD_no_wit_between s s' q lo hi : ckeepD s s' -> no_wit_between s q lo hi -> no_wit_between s' q lo hi.
Proof.
  intros K H y ey' Hy Hc Hi. destruct (ckeepD_bwd _ _ _ _ K Hy) as [ey [Hy0 [Ee _]]].
  rewrite (ckeepD_wit _ _ _ K). rewrite Ee in *. eapply H; eauto.
Qed.
Lemma ckeepD_cond s s' z a : ckeepD s s' -> cond s z a -> cond s' z a.
Proof.
  intros K [ez [ea [t [y [Hz [Ha [Hl [Hi Hn]]]]]]]].
  destruct (ckeepD_fwd _ _ _ _ K Hz) as [ez' [Hz' [Ee [El _]]]].
  destruct (ckeepD_fwd _ _ _ _ K Ha) as [ea' [Ha' [Ee' _]]].
  exists ez', ea', t, y. rewrite Ee', El. split; [auto|split; [auto|split; [auto|split; [auto|]]]].
  eapply ckeepD_no_wit_between; eauto.
Qed.

Lemma cinvD_ckeepD P E s s' : cinvD P E s -> ckeepD s s' -> cinvD P E s'.
Proof.
  intros I K. constructor.
  - rewrite (kd_topo _ _ K). apply (cd_topo0 _ _ _ I).
  - intros x ex' Hx. destruct (ckeepD_bwd _ _ _ _ K Hx) as [ex [Hx0 [Ee _]]].
    rewrite (kd_topo _ _ K), Ee. eapply (cd_fuel _ _ _ I); eauto.
  - intros x r. rewrite (ckeepD_rmemo _ _ _ K). intros Hr.
    destruct (cd_rdom _ _ _ I x r Hr) as [H0 [ex [Hx Hq]]]. split; [exact H0|].
    destruct (ckeepD_fwd _ _ _ _ K Hx) as [ex' [Hx' [Ee _]]]. exists ex'. split; [exact Hx'|].
    eapply ckeepD_reqD; eauto.
  - intros x w. rewrite (ckeepD_wmemo _ _ _ K). intros Hw.
    destruct (cd_wdom _ _ _ I x w Hw) as [ex [r [Hx [Hr Hq]]]].
    destruct (ckeepD_fwd _ _ _ _ K Hx) as [ex' [Hx' [Ee _]]]. exists ex', r.
    rewrite (ckeepD_rmemo _ _ _ K). split; [exact Hx'|split; [exact Hr|]]. eapply ckeepD_weq; eauto.
  - intros x ex' Hx HE. destruct (ckeepD_bwd _ _ _ _ K Hx) as [ex [Hx0 [_ [_ [_ Er]]]]].
    rewrite (ckeepD_rmemo _ _ _ K), (ckeepD_wmemo _ _ _ K), Er. eapply (cd_all _ _ _ I); eauto.
  - intros x HE. rewrite (ckeepD_rmemo _ _ _ K), (ckeepD_wmemo _ _ _ K).
    destruct (cd_exc _ _ _ I x HE) as [A [B [ex [Hx [Hr [Hp1 [Hp2 Ht]]]]]]]. split; [exact A|split; [exact B|]].
    destruct (ckeepD_fwd _ _ _ _ K Hx) as [ex' [Hx' [Ee [_ [_ Er]]]]]. exists ex'.
    split; [exact Hx'|split; [congruence|]].
    rewrite !(ckeepD_prnd _ _ _ K), Ee. split; [exact Hp1|split; [exact Hp2|]].
    intros z ez' t y Hz Hne Hg. destruct (ckeepD_bwd _ _ _ _ K Hz) as [ez [Hz0 [_ [El _]]]].
    rewrite El in Hg. eapply Ht; eauto.
  - intros r x w. rewrite (kd_wl _ _ K), (ckeepD_rmemo _ _ _ K), (ckeepD_wmemo _ _ _ K). apply (cd_tab _ _ _ I).
  - intros x r w. rewrite (kd_wl _ _ K), (ckeepD_rmemo _ _ _ K), (ckeepD_wmemo _ _ _ K). apply (cd_tabc _ _ _ I).
  - intros r. rewrite (kd_wl _ _ K). apply (cd_tabu _ _ _ I).
  - intros r Hr. rewrite (kd_wl _ _ K). apply (cd_tabne _ _ _ I). intros C. apply Hr. apply (kd_rd _ _ K). exact C.
  - intros a ea' Ha. destruct (ckeepD_bwd _ _ _ _ K Ha) as [ea [Ha0 [Ee [_ [Ef _]]]]].
    rewrite Ee, Ef. eapply (cd_own _ _ _ I); eauto.
  - intros a ea' c i z Ha Hg Hc. destruct (ckeepD_bwd _ _ _ _ K Ha) as [ea [Ha0 [Ee [_ [Ef _]]]]].
    rewrite Ef in Hg. rewrite Ee in Hc.
    destruct (cd_sound _ _ _ I a ea c i z Ha0 Hg Hc) as [ez [Hz [H1 [H2 H3]]]].
    destruct (ckeepD_fwd _ _ _ _ K Hz) as [ez' [Hz' [Ee' _]]]. exists ez'. rewrite Ee'.
    split; [exact Hz'|split; [exact H1|split; [exact H2|]]]. eapply ckeepD_cond; eauto.
  - intros a ea' c i z Ha Hg Hw Hs. destruct (ckeepD_bwd _ _ _ _ K Ha) as [ea [Ha0 [Ee [_ [Ef _]]]]].
    rewrite Ef in Hg. rewrite Ee in *. rewrite (ckeepD_wit _ _ _ K) in Hw.
    destruct (cd_closed _ _ _ I a ea c i z Ha0 Hg Hw Hs) as [es [i' [z' [Hes [Hg' Hle]]]]].
    destruct (ckeepD_fwd _ _ _ _ K Hes) as [es' [Hes' [_ [_ [Ef' _]]]]]. exists es', i', z'.
    rewrite Ef'. auto.
  - intros z ez' q t y Hz Hg. destruct (ckeepD_bwd _ _ _ _ K Hz) as [ez [Hz0 [Ee [El _]]]].
    rewrite El in Hg. rewrite Ee.
    destruct (cd_top _ _ _ I z ez q t y Hz0 Hg) as [ey [i [z' [Hy [Hg' Hle]]]]].
    destruct (ckeepD_fwd _ _ _ _ K Hy) as [ey' [Hy' [_ [_ [Ef' _]]]]]. exists ey', i, z'.
    rewrite Ef'. auto.
Qed.

(** * Transport of the round equation between states that agree on what it reads *)

Lemma reqD_ext P s s' x ex ex' r :
  ev_e ex' = ev_e ex -> (forall p, prnd s' p = prnd s p) ->
  (forall r0, get_round s' r0 = None <-> get_round s r0 = None) ->
  (forall r0, wits s' r0 = wits s r0) ->
  (forall g pr w, In w (wits s pr) -> w <> x -> ss_true g s' x w = ss_true g s x w) ->
  reqD P s x ex r -> reqD P s' x ex' r.
Proof.
  intros Ee Hp Hr Hw Hs [spr [opr [H1 [H2 [H3 H4]]]]]. exists spr, opr. rewrite Ee, !Hp.
  split; [exact H1|split; [exact H2|split; [exact H3|]]].
  intros Hn. destruct (H4 Hn) as [Hg Hq]. split.
  - intros C. apply Hg. apply Hr. exact C.
  - rewrite Hw. rewrite (cntss_ext _ s s' x _ (Hs _ _)). exact Hq.
Qed.


(* every footprint lemma about [ckeep] gives [ckeepD] *)
Lemma ckeep_ckeepD s s' : ckeep s s' -> ckeepD s s'.
Proof. intros [A B C D E F G]. constructor; assumption. Qed.

(* the static invariant is the instance P = constant *)
Lemma cinv_cinvD g E st : cinv g E st -> cinvD (fun _ => g) E st.
Proof. intros I. constructor; apply I. Qed.
