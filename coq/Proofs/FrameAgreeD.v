(* Dynamic membership: two nodes that respect the distance bound (same genesis set) build the same FRAME for every
   round whose block both have delivered: the delivered blocks agree in every field.  Adapted from Proofs/BlockAgree.v. *)
From Coq Require Import ZArith List Bool Lia ZifyBool Permutation Sorted.
From RecordUpdate Require Import RecordSet.
From V Require Import Proofs.MedianProofs Proofs.TidyC18.
From V Require Import Model.ZMap Model.Quorum Model.Voting Model.VotingRef Model.Median Model.HgImpl Model.PeerSetSpec Model.Window
  Proofs.ZMapFacts Proofs.QuorumProofs Proofs.HgFrames Proofs.HgDagFrames Proofs.AdmissionProofs Proofs.InsertShape Proofs.Ancestry
  Proofs.HgBlockFrames Proofs.BlockInv Proofs.RoundOrder Proofs.OrderSort Proofs.OrderFrames Proofs.OrderProofs
  Proofs.VotingProofs Proofs.FameBridge Proofs.Static Proofs.FirstDesc Proofs.FdWalk Proofs.DivInv Proofs.CInvRun
  Proofs.Height Proofs.StronglySee Proofs.RoundFun Proofs.ViewOk Proofs.SameHistory Proofs.Agreement Proofs.NoFail
  Proofs.LrFrames Proofs.LceFrames Proofs.FameInv Proofs.LateWitness Proofs.FamousSet Proofs.DecidedFlag Proofs.RoundReceived
  Proofs.UndFrames Proofs.Undetermined Proofs.Committed Proofs.FsvFrames Proofs.FrameFn Proofs.FrameInv
  Proofs.PeerSetProofs Proofs.LrMono Proofs.WindowStable Proofs.GapWindow
  Proofs.FirstDescD Proofs.InsertInvD Proofs.DivInvD Proofs.CInvRunD Proofs.StronglySeeD Proofs.RoundFunD Proofs.RoundAgreeD
  Proofs.ViewOkD Proofs.SameHistoryD Proofs.AgreementD Proofs.FameInvD Proofs.LateWitnessD Proofs.FamousSetD Proofs.DecidedFlagD
  Proofs.RoundReceivedD Proofs.UndeterminedD Proofs.CommittedD Proofs.OrderIndepD Proofs.FsvD Proofs.BlockAgree Proofs.BlockAgreeD Proofs.BlockPeersD
  Proofs.FrameD.
Import ListNotations RecordSetNotations.
Open Scope Z_scope.

(* the last-consensus-event function reads the EVENTS of the frames below n only *)
Lemma lce_fn_ext_ev cre cre' frs frs' n :
  (forall R, 0 <= R < Z.of_nat n -> option_map f_events (zget R frs) = option_map f_events (zget R frs')) ->
  (forall R f fe, 0 <= R < Z.of_nat n -> zget R frs = Some f -> In fe (f_events f) -> cre (fe_id fe) = cre' (fe_id fe)) ->
  lce_fn cre frs n = lce_fn cre' frs' n.
Proof.
  induction n as [|n IH]; intros H1 H2; [reflexivity|]. rewrite !lce_fn_S.
  rewrite IH; [|intros R HR; apply H1; lia|intros R f fe HR; apply H2; lia].
  unfold lce_step. pose proof (H1 (Z.of_nat n) ltac:(lia)) as E1.
  destruct (zget (Z.of_nat n) frs) as [f|] eqn:E; destruct (zget (Z.of_nat n) frs') as [f'|] eqn:E'; cbn [option_map] in E1; try discriminate; [|reflexivity].
  unfold lce_add. injection E1 as Ev. rewrite <- Ev.
  assert (G : forall l acc, (forall fe, In fe l -> cre (fe_id fe) = cre' (fe_id fe)) ->
     fold_left (fun a fe => aset (cre (fe_id fe)) (fe_id fe) a) l acc =
     fold_left (fun a fe => aset (cre' (fe_id fe)) (fe_id fe) a) l acc).
  { induction l as [|fe l IHl]; intros acc Hl; cbn [fold_left]; [reflexivity|].
    rewrite (Hl fe (or_introl eq_refl)). apply IHl. intros fe' Hfe'. apply Hl. right. exact Hfe'. }
  apply G. intros fe Hfe. apply (H2 (Z.of_nat n) f fe); [lia|exact E|exact Hfe].
Qed.

Section PairF.
  Variables (all : list event) (s1 s2 : Z) (g1 g2 : peerset) (o1 o2 : list Z) (ops1 ops2 : list hop).
  Hypothesis ID : ids_determine all.
  Hypothesis SK : sigkeys_determine all.
  Hypothesis FF : fork_free all.
  Hypothesis S1 : s1 <> -1.
  Hypothesis S2 : s2 <> -1.
  Hypothesis H1 : Forall (hop_ok all) ops1.
  Hypothesis H2 : Forall (hop_ok all) ops2.
  Hypothesis B1 : gap_runb (init_hg s1 g1 o1) ops1 = true.
  Hypothesis B2 : gap_runb (init_hg s2 g2 o2) ops2 = true.
  Let st1 := hrun (init_hg s1 g1 o1) ops1.
  Let st2 := hrun (init_hg s2 g2 o2) ops2.
  Hypothesis F1 : failed st1 = false.
  Hypothesis F2 : failed st2 = false.
  Hypothesis T : tables_agree st1 st2.

  Lemma pairF_ready : exists P, freadyD P st1 /\ freadyD P st2.
  Proof.
    destruct (pair_common all s1 s2 g1 g2 o1 o2 ops1 ops2 ID S1 S2 H1 H2 B1 B2 F1 F2 T) as [P [G1 [G2 _]]].
    fold st1 in G1. fold st2 in G2.
    pose proof (hrun_ginv all s1 g1 o1 ops1 ID H1) as Gi1. pose proof (hrun_ginv all s2 g2 o2 ops2 ID H2) as Gi2.
    fold st1 in Gi1. fold st2 in Gi2.
    exists P. split; constructor.
    - apply (gD_dag _ _ G1).
    - apply (gD_c _ _ G1).
    - intros x ex Hx. destruct (ev_lt ex) as [t|] eqn:Et; [|exfalso; apply (gi_all _ _ Gi1 F1 x ex Hx Et)].
      rewrite (l_ev _ (g_l _ _ (gi_core _ _ Gi1)) x ex t Hx Et). discriminate.
    - apply (gD_dag _ _ G2).
    - apply (gD_c _ _ G2).
    - intros x ex Hx. destruct (ev_lt ex) as [t|] eqn:Et; [|exfalso; apply (gi_all _ _ Gi2 F2 x ex Hx Et)].
      rewrite (l_ev _ (g_l _ _ (gi_core _ _ Gi2)) x ex t Hx Et). discriminate.
  Qed.

  (* the attributes of a frame event are the memoised round and witness flag and the Lamport timestamp *)
  Lemma cfe_attrsD P all0 st x fe : freadyD P st -> ginv all0 st -> failed st = false -> create_frame_event st x = Some fe ->
    fe_id fe = x /\ zget x (round_memo st) = Some (fe_round fe) /\ zget x (witness_memo st) = Some (fe_wit fe) /\
    exists ex, get_event st x = Some ex /\ ev_lt ex = Some (fe_lt fe).
  Proof.
    intros [_ I _] Gi Hf. unfold create_frame_event.
    destruct (get_event st x) as [ex|] eqn:Hx; [|discriminate].
    destruct (zget x (round_memo st)) as [r|] eqn:Hr; [|discriminate].
    destruct (get_round st r) as [ri|] eqn:Hri; [|discriminate].
    destruct (aget x (ri_created ri)) as [[w t0]|] eqn:Ha; [|discriminate].
    destruct (zget x (lt_memo st)) as [t|] eqn:Ht; [|discriminate].
    intros H; inversion H; subst; clear H. cbn [fe_id fe_round fe_wit fe_lt].
    split; [reflexivity|]. split; [reflexivity|]. split.
    - assert (Hin : In (x, w) (wl st r)).
      { unfold wl. rewrite Hri. unfold wl_of. apply in_map_iff. exists (x, (w, t0)). split; [reflexivity|].
        apply FdWalk.aget_In. exact Ha. }
      destruct (cd_tab _ _ _ I r x w Hin) as [_ Hw]. exact Hw.
    - exists ex. split; [reflexivity|].
      destruct (ev_lt ex) as [t'|] eqn:Et; [|exfalso; apply (gi_all _ _ Gi Hf x ex Hx Et)].
      pose proof (l_ev _ (g_l _ _ (gi_core _ _ Gi)) x ex t' Hx Et) as Hm. congruence.
  Qed.

  Lemma cfe_crossD x fa fb : create_frame_event st1 x = Some fa -> create_frame_event st2 x = Some fb -> fa = fb.
  Proof.
    intros Ha Hb. destruct pairF_ready as [P [Fr1 Fr2]].
    pose proof (hrun_ginv all s1 g1 o1 ops1 ID H1) as Gi1. pose proof (hrun_ginv all s2 g2 o2 ops2 ID H2) as Gi2.
    destruct (cfe_attrsD P all st1 x fa Fr1 Gi1 F1 Ha) as [A1 [A2 [A3 [ea [A4 A5]]]]].
    destruct (cfe_attrsD P all st2 x fb Fr2 Gi2 F2 Hb) as [E1 [E2 [E3 [eb [E4 E5]]]]].
    destruct (gap_round_agree all s1 s2 g1 g2 o1 o2 ops1 ops2 ID S1 S2 H1 H2 B1 B2 F1 F2 T x ea eb A4 E4) as [_ [_ [Er Ew]]].
    destruct (lamport_agree_any all s1 s2 g1 g2 o1 o2 ops1 ops2 x ea eb ID H1 H2 F1 F2 A4 E4) as [El _].
    fold st1 st2 in Er, Ew.
    destruct fa as [i1 r1 t1 w1], fb as [i2 r2 t2 w2]. cbn in *. f_equal; congruence.
  Qed.

  Lemma fe_of_crossD x : get_event st1 x <> None -> get_event st2 x <> None -> fe_of st1 x = fe_of st2 x.
  Proof.
    intros Ha Hb. unfold fe_of. destruct pairF_ready as [P [Fr1 Fr2]].
    pose proof (create_frame_event_someD P st1 x Fr1 Ha) as Sa.
    pose proof (create_frame_event_someD P st2 x Fr2 Hb) as Sb.
    destruct (create_frame_event st1 x) as [fa|] eqn:Ea; [|contradiction].
    destruct (create_frame_event st2 x) as [fb|] eqn:Eb; [|contradiction].
    apply (cfe_crossD x fa fb Ea Eb).
  Qed.

  Lemma sp_of_crossD x ea eb : get_event st1 x = Some ea -> get_event st2 x = Some eb ->
    sp_of st1 x = sp_of st2 x /\ creator_of st1 x = creator_of st2 x /\
    (sp_of st1 x = -1 \/ (get_event st1 (sp_of st1 x) <> None /\ get_event st2 (sp_of st1 x) <> None)).
  Proof.
    intros Ha Hb. pose proof (same_bodies_runs all s1 s2 g1 g2 o1 o2 ops1 ops2 ID H1 H2 x ea eb Ha Hb) as E.
    unfold sp_of, creator_of. rewrite Ha, Hb, E. repeat split; try reflexivity.
    pose proof (g_dag _ _ (gi_core _ _ (hrun_ginv all s1 g1 o1 ops1 ID H1))) as OKa.
    pose proof (g_dag _ _ (gi_core _ _ (hrun_ginv all s2 g2 o2 ops2 ID H2))) as OKb.
    destruct (d_sp _ OKb x eb Hb) as [[Hs _]|[ps [Hps _]]]; [left; exact Hs|right].
    destruct (d_sp _ OKa x ea Ha) as [[Hs _]|[pa [Hpa _]]].
    - rewrite E in Hs. rewrite Hs in Hps. apply stored_nonneg in Hps. lia.
    - rewrite E in Hpa. fold st1 in Hpa. fold st2 in Hps. rewrite Hpa, Hps. split; discriminate.
  Qed.

  Lemma sp_chain_crossD : forall n h, get_event st1 h <> None -> get_event st2 h <> None ->
    sp_chain st1 h n = sp_chain st2 h n /\
    forall x, In x (sp_chain st1 h n) -> get_event st1 x <> None /\ get_event st2 x <> None.
  Proof.
    induction n as [|n IH]; intros h Ha Hb; cbn [sp_chain]; [split; [reflexivity|intros x []]|].
    destruct (get_event st1 h) as [ea|] eqn:Ea; [|contradiction]. destruct (get_event st2 h) as [eb|] eqn:Eb; [|contradiction].
    destruct (sp_of_crossD h ea eb Ea Eb) as [Es [_ Hs]]. rewrite <- Es.
    destruct (Z.eqb_spec (sp_of st1 h) (-1)) as [E|E]; [split; [reflexivity|intros x []]|].
    destruct Hs as [?|[Sa Sb]]; [contradiction|].
    destruct (IH (sp_of st1 h) Sa Sb) as [Ec Hc]. rewrite Ec. split; [reflexivity|].
    intros x [<-|Hx]; [auto|]. rewrite <- Ec in Hx. apply Hc. exact Hx.
  Qed.

  Lemma root_fn_crossD h : (h = -1 \/ (get_event st1 h <> None /\ get_event st2 h <> None)) -> root_fn st1 h = root_fn st2 h.
  Proof.
    intros Hh. unfold root_fn. destruct (Z.eqb_spec h (-1)) as [E|E]; [reflexivity|].
    destruct Hh as [?|[Ha Hb]]; [contradiction|].
    destruct (sp_chain_crossD ROOT_DEPTH h Ha Hb) as [Ec Hc]. rewrite <- Ec. f_equal.
    apply map_ext_in. intros x [<-|Hx]; [apply fe_of_crossD; assumption|].
    destruct (Hc x Hx) as [A B]. apply fe_of_crossD; assumption.
  Qed.

  (* frame equations in the two states => the same events and the same roots *)
  Lemma FE_agreeD R fa fb :
    zget R (frames st1) = Some fa -> zget R (frames st2) = Some fb -> FED st1 R fa -> FED st2 R fb ->
    f_peersets fa = f_peersets fb ->
    (forall R', 0 <= R' < R -> zget R' (frames st1) <> None /\ zget R' (frames st2) <> None) ->
    f_events fa = f_events fb /\ f_roots fa = f_roots fb.
  Proof.
    intros Hza Hzb [Ea Ra] [Eb Rb] Ept Hlow.
    pose proof (hrun_ginv all s1 g1 o1 ops1 ID H1) as Gi1. pose proof (hrun_ginv all s2 g2 o2 ops2 ID H2) as Gi2.
    fold st1 in Gi1. fold st2 in Gi2.
    rewrite Forall_forall in Ea, Eb.
    pose proof (zget_some_nonneg _ _ _ Hza) as HR0.
    (* frames of a round cached in both list the same events *)
    assert (Evs : forall R' f1 f2, zget R' (frames st1) = Some f1 -> zget R' (frames st2) = Some f2 ->
              (forall fe, In fe (f_events f1) -> create_frame_event st1 (fe_id fe) = Some fe) ->
              (forall fe, In fe (f_events f2) -> create_frame_event st2 (fe_id fe) = Some fe) ->
              f_events f1 = f_events f2).
    { intros R' f1 f2 Hz1 Hz2 E1 E2.
      pose proof (frames_kl_agree all s1 s2 g1 g2 o1 o2 ops1 ops2 R' f1 f2 ID SK FF S1 S2 H1 H2 B1 B2 F1 F2 T Hz1 Hz2) as K.
      unfold kl in K. revert K E1 E2. generalize (f_events f1) (f_events f2).
      induction l as [|a l IH]; intros l2 K E1 E2; destruct l2 as [|b l2]; cbn [map] in K; try discriminate; [reflexivity|].
      injection K as Kid _ Kr.
      pose proof (E1 a (or_introl eq_refl)) as Ca. pose proof (E2 b (or_introl eq_refl)) as Cb. rewrite <- Kid in Cb.
      rewrite (cfe_crossD (fe_id a) a b Ca Cb). f_equal. apply IH; [exact Kr| |]; intros fe Hfe; [apply E1|apply E2]; right; exact Hfe. }
    assert (Eev : f_events fa = f_events fb) by (apply (Evs R fa fb Hza Hzb Ea Eb)).
    split; [exact Eev|].
    assert (Hstored : forall R' f fe, zget R' (frames st1) = Some f -> In fe (f_events f) -> exists ea, get_event st1 (fe_id fe) = Some ea).
    { intros R' f fe Hz Hfe. destruct (gi_f _ _ Gi1 R' f Hz) as [_ [_ [_ [_ [St _]]]]]. apply St. exact Hfe. }
    assert (Hstored2 : forall R' f fe, zget R' (frames st2) = Some f -> In fe (f_events f) -> exists eb, get_event st2 (fe_id fe) = Some eb).
    { intros R' f fe Hz Hfe. destruct (gi_f _ _ Gi2 R' f Hz) as [_ [_ [_ [_ [St _]]]]]. apply St. exact Hfe. }
    (* the cached frames of the lower rounds: each prefix state's own, equal events *)
    assert (Low : forall R', 0 <= R' < R -> exists f1 f2, zget R' (frames st1) = Some f1 /\ zget R' (frames st2) = Some f2 /\ kl f1 = kl f2).
    { intros R' HR'. destruct (Hlow R' HR') as [A B].
      destruct (zget R' (frames st1)) as [f1|] eqn:Z1; [|contradiction]. destruct (zget R' (frames st2)) as [f2|] eqn:Z2; [|contradiction].
      exists f1, f2. split; [reflexivity|]. split; [reflexivity|].
      apply (frames_kl_agree all s1 s2 g1 g2 o1 o2 ops1 ops2 R' f1 f2 ID SK FF S1 S2 H1 H2 B1 B2 F1 F2 T Z1 Z2). }
    rewrite Ra, Rb, <- Eev, <- Ept.
    (* the last consensus events *)
    assert (Elce : lce_fn (creator_of st1) (frames st1) (Z.to_nat R) = lce_fn (creator_of st2) (frames st2) (Z.to_nat R)).
    { (* lce_fn reads creator and id of the frame events only: compare through kl *)
      assert (G : forall n, (Z.of_nat n <= R) -> lce_fn (creator_of st1) (frames st1) n = lce_fn (creator_of st2) (frames st2) n).
      { induction n as [|n IHn]; intros Hn; [reflexivity|]. rewrite !lce_fn_S, IHn by lia. unfold lce_step.
        destruct (Low (Z.of_nat n) ltac:(lia)) as [f1 [f2 [Z1 [Z2 K]]]]. rewrite Z1, Z2. unfold lce_add.
        assert (Hs1 : forall fe, In fe (f_events f1) -> exists ea, get_event st1 (fe_id fe) = Some ea) by (intros fe; apply (Hstored _ f1 fe Z1)).
        assert (Hs2 : forall fe, In fe (f_events f2) -> exists eb, get_event st2 (fe_id fe) = Some eb) by (intros fe; apply (Hstored2 _ f2 fe Z2)).
        unfold kl in K. revert K Hs1 Hs2. generalize (lce_fn (creator_of st2) (frames st2) n) as acc.
        generalize (f_events f1) (f_events f2).
        induction l as [|a l IH]; intros l2 acc K Hs1 Hs2; destruct l2 as [|b l2]; cbn [map] in K; try discriminate; [reflexivity|].
        injection K as Kid _ Kr. cbn [fold_left].
        destruct (Hs1 a (or_introl eq_refl)) as [ea Hea]. destruct (Hs2 b (or_introl eq_refl)) as [eb Heb]. rewrite <- Kid in Heb.
        destruct (sp_of_crossD (fe_id a) ea eb Hea Heb) as [_ [Ec _]]. rewrite <- Kid, Ec.
        apply IH; [exact Kr| |]; intros fe Hfe; [apply Hs1|apply Hs2]; right; exact Hfe. }
      apply G. lia. }
    unfold roots_fn.
    rewrite (roots1_fn_ext (creator_of st1) (creator_of st2) (sp_of st1) (sp_of st2) (fun _ h => root_fn st1 h) (fun _ h => root_fn st2 h)).
    2:{ intros fe Hfe. destruct (Hstored R fa fe Hza Hfe) as [ea A1].
        assert (Hfe2 : In fe (f_events fb)) by (rewrite <- Eev; exact Hfe). destruct (Hstored2 R fb fe Hzb Hfe2) as [eb A2].
        destruct (sp_of_crossD (fe_id fe) ea eb A1 A2) as [K1 [K2 K3]].
        split; [exact K2|]. rewrite <- K1. apply root_fn_crossD. exact K3. }
    apply roots2_fn_ext. intros p _. rewrite <- Elce.
    apply root_fn_crossD.
    unfold lce_head. destruct (aget (pkey p) (lce_fn (creator_of st1) (frames st1) (Z.to_nat R))) as [h|] eqn:Eh; [right|left; reflexivity].
    destruct (lce_fn_creator _ _ _ _ _ Eh) as [_ [R0 [f0 [HR0' [Hz0 Hin0]]]]].
    rewrite Z2Nat.id in HR0' by exact HR0.
    apply in_map_iff in Hin0. destruct Hin0 as [fe [Efe Hfe]].
    destruct (Hstored R0 f0 fe Hz0 Hfe) as [ea Hea].
    destruct (Low R0 HR0') as [f1 [f2 [Z1 [Z2 K]]]]. rewrite Hz0 in Z1. inversion Z1; subst f1.
    assert (Hin2 : In (fe_id fe) (map fe_id (f_events f2))).
    { assert (Hk : In (fe_id fe, fe_lt fe) (kl f0)) by (unfold kl; apply in_map_iff; exists fe; auto).
      rewrite K in Hk. unfold kl in Hk. apply in_map_iff in Hk. destruct Hk as [fe2 [Eq Hfe2]]. injection Eq as Eid _.
      apply in_map_iff. exists fe2. auto. }
    apply in_map_iff in Hin2. destruct Hin2 as [fe2 [Eid2 Hfe2]].
    destruct (Hstored2 R0 f2 fe2 Z2 Hfe2) as [eb Heb]. rewrite Eid2, Efe in Heb. rewrite Efe in Hea.
    rewrite Hea, Heb. split; discriminate.
  Qed.
End PairF.

(** * where a cached frame comes from: a prefix of the run, which is itself a run that respects the distance bound *)
Lemma frame_origin all s g o ops R f :
  s <> -1 -> ids_determine all -> Forall (hop_ok all) ops -> gap_runb (init_hg s g o) ops = true ->
  failed (hrun (init_hg s g o) ops) = false -> zget R (frames (hrun (init_hg s g o) ops)) = Some f ->
  exists j, Forall (hop_ok all) (firstn j ops) /\ gap_runb (init_hg s g o) (firstn j ops) = true /\
    failed (hrun (init_hg s g o) (firstn j ops)) = false /\
    FED (hrun (init_hg s g o) (firstn j ops)) R f /\ zget R (frames (hrun (init_hg s g o) (firstn j ops))) = Some f /\
    (forall R', 0 <= R' < R -> zget R' (frames (hrun (init_hg s g o) (firstn j ops))) <> None).
Proof.
  intros Hs ID H B F Hz.
  set (P := psat (hrun (init_hg s g o) ops)).
  assert (HP : forall q, 0 <= q <= last_round (hrun (init_hg s g o) ops) -> P q = psat (hrun (init_hg s g o) ops) q) by reflexivity.
  pose proof (finv2_preD s g o all ops Hs ID H B P HP) as FI.
  assert (Ff : failed (hrun (init_hg s g o) (firstn (length ops) ops)) = false) by (rewrite firstn_all; exact F).
  pose proof (FI (length ops) Ff) as FIn.
  assert (Hz' : zget R (frames (hrun (init_hg s g o) (firstn (length ops) ops))) = Some f) by (rewrite firstn_all; exact Hz).
  destruct (g2_fe _ _ _ _ _ FIn R f Hz') as [j [Hj [Fe Hzj]]].
  exists j. split; [apply Forall_firstn'; exact H|].
  assert (Eo : ops = firstn j ops ++ skipn j ops) by (symmetry; apply firstn_skipn).
  split; [rewrite Eo in B; apply (gap_runb_app _ _ _ B)|].
  assert (Fj : failed (hrun (init_hg s g o) (firstn j ops)) = false).
  { destruct (failed (hrun (init_hg s g o) (firstn j ops))) eqn:E; [|reflexivity].
    rewrite Eo, hrun_app in F. rewrite (hrun_failed_true (skipn j ops) _ E) in F. discriminate. }
  split; [exact Fj|]. split; [exact Fe|]. split; [exact Hzj|].
  intros R' HR'. apply (g2_fc _ _ _ _ _ (FI j Fj) R' ltac:(lia)).
  pose proof (pinv_preD s g o all ops Hs ID H B P HP j Fj) as [_ Fr _].
  destruct (Fr R f Hzj) as [l [Hl Hle]]. exists l. split; [exact Hl|lia].
Qed.

Lemma nth_error_firstn_lt {A} (l : list A) : forall k i, (i < k)%nat -> nth_error (firstn k l) i = nth_error l i.
Proof.
  induction l as [|a l IH]; intros k i Hi; [destruct k, i; reflexivity|].
  destruct k; [lia|]. destruct i; [reflexivity|]. cbn [firstn nth_error]. apply IH. lia.
Qed.

Lemma filter_lt_firstn ds : StronglySorted Z.lt (map b_rr ds) ->
  forall k d, nth_error ds k = Some d -> filter (fun x => b_rr x <? b_rr d) ds = firstn k ds.
Proof.
  induction ds as [|a l IH]; intros S k d Hk; [destruct k; discriminate|].
  cbn [map] in S. inversion S as [|? ? S' Fa]; subst. rewrite Forall_forall in Fa.
  destruct k as [|k]; cbn [nth_error] in Hk.
  - inversion Hk; subst a. cbn [filter firstn]. replace (b_rr d <? b_rr d) with false by lia.
    clear - Fa. induction l as [|b l IHl]; [reflexivity|]. cbn [filter].
    assert (b_rr d < b_rr b) by (apply Fa; left; reflexivity). replace (b_rr b <? b_rr d) with false by lia.
    apply IHl. intros x Hx. apply Fa. right. exact Hx.
  - cbn [filter firstn].
    assert (b_rr a < b_rr d) by (apply Fa; apply in_map; eapply nth_error_In; exact Hk).
    replace (b_rr a <? b_rr d) with true by lia. f_equal. apply (IH S' k d Hk).
Qed.

(** * AGREEMENT OF THE DELIVERED BLOCKS, ALL FIELDS *)
Section FinalF.
  Variables (all : list event) (g : peerset).
  Hypothesis ID : ids_determine all.
  Hypothesis SK : sigkeys_determine all.
  Hypothesis FF : fork_free all.
  Variables (s1 s2 : Z) (o1 o2 : list Z) (ops1 ops2 : list hop).
  Hypothesis S1 : s1 <> -1.
  Hypothesis S2 : s2 <> -1.
  Hypothesis H1 : Forall (hop_ok all) ops1.
  Hypothesis H2 : Forall (hop_ok all) ops2.
  Hypothesis B1 : gap_runb (init_hg s1 g o1) ops1 = true.
  Hypothesis B2 : gap_runb (init_hg s2 g o2) ops2 = true.
  Let st1 := hrun (init_hg s1 g o1) ops1.
  Let st2 := hrun (init_hg s2 g o2) ops2.
  Hypothesis F1 : failed st1 = false.
  Hypothesis F2 : failed st2 = false.

  (* the tables recorded in the frames of the k-th blocks *)
  Lemma block_tables_agree k d1 d2 :
    nth_error (delivered st1) k = Some d1 -> nth_error (delivered st2) k = Some d2 ->
    tbl_below g (delivered st1) (b_rr d1) = tbl_below g (delivered st2) (b_rr d2).
  Proof.
    intros Hk1 Hk2.
    destruct (proj2 (hrun_rtop s1 g o1 ops1) F1) as [A1 _]. destruct (proj2 (hrun_rtop s2 g o2 ops2) F2) as [A2 _].
    fold st1 in A1. fold st2 in A2.
    unfold tbl_below.
    rewrite (filter_lt_firstn (delivered st1) (r_del_sorted _ A1) k d1 Hk1), (filter_lt_firstn (delivered st2) (r_del_sorted _ A2) k d2 Hk2).
    unfold replay_genesis. f_equal. apply replay_ext.
    assert (L1 : (k < length (delivered st1))%nat) by (apply nth_error_Some; rewrite Hk1; discriminate).
    assert (L2 : (k < length (delivered st2))%nat) by (apply nth_error_Some; rewrite Hk2; discriminate).
    set (pr := fun d : block => (b_rr d, b_itxs d)).
    assert (Len : length (map pr (firstn k (delivered st1))) = length (map pr (firstn k (delivered st2)))).
    { rewrite !map_length, !firstn_length. lia. }
    rewrite (prefix_of_pointwise (map pr (firstn k (delivered st1))) (map pr (firstn k (delivered st2)))); [rewrite Len; apply firstn_all|lia|].
    intros i a b Ha Hb.
    assert (Hi : (i < k)%nat).
    { assert (C : nth_error (map pr (firstn k (delivered st1))) i <> None) by (rewrite Ha; discriminate).
      apply nth_error_Some in C. rewrite map_length, firstn_length in C. lia. }
    destruct (nth_error (delivered st1) i) as [e1|] eqn:E1; [|apply nth_error_None in E1; lia].
    destruct (nth_error (delivered st2) i) as [e2|] eqn:E2; [|apply nth_error_None in E2; lia].
    rewrite (map_nth_error pr i (firstn k (delivered st1)) (d := e1)) in Ha by (rewrite nth_error_firstn_lt by exact Hi; exact E1).
    rewrite (map_nth_error pr i (firstn k (delivered st2)) (d := e2)) in Hb by (rewrite nth_error_firstn_lt by exact Hi; exact E2).
    inversion Ha; inversion Hb; subst. unfold pr.
    destruct (blocks_agree_gap all g ID SK FF s1 s2 o1 o2 ops1 ops2 S1 S2 H1 H2 B1 B2 F1 F2 i e1 e2 E1 E2) as [_ [Er [_ Ei]]].
    rewrite Er, Ei. reflexivity.
  Qed.

  Theorem blocks_frames_agree_gap k d1 d2 :
    nth_error (delivered st1) k = Some d1 -> nth_error (delivered st2) k = Some d2 -> b_frame d1 = b_frame d2.
  Proof.
    intros Hk1 Hk2.
    pose proof (blocks_agree_gap_full all g ID SK FF s1 s2 o1 o2 ops1 ops2 S1 S2 H1 H2 B1 B2 F1 F2 k d1 d2 Hk1 Hk2) as E.
    unfold cbodyD in E. inversion E as [[Ei Er Ets Etx Eitx Ep]].
    pose proof (nth_error_In _ _ Hk1) as Hd1. pose proof (nth_error_In _ _ Hk2) as Hd2.
    pose proof (hrun_ginv all s1 g o1 ops1 ID H1) as Gi1. pose proof (hrun_ginv all s2 g o2 ops2 ID H2) as Gi2.
    destruct (delivered_block_payload all _ d1 Gi1 Hd1) as [Hz1 _].
    destruct (delivered_block_payload all _ d2 Gi2 Hd2) as [Hz2 _]. rewrite <- Er in Hz2.
    pose proof (hrun_KP g ops1 _ (KP_init s1 g o1 S1) F1) as K1. pose proof (hrun_KP g ops2 _ (KP_init s2 g o2 S2) F2) as K2.
    fold st1 in K1. fold st2 in K2.
    destruct (c_frames g st1 (kp_c _ _ K1) d1 Hd1) as [_ [Ep1 Er1]]. destruct (c_frames g st2 (kp_c _ _ K2) d2 Hd2) as [_ [Ep2 Er2]].
    destruct (block_timestamp_is_median all s1 g o1 ops1 d1 ID H1 Hd1) as [_ [Et1 _]].
    destruct (block_timestamp_is_median all s2 g o2 ops2 d2 ID H2 Hd2) as [_ [Et2 _]].
    (* the table snapshots *)
    assert (Ept : f_peersets (b_frame d1) = f_peersets (b_frame d2)).
    { destruct (kp_fp _ _ K1 _ _ Hz1) as [_ Q1]. destruct (kp_fp _ _ K2 _ _ Hz2) as [_ Q2]. rewrite Q1, Q2.
      rewrite Er at 2. apply (block_tables_agree k d1 d2 Hk1 Hk2). }
    (* the prefixes that built the two frames *)
    destruct (frame_origin all s1 g o1 ops1 _ _ S1 ID H1 B1 F1 Hz1) as [j1 [Hj1 [Bj1 [Fj1 [Fe1 [Zj1 Low1]]]]]].
    destruct (frame_origin all s2 g o2 ops2 _ _ S2 ID H2 B2 F2 Hz2) as [j2 [Hj2 [Bj2 [Fj2 [Fe2 [Zj2 Low2]]]]]].
    pose proof (gap_tables_agree all g ID SK FF s1 s2 o1 o2 (firstn j1 ops1) (firstn j2 ops2) S1 S2 Hj1 Hj2 Bj1 Bj2 Fj1 Fj2) as Tj.
    destruct (FE_agreeD all s1 s2 g g o1 o2 (firstn j1 ops1) (firstn j2 ops2) ID SK FF S1 S2 Hj1 Hj2 Bj1 Bj2 Fj1 Fj2 Tj
                (b_rr d1) (b_frame d1) (b_frame d2) Zj1 Zj2 Fe1 Fe2 Ept (fun R' HR' => conj (Low1 R' HR') (Low2 R' HR'))) as [Eev Ero].
    apply frame_ext; [congruence|congruence|exact Ero|exact Eev|exact Ept|congruence].
  Qed.
End FinalF.

(** the 7-tuple of the static C01_agreement ([cbody], Proofs/BlockAgree.v) *)
Section FinalC.
  Variables (all : list event) (g : peerset).
  Hypothesis ID : ids_determine all.
  Hypothesis SK : sigkeys_determine all.
  Hypothesis FF : fork_free all.
  Variables (s1 s2 : Z) (o1 o2 : list Z) (ops1 ops2 : list hop).
  Hypothesis S1 : s1 <> -1.
  Hypothesis S2 : s2 <> -1.
  Hypothesis H1 : Forall (hop_ok all) ops1.
  Hypothesis H2 : Forall (hop_ok all) ops2.
  Hypothesis B1 : gap_runb (init_hg s1 g o1) ops1 = true.
  Hypothesis B2 : gap_runb (init_hg s2 g o2) ops2 = true.
  Let st1 := hrun (init_hg s1 g o1) ops1.
  Let st2 := hrun (init_hg s2 g o2) ops2.
  Hypothesis F1 : failed st1 = false.
  Hypothesis F2 : failed st2 = false.

  Theorem blocks_agree_gap_cbody k d1 d2 :
    nth_error (delivered st1) k = Some d1 -> nth_error (delivered st2) k = Some d2 -> cbody d1 = cbody d2.
  Proof.
    intros Hk1 Hk2.
    pose proof (blocks_agree_gap_full all g ID SK FF s1 s2 o1 o2 ops1 ops2 S1 S2 H1 H2 B1 B2 F1 F2 k d1 d2 Hk1 Hk2) as E.
    unfold cbodyD in E. inversion E as [[Ei Er Ets Etx Eitx Ep]].
    pose proof (blocks_frames_agree_gap all g ID SK FF s1 s2 o1 o2 ops1 ops2 S1 S2 H1 H2 B1 B2 F1 F2 k d1 d2 Hk1 Hk2) as Ef.
    unfold cbody. rewrite Ei, Er, Ets, Etx, Eitx, Ep, Ef. reflexivity.
  Qed.

  Corollary blocks_prefix_gap_cbody : (length (delivered st1) <= length (delivered st2))%nat ->
    map cbody (delivered st1) = firstn (length (delivered st1)) (map cbody (delivered st2)).
  Proof.
    intros Hlen. rewrite <- (map_length cbody (delivered st1)).
    apply prefix_of_pointwise; [rewrite !map_length; exact Hlen|].
    intros k a b Ha Hb.
    destruct (nth_error (delivered st1) k) as [d1|] eqn:D1.
    2:{ apply nth_error_None in D1. assert (C : nth_error (map cbody (delivered st1)) k <> None) by (rewrite Ha; discriminate).
        apply nth_error_Some in C. rewrite map_length in C. lia. }
    destruct (nth_error (delivered st2) k) as [d2|] eqn:D2.
    2:{ apply nth_error_None in D2. assert (C : nth_error (map cbody (delivered st2)) k <> None) by (rewrite Hb; discriminate).
        apply nth_error_Some in C. rewrite map_length in C. lia. }
    rewrite (map_nth_error cbody _ _ D1) in Ha. rewrite (map_nth_error cbody _ _ D2) in Hb.
    inversion Ha; inversion Hb; subst. apply (blocks_agree_gap_cbody k d1 d2 D1 D2).
  Qed.
End FinalC.
