(* Dynamic membership: what GetFrame computes, for a node that respects the distance bound.  Every cached frame
   satisfies the frame equations FED relative to the state at the end of the step that built it: its events are the
   frame events of that state; its roots are the pure function roots_fn of (i) the stored events, their rounds,
   witness flags and Lamport timestamps, (ii) the self-parent chains, (iii) the last consensus events of the frames of
   the lower rounds, (iv) the repertoire and first-round table, which are a function of the table snapshot f_peersets
   recorded in the frame itself (Proofs/FsvD.v).  Adapted from Proofs/FrameFn.v / FrameInv.v. *)
From Coq Require Import ZArith List Bool Lia ZifyBool Permutation Sorted.
From RecordUpdate Require Import RecordSet.
From V Require Import Proofs.MedianProofs Proofs.TidyC18.
From V Require Import Model.ZMap Model.Quorum Model.Voting Model.VotingRef Model.Median Model.HgImpl Model.PeerSetSpec Model.Window
  Proofs.ZMapFacts Proofs.QuorumProofs Proofs.HgFrames Proofs.HgDagFrames Proofs.AdmissionProofs Proofs.InsertShape Proofs.Ancestry
  Proofs.HgBlockFrames Proofs.BlockInv Proofs.RoundOrder Proofs.OrderSort Proofs.OrderFrames Proofs.OrderProofs
  Proofs.VotingProofs Proofs.FameBridge Proofs.Static Proofs.FirstDesc Proofs.FdWalk Proofs.DivInv Proofs.CInvRun
  Proofs.Height Proofs.StronglySee Proofs.RoundFun Proofs.ViewOk Proofs.SameHistory Proofs.Agreement Proofs.NoFail
  Proofs.LrFrames Proofs.LceFrames Proofs.FameInv Proofs.LateWitness Proofs.FamousSet Proofs.DecidedFlag Proofs.RoundReceived
  Proofs.UndFrames Proofs.Undetermined Proofs.Committed Proofs.FsvFrames Proofs.FrameFn Proofs.FrameInv
  Proofs.PeerSetProofs Proofs.LrMono Proofs.WindowStable Proofs.GapWindow
  Proofs.FirstDescD Proofs.InsertInvD Proofs.DivInvD Proofs.CInvRunD Proofs.StronglySeeD Proofs.RoundFunD Proofs.RoundAgreeD
  Proofs.ViewOkD Proofs.SameHistoryD Proofs.AgreementD Proofs.FameInvD Proofs.LateWitnessD Proofs.FamousSetD Proofs.DecidedFlagD
  Proofs.RoundReceivedD Proofs.UndeterminedD Proofs.CommittedD Proofs.FsvD Proofs.BlockAgree Proofs.BlockAgreeD Proofs.BlockPeersD.
Import ListNotations RecordSetNotations.
Open Scope Z_scope.

(** * create_frame_event and create_root succeed on stored events *)
Record freadyD (P : Z -> peerset) (st : hg) : Prop := {
  frd_dag : dag_ok st;
  frd_c : cinvD P None st;
  frd_lt : forall x ex, get_event st x = Some ex -> zget x (lt_memo st) <> None
}.

Lemma create_frame_event_someD P st x : freadyD P st -> get_event st x <> None -> create_frame_event st x <> None.
Proof.
  intros [OK I Hlt] Hx. unfold create_frame_event.
  destruct (get_event st x) as [ev|] eqn:Hev; [|contradiction].
  destruct (cd_all _ _ _ I x ev Hev ltac:(discriminate)) as [r [w [Hr [Hw _]]]].
  unfold rmemo in Hr. rewrite Hr.
  pose proof (cd_tabc _ _ _ I x r w Hr Hw) as Hin. unfold wl in Hin.
  destruct (get_round st r) as [ri|]; [|destruct Hin].
  assert (Hk : aget x (ri_created ri) <> None).
  { apply aget_in_keys. unfold wl_of in Hin. apply in_map_iff in Hin. destruct Hin as [[x' wf] [E Hin]].
    cbn in E. inversion E; subst. apply (in_map fst) in Hin. exact Hin. }
  destruct (aget x (ri_created ri)) as [[w' t]|]; [|contradiction].
  pose proof (Hlt x ev Hev) as Hl. destruct (zget x (lt_memo st)); [discriminate|contradiction].
Qed.

Lemma root_below_chainD P st : freadyD P st -> forall n h he, get_event st h = Some he ->
  root_below st (e_creator (ev_e he)) (e_index (ev_e he)) n = Some (map (fe_of st) (sp_chain st h n)).
Proof.
  intros Fr. pose proof (frd_dag _ _ Fr) as OK.
  induction n as [|n IH]; intros h he Hh; cbn [root_below sp_chain]; [reflexivity|].
  unfold sp_of at 1. rewrite Hh.
  destruct (d_sp st OK h he Hh) as [[Hs Hi]|[ps [Hps [Hc Hi]]]].
  - rewrite Hs, Hi. cbn. reflexivity.
  - pose proof (stored_nonneg _ _ _ Hps) as Hnn.
    destruct (d_listed st OK _ _ Hps) as [_ [_ [H0 _]]].
    replace (e_index (ev_e he) - 1) with (e_index (ev_e ps)) by lia.
    replace (e_index (ev_e ps) <? 0) with false by lia.
    rewrite <- Hc. rewrite (participant_event_listed st _ ps OK Hps).
    replace (e_sp (ev_e he) =? -1) with false by lia.
    pose proof (create_frame_event_someD P st _ Fr ltac:(rewrite Hps; discriminate)) as Hsome.
    unfold sp_of. rewrite Hh. cbn [map]. unfold fe_of at 1.
    destruct (create_frame_event st (e_sp (ev_e he))) as [fe|]; [|contradiction].
    rewrite (IH _ ps Hps). reflexivity.
Qed.

Lemma create_root_fnD P st c h : freadyD P st ->
  (h = -1 \/ exists he, get_event st h = Some he /\ e_creator (ev_e he) = c) ->
  create_root st c h = Some (root_fn st h).
Proof.
  intros Fr Hh. unfold create_root, root_fn. destruct (Z.eqb_spec h (-1)) as [->|Hne]; [reflexivity|].
  destruct Hh as [?|[he [Hhe Hc]]]; [contradiction|].
  pose proof (create_frame_event_someD P st h Fr ltac:(rewrite Hhe; discriminate)) as Hsome.
  unfold fe_of at 1. cbn [map]. destruct (create_frame_event st h) as [hfe|]; [|contradiction].
  rewrite Hhe. rewrite <- Hc. rewrite (root_below_chainD P st Fr ROOT_DEPTH h he Hhe). unfold fe_of at 1.
  reflexivity.
Qed.

(** * The frame equations *)
Record FED (S : hg) (R : Z) (f : frame) : Prop := {
  fed_evs : Forall (fun fe => create_frame_event S (fe_id fe) = Some fe) (f_events f);
  fed_roots : f_roots f = roots_fn (creator_of S) (sp_of S) (fun _ h => root_fn S h)
                 (fst (fsv_tbl (f_peersets f))) (snd (fsv_tbl (f_peersets f)))
                 (lce_fn (creator_of S) (frames S) (Z.to_nat R)) R (f_events f)
}.

(* what the equations read of the state *)
Definition dctx (st : hg) := (events st, rounds st, round_memo st, lt_memo st).

Lemma dctx_of s s' : cw s' = cw s -> lt_memo s' = lt_memo s -> dctx s' = dctx s.
Proof. intros C L. destruct (cw_fields _ _ C) as [A [B [D _]]]. unfold dctx. congruence. Qed.

Section CtxD.
  Variables (s s' : hg).
  Hypothesis C : dctx s' = dctx s.
  Lemma dctx_get_event x : get_event s' x = get_event s x.
  Proof. unfold dctx in C. inversion C as [[A B D E]]. unfold get_event. rewrite A. reflexivity. Qed.
  Lemma dctx_get_round r : get_round s' r = get_round s r.
  Proof. unfold dctx in C. inversion C as [[A B D E]]. unfold get_round. rewrite B. reflexivity. Qed.
  Lemma dctx_creator_of x : creator_of s' x = creator_of s x.
  Proof. unfold creator_of. rewrite dctx_get_event. reflexivity. Qed.
  Lemma dctx_sp_of x : sp_of s' x = sp_of s x.
  Proof. unfold sp_of. rewrite dctx_get_event. reflexivity. Qed.
  Lemma dctx_cfe x : create_frame_event s' x = create_frame_event s x.
  Proof.
    pose proof C as C'. unfold dctx in C'. inversion C' as [[A B D E]].
    unfold create_frame_event. rewrite dctx_get_event, D, E.
    destruct (get_event s x); [|reflexivity]. destruct (zget x (round_memo s)); [|reflexivity].
    rewrite dctx_get_round. reflexivity.
  Qed.
  Lemma dctx_fe_of x : fe_of s' x = fe_of s x.
  Proof. unfold fe_of. rewrite dctx_cfe. reflexivity. Qed.
  Lemma dctx_sp_chain n : forall h, sp_chain s' h n = sp_chain s h n.
  Proof. induction n as [|n IH]; intros h; cbn [sp_chain]; [reflexivity|]. rewrite dctx_sp_of, IH. reflexivity. Qed.
  Lemma dctx_root_fn h : root_fn s' h = root_fn s h.
  Proof.
    unfold root_fn. destruct (h =? -1); [reflexivity|]. rewrite dctx_sp_chain. f_equal.
    apply map_ext. intros x. apply dctx_fe_of.
  Qed.

  Lemma FED_ctx R f : 0 <= R ->
    (forall R', 0 <= R' < R -> zget R' (frames s') = zget R' (frames s)) -> FED s R f -> FED s' R f.
  Proof.
    intros HR Hfr [D E]. constructor.
    - eapply Forall_impl; [|exact D]. intros fe H. cbn beta in *. rewrite dctx_cfe. exact H.
    - rewrite E. unfold roots_fn.
      rewrite (roots1_fn_ext (creator_of s) (creator_of s') (sp_of s) (sp_of s') (fun _ h => root_fn s h) (fun _ h => root_fn s' h)).
      2:{ intros fe _. rewrite dctx_creator_of, dctx_sp_of, dctx_root_fn. auto. }
      apply roots2_fn_ext. intros p _.
      rewrite (lce_fn_ext (creator_of s') (creator_of s) (frames s') (frames s) (Z.to_nat R)).
      + symmetry. apply dctx_root_fn.
      + intros R' HR'. apply Hfr. lia.
      + intros R' f' fe _ _ _. apply dctx_creator_of.
  Qed.
End CtxD.

(* freadyD is a property of (cw, lt_memo) and the DAG *)
Lemma freadyD_ext P s s' : cw s' = cw s -> lt_memo s' = lt_memo s -> dag_ok s' -> freadyD P s -> freadyD P s'.
Proof.
  intros Cw Lt OK [_ I Hl]. constructor; [exact OK|apply (cinvD_ckeepD P None s s' I (ckeepD_cw s s' Cw))|].
  destruct (cw_fields _ _ Cw) as [Ev _]. intros x ex. unfold get_event. rewrite Ev, Lt. apply Hl.
Qed.

Lemma process_round_ltm s p stop pr : lt_memo (fst (fst (process_round (s, p, stop) pr))) = lt_memo s.
Proof.
  unfold process_round. destruct (stop || failed s); [reflexivity|]. destruct (negb (snd pr)); [reflexivity|].
  destruct (get_round s (fst pr)); [|destruct s; reflexivity].
  assert (G : lt_memo (snd (get_frame s (fst pr))) = lt_memo s).
  { unfold get_frame. destruct (zget (fst pr) (frames s)); [reflexivity|].
    destruct (get_round s (fst pr)); [|reflexivity]. destruct (get_peerset s (fst pr)); [|reflexivity].
    match goal with |- context [fold_left ?f ?l ?a] => destruct (fold_left f l a) end; [|reflexivity].
    match goal with |- context [fold_left ?f (repertoire s) ?a] => destruct (fold_left f (repertoire s) a) end; [|reflexivity].
    cbn [snd]. destruct s; reflexivity. }
  destruct (get_frame s (fst pr)) as [[f|] s1]; cbn [fst snd] in *.
  - destruct (lcv_fields _ _ (lcv_bump (process_frame s1 f) (fst pr))) as [_ [_ A]]. rewrite A.
    destruct (process_frame_lce s1 f) as [_ [B _]]. rewrite B. exact G.
  - rewrite <- G. destruct s1; reflexivity.
Qed.

(** * The fold of ProcessDecidedRounds *)
Definition KB (g : peerset) (s : hg) : Prop :=
  rinvA s /\ binv s /\ PeerSetProofs.finv s /\ c10inv g s /\ FPI g s /\ J s.

Record pf2D (s0 s : hg) : Prop := {
  q_cw : cw s = cw s0;
  q_lt : lt_memo s = lt_memo s0;
  q_dag : dag_ok s;
  q_st : forall R' f' fe, zget R' (frames s) = Some f' -> In fe (f_events f') -> get_event s (fe_id fe) <> None;
  q_fc : forall R', 0 <= R' -> lcle s R' -> zget R' (frames s) <> None;
  q_lce : forall n, (forall R' f', zget R' (frames s) = Some f' -> R' < Z.of_nat n) ->
          last_cons_ev s = lce_fn (creator_of s) (frames s) n;
  q_fe : forall R f, zget R (frames s) = Some f -> zget R (frames s0) = Some f \/ FED s R f
}.

Lemma process_round_pf2D g P s0 s p R rest :
  freadyD P s0 -> (forall r, get_round s0 r <> None <-> 0 <= r <= last_round s0) ->
  pfoldD s0 ((R, true) :: rest) s -> KB g s -> pf2D s0 s ->
  failed (fst (fst (process_round (s, p, false) (R, true)))) = false ->
  exists s', process_round (s, p, false) (R, true) = (s', p ++ [R], false) /\ pf2D s0 s' /\ KB g s'.
Proof.
  intros Fr0 Hcontig [PD Hf Hfr Hdb Hcov Habove Hsort Hpend Hlist] [KA [KOK [KFI [KC [KFP KJ]]]]] P2 Hnf.
  assert (HgR : get_round s R <> None) by (apply (Hpend (R, true)); left; reflexivity).
  pose proof (Habove R (or_introl eq_refl)) as HlcR.
  assert (Hbelow : forall R' f', zget R' (frames s) = Some f' -> R' < R).
  { intros R' f' Hz'. destruct (Hfr R' f' Hz') as [l [Hl Hle]]. unfold lc_lt in HlcR. rewrite Hl in HlcR. lia. }
  assert (Hz : zget R (frames s) = None).
  { destruct (zget R (frames s)) as [f0|] eqn:Hz0; [|reflexivity]. specialize (Hbelow R f0 Hz0). lia. }
  pose proof (q_dag _ _ P2) as OK.
  pose proof (freadyD_ext P s0 s (q_cw _ _ P2) (q_lt _ _ P2) OK Fr0) as Fr.
  (* the pieces of process_round *)
  pose proof (process_round_spec s p false (R, true) KA HlcR) as [KA' _].
  pose proof (process_round_binv s p false (R, true) KOK) as KOK'.
  destruct (process_round_lift (c10inv g) (fun st st' E _ => c10inv_ext g st st' E) (c10inv_commit g) s p false (R, true) KOK KFI KC) as [KFI' KC'].
  destruct (process_round_fp g s p false (R, true) KA HlcR KC Hfr KFP KJ) as [_ [KFP' KJ']].
  pose proof (cw_process_round s p false (R, true)) as Cw.
  pose proof (process_round_ltm s p false (R, true)) as Lt.
  pose proof (process_round_frame s p false (R, true)) as Dfr.
  revert Hnf KA' KOK' KFI' KC' KFP' KJ' Cw Lt Dfr. unfold process_round. rewrite Hf. cbn [orb negb fst snd].
  destruct (get_round s R) as [ri0|] eqn:Hri0; [|contradiction].
  destruct (get_frame s R) as [[f|] s1] eqn:Egf; [|cbn [fst]; intros F'; rewrite failed_fail_true in F'; discriminate].
  cbn [fst snd]. intros Hnf KA' KOK' KFI' KC' KFP' KJ' Cw Lt Dfr.
  destruct (get_frame_new_spec s R f s1 Hz Egf) as [ri [evs [Hri [Es1 [HfR [Hps [Hpsets [Hev [F2 [Hts Hroots]]]]]]]]]].
  assert (HR0 : 0 <= R) by (eapply get_round_some_nonneg; exact Hri).
  set (s' := bump_last_consensus (process_frame s1 f) R) in *.
  exists s'. split; [reflexivity|].
  pose proof (dctx_of _ _ Cw Lt) as Ctx'.
  assert (Lce1 : last_cons_ev s' = last_cons_ev (process_frame s1 f)).
  { destruct (lcv_fields _ _ (lcv_bump (process_frame s1 f) R)) as [_ [A _]]. exact A. }
  assert (Fr' : frames s' = zset R f (frames s)).
  { destruct (bump_keep (process_frame s1 f) R) as [_ [A _]]. fold s' in A. rewrite A.
    destruct (cv_lc_fr _ _ (process_frame_cv s1 f)) as [_ B]. rewrite B, Es1. destruct s; reflexivity. }
  assert (Lc' : last_consensus s' = Some R).
  { apply bump_lc. unfold lc_lt in *. destruct (cv_lc_fr _ _ (process_frame_cv s1 f)) as [B _].
    rewrite B, Es1. replace (last_consensus (s <| frames := zset R f (frames s) |>)) with (last_consensus s) by (destruct s; reflexivity).
    exact HlcR. }
  assert (Lce' : last_cons_ev s' = lce_add (creator_of s) (last_cons_ev s) f).
  { rewrite Lce1, process_frame_lce_fn, Es1. destruct s; reflexivity. }
  assert (Hcfe : forall fe, In fe (f_events f) -> create_frame_event s (fe_id fe) = Some fe).
  { intros fe Hfe. rewrite Hev in Hfe. apply (Permutation_in _ (fe_sort_perm s evs)) in Hfe.
    destruct (Forall2_right _ _ _ F2 fe Hfe) as [x [_ Hx]]. destruct (create_frame_event_spec _ _ _ Hx) as [Hid _].
    rewrite Hid. exact Hx. }
  assert (Hlce : last_cons_ev s = lce_fn (creator_of s) (frames s) (Z.to_nat R)).
  { apply (q_lce _ _ P2). intros R' f' Hz'. specialize (Hbelow R' f' Hz'). lia. }
  assert (Efsv : (repertoire s, first_rounds s) = fsv_tbl (f_peersets f)).
  { rewrite Hpsets. exact KJ. }
  assert (FEs : FED s R f).
  { constructor.
    - apply Forall_forall. exact Hcfe.
    - rewrite Hroots, Hlce, <- Efsv. cbn [fst snd]. unfold roots_fn.
      rewrite (roots1_fn_ext (creator_of s) (creator_of s) (sp_of s) (sp_of s) (root_of s) (fun _ h => root_fn s h)).
      2:{ intros fe Hfe. split; [reflexivity|]. unfold root_of. rewrite (create_root_fnD P s _ _ Fr); [reflexivity|].
          destruct (create_frame_event_spec _ _ _ (Hcfe fe Hfe)) as [_ [_ [ex Hex]]].
          unfold sp_of, creator_of. rewrite Hex.
          destruct (d_sp s OK _ _ Hex) as [[Hs _]|[ps [Hp [Hc _]]]]; [left; exact Hs|right; exists ps; auto]. }
      apply roots2_fn_ext. intros q _. unfold root_of. rewrite (create_root_fnD P s _ _ Fr); [reflexivity|].
      unfold lce_head. destruct (aget (pkey q) (lce_fn (creator_of s) (frames s) (Z.to_nat R))) as [h|] eqn:Eh; [right|left; reflexivity].
      destruct (lce_fn_creator _ _ _ _ _ Eh) as [Hc [R0 [f0 [_ [Hz0 Hin0]]]]].
      apply in_map_iff in Hin0. destruct Hin0 as [fe [Efe Hfe]].
      pose proof (q_st _ _ P2 R0 f0 fe Hz0 Hfe) as Hst. rewrite Efe in Hst.
      destruct (get_event s h) as [ex|] eqn:Hex; [|contradiction].
      exists ex. split; [reflexivity|]. unfold creator_of in Hc. rewrite Hex in Hc. exact Hc. }
  assert (Hfrz : forall R', R' <> R -> zget R' (frames s') = zget R' (frames s)).
  { intros R' Hne. rewrite Fr'. apply zget_zset_other. congruence. }
  split; [|repeat (split; [assumption|]); assumption].
  constructor.
  - rewrite Cw. apply (q_cw _ _ P2).
  - rewrite Lt. apply (q_lt _ _ P2).
  - eapply dag_ok_frame; [exact OK|exact Dfr].
  - intros R' f' fe Hz' Hfe. rewrite (dctx_get_event _ _ Ctx').
    destruct (Z.eq_dec R' R) as [->|Hne].
    + rewrite Fr', zget_zset_same in Hz' by exact HR0. inversion Hz'; subst f'.
      destruct (create_frame_event_spec _ _ _ (Hcfe fe Hfe)) as [_ [_ [ex Hex]]]. rewrite Hex. discriminate.
    + rewrite (Hfrz R' Hne) in Hz'. apply (q_st _ _ P2 R' f' fe Hz' Hfe).
  - intros R' H0 [l [Hl Hle]]. rewrite Lc' in Hl. inversion Hl; subst l.
    destruct (Z.eq_dec R' R) as [->|Hne]; [rewrite Fr', zget_zset_same by exact HR0; discriminate|].
    rewrite (Hfrz R' Hne). apply (q_fc _ _ P2 R' H0).
    assert (Ero : forall r, get_round s r = get_round s0 r).
    { intros r. destruct (cw_fields _ _ (q_cw _ _ P2)) as [_ [Ro _]]. unfold get_round. rewrite Ro. reflexivity. }
    assert (HgR' : get_round s R' <> None).
    { rewrite Ero. apply Hcontig. split; [exact H0|].
      assert (HgR0 : get_round s0 R <> None) by (rewrite <- Ero, Hri0; discriminate). apply Hcontig in HgR0. lia. }
    destruct (Hcov R' HgR') as [Hl'|Hin]; [exact Hl'|exfalso].
    cbn [map fst] in Hin. destruct Hin as [E0|Hin]; [congruence|].
    inversion Hsort as [|? ? _ Hall]; subst. rewrite Forall_forall in Hall. specialize (Hall R' Hin). lia.
  - intros n Hn. rewrite Lce', Hlce.
    assert (Hn1 : (S (Z.to_nat R) <= n)%nat).
    { assert (R < Z.of_nat n) by (apply (Hn R f); rewrite Fr'; apply zget_zset_same; exact HR0). lia. }
    rewrite (lce_fn_beyond (creator_of s') (frames s') (S (Z.to_nat R)) n Hn1).
    2:{ intros R' f' Hz'. destruct (Z.eq_dec R' R) as [->|Hne]; [lia|]. rewrite (Hfrz R' Hne) in Hz'. specialize (Hbelow R' f' Hz'). lia. }
    rewrite lce_fn_S. unfold lce_step. rewrite Z2Nat.id by exact HR0. rewrite Fr', zget_zset_same by exact HR0.
    rewrite (lce_fn_ext (creator_of s') (creator_of s) (zset R f (frames s)) (frames s) (Z.to_nat R)).
    + unfold lce_add. clear - Ctx'. generalize (lce_fn (creator_of s) (frames s) (Z.to_nat R)) as acc. intros acc.
      revert acc. generalize (f_events f) as l. intros l.
      induction l as [|fe l IH]; intros acc; cbn [fold_left]; [reflexivity|].
      rewrite (dctx_creator_of _ _ Ctx'). apply IH.
    + intros R' HR'. apply zget_zset_other. lia.
    + intros R' f' fe _ _ _. apply (dctx_creator_of _ _ Ctx').
  - intros R0 f0 Hz0. destruct (Z.eq_dec R0 R) as [->|Hne].
    + right. rewrite Fr', zget_zset_same in Hz0 by exact HR0. inversion Hz0; subst f0.
      apply (FED_ctx s s' Ctx' R f HR0); [|exact FEs]. intros R' HR'. apply Hfrz. lia.
    + rewrite (Hfrz R0 Hne) in Hz0. destruct (q_fe _ _ P2 R0 f0 Hz0) as [Hb|Hfe]; [left; exact Hb|right].
      pose proof (Hbelow R0 f0 Hz0) as HR0R. pose proof (zget_some_nonneg _ _ _ Hz0) as H00.
      apply (FED_ctx s s' Ctx' R0 f0 H00); [|exact Hfe]. intros R' HR'. apply Hfrz. lia.
Qed.

Lemma process_fold_pf2D g P s0 : freadyD P s0 -> (forall r, get_round s0 r <> None <-> 0 <= r <= last_round s0) ->
  forall lst s p, pfoldD s0 lst s -> KB g s -> pf2D s0 s ->
  failed (fst (fst (fold_left process_round lst (s, p, false)))) = false ->
  pf2D s0 (fst (fst (fold_left process_round lst (s, p, false)))).
Proof.
  intros Fr0 Hc. induction lst as [|pr rest IH]; intros s p PF KBs P2 Hfin; cbn [fold_left] in *; [exact P2|].
  assert (F1 : failed (fst (fst (process_round (s, p, false) pr))) = false).
  { destruct (failed (fst (fst (process_round (s, p, false) pr)))) eqn:E; [|reflexivity].
    destruct (process_round (s, p, false) pr) as [[s' p'] b']. cbn [fst] in E.
    rewrite (process_fold_stopped rest s' p' b' (or_intror E)) in Hfin. cbn [fst] in Hfin. congruence. }
  destruct (process_round_pfoldD s0 s p pr rest PF F1) as [[Hd E]|[Hd [s' [E [PF' _]]]]].
  - rewrite E. rewrite (process_fold_stopped rest s p true (or_introl eq_refl)). exact P2.
  - destruct pr as [R d]. cbn [snd fst] in *. subst d.
    destruct (process_round_pf2D g P s0 s p R rest Fr0 Hc PF KBs P2 F1) as [s'' [E'' [P2' KB']]].
    rewrite E in E''. inversion E''; subst s''. rewrite E in *. apply IH; assumption.
Qed.

Lemma pf2D_same s0 s F : cw F = cw s -> lt_memo F = lt_memo s -> dag_ok F -> frames F = frames s ->
  last_consensus F = last_consensus s -> last_cons_ev F = last_cons_ev s -> pf2D s0 s -> pf2D s0 F.
Proof.
  intros Cw Lt OK Fr Lc Le [A1 A2 A3 A4 B D E]. pose proof (dctx_of _ _ Cw Lt) as C. constructor.
  - rewrite Cw. exact A1.
  - rewrite Lt. exact A2.
  - exact OK.
  - intros R' f' fe. rewrite Fr, (dctx_get_event _ _ C). apply A4.
  - intros R' H0 Hl. rewrite Fr. apply B; [exact H0|]. unfold lcle in *. rewrite <- Lc. exact Hl.
  - intros n Hn. rewrite Le, Fr in *. rewrite (D n Hn). apply lce_fn_ext; [reflexivity|].
    intros R f fe _ _ _. symmetry. apply (dctx_creator_of _ _ C).
  - intros R f. rewrite Fr. intros Hz. destruct (E R f Hz) as [H|H]; [left; exact H|right].
    apply (FED_ctx s F C R f (zget_some_nonneg _ _ _ Hz)); [|exact H]. intros R' _. rewrite Fr. reflexivity.
Qed.

Lemma process_decided_rounds_pf2D g P st : freadyD P st -> (forall r, get_round st r <> None <-> 0 <= r <= last_round st) ->
  pfoldD st (pending st) st -> KB g st -> pf2D st st -> failed (process_decided_rounds st) = false ->
  pf2D st (process_decided_rounds st).
Proof.
  intros Fr0 Hc PF KBs P2 Hf.
  pose proof (dag_ok_frame st _ (frd_dag _ _ Fr0) (process_decided_rounds_frame st)) as OK'.
  revert Hf OK'. unfold process_decided_rounds.
  pose proof (process_fold_pf2D g P st Fr0 Hc (pending st) st [] PF KBs P2) as P2'.
  destruct (fold_left process_round (pending st) (st, [], false)) as [[s processed] stop]. cbn [fst] in P2'.
  intros Hf OK'. apply (pf2D_same st s); try (destruct s; reflexivity); [exact OK'|]. apply P2'. destruct s; exact Hf.
Qed.

Lemma process_decided_rounds_ltm st : lt_memo (process_decided_rounds st) = lt_memo st.
Proof.
  unfold process_decided_rounds.
  assert (G : forall l s p b, lt_memo (fst (fst (fold_left process_round l (s, p, b)))) = lt_memo s).
  { induction l as [|pr rest IH]; intros s p b; cbn [fold_left]; [reflexivity|].
    pose proof (process_round_ltm s p b pr) as A. destruct (process_round (s, p, b) pr) as [[s' p'] b']. cbn [fst] in A.
    rewrite IH. exact A. }
  specialize (G (pending st) st [] false).
  destruct (fold_left process_round (pending st) (st, [], false)) as [[s processed] stop]. cbn [fst] in G.
  rewrite <- G. destruct s; reflexivity.
Qed.

Lemma kb_bview g s s' : bview s' = bview s -> fsv s' = fsv s ->
  binv s /\ PeerSetProofs.finv s /\ c10inv g s /\ FPI g s /\ J s ->
  binv s' /\ PeerSetProofs.finv s' /\ c10inv g s' /\ FPI g s' /\ J s'.
Proof.
  intros B F [A1 [A2 [A3 [A4 A5]]]].
  split; [apply (binv_bview s); auto|]. split; [apply (PeerSetProofs.finv_frames s); [apply bview_frames; exact B|exact A2]|].
  split; [apply (c10inv_ext g s); [apply bview_pview; exact B|exact A3]|]. split.
  - destruct (Committed.bview_fields _ _ B) as [Dl [Fr _]]. unfold FPI. rewrite Fr, Dl. exact A4.
  - apply (J_bview s); auto.
Qed.

(** * Every state of a run that respects the distance bound *)
Section RunF.
  Variables (self_ : Z) (genesis : peerset) (oracle_ : list Z) (all : list event) (ops : list hop).
  Hypothesis Hs : self_ <> -1.
  Hypothesis ID : ids_determine all.
  Hypothesis H : Forall (hop_ok all) ops.
  Hypothesis Hg : gap_runb (init_hg self_ genesis oracle_) ops = true.
  Variable P : Z -> peerset.
  Hypothesis HP : forall q, 0 <= q <= last_round (hrun (init_hg self_ genesis oracle_) ops) ->
    P q = psat (hrun (init_hg self_ genesis oracle_) ops) q.
  Let pre (k : nat) := hrun (init_hg self_ genesis oracle_) (firstn k ops).

  Record finv2D (k : nat) : Prop := {
    g2_fc : forall R', 0 <= R' -> lcle (pre k) R' -> zget R' (frames (pre k)) <> None;
    g2_lce : forall n, (forall R' f', zget R' (frames (pre k)) = Some f' -> R' < Z.of_nat n) ->
             last_cons_ev (pre k) = lce_fn (creator_of (pre k)) (frames (pre k)) n;
    g2_fe : forall R f, zget R (frames (pre k)) = Some f ->
            exists j, (j <= k)%nat /\ FED (pre j) R f /\ zget R (frames (pre j)) = Some f
  }.

  Theorem finv2_preD k : failed (pre k) = false -> finv2D k.
  Proof.
    pose proof (pinv_preD self_ genesis oracle_ all ops Hs ID H Hg P HP) as PIN. cbv zeta in PIN.
    unfold pre in *.
    induction k as [|k IH]; intros Hf.
    - cbn [firstn hrun fold_left].
      destruct (init_frames_lce self_ genesis oracle_) as [Fr [Le Lc]].
      assert (Z0 : forall R, zget R (frames (init_hg self_ genesis oracle_)) = None) by (intros R; rewrite Fr; apply zget_empty).
      constructor; unfold pre; cbn [firstn hrun fold_left].
      + intros R' _ [l [Hl _]]. rewrite Lc in Hl. discriminate.
      + intros n _. rewrite Le. symmetry. apply lce_fn_nil. exact Z0.
      + intros R f Hz. rewrite Z0 in Hz. discriminate.
    - destruct (Nat.lt_ge_cases k (length ops)) as [Hk|Hk].
      2:{ assert (E : firstn (S k) ops = firstn k ops) by (rewrite !firstn_all2 by lia; reflexivity).
          destruct (IH ltac:(rewrite <- E; exact Hf)) as [A B C]. unfold pre in A, B, C.
          constructor; unfold pre; rewrite E; [exact A|exact B|].
          intros R f Hz. destruct (C R f Hz) as [j [Hj X]]. exists j. split; [lia|exact X]. }
      destruct (pre_step self_ genesis oracle_ all ops Hs H Hg P HP k Hk Hf) as [o [Ho [ES [Hfk Tq]]]].
      destruct (pre_facts self_ genesis oracle_ all ops Hs ID H Hg P HP k Hfk) as [Gi [LA [R [Hne [I G]]]]].
      destruct (pre_facts self_ genesis oracle_ all ops Hs ID H Hg P HP (S k) Hf) as [Gi' [_ [R' [_ [_ G']]]]].
      pose proof (PIN k Hfk) as [Qp Frk Db].
      specialize (IH Hfk). destruct IH as [Fc Le Fe]. unfold pre in Fc, Le, Fe.
      pose proof (hrun_KP genesis (firstn k ops) _ (KP_init self_ genesis oracle_ Hs) Hfk) as [_ KOK KFI KC _ KFP KJ].
      set (st := hrun (init_hg self_ genesis oracle_) (firstn k ops)) in *.
      set (st' := hrun (init_hg self_ genesis oracle_) (firstn (S k) ops)) in *.
      assert (SB : same_bodies st st').
      { apply (same_bodies_of_universeD all P P st st' ID G G'); [apply (g_from _ _ (gi_core _ _ Gi))|apply (g_from _ _ (gi_core _ _ Gi'))]. }
      assert (Sub : forall y, get_event st y <> None -> get_event st' y <> None).
      { intros y Hy. pose proof (pre_stored self_ genesis oracle_ all ops Hs ID H Hg P HP k 1 y) as Q.
        rewrite Nat.add_1_r in Q. apply Q; assumption. }
      assert (Cre : forall R0 f fe, zget R0 (frames st) = Some f -> In fe (f_events f) ->
                creator_of st' (fe_id fe) = creator_of st (fe_id fe)).
      { intros R0 f fe Hz Hfe. destruct (gi_f _ _ Gi R0 f Hz) as [_ [_ [_ [_ [Hst _]]]]].
        destruct (Hst fe Hfe) as [ex Hex]. assert (Hn : get_event st' (fe_id fe) <> None) by (apply Sub; rewrite Hex; discriminate).
        destruct (get_event st' (fe_id fe)) as [ex'|] eqn:Hex'; [|contradiction].
        unfold creator_of. rewrite Hex, Hex', (SB _ _ _ Hex Hex'). reflexivity. }
      assert (Same : frames st' = frames st -> last_consensus st' = last_consensus st -> last_cons_ev st' = last_cons_ev st ->
                     finv2D (S k)).
      { intros Fr Lc Lce. constructor; unfold pre; fold st'.
        - intros R0 H0 Hl. rewrite Fr. apply Fc; [exact H0|]. unfold lcle in *. rewrite <- Lc. exact Hl.
        - intros n Hn. rewrite Lce, Fr in *. rewrite (Le n Hn). apply lce_fn_ext; [reflexivity|].
          intros R0 f fe _ Hz Hfe. symmetry. apply (Cre R0 f fe Hz Hfe).
        - intros R0 f. rewrite Fr. intros Hz. destruct (Fe R0 f Hz) as [j [Hj X]]. exists j. split; [lia|exact X]. }
      destruct o as [e|].
      2:{ assert (Erv : rv (process_sigpool st) = rv st).
          { unfold process_sigpool. generalize (sigpool st). intros l. generalize st. clear.
            induction l as [|s l IHl]; intros st; cbn [fold_left]; [reflexivity|]. rewrite IHl. apply (proj1 (process_sig_rv st s)). }
          destruct (rv_fields _ _ Erv) as [_ [_ [Lc [Frm _]]]].
          apply Same; rewrite ES; cbn [hstep]; [exact Frm|exact Lc|].
          destruct (lcv_fields _ _ (lcv_process_sigpool st)) as [_ [A _]]. exact A. }
      destruct Ho as [Hin Hid].
      assert (Hf'' : failed (hstep st (HInsert e)) = false) by (rewrite <- ES; exact Hf).
      pose proof (g_dag _ _ (gi_core _ _ Gi)) as OK. pose proof (g_from _ _ (gi_core _ _ Gi)) as FA.
      pose proof (insert_event_bview st e) as Bv. pose proof (insert_event_rstep st e) as Sr.
      pose proof (insert_event_lcev st e) as Lv. pose proof (insert_event_fsv st e) as Fv.
      pose proof (NoFail.insert_event_rounds st e) as [Rsr _].
      revert Hf'' Tq ES. cbn [hstep]. unfold step, insert_and_run.
      destruct (insert_event st e) as [r0 s] eqn:E. cbn [snd] in Bv, Sr, Rsr, Lv, Fv.
      destruct (insert_event_inv st e all r0 s OK FA ID Hin Hid E) as [OK' [FA' Hns]].
      assert (Hrej : r0 <> InsOk -> st' = snd (r0, s) -> finv2D (S k)).
      { intros Hn Es. rewrite (insert_reject_noop st e r0 s E Hn Hns) in Es. cbn [snd] in Es. apply Same; rewrite Es; reflexivity. }
      destruct r0; try (intros _ _ ES; apply Hrej; [discriminate|exact ES]). clear Hrej. cbn [snd]. intros Hf'' Tq Est'.
      destruct (insert_cinvD P all st e s OK LA FA ID Hin Hid I E) as [Is Hund].
      assert (Rs' : rinv s) by (apply (rinv_rstep st s R Sr)).
      assert (Hnes : peersets s <> []) by (rewrite (bview_peersets _ _ Bv); exact Hne).
      assert (Hpss : forall q, 0 <= q <= last_round (run_consensus s) -> get_peerset s q = Some (P q))
        by (intros q Hq; rewrite (get_peerset_bview _ _ q Bv); apply Tq; exact Hq).
      destruct (run_consensus_stagesD P s (e_id e) OK' Rs' Hnes Hpss Is Hund Hf'') as [Hf1 [Hf2 [Hf3 [Eq [I1 [I2 [I3 [R1 R2]]]]]]]].
      cbv zeta in *. rewrite Eq in *.
      set (s1 := divide_rounds s) in *. set (s2 := decide_fame s1) in *. set (s3 := decide_round_received s2) in *.
      assert (R3 : rinv s3) by (apply (rinv_rstep s2 s3 R2 (decide_round_received_rstep s2 (proj1 (rinv_bounded _ R2))))).
      assert (Q3 : qstep st s3).
      { assert (Q0 : qstep st s) by (apply qstep_same; [apply (s_pend _ _ Sr)|exact Rsr|apply (s_lb _ _ Sr)|apply (s_lc _ _ Sr)|apply (s_fr _ _ Sr)|apply (s_del _ _ Sr)]).
        assert (Q1 : qstep s s1) by (apply divide_rounds_qstep, (r_lb _ (proj1 Rs'))).
        assert (Q2 : qstep s1 s2).
        { destruct (Committed.bview_fields _ _ (decide_fame_bview s1)) as [Dl [Frm Lc]].
          constructor; auto.
          - intros r. unfold s2. rewrite decide_fame_prounds. auto.
          - intros r Hr. left. intros C. apply Hr. apply (ck_rd _ _ (decide_fame_ckeep s1)). exact C.
          - pose proof (r_lb _ (proj1 R2)) as L2. pose proof (r_lb _ (proj1 R1)) as L1. congruence. }
        assert (Q3' : qstep s2 s3).
        { pose proof (decide_round_received_rstep s2 (proj1 (rinv_bounded _ R2))) as Rs3. fold s3 in Rs3.
          constructor; [intros r; unfold prounds; rewrite (s_pend _ _ Rs3); auto| |apply (s_lb _ _ Rs3)|apply (s_lc _ _ Rs3)|apply (s_fr _ _ Rs3)|apply (s_del _ _ Rs3)].
          intros r Hr. left. intros C. apply Hr. apply (s_dom _ _ Rs3). exact C. }
        eapply qstep_trans; [exact Q0|]. eapply qstep_trans; [exact Q1|]. eapply qstep_trans; eauto. }
      assert (Hl3 : forall R0, lcle s3 R0 <-> lcle st R0) by (intros R0; unfold lcle; rewrite (qs_lc _ _ Q3); reflexivity).
      assert (QP3 : QP s3).
      { intros r Hr. destruct (qs_r _ _ Q3 r Hr) as [H0|H0]; [|left; exact H0].
        destruct (Qp r H0) as [H1|H1]; [left; apply (qs_p _ _ Q3); exact H1|right; apply Hl3; exact H1]. }
      destruct (cw_fields _ _ (cw_process_decided_rounds s3)) as [Ev4 [Ro4 _]].
      assert (PF : pfoldD s3 (pending s3) s3).
      { destruct R3 as [A3 B3]. constructor.
        - intros q g0. rewrite (qs_fr _ _ Q3). intros Hz. destruct (gi_f _ _ Gi q g0 Hz) as [A _]. exact A.
        - exact Hf3.
        - intros R0 f. rewrite (qs_fr _ _ Q3). intros Hz. apply Hl3. eapply Frk; eauto.
        - intros x ex R0 _ _ Hlc Hn. contradiction.
        - intros r Hr. destruct (QP3 r Hr); auto.
        - intros r Hr. apply (r_above _ B3 r Hr).
        - apply (r_sorted _ A3).
        - intros [r d] Hpr. destruct (r_pend _ A3 r d Hpr) as [ri [Hri _]]. cbn [fst]. rewrite Hri. discriminate.
        - intros x ex R0 Hx Hr.
          pose proof (c_listed _ (g_o _ _ (gi_core _ _ Gi')) x ex R0) as CL. rewrite Est' in CL.
          unfold get_event, rcv, get_round in CL |- *. rewrite Ev4, Ro4 in CL. apply CL; assumption. }
      (* the frame layer *)
      assert (Ev3 : forall y, get_event s3 y = get_event st' y).
      { intros y. rewrite Est'. unfold get_event. rewrite Ev4. reflexivity. }
      assert (Cr3 : forall y, creator_of s3 y = creator_of st' y) by (intros y; unfold creator_of; rewrite Ev3; reflexivity).
      assert (OK3 : dag_ok s3).
      { eapply dag_ok_frame; [|apply decide_round_received_frame]. eapply dag_ok_frame; [|apply decide_fame_frame].
        eapply dag_ok_frame; [exact OK'|apply divide_rounds_frame]. }
      assert (Fr3 : freadyD P s3).
      { constructor; [exact OK3|exact I3|].
        intros x ex Hx. rewrite Ev3 in Hx.
        rewrite <- (process_decided_rounds_ltm s3), <- Est'.
        destruct (ev_lt ex) as [t|] eqn:Et; [|exfalso; apply (gi_all _ _ Gi' Hf x ex Hx Et)].
        rewrite (l_ev _ (g_l _ _ (gi_core _ _ Gi')) x ex t Hx Et). discriminate. }
      assert (L3 : last_cons_ev s3 = last_cons_ev st).
      { pose proof (decide_round_received_lcev s2) as A3. pose proof (decide_fame_lcev s1) as A2. pose proof (divide_rounds_lcev s) as A1.
        unfold lcev in *. fold s1 in A1. fold s2 in A2. fold s3 in A3. congruence. }
      assert (KB3 : KB genesis s3).
      { split; [exact (proj1 R3)|].
        assert (B3 : bview s3 = bview st).
        { unfold s3, s2, s1. rewrite decide_round_received_bview, decide_fame_bview, divide_rounds_bview. exact Bv. }
        assert (F3 : fsv s3 = fsv st).
        { unfold s3, s2, s1. rewrite decide_round_received_fsv, decide_fame_fsv, divide_rounds_fsv. exact Fv. }
        apply (kb_bview genesis st s3 B3 F3). auto. }
      assert (P0 : pf2D s3 s3).
      { constructor.
        - reflexivity.
        - reflexivity.
        - exact OK3.
        - intros R0 f0 fe. rewrite (qs_fr _ _ Q3). intros Hz Hfe. rewrite Ev3.
          destruct (gi_f _ _ Gi R0 f0 Hz) as [_ [_ [_ [_ [Hst _]]]]]. destruct (Hst fe Hfe) as [ex Hex].
          apply Sub. rewrite Hex. discriminate.
        - intros R0 H0 Hl. rewrite (qs_fr _ _ Q3). apply Fc; [exact H0|apply Hl3; exact Hl].
        - intros n. rewrite (qs_fr _ _ Q3). intros Hn. rewrite L3, (Le n Hn).
          apply lce_fn_ext; [reflexivity|]. intros R0 f fe _ Hz Hfe. rewrite Cr3. symmetry. apply (Cre R0 f fe Hz Hfe).
        - intros R0 f Hz. left. exact Hz. }
      pose proof (process_decided_rounds_pf2D genesis P s3 Fr3 (r_contig _ (proj1 R3)) PF KB3 P0 Hf'') as P4.
      rewrite <- Est' in P4. destruct P4 as [_ _ _ _ A B C].
      constructor; unfold pre; fold st'.
      + exact A.
      + exact B.
      + intros R0 f Hz. destruct (C R0 f Hz) as [Hb|Hfe].
        * rewrite (qs_fr _ _ Q3) in Hb. destruct (Fe R0 f Hb) as [j [Hj X]]. exists j. split; [lia|exact X].
        * exists (S k). split; [lia|]. fold st'. auto.
  Qed.
End RunF.
