(* Stage B: what GetFrame computes, as pure functions of (i) the stored events, their rounds,
   witness flags and Lamport timestamps, (ii) the self-parent chains, (iii) the last consensus
   events of the frames of the lower rounds. *)
From Coq Require Import ZArith List Bool Lia ZifyBool Permutation Sorted.
From RecordUpdate Require Import RecordSet.
From V Require Import Model.ZMap Model.Quorum Model.Voting Model.Median Model.HgImpl
  Proofs.ZMapFacts Proofs.HgFrames Proofs.HgDagFrames Proofs.AdmissionProofs Proofs.Ancestry
  Proofs.HgBlockFrames Proofs.BlockInv Proofs.OrderSort Proofs.OrderFrames Proofs.OrderProofs
  Proofs.Static Proofs.FirstDesc Proofs.FdWalk Proofs.CInvRun Proofs.NoFail.
Import ListNotations RecordSetNotations.
Open Scope Z_scope.

(** * The roots, with total functions *)
Definition root_of (st : hg) (c h : Z) : list frameev :=
  match create_root st c h with Some l => l | None => [] end.

Definition roots1_fn (cre spf : Z -> Z) (rootf : Z -> Z -> list frameev)
    (sorted : list frameev) (roots : list (Z * list frameev)) : list (Z * list frameev) :=
  fold_left (fun roots fe =>
     let p := cre (fe_id fe) in
     match aget p roots with
     | Some _ => roots
     | None => roots_insert p (rootf p (spf (fe_id fe))) roots
     end) sorted roots.

Definition lce_head (lce : list (Z * Z)) (k : Z) : Z := match aget k lce with Some h => h | None => -1 end.

Definition roots2_fn (rootf : Z -> Z -> list frameev) (rep : list peer) (frs : list (Z * Z)) (lce : list (Z * Z))
    (rr : Z) (roots : list (Z * list frameev)) : list (Z * list frameev) :=
  fold_left (fun roots (p : peer) =>
     match aget (pid p) frs with
     | None => roots
     | Some fr =>
       if rr <? fr then roots
       else match aget (pkey p) roots with
            | Some _ => roots
            | None => roots_insert (pkey p) (rootf (pkey p) (lce_head lce (pkey p))) roots
            end
     end) rep roots.

Definition roots_fn cre spf rootf rep frs lce rr sorted :=
  roots2_fn rootf rep frs lce rr (roots1_fn cre spf rootf sorted []).

Definition ts_of (st : hg) (w : Z) : Z := match get_event st w with Some e => e_ts (ev_e e) | None => 0 end.

Lemma fold_none {A B} (f : option B -> A -> option B) (l : list A) :
  (forall a, f None a = None) -> fold_left f l None = None.
Proof. intros H. induction l as [|a l IH]; cbn [fold_left]; [reflexivity|]. rewrite H. exact IH. Qed.

Lemma roots1_opt st sorted : forall roots r,
  fold_left (fun (acc : option (list (Z * list frameev))) fe =>
     match acc with
     | None => None
     | Some roots =>
       let p := creator_of st (fe_id fe) in
       match aget p roots with
       | Some _ => Some roots
       | None => match create_root st p (sp_of st (fe_id fe)) with
                 | Some r => Some (roots_insert p r roots)
                 | None => None
                 end
       end
     end) sorted (Some roots) = Some r ->
  r = roots1_fn (creator_of st) (sp_of st) (root_of st) sorted roots.
Proof.
  induction sorted as [|fe l IH]; intros roots r; cbn [fold_left]; unfold roots1_fn; cbn [fold_left].
  - intros H; inversion H; reflexivity.
  - cbv zeta. destruct (aget (creator_of st (fe_id fe)) roots) eqn:Ea; [apply IH|].
    unfold root_of. destruct (create_root st (creator_of st (fe_id fe)) (sp_of st (fe_id fe))) as [r0|]; [apply IH|].
    rewrite fold_none; [discriminate|reflexivity].
Qed.

Lemma roots2_opt st rr (rep : list peer) : forall roots r,
  fold_left (fun (acc : option (list (Z * list frameev))) (p : peer) =>
     match acc with
     | None => None
     | Some roots =>
       match aget (pid p) (first_rounds st) with
       | None => Some roots
       | Some fr =>
         if rr <? fr then Some roots
         else match aget (pkey p) roots with
              | Some _ => Some roots
              | None =>
                let h := match aget (pkey p) (last_cons_ev st) with Some h => h | None => -1 end in
                match create_root st (pkey p) h with
                | Some r => Some (roots_insert (pkey p) r roots)
                | None => None
                end
              end
       end
     end) rep (Some roots) = Some r ->
  r = roots2_fn (root_of st) rep (first_rounds st) (last_cons_ev st) rr roots.
Proof.
  induction rep as [|p l IH]; intros roots r; cbn [fold_left]; unfold roots2_fn; cbn [fold_left].
  - intros H; inversion H; reflexivity.
  - destruct (aget (pid p) (first_rounds st)) as [fr|]; [|apply IH].
    destruct (rr <? fr); [apply IH|].
    destruct (aget (pkey p) roots); [apply IH|]. cbv zeta.
    unfold root_of, lce_head. destruct (create_root st (pkey p) _) as [r0|]; [apply IH|].
    rewrite fold_none; [discriminate|reflexivity].
Qed.

Lemma cfe_fold2 st xs : forall acc evs,
  fold_left (fun (acc : option (list frameev)) x =>
     match acc, create_frame_event st x with
     | Some l, Some fe => Some (l ++ [fe])
     | _, _ => None
     end) xs (Some acc) = Some evs ->
  exists news, evs = acc ++ news /\ Forall2 (fun x fe => create_frame_event st x = Some fe) xs news.
Proof.
  induction xs as [|x xs IH]; intros acc evs; cbn [fold_left].
  - intros H; inversion H; subst. exists []. rewrite app_nil_r. split; [reflexivity|constructor].
  - destruct (create_frame_event st x) as [fe|] eqn:Hc.
    + intros H. destruct (IH _ _ H) as [news [E F]]. exists (fe :: news).
      split; [rewrite E, <- app_assoc; reflexivity|constructor; assumption].
    + intros H. exfalso. clear - H. induction xs as [|y xs IHx]; cbn [fold_left] in H; [discriminate|auto].
Qed.

(* a frame that GetFrame builds (none cached) *)
Lemma get_frame_new_spec st rr f s1 :
  zget rr (frames st) = None -> get_frame st rr = (Some f, s1) ->
  exists ri evs,
    get_round st rr = Some ri /\ s1 = st <| frames := zset rr f (frames st) |> /\
    f_round f = rr /\ get_peerset st rr = Some (f_peers f) /\ f_peersets f = peersets st /\
    f_events f = fe_sort st evs /\
    Forall2 (fun x fe => create_frame_event st x = Some fe) (ri_received ri) evs /\
    f_ts f = median (map (ts_of st) (famous_witnesses ri)) /\
    f_roots f = roots_fn (creator_of st) (sp_of st) (root_of st) (repertoire st) (first_rounds st)
                         (last_cons_ev st) rr (f_events f).
Proof.
  unfold get_frame. intros Hc. rewrite Hc.
  destruct (get_round st rr) as [ri|] eqn:Hr; [|discriminate].
  destruct (get_peerset st rr) as [ps|] eqn:Hp; [|discriminate].
  match goal with |- context [fold_left ?f (ri_received ri) ?a] => destruct (fold_left f (ri_received ri) a) as [evs|] eqn:Ef end;
    [|discriminate].
  match goal with |- context [fold_left ?f (fe_sort st evs) ?a] => destruct (fold_left f (fe_sort st evs) a) as [roots1|] eqn:E1 end.
  2:{ rewrite fold_none; [discriminate|reflexivity]. }
  match goal with |- context [fold_left ?f (repertoire st) ?a] => destruct (fold_left f (repertoire st) a) as [roots|] eqn:E2 end;
    [|discriminate].
  intros H. inversion H; subst; clear H. cbn [f_round f_peersets f_peers f_events f_ts f_roots].
  destruct (cfe_fold2 _ _ _ _ Ef) as [news [E F]]. cbn [app] in E. subst news.
  exists ri, evs. split; [reflexivity|]. split; [reflexivity|]. split; [reflexivity|]. split; [reflexivity|].
  split; [reflexivity|]. split; [reflexivity|]. split; [exact F|]. split; [reflexivity|].
  apply roots1_opt in E1. apply roots2_opt in E2. unfold roots_fn. rewrite <- E1. exact E2.
Qed.

(** * Roots as self-parent chains *)
Definition fe_of (st : hg) (x : Z) : frameev :=
  match create_frame_event st x with Some fe => fe | None => mkFE x 0 0 false end.

Fixpoint sp_chain (st : hg) (h : Z) (n : nat) : list Z :=
  match n with
  | O => []
  | S m => let p := sp_of st h in if p =? -1 then [] else p :: sp_chain st p m
  end.

Definition root_fn (st : hg) (h : Z) : list frameev :=
  if h =? -1 then [] else rev (map (fe_of st) (h :: sp_chain st h ROOT_DEPTH)).

Lemma stored_nonneg st x ex : get_event st x = Some ex -> 0 <= x.
Proof. unfold get_event. apply zget_some_nonneg. Qed.

Lemma participant_event_listed st x ex : dag_ok st -> get_event st x = Some ex ->
  participant_event st (e_creator (ev_e ex)) (e_index (ev_e ex)) = Some x.
Proof.
  intros OK Hx. destruct (d_listed st OK x ex Hx) as [p [Hp [H0 Hn]]].
  destruct (d_chain st OK _ _ Hp) as [Hl _].
  unfold participant_event. rewrite Hp. unfold pidx_get_item.
  assert (Hlen : (Z.to_nat (e_index (ev_e ex)) < length (pi_items p))%nat) by (apply nth_error_Some; rewrite Hn; discriminate).
  replace (pi_last p - Z.of_nat (length (pi_items p)) + 1) with 0 by lia.
  replace (e_index (ev_e ex) <? 0) with false by lia. rewrite Z.sub_0_r.
  replace (Z.of_nat (length (pi_items p)) <=? e_index (ev_e ex)) with false by lia. exact Hn.
Qed.

Lemma root_below_chain g st : fready g st -> forall n h he, get_event st h = Some he ->
  root_below st (e_creator (ev_e he)) (e_index (ev_e he)) n = Some (map (fe_of st) (sp_chain st h n)).
Proof.
  intros Fr. pose proof (fr_dag _ _ Fr) as OK.
  induction n as [|n IH]; intros h he Hh; cbn [root_below sp_chain]; [reflexivity|].
  unfold sp_of at 1. rewrite Hh.
  destruct (d_sp st OK h he Hh) as [[Hs Hi]|[ps [Hps [Hc Hi]]]].
  - rewrite Hs, Hi. cbn. reflexivity.
  - pose proof (stored_nonneg _ _ _ Hps) as Hnn.
    destruct (d_listed st OK _ _ Hps) as [_ [_ [H0 _]]].
    replace (e_index (ev_e he) - 1) with (e_index (ev_e ps)) by lia.
    replace (e_index (ev_e ps) <? 0) with false by lia.
    rewrite <- Hc. rewrite (participant_event_listed st _ ps OK Hps).
    replace (e_sp (ev_e he) =? -1) with false by lia.
    pose proof (create_frame_event_some g st _ Fr ltac:(rewrite Hps; discriminate)) as Hsome.
    unfold sp_of. rewrite Hh. cbn [map]. unfold fe_of at 1.
    destruct (create_frame_event st (e_sp (ev_e he))) as [fe|]; [|contradiction].
    rewrite (IH _ ps Hps). reflexivity.
Qed.

Lemma create_root_fn g st c h : fready g st ->
  (h = -1 \/ exists he, get_event st h = Some he /\ e_creator (ev_e he) = c) ->
  create_root st c h = Some (root_fn st h).
Proof.
  intros Fr Hh. unfold create_root, root_fn. destruct (Z.eqb_spec h (-1)) as [->|Hne]; [reflexivity|].
  destruct Hh as [?|[he [Hhe Hc]]]; [contradiction|].
  pose proof (create_frame_event_some g st h Fr ltac:(rewrite Hhe; discriminate)) as Hsome.
  unfold fe_of at 1. cbn [map]. destruct (create_frame_event st h) as [hfe|]; [|contradiction].
  rewrite Hhe. rewrite <- Hc. rewrite (root_below_chain g st Fr ROOT_DEPTH h he Hhe). unfold fe_of at 1.
  reflexivity.
Qed.

(** * Congruence of the roots *)
Lemma roots1_fn_ext cre cre' spf spf' rootf rootf' sorted :
  (forall fe, In fe sorted -> cre (fe_id fe) = cre' (fe_id fe) /\
     rootf (cre (fe_id fe)) (spf (fe_id fe)) = rootf' (cre' (fe_id fe)) (spf' (fe_id fe))) ->
  forall roots, roots1_fn cre spf rootf sorted roots = roots1_fn cre' spf' rootf' sorted roots.
Proof.
  unfold roots1_fn. induction sorted as [|fe l IH]; intros H roots; cbn [fold_left]; [reflexivity|].
  destruct (H fe (or_introl eq_refl)) as [E1 E2]. cbv zeta. rewrite <- E2, <- E1.
  apply IH. intros fe' Hfe'. apply H. right. exact Hfe'.
Qed.

Lemma roots2_fn_ext rootf rootf' (rep : list peer) frs lce lce' rr :
  (forall p, In p rep -> rootf (pkey p) (lce_head lce (pkey p)) = rootf' (pkey p) (lce_head lce' (pkey p))) ->
  forall roots, roots2_fn rootf rep frs lce rr roots = roots2_fn rootf' rep frs lce' rr roots.
Proof.
  unfold roots2_fn. induction rep as [|p l IH]; intros H roots; cbn [fold_left]; [reflexivity|].
  rewrite <- (H p (or_introl eq_refl)). apply IH. intros p' Hp'. apply H. right. exact Hp'.
Qed.

(** * The last consensus events, as a function of the cached frames of the lower rounds *)
Definition lce_add (cre : Z -> Z) (acc : list (Z * Z)) (f : frame) : list (Z * Z) :=
  fold_left (fun a fe => aset (cre (fe_id fe)) (fe_id fe) a) (f_events f) acc.
Definition lce_step (cre : Z -> Z) (frs : zmap frame) (acc : list (Z * Z)) (R : Z) : list (Z * Z) :=
  match zget R frs with Some f => lce_add cre acc f | None => acc end.
Definition lce_fn (cre : Z -> Z) (frs : zmap frame) (n : nat) : list (Z * Z) :=
  fold_left (lce_step cre frs) (zseq 0 n) [].

Lemma zseq_snoc n : forall lo, zseq lo (S n) = zseq lo n ++ [lo + Z.of_nat n].
Proof.
  induction n as [|n IH]; intros lo; [cbn; rewrite Z.add_0_r; reflexivity|].
  change (zseq lo (S (S n))) with (lo :: zseq (lo + 1) (S n)). rewrite IH. cbn [zseq app].
  replace (lo + 1 + Z.of_nat n) with (lo + Z.of_nat (S n)) by lia. reflexivity.
Qed.

Lemma lce_fn_S cre frs n : lce_fn cre frs (S n) = lce_step cre frs (lce_fn cre frs n) (Z.of_nat n).
Proof. unfold lce_fn. rewrite zseq_snoc, fold_left_app. cbn [fold_left]. rewrite Z.add_0_l. reflexivity. Qed.

(* the function looks at the frames below n only, and at the creators of their events *)
Lemma lce_fn_ext cre cre' frs frs' n :
  (forall R, 0 <= R < Z.of_nat n -> zget R frs = zget R frs') ->
  (forall R f fe, 0 <= R < Z.of_nat n -> zget R frs = Some f -> In fe (f_events f) -> cre (fe_id fe) = cre' (fe_id fe)) ->
  lce_fn cre frs n = lce_fn cre' frs' n.
Proof.
  induction n as [|n IH]; intros H1 H2; [reflexivity|]. rewrite !lce_fn_S.
  rewrite IH; [|intros R HR; apply H1; lia|intros R f fe HR; apply H2; lia].
  unfold lce_step. rewrite <- (H1 (Z.of_nat n)) by lia.
  destruct (zget (Z.of_nat n) frs) as [f|] eqn:E; [|reflexivity].
  unfold lce_add.
  assert (G : forall l acc, (forall fe, In fe l -> cre (fe_id fe) = cre' (fe_id fe)) ->
     fold_left (fun a fe => aset (cre (fe_id fe)) (fe_id fe) a) l acc =
     fold_left (fun a fe => aset (cre' (fe_id fe)) (fe_id fe) a) l acc).
  { induction l as [|fe l IHl]; intros acc Hl; cbn [fold_left]; [reflexivity|].
    rewrite (Hl fe (or_introl eq_refl)). apply IHl. intros fe' Hfe'. apply Hl. right. exact Hfe'. }
  apply G. intros fe Hfe. apply (H2 (Z.of_nat n) f fe); [lia|exact E|exact Hfe].
Qed.

(* beyond the cached rounds nothing is added *)
Lemma lce_fn_beyond cre frs n m : (n <= m)%nat ->
  (forall R f, zget R frs = Some f -> R < Z.of_nat n) -> lce_fn cre frs m = lce_fn cre frs n.
Proof.
  intros Hle Hb. induction Hle as [|m Hle IH]; [reflexivity|]. rewrite lce_fn_S, IH. unfold lce_step.
  destruct (zget (Z.of_nat m) frs) as [f|] eqn:E; [|reflexivity]. specialize (Hb _ _ E). lia.
Qed.

(* every entry is the identifier of an event of its creator *)
Lemma lce_add_creator cre acc f c h :
  aget c (lce_add cre acc f) = Some h -> aget c acc = Some h \/ (cre h = c /\ In h (map fe_id (f_events f))).
Proof.
  unfold lce_add. generalize (f_events f) as l. intros l. revert acc.
  induction l as [|fe l IH]; intros acc; cbn [fold_left map]; [auto|].
  intros H. destruct (IH _ H) as [H0|[H1 H2]]; [|right; split; [exact H1|right; exact H2]].
  rewrite Ancestry.aget_aset in H0. destruct (Z.eqb_spec (cre (fe_id fe)) c) as [E|E]; [|left; exact H0].
  inversion H0; subst h. right. split; [exact E|left; reflexivity].
Qed.

Lemma lce_fn_creator cre frs n c h : aget c (lce_fn cre frs n) = Some h ->
  cre h = c /\ exists R f, 0 <= R < Z.of_nat n /\ zget R frs = Some f /\ In h (map fe_id (f_events f)).
Proof.
  induction n as [|n IH]; [discriminate|]. rewrite lce_fn_S. unfold lce_step.
  destruct (zget (Z.of_nat n) frs) as [f|] eqn:E.
  - intros H. destruct (lce_add_creator _ _ _ _ _ H) as [H0|[H1 H2]].
    + destruct (IH H0) as [A [R [f0 [HR B]]]]. split; [exact A|]. exists R, f0. split; [lia|exact B].
    + split; [exact H1|]. exists (Z.of_nat n), f. split; [lia|]. split; [exact E|exact H2].
  - intros H. destruct (IH H) as [A [R [f0 [HR B]]]]. split; [exact A|]. exists R, f0. split; [lia|exact B].
Qed.

(* what process_frame does to the table *)
Lemma add_consensus_events_lce_fn l : forall s,
  last_cons_ev (fold_left add_consensus_event l s) =
  fold_left (fun a fe => aset (creator_of s (fe_id fe)) (fe_id fe) a) l (last_cons_ev s).
Proof.
  induction l as [|fe l IH]; intros s; cbn [fold_left]; [reflexivity|]. rewrite IH.
  assert (E : last_cons_ev (add_consensus_event s fe) = aset (creator_of s (fe_id fe)) (fe_id fe) (last_cons_ev s))
    by (destruct s; reflexivity).
  rewrite E.
  assert (C : forall y, creator_of (add_consensus_event s fe) y = creator_of s y) by (intros y; destruct s; reflexivity).
  clear E IH. generalize (aset (creator_of s (fe_id fe)) (fe_id fe) (last_cons_ev s)) as acc.
  induction l as [|fe' l IHl]; intros acc; cbn [fold_left]; [reflexivity|]. rewrite C. apply IHl.
Qed.

Lemma process_frame_lce_fn s f : last_cons_ev (process_frame s f) = lce_add (creator_of s) (last_cons_ev s) f.
Proof.
  unfold process_frame, lce_add. destruct (f_events f) as [|fe rest] eqn:E; [reflexivity|].
  cbv zeta. set (s1 := fold_left add_consensus_event (fe :: rest) s).
  pose proof (add_consensus_events_lce_fn (fe :: rest) s) as A. fold s1 in A.
  set (b := block_of_frame _ _ _).
  assert (K : forall s2, lcv s2 = lcv s1 -> last_cons_ev s2 = last_cons_ev s1).
  { intros s2 H. destruct (lcv_fields _ _ H) as [_ [H2 _]]. exact H2. }
  rewrite <- A.
  destruct (b_txs b), (b_itxs b); try reflexivity; (apply K; rewrite lcv_commit, lcv_store_set_block; reflexivity).
Qed.
