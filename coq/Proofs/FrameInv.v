(* Stage B: every cached frame satisfies the frame equations FE relative to a reachable state
   (the state at the end of the step that built it); all rounds up to the last consensus round have
   a cached frame; the last-consensus-event table is a function of the cached frames. *)
From Coq Require Import ZArith List Bool Lia ZifyBool Permutation Sorted.
From RecordUpdate Require Import RecordSet.
From V Require Import Model.ZMap Model.Quorum Model.Voting Model.VotingRef Model.Median Model.HgImpl
  Proofs.ZMapFacts Proofs.QuorumProofs Proofs.HgFrames Proofs.HgDagFrames Proofs.AdmissionProofs Proofs.Ancestry
  Proofs.HgBlockFrames Proofs.BlockInv Proofs.RoundOrder Proofs.OrderSort Proofs.OrderFrames Proofs.OrderProofs
  Proofs.VotingProofs Proofs.FameBridge Proofs.Static Proofs.FirstDesc Proofs.FdWalk Proofs.DivInv Proofs.CInvRun
  Proofs.Height Proofs.StronglySee Proofs.RoundFun Proofs.ViewOk Proofs.SameHistory Proofs.Agreement Proofs.NoFail
  Proofs.LrFrames Proofs.LceFrames Proofs.FameInv Proofs.LateWitness Proofs.FamousSet Proofs.DecidedFlag Proofs.RoundReceived
  Proofs.UndFrames Proofs.Undetermined Proofs.Committed Proofs.FsvFrames Proofs.FrameFn Proofs.HgRepFrames.
Import ListNotations RecordSetNotations.
Open Scope Z_scope.

(** * The frame equations *)
Record FE (g : peerset) (S : hg) (R : Z) (f : frame) : Prop := {
  fe_peers : f_peers f = g;
  fe_psets : f_peersets f = [(0, g)];
  fe_ts : exists ri, get_round S R = Some ri /\ f_ts f = median (map (ts_of S) (famous_witnesses ri));
  fe_evs : Forall (fun fe => create_frame_event S (fe_id fe) = Some fe) (f_events f);
  fe_roots : f_roots f = roots_fn (creator_of S) (sp_of S) (fun _ h => root_fn S h) (repertoire S) (first_rounds S)
                 (lce_fn (creator_of S) (frames S) (Z.to_nat R)) R (f_events f)
}.

(* what the equations read of the state *)
Definition fctx (st : hg) := (events st, rounds st, round_memo st, lt_memo st, repertoire st, first_rounds st).

Lemma fctx_fields s s' : fctx s' = fctx s ->
  events s' = events s /\ rounds s' = rounds s /\ round_memo s' = round_memo s /\ lt_memo s' = lt_memo s /\
  repertoire s' = repertoire s /\ first_rounds s' = first_rounds s.
Proof. unfold fctx. intros H. inversion H. auto 10. Qed.

Lemma fctx_of s s' : cw s' = cw s -> lt_memo s' = lt_memo s -> fsv s' = fsv s -> fctx s' = fctx s.
Proof.
  intros C L F. destruct (cw_fields _ _ C) as [A [B [D _]]]. unfold fsv in F. inversion F. unfold fctx. congruence.
Qed.

Section Ctx.
  Variables (s s' : hg).
  Hypothesis C : fctx s' = fctx s.
  Lemma ctx_get_event x : get_event s' x = get_event s x.
  Proof. destruct (fctx_fields _ _ C) as [A _]. unfold get_event. rewrite A. reflexivity. Qed.
  Lemma ctx_get_round r : get_round s' r = get_round s r.
  Proof. destruct (fctx_fields _ _ C) as [_ [A _]]. unfold get_round. rewrite A. reflexivity. Qed.
  Lemma ctx_creator_of x : creator_of s' x = creator_of s x.
  Proof. unfold creator_of. rewrite ctx_get_event. reflexivity. Qed.
  Lemma ctx_sp_of x : sp_of s' x = sp_of s x.
  Proof. unfold sp_of. rewrite ctx_get_event. reflexivity. Qed.
  Lemma ctx_ts_of x : ts_of s' x = ts_of s x.
  Proof. unfold ts_of. rewrite ctx_get_event. reflexivity. Qed.
  Lemma ctx_cfe x : create_frame_event s' x = create_frame_event s x.
  Proof.
    destruct (fctx_fields _ _ C) as [_ [_ [A [B _]]]].
    unfold create_frame_event. rewrite ctx_get_event, A, B.
    destruct (get_event s x); [|reflexivity]. destruct (zget x (round_memo s)); [|reflexivity].
    rewrite ctx_get_round. reflexivity.
  Qed.
  Lemma ctx_fe_of x : fe_of s' x = fe_of s x.
  Proof. unfold fe_of. rewrite ctx_cfe. reflexivity. Qed.
  Lemma ctx_sp_chain n : forall h, sp_chain s' h n = sp_chain s h n.
  Proof. induction n as [|n IH]; intros h; cbn [sp_chain]; [reflexivity|]. rewrite ctx_sp_of, IH. reflexivity. Qed.
  Lemma ctx_root_fn h : root_fn s' h = root_fn s h.
  Proof.
    unfold root_fn. destruct (h =? -1); [reflexivity|]. rewrite ctx_sp_chain. f_equal.
    apply map_ext. intros x. apply ctx_fe_of.
  Qed.

  Lemma FE_ctx g R f : 0 <= R ->
    (forall R', 0 <= R' < R -> zget R' (frames s') = zget R' (frames s)) -> FE g s R f -> FE g s' R f.
  Proof.
    intros HR Hfr [A B [ri [Hri Hts]] D E]. destruct (fctx_fields _ _ C) as [_ [_ [_ [_ [Rp Fs]]]]].
    constructor; [exact A|exact B| | |].
    - exists ri. rewrite ctx_get_round. split; [exact Hri|]. rewrite Hts. f_equal. apply map_ext. intros w. symmetry. apply ctx_ts_of.
    - eapply Forall_impl; [|exact D]. intros fe H. cbn beta in *. rewrite ctx_cfe. exact H.
    - rewrite E, Rp, Fs. unfold roots_fn.
      rewrite (roots1_fn_ext (creator_of s) (creator_of s') (sp_of s) (sp_of s') (fun _ h => root_fn s h) (fun _ h => root_fn s' h)).
      2:{ intros fe _. rewrite ctx_creator_of, ctx_sp_of, ctx_root_fn. auto. }
      apply roots2_fn_ext. intros p _.
      rewrite (lce_fn_ext (creator_of s') (creator_of s) (frames s') (frames s) (Z.to_nat R)).
      + symmetry. apply ctx_root_fn.
      + intros R' HR'. apply Hfr. lia.
      + intros R' f' fe _ _ _. apply ctx_creator_of.
  Qed.
End Ctx.

Lemma fctx_sym s s' : fctx s' = fctx s -> fctx s = fctx s'.
Proof. intros H. symmetry. exact H. Qed.

(** * The fold of ProcessDecidedRounds *)
Record pfold2 (g : peerset) (s0 s : hg) : Prop := {
  p2_ctx : fctx s = fctx s0;
  p2_fc : forall R', 0 <= R' -> lcle s R' -> zget R' (frames s) <> None;
  p2_lce : forall n, (forall R' f', zget R' (frames s) = Some f' -> R' < Z.of_nat n) ->
           last_cons_ev s = lce_fn (creator_of s) (frames s) n;
  p2_fe : forall R f, zget R (frames s) = Some f -> zget R (frames s0) = Some f \/ FE g s R f
}.

Lemma cv_lc_fr s s' : cv s' = cv s -> last_consensus s' = last_consensus s /\ frames s' = frames s.
Proof. unfold cv. intros H. inversion H. auto. Qed.

Lemma Forall2_right {A B} (P : A -> B -> Prop) xs ys : Forall2 P xs ys -> forall y, In y ys -> exists x, In x xs /\ P x y.
Proof.
  induction 1 as [|x y xs ys Hp _ IH]; intros y0 Hy; [destruct Hy|].
  destruct Hy as [<-|Hy]; [exists x; split; [left; reflexivity|exact Hp]|].
  destruct (IH y0 Hy) as [x0 [Hx0 Hp0]]. exists x0. split; [right; exact Hx0|exact Hp0].
Qed.

Lemma process_round_pfold2 g all s0 s p R rest :
  no_accept all -> pfold g all s0 ((R, true) :: rest) s -> pfold2 g s0 s ->
  (forall r, get_round s0 r <> None <-> 0 <= r <= last_round s0) ->
  exists s', process_round (s, p, false) (R, true) = (s', p ++ [R], false) /\ pfold2 g s0 s'.
Proof.
  intros NA [PD Hf Hfr Hdb Hcov Habove Hsort Hpend Hlist] P2 Hcontig.
  assert (HgR : get_round s R <> None) by (apply (Hpend (R, true)); left; reflexivity).
  pose proof (Habove R (or_introl eq_refl)) as HlcR.
  assert (Hbelow : forall R' f', zget R' (frames s) = Some f' -> R' < R).
  { intros R' f' Hz'. destruct (Hfr R' f' Hz') as [l [Hl Hle]]. unfold lc_lt in HlcR. rewrite Hl in HlcR. lia. }
  assert (Hz : zget R (frames s) = None).
  { destruct (zget R (frames s)) as [f0|] eqn:Hz0; [|reflexivity]. specialize (Hbelow R f0 Hz0). lia. }
  pose proof (pd_fr _ _ _ PD) as Fr. pose proof (fr_dag _ _ Fr) as OK.
  pose proof (get_frame_some g s R Fr HgR) as Hsome.
  destruct (get_frame s R) as [[f|] s1] eqn:Egf; cbn [fst] in Hsome; [|contradiction].
  destruct (get_frame_new_spec s R f s1 Hz Egf) as [ri [evs [Hri [Es1 [HfR [Hps [Hpsets [Hev [F2 [Hts Hroots]]]]]]]]]].
  assert (HR0 : 0 <= R) by (eapply get_round_some_nonneg; exact Hri).
  set (s' := bump_last_consensus (process_frame s1 f) R).
  assert (E : process_round (s, p, false) (R, true) = (s', p ++ [R], false)).
  { unfold process_round. rewrite Hf. cbn [orb negb snd fst]. rewrite Hri, Egf. reflexivity. }
  exists s'. split; [exact E|].
  (* the new state *)
  pose proof (cw_process_round s p false (R, true)) as Cw. rewrite E in Cw. cbn [fst] in Cw.
  pose proof (process_round_fsv all s p false (R, true) (pd_fa _ _ _ PD) NA) as Fsv. rewrite E in Fsv. cbn [fst] in Fsv.
  assert (Lcv : last_cons_ev s' = last_cons_ev (process_frame s1 f) /\ lt_memo s' = lt_memo (process_frame s1 f)).
  { destruct (lcv_fields _ _ (lcv_bump (process_frame s1 f) R)) as [_ [A B]]. auto. }
  destruct Lcv as [Lce1 Lt1].
  assert (Lt : lt_memo s' = lt_memo s).
  { rewrite Lt1. destruct (process_frame_lce s1 f) as [_ [B _]]. rewrite B, Es1. destruct s; reflexivity. }
  pose proof (fctx_of _ _ Cw Lt Fsv) as Ctx'.
  assert (Fr' : frames s' = zset R f (frames s)).
  { destruct (bump_keep (process_frame s1 f) R) as [_ [A _]]. fold s' in A. rewrite A.
    destruct (cv_lc_fr _ _ (process_frame_cv s1 f)) as [_ B]. rewrite B, Es1. destruct s; reflexivity. }
  assert (Lc' : last_consensus s' = Some R).
  { apply bump_lc. unfold lc_lt in *. destruct (cv_lc_fr _ _ (process_frame_cv s1 f)) as [B _].
    rewrite B, Es1. replace (last_consensus (s <| frames := zset R f (frames s) |>)) with (last_consensus s) by (destruct s; reflexivity).
    exact HlcR. }
  assert (Lce' : last_cons_ev s' = lce_add (creator_of s) (last_cons_ev s) f).
  { rewrite Lce1, process_frame_lce_fn, Es1. destruct s; reflexivity. }
  pose proof (c_static _ _ _ (fr_c _ _ Fr)) as St.
  assert (Hcfe : forall fe, In fe (f_events f) -> create_frame_event s (fe_id fe) = Some fe).
  { intros fe Hfe. rewrite Hev in Hfe. apply (Permutation_in _ (fe_sort_perm s evs)) in Hfe.
    destruct (Forall2_right _ _ _ F2 fe Hfe) as [x [_ Hx]]. destruct (create_frame_event_spec _ _ _ Hx) as [Hid _].
    rewrite Hid. exact Hx. }
  assert (Hlce : last_cons_ev s = lce_fn (creator_of s) (frames s) (Z.to_nat R)).
  { apply (p2_lce _ _ _ P2). intros R' f' Hz'. specialize (Hbelow R' f' Hz'). lia. }
  assert (FEs : FE g s R f).
  { constructor.
    - rewrite (get_peerset_static g s R St) in Hps. inversion Hps. reflexivity.
    - rewrite Hpsets. exact St.
    - exists ri. split; [exact Hri|exact Hts].
    - apply Forall_forall. exact Hcfe.
    - rewrite Hroots, Hlce. unfold roots_fn.
      rewrite (roots1_fn_ext (creator_of s) (creator_of s) (sp_of s) (sp_of s) (root_of s) (fun _ h => root_fn s h)).
      2:{ intros fe Hfe. split; [reflexivity|]. unfold root_of. rewrite (create_root_fn g s _ _ Fr); [reflexivity|].
          destruct (create_frame_event_spec _ _ _ (Hcfe fe Hfe)) as [_ [_ [ex Hex]]].
          unfold sp_of, creator_of. rewrite Hex.
          destruct (d_sp s OK _ _ Hex) as [[Hs _]|[ps [Hp [Hc _]]]]; [left; exact Hs|right; exists ps; auto]. }
      apply roots2_fn_ext. intros q _. unfold root_of. rewrite (create_root_fn g s _ _ Fr); [reflexivity|].
      unfold lce_head. destruct (aget (pkey q) (lce_fn (creator_of s) (frames s) (Z.to_nat R))) as [h|] eqn:Eh; [right|left; reflexivity].
      destruct (lce_fn_creator _ _ _ _ _ Eh) as [Hc [R0 [f0 [_ [Hz0 Hin0]]]]].
      destruct (pd_f _ _ _ PD R0 f0 Hz0) as [_ [_ [_ [_ [Hst _]]]]].
      apply in_map_iff in Hin0. destruct Hin0 as [fe [Efe Hfe]]. destruct (Hst fe Hfe) as [ex Hex]. rewrite Efe in Hex.
      exists ex. split; [exact Hex|]. unfold creator_of in Hc. rewrite Hex in Hc. exact Hc. }
  assert (Hfrz : forall R', R' <> R -> zget R' (frames s') = zget R' (frames s)).
  { intros R' Hne. rewrite Fr'. apply zget_zset_other. congruence. }
  constructor.
  - rewrite Ctx'. apply (p2_ctx _ _ _ P2).
  - intros R' H0 [l [Hl Hle]]. rewrite Lc' in Hl. inversion Hl; subst l.
    destruct (Z.eq_dec R' R) as [->|Hne]; [rewrite Fr', zget_zset_same by exact HR0; discriminate|].
    rewrite (Hfrz R' Hne). apply (p2_fc _ _ _ P2 R' H0).
    assert (HgR' : get_round s R' <> None).
    { rewrite (ctx_get_round _ _ (p2_ctx _ _ _ P2)). apply Hcontig. split; [exact H0|].
      rewrite (ctx_get_round _ _ (p2_ctx _ _ _ P2)) in HgR. apply Hcontig in HgR. lia. }
    destruct (Hcov R' HgR') as [Hl'|Hin]; [exact Hl'|exfalso].
    cbn [map fst] in Hin. destruct Hin as [E0|Hin]; [congruence|].
    inversion Hsort as [|? ? _ Hall]; subst. rewrite Forall_forall in Hall. specialize (Hall R' Hin). lia.
  - intros n Hn. rewrite Lce', Hlce.
    assert (Hn1 : (S (Z.to_nat R) <= n)%nat).
    { assert (R < Z.of_nat n) by (apply (Hn R f); rewrite Fr'; apply zget_zset_same; exact HR0). lia. }
    rewrite (lce_fn_beyond (creator_of s') (frames s') (S (Z.to_nat R)) n Hn1).
    2:{ intros R' f' Hz'. destruct (Z.eq_dec R' R) as [->|Hne]; [lia|]. rewrite (Hfrz R' Hne) in Hz'. specialize (Hbelow R' f' Hz'). lia. }
    rewrite lce_fn_S. unfold lce_step. rewrite Z2Nat.id by exact HR0. rewrite Fr', zget_zset_same by exact HR0.
    rewrite (lce_fn_ext (creator_of s') (creator_of s) (zset R f (frames s)) (frames s) (Z.to_nat R)).
    + unfold lce_add. clear - Ctx'. generalize (lce_fn (creator_of s) (frames s) (Z.to_nat R)) as acc. intros acc.
      revert acc. generalize (f_events f) as l. intros l.
      induction l as [|fe l IH]; intros acc; cbn [fold_left]; [reflexivity|].
      rewrite (ctx_creator_of _ _ Ctx'). apply IH.
    + intros R' HR'. apply zget_zset_other. lia.
    + intros R' f' fe _ _ _. apply (ctx_creator_of _ _ Ctx').
  - intros R0 f0 Hz0. destruct (Z.eq_dec R0 R) as [->|Hne].
    + right. rewrite Fr', zget_zset_same in Hz0 by exact HR0. inversion Hz0; subst f0.
      apply (FE_ctx s s' Ctx' g R f HR0); [|exact FEs]. intros R' HR'. apply Hfrz. lia.
    + rewrite (Hfrz R0 Hne) in Hz0. destruct (p2_fe _ _ _ P2 R0 f0 Hz0) as [Hb|Hfe]; [left; exact Hb|right].
      pose proof (Hbelow R0 f0 Hz0) as HR0R. pose proof (zget_some_nonneg _ _ _ Hz0) as H00.
      apply (FE_ctx s s' Ctx' g R0 f0 H00); [|exact Hfe]. intros R' HR'. apply Hfrz. lia.
Qed.

Lemma process_fold_pfold2 g all s0 : no_accept all ->
  (forall r, get_round s0 r <> None <-> 0 <= r <= last_round s0) ->
  forall lst s p, pfold g all s0 lst s -> pfold2 g s0 s ->
  pfold2 g s0 (fst (fst (fold_left process_round lst (s, p, false)))).
Proof.
  intros NA Hc. induction lst as [|pr rest IH]; intros s p PF P2; cbn [fold_left]; [exact P2|].
  destruct (process_round_pfold g all s0 s p pr rest NA PF) as [[Hd E]|[Hd [s' [E [PF' _]]]]]; rewrite E.
  - rewrite (process_fold_stopped rest s p true (or_introl eq_refl)). exact P2.
  - destruct pr as [R d]. cbn [snd fst] in *. subst d.
    destruct (process_round_pfold2 g all s0 s p R rest NA PF P2 Hc) as [s'' [E'' P2']].
    rewrite E in E''. inversion E''; subst s''. apply IH; assumption.
Qed.

Lemma pfold2_same g s0 s F : fctx F = fctx s -> frames F = frames s -> last_consensus F = last_consensus s ->
  last_cons_ev F = last_cons_ev s -> pfold2 g s0 s -> pfold2 g s0 F.
Proof.
  intros C Fr Lc Le [A B D E]. constructor.
  - rewrite C. exact A.
  - intros R' H0 Hl. rewrite Fr. apply B; [exact H0|]. unfold lcle in *. rewrite <- Lc. exact Hl.
  - intros n Hn. rewrite Le, Fr in *. rewrite (D n Hn). apply lce_fn_ext; [reflexivity|].
    intros R f fe _ _ _. symmetry. apply (ctx_creator_of _ _ C).
  - intros R f. rewrite Fr. intros Hz. destruct (E R f Hz) as [H|H]; [left; exact H|right].
    apply (FE_ctx s F C g R f (zget_some_nonneg _ _ _ Hz)); [|exact H]. intros R' _. rewrite Fr. reflexivity.
Qed.

Lemma process_decided_rounds_pfold2 g all st : no_accept all ->
  (forall r, get_round st r <> None <-> 0 <= r <= last_round st) ->
  pfold g all st (pending st) st -> pfold2 g st st -> pfold2 g st (process_decided_rounds st).
Proof.
  intros NA Hc PF P2. unfold process_decided_rounds.
  pose proof (process_fold_pfold2 g all st NA Hc (pending st) st [] PF P2) as P2'.
  destruct (fold_left process_round (pending st) (st, [], false)) as [[s processed] stop]. cbn [fst] in P2'.
  apply (pfold2_same g st s); try (destruct s; reflexivity). exact P2'.
Qed.

(** * Reachable states *)
Lemma init_frames_lce self_ g oracle_ :
  frames (init_hg self_ g oracle_) = zempty /\ last_cons_ev (init_hg self_ g oracle_) = [] /\
  last_consensus (init_hg self_ g oracle_) = None.
Proof.
  unfold init_hg. destruct (set_peerset (empty_hg self_) 0 g) as [s|] eqn:S; [|auto].
  destruct (cv_lc_fr _ _ (cv_set_peerset _ _ _ _ S)) as [B O].
  destruct (lcv_fields _ _ (lcv_set_peerset _ _ _ _ S)) as [_ [L _]].
  replace (frames (s <| validators := g |> <| oracle := oracle_ |>)) with (frames s) by (destruct s; reflexivity).
  replace (last_cons_ev (s <| validators := g |> <| oracle := oracle_ |>)) with (last_cons_ev s) by (destruct s; reflexivity).
  replace (last_consensus (s <| validators := g |> <| oracle := oracle_ |>)) with (last_consensus s) by (destruct s; reflexivity).
  rewrite O, L, B. auto.
Qed.

Lemma lce_fn_nil cre frs n : (forall R, zget R frs = None) -> lce_fn cre frs n = [].
Proof.
  intros H. rewrite (lce_fn_beyond cre frs 0 n); [reflexivity|lia|]. intros R f Hz. rewrite H in Hz. discriminate.
Qed.

Section Run.
  Variables (g : peerset) (all : list event).
  Hypothesis ID : ids_determine all.
  Hypothesis NA : no_accept all.
  Variables (self_ : Z) (oracle_ : list Z).
  Let init := init_hg self_ g oracle_.

  Record finv2 (ops : list hop) : Prop := {
    f2_fc : forall R', 0 <= R' -> lcle (hrun init ops) R' -> zget R' (frames (hrun init ops)) <> None;
    f2_lce : forall n, (forall R' f', zget R' (frames (hrun init ops)) = Some f' -> R' < Z.of_nat n) ->
             last_cons_ev (hrun init ops) = lce_fn (creator_of (hrun init ops)) (frames (hrun init ops)) n;
    f2_fe : forall R f, zget R (frames (hrun init ops)) = Some f ->
            exists k, (k <= length ops)%nat /\ FE g (hrun init (firstn k ops)) R f /\
                      zget R (frames (hrun init (firstn k ops))) = Some f
  }.

  Theorem hrun_finv2 ops : Forall (hop_ok all) ops -> finv2 ops.
  Proof.
    induction ops as [|o ops IH] using rev_ind; intros H.
    - destruct (init_frames_lce self_ g oracle_) as [Fr [Le Lc]]. fold init in Fr, Le, Lc.
      assert (Z0 : forall R, zget R (frames init) = None) by (intros R; rewrite Fr; apply zget_empty).
      constructor; cbn [hrun fold_left].
      + intros R' _ [l [Hl _]]. rewrite Lc in Hl. discriminate.
      + intros n _. rewrite Le. symmetry. apply lce_fn_nil. exact Z0.
      + intros R f Hz. rewrite Z0 in Hz. discriminate.
    - pose proof H as H'. apply Forall_app in H'. destruct H' as [Hops Ho]. inversion Ho as [|? ? Ho' _]; subst.
      specialize (IH Hops). destruct IH as [Fc Le Fe].
      pose proof (hrun_nf g all self_ oracle_ ops ID NA Hops) as N. pose proof (hrun_nf g all self_ oracle_ (ops ++ [o]) ID NA H) as N'.
      fold init in N, N'. pose proof (hrun_app init ops [o]) as Eapp. cbn [hrun fold_left] in Eapp.
      set (st := hrun init ops) in *. set (st' := hrun init (ops ++ [o])) in *.
      pose proof (nf_good g all st N) as G. pose proof (nf_good g all st' N') as G'.
      assert (SB : same_bodies st st').
      { apply (same_bodies_of_universe all g st st' ID G G');
          [apply (g_from _ _ (gi_core _ _ (nf_g _ _ _ N)))|apply (g_from _ _ (gi_core _ _ (nf_g _ _ _ N')))]. }
      assert (Sub : forall y ey, get_event st y = Some ey -> exists ey', get_event st' y = Some ey').
      { intros y ey Ey. rewrite Eapp.
        destruct (m_e _ _ (proj2 (hstep_ginv all st o ID Ho' (nf_g _ _ _ N))) y ey Ey) as [ey' [E' _]]. eauto. }
      assert (Cre : forall R f fe, zget R (frames st) = Some f -> In fe (f_events f) ->
                creator_of st' (fe_id fe) = creator_of st (fe_id fe)).
      { intros R f fe Hz Hfe. destruct (gi_f _ _ (nf_g _ _ _ N) R f Hz) as [_ [_ [_ [_ [Hst _]]]]].
        destruct (Hst fe Hfe) as [ex Hex]. destruct (Sub _ _ Hex) as [ex' Hex'].
        unfold creator_of. rewrite Hex, Hex', (SB _ _ _ Hex Hex'). reflexivity. }
      assert (Kfix : forall k, (k <= length ops)%nat -> firstn k (ops ++ [o]) = firstn k ops).
      { intros k Hk. rewrite firstn_app. replace (k - length ops)%nat with O by lia. cbn [firstn]. apply app_nil_r. }
      (* steps that leave the frame cache, the last consensus round and the last consensus events alone *)
      assert (Same : frames st' = frames st -> last_consensus st' = last_consensus st -> last_cons_ev st' = last_cons_ev st ->
                     finv2 (ops ++ [o])).
      { intros Fr Lc Lce. fold st'. constructor; fold st'.
        - intros R' H0 Hl. rewrite Fr. apply Fc; [exact H0|]. unfold lcle in *. rewrite <- Lc. exact Hl.
        - intros n Hn. rewrite Lce, Fr in *. rewrite (Le n Hn). apply lce_fn_ext; [reflexivity|].
          intros R f fe _ Hz Hfe. symmetry. apply (Cre R f fe Hz Hfe).
        - intros R f. rewrite Fr. intros Hz. destruct (Fe R f Hz) as [k [Hk [A B]]]. exists k.
          split; [rewrite app_length; lia|]. rewrite (Kfix k Hk). auto. }
      destruct o as [e|].
      2:{ apply Same; rewrite Eapp; cbn [hstep].
          - assert (Erv : rv (process_sigpool st) = rv st).
            { unfold process_sigpool. generalize (sigpool st). intros l. generalize st. clear.
              induction l as [|s l IHl]; intros st; cbn [fold_left]; [reflexivity|]. rewrite IHl. apply (proj1 (process_sig_rv st s)). }
            destruct (rv_fields _ _ Erv) as [_ [_ [_ [Frm _]]]]. exact Frm.
          - assert (Erv : rv (process_sigpool st) = rv st).
            { unfold process_sigpool. generalize (sigpool st). intros l. generalize st. clear.
              induction l as [|s l IHl]; intros st; cbn [fold_left]; [reflexivity|]. rewrite IHl. apply (proj1 (process_sig_rv st s)). }
            destruct (rv_fields _ _ Erv) as [_ [_ [Lc _]]]. exact Lc.
          - destruct (lcv_fields _ _ (lcv_process_sigpool st)) as [_ [A _]]. exact A. }
      destruct Ho' as [Hin Hid].
      pose proof (g_dag _ _ (gi_core _ _ (nf_g _ _ _ N))) as OK. pose proof (g_from _ _ (gi_core _ _ (nf_g _ _ _ N))) as FA.
      destruct (insert_event st e) as [r0 s] eqn:E.
      destruct (insert_event_inv st e all r0 s OK FA ID Hin Hid E) as [_ [_ Hns]].
      assert (Est0 : st' = snd (match r0 with InsOk => (InsOk, run_consensus s) | _ => (r0, s) end)).
      { rewrite Eapp. cbn [hstep]. unfold step, insert_and_run. rewrite E. destruct r0; reflexivity. }
      assert (Hrej : r0 <> InsOk -> finv2 (ops ++ [HInsert e])).
      { intros Hn. assert (Es : st' = st).
        { rewrite Est0. rewrite <- (insert_reject_noop st e r0 s E Hn Hns). destruct r0; try reflexivity. contradiction. }
        apply Same; rewrite Es; reflexivity. }
      destruct r0; try (apply Hrej; discriminate). clear Hrej Est0.
      destruct (step_ok_facts g all ID NA self_ oracle_ ops e s H E) as [Est' [Q3 [PF [R3 L3]]]].
      fold init in Est', Q3, L3. fold st in Q3, L3. fold st' in Est'.
      set (s3 := decide_round_received (decide_fame (divide_rounds s))) in *.
      assert (Ev3 : forall y, get_event s3 y = get_event st' y).
      { intros y. rewrite Est'. pose proof (cw_process_decided_rounds s3) as C. destruct (cw_fields _ _ C) as [Ev _].
        unfold get_event. rewrite Ev. reflexivity. }
      assert (Cr3 : forall y, creator_of s3 y = creator_of st' y) by (intros y; unfold creator_of; rewrite Ev3; reflexivity).
      assert (Hl3 : forall R, lcle s3 R <-> lcle st R) by (intros R; unfold lcle; rewrite (qs_lc _ _ Q3); reflexivity).
      assert (P0 : pfold2 g s3 s3).
      { constructor.
        - reflexivity.
        - intros R' H0 Hl. rewrite (qs_fr _ _ Q3). apply Fc; [exact H0|apply Hl3; exact Hl].
        - intros n. rewrite (qs_fr _ _ Q3). intros Hn. unfold lcev in L3. rewrite L3, (Le n Hn).
          apply lce_fn_ext; [reflexivity|]. intros R f fe _ Hz Hfe. rewrite Cr3. symmetry. apply (Cre R f fe Hz Hfe).
        - intros R f Hz. left. exact Hz. }
      pose proof (process_decided_rounds_pfold2 g all s3 NA (r_contig _ (proj1 R3)) PF P0) as P4.
      rewrite <- Est' in P4. destruct P4 as [_ A B C].
      constructor; fold st'.
      + exact A.
      + exact B.
      + intros R f Hz. destruct (C R f Hz) as [Hb|Hfe].
        * rewrite (qs_fr _ _ Q3) in Hb. destruct (Fe R f Hb) as [k [Hk [A1 B1]]]. exists k.
          split; [rewrite app_length; lia|]. rewrite (Kfix k Hk). auto.
        * exists (length (ops ++ [HInsert e])). split; [lia|]. rewrite firstn_all. fold st'. auto.
  Qed.

  (* cached frames persist *)
  Lemma hstep_fext ops o : Forall (hop_ok all) (ops ++ [o]) -> fext (hrun init ops) (hrun init (ops ++ [o])).
  Proof.
    intros H. pose proof H as H'. apply Forall_app in H'. destruct H' as [Hops Ho]. inversion Ho as [|? ? Ho' _]; subst.
    pose proof (hrun_nf g all self_ oracle_ ops ID NA Hops) as N. fold init in N.
    pose proof (hrun_app init ops [o]) as Eapp. cbn [hrun fold_left] in Eapp. rewrite Eapp.
    set (st := hrun init ops) in *.
    destruct o as [e|]; cbn [hstep].
    2:{ assert (Erv : rv (process_sigpool st) = rv st).
        { unfold process_sigpool. generalize (sigpool st). intros l. generalize st. clear.
          induction l as [|s l IHl]; intros st; cbn [fold_left]; [reflexivity|]. rewrite IHl. apply (proj1 (process_sig_rv st s)). }
        destruct (rv_fields _ _ Erv) as [_ [_ [_ [Frm _]]]]. intros R f. rewrite Frm. auto. }
    destruct Ho' as [Hin Hid].
    pose proof (g_dag _ _ (gi_core _ _ (nf_g _ _ _ N))) as OK. pose proof (g_from _ _ (gi_core _ _ (nf_g _ _ _ N))) as FA.
    unfold step, insert_and_run.
    destruct (insert_event st e) as [r0 s] eqn:E.
    destruct (insert_event_inv st e all r0 s OK FA ID Hin Hid E) as [_ [_ Hns]].
    assert (Hrej : r0 <> InsOk -> fext st s).
    { intros Hn. rewrite (insert_reject_noop st e r0 s E Hn Hns). apply fext_refl. }
    destruct r0; try (cbn [snd]; apply Hrej; discriminate). clear Hrej. cbn [snd].
    destruct (step_ok_facts g all ID NA self_ oracle_ ops e s H E) as [Est' [Q3 [PF [R3 L3]]]].
    fold init in Est', Q3. fold st in Q3.
    assert (Er : run_consensus s = process_decided_rounds (decide_round_received (decide_fame (divide_rounds s)))).
    { rewrite <- Est', Eapp. cbn [hstep]. unfold step, insert_and_run. rewrite E. reflexivity. }
    rewrite Er.
    destruct (process_decided_rounds_pinv g all _ NA PF) as [_ [_ [_ [Fx _]]]].
    intros R f Hz. apply Fx. rewrite (qs_fr _ _ Q3). exact Hz.
  Qed.

  Lemma prefix_fext ops : Forall (hop_ok all) ops -> forall k, fext (hrun init (firstn k ops)) (hrun init ops).
  Proof.
    induction ops as [|o ops IH] using rev_ind; intros H k; [destruct k; apply fext_refl|].
    pose proof H as H'. apply Forall_app in H'. destruct H' as [Hops _].
    destruct (Nat.le_gt_cases k (length ops)) as [Hk|Hk].
    - rewrite firstn_app. replace (k - length ops)%nat with O by lia. cbn [firstn]. rewrite app_nil_r.
      eapply fext_trans; [apply IH; exact Hops|apply hstep_fext; exact H].
    - rewrite firstn_all2 by (rewrite app_length; cbn; lia). apply fext_refl.
  Qed.

  (* the repertoire and the first-round table never change *)
  Lemma hrun_fsv ops : Forall (hop_ok all) ops -> fsv (hrun init ops) = fsv init.
  Proof.
    induction ops as [|o ops IH] using rev_ind; intros H; [reflexivity|].
    pose proof H as H'. apply Forall_app in H'. destruct H' as [Hops Ho]. inversion Ho as [|? ? Ho' _]; subst.
    pose proof (hrun_nf g all self_ oracle_ ops ID NA Hops) as N. fold init in N.
    rewrite hrun_app. cbn [hrun fold_left]. rewrite <- (IH Hops).
    destruct o as [e|]; cbn [hstep]; [|apply process_sigpool_fsv].
    destruct Ho' as [Hin Hid].
    apply (step_fsv all); auto; [apply (g_dag _ _ (gi_core _ _ (nf_g _ _ _ N)))|apply (g_from _ _ (gi_core _ _ (nf_g _ _ _ N)))].
  Qed.
End Run.

Lemma sp_fold_fsv r ps : forall s s', fsv s = fsv s' -> fsv (fold_left (sp_step r) ps s) = fsv (fold_left (sp_step r) ps s').
Proof.
  induction ps as [|p ps IH]; intros s s' E; cbn [fold_left]; [exact E|]. apply IH.
  unfold sp_step, fsv in *. inversion E as [[E1 E2]]. cbv zeta.
  destruct s, s'. cbn in *. subst.
  match goal with |- context [zmem ?a ?b] => destruct (zmem a b) end;
  match goal with |- context [zmem ?a ?b] => destruct (zmem a b) end; reflexivity.
Qed.

Lemma init_fsv self_ g oracle_ : fsv (init_hg self_ g oracle_) = fsv (init_hg 0 g []).
Proof.
  unfold init_hg, set_peerset. cbn [empty_hg peersets existsb].
  change (fsv (fold_left (sp_step 0) g (empty_hg self_ <| peersets := ps_table_insert 0 g [] |>) <| validators := g |> <| oracle := oracle_ |>) =
          fsv (fold_left (sp_step 0) g (empty_hg 0 <| peersets := ps_table_insert 0 g [] |>) <| validators := g |> <| oracle := [] |>)).
  transitivity (fsv (fold_left (sp_step 0) g (empty_hg self_ <| peersets := ps_table_insert 0 g [] |>)));
    [match goal with |- fsv (?s <| validators := _ |> <| oracle := _ |>) = _ => destruct s; reflexivity end|].
  transitivity (fsv (fold_left (sp_step 0) g (empty_hg 0 <| peersets := ps_table_insert 0 g [] |>)));
    [|match goal with |- _ = fsv (?s <| validators := _ |> <| oracle := _ |>) => destruct s; reflexivity end].
  apply sp_fold_fsv. reflexivity.
Qed.
