(* Dynamic membership: the repertoire and the first-round table of a node are a function of its validator-set table
   (SetPeerSet is the only writer of the three, and in a run it only appends entries with increasing rounds). *)
From Coq Require Import ZArith List Bool Lia ZifyBool.
From RecordUpdate Require Import RecordSet.
From V Require Import Model.ZMap Model.Quorum Model.HgImpl Model.PeerSetSpec
  Proofs.ZMapFacts Proofs.HgBlockFrames Proofs.BlockInv Proofs.PeerSetProofs Proofs.FsvFrames.
Import ListNotations RecordSetNotations.
Open Scope Z_scope.

Definition fsv_add1 (r : Z) (acc : list peer * list (Z * Z)) (p : peer) : list peer * list (Z * Z) :=
  (if rep_mem (pkey p) (fst acc) then fst acc else fst acc ++ [p], add_first_round (pid p) r (snd acc)).
Definition fsv_add (acc : list peer * list (Z * Z)) (e : Z * peerset) : list peer * list (Z * Z) :=
  fold_left (fsv_add1 (fst e)) (snd e) acc.
Definition fsv_tbl (t : list (Z * peerset)) : list peer * list (Z * Z) := fold_left fsv_add t ([], []).

Definition J (st : hg) : Prop := fsv st = fsv_tbl (peersets st).

Lemma J_ext st st' : peersets st' = peersets st -> fsv st' = fsv st -> J st -> J st'.
Proof. unfold J. intros A B C. rewrite A, B. exact C. Qed.

Lemma ps_table_insert_last r ps t : (forall k p, In (k, p) t -> k < r) -> ps_table_insert r ps t = t ++ [(r, ps)].
Proof.
  induction t as [|[k p] t IH]; intros H; cbn [ps_table_insert app]; [reflexivity|].
  pose proof (H k p (or_introl eq_refl)). replace (r <? k) with false by lia.
  rewrite IH; [reflexivity|]. intros k' p' Hin. apply (H k' p'). right. exact Hin.
Qed.

Lemma set_peerset_fsv st r ps st' : set_peerset st r ps = Some st' ->
  peersets st' = ps_table_insert r ps (peersets st) /\ fsv st' = fsv_add (fsv st) (r, ps).
Proof.
  unfold set_peerset. destruct (existsb _ _); [discriminate|]. intros H. inversion H; subst; clear H.
  match goal with |- context [fold_left ?f ps ?s0] =>
    assert (G : forall l s, peersets (fold_left f l s) = peersets s /\ fsv (fold_left f l s) = fold_left (fsv_add1 r) l (fsv s)) end.
  { induction l as [|p l IH]; intros s; cbn [fold_left]; [auto|].
    match goal with |- context [fold_left _ l ?x] => destruct (IH x) as [A B] end.
    rewrite A, B. cbv zeta. split.
    - destruct (zmem _ _); destruct s; reflexivity.
    - f_equal. unfold fsv, fsv_add1. destruct (zmem _ _); destruct s; reflexivity. }
  match goal with |- context [fold_left ?f ps ?s0] => destruct (G ps s0) as [A B] end.
  rewrite A, B. split; [destruct st; reflexivity|]. unfold fsv_add. cbn [fst snd]. reflexivity.
Qed.

Lemma set_peerset_J st r ps st' : J st -> (forall k p, In (k, p) (peersets st) -> k < r) ->
  set_peerset st r ps = Some st' -> J st'.
Proof.
  unfold J. intros Hj Hk E. destruct (set_peerset_fsv st r ps st' E) as [A B].
  rewrite A, B, Hj, (ps_table_insert_last r ps _ Hk). unfold fsv_tbl. rewrite fold_left_app. reflexivity.
Qed.

Lemma process_receipts_J st rr itxs : J st -> (forall k p, In (k, p) (peersets st) -> k < rr + 6) ->
  J (process_receipts st rr itxs).
Proof.
  intros Hj Hk. unfold process_receipts. destruct (fold_left _ itxs (validators st, false)) as [vals changed].
  destruct changed; [|exact Hj]. destruct (set_peerset st (rr + 6) vals) as [st1|] eqn:E; [|exact Hj].
  apply (J_ext st1); [destruct st1; reflexivity|destruct st1; reflexivity|]. apply (set_peerset_J st (rr + 6) vals st1 Hj Hk E).
Qed.

Lemma peersets_store_set_block st b : peersets (store_set_block st b) = peersets st.
Proof. destruct st; reflexivity. Qed.
Lemma peersets_deliver st b : peersets (deliver st b) = peersets st.
Proof. destruct st; reflexivity. Qed.
Lemma peersets_set_anchor_block st b : peersets (set_anchor_block st b) = peersets st.
Proof.
  unfold set_anchor_block. destruct (get_peerset st (b_rr b)); [|reflexivity].
  destruct (_ && _); [destruct st|]; reflexivity.
Qed.
Lemma peersets_sign_block st b bps : peersets (snd (sign_block st b bps)) = peersets st.
Proof. unfold sign_block. destruct (mem_key _ _); cbn [snd]; [destruct st|]; reflexivity. Qed.
Lemma sign_block_rr' st b bps : b_rr (fst (sign_block st b bps)) = b_rr b.
Proof. unfold sign_block. destruct (mem_key _ _); cbn [fst]; [destruct b|]; reflexivity. Qed.

Lemma commit_J st b : J st -> (forall k p, In (k, p) (peersets st) -> k < b_rr b + 6) -> J (commit st b).
Proof.
  intros Hj Hk. unfold commit. destruct (self st =? -1).
  { apply (J_ext st); [apply peersets_deliver|apply fsv_deliver|exact Hj]. }
  cbv zeta. set (st0 := st <| oracle := _ |>).
  assert (J0 : J st0) by (apply (J_ext st); [destruct st; reflexivity|destruct st; reflexivity|exact Hj]).
  assert (P0 : peersets st0 = peersets st) by (destruct st; reflexivity).
  match goal with |- context [store_set_block st0 ?b1] => set (bb := b1) end.
  assert (Hbb : b_rr bb = b_rr b) by (destruct b; reflexivity).
  set (st1 := store_set_block st0 bb).
  assert (J1 : J st1) by (apply (J_ext st0); [apply peersets_store_set_block|apply fsv_store_set_block|exact J0]).
  assert (P1 : peersets st1 = peersets st) by (unfold st1; rewrite peersets_store_set_block; exact P0).
  destruct (get_peerset st1 (b_rr bb)) as [bps|].
  - pose proof (peersets_sign_block st1 bb bps) as Ps. pose proof (fsv_sign_block st1 bb bps) as Fs.
    pose proof (sign_block_rr' st1 bb bps) as Rs.
    destruct (sign_block st1 bb bps) as [b2 st2]. cbn [fst snd] in *.
    apply (J_ext (process_receipts (set_anchor_block st2 b2) (b_rr b2) (b_itxs b2))); [apply peersets_deliver|apply fsv_deliver|].
    apply process_receipts_J.
    + apply (J_ext st2); [apply peersets_set_anchor_block|apply fsv_set_anchor_block|].
      apply (J_ext st1); [exact Ps|exact Fs|exact J1].
    + intros k p. rewrite peersets_set_anchor_block, Ps, P1, Rs, Hbb. apply Hk.
  - apply (J_ext st1); [apply peersets_deliver|apply fsv_deliver|exact J1].
Qed.

Lemma J_qview s s' : qview s' = qview s -> fsv s' = fsv s -> J s -> J s'.
Proof.
  intros Q F. apply J_ext; [|exact F]. destruct (qview_split _ _ Q) as [P _]. unfold pview in P. inversion P. reflexivity.
Qed.

Lemma process_frame_J s f : J s -> (forall k p, In (k, p) (peersets s) -> k < f_round f + 6) -> J (process_frame s f).
Proof.
  intros Hj Hk. unfold process_frame. destruct (f_events f) as [|fe rest]; [exact Hj|]. cbv zeta.
  set (s1 := fold_left add_consensus_event (fe :: rest) s).
  destruct (add_consensus_events_qview (fe :: rest) s) as [Q1 _]. fold s1 in Q1.
  assert (J1 : J s1) by (apply (J_qview s); [exact Q1|apply fsv_add_consensus_events|exact Hj]).
  assert (P1 : peersets s1 = peersets s).
  { destruct (qview_split _ _ Q1) as [P _]. unfold pview in P. inversion P. reflexivity. }
  set (b := block_of_frame (last_block s1 + 1) f s1).
  assert (Hb : b_rr b = f_round f) by reflexivity.
  assert (Jc : J (commit (store_set_block s1 b) b)).
  { apply commit_J.
    - apply (J_ext s1); [apply peersets_store_set_block|apply fsv_store_set_block|exact J1].
    - intros k p. rewrite peersets_store_set_block, P1, Hb. apply Hk. }
  destruct (b_txs b), (b_itxs b); auto.
Qed.

Lemma J_init self_ genesis oracle_ : J (init_hg self_ genesis oracle_).
Proof.
  unfold init_hg. destruct (set_peerset (empty_hg self_) 0 genesis) as [st|] eqn:E.
  - apply (J_ext st); [destruct st; reflexivity|destruct st; reflexivity|].
    apply (set_peerset_J (empty_hg self_) 0 genesis st); [reflexivity|intros k p []|exact E].
  - reflexivity.
Qed.
