(* GENERATED from HgBlockFrames.v and Static.v by text substitution.
   [fsv] projects the repertoire and the first-round table (Store.RepertoireByPubKey / FirstRound):
   only set_peerset changes them, so with static membership (no accepted internal transaction)
   they keep their genesis value for ever. *)
From Coq Require Import ZArith List Bool Lia ZifyBool.
From RecordUpdate Require Import RecordSet.
From V Require Import Model.ZMap Model.Quorum Model.Voting Model.HgImpl
  Proofs.ZMapFacts Proofs.HgFrames Proofs.HgDagFrames Proofs.AdmissionProofs Proofs.HgBlockFrames
  Proofs.BlockInv Proofs.Static.
Import ListNotations RecordSetNotations.
Open Scope Z_scope.

Definition fsv (st : hg) := (repertoire st, first_rounds st).

Lemma fsv_nomemo st st' : nomemo st' = nomemo st -> fsv st' = fsv st.
Proof. intros H. unfold fsv. destruct st, st'. cbn in *. inversion H. reflexivity. Qed.

Lemma fsv_set_evst st x e : fsv (set_evst st x e) = fsv st.
Proof. destruct st; reflexivity. Qed.
Lemma fsv_set_round st r ri : fsv (set_round st r ri) = fsv st.
Proof. destruct st; reflexivity. Qed.
Lemma fsv_fail st : fsv (fail st) = fsv st.
Proof. destruct st; reflexivity. Qed.
Lemma fsv_set_pending st p : fsv (st <| pending := p |>) = fsv st.
Proof. destruct st; reflexivity. Qed.
Lemma fsv_set_rounds st p : fsv (st <| rounds := p |>) = fsv st.
Proof. destruct st; reflexivity. Qed.
Lemma fsv_set_undetermined st p : fsv (st <| undetermined := p |>) = fsv st.
Proof. destruct st; reflexivity. Qed.
Lemma fsv_set_pending_loaded st p : fsv (st <| pending_loaded := p |>) = fsv st.
Proof. destruct st; reflexivity. Qed.
Lemma fsv_set_sigpool st p : fsv (st <| sigpool := p |>) = fsv st.
Proof. destruct st; reflexivity. Qed.
Lemma fsv_set_topo st p : fsv (st <| topo := p |>) = fsv st.
Proof. destruct st; reflexivity. Qed.

Lemma round_f_fsv fuel st x : fsv (snd (round_f fuel st x)) = fsv st.
Proof. apply fsv_nomemo, round_f_nomemo. Qed.
Lemma witness_f_fsv fuel st x : fsv (snd (witness_f fuel st x)) = fsv st.
Proof. apply fsv_nomemo, witness_f_nomemo. Qed.
Lemma lamport_f_fsv fuel st x : fsv (snd (lamport_f fuel st x)) = fsv st.
Proof. apply fsv_nomemo, lamport_f_nomemo. Qed.

Lemma fd_walk_fsv fuel : forall st c index x ah, fsv (fd_walk fuel st c index x ah) = fsv st.
Proof.
  induction fuel as [|f IH]; intros st c index x ah; cbn [fd_walk]; [reflexivity|].
  destruct (get_event st ah) as [a|]; [|reflexivity].
  destruct (aget c (ev_fd a)); [reflexivity|].
  set (st1 := set_evst st ah _).
  pose proof (witness_f_fsv (fuel_of st1) st1 ah) as F2.
  assert (F1 : fsv st1 = fsv st) by apply fsv_set_evst.
  destruct (witness_f (fuel_of st1) st1 ah) as [[[|]|] st2]; cbn [snd] in F2; try rewrite IH; congruence.
Qed.

Lemma fold_fsv {A} (f : hg -> A -> hg) (l : list A) :
  (forall s a, fsv (f s a) = fsv s) -> forall st, fsv (fold_left f l st) = fsv st.
Proof.
  intros Hf. induction l as [|a r IH]; intros st; cbn [fold_left]; [reflexivity|]. rewrite IH. apply Hf.
Qed.

Lemma update_ancestor_fd_fsv st e la : fsv (update_ancestor_fd st e la) = fsv st.
Proof. unfold update_ancestor_fd. apply fold_fsv. intros s ce. apply fd_walk_fsv. Qed.

Lemma store_set_event_fsv st es st' : store_set_event st es = Some st' -> fsv st' = fsv st.
Proof.
  unfold store_set_event. destruct (get_event st _).
  - intros H; inversion H. apply fsv_set_evst.
  - destruct (zget _ _); [|discriminate]. destruct (pidx_set _ _ _); [|discriminate].
    intros H; inversion H. rewrite fsv_set_evst. destruct st; reflexivity.
Qed.

Lemma insert_event_fsv st e : fsv (snd (insert_event st e)) = fsv st.
Proof.
  unfold insert_event. destruct (negb _); [reflexivity|].
  destruct (check_self_parent st e); try reflexivity.
  destruct (check_other_parent st e); try reflexivity.
  unfold insert_admitted. cbv zeta.
  destruct (store_set_event _ _) as [st2|] eqn:E; cbn [snd]; [|apply fsv_set_topo].
  apply store_set_event_fsv in E. rewrite fsv_set_topo in E.
  rewrite fsv_set_sigpool.
  destruct (is_loaded e); rewrite ?fsv_set_pending_loaded, fsv_set_undetermined, update_ancestor_fd_fsv; exact E.
Qed.

(** DivideRounds / DecideFame / DecideRoundReceived *)
Lemma divide_round_fsv st x : fsv (divide_round st x) = fsv st.
Proof.
  unfold divide_round.
  pose proof (round_f_fsv (fuel_of st) st x) as Fr.
  destruct (round_f (fuel_of st) st x) as [[r|] s]; cbn [snd] in Fr; [|rewrite fsv_fail; exact Fr].
  cbv zeta.
  set (s1 := set_event_round s x r). set (ri := round_or_new s1 r). set (s2 := maybe_queue s1 r ri).
  assert (F1 : fsv s1 = fsv s).
  { subst s1; unfold set_event_round; destruct (get_event s x); [apply fsv_set_evst|reflexivity]. }
  assert (F2 : fsv s2 = fsv s1).
  { subst s2; unfold maybe_queue; destruct (_ && _ && _); [apply fsv_set_pending|reflexivity]. }
  pose proof (witness_f_fsv (fuel_of s2) s2 x) as Fw.
  destruct (witness_f (fuel_of s2) s2 x) as [[w|] s']; cbn [snd] in Fw;
    rewrite ?fsv_set_round, ?fsv_fail; congruence.
Qed.

Lemma divide_lt_fsv st x : fsv (divide_lt st x) = fsv st.
Proof.
  unfold divide_lt.
  pose proof (lamport_f_fsv (fuel_of st) st x) as Fl.
  destruct (lamport_f (fuel_of st) st x) as [[t|] s]; cbn [snd] in Fl; [|rewrite fsv_fail; exact Fl].
  unfold set_event_lt. destruct (get_event s x); rewrite ?fsv_set_evst; exact Fl.
Qed.

Lemma divide_one_fsv st x : fsv (divide_one st x) = fsv st.
Proof.
  unfold divide_one.
  destruct (failed st); [reflexivity|].
  destruct (get_event st x) as [ev|]; [|apply fsv_fail].
  cbv zeta.
  set (st1 := match ev_round ev with Some _ => st | None => divide_round st x end).
  assert (F1 : fsv st1 = fsv st).
  { subst st1; destruct (ev_round ev); [reflexivity|apply divide_round_fsv]. }
  destruct (failed st1); [exact F1|].
  destruct (get_event st1 x) as [ev1|]; [|rewrite fsv_fail; exact F1].
  destruct (ev_lt ev1); [exact F1|rewrite divide_lt_fsv; exact F1].
Qed.

Lemma divide_rounds_fsv st : fsv (divide_rounds st) = fsv st.
Proof. unfold divide_rounds. apply fold_fsv. apply divide_one_fsv. Qed.

Lemma fold_fsv_fst {A B} (f : hg * B -> A -> hg * B) (l : list A) :
  (forall s b a, fsv (fst (f (s, b) a)) = fsv s) ->
  forall st b, fsv (fst (fold_left f l (st, b))) = fsv st.
Proof.
  intros Hf. induction l as [|a r IH]; intros st b; cbn [fold_left]; [reflexivity|].
  specialize (Hf st b a). destruct (f (st, b) a) as [s' b']. cbn [fst] in Hf. rewrite IH. exact Hf.
Qed.

Lemma decide_fame_round_fsv s dec pr : fsv (fst (decide_fame_round (s, dec) pr)) = fsv s.
Proof.
  unfold decide_fame_round.
  destruct (failed s); [reflexivity|].
  destruct (get_round s (fst pr)); [|apply fsv_fail].
  destruct (get_peerset s (fst pr)); [|apply fsv_fail].
  match goal with |- context [fold_left ?f ?l ?a] => destruct (fold_left f l a) end; [|apply fsv_fail].
  destruct (witnesses_decided _ _) as [d ri'']. cbn [fst]. apply fsv_set_round.
Qed.

Lemma decide_fame_fsv st : fsv (decide_fame st) = fsv st.
Proof.
  unfold decide_fame.
  pose proof (fold_fsv_fst decide_fame_round (pending st) decide_fame_round_fsv st []) as F.
  destruct (fold_left decide_fame_round (pending st) (st, [])) as [s decided]. cbn [fst] in F.
  destruct (failed s); [exact F|]. rewrite fsv_set_pending. exact F.
Qed.

Lemma rr_loop_fsv x : forall is_ st, fsv (fst (rr_loop st x is_)) = fsv st.
Proof.
  induction is_ as [|i rest IH]; intros st; cbn [rr_loop]; [reflexivity|].
  destruct (get_round st i) as [tr|];
    [|destruct (lower_bound st) as [lb0|]; [destruct (i <=? lb0); [apply IH|reflexivity]|reflexivity]].
  destruct (get_peerset st i) as [tps|]; [|apply fsv_fail].
  destruct (witnesses_decided tr tps) as [d tr'].
  set (st1 := st <| rounds := zset i tr' (rounds st) |>).
  assert (F1 : fsv st1 = fsv st) by apply fsv_set_rounds.
  destruct d; cbn [negb].
  - match goal with |- context [fold_left ?f ?l ?a] => destruct (fold_left f l a) as [sees|] end;
      [|cbn [fst]; rewrite fsv_fail; exact F1].
    destruct (_ && _).
    + destruct (get_event st1 x) as [ex|]; cbn [fst]; rewrite ?fsv_set_round, ?fsv_set_evst, ?fsv_fail; exact F1.
    + rewrite IH. exact F1.
  - destruct (lower_bound st1) as [lb|]; [|exact F1].
    destruct (lb <? i); [exact F1|]. rewrite IH. exact F1.
Qed.

Lemma decide_rr_one_fsv s und x : fsv (fst (decide_rr_one (s, und) x)) = fsv s.
Proof.
  unfold decide_rr_one.
  destruct (failed s); [reflexivity|].
  pose proof (round_f_fsv (fuel_of s) s x) as Fr.
  destruct (round_f (fuel_of s) s x) as [[r|] s1]; cbn [snd] in Fr; [|cbn [fst]; rewrite fsv_fail; exact Fr].
  pose proof (rr_loop_fsv x (zrange (r + 1) (last_round s1)) s1) as Fl.
  destruct (rr_loop s1 x (zrange (r + 1) (last_round s1))) as [s' received]. cbn [fst] in *. congruence.
Qed.

Lemma decide_round_received_fsv st : fsv (decide_round_received st) = fsv st.
Proof.
  unfold decide_round_received.
  pose proof (fold_fsv_fst decide_rr_one (undetermined st) decide_rr_one_fsv st []) as F.
  destruct (fold_left decide_rr_one (undetermined st) (st, [])) as [s und]. cbn [fst] in F.
  destruct (failed s); [exact F|]. rewrite fsv_set_undetermined. exact F.
Qed.

(** * commit with no accepted internal transaction *)

Lemma fsv_store_set_block st b : fsv (store_set_block st b) = fsv st.
Proof. destruct st; reflexivity. Qed.
Lemma fsv_deliver st b : fsv (deliver st b) = fsv st.
Proof. destruct st; reflexivity. Qed.
Lemma fsv_set_anchor_block st b : fsv (set_anchor_block st b) = fsv st.
Proof.
  unfold set_anchor_block. destruct (get_peerset st (b_rr b)); [|reflexivity].
  destruct (_ && _); [destruct st|]; reflexivity.
Qed.
Lemma fsv_sign_block st b bps : fsv (snd (sign_block st b bps)) = fsv st.
Proof. unfold sign_block. destruct (mem_key _ _); cbn [snd]; [destruct st|]; reflexivity. Qed.

Lemma commit_fsv st b :
  (forall t, In t (b_itxs b) -> itx_accept t = false) -> fsv (commit st b) = fsv st.
Proof.
  intros H. unfold commit. destruct (self st =? -1); [apply fsv_deliver|]. cbv zeta.
  set (st0 := st <| oracle := _ |>).
  assert (P0 : fsv st0 = fsv st) by (destruct st; reflexivity).
  match goal with |- context [store_set_block st0 ?b1] => set (bb := b1) end.
  assert (Hbb : b_itxs bb = b_itxs b) by reflexivity.
  destruct (get_peerset (store_set_block st0 bb) (b_rr bb)) as [bps|].
  - pose proof (sign_block_itxs (store_set_block st0 bb) bb bps) as Hi.
    pose proof (fsv_sign_block (store_set_block st0 bb) bb bps) as Hp.
    destruct (sign_block (store_set_block st0 bb) bb bps) as [b2 st2]. cbn [fst snd] in *.
    rewrite fsv_deliver, process_receipts_noaccept.
    + rewrite fsv_set_anchor_block, Hp, fsv_store_set_block. exact P0.
    + intros t Ht. apply H. rewrite <- Hbb, <- Hi. exact Ht.
  - rewrite fsv_deliver, fsv_store_set_block. exact P0.
Qed.

Lemma fsv_add_consensus_events l : forall s, fsv (fold_left add_consensus_event l s) = fsv s.
Proof. induction l as [|fe r IH]; intros s; cbn [fold_left]; [reflexivity|]. rewrite IH. destruct s; reflexivity. Qed.


Lemma process_frame_fsv all s f :
  from_attempts s all -> no_accept all -> fsv (process_frame s f) = fsv s.
Proof.
  intros FA NA. unfold process_frame. destruct (f_events f) as [|fe rest] eqn:E; [reflexivity|].
  cbv zeta. set (s1 := fold_left add_consensus_event (fe :: rest) s).
  assert (P1 : fsv s1 = fsv s) by apply fsv_add_consensus_events.
  assert (FA1 : from_attempts s1 all).
  { intros x es Hx. apply (FA x es). unfold get_event in *. subst s1. rewrite events_add_consensus_events in Hx. exact Hx. }
  set (b := block_of_frame _ _ _).
  assert (Hb : forall t, In t (b_itxs b) -> itx_accept t = false).
  { intros t Ht. eapply block_of_frame_itxs; eauto. }
  destruct (b_txs b), (b_itxs b) eqn:Ei; try exact P1;
    (rewrite commit_fsv; [rewrite fsv_store_set_block; exact P1|rewrite Ei; exact Hb]).
Qed.

Lemma fsv_get_frame st rr : fsv (snd (get_frame st rr)) = fsv st.
Proof.
  unfold get_frame.
  destruct (zget rr (frames st)); [reflexivity|].
  destruct (get_round st rr); [|reflexivity].
  destruct (get_peerset st rr); [|reflexivity].
  match goal with |- context [fold_left ?f ?l ?a] => destruct (fold_left f l a) end; [|reflexivity].
  match goal with |- context [fold_left ?f (repertoire st) ?a] => destruct (fold_left f (repertoire st) a) end;
    [|reflexivity].
  cbn [snd]. destruct st; reflexivity.
Qed.

Lemma fsv_bump s r : fsv (bump_last_consensus s r) = fsv s.
Proof.
  unfold bump_last_consensus. destruct (last_consensus s) as [l|]; [destruct (l <? r)|];
    try reflexivity; destruct s; reflexivity.
Qed.

Lemma process_round_fsv all s processed stop pr :
  from_attempts s all -> no_accept all ->
  fsv (fst (fst (process_round (s, processed, stop) pr))) = fsv s.
Proof.
  intros FA NA. unfold process_round.
  destruct (stop || failed s); [reflexivity|].
  destruct (negb (snd pr)); [reflexivity|].
  destruct (get_round s (fst pr)); [|apply fsv_fail].
  pose proof (get_frame_frame s (fst pr)) as F.
  pose proof (fsv_get_frame s (fst pr)) as P.
  destruct (get_frame s (fst pr)) as [[f|] s1]; cbn [fst snd] in *.
  - rewrite fsv_bump, (process_frame_fsv all); [exact P| |exact NA].
    eapply from_attempts_frame; eauto.
  - rewrite fsv_fail. exact P.
Qed.

Lemma process_decided_rounds_fsv all st :
  from_attempts st all -> no_accept all -> fsv (process_decided_rounds st) = fsv st.
Proof.
  intros FA NA. unfold process_decided_rounds.
  assert (G : forall l s p b, from_attempts s all ->
              fsv (fst (fst (fold_left process_round l (s, p, b)))) = fsv s).
  { induction l as [|pr rest IH]; intros s p b FAs; cbn [fold_left]; [reflexivity|].
    pose proof (process_round_fsv all s p b pr FAs NA) as P.
    pose proof (process_round_frame s p b pr) as F.
    destruct (process_round (s, p, b) pr) as [[s' p'] b']. cbn [fst] in *.
    rewrite IH; [exact P|]. eapply from_attempts_frame; eauto. }
  specialize (G (pending st) st [] false FA).
  destruct (fold_left process_round (pending st) (st, [], false)) as [[s processed] stop]. cbn [fst] in G.
  rewrite <- G. destruct s; reflexivity.
Qed.

Lemma run_consensus_fsv all st :
  from_attempts st all -> no_accept all -> fsv (run_consensus st) = fsv st.
Proof.
  intros FA NA. unfold run_consensus.
  pose proof (divide_rounds_frame st) as F1. pose proof (divide_rounds_fsv st) as P1.
  set (s1 := divide_rounds st) in *.
  destruct (failed s1); [exact P1|].
  pose proof (decide_fame_frame s1) as F2. pose proof (decide_fame_fsv s1) as P2.
  set (s2 := decide_fame s1) in *.
  destruct (failed s2); [congruence|].
  pose proof (decide_round_received_frame s2) as F3.
  pose proof (decide_round_received_fsv s2) as P3.
  set (s3 := decide_round_received s2) in *.
  destruct (failed s3); [congruence|].
  rewrite (process_decided_rounds_fsv all); [congruence| |exact NA].
  eapply from_attempts_frame; [|exact F3]. eapply from_attempts_frame; [|exact F2].
  eapply from_attempts_frame; eauto.
Qed.

Lemma step_fsv all st e :
  dag_ok st -> from_attempts st all -> ids_determine all -> In e all -> 0 <= e_id e -> no_accept all ->
  fsv (step st e) = fsv st.
Proof.
  intros OK FA ID Hin Hid NA. unfold step, insert_and_run.
  pose proof (insert_event_fsv st e) as P.
  destruct (insert_event st e) as [r s] eqn:E. cbn [snd] in P.
  destruct (insert_event_inv st e all r s OK FA ID Hin Hid E) as [_ [FA' _]].
  destruct r; cbn [snd]; try exact P.
  rewrite (run_consensus_fsv all); auto.
Qed.

Lemma process_sig_fsv st s : fsv (process_sig st s) = fsv st.
Proof.
  unfold process_sig.
  destruct (zget (bs_index s) (blocks st)) as [b|]; [|reflexivity].
  destruct (get_peerset st (b_rr b)); [|reflexivity].
  destruct (negb (mem_key _ _)); [reflexivity|].
  destruct (negb (_ =? _)); [reflexivity|].
  cbv zeta. set (b' := b <| b_sigs := _ |>).
  transitivity (fsv (set_anchor_block (store_set_block st b') b')); [destruct (set_anchor_block _ _); reflexivity|].
  rewrite fsv_set_anchor_block. apply fsv_store_set_block.
Qed.

Lemma process_sigpool_fsv st : fsv (process_sigpool st) = fsv st.
Proof.
  unfold process_sigpool. generalize (sigpool st) as l. intros l. revert st.
  induction l as [|s r IH]; intros st; cbn [fold_left]; [reflexivity|].
  rewrite IH. apply process_sig_fsv.
Qed.
