(* Stage D2 (a'): the distance bound implies the window.  If after every step last_round is at most
   5 above the next round to be processed before the step (Model/Window.v gap_stepb), then every table
   entry the step writes is above every existing round (window_stepb): the blocks a step delivers have a
   round-received above the last consensus round of the state before the step, and their entries are at
   round-received + 6.  No membership premise; arbitrary operations. *)
From Coq Require Import ZArith List Bool Lia ZifyBool Sorted.
From RecordUpdate Require Import RecordSet.
From V Require Import Model.ZMap Model.Quorum Model.HgImpl Model.PeerSetSpec Model.Window
  Proofs.HgFrames Proofs.BlockInv Proofs.HgBlockFrames Proofs.RoundOrder Proofs.PeerSetProofs Proofs.TidyRR
  Proofs.LrMono Proofs.WindowStable.
Import ListNotations RecordSetNotations.
Open Scope Z_scope.

(* the blocks a state gained over a base state have a round-received above the base's last consensus round *)
Definition newabove (st s : hg) : Prop := forall d, In d (delivered s) -> In d (delivered st) \/ lc_lt st (b_rr d).

Lemma newabove_refl st : newabove st st.
Proof. intros d H. left. exact H. Qed.

Lemma newabove_same st s s' : delivered s' = delivered s -> newabove st s -> newabove st s'.
Proof. intros E H d Hd. rewrite E in Hd. apply H. exact Hd. Qed.

Lemma process_round_new s p stop pr : rinvA s ->
  forall d, In d (delivered (fst (fst (process_round (s, p, stop) pr)))) -> In d (delivered s) \/ b_rr d = fst pr.
Proof.
  intros A d. unfold process_round.
  destruct (stop || failed s); [cbn [fst]; auto|].
  destruct (negb (snd pr)); [cbn [fst]; auto|].
  destruct (get_round s (fst pr)); [|cbn [fst]; replace (delivered (fail s)) with (delivered s) by (destruct s; reflexivity); auto].
  destruct (get_frame s (fst pr)) as [[f|] s1] eqn:Hgf.
  2:{ apply get_frame_none in Hgf. subst s1. cbn [fst]. replace (delivered (fail s)) with (delivered s) by (destruct s; reflexivity). auto. }
  destruct (get_frame_spec s (fst pr) f s1 (r_frames s A) Hgf) as [Hfr [Hd1 _]]. cbn [fst].
  destruct (bump_keep (process_frame s1 f) (fst pr)) as [_ [_ Dl3]]. rewrite Dl3.
  destruct (process_frame_delivered s1 f) as [E|[bf [E Hb]]]; rewrite E, Hd1; [auto|].
  intros Hin. apply in_app_or in Hin. destruct Hin as [Hin|[<-|[]]]; [left; exact Hin|right; congruence].
Qed.

Lemma process_fold_new l : forall s p stop,
  rinvA s -> StronglySorted Z.lt (map fst l) -> (forall r, In r (map fst l) -> lc_lt s r) ->
  forall d, In d (delivered (fst (fst (fold_left process_round l (s, p, stop))))) ->
            In d (delivered s) \/ In (b_rr d) (map fst l).
Proof.
  induction l as [|pr l IH]; intros s p stop A S Hab d; cbn [fold_left]; [cbn [fst]; auto|].
  inversion S as [|a b S' Fa]; subst.
  assert (Hpr : lc_lt s (fst pr)) by (apply Hab; left; reflexivity).
  destruct (process_round_spec s p stop pr A Hpr) as [A1 [K1 C]].
  pose proof (process_round_new s p stop pr A) as N1.
  destruct (process_round (s, p, stop) pr) as [[s1 p1] stop1] eqn:E. cbn [fst snd] in *.
  destruct C as [[-> [Hlc Hs]]|[-> [Hd Hlc]]].
  - rewrite (process_fold_stopped l s1 p stop1 Hs). cbn [fst]. intros Hin.
    destruct (N1 d Hin) as [H|H]; [left; exact H|right; left; symmetry; exact H].
  - assert (Hab1 : forall r, In r (map fst l) -> lc_lt s1 r).
    { intros r Hr. unfold lc_lt. rewrite Hlc. rewrite Forall_forall in Fa. apply Fa. exact Hr. }
    intros Hin. destruct (IH s1 (p ++ [fst pr]) stop1 A1 S' Hab1 d Hin) as [H|H]; [|right; right; exact H].
    destruct (N1 d H) as [H'|H']; [left; exact H'|right; left; symmetry; exact H'].
Qed.

Lemma process_decided_rounds_new st : rinv st -> newabove st (process_decided_rounds st).
Proof.
  intros [A B] d. unfold process_decided_rounds.
  pose proof (process_fold_new (pending st) st [] false A (r_sorted st A) (r_above st B) d) as G.
  destruct (fold_left process_round (pending st) (st, [], false)) as [[s processed] stop]. cbn [fst] in G.
  replace (delivered (s <| pending := _ |>)) with (delivered s) by (destruct s; reflexivity).
  intros Hin. destruct (G Hin) as [H|H]; [left; exact H|right]. apply (r_above st B). exact H.
Qed.

Lemma run_consensus_new st : rtop st -> newabove st (run_consensus st).
Proof.
  intros [Hs Hi]. unfold run_consensus.
  destruct (failed st) eqn:Hf.
  { rewrite (divide_rounds_failed st Hf), Hf. apply newabove_refl. }
  specialize (Hi eq_refl).
  pose proof (divide_rounds_rinv st (or_intror Hi)) as I1.
  pose proof (divide_rounds_bview st) as B1.
  destruct (failed (divide_rounds st)) eqn:Hf1.
  { apply (newabove_same st st); [apply (delivered_bview _ _ B1)|apply newabove_refl]. }
  destruct I1 as [I1|I1]; [congruence|].
  pose proof (decide_fame_rinv _ I1) as I2. pose proof (decide_fame_bview (divide_rounds st)) as B2.
  assert (D2 : delivered (decide_fame (divide_rounds st)) = delivered st).
  { rewrite (delivered_bview _ _ B2). apply (delivered_bview _ _ B1). }
  destruct (failed (decide_fame (divide_rounds st))); [apply (newabove_same st st); [exact D2|apply newabove_refl]|].
  assert (I3 : rinv (decide_round_received (decide_fame (divide_rounds st)))).
  { eapply rinv_rstep; [exact I2|]. apply decide_round_received_rstep. apply (rinv_bounded _ I2). }
  pose proof (decide_round_received_bview (decide_fame (divide_rounds st))) as B3.
  set (s3 := decide_round_received (decide_fame (divide_rounds st))) in *.
  assert (D3 : delivered s3 = delivered st) by (rewrite (delivered_bview _ _ B3); exact D2).
  assert (L3 : last_consensus s3 = last_consensus st).
  { unfold bview in B1, B2, B3. inversion B1. inversion B2. inversion B3. congruence. }
  destruct (failed s3); [apply (newabove_same st st); [exact D3|apply newabove_refl]|].
  intros d Hd. destruct (process_decided_rounds_new s3 I3 d Hd) as [H|H]; [left; rewrite <- D3; exact H|right].
  unfold lc_lt in *. rewrite <- L3. exact H.
Qed.

Lemma hstep_new st o : rtop st -> newabove st (hstep st o).
Proof.
  intros T. destruct o as [e|]; cbn [hstep].
  - unfold step, insert_and_run.
    pose proof (insert_event_rstep st e) as S. pose proof (insert_event_failed st e) as F.
    destruct (insert_event st e) as [r s]. cbn [snd] in *.
    assert (Ts : rtop s) by (eapply rtop_rstep; eauto).
    assert (N0 : newabove st s) by (apply (newabove_same st st); [apply (s_del _ _ S)|apply newabove_refl]).
    destruct r; cbn [snd]; try exact N0.
    intros d Hd. destruct (run_consensus_new s Ts d Hd) as [H|H]; [left; rewrite <- (s_del _ _ S); exact H|right].
    unfold lc_lt in *. rewrite <- (s_lc _ _ S). exact H.
  - apply (newabove_same st st); [|apply newabove_refl].
    assert (Erv : rv (process_sigpool st) = rv st).
    { unfold process_sigpool. generalize (sigpool st). intros l. generalize st. clear.
      induction l as [|s l IHl]; intros st; cbn [fold_left]; [reflexivity|]. rewrite IHl. apply (proj1 (process_sig_rv st s)). }
    unfold rv in Erv. inversion Erv. reflexivity.
Qed.

Lemma sorted_app_disjoint (l1 l2 : list Z) x : StronglySorted Z.lt (l1 ++ l2) -> In x l1 -> In x l2 -> False.
Proof.
  induction l1 as [|a l1 IH]; intros S H1 H2; [destruct H1|].
  cbn [app] in S. inversion S as [|? ? S' Fa]; subst. destruct H1 as [E|H1]; [|apply IH; assumption].
  subst a. rewrite Forall_forall in Fa. specialize (Fa x (in_or_app _ _ _ (or_intror H2))). lia.
Qed.

(** * gap => window *)
Section Node.
  Variables (self_ : Z) (genesis : peerset) (oracle_ : list Z).
  Hypothesis Hself : self_ <> -1.
  Notation R := (reach self_ genesis oracle_).

  Lemma gap_step_window ops o : gap_stepb (R ops) (hstep (R ops) o) = true -> window_stepb (R ops) (hstep (R ops) o) = true.
  Proof.
    intros Hg. unfold gap_stepb in Hg. apply Z.leb_le in Hg.
    assert (E' : hstep (R ops) o = R (ops ++ [o])) by (rewrite reach_app; reflexivity).
    destruct (hrun_c10inv self_ genesis oracle_ ops Hself) as [_ I1]. fold (R ops) in I1.
    destruct (hstep_del (R ops) o (hrun_binv self_ genesis oracle_ ops)) as [l Hl].
    pose proof (reach_table self_ genesis oracle_ ops Hself) as T1.
    pose proof (reach_table self_ genesis oracle_ (ops ++ [o]) Hself) as T2.
    rewrite <- E' in T2. rewrite Hl in T2. rewrite replay_app in T2. rewrite <- T1 in T2. cbn [fst snd] in T2.
    apply (f_equal fst) in T2. cbn [fst] in T2.
    pose proof (hstep_new (R ops) o (hrun_rtop self_ genesis oracle_ ops)) as N.
    unfold window_stepb, new_entries. apply forallb_forall. intros k Hk. apply filter_In in Hk. destruct Hk as [Hk1 Hk2].
    apply in_map_iff in Hk1. destruct Hk1 as [[k0 p] [E0 Hin]]. cbn in E0. subst k0.
    rewrite T2 in Hin. destruct (replay_keys _ _ _ _ _ Hin) as [[p0 Hp0]|[d [Hd Ek]]].
    - exfalso. apply negb_true_iff in Hk2. apply Bool.not_true_iff_false in Hk2. apply Hk2.
      apply existsb_exists. exists k. split; [apply in_map_iff; exists (k, p0); auto|apply Z.eqb_refl].
    - assert (Hd' : In d (delivered (hstep (R ops) o))) by (rewrite Hl; apply in_or_app; right; exact Hd).
      destruct (N d Hd') as [Hold|Hab].
      + (* an old block: its key was already tried in the old table *)
        exfalso. apply negb_true_iff in Hk2. apply Bool.not_true_iff_false in Hk2. apply Hk2.
        (* d old and d in l: the delivered list has no repetition of round-received *)
        assert (Srt : StronglySorted Z.lt (map b_rr (delivered (hstep (R ops) o))))
          by (rewrite E'; apply (reach_rr_increasing self_ genesis oracle_ (ops ++ [o]))).
        rewrite Hl, map_app in Srt.
        exfalso. apply (sorted_app_disjoint _ _ (b_rr d) Srt); [apply in_map; exact Hold|apply in_map; exact Hd].
      + assert (H0 : 0 <= b_rr d).
        { destruct (hrun_c10inv self_ genesis oracle_ (ops ++ [o]) Hself) as [_ I2]. fold (R (ops ++ [o])) in I2. rewrite <- E' in I2.
          pose proof (c10inv_rr_nonneg _ _ I2) as F2. rewrite Forall_forall in F2. apply F2. exact Hd'. }
        apply Z.ltb_lt. subst k. unfold lc_lt, lc_next in *. destruct (last_consensus (reach self_ genesis oracle_ ops)); lia.
  Qed.
End Node.

(** * On runs *)
Fixpoint gap_runb (st : hg) (ops : list hop) : bool :=
  match ops with
  | [] => true
  | o :: r => gap_stepb st (hstep st o) && gap_runb (hstep st o) r
  end.

Lemma gap_run_window self_ genesis oracle_ : self_ <> -1 -> forall ops2 ops1,
  gap_runb (reach self_ genesis oracle_ ops1) ops2 = true -> window_runb (reach self_ genesis oracle_ ops1) ops2 = true.
Proof.
  intros Hs. induction ops2 as [|o ops2 IH]; intros ops1 H; [reflexivity|].
  cbn [gap_runb window_runb] in *. apply andb_prop in H. destruct H as [H1 H2].
  rewrite (gap_step_window self_ genesis oracle_ Hs ops1 o H1). cbn [andb].
  assert (E' : hstep (reach self_ genesis oracle_ ops1) o = reach self_ genesis oracle_ (ops1 ++ [o])) by (rewrite reach_app; reflexivity).
  rewrite E' in *. apply IH. exact H2.
Qed.

(* under the distance bound every validator-set lookup made during the run returns the final answer *)
Theorem gap_lookup_final self_ genesis oracle_ ops k r :
  self_ <> -1 -> gap_runb (init_hg self_ genesis oracle_) ops = true ->
  r <= last_round (hrun (init_hg self_ genesis oracle_) (firstn k ops)) ->
  get_peerset (hrun (init_hg self_ genesis oracle_) (firstn k ops)) r = get_peerset (hrun (init_hg self_ genesis oracle_) ops) r.
Proof.
  intros Hs Hg Hr. apply (window_lookup_final self_ genesis oracle_ Hs ops k r); [|exact Hr].
  apply (gap_run_window self_ genesis oracle_ Hs ops []). exact Hg.
Qed.
