(* Proofs about Model/Gate.v (C17). *)
From Coq Require Import ZArith List Bool Lia.
From RecordUpdate Require Import RecordSet.
From V Require Import Model.Gate.
Import ListNotations RecordSetNotations.
Open Scope Z_scope.

(* ---------- the part of a node that a frozen node may not change ---------- *)
Definition same_core (a b : node) : Prop :=
  n_state a = n_state b /\ n_evs a = n_evs b /\ n_parts a = n_parts b /\ n_self a = n_self b /\
  n_delivered a = n_delivered b /\ n_ipool a = n_ipool b /\ n_undet a = n_undet b /\
  n_init_undet a = n_init_undet b /\ n_validators a = n_validators b /\
  n_suspend_limit a = n_suspend_limit b /\ n_sync_limit a = n_sync_limit b /\
  n_removed a = n_removed b /\ n_accepted a = n_accepted b /\ n_lcr a = n_lcr b /\
  n_anchor a = n_anchor b.

Lemma same_core_refl : forall a, same_core a a.
Proof. intro a. unfold same_core. repeat split. Qed.

Lemma same_core_trans : forall a b c, same_core a b -> same_core b c -> same_core a c.
Proof.
  unfold same_core. intros a b c Hab Hbc.
  repeat match goal with H : _ /\ _ |- _ => destruct H end.
  repeat split; etransitivity; eassumption.
Qed.

Lemma sync_response_same_core : forall a b k l,
  same_core a b -> sync_response a k l = sync_response b k l.
Proof.
  intros a b k l H. unfold same_core in H.
  repeat match goal with H : _ /\ _ |- _ => destruct H end.
  unfold sync_response, known_events.
  repeat match goal with H : _ = _ |- _ => rewrite H; clear H end. reflexivity.
Qed.

Lemma add_transaction_core : forall n, same_core (add_transaction n) n.
Proof. intro n. unfold same_core, add_transaction. cbn. repeat split. Qed.

Lemma add_transaction_pool : forall n, n_pool (add_transaction n) = n_pool n + 1.
Proof. reflexivity. Qed.

(* ---------- the gate ---------- *)
Lemma gate_closed : forall s r, gate_passes s r = true -> s = Babbling \/ (s = Suspended /\ is_sync r = true).
Proof. intros s r H. destruct s; cbn in H; try discriminate; auto. Qed.

Lemma process_rpc_refused : forall n r,
  gate_passes (n_state n) r = false -> process_rpc n r = (n, RespGate).
Proof. intros n r H. unfold process_rpc. rewrite H. reflexivity. Qed.

Lemma process_rpc_sync_suspended : forall n k l,
  n_state n = Suspended -> process_rpc n (RSync k l) = (n, sync_response n k l).
Proof. intros n k l H. unfold process_rpc. rewrite H. reflexivity. Qed.

Lemma process_rpc_sync_babbling : forall n k l,
  n_state n = Babbling -> process_rpc n (RSync k l) = (n, sync_response n k l).
Proof. intros n k l H. unfold process_rpc. rewrite H. reflexivity. Qed.

(* one step of a non-babbling node *)
Lemma step_frozen : forall n i,
  n_state n <> Babbling ->
  let (n', o) := step n i in
  same_core n' n /\
  n_pool n' = n_pool n + (match i with ITx => 1 | _ => 0 end) /\
  o = frozen_answer n i.
Proof.
  intros n i Hs. destruct i as [r | | e]; cbn [step].
  - (* rpc *)
    destruct (gate_passes (n_state n) r) eqn:Hg.
    + apply gate_closed in Hg. destruct Hg as [Hb | [Hsus Hsy]]; [contradiction |].
      destruct r; cbn in Hsy; try discriminate.
      rewrite (process_rpc_sync_suspended n known limit Hsus).
      split; [apply same_core_refl |]. split; [lia |].
      cbn [frozen_answer]. rewrite Hsus. reflexivity.
    + rewrite (process_rpc_refused n r Hg).
      split; [apply same_core_refl |]. split; [lia |].
      destruct r; cbn [frozen_answer]; try reflexivity.
      destruct (n_state n); cbn in Hg; try discriminate; try reflexivity.
  - split; [apply add_transaction_core |]. split; [apply add_transaction_pool | reflexivity].
  - destruct (n_state n) eqn:E; try contradiction;
      (split; [apply same_core_refl |]; split; [lia | reflexivity]).
Qed.

Lemma frozen_answer_same_core : forall a b i, same_core a b -> frozen_answer a i = frozen_answer b i.
Proof.
  intros a b i H. destruct i as [r | | e]; try reflexivity.
  destruct r; try reflexivity. cbn [frozen_answer].
  rewrite (sync_response_same_core a b known limit H).
  destruct H as [Hs _]. rewrite Hs. reflexivity.
Qed.

Lemma count_tx_cons : forall i is,
  count_tx (i :: is) = (match i with ITx => 1 | _ => 0 end) + count_tx is.
Proof.
  intros i is. unfold count_tx. cbn [filter]. destruct i; cbn [length]; lia.
Qed.

(* the whole run of a non-babbling node *)
Lemma run_frozen : forall is n,
  n_state n <> Babbling ->
  same_core (fst (run n is)) n /\
  n_pool (fst (run n is)) = n_pool n + count_tx is /\
  snd (run n is) = map (frozen_answer n) is.
Proof.
  induction is as [| i is IH]; intros n Hs.
  - cbn. split; [apply same_core_refl |]. split; [unfold count_tx; cbn; lia | reflexivity].
  - cbn [run]. pose proof (step_frozen n i Hs) as H1.
    destruct (step n i) as [n1 o]. destruct H1 as [Hc [Hp Ho]].
    assert (Hs1 : n_state n1 <> Babbling) by (destruct Hc as [E _]; rewrite E; exact Hs).
    specialize (IH n1 Hs1). destruct (run n1 is) as [n2 os]. cbn [fst snd] in *.
    destruct IH as [Hc2 [Hp2 Ho2]].
    split; [eapply same_core_trans; eassumption |].
    split; [rewrite Hp2, Hp, count_tx_cons; lia |].
    cbn [map]. rewrite Ho, Ho2. f_equal.
    apply map_ext. intro j. apply frozen_answer_same_core. exact Hc.
Qed.

(* every answer of a frozen node is an error, except the sync answer of a Suspended node *)
Lemma frozen_answer_refuses : forall n i r,
  frozen_answer n i = Some r ->
  resp_is_err r = true \/
  (n_state n = Suspended /\ exists k l, i = IRpc (RSync k l) /\ r = sync_response n k l).
Proof.
  intros n i r H. destruct i as [q | | e]; cbn in H; try discriminate.
  destruct q; inversion H; subst; clear H; try (left; reflexivity).
  destruct (n_state n) eqn:E; try (left; reflexivity).
  right. split; [reflexivity |]. eauto.
Qed.

(* ---------- the diff ---------- *)
Lemma event_diff_spec : forall evs known e,
  In e (event_diff evs known) <-> In e evs /\ known_of known (ev_creator e) < ev_index e.
Proof.
  intros evs known e. unfold event_diff. rewrite filter_In. unfold unknown_to.
  rewrite Z.ltb_lt. reflexivity.
Qed.

(* the answer lists a prefix of the diff: nothing the requester knows, nothing the node does not have *)
Lemma sync_response_events : forall n k l err evs kn,
  sync_response n k l = RespSync err evs kn ->
  kn = known_events n /\
  (err = true -> evs = [] /\ diff_fails (n_parts n) k = true) /\
  (err = false ->
     diff_fails (n_parts n) k = false /\
     exists m, evs = firstn m (event_diff (n_evs n) k) /\
       (length evs = length (event_diff (n_evs n) k) \/
        Z.of_nat (length evs) = Z.max 0 (zmin l (n_sync_limit n)))).
Proof.
  intros n k l err evs kn H. unfold sync_response in H.
  destruct (diff_fails (n_parts n) k) eqn:Hf.
  - inversion H; subst. split; [reflexivity |]. split; [auto | discriminate].
  - cbv zeta in H.
    destruct (zmin l (n_sync_limit n) <? Z.of_nat (length (event_diff (n_evs n) k))) eqn:Hl;
      inversion H; subst; clear H; (split; [reflexivity |]); (split; [discriminate |]); intros _;
      (split; [reflexivity |]).
    + exists (Z.to_nat (zmin l (n_sync_limit n))). split; [reflexivity |]. right.
      apply Z.ltb_lt in Hl. rewrite firstn_length. lia.
    + exists (length (event_diff (n_evs n) k)). split; [symmetry; apply firstn_all |]. left. reflexivity.
Qed.

Lemma firstn_incl_in : forall A (l : list A) m x, In x (firstn m l) -> In x l.
Proof.
  intros A l. induction l as [| a l IH]; intros m x H.
  - destruct m; cbn in H; contradiction.
  - destruct m; cbn in H; [contradiction |]. destruct H as [H | H]; [left; exact H | right; eapply IH; exact H].
Qed.

Lemma sync_response_sound : forall n k l err evs kn e,
  sync_response n k l = RespSync err evs kn -> In e evs ->
  In e (n_evs n) /\ known_of k (ev_creator e) < ev_index e.
Proof.
  intros n k l err evs kn e H Hin.
  destruct (sync_response_events n k l err evs kn H) as [_ [He Hn]].
  destruct err.
  - destruct (He eq_refl) as [E _]. subst. contradiction.
  - destruct (Hn eq_refl) as [_ [m [E _]]]. subst.
    apply firstn_incl_in in Hin. apply event_diff_spec. exact Hin.
Qed.

Lemma sync_response_complete : forall n k l evs kn e,
  sync_response n k l = RespSync false evs kn ->
  Z.of_nat (length (event_diff (n_evs n) k)) <= zmin l (n_sync_limit n) ->
  In e (n_evs n) -> known_of k (ev_creator e) < ev_index e -> In e evs.
Proof.
  intros n k l evs kn e H Hlen Hin Hlt. unfold sync_response in H.
  destruct (diff_fails (n_parts n) k); [discriminate |]. cbv zeta in H.
  destruct (zmin l (n_sync_limit n) <? Z.of_nat (length (event_diff (n_evs n) k))) eqn:Hl.
  - apply Z.ltb_lt in Hl. lia.
  - inversion H; subst. apply event_diff_spec. split; assumption.
Qed.

(* sync_response is not a function of the state *)
Lemma sync_response_state : forall n s k l,
  sync_response (n <| n_state := s |>) k l = sync_response n k l.
Proof. intros. reflexivity. Qed.

(* ---------- suspension ---------- *)
Lemma suspend_state : forall n,
  n_state (suspend n) = match n_state n with Shutdown => Shutdown | _ => Suspended end.
Proof. intro n. unfold suspend. destruct (n_state n) eqn:E; cbn; try rewrite E; reflexivity. Qed.

Lemma check_suspend_fires : forall n,
  too_many n = true \/ evicted n = true ->
  n_state (check_suspend n) = match n_state n with Shutdown => Shutdown | _ => Suspended end.
Proof.
  intros n H. unfold check_suspend.
  assert (E : too_many n || evicted n = true) by (apply orb_true_iff; exact H).
  rewrite E. apply suspend_state.
Qed.

Lemma check_suspend_quiet : forall n,
  too_many n = false -> evicted n = false -> check_suspend n = n.
Proof. intros n H1 H2. unfold check_suspend. rewrite H1, H2. reflexivity. Qed.

Lemma suspend_core : forall n,
  n_evs (suspend n) = n_evs n /\ n_self (suspend n) = n_self n /\ n_delivered (suspend n) = n_delivered n /\
  n_pool (suspend n) = n_pool n /\ n_ipool (suspend n) = n_ipool n /\ n_undet (suspend n) = n_undet n /\
  n_init_undet (suspend n) = n_init_undet n /\ n_validators (suspend n) = n_validators n /\
  n_suspend_limit (suspend n) = n_suspend_limit n /\ n_removed (suspend n) = n_removed n /\
  n_accepted (suspend n) = n_accepted n /\ n_lcr (suspend n) = n_lcr n.
Proof. intro n. unfold suspend. destruct (n_state n); cbn; repeat split. Qed.

Lemma check_suspend_core : forall n,
  n_evs (check_suspend n) = n_evs n /\ n_self (check_suspend n) = n_self n /\
  n_delivered (check_suspend n) = n_delivered n /\
  n_pool (check_suspend n) = n_pool n /\ n_ipool (check_suspend n) = n_ipool n /\
  n_undet (check_suspend n) = n_undet n /\
  n_init_undet (check_suspend n) = n_init_undet n /\ n_validators (check_suspend n) = n_validators n /\
  n_suspend_limit (check_suspend n) = n_suspend_limit n /\ n_removed (check_suspend n) = n_removed n /\
  n_accepted (check_suspend n) = n_accepted n /\ n_lcr (check_suspend n) = n_lcr n.
Proof.
  intro n. unfold check_suspend. destruct (too_many n || evicted n); [apply suspend_core | repeat split].
Qed.

Lemma too_many_spec : forall n,
  too_many n = true <-> n_undet n - n_init_undet n > n_suspend_limit n * n_validators n.
Proof. intro n. unfold too_many. rewrite Z.ltb_lt. lia. Qed.

Lemma evicted_spec : forall n,
  evicted n = true <->
  exists l, n_lcr n = Some l /\ n_removed n > 0 /\ n_removed n > n_accepted n /\ l >= n_removed n.
Proof.
  intro n. unfold evicted. destruct (n_lcr n) as [l |].
  - rewrite !andb_true_iff, !Z.ltb_lt, Z.leb_le. split.
    + intros [[H1 H2] H3]. exists l. repeat split; try lia.
    + intros [l' [E [H1 [H2 H3]]]]. inversion E; subst. repeat split; lia.
  - split; [discriminate |]. intros [l [E _]]. discriminate.
Qed.

Lemma step_heartbeat_babbling : forall n e,
  n_state n = Babbling -> fst (step n (IHeartbeat e)) = check_suspend (apply_effect n e).
Proof. intros n e H. cbn [step]. rewrite H. reflexivity. Qed.

Lemma apply_effect_state : forall n e, n_state (apply_effect n e) = n_state n.
Proof. reflexivity. Qed.

Lemma check_suspend_still_babbling : forall m,
  n_state (check_suspend m) = Babbling ->
  check_suspend m = m /\ too_many m = false /\ evicted m = false.
Proof.
  intros m H.
  destruct (too_many m) eqn:Ht.
  - rewrite (check_suspend_fires m (or_introl Ht)) in H. destruct (n_state m); discriminate.
  - destruct (evicted m) eqn:Hev.
    + rewrite (check_suspend_fires m (or_intror Hev)) in H. destruct (n_state m); discriminate.
    + split; [apply check_suspend_quiet; assumption | split; reflexivity].
Qed.

(* after a turn of the babble loop a node that is still Babbling is within the limit and not evicted *)
Lemma heartbeat_bound : forall n e,
  let n' := fst (step n (IHeartbeat e)) in
  n_state n = Babbling -> n_state n' = Babbling ->
  n_undet n' - n_init_undet n' <= n_suspend_limit n' * n_validators n' /\ evicted n' = false.
Proof.
  intros n e n' Hb. subst n'. rewrite (step_heartbeat_babbling n e Hb).
  generalize (apply_effect n e). intros m Hm.
  destruct (check_suspend_still_babbling m Hm) as [E [Ht Hev]]. rewrite E.
  split; [| exact Hev]. unfold too_many in Ht. apply Z.ltb_ge in Ht. lia.
Qed.

(* and a Babbling node over the limit (or evicted) after the turn's work leaves the loop Suspended *)
Lemma heartbeat_suspends : forall n e,
  n_state n = Babbling ->
  too_many (apply_effect n e) = true \/ evicted (apply_effect n e) = true ->
  n_state (fst (step n (IHeartbeat e))) = Suspended.
Proof.
  intros n e Hb H. rewrite (step_heartbeat_babbling n e Hb).
  rewrite (check_suspend_fires _ H), apply_effect_state, Hb. reflexivity.
Qed.

(* ---------- statements in the form used by Properties/C17.v ---------- *)
Lemma frozen_full : forall n is,
  n_state n <> Babbling ->
  let n' := fst (run n is) in
  n_state n' = n_state n /\ n_evs n' = n_evs n /\ n_self n' = n_self n /\
  n_delivered n' = n_delivered n /\ n_undet n' = n_undet n /\ n_ipool n' = n_ipool n /\
  n_pool n' = n_pool n + count_tx is /\
  snd (run n is) = map (frozen_answer n) is /\
  (forall i r, In i is -> frozen_answer n i = Some r ->
     resp_is_err r = true \/
     (n_state n = Suspended /\ exists k l, i = IRpc (RSync k l) /\ r = sync_response n k l)).
Proof.
  intros n is Hs n'. subst n'.
  destruct (run_frozen is n Hs) as [Hc [Hp Ho]].
  unfold same_core in Hc.
  repeat match goal with H : _ /\ _ |- _ => destruct H end.
  repeat split; try assumption.
  intros i r _ Hf. apply frozen_answer_refuses. exact Hf.
Qed.

Lemma suspended_sync_same : forall n k l,
  process_rpc (n <| n_state := Suspended |>) (RSync k l) = (n <| n_state := Suspended |>, sync_response n k l) /\
  process_rpc (n <| n_state := Babbling |>) (RSync k l) = (n <| n_state := Babbling |>, sync_response n k l).
Proof. intros. split; reflexivity. Qed.

Lemma suspends : forall n,
  n_state n = Babbling ->
  (n_undet n - n_init_undet n > n_suspend_limit n * n_validators n \/
   exists l, n_lcr n = Some l /\ n_removed n > 0 /\ n_removed n > n_accepted n /\ l >= n_removed n) ->
  n_state (check_suspend n) = Suspended.
Proof.
  intros n Hb H.
  assert (H' : too_many n = true \/ evicted n = true).
  { destruct H as [H | H]; [left; apply too_many_spec; exact H | right; apply evicted_spec; exact H]. }
  rewrite (check_suspend_fires n H'), Hb. reflexivity.
Qed.

Lemma suspends_only_if : forall n,
  n_state n = Babbling -> n_state (check_suspend n) <> Babbling ->
  (n_undet n - n_init_undet n > n_suspend_limit n * n_validators n \/
   exists l, n_lcr n = Some l /\ n_removed n > 0 /\ n_removed n > n_accepted n /\ l >= n_removed n).
Proof.
  intros n Hb H.
  destruct (too_many n) eqn:Ht; [left; apply too_many_spec; exact Ht |].
  destruct (evicted n) eqn:He; [right; apply evicted_spec; exact He |].
  rewrite (check_suspend_quiet n Ht He) in H. contradiction.
Qed.

Lemma maintenance_frozen : forall n is inp fs,
  n_state n = init_state true inp fs ->
  n_state n = Suspended /\ n_evs (fst (run n is)) = n_evs n /\ n_self (fst (run n is)) = n_self n /\
  n_delivered (fst (run n is)) = n_delivered n.
Proof.
  intros n is inp fs H. cbn in H. split; [exact H |].
  assert (Hs : n_state n <> Babbling) by (rewrite H; discriminate).
  destruct (frozen_full n is Hs) as [_ [H1 [H2 [H3 _]]]]. auto.
Qed.
