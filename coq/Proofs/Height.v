(* A height function on the stored DAG (parents strictly lower), obtained from the Lamport
   timestamps of a state in which no pass failed. *)
From Coq Require Import ZArith List Bool Lia ZifyBool.
From V Require Import Model.ZMap Model.Quorum Model.HgImpl Proofs.OrderProofs.
Import ListNotations.
Open Scope Z_scope.

Definition hmeasure (st : hg) (h : Z -> Z) : Prop :=
  forall x ex p, get_event st x = Some ex -> p <> -1 -> (e_sp (ev_e ex) = p \/ e_op (ev_e ex) = p) ->
    0 <= h p < h x.

(** * The Lamport timestamps give a height function *)
Lemma ginv_hmeasure all st : ginv all st -> failed st = false ->
  hmeasure st (fun x => match zget x (lt_memo st) with Some t => t | None => 0 end).
Proof.
  intros Gi Hf x ex p Hx Hn Hp.
  pose proof (gi_all _ _ Gi Hf) as AL. pose proof (g_l _ _ (gi_core _ _ Gi)) as L.
  destruct (ev_lt ex) as [t|] eqn:Et; [|exfalso; apply (AL x ex Hx Et)].
  destruct (lamport_strict all st x ex t Gi Hx Et) as [a [b [Ha [Hb [Ha0 [Hb0 Ht]]]]]].
  rewrite (l_ev _ L x ex t Hx Et).
  destruct (l_par _ L x ex t p Hx Et ltac:(destruct Hp; auto) Hn) as [ep [tp [Hep Htp]]].
  rewrite (l_ev _ L p ep tp Hep Htp).
  pose proof (memo_consistent_nonneg st p tp (l_memo _ L) (l_ev _ L p ep tp Hep Htp)) as Hnn.
  unfold parent_ts in Ha, Hb.
  destruct Hp as [Hp|Hp]; rewrite Hp in *.
  - destruct (Z.eqb_spec p (-1)); [contradiction|]. rewrite Hep, Htp in Ha. inversion Ha. lia.
  - destruct (Z.eqb_spec p (-1)); [contradiction|]. rewrite Hep, Htp in Hb. inversion Hb. lia.
Qed.

(* the same from the Lamport invariant alone (usable in the middle of a consensus run) *)
Lemma linv_hmeasure st : linv st -> all_lt st ->
  hmeasure st (fun x => match zget x (lt_memo st) with Some t => t | None => 0 end).
Proof.
  intros L AL x ex p Hx Hn Hp.
  destruct (ev_lt ex) as [t|] eqn:Et; [|exfalso; apply (AL x ex Hx Et)].
  pose proof (l_ev _ L x ex t Hx Et) as Hm. rewrite Hm.
  destruct (l_memo _ L x t Hm) as [ex' [a [b [Hx' [Ha [Hb [Ga [Gb Et']]]]]]]].
  rewrite Hx in Hx'. inversion Hx'; subst ex'.
  destruct (l_par _ L x ex t p Hx Et ltac:(destruct Hp; auto) Hn) as [ep [tp [Hep Htp]]].
  pose proof (l_ev _ L p ep tp Hep Htp) as Hmp. rewrite Hmp.
  pose proof (memo_consistent_nonneg st p tp (l_memo _ L) Hmp) as Hnn.
  unfold parent_lt in Ha, Hb.
  destruct Hp as [Hp|Hp]; rewrite Hp in *.
  - destruct (Z.eqb_spec p (-1)); [contradiction|]. rewrite Hmp in Ha. inversion Ha. lia.
  - destruct (Z.eqb_spec p (-1)); [contradiction|]. rewrite Hmp in Hb. inversion Hb. lia.
Qed.
