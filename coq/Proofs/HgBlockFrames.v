(* Which functions can change the block store, the delivered list, the validator-set table and
   the node-level components: only commit (inside ProcessDecidedRounds) and ProcessSigPool.
   [bview] projects those components; every other function preserves it. *)
From Coq Require Import ZArith List Bool Lia.
From RecordUpdate Require Import RecordSet.
From V Require Import Model.ZMap Model.Quorum Model.Voting Model.HgImpl Proofs.ZMapFacts Proofs.HgFrames.
Import ListNotations RecordSetNotations.
Open Scope Z_scope.

Definition bview (st : hg) :=
  (blocks st, last_block st, delivered st, peersets st, validators st, anchor st, self st, oracle st,
   self_sigs st, frames st, last_consensus st).

Lemma bview_nomemo st st' : nomemo st' = nomemo st -> bview st' = bview st.
Proof. intros H. unfold bview. destruct st, st'. cbn in *. inversion H. reflexivity. Qed.

Lemma bview_set_evst st x e : bview (set_evst st x e) = bview st.
Proof. destruct st; reflexivity. Qed.
Lemma bview_set_round st r ri : bview (set_round st r ri) = bview st.
Proof. destruct st; reflexivity. Qed.
Lemma bview_fail st : bview (fail st) = bview st.
Proof. destruct st; reflexivity. Qed.
Lemma bview_set_pending st p : bview (st <| pending := p |>) = bview st.
Proof. destruct st; reflexivity. Qed.
Lemma bview_set_rounds st p : bview (st <| rounds := p |>) = bview st.
Proof. destruct st; reflexivity. Qed.
Lemma bview_set_undetermined st p : bview (st <| undetermined := p |>) = bview st.
Proof. destruct st; reflexivity. Qed.
Lemma bview_set_pending_loaded st p : bview (st <| pending_loaded := p |>) = bview st.
Proof. destruct st; reflexivity. Qed.
Lemma bview_set_sigpool st p : bview (st <| sigpool := p |>) = bview st.
Proof. destruct st; reflexivity. Qed.
Lemma bview_set_topo st p : bview (st <| topo := p |>) = bview st.
Proof. destruct st; reflexivity. Qed.

Lemma round_f_bview fuel st x : bview (snd (round_f fuel st x)) = bview st.
Proof. apply bview_nomemo, round_f_nomemo. Qed.
Lemma witness_f_bview fuel st x : bview (snd (witness_f fuel st x)) = bview st.
Proof. apply bview_nomemo, witness_f_nomemo. Qed.
Lemma lamport_f_bview fuel st x : bview (snd (lamport_f fuel st x)) = bview st.
Proof. apply bview_nomemo, lamport_f_nomemo. Qed.

Lemma fd_walk_bview fuel : forall st c index x ah, bview (fd_walk fuel st c index x ah) = bview st.
Proof.
  induction fuel as [|f IH]; intros st c index x ah; cbn [fd_walk]; [reflexivity|].
  destruct (get_event st ah) as [a|]; [|reflexivity].
  destruct (aget c (ev_fd a)); [reflexivity|].
  set (st1 := set_evst st ah _).
  pose proof (witness_f_bview (fuel_of st1) st1 ah) as F2.
  assert (F1 : bview st1 = bview st) by apply bview_set_evst.
  destruct (witness_f (fuel_of st1) st1 ah) as [[[|]|] st2]; cbn [snd] in F2; try rewrite IH; congruence.
Qed.

Lemma fold_bview {A} (f : hg -> A -> hg) (l : list A) :
  (forall s a, bview (f s a) = bview s) -> forall st, bview (fold_left f l st) = bview st.
Proof.
  intros Hf. induction l as [|a r IH]; intros st; cbn [fold_left]; [reflexivity|]. rewrite IH. apply Hf.
Qed.

Lemma update_ancestor_fd_bview st e la : bview (update_ancestor_fd st e la) = bview st.
Proof. unfold update_ancestor_fd. apply fold_bview. intros s ce. apply fd_walk_bview. Qed.

Lemma store_set_event_bview st es st' : store_set_event st es = Some st' -> bview st' = bview st.
Proof.
  unfold store_set_event. destruct (get_event st _).
  - intros H; inversion H. apply bview_set_evst.
  - destruct (zget _ _); [|discriminate]. destruct (pidx_set _ _ _); [|discriminate].
    intros H; inversion H. rewrite bview_set_evst. destruct st; reflexivity.
Qed.

Lemma insert_event_bview st e : bview (snd (insert_event st e)) = bview st.
Proof.
  unfold insert_event. destruct (negb _); [reflexivity|].
  destruct (check_self_parent st e); try reflexivity.
  destruct (check_other_parent st e); try reflexivity.
  unfold insert_admitted. cbv zeta.
  destruct (store_set_event _ _) as [st2|] eqn:E; cbn [snd]; [|apply bview_set_topo].
  apply store_set_event_bview in E. rewrite bview_set_topo in E.
  rewrite bview_set_sigpool.
  destruct (is_loaded e); rewrite ?bview_set_pending_loaded, bview_set_undetermined, update_ancestor_fd_bview; exact E.
Qed.

(** DivideRounds / DecideFame / DecideRoundReceived *)
Lemma divide_round_bview st x : bview (divide_round st x) = bview st.
Proof.
  unfold divide_round.
  pose proof (round_f_bview (fuel_of st) st x) as Fr.
  destruct (round_f (fuel_of st) st x) as [[r|] s]; cbn [snd] in Fr; [|rewrite bview_fail; exact Fr].
  cbv zeta.
  set (s1 := set_event_round s x r). set (ri := round_or_new s1 r). set (s2 := maybe_queue s1 r ri).
  assert (F1 : bview s1 = bview s).
  { subst s1; unfold set_event_round; destruct (get_event s x); [apply bview_set_evst|reflexivity]. }
  assert (F2 : bview s2 = bview s1).
  { subst s2; unfold maybe_queue; destruct (_ && _ && _); [apply bview_set_pending|reflexivity]. }
  pose proof (witness_f_bview (fuel_of s2) s2 x) as Fw.
  destruct (witness_f (fuel_of s2) s2 x) as [[w|] s']; cbn [snd] in Fw;
    rewrite ?bview_set_round, ?bview_fail; congruence.
Qed.

Lemma divide_lt_bview st x : bview (divide_lt st x) = bview st.
Proof.
  unfold divide_lt.
  pose proof (lamport_f_bview (fuel_of st) st x) as Fl.
  destruct (lamport_f (fuel_of st) st x) as [[t|] s]; cbn [snd] in Fl; [|rewrite bview_fail; exact Fl].
  unfold set_event_lt. destruct (get_event s x); rewrite ?bview_set_evst; exact Fl.
Qed.

Lemma divide_one_bview st x : bview (divide_one st x) = bview st.
Proof.
  unfold divide_one.
  destruct (failed st); [reflexivity|].
  destruct (get_event st x) as [ev|]; [|apply bview_fail].
  cbv zeta.
  set (st1 := match ev_round ev with Some _ => st | None => divide_round st x end).
  assert (F1 : bview st1 = bview st).
  { subst st1; destruct (ev_round ev); [reflexivity|apply divide_round_bview]. }
  destruct (failed st1); [exact F1|].
  destruct (get_event st1 x) as [ev1|]; [|rewrite bview_fail; exact F1].
  destruct (ev_lt ev1); [exact F1|rewrite divide_lt_bview; exact F1].
Qed.

Lemma divide_rounds_bview st : bview (divide_rounds st) = bview st.
Proof. unfold divide_rounds. apply fold_bview. apply divide_one_bview. Qed.

Lemma fold_bview_fst {A B} (f : hg * B -> A -> hg * B) (l : list A) :
  (forall s b a, bview (fst (f (s, b) a)) = bview s) ->
  forall st b, bview (fst (fold_left f l (st, b))) = bview st.
Proof.
  intros Hf. induction l as [|a r IH]; intros st b; cbn [fold_left]; [reflexivity|].
  specialize (Hf st b a). destruct (f (st, b) a) as [s' b']. cbn [fst] in Hf. rewrite IH. exact Hf.
Qed.

Lemma decide_fame_round_bview s dec pr : bview (fst (decide_fame_round (s, dec) pr)) = bview s.
Proof.
  unfold decide_fame_round.
  destruct (failed s); [reflexivity|].
  destruct (get_round s (fst pr)); [|apply bview_fail].
  destruct (get_peerset s (fst pr)); [|apply bview_fail].
  match goal with |- context [fold_left ?f ?l ?a] => destruct (fold_left f l a) end; [|apply bview_fail].
  destruct (witnesses_decided _ _) as [d ri'']. cbn [fst]. apply bview_set_round.
Qed.

Lemma decide_fame_bview st : bview (decide_fame st) = bview st.
Proof.
  unfold decide_fame.
  pose proof (fold_bview_fst decide_fame_round (pending st) decide_fame_round_bview st []) as F.
  destruct (fold_left decide_fame_round (pending st) (st, [])) as [s decided]. cbn [fst] in F.
  destruct (failed s); [exact F|]. rewrite bview_set_pending. exact F.
Qed.

Lemma rr_loop_bview x : forall is_ st, bview (fst (rr_loop st x is_)) = bview st.
Proof.
  induction is_ as [|i rest IH]; intros st; cbn [rr_loop]; [reflexivity|].
  destruct (get_round st i) as [tr|];
    [|destruct (lower_bound st) as [lb0|]; [destruct (i <=? lb0); [apply IH|reflexivity]|reflexivity]].
  destruct (get_peerset st i) as [tps|]; [|apply bview_fail].
  destruct (witnesses_decided tr tps) as [d tr'].
  set (st1 := st <| rounds := zset i tr' (rounds st) |>).
  assert (F1 : bview st1 = bview st) by apply bview_set_rounds.
  destruct d; cbn [negb].
  - match goal with |- context [fold_left ?f ?l ?a] => destruct (fold_left f l a) as [sees|] end;
      [|cbn [fst]; rewrite bview_fail; exact F1].
    destruct (_ && _).
    + destruct (get_event st1 x) as [ex|]; cbn [fst]; rewrite ?bview_set_round, ?bview_set_evst, ?bview_fail; exact F1.
    + rewrite IH. exact F1.
  - destruct (lower_bound st1) as [lb|]; [|exact F1].
    destruct (lb <? i); [exact F1|]. rewrite IH. exact F1.
Qed.

Lemma decide_rr_one_bview s und x : bview (fst (decide_rr_one (s, und) x)) = bview s.
Proof.
  unfold decide_rr_one.
  destruct (failed s); [reflexivity|].
  pose proof (round_f_bview (fuel_of s) s x) as Fr.
  destruct (round_f (fuel_of s) s x) as [[r|] s1]; cbn [snd] in Fr; [|cbn [fst]; rewrite bview_fail; exact Fr].
  pose proof (rr_loop_bview x (zrange (r + 1) (last_round s1)) s1) as Fl.
  destruct (rr_loop s1 x (zrange (r + 1) (last_round s1))) as [s' received]. cbn [fst] in *. congruence.
Qed.

Lemma decide_round_received_bview st : bview (decide_round_received st) = bview st.
Proof.
  unfold decide_round_received.
  pose proof (fold_bview_fst decide_rr_one (undetermined st) decide_rr_one_bview st []) as F.
  destruct (fold_left decide_rr_one (undetermined st) (st, [])) as [s und]. cbn [fst] in F.
  destruct (failed s); [exact F|]. rewrite bview_set_undetermined. exact F.
Qed.
