(* Every consensus pass leaves the admitted DAG alone: the static part of each stored event
   (body, last ancestors, topological index), the key set of the event map and the
   per-creator indexes (up to new, empty participants) do not change. *)
From Coq Require Import ZArith List Bool Lia.
From RecordUpdate Require Import RecordSet.
From V Require Import Model.ZMap Model.Quorum Model.Voting Model.HgImpl Proofs.ZMapFacts Proofs.HgFrames.
Import ListNotations RecordSetNotations.
Open Scope Z_scope.

Definition ev_static (es : evst) : event * coords * Z := (ev_e es, ev_la es, ev_topo es).

Definition ev_static_eq (E E' : zmap evst) : Prop :=
  forall x, option_map ev_static (zget x E') = option_map ev_static (zget x E).

Definition pev_ext (P P' : zmap pidx) : Prop :=
  forall c, zget c P' = zget c P \/ (zget c P = None /\ zget c P' = Some new_pidx).

Definition dag_frame (st st' : hg) : Prop :=
  ev_static_eq (events st) (events st') /\ pev_ext (pevents st) (pevents st') /\ topo st' = topo st.

Lemma ev_static_eq_refl E : ev_static_eq E E.
Proof. intros x; reflexivity. Qed.
Lemma ev_static_eq_trans E1 E2 E3 : ev_static_eq E1 E2 -> ev_static_eq E2 E3 -> ev_static_eq E1 E3.
Proof. intros H1 H2 x; rewrite H2, H1; reflexivity. Qed.
Lemma pev_ext_refl P : pev_ext P P.
Proof. intros c; left; reflexivity. Qed.
Lemma pev_ext_trans P1 P2 P3 : pev_ext P1 P2 -> pev_ext P2 P3 -> pev_ext P1 P3.
Proof.
  intros H1 H2 c. destruct (H2 c) as [E2|[N2 S2]], (H1 c) as [E1|[N1 S1]].
  - left; congruence.
  - right; split; congruence.
  - right; split; congruence.
  - congruence.
Qed.
Lemma dag_frame_refl st : dag_frame st st.
Proof. split; [apply ev_static_eq_refl|split; [apply pev_ext_refl|reflexivity]]. Qed.
Lemma dag_frame_trans s1 s2 s3 : dag_frame s1 s2 -> dag_frame s2 s3 -> dag_frame s1 s3.
Proof.
  intros [A1 [B1 C1]] [A2 [B2 C2]]. split; [eapply ev_static_eq_trans; eauto|].
  split; [eapply pev_ext_trans; eauto|congruence].
Qed.

(* a state that differs only in components outside events/pevents/topo *)
Lemma dag_frame_same st st' :
  events st' = events st -> pevents st' = pevents st -> topo st' = topo st -> dag_frame st st'.
Proof.
  intros E P T. unfold dag_frame. rewrite E, P. split; [apply ev_static_eq_refl|split; [apply pev_ext_refl|exact T]].
Qed.

Lemma dag_frame_nomemo st st' : nomemo st' = nomemo st -> dag_frame st st'.
Proof.
  intros H. apply dag_frame_same.
  - apply nomemo_eq_events; auto.
  - apply (f_equal pevents) in H; destruct st, st'; exact H.
  - apply nomemo_eq_topo; auto.
Qed.

(* updating an event in place without touching its static part *)
Lemma ev_static_eq_set E x es es' :
  zget x E = Some es -> ev_static es' = ev_static es -> ev_static_eq E (zset x es' E).
Proof.
  intros Hx Hs y. rewrite zget_zset.
  destruct (Z.eqb_spec x y) as [->|Hne]; cbn [andb]; [|reflexivity].
  destruct (Z.leb_spec 0 y); [|reflexivity]. rewrite Hx. cbn [option_map]. congruence.
Qed.

Lemma dag_frame_set_evst st x es es' :
  get_event st x = Some es -> ev_static es' = ev_static es -> dag_frame st (set_evst st x es').
Proof.
  intros Hx Hs. unfold dag_frame, set_evst. destruct st; cbn in *.
  split; [eapply ev_static_eq_set; eauto|split; [apply pev_ext_refl|reflexivity]].
Qed.

Lemma dag_frame_set_round st r ri : dag_frame st (set_round st r ri).
Proof. apply dag_frame_same; destruct st; reflexivity. Qed.

Lemma fail_frame st : dag_frame st (fail st).
Proof. apply dag_frame_same; destruct st; reflexivity. Qed.

(** round_f / witness_f / lamport_f *)
Lemma round_f_frame fuel st x : dag_frame st (snd (round_f fuel st x)).
Proof. apply dag_frame_nomemo, round_f_nomemo. Qed.
Lemma witness_f_frame fuel st x : dag_frame st (snd (witness_f fuel st x)).
Proof. apply dag_frame_nomemo, witness_f_nomemo. Qed.
Lemma lamport_f_frame fuel st x : dag_frame st (snd (lamport_f fuel st x)).
Proof. apply dag_frame_nomemo, lamport_f_nomemo. Qed.

(** fd_walk / update_ancestor_fd *)
Lemma fd_walk_frame fuel : forall st c index x ah, dag_frame st (fd_walk fuel st c index x ah).
Proof.
  induction fuel as [|f IH]; intros st c index x ah; cbn [fd_walk]; [apply dag_frame_refl|].
  destruct (get_event st ah) as [a|] eqn:Ha; [|apply dag_frame_refl].
  destruct (aget c (ev_fd a)); [apply dag_frame_refl|].
  set (st1 := set_evst st ah _).
  assert (F1 : dag_frame st st1).
  { eapply dag_frame_set_evst; eauto; destruct a; reflexivity. }
  pose proof (witness_f_frame (fuel_of st1) st1 ah) as F2.
  destruct (witness_f (fuel_of st1) st1 ah) as [[[|]|] st2]; cbn [snd] in F2.
  - eapply dag_frame_trans; eauto.
  - eapply dag_frame_trans; [eapply dag_frame_trans; eauto|apply IH].
  - eapply dag_frame_trans; [eapply dag_frame_trans; eauto|apply IH].
Qed.

Lemma fold_frame {A} (f : hg -> A -> hg) (l : list A) :
  (forall s a, dag_frame s (f s a)) -> forall st, dag_frame st (fold_left f l st).
Proof.
  intros Hf. induction l as [|a r IH]; intros st; cbn [fold_left]; [apply dag_frame_refl|].
  eapply dag_frame_trans; [apply Hf|apply IH].
Qed.

Lemma update_ancestor_fd_frame st e la : dag_frame st (update_ancestor_fd st e la).
Proof. unfold update_ancestor_fd. apply fold_frame. intros s ce. apply fd_walk_frame. Qed.

(** DivideRounds *)
Lemma dag_frame_set_pending st p : dag_frame st (st <| pending := p |>).
Proof. apply dag_frame_same; destruct st; reflexivity. Qed.

Lemma set_event_round_frame st x r : dag_frame st (set_event_round st x r).
Proof.
  unfold set_event_round. destruct (get_event st x) eqn:H; [|apply dag_frame_refl].
  eapply dag_frame_set_evst; [eassumption|destruct e; reflexivity].
Qed.
Lemma set_event_lt_frame st x t : dag_frame st (set_event_lt st x t).
Proof.
  unfold set_event_lt. destruct (get_event st x) eqn:H; [|apply dag_frame_refl].
  eapply dag_frame_set_evst; [eassumption|destruct e; reflexivity].
Qed.
Lemma maybe_queue_frame st r ri : dag_frame st (maybe_queue st r ri).
Proof. unfold maybe_queue. destruct (_ && _ && _); [apply dag_frame_set_pending|apply dag_frame_refl]. Qed.

Ltac frame_chain := repeat (eapply dag_frame_trans; [eassumption|]).

Lemma divide_round_frame st x : dag_frame st (divide_round st x).
Proof.
  unfold divide_round.
  pose proof (round_f_frame (fuel_of st) st x) as Fr.
  destruct (round_f (fuel_of st) st x) as [[r|] s]; cbn [snd] in Fr;
    [|eapply dag_frame_trans; [exact Fr|apply fail_frame]].
  cbv zeta.
  set (s1 := set_event_round s x r). set (ri := round_or_new s1 r). set (s2 := maybe_queue s1 r ri).
  assert (F1 : dag_frame s s1) by apply set_event_round_frame.
  assert (F2 : dag_frame s1 s2) by apply maybe_queue_frame.
  pose proof (witness_f_frame (fuel_of s2) s2 x) as Fw.
  destruct (witness_f (fuel_of s2) s2 x) as [[w|] s']; cbn [snd] in Fw; frame_chain.
  - apply dag_frame_set_round.
  - apply fail_frame.
Qed.

Lemma divide_lt_frame st x : dag_frame st (divide_lt st x).
Proof.
  unfold divide_lt.
  pose proof (lamport_f_frame (fuel_of st) st x) as Fl.
  destruct (lamport_f (fuel_of st) st x) as [[t|] s]; cbn [snd] in Fl; frame_chain.
  - apply set_event_lt_frame.
  - apply fail_frame.
Qed.

Lemma divide_one_frame st x : dag_frame st (divide_one st x).
Proof.
  unfold divide_one.
  destruct (failed st); [apply dag_frame_refl|].
  destruct (get_event st x) as [ev|]; [|apply fail_frame].
  cbv zeta.
  set (st1 := match ev_round ev with Some _ => st | None => divide_round st x end).
  assert (F1 : dag_frame st st1).
  { subst st1; destruct (ev_round ev); [apply dag_frame_refl|apply divide_round_frame]. }
  destruct (failed st1); [exact F1|].
  destruct (get_event st1 x) as [ev1|]; frame_chain; [|apply fail_frame].
  destruct (ev_lt ev1); [apply dag_frame_refl|apply divide_lt_frame].
Qed.

Lemma divide_rounds_frame st : dag_frame st (divide_rounds st).
Proof. unfold divide_rounds. apply fold_frame. apply divide_one_frame. Qed.

(** DecideFame *)
Lemma fold_frame_fst {A B} (f : hg * B -> A -> hg * B) (l : list A) :
  (forall s b a, dag_frame s (fst (f (s, b) a))) ->
  forall st b, dag_frame st (fst (fold_left f l (st, b))).
Proof.
  intros Hf. induction l as [|a r IH]; intros st b; cbn [fold_left]; [apply dag_frame_refl|].
  specialize (Hf st b a). destruct (f (st, b) a) as [s' b'] eqn:E. cbn [fst] in Hf.
  eapply dag_frame_trans; [exact Hf|apply IH].
Qed.

Lemma decide_fame_round_frame s dec pr : dag_frame s (fst (decide_fame_round (s, dec) pr)).
Proof.
  unfold decide_fame_round.
  destruct (failed s); [apply dag_frame_refl|].
  destruct (get_round s (fst pr)); [|apply fail_frame].
  destruct (get_peerset s (fst pr)); [|apply fail_frame].
  match goal with |- context [fold_left ?f ?l ?a] => destruct (fold_left f l a) end; [|apply fail_frame].
  destruct (witnesses_decided _ _) as [d ri'']. cbn [fst]. apply dag_frame_set_round.
Qed.

Lemma decide_fame_frame st : dag_frame st (decide_fame st).
Proof.
  unfold decide_fame.
  pose proof (fold_frame_fst decide_fame_round (pending st) decide_fame_round_frame st []) as F.
  destruct (fold_left decide_fame_round (pending st) (st, [])) as [s decided]. cbn [fst] in F.
  destruct (failed s); [exact F|]. eapply dag_frame_trans; [exact F|apply dag_frame_set_pending].
Qed.

(** DecideRoundReceived *)
Lemma dag_frame_set_rounds st m : dag_frame st (st <| rounds := m |>).
Proof. apply dag_frame_same; destruct st; reflexivity. Qed.

Lemma rr_loop_frame x : forall is_ st, dag_frame st (fst (rr_loop st x is_)).
Proof.
  induction is_ as [|i rest IH]; intros st; cbn [rr_loop]; [apply dag_frame_refl|].
  destruct (get_round st i) as [tr|];
    [|destruct (lower_bound st) as [lb0|]; [destruct (i <=? lb0); [apply IH|apply dag_frame_refl]|apply dag_frame_refl]].
  destruct (get_peerset st i) as [tps|]; [|apply fail_frame].
  destruct (witnesses_decided tr tps) as [d tr'].
  set (st1 := st <| rounds := zset i tr' (rounds st) |>).
  assert (F1 : dag_frame st st1) by apply dag_frame_set_rounds.
  destruct d; cbn [negb].
  - match goal with |- context [fold_left ?f ?l ?a] => destruct (fold_left f l a) as [sees|] end;
      [|cbn [fst]; frame_chain; apply fail_frame].
    destruct (_ && _).
    + destruct (get_event st1 x) as [ex|] eqn:Hx; cbn [fst]; frame_chain; [|apply fail_frame].
      eapply dag_frame_trans; [|apply dag_frame_set_round].
      eapply dag_frame_set_evst; [eassumption|destruct ex; reflexivity].
    + frame_chain. apply IH.
  - destruct (lower_bound st1) as [lb|]; [|exact F1].
    destruct (lb <? i); [exact F1|]. frame_chain. apply IH.
Qed.

Lemma decide_rr_one_frame s und x : dag_frame s (fst (decide_rr_one (s, und) x)).
Proof.
  unfold decide_rr_one.
  destruct (failed s); [apply dag_frame_refl|].
  pose proof (round_f_frame (fuel_of s) s x) as Fr.
  destruct (round_f (fuel_of s) s x) as [[r|] s1]; cbn [snd] in Fr; [|cbn [fst]; frame_chain; apply fail_frame].
  pose proof (rr_loop_frame x (zrange (r + 1) (last_round s1)) s1) as Fl.
  destruct (rr_loop s1 x (zrange (r + 1) (last_round s1))) as [s' received]. cbn [fst] in *.
  frame_chain. apply dag_frame_refl.
Qed.

Lemma dag_frame_set_undetermined st u : dag_frame st (st <| undetermined := u |>).
Proof. apply dag_frame_same; destruct st; reflexivity. Qed.

Lemma decide_round_received_frame st : dag_frame st (decide_round_received st).
Proof.
  unfold decide_round_received.
  pose proof (fold_frame_fst decide_rr_one (undetermined st) decide_rr_one_frame st []) as F.
  destruct (fold_left decide_rr_one (undetermined st) (st, [])) as [s und]. cbn [fst] in F.
  destruct (failed s); [exact F|]. eapply dag_frame_trans; [exact F|apply dag_frame_set_undetermined].
Qed.

(** ProcessDecidedRounds: frames, blocks, commit *)
Lemma get_frame_frame st rr : dag_frame st (snd (get_frame st rr)).
Proof.
  unfold get_frame.
  destruct (zget rr (frames st)); [apply dag_frame_refl|].
  destruct (get_round st rr); [|apply dag_frame_refl].
  destruct (get_peerset st rr); [|apply dag_frame_refl].
  match goal with |- context [fold_left ?f ?l ?a] => destruct (fold_left f l a) end; [|apply dag_frame_refl].
  match goal with |- context [fold_left ?f (repertoire st) ?a] => destruct (fold_left f (repertoire st) a) end;
    [|apply dag_frame_refl].
  cbn [snd]. apply dag_frame_same; destruct st; reflexivity.
Qed.

Lemma store_set_block_frame st b : dag_frame st (store_set_block st b).
Proof. apply dag_frame_same; destruct st; reflexivity. Qed.
Lemma set_anchor_block_frame st b : dag_frame st (set_anchor_block st b).
Proof.
  unfold set_anchor_block. destruct (get_peerset st (b_rr b)); [|apply dag_frame_refl].
  destruct (_ && _); [|apply dag_frame_refl]. apply dag_frame_same; destruct st; reflexivity.
Qed.
Lemma deliver_frame st b : dag_frame st (deliver st b).
Proof. apply dag_frame_same; destruct st; reflexivity. Qed.

Lemma pev_ext_add P k : zget k P = None -> pev_ext P (zset k new_pidx P).
Proof.
  intros Hk c. rewrite zget_zset.
  destruct (Z.eqb_spec k c) as [->|Hne]; cbn [andb]; [|left; reflexivity].
  destruct (0 <=? c); [right; auto|left; reflexivity].
Qed.

Lemma set_peerset_frame st r ps st' : set_peerset st r ps = Some st' -> dag_frame st st'.
Proof.
  unfold set_peerset. destruct (existsb _ _); [discriminate|]. intros H; inversion H; subst; clear H.
  set (st1 := st <| peersets := _ |>).
  assert (F1 : dag_frame st st1) by (apply dag_frame_same; destruct st; reflexivity).
  eapply dag_frame_trans; [exact F1|]. apply fold_frame. clear. intros s p.
  cbv zeta.
  set (s1 := s <| repertoire := _ |>). set (s2 := s1 <| first_rounds := _ |>).
  assert (F : dag_frame s s2) by (apply dag_frame_same; destruct s; reflexivity).
  destruct (zmem (pkey p) (pevents s)) eqn:Hm; [exact F|].
  eapply dag_frame_trans; [exact F|].
  assert (Hn : zget (pkey p) (pevents s) = None).
  { unfold zmem in Hm. destruct (zget (pkey p) (pevents s)); [discriminate|reflexivity]. }
  subst s1 s2. unfold dag_frame. destruct s; cbn in *.
  split; [apply ev_static_eq_refl|split; [|reflexivity]]. apply pev_ext_add; exact Hn.
Qed.

Lemma process_receipts_frame st rr itxs : dag_frame st (process_receipts st rr itxs).
Proof.
  unfold process_receipts.
  match goal with |- context [fold_left ?f ?l ?a] => destruct (fold_left f l a) as [vals changed] end.
  destruct changed; [|apply dag_frame_refl].
  destruct (set_peerset st (rr + 6) vals) eqn:E; [|apply dag_frame_refl].
  eapply dag_frame_trans; [eapply set_peerset_frame; eauto|]. apply dag_frame_same; destruct h; reflexivity.
Qed.

Lemma sign_block_frame st b bps : dag_frame st (snd (sign_block st b bps)).
Proof.
  unfold sign_block. destruct (mem_key _ _); cbn [snd]; [|apply dag_frame_refl].
  apply dag_frame_same; destruct st; reflexivity.
Qed.

Lemma commit_frame st b : dag_frame st (commit st b).
Proof.
  unfold commit. destruct (self st =? -1); [apply deliver_frame|]. cbv zeta.
  set (st0 := st <| oracle := _ |>).
  assert (F0 : dag_frame st st0) by (apply dag_frame_same; destruct st; reflexivity).
  match goal with |- context [store_set_block st0 ?b1] => set (bb := b1) end.
  pose proof (store_set_block_frame st0 bb) as F1.
  destruct (get_peerset (store_set_block st0 bb) (b_rr bb)) as [bps|].
  - pose proof (sign_block_frame (store_set_block st0 bb) bb bps) as F2.
    destruct (sign_block (store_set_block st0 bb) bb bps) as [b2 st2]. cbn [fst snd] in *.
    pose proof (set_anchor_block_frame st2 b2) as F3.
    pose proof (process_receipts_frame (set_anchor_block st2 b2) (b_rr b2) (b_itxs b2)) as F4.
    frame_chain. apply deliver_frame.
  - frame_chain. apply deliver_frame.
Qed.

Lemma add_consensus_event_frame s fe : dag_frame s (add_consensus_event s fe).
Proof. apply dag_frame_same; destruct s; reflexivity. Qed.

Lemma process_frame_frame s f : dag_frame s (process_frame s f).
Proof.
  unfold process_frame. destruct (f_events f) as [|fe rest] eqn:E; [apply dag_frame_refl|].
  cbv zeta. set (s1 := fold_left add_consensus_event (fe :: rest) s).
  assert (F1 : dag_frame s s1) by (apply fold_frame; apply add_consensus_event_frame).
  set (b := block_of_frame _ _ _).
  destruct (b_txs b), (b_itxs b); try exact F1;
    (eapply dag_frame_trans; [exact F1|]; eapply dag_frame_trans; [apply store_set_block_frame|apply commit_frame]).
Qed.

Lemma bump_last_consensus_frame s r : dag_frame s (bump_last_consensus s r).
Proof.
  unfold bump_last_consensus. destruct (last_consensus s) as [l|]; [destruct (l <? r)|];
    try apply dag_frame_refl; apply dag_frame_same; destruct s; reflexivity.
Qed.

Lemma process_round_frame s processed stop pr :
  dag_frame s (fst (fst (process_round (s, processed, stop) pr))).
Proof.
  unfold process_round.
  destruct (stop || failed s); [apply dag_frame_refl|].
  destruct (negb (snd pr)); [apply dag_frame_refl|].
  destruct (get_round s (fst pr)); [|apply fail_frame].
  pose proof (get_frame_frame s (fst pr)) as F.
  destruct (get_frame s (fst pr)) as [[f|] s1]; cbn [fst snd] in *.
  - eapply dag_frame_trans; [exact F|]. eapply dag_frame_trans; [apply process_frame_frame|apply bump_last_consensus_frame].
  - eapply dag_frame_trans; [exact F|apply fail_frame].
Qed.

Lemma process_decided_rounds_frame st : dag_frame st (process_decided_rounds st).
Proof.
  unfold process_decided_rounds.
  assert (G : forall l s p b, dag_frame s (fst (fst (fold_left process_round l (s, p, b))))).
  { induction l as [|pr rest IH]; intros s p b; cbn [fold_left]; [apply dag_frame_refl|].
    pose proof (process_round_frame s p b pr) as F.
    destruct (process_round (s, p, b) pr) as [[s' p'] b']. cbn [fst] in F.
    eapply dag_frame_trans; [exact F|apply IH]. }
  specialize (G (pending st) st [] false).
  destruct (fold_left process_round (pending st) (st, [], false)) as [[s processed] stop]. cbn [fst] in G.
  eapply dag_frame_trans; [exact G|apply dag_frame_set_pending].
Qed.

(** ProcessSigPool *)
Lemma dag_frame_set_sigpool st p : dag_frame st (st <| sigpool := p |>).
Proof. apply dag_frame_same; destruct st; reflexivity. Qed.

Lemma process_sig_frame st s : dag_frame st (process_sig st s).
Proof.
  unfold process_sig.
  destruct (zget (bs_index s) (blocks st)) as [b|]; [|apply dag_frame_refl].
  destruct (get_peerset st (b_rr b)); [|apply dag_frame_refl].
  destruct (negb (mem_key _ _)); [apply dag_frame_refl|].
  destruct (negb (_ =? _)); [apply dag_frame_refl|].
  cbv zeta.
  eapply dag_frame_trans; [apply store_set_block_frame|].
  eapply dag_frame_trans; [apply set_anchor_block_frame|].
  apply dag_frame_set_sigpool.
Qed.

Lemma process_sigpool_frame st : dag_frame st (process_sigpool st).
Proof. unfold process_sigpool. apply fold_frame. apply process_sig_frame. Qed.

(** the consensus passes after an insertion *)
Lemma run_consensus_frame st : dag_frame st (run_consensus st).
Proof.
  unfold run_consensus.
  pose proof (divide_rounds_frame st) as F1. set (s1 := divide_rounds st) in *.
  destruct (failed s1); [exact F1|].
  pose proof (decide_fame_frame s1) as F2. set (s2 := decide_fame s1) in *.
  destruct (failed s2); [frame_chain; apply dag_frame_refl|].
  pose proof (decide_round_received_frame s2) as F3. set (s3 := decide_round_received s2) in *.
  destruct (failed s3); [frame_chain; apply dag_frame_refl|].
  frame_chain. apply process_decided_rounds_frame.
Qed.
