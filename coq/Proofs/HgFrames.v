(* Footprints of the HgImpl functions: which components of the state each function may change.
   Everything else in Proofs/ about HgImpl is built on these lemmas. *)
From Coq Require Import ZArith List Bool Lia.
From RecordUpdate Require Import RecordSet.
From V Require Import Model.ZMap Model.Quorum Model.Voting Model.HgImpl.
Import ListNotations RecordSetNotations.
Open Scope Z_scope.

(* the state with the three memo tables erased *)
Definition nomemo (st : hg) : hg :=
  st <| round_memo := zempty |> <| witness_memo := zempty |> <| lt_memo := zempty |>.

Lemma nomemo_set_round_memo st m : nomemo (st <| round_memo := m |>) = nomemo st.
Proof. destruct st; reflexivity. Qed.
Lemma nomemo_set_witness_memo st m : nomemo (st <| witness_memo := m |>) = nomemo st.
Proof. destruct st; reflexivity. Qed.
Lemma nomemo_set_lt_memo st m : nomemo (st <| lt_memo := m |>) = nomemo st.
Proof. destruct st; reflexivity. Qed.

(* reads that ignore the memo tables *)
Lemma get_event_nomemo st x : get_event (nomemo st) x = get_event st x.
Proof. destruct st; reflexivity. Qed.
Lemma get_round_nomemo st r : get_round (nomemo st) r = get_round st r.
Proof. destruct st; reflexivity. Qed.
Lemma get_peerset_nomemo st r : get_peerset (nomemo st) r = get_peerset st r.
Proof. destruct st; reflexivity. Qed.

Lemma nomemo_eq_events st st' : nomemo st' = nomemo st -> events st' = events st.
Proof. intros H; apply (f_equal events) in H; destruct st, st'; exact H. Qed.
Lemma nomemo_eq_rounds st st' : nomemo st' = nomemo st -> rounds st' = rounds st.
Proof. intros H; apply (f_equal rounds) in H; destruct st, st'; exact H. Qed.
Lemma nomemo_eq_peersets st st' : nomemo st' = nomemo st -> peersets st' = peersets st.
Proof. intros H; apply (f_equal peersets) in H; destruct st, st'; exact H. Qed.
Lemma nomemo_eq_topo st st' : nomemo st' = nomemo st -> topo st' = topo st.
Proof. intros H; apply (f_equal topo) in H; destruct st, st'; exact H. Qed.

(** round_f / witness_f / lamport_f change nothing but memo tables *)
Lemma round_f_nomemo fuel : forall st x, nomemo (snd (round_f fuel st x)) = nomemo st.
Proof.
  induction fuel as [|f IH]; intros st x; cbn [round_f].
  - destruct (zget x (round_memo st)); reflexivity.
  - destruct (zget x (round_memo st)); [reflexivity|].
    destruct (get_event st x) as [ex|]; [|reflexivity].
    destruct (e_sp (ev_e ex) =? -1) eqn:Esp.
    + destruct (e_op (ev_e ex) =? -1) eqn:Eop.
      * cbn. repeat match goal with |- context [match ?c with _ => _ end] => destruct c end;
          cbn [snd]; rewrite ?nomemo_set_round_memo; reflexivity.
      * specialize (IH st (e_op (ev_e ex))). destruct (round_f f st (e_op (ev_e ex))) as [[opr|] st2]; cbn [snd] in *; [|exact IH].
        repeat match goal with |- context [match ?c with _ => _ end] => destruct c end;
          cbn [snd]; rewrite ?nomemo_set_round_memo; exact IH.
    + pose proof (IH st (e_sp (ev_e ex))) as IH1.
      destruct (round_f f st (e_sp (ev_e ex))) as [[spr|] st1]; cbn [snd] in *; [|exact IH1].
      destruct (e_op (ev_e ex) =? -1) eqn:Eop.
      * repeat match goal with |- context [match ?c with _ => _ end] => destruct c end;
          cbn [snd]; rewrite ?nomemo_set_round_memo; exact IH1.
      * pose proof (IH st1 (e_op (ev_e ex))) as IH2.
        destruct (round_f f st1 (e_op (ev_e ex))) as [[opr|] st2]; cbn [snd] in *; [|congruence].
        repeat match goal with |- context [match ?c with _ => _ end] => destruct c end;
          cbn [snd]; rewrite ?nomemo_set_round_memo; congruence.
Qed.

Ltac destr_match :=
  repeat match goal with |- context [match ?c with _ => _ end] => destruct c eqn:? end.

Lemma witness_f_nomemo fuel st x : nomemo (snd (witness_f fuel st x)) = nomemo st.
Proof.
  unfold witness_f.
  destruct (zget x (witness_memo st)); [reflexivity|].
  destruct (get_event st x) as [ex|]; [|reflexivity].
  pose proof (round_f_nomemo fuel st x) as H1.
  destruct (round_f fuel st x) as [[xr|] st1]; cbn [snd] in *; [|exact H1].
  destruct (get_peerset st1 xr); [|exact H1].
  destruct (negb _); cbn [snd]; [rewrite nomemo_set_witness_memo; exact H1|].
  destruct (e_sp (ev_e ex) =? -1).
  - cbn [snd]. rewrite nomemo_set_witness_memo; exact H1.
  - pose proof (round_f_nomemo fuel st1 (e_sp (ev_e ex))) as H2.
    destruct (round_f fuel st1 (e_sp (ev_e ex))) as [[spr|] st2]; cbn [snd] in *;
      rewrite ?nomemo_set_witness_memo; congruence.
Qed.

Lemma lamport_f_nomemo fuel : forall st x, nomemo (snd (lamport_f fuel st x)) = nomemo st.
Proof.
  induction fuel as [|f IH]; intros st x; cbn [lamport_f].
  - destruct (zget x (lt_memo st)); reflexivity.
  - destruct (zget x (lt_memo st)); [reflexivity|].
    destruct (get_event st x) as [ex|]; [|reflexivity].
    assert (H1 : forall st0, nomemo (snd (if e_sp (ev_e ex) =? -1 then (Some (-1), st0) else lamport_f f st0 (e_sp (ev_e ex)))) = nomemo st0).
    { intros st0; destruct (e_sp (ev_e ex) =? -1); [reflexivity|apply IH]. }
    specialize (H1 st).
    destruct (if e_sp (ev_e ex) =? -1 then (Some (-1), st) else lamport_f f st (e_sp (ev_e ex))) as [[plt|] st1];
      cbn [snd] in *; [|exact H1].
    destruct (e_op (ev_e ex) =? -1).
    + cbn [snd]. rewrite nomemo_set_lt_memo. exact H1.
    + destruct (get_event st1 (e_op (ev_e ex))).
      * pose proof (IH st1 (e_op (ev_e ex))) as H2.
        destruct (lamport_f f st1 (e_op (ev_e ex))) as [[t|] s]; cbn [snd] in *;
          rewrite ?nomemo_set_lt_memo; congruence.
      * cbn [snd]. rewrite nomemo_set_lt_memo. exact H1.
Qed.

(* corollaries used everywhere *)
Lemma round_f_events fuel st x : events (snd (round_f fuel st x)) = events st.
Proof. apply nomemo_eq_events, round_f_nomemo. Qed.
Lemma witness_f_events fuel st x : events (snd (witness_f fuel st x)) = events st.
Proof. apply nomemo_eq_events, witness_f_nomemo. Qed.
Lemma lamport_f_events fuel st x : events (snd (lamport_f fuel st x)) = events st.
Proof. apply nomemo_eq_events, lamport_f_nomemo. Qed.
