(* Footprint on the repertoire and on the per-creator index table (for C11_no_self_fork): every
   participant that has an index table is in the repertoire.  Only SetPeerSet (inside commit's
   processAcceptedInternalTransactions) adds to either; Store.SetEvent replaces the table of an
   existing participant.  The first part is Proofs/HgBlockFrames.v with another projection. *)
From Coq Require Import ZArith List Bool Lia.
From RecordUpdate Require Import RecordSet.
From V Require Import Model.ZMap Model.Quorum Model.Voting Model.HgImpl Proofs.ZMapFacts Proofs.HgFrames.
Import ListNotations RecordSetNotations.
Open Scope Z_scope.

Definition rview (st : hg) := (repertoire st, pevents st).

Lemma rview_nomemo st st' : nomemo st' = nomemo st -> rview st' = rview st.
Proof. intros H. unfold rview. destruct st, st'. cbn in *. inversion H. reflexivity. Qed.

Lemma rview_set_evst st x e : rview (set_evst st x e) = rview st.
Proof. destruct st; reflexivity. Qed.
Lemma rview_set_round st r ri : rview (set_round st r ri) = rview st.
Proof. destruct st; reflexivity. Qed.
Lemma rview_fail st : rview (fail st) = rview st.
Proof. destruct st; reflexivity. Qed.
Lemma rview_set_pending st p : rview (st <| pending := p |>) = rview st.
Proof. destruct st; reflexivity. Qed.
Lemma rview_set_rounds st p : rview (st <| rounds := p |>) = rview st.
Proof. destruct st; reflexivity. Qed.
Lemma rview_set_undetermined st p : rview (st <| undetermined := p |>) = rview st.
Proof. destruct st; reflexivity. Qed.
Lemma rview_set_pending_loaded st p : rview (st <| pending_loaded := p |>) = rview st.
Proof. destruct st; reflexivity. Qed.
Lemma rview_set_sigpool st p : rview (st <| sigpool := p |>) = rview st.
Proof. destruct st; reflexivity. Qed.
Lemma rview_set_topo st p : rview (st <| topo := p |>) = rview st.
Proof. destruct st; reflexivity. Qed.

Lemma round_f_rview fuel st x : rview (snd (round_f fuel st x)) = rview st.
Proof. apply rview_nomemo, round_f_nomemo. Qed.
Lemma witness_f_rview fuel st x : rview (snd (witness_f fuel st x)) = rview st.
Proof. apply rview_nomemo, witness_f_nomemo. Qed.
Lemma lamport_f_rview fuel st x : rview (snd (lamport_f fuel st x)) = rview st.
Proof. apply rview_nomemo, lamport_f_nomemo. Qed.

Lemma fd_walk_rview fuel : forall st c index x ah, rview (fd_walk fuel st c index x ah) = rview st.
Proof.
  induction fuel as [|f IH]; intros st c index x ah; cbn [fd_walk]; [reflexivity|].
  destruct (get_event st ah) as [a|]; [|reflexivity].
  destruct (aget c (ev_fd a)); [reflexivity|].
  set (st1 := set_evst st ah _).
  pose proof (witness_f_rview (fuel_of st1) st1 ah) as F2.
  assert (F1 : rview st1 = rview st) by apply rview_set_evst.
  destruct (witness_f (fuel_of st1) st1 ah) as [[[|]|] st2]; cbn [snd] in F2; try rewrite IH; congruence.
Qed.

Lemma fold_rview {A} (f : hg -> A -> hg) (l : list A) :
  (forall s a, rview (f s a) = rview s) -> forall st, rview (fold_left f l st) = rview st.
Proof.
  intros Hf. induction l as [|a r IH]; intros st; cbn [fold_left]; [reflexivity|]. rewrite IH. apply Hf.
Qed.

Lemma update_ancestor_fd_rview st e la : rview (update_ancestor_fd st e la) = rview st.
Proof. unfold update_ancestor_fd. apply fold_rview. intros s ce. apply fd_walk_rview. Qed.

(** DivideRounds / DecideFame / DecideRoundReceived *)
Lemma divide_round_rview st x : rview (divide_round st x) = rview st.
Proof.
  unfold divide_round.
  pose proof (round_f_rview (fuel_of st) st x) as Fr.
  destruct (round_f (fuel_of st) st x) as [[r|] s]; cbn [snd] in Fr; [|rewrite rview_fail; exact Fr].
  cbv zeta.
  set (s1 := set_event_round s x r). set (ri := round_or_new s1 r). set (s2 := maybe_queue s1 r ri).
  assert (F1 : rview s1 = rview s).
  { subst s1; unfold set_event_round; destruct (get_event s x); [apply rview_set_evst|reflexivity]. }
  assert (F2 : rview s2 = rview s1).
  { subst s2; unfold maybe_queue; destruct (_ && _ && _); [apply rview_set_pending|reflexivity]. }
  pose proof (witness_f_rview (fuel_of s2) s2 x) as Fw.
  destruct (witness_f (fuel_of s2) s2 x) as [[w|] s']; cbn [snd] in Fw;
    rewrite ?rview_set_round, ?rview_fail; congruence.
Qed.

Lemma divide_lt_rview st x : rview (divide_lt st x) = rview st.
Proof.
  unfold divide_lt.
  pose proof (lamport_f_rview (fuel_of st) st x) as Fl.
  destruct (lamport_f (fuel_of st) st x) as [[t|] s]; cbn [snd] in Fl; [|rewrite rview_fail; exact Fl].
  unfold set_event_lt. destruct (get_event s x); rewrite ?rview_set_evst; exact Fl.
Qed.

Lemma divide_one_rview st x : rview (divide_one st x) = rview st.
Proof.
  unfold divide_one.
  destruct (failed st); [reflexivity|].
  destruct (get_event st x) as [ev|]; [|apply rview_fail].
  cbv zeta.
  set (st1 := match ev_round ev with Some _ => st | None => divide_round st x end).
  assert (F1 : rview st1 = rview st).
  { subst st1; destruct (ev_round ev); [reflexivity|apply divide_round_rview]. }
  destruct (failed st1); [exact F1|].
  destruct (get_event st1 x) as [ev1|]; [|rewrite rview_fail; exact F1].
  destruct (ev_lt ev1); [exact F1|rewrite divide_lt_rview; exact F1].
Qed.

Lemma divide_rounds_rview st : rview (divide_rounds st) = rview st.
Proof. unfold divide_rounds. apply fold_rview. apply divide_one_rview. Qed.

Lemma fold_rview_fst {A B} (f : hg * B -> A -> hg * B) (l : list A) :
  (forall s b a, rview (fst (f (s, b) a)) = rview s) ->
  forall st b, rview (fst (fold_left f l (st, b))) = rview st.
Proof.
  intros Hf. induction l as [|a r IH]; intros st b; cbn [fold_left]; [reflexivity|].
  specialize (Hf st b a). destruct (f (st, b) a) as [s' b']. cbn [fst] in Hf. rewrite IH. exact Hf.
Qed.

Lemma decide_fame_round_rview s dec pr : rview (fst (decide_fame_round (s, dec) pr)) = rview s.
Proof.
  unfold decide_fame_round.
  destruct (failed s); [reflexivity|].
  destruct (get_round s (fst pr)); [|apply rview_fail].
  destruct (get_peerset s (fst pr)); [|apply rview_fail].
  match goal with |- context [fold_left ?f ?l ?a] => destruct (fold_left f l a) end; [|apply rview_fail].
  destruct (witnesses_decided _ _) as [d ri'']. cbn [fst]. apply rview_set_round.
Qed.

Lemma decide_fame_rview st : rview (decide_fame st) = rview st.
Proof.
  unfold decide_fame.
  pose proof (fold_rview_fst decide_fame_round (pending st) decide_fame_round_rview st []) as F.
  destruct (fold_left decide_fame_round (pending st) (st, [])) as [s decided]. cbn [fst] in F.
  destruct (failed s); [exact F|]. rewrite rview_set_pending. exact F.
Qed.

Lemma rr_loop_rview x : forall is_ st, rview (fst (rr_loop st x is_)) = rview st.
Proof.
  induction is_ as [|i rest IH]; intros st; cbn [rr_loop]; [reflexivity|].
  destruct (get_round st i) as [tr|];
    [|destruct (lower_bound st) as [lb0|]; [destruct (i <=? lb0); [apply IH|reflexivity]|reflexivity]].
  destruct (get_peerset st i) as [tps|]; [|apply rview_fail].
  destruct (witnesses_decided tr tps) as [d tr'].
  set (st1 := st <| rounds := zset i tr' (rounds st) |>).
  assert (F1 : rview st1 = rview st) by apply rview_set_rounds.
  destruct d; cbn [negb].
  - match goal with |- context [fold_left ?f ?l ?a] => destruct (fold_left f l a) as [sees|] end;
      [|cbn [fst]; rewrite rview_fail; exact F1].
    destruct (_ && _).
    + destruct (get_event st1 x) as [ex|]; cbn [fst]; rewrite ?rview_set_round, ?rview_set_evst, ?rview_fail; exact F1.
    + rewrite IH. exact F1.
  - destruct (lower_bound st1) as [lb|]; [|exact F1].
    destruct (lb <? i); [exact F1|]. rewrite IH. exact F1.
Qed.

Lemma decide_rr_one_rview s und x : rview (fst (decide_rr_one (s, und) x)) = rview s.
Proof.
  unfold decide_rr_one.
  destruct (failed s); [reflexivity|].
  pose proof (round_f_rview (fuel_of s) s x) as Fr.
  destruct (round_f (fuel_of s) s x) as [[r|] s1]; cbn [snd] in Fr; [|cbn [fst]; rewrite rview_fail; exact Fr].
  pose proof (rr_loop_rview x (zrange (r + 1) (last_round s1)) s1) as Fl.
  destruct (rr_loop s1 x (zrange (r + 1) (last_round s1))) as [s' received]. cbn [fst] in *. congruence.
Qed.

Lemma decide_round_received_rview st : rview (decide_round_received st) = rview st.
Proof.
  unfold decide_round_received.
  pose proof (fold_rview_fst decide_rr_one (undetermined st) decide_rr_one_rview st []) as F.
  destruct (fold_left decide_rr_one (undetermined st) (st, [])) as [s und]. cbn [fst] in F.
  destruct (failed s); [exact F|]. rewrite rview_set_undetermined. exact F.
Qed.

(** * The invariant *)
Definition rep_inv (st : hg) : Prop :=
  forall c p, zget c (pevents st) = Some p -> rep_mem c (repertoire st) = true.

Lemma rep_inv_rview st st' : rview st' = rview st -> rep_inv st -> rep_inv st'.
Proof. unfold rview, rep_inv. intros E H. inversion E as [[E1 E2]]. rewrite E1, E2. exact H. Qed.

Lemma rview_set_topo' st v : rview (st <| topo := v |>) = rview st.
Proof. destruct st; reflexivity. Qed.

(* Store.SetEvent: same repertoire, same participants *)
Lemma store_set_event_rep st es st' : store_set_event st es = Some st' -> rep_inv st -> rep_inv st'.
Proof.
  unfold store_set_event. destruct (get_event st _).
  - intros H; inversion H. apply rep_inv_rview. apply rview_set_evst.
  - destruct (zget (e_creator (ev_e es)) (pevents st)) as [p|] eqn:Hp; [|discriminate].
    destruct (pidx_set _ _ _) as [p'|]; [|discriminate].
    intros H; inversion H; subst st'. intros OK c q Hq.
    assert (Er : repertoire (set_evst (st <| pevents := zset (e_creator (ev_e es)) p' (pevents st) |>) (e_id (ev_e es)) es) = repertoire st)
      by (destruct st; reflexivity).
    assert (Ep : pevents (set_evst (st <| pevents := zset (e_creator (ev_e es)) p' (pevents st) |>) (e_id (ev_e es)) es)
                 = zset (e_creator (ev_e es)) p' (pevents st)) by (destruct st; reflexivity).
    rewrite Er. rewrite Ep in Hq. rewrite zget_zset in Hq.
    destruct (Z.eqb_spec (e_creator (ev_e es)) c) as [<-|Hne]; cbn [andb] in Hq.
    + eapply OK; eauto.
    + eapply OK; eauto.
Qed.

Lemma insert_event_rep st e : rep_inv st -> rep_inv (snd (insert_event st e)).
Proof.
  intros OK. unfold insert_event. destruct (negb _); [exact OK|].
  destruct (check_self_parent st e); try exact OK.
  destruct (check_other_parent st e); try exact OK.
  unfold insert_admitted. cbv zeta.
  destruct (store_set_event _ _) as [st2|] eqn:E; cbn [snd].
  - apply store_set_event_rep in E; [|eapply rep_inv_rview; [apply rview_set_topo'|exact OK]].
    eapply rep_inv_rview; [|exact E].
    rewrite rview_set_sigpool.
    destruct (is_loaded e); rewrite ?rview_set_pending_loaded, rview_set_undetermined, update_ancestor_fd_rview; reflexivity.
  - eapply rep_inv_rview; [apply rview_set_topo'|exact OK].
Qed.

(** SetPeerSet *)
Lemma rep_mem_app k l l' : rep_mem k l = true -> rep_mem k (l ++ l') = true.
Proof. unfold rep_mem. rewrite existsb_app. intros ->. reflexivity. Qed.

Definition sp_step (r : Z) (s : hg) (p : peer) : hg :=
  let s := s <| repertoire := if rep_mem (pkey p) (repertoire s) then repertoire s else repertoire s ++ [p] |> in
  let s := s <| first_rounds := add_first_round (pid p) r (first_rounds s) |> in
  if zmem (pkey p) (pevents s) then s else s <| pevents := zset (pkey p) new_pidx (pevents s) |>.

Lemma sp_step_rep r s p : rep_inv s -> rep_inv (sp_step r s p).
Proof.
  intros Hs. unfold sp_step.
  set (s1 := s <| repertoire := if rep_mem (pkey p) (repertoire s) then repertoire s else repertoire s ++ [p] |>).
  set (s2 := s1 <| first_rounds := add_first_round (pid p) r (first_rounds s1) |>).
  cbv zeta.
  assert (R2 : repertoire s2 = if rep_mem (pkey p) (repertoire s) then repertoire s else repertoire s ++ [p])
    by (subst s2 s1; destruct s; reflexivity).
  assert (P2 : pevents s2 = pevents s) by (subst s2 s1; destruct s; reflexivity).
  assert (Grow : forall c, rep_mem c (repertoire s) = true -> rep_mem c (repertoire s2) = true).
  { intros c Hc. rewrite R2. destruct (rep_mem (pkey p) (repertoire s)); [exact Hc|apply rep_mem_app; exact Hc]. }
  assert (Has : rep_mem (pkey p) (repertoire s2) = true).
  { rewrite R2. destruct (rep_mem (pkey p) (repertoire s)) eqn:E; [exact E|].
    unfold rep_mem. rewrite existsb_app. cbn. rewrite Z.eqb_refl. apply orb_true_r. }
  destruct (zmem (pkey p) (pevents s2)).
  - intros c q Hq. rewrite P2 in Hq. apply Grow. eapply Hs; eauto.
  - intros c q Hq.
    assert (Er : repertoire (s2 <| pevents := zset (pkey p) new_pidx (pevents s2) |>) = repertoire s2) by (destruct s2; reflexivity).
    assert (Ep : pevents (s2 <| pevents := zset (pkey p) new_pidx (pevents s2) |>) = zset (pkey p) new_pidx (pevents s2)) by (destruct s2; reflexivity).
    rewrite Er. rewrite Ep in Hq. rewrite zget_zset in Hq.
    destruct (Z.eqb_spec (pkey p) c) as [<-|Hne]; cbn [andb] in Hq.
    + exact Has.
    + rewrite P2 in Hq. apply Grow. eapply Hs; eauto.
Qed.

Lemma set_peerset_rep st r ps st' : set_peerset st r ps = Some st' -> rep_inv st -> rep_inv st'.
Proof.
  unfold set_peerset. destruct (existsb _ _); [discriminate|]. intros H; inversion H; clear H.
  intros OK. change (rep_inv (fold_left (sp_step r) ps (st <| peersets := ps_table_insert r ps (peersets st) |>))).
  assert (G : forall l s, rep_inv s -> rep_inv (fold_left (sp_step r) l s)).
  { induction l as [|p l IH]; intros s Hs; cbn [fold_left]; [exact Hs|]. apply IH, sp_step_rep, Hs. }
  apply G. eapply rep_inv_rview; [|exact OK]. destruct st; reflexivity.
Qed.

Lemma process_receipts_rep st rr itxs : rep_inv st -> rep_inv (process_receipts st rr itxs).
Proof.
  intros OK. unfold process_receipts.
  match goal with |- context [fold_left ?f ?l ?a] => destruct (fold_left f l a) as [vals changed] end.
  destruct changed; [|exact OK].
  destruct (set_peerset st (rr + 6) vals) as [h|] eqn:E; [|exact OK].
  apply set_peerset_rep in E; [|exact OK]. eapply rep_inv_rview; [|exact E]. destruct h; reflexivity.
Qed.

(** blocks *)
Lemma rview_store_set_block st b : rview (store_set_block st b) = rview st.
Proof. destruct st; reflexivity. Qed.
Lemma rview_set_anchor_block st b : rview (set_anchor_block st b) = rview st.
Proof. unfold set_anchor_block. destruct (get_peerset st (b_rr b)); [|reflexivity]. destruct (_ && _); [destruct st; reflexivity|reflexivity]. Qed.
Lemma rview_deliver st b : rview (deliver st b) = rview st.
Proof. destruct st; reflexivity. Qed.
Lemma rview_sign_block st b bps : rview (snd (sign_block st b bps)) = rview st.
Proof. unfold sign_block. destruct (mem_key _ _); cbn [snd]; [destruct st; reflexivity|reflexivity]. Qed.
Lemma rview_set_oracle st v : rview (st <| oracle := v |>) = rview st.
Proof. destruct st; reflexivity. Qed.

Lemma commit_rep st b : rep_inv st -> rep_inv (commit st b).
Proof.
  intros OK. unfold commit. destruct (self st =? -1); [eapply rep_inv_rview; [apply rview_deliver|exact OK]|].
  cbv zeta.
  match goal with |- context [get_peerset ?s1 ?r] => destruct (get_peerset s1 r) as [bps|] end.
  - eapply rep_inv_rview; [apply rview_deliver|]. apply process_receipts_rep.
    eapply rep_inv_rview; [|exact OK].
    rewrite rview_set_anchor_block, rview_sign_block, rview_store_set_block, rview_set_oracle. reflexivity.
  - eapply rep_inv_rview; [|exact OK]. rewrite rview_deliver, rview_store_set_block, rview_set_oracle. reflexivity.
Qed.

Lemma rview_add_consensus_events l : forall s, rview (fold_left add_consensus_event l s) = rview s.
Proof. induction l as [|fe l IH]; intros s; cbn [fold_left]; [reflexivity|]. rewrite IH. destruct s; reflexivity. Qed.

Lemma process_frame_rep s f : rep_inv s -> rep_inv (process_frame s f).
Proof.
  intros OK. unfold process_frame. destruct (f_events f) as [|fe0 rest] eqn:Ef; [exact OK|]. rewrite <- Ef.
  set (s1 := fold_left add_consensus_event (f_events f) s).
  assert (OK1 : rep_inv s1) by (eapply rep_inv_rview; [apply rview_add_consensus_events|exact OK]).
  set (b := block_of_frame (last_block s1 + 1) f s1).
  assert (K : rep_inv (commit (store_set_block s1 b) b))
    by (apply commit_rep; eapply rep_inv_rview; [apply rview_store_set_block|exact OK1]).
  destruct (b_txs b), (b_itxs b); [exact OK1|exact K|exact K|exact K].
Qed.

Lemma rview_get_frame st rr : rview (snd (get_frame st rr)) = rview st.
Proof.
  unfold get_frame. destruct (zget rr (frames st)); [reflexivity|].
  destruct (get_round st rr); [|reflexivity]. destruct (get_peerset st rr); [|reflexivity].
  match goal with |- context [fold_left ?f ?l ?a] => destruct (fold_left f l a) end; [|reflexivity].
  match goal with |- context [fold_left ?f (repertoire st) ?a] => destruct (fold_left f (repertoire st) a) end; [|reflexivity].
  cbn [snd]. destruct st; reflexivity.
Qed.
Lemma rview_bump s r : rview (bump_last_consensus s r) = rview s.
Proof. unfold bump_last_consensus. destruct (last_consensus s) as [l|]; [destruct (l <? r)|]; destruct s; reflexivity. Qed.

Lemma process_round_rep s processed stop pr : rep_inv s -> rep_inv (fst (fst (process_round (s, processed, stop) pr))).
Proof.
  intros OK. unfold process_round. destruct (stop || failed s); [exact OK|].
  destruct (negb (snd pr)); [exact OK|].
  destruct (get_round s (fst pr)); [|cbn [fst]; eapply rep_inv_rview; [apply rview_fail|exact OK]].
  pose proof (rview_get_frame s (fst pr)) as G.
  destruct (get_frame s (fst pr)) as [[f|] s']; cbn [fst snd] in *.
  - eapply rep_inv_rview; [apply rview_bump|]. apply process_frame_rep. eapply rep_inv_rview; [exact G|exact OK].
  - eapply rep_inv_rview; [rewrite rview_fail; exact G|exact OK].
Qed.

Lemma process_decided_rounds_rep st : rep_inv st -> rep_inv (process_decided_rounds st).
Proof.
  intros OK. unfold process_decided_rounds.
  assert (G : forall l s p x, rep_inv s -> rep_inv (fst (fst (fold_left process_round l (s, p, x))))).
  { induction l as [|pr l IH]; intros s p x Hs; cbn [fold_left]; [exact Hs|].
    pose proof (process_round_rep s p x pr Hs) as H1.
    destruct (process_round (s, p, x) pr) as [[s1 p1] x1]. cbn [fst] in H1. apply IH. exact H1. }
  specialize (G (pending st) st [] false OK).
  destruct (fold_left process_round (pending st) (st, [], false)) as [[s p] x]. cbn [fst] in G.
  eapply rep_inv_rview; [apply rview_set_pending|exact G].
Qed.

Lemma run_consensus_rep st : rep_inv st -> rep_inv (run_consensus st).
Proof.
  intros OK. unfold run_consensus.
  assert (OK1 : rep_inv (divide_rounds st)) by (eapply rep_inv_rview; [apply divide_rounds_rview|exact OK]).
  destruct (failed (divide_rounds st)); [exact OK1|].
  assert (OK2 : rep_inv (decide_fame (divide_rounds st))) by (eapply rep_inv_rview; [apply decide_fame_rview|exact OK1]).
  destruct (failed (decide_fame _)); [exact OK2|].
  assert (OK3 : rep_inv (decide_round_received (decide_fame (divide_rounds st))))
    by (eapply rep_inv_rview; [apply decide_round_received_rview|exact OK2]).
  destruct (failed (decide_round_received _)); [exact OK3|].
  apply process_decided_rounds_rep. exact OK3.
Qed.

Lemma step_rep st e : rep_inv st -> rep_inv (step st e).
Proof.
  intros OK. unfold step, insert_and_run. pose proof (insert_event_rep st e OK) as H.
  destruct (insert_event st e) as [r s]. cbn [snd] in *. destruct r; cbn [snd]; auto. apply run_consensus_rep. exact H.
Qed.

Lemma rview_process_sig st s : rview (process_sig st s) = rview st.
Proof.
  unfold process_sig. destruct (zget (bs_index s) (blocks st)) as [b|]; [|reflexivity].
  destruct (get_peerset st (b_rr b)); [|reflexivity].
  destruct (negb (mem_key _ _)); [reflexivity|]. destruct (negb (_ =? _)); [reflexivity|].
  cbv zeta. rewrite rview_set_sigpool, rview_set_anchor_block, rview_store_set_block. reflexivity.
Qed.
Lemma rview_process_sigpool st : rview (process_sigpool st) = rview st.
Proof. unfold process_sigpool. apply fold_rview. intros; apply rview_process_sig. Qed.

Lemma rep_inv_init self_ genesis oracle_ : rep_inv (init_hg self_ genesis oracle_).
Proof.
  unfold init_hg. destruct (set_peerset (empty_hg self_) 0 genesis) as [st|] eqn:S.
  - apply set_peerset_rep in S.
    + eapply rep_inv_rview; [|exact S]. destruct st; reflexivity.
    + intros c p H. unfold empty_hg in H. cbn in H. rewrite zget_empty in H. discriminate.
  - intros c p H. unfold empty_hg in H. cbn in H. rewrite zget_empty in H. discriminate.
Qed.
