(* The pending-signature pool is written only by InsertEvent (SigPool.Add of the event's block
   signatures) and by ProcessSigPool; every other function leaves it alone.  Same structure as
   Proofs/HgBlockFrames.v, for the projection [spool]. *)
From Coq Require Import ZArith List Bool Lia.
From RecordUpdate Require Import RecordSet.
From V Require Import Model.ZMap Model.Quorum Model.Voting Model.HgImpl Proofs.ZMapFacts Proofs.HgFrames.
Import ListNotations RecordSetNotations.
Open Scope Z_scope.

Definition spool (st : hg) := sigpool st.

Lemma spool_nomemo st st' : nomemo st' = nomemo st -> spool st' = spool st.
Proof. intros H. unfold spool. destruct st, st'. cbn in *. inversion H. reflexivity. Qed.

Lemma spool_set_evst st x e : spool (set_evst st x e) = spool st.
Proof. destruct st; reflexivity. Qed.
Lemma spool_set_round st r ri : spool (set_round st r ri) = spool st.
Proof. destruct st; reflexivity. Qed.
Lemma spool_fail st : spool (fail st) = spool st.
Proof. destruct st; reflexivity. Qed.
Lemma spool_set_pending st p : spool (st <| pending := p |>) = spool st.
Proof. destruct st; reflexivity. Qed.
Lemma spool_set_rounds st p : spool (st <| rounds := p |>) = spool st.
Proof. destruct st; reflexivity. Qed.
Lemma spool_set_undetermined st p : spool (st <| undetermined := p |>) = spool st.
Proof. destruct st; reflexivity. Qed.
Lemma spool_set_pending_loaded st p : spool (st <| pending_loaded := p |>) = spool st.
Proof. destruct st; reflexivity. Qed.
Lemma spool_set_topo st p : spool (st <| topo := p |>) = spool st.
Proof. destruct st; reflexivity. Qed.

Lemma round_f_spool fuel st x : spool (snd (round_f fuel st x)) = spool st.
Proof. apply spool_nomemo, round_f_nomemo. Qed.
Lemma witness_f_spool fuel st x : spool (snd (witness_f fuel st x)) = spool st.
Proof. apply spool_nomemo, witness_f_nomemo. Qed.
Lemma lamport_f_spool fuel st x : spool (snd (lamport_f fuel st x)) = spool st.
Proof. apply spool_nomemo, lamport_f_nomemo. Qed.

Lemma fd_walk_spool fuel : forall st c index x ah, spool (fd_walk fuel st c index x ah) = spool st.
Proof.
  induction fuel as [|f IH]; intros st c index x ah; cbn [fd_walk]; [reflexivity|].
  destruct (get_event st ah) as [a|]; [|reflexivity].
  destruct (aget c (ev_fd a)); [reflexivity|].
  set (st1 := set_evst st ah _).
  pose proof (witness_f_spool (fuel_of st1) st1 ah) as F2.
  assert (F1 : spool st1 = spool st) by apply spool_set_evst.
  destruct (witness_f (fuel_of st1) st1 ah) as [[[|]|] st2]; cbn [snd] in F2; try rewrite IH; congruence.
Qed.

Lemma fold_spool {A} (f : hg -> A -> hg) (l : list A) :
  (forall s a, spool (f s a) = spool s) -> forall st, spool (fold_left f l st) = spool st.
Proof.
  intros Hf. induction l as [|a r IH]; intros st; cbn [fold_left]; [reflexivity|]. rewrite IH. apply Hf.
Qed.

Lemma update_ancestor_fd_spool st e la : spool (update_ancestor_fd st e la) = spool st.
Proof. unfold update_ancestor_fd. apply fold_spool. intros s ce. apply fd_walk_spool. Qed.

Lemma store_set_event_spool st es st' : store_set_event st es = Some st' -> spool st' = spool st.
Proof.
  unfold store_set_event. destruct (get_event st _).
  - intros H; inversion H. apply spool_set_evst.
  - destruct (zget _ _); [|discriminate]. destruct (pidx_set _ _ _); [|discriminate].
    intros H; inversion H. rewrite spool_set_evst. destruct st; reflexivity.
Qed.

(* InsertEvent: either the pool is untouched (rejected event) or the event's signatures are added *)
Lemma insert_event_spool st e :
  spool (snd (insert_event st e)) = spool st \/
  (fst (insert_event st e) = InsOk /\
   spool (snd (insert_event st e)) = fold_left sigpool_add (e_sigs e) (spool st)).
Proof.
  unfold insert_event. destruct (negb _); [left; reflexivity|].
  destruct (check_self_parent st e); try (left; reflexivity).
  destruct (check_other_parent st e); try (left; reflexivity).
  unfold insert_admitted. cbv zeta.
  destruct (store_set_event _ _) as [st2|] eqn:E; cbn [fst snd]; [|left; apply spool_set_topo].
  apply store_set_event_spool in E. rewrite spool_set_topo in E.
  right. split; [reflexivity|].
  assert (G : forall s l, spool (s <| sigpool := l |>) = l) by (intros s l; destruct s; reflexivity).
  rewrite G. f_equal.
  destruct (is_loaded e); rewrite ?spool_set_pending_loaded, spool_set_undetermined, update_ancestor_fd_spool; exact E.
Qed.

(** DivideRounds / DecideFame / DecideRoundReceived *)
Lemma divide_round_spool st x : spool (divide_round st x) = spool st.
Proof.
  unfold divide_round.
  pose proof (round_f_spool (fuel_of st) st x) as Fr.
  destruct (round_f (fuel_of st) st x) as [[r|] s]; cbn [snd] in Fr; [|rewrite spool_fail; exact Fr].
  cbv zeta.
  set (s1 := set_event_round s x r). set (ri := round_or_new s1 r). set (s2 := maybe_queue s1 r ri).
  assert (F1 : spool s1 = spool s).
  { subst s1; unfold set_event_round; destruct (get_event s x); [apply spool_set_evst|reflexivity]. }
  assert (F2 : spool s2 = spool s1).
  { subst s2; unfold maybe_queue; destruct (_ && _ && _); [apply spool_set_pending|reflexivity]. }
  pose proof (witness_f_spool (fuel_of s2) s2 x) as Fw.
  destruct (witness_f (fuel_of s2) s2 x) as [[w|] s']; cbn [snd] in Fw;
    rewrite ?spool_set_round, ?spool_fail; congruence.
Qed.

Lemma divide_lt_spool st x : spool (divide_lt st x) = spool st.
Proof.
  unfold divide_lt.
  pose proof (lamport_f_spool (fuel_of st) st x) as Fl.
  destruct (lamport_f (fuel_of st) st x) as [[t|] s]; cbn [snd] in Fl; [|rewrite spool_fail; exact Fl].
  unfold set_event_lt. destruct (get_event s x); rewrite ?spool_set_evst; exact Fl.
Qed.

Lemma divide_one_spool st x : spool (divide_one st x) = spool st.
Proof.
  unfold divide_one.
  destruct (failed st); [reflexivity|].
  destruct (get_event st x) as [ev|]; [|apply spool_fail].
  cbv zeta.
  set (st1 := match ev_round ev with Some _ => st | None => divide_round st x end).
  assert (F1 : spool st1 = spool st).
  { subst st1; destruct (ev_round ev); [reflexivity|apply divide_round_spool]. }
  destruct (failed st1); [exact F1|].
  destruct (get_event st1 x) as [ev1|]; [|rewrite spool_fail; exact F1].
  destruct (ev_lt ev1); [exact F1|rewrite divide_lt_spool; exact F1].
Qed.

Lemma divide_rounds_spool st : spool (divide_rounds st) = spool st.
Proof. unfold divide_rounds. apply fold_spool. apply divide_one_spool. Qed.

Lemma fold_spool_fst {A B} (f : hg * B -> A -> hg * B) (l : list A) :
  (forall s b a, spool (fst (f (s, b) a)) = spool s) ->
  forall st b, spool (fst (fold_left f l (st, b))) = spool st.
Proof.
  intros Hf. induction l as [|a r IH]; intros st b; cbn [fold_left]; [reflexivity|].
  specialize (Hf st b a). destruct (f (st, b) a) as [s' b']. cbn [fst] in Hf. rewrite IH. exact Hf.
Qed.

Lemma decide_fame_round_spool s dec pr : spool (fst (decide_fame_round (s, dec) pr)) = spool s.
Proof.
  unfold decide_fame_round.
  destruct (failed s); [reflexivity|].
  destruct (get_round s (fst pr)); [|apply spool_fail].
  destruct (get_peerset s (fst pr)); [|apply spool_fail].
  match goal with |- context [fold_left ?f ?l ?a] => destruct (fold_left f l a) end; [|apply spool_fail].
  destruct (witnesses_decided _ _) as [d ri'']. cbn [fst]. apply spool_set_round.
Qed.

Lemma decide_fame_spool st : spool (decide_fame st) = spool st.
Proof.
  unfold decide_fame.
  pose proof (fold_spool_fst decide_fame_round (pending st) decide_fame_round_spool st []) as F.
  destruct (fold_left decide_fame_round (pending st) (st, [])) as [s decided]. cbn [fst] in F.
  destruct (failed s); [exact F|]. rewrite spool_set_pending. exact F.
Qed.

Lemma rr_loop_spool x : forall is_ st, spool (fst (rr_loop st x is_)) = spool st.
Proof.
  induction is_ as [|i rest IH]; intros st; cbn [rr_loop]; [reflexivity|].
  destruct (get_round st i) as [tr|];
    [|destruct (lower_bound st) as [lb0|]; [destruct (i <=? lb0); [apply IH|reflexivity]|reflexivity]].
  destruct (get_peerset st i) as [tps|]; [|apply spool_fail].
  destruct (witnesses_decided tr tps) as [d tr'].
  set (st1 := st <| rounds := zset i tr' (rounds st) |>).
  assert (F1 : spool st1 = spool st) by apply spool_set_rounds.
  destruct d; cbn [negb].
  - match goal with |- context [fold_left ?f ?l ?a] => destruct (fold_left f l a) as [sees|] end;
      [|cbn [fst]; rewrite spool_fail; exact F1].
    destruct (_ && _).
    + destruct (get_event st1 x) as [ex|]; cbn [fst]; rewrite ?spool_set_round, ?spool_set_evst, ?spool_fail; exact F1.
    + rewrite IH. exact F1.
  - destruct (lower_bound st1) as [lb|]; [|exact F1].
    destruct (lb <? i); [exact F1|]. rewrite IH. exact F1.
Qed.

Lemma decide_rr_one_spool s und x : spool (fst (decide_rr_one (s, und) x)) = spool s.
Proof.
  unfold decide_rr_one.
  destruct (failed s); [reflexivity|].
  pose proof (round_f_spool (fuel_of s) s x) as Fr.
  destruct (round_f (fuel_of s) s x) as [[r|] s1]; cbn [snd] in Fr; [|cbn [fst]; rewrite spool_fail; exact Fr].
  pose proof (rr_loop_spool x (zrange (r + 1) (last_round s1)) s1) as Fl.
  destruct (rr_loop s1 x (zrange (r + 1) (last_round s1))) as [s' received]. cbn [fst] in *. congruence.
Qed.

Lemma decide_round_received_spool st : spool (decide_round_received st) = spool st.
Proof.
  unfold decide_round_received.
  pose proof (fold_spool_fst decide_rr_one (undetermined st) decide_rr_one_spool st []) as F.
  destruct (fold_left decide_rr_one (undetermined st) (st, [])) as [s und]. cbn [fst] in F.
  destruct (failed s); [exact F|]. rewrite spool_set_undetermined. exact F.
Qed.
