(* Non-interference of the block bookkeeping (C11, also used to relate ProcessSigPool schedules):
   the components [blocks], [anchor], [sigpool], [last_block], [delivered], [self_sigs] of the
   HgImpl state never influence any other component.  [wb st x] overwrites those six components;
   every function of the per-event pipeline commutes with [wb] up to a new overwrite.
   Consequences: two nodes that insert the same events but call ProcessSigPool at different moments
   (or whose block store was disturbed) agree on everything else; if moreover the last block index,
   the delivered list and the own signatures agree ([fine]) they keep agreeing on those. *)
From Coq Require Import ZArith List Bool Lia.
From RecordUpdate Require Import RecordSet.
From V Require Import Model.ZMap Model.Quorum Model.Voting Model.HgImpl Proofs.ZMapFacts Proofs.HgFrames
  Proofs.HgBlockFrames Proofs.BlockInv.
Import ListNotations RecordSetNotations.
Open Scope Z_scope.

Record ign := mkIgn {
  i_blocks : zmap block; i_anchor : option Z; i_sigpool : list bsig;
  i_lb : Z; i_del : list block; i_ss : list bsig }.

Definition wb (st : hg) (x : ign) : hg :=
  st <| blocks := i_blocks x |> <| anchor := i_anchor x |> <| sigpool := i_sigpool x |>
     <| last_block := i_lb x |> <| delivered := i_del x |> <| self_sigs := i_ss x |>.

Definition ign_of (st : hg) : ign :=
  mkIgn (blocks st) (anchor st) (sigpool st) (last_block st) (delivered st) (self_sigs st).

Lemma wb_ign_of st : wb st (ign_of st) = st.
Proof. destruct st; reflexivity. Qed.
Lemma wb_wb st x y : wb (wb st x) y = wb st y.
Proof. destruct st; reflexivity. Qed.
Lemma ign_of_wb st x : ign_of (wb st x) = x.
Proof. destruct st, x; reflexivity. Qed.

(** field reads *)
Lemma events_wb st x : events (wb st x) = events st.
Proof. destruct st; reflexivity. Qed.
Lemma pevents_wb st x : pevents (wb st x) = pevents st.
Proof. destruct st; reflexivity. Qed.
Lemma rounds_wb st x : rounds (wb st x) = rounds st.
Proof. destruct st; reflexivity. Qed.
Lemma last_round_wb st x : last_round (wb st x) = last_round st.
Proof. destruct st; reflexivity. Qed.
Lemma peersets_wb st x : peersets (wb st x) = peersets st.
Proof. destruct st; reflexivity. Qed.
Lemma repertoire_wb st x : repertoire (wb st x) = repertoire st.
Proof. destruct st; reflexivity. Qed.
Lemma first_rounds_wb st x : first_rounds (wb st x) = first_rounds st.
Proof. destruct st; reflexivity. Qed.
Lemma undetermined_wb st x : undetermined (wb st x) = undetermined st.
Proof. destruct st; reflexivity. Qed.
Lemma pending_wb st x : pending (wb st x) = pending st.
Proof. destruct st; reflexivity. Qed.
Lemma last_consensus_wb st x : last_consensus (wb st x) = last_consensus st.
Proof. destruct st; reflexivity. Qed.
Lemma lower_bound_wb st x : lower_bound (wb st x) = lower_bound st.
Proof. destruct st; reflexivity. Qed.
Lemma round_memo_wb st x : round_memo (wb st x) = round_memo st.
Proof. destruct st; reflexivity. Qed.
Lemma witness_memo_wb st x : witness_memo (wb st x) = witness_memo st.
Proof. destruct st; reflexivity. Qed.
Lemma lt_memo_wb st x : lt_memo (wb st x) = lt_memo st.
Proof. destruct st; reflexivity. Qed.
Lemma blocks_wb st x : blocks (wb st x) = i_blocks x.
Proof. destruct st; reflexivity. Qed.
Lemma last_block_wb st x : last_block (wb st x) = i_lb x.
Proof. destruct st; reflexivity. Qed.
Lemma frames_wb st x : frames (wb st x) = frames st.
Proof. destruct st; reflexivity. Qed.
Lemma last_cons_ev_wb st x : last_cons_ev (wb st x) = last_cons_ev st.
Proof. destruct st; reflexivity. Qed.
Lemma cons_count_wb st x : cons_count (wb st x) = cons_count st.
Proof. destruct st; reflexivity. Qed.
Lemma topo_wb st x : topo (wb st x) = topo st.
Proof. destruct st; reflexivity. Qed.
Lemma pending_loaded_wb st x : pending_loaded (wb st x) = pending_loaded st.
Proof. destruct st; reflexivity. Qed.
Lemma sigpool_wb st x : sigpool (wb st x) = i_sigpool x.
Proof. destruct st; reflexivity. Qed.
Lemma anchor_wb st x : anchor (wb st x) = i_anchor x.
Proof. destruct st; reflexivity. Qed.
Lemma self_wb st x : self (wb st x) = self st.
Proof. destruct st; reflexivity. Qed.
Lemma validators_wb st x : validators (wb st x) = validators st.
Proof. destruct st; reflexivity. Qed.
Lemma self_sigs_wb st x : self_sigs (wb st x) = i_ss x.
Proof. destruct st; reflexivity. Qed.
Lemma delivered_wb st x : delivered (wb st x) = i_del x.
Proof. destruct st; reflexivity. Qed.
Lemma oracle_wb st x : oracle (wb st x) = oracle st.
Proof. destruct st; reflexivity. Qed.
Lemma failed_wb st x : failed (wb st x) = failed st.
Proof. destruct st; reflexivity. Qed.

(** field writes *)
Lemma set_events_wb st x v : (wb st x) <| events := v |> = wb (st <| events := v |>) x.
Proof. destruct st; reflexivity. Qed.
Lemma set_pevents_wb st x v : (wb st x) <| pevents := v |> = wb (st <| pevents := v |>) x.
Proof. destruct st; reflexivity. Qed.
Lemma set_rounds_wb st x v : (wb st x) <| rounds := v |> = wb (st <| rounds := v |>) x.
Proof. destruct st; reflexivity. Qed.
Lemma set_last_round_wb st x v : (wb st x) <| last_round := v |> = wb (st <| last_round := v |>) x.
Proof. destruct st; reflexivity. Qed.
Lemma set_peersets_wb st x v : (wb st x) <| peersets := v |> = wb (st <| peersets := v |>) x.
Proof. destruct st; reflexivity. Qed.
Lemma set_repertoire_wb st x v : (wb st x) <| repertoire := v |> = wb (st <| repertoire := v |>) x.
Proof. destruct st; reflexivity. Qed.
Lemma set_first_rounds_wb st x v : (wb st x) <| first_rounds := v |> = wb (st <| first_rounds := v |>) x.
Proof. destruct st; reflexivity. Qed.
Lemma set_undetermined_wb st x v : (wb st x) <| undetermined := v |> = wb (st <| undetermined := v |>) x.
Proof. destruct st; reflexivity. Qed.
Lemma set_pending_wb st x v : (wb st x) <| pending := v |> = wb (st <| pending := v |>) x.
Proof. destruct st; reflexivity. Qed.
Lemma set_last_consensus_wb st x v : (wb st x) <| last_consensus := v |> = wb (st <| last_consensus := v |>) x.
Proof. destruct st; reflexivity. Qed.
Lemma set_lower_bound_wb st x v : (wb st x) <| lower_bound := v |> = wb (st <| lower_bound := v |>) x.
Proof. destruct st; reflexivity. Qed.
Lemma set_round_memo_wb st x v : (wb st x) <| round_memo := v |> = wb (st <| round_memo := v |>) x.
Proof. destruct st; reflexivity. Qed.
Lemma set_witness_memo_wb st x v : (wb st x) <| witness_memo := v |> = wb (st <| witness_memo := v |>) x.
Proof. destruct st; reflexivity. Qed.
Lemma set_lt_memo_wb st x v : (wb st x) <| lt_memo := v |> = wb (st <| lt_memo := v |>) x.
Proof. destruct st; reflexivity. Qed.
Lemma set_frames_wb st x v : (wb st x) <| frames := v |> = wb (st <| frames := v |>) x.
Proof. destruct st; reflexivity. Qed.
Lemma set_last_cons_ev_wb st x v : (wb st x) <| last_cons_ev := v |> = wb (st <| last_cons_ev := v |>) x.
Proof. destruct st; reflexivity. Qed.
Lemma set_cons_count_wb st x v : (wb st x) <| cons_count := v |> = wb (st <| cons_count := v |>) x.
Proof. destruct st; reflexivity. Qed.
Lemma set_topo_wb st x v : (wb st x) <| topo := v |> = wb (st <| topo := v |>) x.
Proof. destruct st; reflexivity. Qed.
Lemma set_pending_loaded_wb st x v : (wb st x) <| pending_loaded := v |> = wb (st <| pending_loaded := v |>) x.
Proof. destruct st; reflexivity. Qed.
Lemma set_self_wb st x v : (wb st x) <| self := v |> = wb (st <| self := v |>) x.
Proof. destruct st; reflexivity. Qed.
Lemma set_validators_wb st x v : (wb st x) <| validators := v |> = wb (st <| validators := v |>) x.
Proof. destruct st; reflexivity. Qed.
Lemma set_oracle_wb st x v : (wb st x) <| oracle := v |> = wb (st <| oracle := v |>) x.
Proof. destruct st; reflexivity. Qed.
Lemma set_failed_wb st x v : (wb st x) <| failed := v |> = wb (st <| failed := v |>) x.
Proof. destruct st; reflexivity. Qed.

Ltac wbr := rewrite ?events_wb, ?pevents_wb, ?rounds_wb, ?last_round_wb, ?peersets_wb, ?repertoire_wb, ?first_rounds_wb, ?undetermined_wb, ?pending_wb, ?last_consensus_wb, ?lower_bound_wb, ?round_memo_wb, ?witness_memo_wb, ?lt_memo_wb, ?blocks_wb, ?last_block_wb, ?frames_wb, ?last_cons_ev_wb, ?cons_count_wb, ?topo_wb, ?pending_loaded_wb, ?sigpool_wb, ?anchor_wb, ?self_wb, ?validators_wb, ?self_sigs_wb, ?delivered_wb, ?oracle_wb, ?failed_wb.
Ltac wbw := rewrite ?set_events_wb, ?set_pevents_wb, ?set_rounds_wb, ?set_last_round_wb, ?set_peersets_wb, ?set_repertoire_wb, ?set_first_rounds_wb, ?set_undetermined_wb, ?set_pending_wb, ?set_last_consensus_wb, ?set_lower_bound_wb, ?set_round_memo_wb, ?set_witness_memo_wb, ?set_lt_memo_wb, ?set_frames_wb, ?set_last_cons_ev_wb, ?set_cons_count_wb, ?set_topo_wb, ?set_pending_loaded_wb, ?set_self_wb, ?set_validators_wb, ?set_oracle_wb, ?set_failed_wb.

(** derived reads *)
Lemma get_event_wb st x y : get_event (wb st x) y = get_event st y.
Proof. destruct st; reflexivity. Qed.
Lemma get_round_wb st x r : get_round (wb st x) r = get_round st r.
Proof. destruct st; reflexivity. Qed.
Lemma get_peerset_wb st x r : get_peerset (wb st x) r = get_peerset st r.
Proof. destruct st; reflexivity. Qed.
Lemma fuel_of_wb st x : fuel_of (wb st x) = fuel_of st.
Proof. destruct st; reflexivity. Qed.
Lemma participant_event_wb st x c i : participant_event (wb st x) c i = participant_event st c i.
Proof. destruct st; reflexivity. Qed.
Lemma ancestor_wb st x a b : ancestor (wb st x) a b = ancestor st a b.
Proof. destruct st; reflexivity. Qed.
Lemma see_wb st x a b : see (wb st x) a b = see st a b.
Proof. destruct st; reflexivity. Qed.
Lemma strongly_see_wb st x a b ps : strongly_see (wb st x) a b ps = strongly_see st a b ps.
Proof. destruct st; reflexivity. Qed.
Lemma creator_of_wb st x y : creator_of (wb st x) y = creator_of st y.
Proof. destruct st; reflexivity. Qed.
Lemma sp_of_wb st x y : sp_of (wb st x) y = sp_of st y.
Proof. destruct st; reflexivity. Qed.
Lemma coin_of_wb st x y : coin_of (wb st x) y = coin_of st y.
Proof. destruct st; reflexivity. Qed.
Lemma queued_wb st x r : queued (wb st x) r = queued st r.
Proof. destruct st; reflexivity. Qed.
Lemma round_or_new_wb st x r : round_or_new (wb st x) r = round_or_new st r.
Proof. destruct st; reflexivity. Qed.
Lemma check_self_parent_wb st x e : check_self_parent (wb st x) e = check_self_parent st e.
Proof. destruct st; reflexivity. Qed.
Lemma check_other_parent_wb st x e : check_other_parent (wb st x) e = check_other_parent st e.
Proof. destruct st; reflexivity. Qed.
Lemma init_coords_wb st x e : init_coords (wb st x) e = init_coords st e.
Proof. destruct st; reflexivity. Qed.
Lemma known_events_wb st x : known_events (wb st x) = known_events st.
Proof. destruct st; reflexivity. Qed.
Lemma create_frame_event_wb st x y : create_frame_event (wb st x) y = create_frame_event st y.
Proof. destruct st; reflexivity. Qed.
Lemma vparams_of_wb st x y : vparams_of (wb st x) y = vparams_of st y.
Proof. destruct st; reflexivity. Qed.
Lemma round_witnesses_wb st x j : round_witnesses (wb st x) j = round_witnesses st j.
Proof. destruct st; reflexivity. Qed.
Lemma fame_of_wb st x y r : fame_of (wb st x) y r = fame_of st y r.
Proof. unfold fame_of. rewrite vparams_of_wb, last_round_wb. destruct st; reflexivity. Qed.
Lemma root_below_wb st x c n : forall i, root_below (wb st x) c i n = root_below st c i n.
Proof.
  induction n as [|m IH]; intros i; cbn [root_below]; [reflexivity|].
  rewrite participant_event_wb. destruct (i - 1 <? 0); [reflexivity|].
  destruct (participant_event st c (i - 1)); [|reflexivity].
  rewrite create_frame_event_wb, IH. reflexivity.
Qed.
Lemma create_root_wb st x c h : create_root (wb st x) c h = create_root st c h.
Proof.
  unfold create_root. rewrite create_frame_event_wb, get_event_wb.
  destruct (h =? -1); [reflexivity|]. destruct (create_frame_event st h); [|reflexivity].
  destruct (get_event st h); [|reflexivity]. rewrite root_below_wb. reflexivity.
Qed.
Lemma fe_less_wb st x a b : fe_less (wb st x) a b = fe_less st a b.
Proof. destruct st; reflexivity. Qed.
Lemma fe_insert_wb st x a l : fe_insert (wb st x) a l = fe_insert st a l.
Proof. induction l as [|y r IH]; cbn [fe_insert]; [reflexivity|]. rewrite fe_less_wb, IH. reflexivity. Qed.
Lemma fe_sort_wb st x l : fe_sort (wb st x) l = fe_sort st l.
Proof. induction l as [|y r IH]; cbn [fe_sort fold_right]; [reflexivity|]. unfold fe_sort in IH. rewrite IH, fe_insert_wb. reflexivity. Qed.
Lemma block_of_frame_wb i f st x : block_of_frame i f (wb st x) = block_of_frame i f st.
Proof. destruct st; reflexivity. Qed.

(** state transformers that touch none of the six components *)
Lemma set_evst_wb st x y e : set_evst (wb st x) y e = wb (set_evst st y e) x.
Proof. destruct st; reflexivity. Qed.
Lemma set_round_wb st x r ri : set_round (wb st x) r ri = wb (set_round st r ri) x.
Proof. destruct st; reflexivity. Qed.
Lemma fail_wb st x : fail (wb st x) = wb (fail st) x.
Proof. destruct st; reflexivity. Qed.
Lemma set_event_round_wb st x y r : set_event_round (wb st x) y r = wb (set_event_round st y r) x.
Proof. unfold set_event_round. rewrite get_event_wb. destruct (get_event st y); [apply set_evst_wb|reflexivity]. Qed.
Lemma set_event_lt_wb st x y r : set_event_lt (wb st x) y r = wb (set_event_lt st y r) x.
Proof. unfold set_event_lt. rewrite get_event_wb. destruct (get_event st y); [apply set_evst_wb|reflexivity]. Qed.
Lemma maybe_queue_wb st x r ri : maybe_queue (wb st x) r ri = wb (maybe_queue st r ri) x.
Proof.
  unfold maybe_queue. rewrite queued_wb, lower_bound_wb, pending_wb.
  destruct (_ && _ && _); [apply set_pending_wb|reflexivity].
Qed.

(* lifting through a pair *)
Definition wb2 {A} (p : A * hg) (x : ign) : A * hg := (fst p, wb (snd p) x).

Lemma round_f_wb fuel : forall st x y, round_f fuel (wb st x) y = wb2 (round_f fuel st y) x.
Proof.
  induction fuel as [|f IH]; intros st x y; cbn [round_f]; rewrite round_memo_wb.
  - destruct (zget y (round_memo st)); reflexivity.
  - destruct (zget y (round_memo st)); [reflexivity|].
    rewrite get_event_wb. destruct (get_event st y) as [ex|]; [|reflexivity].
    assert (H1 : (if e_sp (ev_e ex) =? -1 then (Some (-1), wb st x) else round_f f (wb st x) (e_sp (ev_e ex)))
                 = wb2 (if e_sp (ev_e ex) =? -1 then (Some (-1), st) else round_f f st (e_sp (ev_e ex))) x).
    { destruct (e_sp (ev_e ex) =? -1); [reflexivity|apply IH]. }
    rewrite H1. clear H1.
    destruct (if e_sp (ev_e ex) =? -1 then (Some (-1), st) else round_f f st (e_sp (ev_e ex))) as [[spr|] st1];
      unfold wb2 at 1; cbn [fst snd]; [|reflexivity].
    assert (H2 : (if e_op (ev_e ex) =? -1 then (Some (-1), wb st1 x) else round_f f (wb st1 x) (e_op (ev_e ex)))
                 = wb2 (if e_op (ev_e ex) =? -1 then (Some (-1), st1) else round_f f st1 (e_op (ev_e ex))) x).
    { destruct (e_op (ev_e ex) =? -1); [reflexivity|apply IH]. }
    rewrite H2. clear H2.
    destruct (if e_op (ev_e ex) =? -1 then (Some (-1), st1) else round_f f st1 (e_op (ev_e ex))) as [[opr|] st2];
      unfold wb2 at 1; cbn [fst snd]; [|reflexivity].
    cbv zeta.
    destruct ((if spr <? opr then opr else spr) =? -1).
    + rewrite round_memo_wb, set_round_memo_wb. reflexivity.
    + rewrite get_round_wb, get_peerset_wb.
      destruct (get_round st2 _) as [pri|]; [|reflexivity].
      destruct (get_peerset st2 _) as [pps|]; [|reflexivity].
      assert (H3 : forall l acc,
        fold_left (fun (acc : option Z) w => match acc, strongly_see (wb st2 x) y w pps with
                     | Some n, Some b => Some (if b then n + 1 else n) | _, _ => None end) l acc =
        fold_left (fun (acc : option Z) w => match acc, strongly_see st2 y w pps with
                     | Some n, Some b => Some (if b then n + 1 else n) | _, _ => None end) l acc).
      { induction l as [|w l IHl]; intros acc; cbn [fold_left]; [reflexivity|].
        rewrite strongly_see_wb. apply IHl. }
      rewrite H3. destruct (fold_left _ _ _); [|reflexivity].
      rewrite round_memo_wb, set_round_memo_wb. reflexivity.
Qed.

Lemma witness_f_wb fuel st x y : witness_f fuel (wb st x) y = wb2 (witness_f fuel st y) x.
Proof.
  unfold witness_f. rewrite witness_memo_wb.
  destruct (zget y (witness_memo st)); [reflexivity|].
  rewrite get_event_wb. destruct (get_event st y) as [ex|]; [|reflexivity].
  rewrite round_f_wb. destruct (round_f fuel st y) as [[xr|] st1]; unfold wb2 at 1; cbn [fst snd]; [|reflexivity].
  rewrite get_peerset_wb. destruct (get_peerset st1 xr) as [ps|]; [|reflexivity].
  cbv zeta. destruct (negb _).
  - rewrite witness_memo_wb, set_witness_memo_wb. reflexivity.
  - destruct (e_sp (ev_e ex) =? -1).
    + rewrite witness_memo_wb, set_witness_memo_wb. reflexivity.
    + rewrite round_f_wb. destruct (round_f fuel st1 _) as [[spr|] st2]; unfold wb2 at 1; cbn [fst snd]; [|reflexivity].
      rewrite witness_memo_wb, set_witness_memo_wb. reflexivity.
Qed.

Lemma lamport_f_wb fuel : forall st x y, lamport_f fuel (wb st x) y = wb2 (lamport_f fuel st y) x.
Proof.
  induction fuel as [|f IH]; intros st x y; cbn [lamport_f]; rewrite lt_memo_wb.
  - destruct (zget y (lt_memo st)); reflexivity.
  - destruct (zget y (lt_memo st)); [reflexivity|].
    rewrite get_event_wb. destruct (get_event st y) as [ex|]; [|reflexivity].
    assert (H1 : (if e_sp (ev_e ex) =? -1 then (Some (-1), wb st x) else lamport_f f (wb st x) (e_sp (ev_e ex)))
                 = wb2 (if e_sp (ev_e ex) =? -1 then (Some (-1), st) else lamport_f f st (e_sp (ev_e ex))) x).
    { destruct (e_sp (ev_e ex) =? -1); [reflexivity|apply IH]. }
    rewrite H1. clear H1.
    destruct (if e_sp (ev_e ex) =? -1 then (Some (-1), st) else lamport_f f st (e_sp (ev_e ex))) as [[plt|] st1];
      unfold wb2 at 1; cbn [fst snd]; [|reflexivity].
    destruct (e_op (ev_e ex) =? -1).
    + rewrite lt_memo_wb, set_lt_memo_wb. reflexivity.
    + rewrite get_event_wb. destruct (get_event st1 (e_op (ev_e ex))).
      * rewrite IH. destruct (lamport_f f st1 (e_op (ev_e ex))) as [[t|] s]; unfold wb2 at 1; cbn [fst snd]; [|reflexivity].
        rewrite lt_memo_wb, set_lt_memo_wb. reflexivity.
      * rewrite lt_memo_wb, set_lt_memo_wb. reflexivity.
Qed.

Lemma fd_walk_wb fuel : forall st x c index y ah, fd_walk fuel (wb st x) c index y ah = wb (fd_walk fuel st c index y ah) x.
Proof.
  induction fuel as [|f IH]; intros st x c index y ah; cbn [fd_walk]; [reflexivity|].
  rewrite get_event_wb. destruct (get_event st ah) as [a|]; [|reflexivity].
  destruct (aget c (ev_fd a)); [reflexivity|].
  cbv zeta. rewrite set_evst_wb, fuel_of_wb, witness_f_wb.
  destruct (witness_f _ _ ah) as [[[|]|] st2]; unfold wb2; cbn [fst snd]; [reflexivity|apply IH|apply IH].
Qed.

Lemma fold_wb {A} (f : hg -> A -> hg) (l : list A) :
  (forall s x a, f (wb s x) a = wb (f s a) x) -> forall st x, fold_left f l (wb st x) = wb (fold_left f l st) x.
Proof.
  intros Hf. induction l as [|a r IH]; intros st x; cbn [fold_left]; [reflexivity|]. rewrite Hf. apply IH.
Qed.

Lemma update_ancestor_fd_wb st x e la : update_ancestor_fd (wb st x) e la = wb (update_ancestor_fd st e la) x.
Proof. unfold update_ancestor_fd. apply fold_wb. intros s x' ce. rewrite fuel_of_wb. apply fd_walk_wb. Qed.

Lemma store_set_event_wb st x es :
  store_set_event (wb st x) es = option_map (fun s => wb s x) (store_set_event st es).
Proof.
  unfold store_set_event. rewrite get_event_wb. destruct (get_event st _).
  - cbn [option_map]. rewrite set_evst_wb. reflexivity.
  - rewrite pevents_wb. destruct (zget _ (pevents st)) as [p|]; [|reflexivity].
    destruct (pidx_set p _ _); [|reflexivity]. cbn [option_map].
    rewrite set_pevents_wb, set_evst_wb. reflexivity.
Qed.

(** DivideRounds *)
Lemma divide_round_wb st x y : divide_round (wb st x) y = wb (divide_round st y) x.
Proof.
  unfold divide_round. rewrite fuel_of_wb, round_f_wb.
  destruct (round_f (fuel_of st) st y) as [[r|] s]; unfold wb2; cbn [fst snd]; [|apply fail_wb].
  cbv zeta. rewrite set_event_round_wb, round_or_new_wb, maybe_queue_wb, fuel_of_wb, witness_f_wb.
  destruct (witness_f _ _ y) as [[w|] s']; unfold wb2; cbn [fst snd]; [apply set_round_wb|apply fail_wb].
Qed.

Lemma divide_lt_wb st x y : divide_lt (wb st x) y = wb (divide_lt st y) x.
Proof.
  unfold divide_lt. rewrite fuel_of_wb, lamport_f_wb.
  destruct (lamport_f (fuel_of st) st y) as [[t|] s]; unfold wb2; cbn [fst snd]; [apply set_event_lt_wb|apply fail_wb].
Qed.

Lemma divide_one_wb st x y : divide_one (wb st x) y = wb (divide_one st y) x.
Proof.
  unfold divide_one. rewrite failed_wb. destruct (failed st); [reflexivity|].
  rewrite get_event_wb. destruct (get_event st y) as [ev|]; [|apply fail_wb].
  assert (H : (match ev_round ev with Some _ => wb st x | None => divide_round (wb st x) y end)
              = wb (match ev_round ev with Some _ => st | None => divide_round st y end) x).
  { destruct (ev_round ev); [reflexivity|apply divide_round_wb]. }
  rewrite H. clear H. set (st1 := match ev_round ev with Some _ => st | None => divide_round st y end).
  rewrite failed_wb. destruct (failed st1); [reflexivity|].
  rewrite get_event_wb. destruct (get_event st1 y) as [ev1|]; [|apply fail_wb].
  destruct (ev_lt ev1); [reflexivity|apply divide_lt_wb].
Qed.

Lemma divide_rounds_wb st x : divide_rounds (wb st x) = wb (divide_rounds st) x.
Proof. unfold divide_rounds. rewrite undetermined_wb. apply fold_wb. intros; apply divide_one_wb. Qed.

(** DecideFame *)
Definition wbf {B} (p : hg * B) (x : ign) : hg * B := (wb (fst p) x, snd p).

Lemma fold_wbf {A B} (f : hg * B -> A -> hg * B) (l : list A) :
  (forall s b x a, f (wb s x, b) a = wbf (f (s, b) a) x) ->
  forall st b x, fold_left f l (wb st x, b) = wbf (fold_left f l (st, b)) x.
Proof.
  intros Hf. induction l as [|a r IH]; intros st b x; cbn [fold_left]; [reflexivity|].
  rewrite Hf. destruct (f (st, b) a) as [s' b']. unfold wbf; cbn [fst snd]. apply IH.
Qed.

Lemma decide_fame_round_wb s dec x pr :
  decide_fame_round (wb s x, dec) pr = wbf (decide_fame_round (s, dec) pr) x.
Proof.
  unfold decide_fame_round. rewrite failed_wb. destruct (failed s); [reflexivity|].
  rewrite get_round_wb, get_peerset_wb.
  destruct (get_round s (fst pr)) as [ri|]; [|unfold wbf; cbn [fst snd]; rewrite fail_wb; reflexivity].
  destruct (get_peerset s (fst pr)) as [rps|]; [|unfold wbf; cbn [fst snd]; rewrite fail_wb; reflexivity].
  assert (H : forall l acc,
     fold_left (fun (a : option rinfo) y => match a with None => None | Some ri' =>
         if is_decided ri' y then Some ri' else match fame_of (wb s x) y (fst pr) with
           | None => None | Some None => Some ri' | Some (Some v) => Some (set_fame ri' y v) end end) l acc =
     fold_left (fun (a : option rinfo) y => match a with None => None | Some ri' =>
         if is_decided ri' y then Some ri' else match fame_of s y (fst pr) with
           | None => None | Some None => Some ri' | Some (Some v) => Some (set_fame ri' y v) end end) l acc).
  { induction l as [|w l IHl]; intros acc; cbn [fold_left]; [reflexivity|]. rewrite fame_of_wb. apply IHl. }
  rewrite H. destruct (fold_left _ _ _) as [ri'|]; [|unfold wbf; cbn [fst snd]; rewrite fail_wb; reflexivity].
  destruct (witnesses_decided ri' rps) as [d ri'']. unfold wbf; cbn [fst snd]. rewrite set_round_wb. reflexivity.
Qed.

Lemma decide_fame_wb st x : decide_fame (wb st x) = wb (decide_fame st) x.
Proof.
  unfold decide_fame. rewrite pending_wb.
  rewrite (fold_wbf decide_fame_round (pending st)) by (intros; apply decide_fame_round_wb).
  destruct (fold_left decide_fame_round (pending st) (st, [])) as [s decided]. unfold wbf; cbn [fst snd].
  rewrite failed_wb. destruct (failed s); [reflexivity|]. rewrite pending_wb, set_pending_wb. reflexivity.
Qed.

(** DecideRoundReceived *)
Lemma rr_loop_wb y : forall is_ st x, rr_loop (wb st x) y is_ = wbf (rr_loop st y is_) x.
Proof.
  induction is_ as [|i rest IH]; intros st x; cbn [rr_loop]; [reflexivity|].
  rewrite get_round_wb. destruct (get_round st i) as [tr|];
    [|rewrite lower_bound_wb; destruct (lower_bound st) as [lb0|]; [destruct (i <=? lb0); [apply IH|reflexivity]|reflexivity]].
  rewrite get_peerset_wb. destruct (get_peerset st i) as [tps|]; [|unfold wbf; cbn [fst snd]; rewrite fail_wb; reflexivity].
  destruct (witnesses_decided tr tps) as [d tr'].
  cbv zeta. rewrite rounds_wb, set_rounds_wb.
  set (st1 := st <| rounds := zset i tr' (rounds st) |>).
  destruct (negb d).
  - rewrite lower_bound_wb. destruct (lower_bound st1) as [lb|]; [|reflexivity].
    destruct (lb <? i); [reflexivity|apply IH].
  - assert (H : forall l acc,
       fold_left (fun (acc : option Z) w => match acc, see (wb st1 x) w y with
                  | Some n, Some b => Some (if b then n + 1 else n) | _, _ => None end) l acc =
       fold_left (fun (acc : option Z) w => match acc, see st1 w y with
                  | Some n, Some b => Some (if b then n + 1 else n) | _, _ => None end) l acc).
    { induction l as [|w l IHl]; intros acc; cbn [fold_left]; [reflexivity|]. rewrite see_wb. apply IHl. }
    rewrite H. destruct (fold_left _ _ _) as [s|]; [|unfold wbf; cbn [fst snd]; rewrite fail_wb; reflexivity].
    destruct (_ && _); [|apply IH].
    rewrite get_event_wb. destruct (get_event st1 y) as [ex|]; [|unfold wbf; cbn [fst snd]; rewrite fail_wb; reflexivity].
    unfold wbf; cbn [fst snd]. rewrite set_evst_wb, set_round_wb. reflexivity.
Qed.

Lemma decide_rr_one_wb s und x y : decide_rr_one (wb s x, und) y = wbf (decide_rr_one (s, und) y) x.
Proof.
  unfold decide_rr_one. rewrite failed_wb. destruct (failed s); [reflexivity|].
  rewrite fuel_of_wb, round_f_wb. destruct (round_f (fuel_of s) s y) as [[r|] s1]; unfold wb2; cbn [fst snd].
  - rewrite last_round_wb, rr_loop_wb. destruct (rr_loop s1 y _) as [s' received]. reflexivity.
  - unfold wbf; cbn [fst snd]. rewrite fail_wb. reflexivity.
Qed.

Lemma decide_round_received_wb st x : decide_round_received (wb st x) = wb (decide_round_received st) x.
Proof.
  unfold decide_round_received. rewrite undetermined_wb.
  rewrite (fold_wbf decide_rr_one (undetermined st)) by (intros; apply decide_rr_one_wb).
  destruct (fold_left decide_rr_one (undetermined st) (st, [])) as [s und]. unfold wbf; cbn [fst snd].
  rewrite failed_wb. destruct (failed s); [reflexivity|]. rewrite set_undetermined_wb. reflexivity.
Qed.

(** frames *)
Lemma fold_left_ext {A B} (f g : A -> B -> A) (l : list B) :
  (forall a b, f a b = g a b) -> forall a, fold_left f l a = fold_left g l a.
Proof. intros H. induction l as [|b r IH]; intros a; cbn [fold_left]; [reflexivity|]. rewrite H. apply IH. Qed.

Lemma get_frame_wb st x rr : get_frame (wb st x) rr = wb2 (get_frame st rr) x.
Proof.
  unfold get_frame. rewrite frames_wb. destruct (zget rr (frames st)); [reflexivity|].
  rewrite get_round_wb, get_peerset_wb.
  destruct (get_round st rr) as [ri|]; [|reflexivity]. destruct (get_peerset st rr) as [ps|]; [|reflexivity].
  rewrite (fold_left_ext
    (fun (acc : option (list frameev)) y => match acc, create_frame_event (wb st x) y with
       | Some l, Some fe => Some (l ++ [fe]) | _, _ => None end)
    (fun (acc : option (list frameev)) y => match acc, create_frame_event st y with
       | Some l, Some fe => Some (l ++ [fe]) | _, _ => None end))
    by (intros; rewrite create_frame_event_wb; reflexivity).
  destruct (fold_left _ (ri_received ri) (Some [])) as [evs|]; [|reflexivity].
  cbv zeta. rewrite fe_sort_wb.
  rewrite (fold_left_ext
    (fun (acc : option (list (Z * list frameev))) fe => match acc with None => None | Some roots =>
        let p := creator_of (wb st x) (fe_id fe) in
        match aget p roots with Some _ => Some roots | None =>
          match create_root (wb st x) p (sp_of (wb st x) (fe_id fe)) with
          | Some r => Some (roots_insert p r roots) | None => None end end end)
    (fun (acc : option (list (Z * list frameev))) fe => match acc with None => None | Some roots =>
        let p := creator_of st (fe_id fe) in
        match aget p roots with Some _ => Some roots | None =>
          match create_root st p (sp_of st (fe_id fe)) with
          | Some r => Some (roots_insert p r roots) | None => None end end end))
    by (intros; cbv zeta; rewrite creator_of_wb, sp_of_wb, create_root_wb; reflexivity).
  rewrite repertoire_wb.
  rewrite (fold_left_ext
    (fun (acc : option (list (Z * list frameev))) (p : peer) => match acc with None => None | Some roots =>
        match aget (pid p) (first_rounds (wb st x)) with None => Some roots | Some fr =>
          if rr <? fr then Some roots else match aget (pkey p) roots with Some _ => Some roots | None =>
            let h := match aget (pkey p) (last_cons_ev (wb st x)) with Some h => h | None => -1 end in
            match create_root (wb st x) (pkey p) h with
            | Some r => Some (roots_insert (pkey p) r roots) | None => None end end end end)
    (fun (acc : option (list (Z * list frameev))) (p : peer) => match acc with None => None | Some roots =>
        match aget (pid p) (first_rounds st) with None => Some roots | Some fr =>
          if rr <? fr then Some roots else match aget (pkey p) roots with Some _ => Some roots | None =>
            let h := match aget (pkey p) (last_cons_ev st) with Some h => h | None => -1 end in
            match create_root st (pkey p) h with
            | Some r => Some (roots_insert (pkey p) r roots) | None => None end end end end))
    by (intros; cbv zeta; rewrite first_rounds_wb, last_cons_ev_wb, create_root_wb; reflexivity).
  destruct (fold_left _ (repertoire st) _) as [roots|]; [|reflexivity].
  rewrite ?peersets_wb, ?frames_wb, ?set_frames_wb.
  rewrite (map_ext (fun w => match get_event (wb st x) w with Some e => e_ts (ev_e e) | None => 0 end)
                   (fun w => match get_event st w with Some e => e_ts (ev_e e) | None => 0 end))
    by (intros; rewrite get_event_wb; reflexivity).
  reflexivity.
Qed.

Lemma add_consensus_event_wb s x fe : add_consensus_event (wb s x) fe = wb (add_consensus_event s fe) x.
Proof.
  unfold add_consensus_event. rewrite creator_of_wb, get_event_wb, cons_count_wb.
  rewrite set_cons_count_wb, last_cons_ev_wb, set_last_cons_ev_wb, pending_loaded_wb, set_pending_loaded_wb.
  reflexivity.
Qed.

Lemma bump_last_consensus_wb s x r : bump_last_consensus (wb s x) r = wb (bump_last_consensus s r) x.
Proof.
  unfold bump_last_consensus. rewrite last_consensus_wb. destruct (last_consensus s) as [l|].
  - destruct (l <? r); [apply set_last_consensus_wb|reflexivity].
  - apply set_last_consensus_wb.
Qed.

(** peer sets *)
Lemma set_peerset_wb st x r ps : set_peerset (wb st x) r ps = option_map (fun s => wb s x) (set_peerset st r ps).
Proof.
  unfold set_peerset. rewrite peersets_wb. destruct (existsb _ (peersets st)); [reflexivity|].
  cbn [option_map]. f_equal. rewrite set_peersets_wb.
  apply fold_wb. intros s x' p. cbv zeta.
  rewrite repertoire_wb, set_repertoire_wb, first_rounds_wb, set_first_rounds_wb, pevents_wb.
  destruct (zmem _ _); [reflexivity|]. rewrite ?pevents_wb, ?set_pevents_wb. reflexivity.
Qed.

Lemma process_receipts_wb st x rr itxs : process_receipts (wb st x) rr itxs = wb (process_receipts st rr itxs) x.
Proof.
  unfold process_receipts. rewrite validators_wb.
  destruct (fold_left _ itxs (validators st, false)) as [vals changed].
  destruct changed; [|reflexivity].
  rewrite set_peerset_wb. destruct (set_peerset st (rr + 6) vals) as [st1|]; cbn [option_map]; [|reflexivity].
  apply set_validators_wb.
Qed.

(** * The functions that do touch the six components *)

Definition fine3 (st : hg) := (last_block st, delivered st, self_sigs st).
(* the overwrite agrees with the state on last block index, delivered list and own signatures *)
Definition fine (a : hg) (x : ign) : Prop := (i_lb x, i_del x, i_ss x) = fine3 a.

Lemma fine_ign_of a : fine a (ign_of a).
Proof. reflexivity. Qed.
Lemma fine_keep a a' x : fine3 a' = fine3 a -> fine a x -> fine a' x.
Proof. unfold fine. congruence. Qed.
Lemma bview_fine3 a a' : bview a' = bview a -> fine3 a' = fine3 a.
Proof. unfold bview, fine3. intros H. inversion H. reflexivity. Qed.

(* states that differ in the six components only are identified by wb *)
Definition core (st : hg) : hg := wb st (mkIgn zempty None [] 0 [] []).
Lemma wb_same a a' x : core a = core a' -> wb a x = wb a' x.
Proof. intros H. rewrite <- (wb_wb a (mkIgn zempty None [] 0 [] []) x), <- (wb_wb a' (mkIgn zempty None [] 0 [] []) x). unfold core in H. rewrite H. reflexivity. Qed.
Lemma core_wb a x : core (wb a x) = core a.
Proof. unfold core. rewrite wb_wb. reflexivity. Qed.
Lemma core_eq_wb a b : core a = core b -> b = wb a (ign_of b).
Proof. intros H. rewrite <- (wb_ign_of b) at 1. symmetry. apply wb_same. exact H. Qed.

Definition ign_store (x : ign) (b : block) : ign :=
  mkIgn (zset (b_index b) b (i_blocks x)) (i_anchor x) (i_sigpool x) (Z.max (b_index b) (i_lb x)) (i_del x) (i_ss x).

Lemma store_set_block_wb a x b : store_set_block (wb a x) b = wb a (ign_store x b).
Proof. destruct a, x; reflexivity. Qed.
Lemma core_store_set_block a b : core (store_set_block a b) = core a.
Proof. destruct a; reflexivity. Qed.
Lemma fine3_store a b : fine3 (store_set_block a b) = (Z.max (b_index b) (last_block a), delivered a, self_sigs a).
Proof. destruct a; reflexivity. Qed.
Lemma fine_store a x b : fine a x -> fine (store_set_block a b) (ign_store x b).
Proof.
  unfold fine. rewrite fine3_store. unfold fine3. intros H. inversion H as [[H1 H2 H3]].
  cbn [ign_store i_lb i_del i_ss]. rewrite H1. reflexivity.
Qed.

Definition ign_anchor (a : hg) (x : ign) (b : block) : ign :=
  match get_peerset a (b_rr b) with
  | None => x
  | Some ps =>
    if (trust_count ps <? Z.of_nat (length (b_sigs b))) &&
       (match i_anchor x with None => true | Some an => an <? b_index b end)
    then mkIgn (i_blocks x) (Some (b_index b)) (i_sigpool x) (i_lb x) (i_del x) (i_ss x) else x
  end.
Lemma set_anchor_block_wb a x b : set_anchor_block (wb a x) b = wb a (ign_anchor a x b).
Proof.
  unfold set_anchor_block, ign_anchor. rewrite get_peerset_wb. destruct (get_peerset a (b_rr b)); [|reflexivity].
  rewrite anchor_wb. destruct (_ && _); [destruct a, x; reflexivity|reflexivity].
Qed.
Lemma core_set_anchor_block a b : core (set_anchor_block a b) = core a.
Proof.
  unfold set_anchor_block. destruct (get_peerset a (b_rr b)); [|reflexivity].
  destruct (_ && _); [destruct a; reflexivity|reflexivity].
Qed.
Lemma fine_anchor a x b : fine a x -> fine a (ign_anchor a x b).
Proof.
  unfold ign_anchor. destruct (get_peerset a (b_rr b)); [|auto]. destruct (_ && _); [|auto].
  unfold fine. cbn. auto.
Qed.
Lemma fine3_set_anchor_block a b : fine3 (set_anchor_block a b) = fine3 a.
Proof.
  unfold set_anchor_block. destruct (get_peerset a (b_rr b)); [|reflexivity].
  destruct (_ && _); [destruct a; reflexivity|reflexivity].
Qed.

Definition ign_deliver (x : ign) (b : block) : ign :=
  mkIgn (i_blocks x) (i_anchor x) (i_sigpool x) (i_lb x) (i_del x ++ [b]) (i_ss x).
Lemma deliver_wb a x b : deliver (wb a x) b = wb a (ign_deliver x b).
Proof. destruct a, x; reflexivity. Qed.
Lemma core_deliver a b : core (deliver a b) = core a.
Proof. destruct a; reflexivity. Qed.
Lemma fine3_deliver s b : fine3 (deliver s b) = (last_block s, delivered s ++ [b], self_sigs s).
Proof. destruct s; reflexivity. Qed.
Lemma fine_deliver a x b : fine a x -> fine (deliver a b) (ign_deliver x b).
Proof.
  unfold fine. rewrite fine3_deliver. unfold fine3. intros H. inversion H as [[H1 H2 H3]].
  cbn [ign_deliver i_lb i_del i_ss]. rewrite H2. reflexivity.
Qed.

Lemma fine3_process_receipts st rr itxs : fine3 (process_receipts st rr itxs) = fine3 st.
Proof.
  unfold process_receipts.
  match goal with |- context [fold_left ?f ?l ?a] => destruct (fold_left f l a) as [vals changed] end.
  destruct changed; [|reflexivity].
  destruct (set_peerset st (rr + 6) vals) as [h|] eqn:E; [|reflexivity].
  unfold set_peerset in E. destruct (existsb _ _); [discriminate|]. inversion E; clear E.
  match goal with |- fine3 (fold_left ?f vals ?s0 <| validators := _ |>) = _ =>
    assert (G : forall l s, fine3 (fold_left f l s) = fine3 s) end.
  { induction l as [|p l IH]; intros s; cbn [fold_left]; [reflexivity|]. rewrite IH.
    destruct (zmem _ _); destruct s; reflexivity. }
  match goal with |- fine3 (?s <| validators := _ |>) = _ => transitivity (fine3 s); [destruct s; reflexivity|] end.
  rewrite G. destruct st; reflexivity.
Qed.

(** commit: effect on the other components, and on (last block, delivered, own signatures) *)

(* blocks that commit cannot tell apart as far as the other components are concerned *)
Definition bsame (b b' : block) : Prop := b_rr b = b_rr b' /\ b_itxs b = b_itxs b'.

Definition commit_core (s : hg) (b : block) : hg :=
  if self s =? -1 then s else
  let s0 := s <| oracle := tl (oracle s) |> in
  match get_peerset s0 (b_rr b) with
  | None => s0
  | Some _ => process_receipts s0 (b_rr b) (b_itxs b)
  end.

Lemma core_set_self_sigs s v : core (s <| self_sigs := v |>) = core s.
Proof. destruct s; reflexivity. Qed.
Lemma core_process_receipts s s' rr itxs : core s = core s' -> core (process_receipts s rr itxs) = core (process_receipts s' rr itxs).
Proof.
  intros H. rewrite (core_eq_wb s s' H). rewrite process_receipts_wb, core_wb. reflexivity.
Qed.

Lemma core_commit s b : core (commit s b) = core (commit_core s b).
Proof.
  unfold commit, commit_core. destruct (self s =? -1); [apply core_deliver|].
  cbv zeta. set (s0 := s <| oracle := tl (oracle s) |>).
  set (b1 := b <| b_committed := true |> <| b_receipts := _ |> <| b_bodyid := _ |>).
  assert (Hrr : b_rr b1 = b_rr b) by (subst b1; destruct b; reflexivity).
  assert (Hit : b_itxs b1 = b_itxs b) by (subst b1; destruct b; reflexivity).
  assert (Gp : get_peerset (store_set_block s0 b1) (b_rr b1) = get_peerset s0 (b_rr b)) by (rewrite Hrr; destruct s0; reflexivity).
  rewrite Gp. destruct (get_peerset s0 (b_rr b)) as [bps|].
  - rewrite core_deliver. unfold sign_block.
    destruct (mem_key _ _); cbn [fst snd].
    + match goal with |- core (process_receipts _ ?r ?i) = _ =>
        replace r with (b_rr b) by (subst b1; destruct b; reflexivity);
        replace i with (b_itxs b) by (subst b1; destruct b; reflexivity) end.
      apply core_process_receipts. rewrite core_set_anchor_block, core_set_self_sigs, !core_store_set_block. reflexivity.
    + rewrite Hrr, Hit. apply core_process_receipts. rewrite core_set_anchor_block, core_store_set_block. reflexivity.
  - rewrite core_deliver, core_store_set_block. reflexivity.
Qed.

Lemma commit_core_wb a x b : commit_core (wb a x) b = wb (commit_core a b) x.
Proof.
  unfold commit_core. rewrite self_wb. destruct (self a =? -1); [reflexivity|].
  cbv zeta. rewrite oracle_wb, set_oracle_wb, get_peerset_wb.
  destruct (get_peerset _ (b_rr b)); [apply process_receipts_wb|reflexivity].
Qed.

Lemma commit_coarse a x b b' : bsame b b' -> core (commit (wb a x) b') = core (commit a b).
Proof.
  intros [Hrr Hit]. rewrite !core_commit, commit_core_wb, core_wb.
  unfold commit_core. rewrite Hrr, Hit. reflexivity.
Qed.

(* closed form of (last block, delivered, own signatures) after commit *)
Definition cf3 (slf : Z) (orc : list Z) (ps : option peerset) (t : Z * list block * list bsig) (b : block)
  : Z * list block * list bsig :=
  let '(lb, del, ss) := t in
  if slf =? -1 then (lb, del ++ [b], ss) else
  let b1 := b <| b_committed := true |> <| b_receipts := map (fun t => (itx_id t, itx_accept t)) (b_itxs b) |>
              <| b_bodyid := hd (-1) orc |> in
  match ps with
  | None => (Z.max (b_index b1) lb, del ++ [b1], ss)
  | Some bps =>
    if mem_key slf (keys bps) then
      let b2 := b1 <| b_sigs := aset slf (b_bodyid b1) (b_sigs b1) |> in
      (Z.max (b_index b2) (Z.max (b_index b1) lb), del ++ [b2], sigpool_add ss (mkBsig slf (b_index b1) (b_bodyid b1)))
    else (Z.max (b_index b1) lb, del ++ [b1], ss)
  end.

Definition t3 := (Z * list block * list bsig)%type.
Definition t3_store (t : t3) (b : block) : t3 := let '(lb, del, ss) := t in (Z.max (b_index b) lb, del, ss).
Definition t3_deliver (t : t3) (b : block) : t3 := let '(lb, del, ss) := t in (lb, del ++ [b], ss).
Definition t3_ss (t : t3) (v : list bsig) : t3 := let '(lb, del, ss) := t in (lb, del, v).
Lemma fine3_store' s b : fine3 (store_set_block s b) = t3_store (fine3 s) b.
Proof. destruct s; reflexivity. Qed.
Lemma fine3_deliver' s b : fine3 (deliver s b) = t3_deliver (fine3 s) b.
Proof. destruct s; reflexivity. Qed.
Lemma fine3_set_ss s v : fine3 (s <| self_sigs := v |>) = t3_ss (fine3 s) v.
Proof. destruct s; reflexivity. Qed.
Lemma fine3_set_oracle s v : fine3 (s <| oracle := v |>) = fine3 s.
Proof. destruct s; reflexivity. Qed.
Lemma self_sigs_store s b : self_sigs (store_set_block s b) = self_sigs s.
Proof. destruct s; reflexivity. Qed.
Lemma self_sigs_set_oracle s v : self_sigs (s <| oracle := v |>) = self_sigs s.
Proof. destruct s; reflexivity. Qed.
Lemma self_store s b : self (store_set_block s b) = self s.
Proof. destruct s; reflexivity. Qed.
Lemma self_set_oracle s v : self (s <| oracle := v |>) = self s.
Proof. destruct s; reflexivity. Qed.
Lemma get_peerset_store s b r : get_peerset (store_set_block s b) r = get_peerset s r.
Proof. destruct s; reflexivity. Qed.
Lemma get_peerset_set_oracle s v r : get_peerset (s <| oracle := v |>) r = get_peerset s r.
Proof. destruct s; reflexivity. Qed.

Lemma fine3_commit s b : fine3 (commit s b) = cf3 (self s) (oracle s) (get_peerset s (b_rr b)) (fine3 s) b.
Proof.
  unfold commit, cf3. destruct (self s =? -1).
  - rewrite fine3_deliver'. destruct (fine3 s) as [[lb del] ss]. reflexivity.
  - cbv zeta. set (s0 := s <| oracle := tl (oracle s) |>).
    set (b1 := b <| b_committed := true |> <| b_receipts := _ |> <| b_bodyid := _ |>).
    assert (Hrr : b_rr b1 = b_rr b) by (subst b1; destruct b; reflexivity).
    rewrite get_peerset_store, Hrr. subst s0. rewrite get_peerset_set_oracle.
    destruct (get_peerset s (b_rr b)) as [bps|].
    + rewrite fine3_deliver', fine3_process_receipts, fine3_set_anchor_block. unfold sign_block.
      rewrite self_store, self_set_oracle.
      destruct (mem_key (self s) (keys bps)); cbn [fst snd].
      * rewrite fine3_set_ss, !fine3_store', fine3_set_oracle, self_sigs_store, self_sigs_set_oracle.
        unfold fine3. reflexivity.
      * rewrite fine3_store', fine3_set_oracle. unfold fine3. reflexivity.
    + rewrite fine3_deliver', fine3_store', fine3_set_oracle. unfold fine3. reflexivity.
Qed.

Lemma fine3_wb a x : fine a x -> fine3 (wb a x) = fine3 a.
Proof. unfold fine, fine3. rewrite last_block_wb, delivered_wb, self_sigs_wb. auto. Qed.

Lemma commit_fine a x b : fine a x -> fine3 (commit (wb a x) b) = fine3 (commit a b).
Proof.
  intros F. rewrite !fine3_commit, self_wb, oracle_wb, get_peerset_wb, (fine3_wb a x F). reflexivity.
Qed.

(** * The two relations: [simr false] ignores the six components, [simr true] only
      [blocks], [anchor], [sigpool] *)
Definition simr (fl : bool) (a b : hg) : Prop := core a = core b /\ (fl = true -> fine3 a = fine3 b).

Lemma simr_refl fl a : simr fl a a.
Proof. split; auto. Qed.
Lemma simr_sym fl a b : simr fl a b -> simr fl b a.
Proof. intros [H1 H2]. split; [auto|intros E; symmetry; auto]. Qed.
Lemma simr_trans fl a b c : simr fl a b -> simr fl b c -> simr fl a c.
Proof. intros [H1 H2] [H3 H4]. split; [congruence|intros E; rewrite H2, H4; auto]. Qed.
Lemma simr_weaken a b : simr true a b -> simr false a b.
Proof. intros [H _]. split; [auto|discriminate]. Qed.

(* b is a overwritten *)
Lemma simr_inv fl a b : simr fl a b -> exists x, b = wb a x /\ (fl = true -> fine a x).
Proof.
  intros [H1 H2]. exists (ign_of b). split; [apply core_eq_wb; exact H1|].
  intros E. unfold fine. change (fine3 b = fine3 a). symmetry. auto.
Qed.
Lemma simr_wb fl a x : (fl = true -> fine a x) -> simr fl a (wb a x).
Proof.
  intros F. split; [symmetry; apply core_wb|]. intros E. symmetry. apply fine3_wb. auto.
Qed.

(* lifting a function given its two facts *)
Lemma simr_lift (f : hg -> hg) :
  (forall a x, core (f (wb a x)) = core (f a)) ->
  (forall a x, fine a x -> fine3 (f (wb a x)) = fine3 (f a)) ->
  forall fl a b, simr fl a b -> simr fl (f a) (f b).
Proof.
  intros C F fl a b S. destruct (simr_inv _ _ _ S) as [x [-> Fx]].
  split; [symmetry; apply C|]. intros E. symmetry. apply F. auto.
Qed.

(* a function that commutes with wb and leaves (last block, delivered, own signatures) alone *)
Lemma simr_commute (f : hg -> hg) :
  (forall a x, f (wb a x) = wb (f a) x) -> (forall a, fine3 (f a) = fine3 a) ->
  forall fl a b, simr fl a b -> simr fl (f a) (f b).
Proof.
  intros C P. apply simr_lift.
  - intros a x. rewrite C. apply core_wb.
  - intros a x F. rewrite C. apply fine3_wb. eapply fine_keep; [apply P|exact F].
Qed.

(** ProcessDecidedRounds *)
Lemma fine3_add_consensus_events l : forall s, fine3 (fold_left add_consensus_event l s) = fine3 s.
Proof. induction l as [|fe l IH]; intros s; cbn [fold_left]; [reflexivity|]. rewrite IH. destruct s; reflexivity. Qed.

Lemma block_of_frame_any i j f s :
  b_txs (block_of_frame i f s) = b_txs (block_of_frame j f s) /\
  b_itxs (block_of_frame i f s) = b_itxs (block_of_frame j f s) /\
  b_rr (block_of_frame i f s) = b_rr (block_of_frame j f s).
Proof. repeat split. Qed.

Lemma process_frame_core a x f : core (process_frame (wb a x) f) = core (process_frame a f).
Proof.
  unfold process_frame. destruct (f_events f) as [|fe0 rest] eqn:Ef; [apply core_wb|].
  rewrite <- Ef. rewrite (fold_wb add_consensus_event (f_events f)) by (intros; apply add_consensus_event_wb).
  set (s1 := fold_left add_consensus_event (f_events f) a).
  rewrite last_block_wb, block_of_frame_wb.
  destruct (block_of_frame_any (i_lb x + 1) (last_block s1 + 1) f s1) as [Ht [Hi Hr]].
  rewrite Ht, Hi.
  assert (K : core (commit (store_set_block (wb s1 x) (block_of_frame (i_lb x + 1) f s1)) (block_of_frame (i_lb x + 1) f s1)) =
              core (commit (store_set_block s1 (block_of_frame (last_block s1 + 1) f s1)) (block_of_frame (last_block s1 + 1) f s1))).
  { rewrite store_set_block_wb.
    rewrite (wb_same s1 (store_set_block s1 (block_of_frame (last_block s1 + 1) f s1))) by (symmetry; apply core_store_set_block).
    apply commit_coarse; split; [symmetry; exact Hr|symmetry; exact Hi]. }
  destruct (b_txs (block_of_frame (last_block s1 + 1) f s1)), (b_itxs (block_of_frame (last_block s1 + 1) f s1));
    [apply core_wb|exact K|exact K|exact K].
Qed.

Lemma process_frame_fine a x f : fine a x -> fine3 (process_frame (wb a x) f) = fine3 (process_frame a f).
Proof.
  intros F. unfold process_frame. destruct (f_events f) as [|fe0 rest] eqn:Ef; [apply fine3_wb; exact F|].
  rewrite <- Ef. rewrite (fold_wb add_consensus_event (f_events f)) by (intros; apply add_consensus_event_wb).
  set (s1 := fold_left add_consensus_event (f_events f) a).
  assert (F1 : fine s1 x) by (eapply fine_keep; [apply fine3_add_consensus_events|exact F]).
  rewrite last_block_wb, block_of_frame_wb.
  assert (El : i_lb x = last_block s1) by (unfold fine, fine3 in F1; congruence).
  rewrite El. set (b := block_of_frame (last_block s1 + 1) f s1).
  assert (K : fine3 (commit (store_set_block (wb s1 x) b) b) = fine3 (commit (store_set_block s1 b) b)).
  { rewrite store_set_block_wb.
    rewrite (wb_same s1 (store_set_block s1 b)) by (symmetry; apply core_store_set_block).
    apply commit_fine; apply fine_store; exact F1. }
  destruct (b_txs b), (b_itxs b); [apply fine3_wb; exact F1|exact K|exact K|exact K].
Qed.

Lemma process_frame_simr fl a b f : simr fl a b -> simr fl (process_frame a f) (process_frame b f).
Proof.
  apply (simr_lift (fun s => process_frame s f)); intros; [apply process_frame_core|apply process_frame_fine; auto].
Qed.

Lemma fine3_fail s : fine3 (fail s) = fine3 s.
Proof. destruct s; reflexivity. Qed.
Lemma fine3_bump s r : fine3 (bump_last_consensus s r) = fine3 s.
Proof. unfold bump_last_consensus. destruct (last_consensus s) as [l|]; [destruct (l <? r)|]; destruct s; reflexivity. Qed.
Lemma fine3_get_frame s r : fine3 (snd (get_frame s r)) = fine3 s.
Proof. pose proof (get_frame_bl s r) as H. unfold bl in H. unfold fine3. inversion H as [[H1 H2 H3]].
  rewrite H2, H3. f_equal.
  unfold get_frame. destruct (zget r (frames s)); [reflexivity|]. destruct (get_round s r); [|reflexivity].
  destruct (get_peerset s r); [|reflexivity].
  match goal with |- context [fold_left ?f ?l ?a] => destruct (fold_left f l a) end; [|reflexivity].
  match goal with |- context [fold_left ?f (repertoire s) ?a] => destruct (fold_left f (repertoire s) a) end; [|reflexivity].
  cbn [snd]. destruct s; reflexivity.
Qed.

Lemma fail_simr fl a b : simr fl a b -> simr fl (fail a) (fail b).
Proof. apply (simr_commute fail); [apply fail_wb|apply fine3_fail]. Qed.
Lemma bump_simr fl a b r : simr fl a b -> simr fl (bump_last_consensus a r) (bump_last_consensus b r).
Proof. apply (simr_commute (fun s => bump_last_consensus s r)); intros; [apply bump_last_consensus_wb|apply fine3_bump]. Qed.

Lemma simr_failed fl a b : simr fl a b -> failed a = failed b.
Proof. intros S. destruct (simr_inv _ _ _ S) as [x [-> _]]. rewrite failed_wb. reflexivity. Qed.

Lemma get_frame_simr fl a b r : simr fl a b ->
  fst (get_frame a r) = fst (get_frame b r) /\ simr fl (snd (get_frame a r)) (snd (get_frame b r)).
Proof.
  intros S. destruct (simr_inv _ _ _ S) as [x [-> Fx]]. rewrite get_frame_wb. unfold wb2; cbn [fst snd].
  split; [reflexivity|]. apply simr_wb. intros E. eapply fine_keep; [apply fine3_get_frame|auto].
Qed.

Lemma process_round_simr fl a b p st pr : simr fl a b ->
  simr fl (fst (fst (process_round (a, p, st) pr))) (fst (fst (process_round (b, p, st) pr))) /\
  snd (fst (process_round (a, p, st) pr)) = snd (fst (process_round (b, p, st) pr)) /\
  snd (process_round (a, p, st) pr) = snd (process_round (b, p, st) pr).
Proof.
  intros S. unfold process_round. rewrite <- (simr_failed fl a b S).
  destruct (st || failed a); [cbn [fst snd]; auto|].
  destruct (negb (snd pr)); [cbn [fst snd]; auto|].
  assert (Gr : get_round b (fst pr) = get_round a (fst pr)).
  { destruct (simr_inv _ _ _ S) as [x [-> _]]. apply get_round_wb. }
  rewrite Gr. destruct (get_round a (fst pr)); [|cbn [fst snd]; split; [apply fail_simr; auto|auto]].
  destruct (get_frame_simr fl a b (fst pr) S) as [E1 S1].
  destruct (get_frame a (fst pr)) as [fa sa], (get_frame b (fst pr)) as [fb sb]. cbn [fst snd] in E1, S1. subst fb.
  destruct fa as [f|]; cbn [fst snd].
  - split; [apply bump_simr, process_frame_simr; exact S1|auto].
  - split; [apply fail_simr; exact S1|auto].
Qed.

Lemma simr_pending fl a b : simr fl a b -> pending a = pending b.
Proof. intros S. destruct (simr_inv _ _ _ S) as [x [-> _]]. rewrite pending_wb. reflexivity. Qed.

Lemma fine3_set_pending s v : fine3 (s <| pending := v |>) = fine3 s.
Proof. destruct s; reflexivity. Qed.

Lemma process_decided_rounds_simr fl a b : simr fl a b -> simr fl (process_decided_rounds a) (process_decided_rounds b).
Proof.
  intros S. unfold process_decided_rounds. rewrite <- (simr_pending fl a b S).
  assert (G : forall l a b p st, simr fl a b ->
            simr fl (fst (fst (fold_left process_round l (a, p, st)))) (fst (fst (fold_left process_round l (b, p, st)))) /\
            snd (fst (fold_left process_round l (a, p, st))) = snd (fst (fold_left process_round l (b, p, st)))).
  { induction l as [|pr l IH]; intros a0 b0 p st S0; cbn [fold_left]; [cbn [fst snd]; auto|].
    destruct (process_round_simr fl a0 b0 p st pr S0) as [S1 [E1 E2]].
    destruct (process_round (a0, p, st) pr) as [[a1 p1] st1], (process_round (b0, p, st) pr) as [[b1 p2] st2].
    cbn [fst snd] in *. subst p2 st2. apply IH. exact S1. }
  destruct (G (pending a) a b [] false S) as [S1 E1].
  destruct (fold_left process_round (pending a) (a, [], false)) as [[sa pa] xa],
           (fold_left process_round (pending a) (b, [], false)) as [[sb pb] xb]. cbn [fst snd] in *. subst pb.
  rewrite <- (simr_pending fl sa sb S1).
  apply (simr_commute (fun s => s <| pending := filter (fun p => negb (existsb (Z.eqb (fst p)) pa)) (pending sa) |>));
    [intros; apply set_pending_wb|intros; apply fine3_set_pending|exact S1].
Qed.

(** the consensus passes after an insertion *)
Lemma divide_rounds_simr fl a b : simr fl a b -> simr fl (divide_rounds a) (divide_rounds b).
Proof. apply (simr_commute divide_rounds); [apply divide_rounds_wb|intros; apply bview_fine3, divide_rounds_bview]. Qed.
Lemma decide_fame_simr fl a b : simr fl a b -> simr fl (decide_fame a) (decide_fame b).
Proof. apply (simr_commute decide_fame); [apply decide_fame_wb|intros; apply bview_fine3, decide_fame_bview]. Qed.
Lemma decide_round_received_simr fl a b : simr fl a b -> simr fl (decide_round_received a) (decide_round_received b).
Proof.
  apply (simr_commute decide_round_received); [apply decide_round_received_wb|intros; apply bview_fine3, decide_round_received_bview].
Qed.

Lemma run_consensus_simr fl a b : simr fl a b -> simr fl (run_consensus a) (run_consensus b).
Proof.
  intros S. unfold run_consensus.
  pose proof (divide_rounds_simr fl a b S) as S1. rewrite <- (simr_failed _ _ _ S1).
  destruct (failed (divide_rounds a)); [exact S1|].
  pose proof (decide_fame_simr fl _ _ S1) as S2. rewrite <- (simr_failed _ _ _ S2).
  destruct (failed (decide_fame (divide_rounds a))); [exact S2|].
  pose proof (decide_round_received_simr fl _ _ S2) as S3. rewrite <- (simr_failed _ _ _ S3).
  destruct (failed (decide_round_received (decide_fame (divide_rounds a)))); [exact S3|].
  apply process_decided_rounds_simr. exact S3.
Qed.

(** InsertEvent *)
Definition ign_sigs (x : ign) (l : list bsig) : ign :=
  mkIgn (i_blocks x) (i_anchor x) (fold_left sigpool_add l (i_sigpool x)) (i_lb x) (i_del x) (i_ss x).
Lemma set_sigpool_wb s x v :
  (wb s x) <| sigpool := v |> = wb s (mkIgn (i_blocks x) (i_anchor x) v (i_lb x) (i_del x) (i_ss x)).
Proof. destruct s, x; reflexivity. Qed.
Lemma core_set_sigpool s v : core (s <| sigpool := v |>) = core s.
Proof. destruct s; reflexivity. Qed.
Lemma fine3_set_sigpool s v : fine3 (s <| sigpool := v |>) = fine3 s.
Proof. destruct s; reflexivity. Qed.

Lemma insert_admitted_simr fl a x e : (fl = true -> fine a x) ->
  fst (insert_admitted (wb a x) e) = fst (insert_admitted a e) /\
  simr fl (snd (insert_admitted a e)) (snd (insert_admitted (wb a x) e)).
Proof.
  intros F. unfold insert_admitted. cbv zeta.
  rewrite topo_wb, set_topo_wb, init_coords_wb, store_set_event_wb.
  set (a1 := a <| topo := topo a + 1 |>).
  assert (F1 : fl = true -> fine a1 x) by (intros E; eapply fine_keep; [|apply F; exact E]; subst a1; destruct a; reflexivity).
  destruct (store_set_event a1 _) as [a2|] eqn:Es; cbn [option_map fst snd].
  - split; [reflexivity|].
    rewrite update_ancestor_fd_wb, undetermined_wb, set_undetermined_wb.
    set (a4 := update_ancestor_fd a2 e _ <| undetermined := _ |>).
    assert (E5 : (if is_loaded e then wb a4 x <| pending_loaded := pending_loaded (wb a4 x) + 1 |> else wb a4 x)
                 = wb (if is_loaded e then a4 <| pending_loaded := pending_loaded a4 + 1 |> else a4) x).
    { destruct (is_loaded e); [rewrite pending_loaded_wb, set_pending_loaded_wb|]; reflexivity. }
    rewrite E5. set (a5 := if is_loaded e then _ else a4).
    rewrite sigpool_wb, set_sigpool_wb.
    assert (B5 : fine3 a5 = fine3 a1).
    { apply bview_fine3. subst a5.
      transitivity (bview a4); [destruct (is_loaded e); [apply bview_set_pending_loaded|reflexivity]|].
      subst a4. rewrite bview_set_undetermined, update_ancestor_fd_bview.
      eapply store_set_event_bview; eauto. }
    split.
    + rewrite core_wb, core_set_sigpool. reflexivity.
    + intros E. rewrite fine3_set_sigpool.
      unfold fine3 at 2. rewrite last_block_wb, delivered_wb, self_sigs_wb. cbn [i_lb i_del i_ss].
      rewrite B5. symmetry. apply (F1 E).
  - split; [reflexivity|]. apply simr_wb. exact F1.
Qed.

Lemma insert_event_simr fl a b e : simr fl a b ->
  fst (insert_event a e) = fst (insert_event b e) /\ simr fl (snd (insert_event a e)) (snd (insert_event b e)).
Proof.
  intros S. destruct (simr_inv _ _ _ S) as [x [-> F]].
  unfold insert_event. destruct (negb (e_sigok e)); [cbn [fst snd]; auto|].
  rewrite check_self_parent_wb, check_other_parent_wb.
  destruct (check_self_parent a e); cbn [fst snd]; auto.
  destruct (check_other_parent a e); cbn [fst snd]; auto.
  destruct (insert_admitted_simr fl a x e F) as [E1 S1]. auto.
Qed.

Lemma step_simr fl a b e : simr fl a b ->
  fst (insert_and_run a e) = fst (insert_and_run b e) /\ simr fl (step a e) (step b e).
Proof.
  intros S. unfold step, insert_and_run.
  destruct (insert_event_simr fl a b e S) as [E1 S1].
  destruct (insert_event a e) as [ra sa], (insert_event b e) as [rb sb]. cbn [fst snd] in *. subst rb.
  destruct ra; cbn [fst snd]; auto. split; [reflexivity|]. apply run_consensus_simr. exact S1.
Qed.

(** ProcessSigPool: only blocks, anchor, sigpool change *)
Lemma fine3_proj s s' : fine3 s = fine3 s' -> last_block s = last_block s' /\ delivered s = delivered s' /\ self_sigs s = self_sigs s'.
Proof. unfold fine3. intros H. inversion H. auto. Qed.

Lemma process_sig_fine3 st s :
  fine3 (process_sig st s) = fine3 st \/
  exists b, zget (bs_index s) (blocks st) = Some b /\ fine3 (process_sig st s) = t3_store (fine3 st) (b <| b_sigs := aset (bs_validator s) (bs_over s) (b_sigs b) |>).
Proof.
  unfold process_sig.
  destruct (zget (bs_index s) (blocks st)) as [b|]; [|auto].
  destruct (get_peerset st (b_rr b)); [|auto].
  destruct (negb (mem_key _ _)); [auto|]. destruct (negb (_ =? _)); [auto|].
  cbv zeta. right. exists b. split; [reflexivity|].
  rewrite fine3_set_sigpool, fine3_set_anchor_block, fine3_store'. reflexivity.
Qed.

Lemma process_sig_self_sim st s : core (process_sig st s) = core st /\ delivered (process_sig st s) = delivered st /\
  self_sigs (process_sig st s) = self_sigs st.
Proof.
  split.
  - unfold process_sig.
    destruct (zget (bs_index s) (blocks st)) as [b|]; [|auto].
    destruct (get_peerset st (b_rr b)); [|auto].
    destruct (negb (mem_key _ _)); [auto|]. destruct (negb (_ =? _)); [auto|].
    cbv zeta. rewrite core_set_sigpool, core_set_anchor_block, core_store_set_block. reflexivity.
  - destruct (process_sig_fine3 st s) as [H|[b [_ H]]].
    + apply fine3_proj in H. tauto.
    + unfold fine3 in H. unfold t3_store in H. inversion H. auto.
Qed.

Lemma process_sigpool_core st : core (process_sigpool st) = core st.
Proof.
  unfold process_sigpool. generalize (sigpool st). intros l. revert st.
  induction l as [|s l IH]; intros st; cbn [fold_left]; [reflexivity|].
  rewrite IH. apply process_sig_self_sim.
Qed.

(* under the block-store invariant ProcessSigPool does not move the last block index either *)
Lemma process_sig_last_block st s : binv st -> last_block (process_sig st s) = last_block st.
Proof.
  intros OK. destruct (process_sig_fine3 st s) as [H|[b [Hb H]]].
  - apply fine3_proj in H. tauto.
  - unfold fine3 in H. unfold t3_store in H. inversion H as [[H1 H2 H3]].
    destruct (b_idx st OK _ _ Hb) as [Hi Hr]. destruct b; cbn in *. lia.
Qed.

Lemma process_sigpool_fsim st : binv st -> simr true st (process_sigpool st).
Proof.
  intros OK. split; [symmetry; apply process_sigpool_core|]. intros _.
  unfold process_sigpool. generalize (sigpool st). intros l. revert st OK.
  induction l as [|s l IH]; intros st OK; cbn [fold_left]; [reflexivity|].
  rewrite <- IH by (apply process_sig_binv; exact OK).
  unfold fine3. rewrite (process_sig_last_block st s OK).
  destruct (process_sig_self_sim st s) as [_ [H2 H3]]. rewrite H2, H3. reflexivity.
Qed.
