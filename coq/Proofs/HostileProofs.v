(* C08: proofs about Model/Hostile.v.  With every repair present no function of the validation
   layer ends in Panic or Hang, for ALL argument values (a superset of the hostile grammar). *)
From Coq Require Import ZArith List Bool Lia.
From V Require Import Model.Hostile.
Import ListNotations.
Open Scope Z_scope.

Definition safe {A} (o : outcome A) : Prop := o <> Panic /\ o <> Hang.

Lemma safe_ok : forall A (a : A), safe (Ok a).
Proof. intros A a; split; discriminate. Qed.
Lemma safe_err : forall A, safe (@Err A).
Proof. intros A; split; discriminate. Qed.
#[global] Hint Resolve safe_ok safe_err : hostile.

Lemma safe_bind : forall A B (o : outcome A) (f : A -> outcome B),
  safe o -> (forall a, o = Ok a -> safe (f a)) -> safe (bind o f).
Proof.
  intros A B o f [Hp Hh] Hf. destruct o as [a| | |]; cbn [bind].
  - apply Hf; reflexivity.
  - apply safe_err.
  - contradiction Hp; reflexivity.
  - contradiction Hh; reflexivity.
Qed.

Lemma safe_if : forall A (b : bool) (x y : outcome A), safe x -> safe y -> safe (if b then x else y).
Proof. intros A b x y Hx Hy; destruct b; assumption. Qed.

(* ---------------------------------------------------------------- primitives *)

Lemma len_nonneg : forall A (l : list A), 0 <= len l.
Proof. intros; unfold len; lia. Qed.

Lemma slice_from_safe : forall A (s : list A) k, 0 <= k <= len s -> safe (slice_from s k).
Proof.
  intros A s k Hk. unfold slice_from.
  replace ((k <? 0) || (len s <? k)) with false; [apply safe_ok|].
  symmetry; apply orb_false_iff; split; apply Z.ltb_ge; lia.
Qed.

Lemma slice_to_safe : forall n k, 0 <= k <= n -> safe (slice_to n k).
Proof.
  intros n k Hk. unfold slice_to.
  replace ((k <? 0) || (n <? k)) with false; [apply safe_ok|].
  symmetry; apply orb_false_iff; split; apply Z.ltb_ge; lia.
Qed.

(* ---------------------------------------------------------------- hex *)

Lemma decode_from_string_safe : forall s, safe (decode_from_string repaired s).
Proof.
  intros s. unfold decode_from_string. cbn [fx_hex repaired andb].
  destruct (len s <? 2) eqn:E.
  - apply safe_ok.
  - apply safe_bind.
    + apply slice_from_safe. apply Z.ltb_ge in E. lia.
    + intros; apply safe_ok.
Qed.

Lemma pub_key_bytes_safe : forall s, safe (pub_key_bytes repaired s).
Proof.
  intros s. unfold pub_key_bytes. apply safe_bind; [apply decode_from_string_safe|intros; apply safe_ok].
Qed.

(* ---------------------------------------------------------------- signatures *)

Lemma decode_signature_safe : forall fx sig, safe (decode_signature fx sig).
Proof.
  intros fx sig. unfold decode_signature.
  destruct (split_bar sig) as [|a [|b [|c l]]]; try apply safe_err.
  destruct (fx_sig fx && (is_none (set_string36 a) || is_none (set_string36 b))); [apply safe_err|apply safe_ok].
Qed.

(* with the repair a decoded signature has no nil component *)
Lemma decode_signature_repaired_some : forall sig r s,
  decode_signature repaired sig = Ok (r, s) -> is_none r = false /\ is_none s = false.
Proof.
  intros sig r s. unfold decode_signature.
  destruct (split_bar sig) as [|a [|b [|c l]]]; try discriminate.
  cbn [fx_sig repaired andb].
  destruct (is_none (set_string36 a) || is_none (set_string36 b)) eqn:E; [discriminate|].
  intros H; inversion H; subst. apply orb_false_iff in E. exact E.
Qed.

(* ---------------------------------------------------------------- keys *)

Lemma keys_verify_safe : forall pk r s b, safe (keys_verify repaired pk r s b).
Proof.
  intros pk r s b. unfold keys_verify. cbn [fx_key repaired andb].
  destruct (key_unusable pk || is_none r || is_none s) eqn:E; [apply safe_ok|].
  apply orb_false_iff in E; destruct E as [E Hs]. apply orb_false_iff in E; destruct E as [Hk Hr].
  destruct r as [rv|]; [|discriminate]. destruct s as [sv|]; [|discriminate].
  destruct pk; try discriminate.
  destruct (rv <=? 0); [apply safe_ok|]. destruct (sv <=? 0); [apply safe_ok|].
  destruct ((secp_n <=? rv) || (secp_n <=? sv)); apply safe_ok.
Qed.

(* ---------------------------------------------------------------- objects *)

Lemma block_verify_safe : forall v sig b, safe (block_verify repaired v sig b).
Proof.
  intros. unfold block_verify. apply safe_bind; [apply decode_signature_safe|].
  intros; apply keys_verify_safe.
Qed.

Lemma itx_verify_safe : forall t, safe (itx_verify repaired t).
Proof.
  intros t. unfold itx_verify. apply safe_if; [apply safe_err|].
  apply safe_bind; [apply pub_key_bytes_safe|]. intros kb _.
  apply safe_bind; [apply decode_signature_safe|]. intros; apply keys_verify_safe.
Qed.

Lemma itxs_verify_safe : forall l, safe (itxs_verify repaired l).
Proof.
  induction l as [|t r IH]; cbn [itxs_verify]; [apply safe_ok|].
  apply safe_bind; [apply itx_verify_safe|]. intros ok _. destruct ok; [exact IH|apply safe_err].
Qed.

Lemma bsigs_wellformed_safe : forall fx l, safe (bsigs_wellformed fx l).
Proof.
  intros fx; induction l as [|s r IH]; cbn [bsigs_wellformed]; [apply safe_ok|].
  destruct (decode_signature fx s); try apply safe_err.
  destruct (encodable s); [exact IH|apply safe_err].
Qed.

Lemma event_verify_safe : forall itxs bsigs creator sig b,
  safe (event_verify repaired itxs bsigs creator sig b).
Proof.
  intros. unfold event_verify.
  apply safe_bind; [apply itxs_verify_safe|]. intros _ _.
  apply safe_bind; [cbn [fx_utf8 repaired]; apply bsigs_wellformed_safe|]. intros _ _.
  apply safe_bind; [apply decode_signature_safe|]. intros; apply keys_verify_safe.
Qed.

Lemma parent_at_safe : forall which n, safe (parent_at repaired which n).
Proof. intros; unfold parent_at; cbn [fx_parents repaired]; apply safe_ok. Qed.

(* an accepted internal transaction carries only text that the canonical encoder terminates on *)
Lemma itx_verify_repaired_encodable : forall t,
  itx_verify repaired t = Ok true ->
  quote_str (it_key t) = Ok tt /\ quote_str (it_addr t) = Ok tt /\ quote_str (it_moniker t) = Ok tt.
Proof.
  intros t. unfold itx_verify. cbn [fx_utf8 repaired andb].
  destruct (encodable (it_key t) && encodable (it_addr t) && encodable (it_moniker t)) eqn:E;
    cbn [negb]; [intros _|discriminate].
  apply andb_true_iff in E; destruct E as [E Hm]. apply andb_true_iff in E; destruct E as [Hk Ha].
  unfold encodable in *. unfold quote_str.
  apply andb_true_iff in Hk; destruct Hk as [_ Hk]. apply andb_true_iff in Ha; destruct Ha as [_ Ha].
  apply andb_true_iff in Hm; destruct Hm as [_ Hm].
  apply negb_true_iff in Hk, Ha, Hm. rewrite Hk, Ha, Hm. repeat split.
Qed.

Lemma bsigs_wellformed_encodable : forall fx l,
  bsigs_wellformed fx l = Ok tt -> forall s, In s l -> quote_str s = Ok tt.
Proof.
  intros fx; induction l as [|x r IH]; cbn [bsigs_wellformed]; intros H s Hin; [contradiction|].
  destruct (decode_signature fx x); try discriminate.
  destruct (encodable x) eqn:E; [|discriminate].
  destruct Hin as [->|Hin]; [|apply IH; assumption].
  unfold encodable in E; apply andb_true_iff in E; destruct E as [_ E]; apply negb_true_iff in E.
  unfold quote_str; rewrite E; reflexivity.
Qed.

(* ---------------------------------------------------------------- peers, frames *)

Lemma peer_id_safe : forall p, peer_present p = true -> safe (peer_id repaired p).
Proof.
  intros [k|] H; [|discriminate]. cbn [peer_id].
  apply safe_bind; [apply pub_key_bytes_safe|intros; apply safe_ok].
Qed.

Lemma new_peer_set_safe : forall l, forallb peer_present l = true -> safe (new_peer_set repaired l).
Proof.
  induction l as [|p r IH]; cbn [new_peer_set forallb]; intros H; [apply safe_ok|].
  apply andb_true_iff in H; destruct H as [Hp Hr].
  apply safe_bind; [apply peer_id_safe; exact Hp|intros; apply IH; exact Hr].
Qed.

Lemma get_signatures_safe : forall ks, safe (get_signatures repaired ks).
Proof.
  induction ks as [|k r IH]; cbn [get_signatures]; [apply safe_ok|].
  apply safe_bind; [apply pub_key_bytes_safe|intros; exact IH].
Qed.

Lemma check_sigs_safe : forall l, safe (check_sigs repaired l).
Proof.
  induction l as [|[[[k m] sig] b] r IH]; cbn [check_sigs]; [apply safe_ok|].
  destruct m; [|exact IH].
  apply safe_bind; [apply pub_key_bytes_safe|]. intros kb _.
  pose proof (block_verify_safe kb sig b) as [Hp Hh].
  destruct (block_verify repaired kb sig b) as [[|]| | |]; try exact IH.
  - apply safe_bind; [exact IH|intros; apply safe_ok].
  - contradiction Hp; reflexivity.
  - contradiction Hh; reflexivity.
Qed.

Lemma peersets_ok_safe : forall l, forallb (forallb peer_present) l = true -> safe (peersets_ok repaired l).
Proof.
  induction l as [|ps r IH]; cbn [peersets_ok forallb]; intros H; [apply safe_ok|].
  apply andb_true_iff in H; destruct H as [Hp Hr].
  apply safe_bind; [apply new_peer_set_safe; exact Hp|intros; apply IH; exact Hr].
Qed.

Lemma collect_roots_valid : forall roots, forallb root_valid roots = true ->
  exists l, collect_roots roots = Ok l /\ forallb fev_valid l = true.
Proof.
  induction roots as [|r rs IH]; cbn [collect_roots forallb]; intros H.
  - exists []; split; reflexivity.
  - apply andb_true_iff in H; destruct H as [Hr Hrs].
    destruct r as [evs|]; [|discriminate].
    destruct (IH Hrs) as [l [Hl Hv]]. rewrite Hl. cbn [bind].
    exists (evs ++ l); split; [reflexivity|].
    rewrite forallb_app. cbn [root_valid] in Hr. rewrite Hr, Hv. reflexivity.
Qed.

Lemma fevs_insertable_safe : forall l, forallb fev_valid l = true -> safe (fevs_insertable repaired l).
Proof.
  induction l as [|e r IH]; cbn [fevs_insertable forallb]; intros H; [apply safe_ok|].
  apply andb_true_iff in H; destruct H as [He Hr].
  apply safe_bind; [|intros; apply IH; exact Hr].
  destruct e; try discriminate. cbn [fev_insertable].
  apply safe_bind; [apply parent_at_safe|intros; apply parent_at_safe].
Qed.

Lemma reset_derefs_safe : forall f, frame_validate f = true -> safe (reset_derefs repaired f).
Proof.
  intros f H. unfold frame_validate in H.
  apply andb_true_iff in H; destruct H as [H He]. apply andb_true_iff in H; destruct H as [H Hr].
  apply andb_true_iff in H; destruct H as [Hp Hps].
  unfold reset_derefs. apply safe_bind; [apply peersets_ok_safe; exact Hps|]. intros _ _.
  destruct (collect_roots_valid _ Hr) as [l [Hl Hv]]. rewrite Hl. cbn [bind].
  apply fevs_insertable_safe. rewrite forallb_app, Hv, He. reflexivity.
Qed.

Lemma ff_check_safe : forall f, safe (ff_check repaired f).
Proof.
  intros f. unfold ff_check. cbn [fx_frame fx_utf8 repaired andb].
  destruct (frame_validate f) eqn:V; cbn [negb]; [|apply safe_err].
  assert (Hp : forallb peer_present (ff_peers f) = true).
  { unfold frame_validate in V. apply andb_true_iff in V; destruct V as [V _].
    apply andb_true_iff in V; destruct V as [V _]. apply andb_true_iff in V; destruct V as [V _]. exact V. }
  apply safe_bind; [apply new_peer_set_safe; exact Hp|]. intros _ _.
  apply safe_if; [apply safe_err|].
  apply safe_bind; [apply get_signatures_safe|]. intros _ _.
  apply safe_bind; [apply check_sigs_safe|]. intros n _.
  apply safe_if; [apply safe_err|].
  destruct (ff_has_fffd f); [apply safe_err|].
  apply safe_if; [apply safe_err|].
  apply reset_derefs_safe; exact V.
Qed.

(* the comparator of validated frame events *)
Lemma fe_less_safe : forall a b, fev_valid a = true -> fev_valid b = true -> safe (fe_less repaired a b).
Proof.
  intros a b Ha Hb. destruct a as [| |la na sa]; try discriminate. destruct b as [| |lb nb sb]; try discriminate.
  cbn [fe_less]. destruct (negb (la =? lb)); [apply safe_ok|].
  destruct (decode_signature repaired sa) as [[ra ?]| | |]; destruct (decode_signature repaired sb) as [[rb ?]| | |];
    try destruct ra; try destruct rb; cbn [fx_less repaired]; apply safe_ok.
Qed.

(* ---------------------------------------------------------------- signature pool *)

Lemma process_sigpool_repaired_ok : forall l, fst (process_sigpool repaired l) = Ok tt.
Proof.
  induction l as [|e r IH]; cbn [process_sigpool]; [reflexivity|].
  destruct (negb (pe_known e) || negb (pe_member e)).
  - destruct (process_sigpool repaired r) as [o rest]; exact IH.
  - pose proof (block_verify_safe (pe_validator e) (pe_sig e) (pe_sigok e)) as [Hp Hh].
    destruct (block_verify repaired (pe_validator e) (pe_sig e) (pe_sigok e)) as [[|]| | |].
    + exact IH.
    + destruct (process_sigpool repaired r) as [o rest]; exact IH.
    + cbn [fx_sigpool repaired]. exact IH.
    + contradiction Hp; reflexivity.
    + contradiction Hh; reflexivity.
Qed.

(* as it is: one malformed signature is never removed, and every call ends with an error on it *)
Lemma process_sigpool_asis_stuck : forall e r,
  pe_known e = true -> pe_member e = true ->
  block_verify asis (pe_validator e) (pe_sig e) (pe_sigok e) = Err ->
  process_sigpool asis (e :: r) = (Err, e :: r).
Proof.
  intros e r Hk Hm Hv. cbn [process_sigpool]. rewrite Hk, Hm, Hv. reflexivity.
Qed.

(* ---------------------------------------------------------------- handlers *)

Lemma sync_request_safe : forall st limit conf d, safe (sync_request repaired st limit conf d).
Proof.
  intros. unfold sync_request. cbn [fx_limit repaired andb].
  destruct (negb (gate st true)); [apply safe_err|].
  destruct (d <? 0) eqn:Ed; [apply safe_err|].
  destruct (Z.ltb_spec 0 d) as [Hd|Hd]; [|apply safe_ok].
  destruct (Z.min limit conf <? 0) eqn:En.
  - destruct (Z.ltb_spec 0 d) as [_|Hd']; [apply slice_to_safe; lia|apply safe_ok].
  - destruct (Z.min limit conf <? d) eqn:El; [|apply safe_ok].
    apply slice_to_safe. apply Z.ltb_ge in En. apply Z.ltb_lt in El. lia.
Qed.

Lemma join_request_safe : forall st t present, safe (join_request repaired st t present).
Proof.
  intros. unfold join_request. destruct (negb (gate st false)); [apply safe_err|].
  apply safe_bind; [apply itx_verify_safe|]. intros ok _.
  destruct (negb ok); [apply safe_err|]. destruct present; [apply safe_ok|apply safe_err].
Qed.

Lemma eager_sync_safe : forall st e pool, safe (fst (eager_sync repaired st e pool)).
Proof.
  intros. unfold eager_sync.
  destruct (negb (gate st false)); [apply safe_err|].
  destruct (negb (we_read_ok e)); [apply safe_err|].
  pose proof (event_verify_safe (we_itxs e) (we_bsigs e) (we_creator e) (we_sig e) (we_sigok e)) as [Hp Hh].
  destruct (event_verify repaired (we_itxs e) (we_bsigs e) (we_creator e) (we_sig e) (we_sigok e)) as [[|]| | |];
    cbn [fst]; try apply safe_err.
  - destruct (we_rest_ok e); [|apply safe_err]. rewrite process_sigpool_repaired_ok. apply safe_ok.
  - contradiction Hp; reflexivity.
  - contradiction Hh; reflexivity.
Qed.

(* ---------------------------------------------------------------- core.heads *)

Lemma known_head_cons : forall k x h, known_head k h = true -> known_head (x :: k) h = true.
Proof.
  intros k x [y|] H; [|reflexivity]. cbn [known_head existsb] in *. rewrite H. apply orb_true_r.
Qed.

Lemma heads_ok_cons : forall k x hs, heads_ok k hs = true -> heads_ok (x :: k) hs = true.
Proof.
  intros k x hs. unfold heads_ok. induction hs as [|p r IH]; cbn [forallb]; intros H; [reflexivity|].
  apply andb_true_iff in H; destruct H as [Hp Hr]. rewrite (known_head_cons _ _ _ Hp), (IH Hr). reflexivity.
Qed.

Lemma heads_ok_del : forall k hs c, heads_ok k hs = true -> heads_ok k (del_head hs c) = true.
Proof.
  intros k hs c. unfold heads_ok, del_head. induction hs as [|p r IH]; cbn [forallb filter]; intros H; [reflexivity|].
  apply andb_true_iff in H; destruct H as [Hp Hr].
  destruct (negb (fst p =? c)); [cbn [forallb]; rewrite Hp, (IH Hr); reflexivity|exact (IH Hr)].
Qed.

Lemma heads_ok_set : forall k hs c v,
  heads_ok k hs = true -> known_head k v = true -> heads_ok k (set_head hs c v) = true.
Proof.
  intros k hs c v H Hv. unfold set_head. change (heads_ok k ((c, v) :: del_head hs c)) with
    (known_head k v && heads_ok k (del_head hs c)). rewrite Hv, (heads_ok_del _ _ _ H). reflexivity.
Qed.

(* as long as every recorded head is an event of the hashgraph, recording the heads succeeds and the
   property is kept - whether the event of the message was inserted or skipped *)
Lemma sync_heads_ok : forall known heads busy ins m,
  heads_ok known heads = true ->
  fst (fst (sync_heads known heads busy ins m)) = true /\
  heads_ok (snd (fst (sync_heads known heads busy ins m))) (snd (sync_heads known heads busy ins m)) = true.
Proof.
  intros known heads busy ins m H. unfold sync_heads.
  set (known1 := if ins then em_id m :: known else known).
  set (other := if ins && (em_creator m =? em_from m) then Some (em_id m) else None).
  set (heads1 := if ins then match head_of heads (em_creator m) with
                             | Some (Some _) => del_head heads (em_creator m) | _ => heads end else heads).
  assert (H1 : heads_ok known1 heads1 = true).
  { unfold known1, heads1. destruct ins; [|exact H].
    destruct (head_of heads (em_creator m)) as [[?|]|]; try (apply heads_ok_cons; exact H).
    apply heads_ok_cons. apply heads_ok_del. exact H. }
  assert (Ho : known_head known1 other = true).
  { unfold known1, other. destruct ins; cbn [andb]; [|reflexivity].
    destruct (em_creator m =? em_from m); [|reflexivity].
    cbn [known_head existsb]. rewrite Z.eqb_refl. reflexivity. }
  set (heads2 := match head_of heads1 (em_from m), other with
                 | Some (Some _), None => heads1 | _, _ => set_head heads1 (em_from m) other end).
  assert (H2 : heads_ok known1 heads2 = true).
  { unfold heads2. destruct (head_of heads1 (em_from m)) as [[?|]|]; destruct other;
      try (apply heads_ok_set; assumption); exact H1. }
  destruct busy; cbn [fst snd]; [rewrite H2; cbn [fst snd]; split; reflexivity|split; [reflexivity|exact H2]].
Qed.

(* ---------------------------------------------------------------- the node *)

Lemma handle_safe : forall st c, ns_locked st = false -> safe (fst (handle repaired st c)).
Proof.
  intros st c L. destruct c as [limit de|e sigs m|t present| |f snap blocks]; cbn [handle]; rewrite L.
  - destruct (negb (gate (ns_state st) true)); [apply safe_err|].
    cbn [fst]. apply safe_bind; [apply sync_request_safe|intros; apply safe_ok].
  - destruct (negb (gate (ns_state st) false)); [apply safe_err|].
    destruct (negb (we_read_ok e)); [apply safe_err|].
    pose proof (event_verify_safe (we_itxs e) (we_bsigs e) (we_creator e) (we_sig e) (we_sigok e)) as [Hp Hh].
    destruct (event_verify repaired (we_itxs e) (we_bsigs e) (we_creator e) (we_sig e) (we_sigok e)) as [[|]| | |];
      cbn [fst]; try apply safe_err.
    + destruct (negb (we_rest_ok e) && negb (em_normal m)); [apply safe_err|].
      destruct (sync_heads (ns_known st) (ns_heads st) (ns_busy st) (we_rest_ok e) m) as [[rc k'] h'].
      destruct (negb rc); [apply safe_err|].
      set (pending := if we_rest_ok e then ns_pool st ++ sigs else ns_pool st).
      pose proof (process_sigpool_repaired_ok pending) as H.
      destruct (process_sigpool repaired pending) as [o rest]. cbn [fst] in *. subst o. apply safe_ok.
    + contradiction Hp; reflexivity.
    + contradiction Hh; reflexivity.
  - destruct (negb (gate (ns_state st) false)); [apply safe_err|].
    cbn [fst]. apply safe_bind; [apply join_request_safe|intros; apply safe_ok].
  - destruct (negb (gate (ns_state st) false)); [apply safe_err|apply safe_ok].
  - destruct (negb (ns_state st =? 1)); [apply safe_err|].
    cbn [fx_restore fx_rehearse repaired andb].
    pose proof (ff_check_safe f) as [Hp Hh].
    destruct (ff_check repaired f) as [[]| | |]; cbn [fst]; try apply safe_err.
    + destruct (negb (ff_insert_ok f)); cbn [fst]; [apply safe_err|apply safe_ok].
    + contradiction Hp; reflexivity.
    + contradiction Hh; reflexivity.
Qed.

(* only an ACCEPTED fast-forward response changes the delivered blocks or the application state *)
Lemma handle_blocks_unchanged : forall st c o st',
  handle repaired st c = (o, st') ->
  (ns_blocks st' = ns_blocks st /\ ns_app st' = ns_app st) \/
  (o = Ok tt /\ exists f snap blocks, c = RFastForward f snap blocks).
Proof.
  intros st c o st' H.
  assert (same : forall o0, (o0, st) = (o, st') ->
          (ns_blocks st' = ns_blocks st /\ ns_app st' = ns_app st) \/
          (o = Ok tt /\ exists f snap blocks, c = RFastForward f snap blocks)).
  { intros o0 E; inversion E; subst; left; split; reflexivity. }
  destruct c as [limit de|e sigs m|t present| |f snap blocks]; cbn [handle] in H.
  - destruct (negb (gate (ns_state st) true)); [eapply same; exact H|].
    destruct (ns_locked st); eapply same; exact H.
  - destruct (negb (gate (ns_state st) false)); [eapply same; exact H|].
    destruct (ns_locked st); [eapply same; exact H|].
    destruct (negb (we_read_ok e)); [eapply same; exact H|].
    destruct (event_verify repaired (we_itxs e) (we_bsigs e) (we_creator e) (we_sig e) (we_sigok e)) as [[|]| | |];
      try (eapply same; exact H).
    destruct (negb (we_rest_ok e) && negb (em_normal m)); [eapply same; exact H|].
    destruct (sync_heads (ns_known st) (ns_heads st) (ns_busy st) (we_rest_ok e) m) as [[rc k'] h'].
    destruct (negb rc); [inversion H; subst; left; split; reflexivity|].
    destruct (process_sigpool repaired (if we_rest_ok e then ns_pool st ++ sigs else ns_pool st)) as [o' rest].
    inversion H; subst; left; split; reflexivity.
  - destruct (negb (gate (ns_state st) false)); [eapply same; exact H|].
    destruct (ns_locked st); eapply same; exact H.
  - destruct (negb (gate (ns_state st) false)); [eapply same; exact H|].
    destruct (ns_locked st); eapply same; exact H.
  - destruct (negb (ns_state st =? 1)); [eapply same; exact H|].
    destruct (ns_locked st); [eapply same; exact H|].
    cbn [fx_restore fx_rehearse repaired andb] in H.
    destruct (ff_check repaired f) as [[]| | |]; try (eapply same; exact H).
    destruct (negb (ff_insert_ok f)); [eapply same; exact H|].
    inversion H; subst. right; split; [reflexivity|]. exists f, snap, blocks; reflexivity.
Qed.

(* what every command does to the node state, in one place: the fields no command changes (the core
   lock is released on every path), the event count never decreases, and every recorded head stays an
   event of the hashgraph *)
Lemma handle_invariants : forall fx st c,
  let st' := snd (handle fx st c) in
  ns_state st' = ns_state st /\ ns_conf_limit st' = ns_conf_limit st /\ ns_locked st' = ns_locked st /\
  ns_busy st' = ns_busy st /\ ns_events st <= ns_events st' /\
  (heads_ok (ns_known st) (ns_heads st) = true -> heads_ok (ns_known st') (ns_heads st') = true).
Proof.
  intros fx st c.
  assert (same : let st' := st in
          ns_state st' = ns_state st /\ ns_conf_limit st' = ns_conf_limit st /\ ns_locked st' = ns_locked st /\
          ns_busy st' = ns_busy st /\ ns_events st <= ns_events st' /\
          (heads_ok (ns_known st) (ns_heads st) = true -> heads_ok (ns_known st') (ns_heads st') = true)).
  { cbv zeta. repeat split; try lia. intros H; exact H. }
  destruct c as [limit de|e sigs m|t present| |f snap blocks]; cbn [handle].
  - destruct (negb (gate (ns_state st) true)); [exact same|]. destruct (ns_locked st); exact same.
  - destruct (negb (gate (ns_state st) false)); [exact same|].
    destruct (ns_locked st) eqn:L; [exact same|].
    destruct (negb (we_read_ok e)); [exact same|].
    destruct (event_verify fx (we_itxs e) (we_bsigs e) (we_creator e) (we_sig e) (we_sigok e)) as [[|]| | |];
      try exact same.
    destruct (negb (we_rest_ok e) && negb (em_normal m)); [exact same|].
    pose proof (sync_heads_ok (ns_known st) (ns_heads st) (ns_busy st) (we_rest_ok e) m) as SH.
    destruct (sync_heads (ns_known st) (ns_heads st) (ns_busy st) (we_rest_ok e) m) as [[rc k'] h'].
    cbn [fst snd] in SH.
    assert (Hev : ns_events st <= (if we_rest_ok e then ns_events st + 1 else ns_events st))
      by (destruct (we_rest_ok e); lia).
    destruct (negb rc).
    + cbv zeta. cbn [snd ns_state ns_conf_limit ns_locked ns_busy ns_events ns_known ns_heads].
      repeat split; try assumption; try reflexivity. intros H; apply SH; exact H.
    + destruct (process_sigpool fx (if we_rest_ok e then ns_pool st ++ sigs else ns_pool st)) as [o' rest].
      cbv zeta. cbn [snd ns_state ns_conf_limit ns_locked ns_busy ns_events ns_known ns_heads].
      repeat split; try assumption; try reflexivity. intros H; apply SH; exact H.
  - destruct (negb (gate (ns_state st) false)); [exact same|]. destruct (ns_locked st); exact same.
  - destruct (negb (gate (ns_state st) false)); [exact same|]. destruct (ns_locked st); exact same.
  - destruct (negb (ns_state st =? 1)); [exact same|].
    destruct (ns_locked st) eqn:L; [exact same|].
    destruct (fx_restore fx); destruct (ff_check fx f) as [[]| | |];
      try solve [exact same
                |cbv zeta; cbn [snd set_app ns_state ns_conf_limit ns_locked ns_busy ns_events ns_known ns_heads];
                 repeat split; try lia; try assumption; intros H; exact H];
      destruct (fx_rehearse fx && negb (ff_insert_ok f));
      try solve [exact same
                |cbv zeta; cbn [snd set_app ns_state ns_conf_limit ns_locked ns_busy ns_events ns_known ns_heads];
                 repeat split; try lia; try assumption; intros H; exact H];
      destruct (negb (ff_insert_ok f));
      cbv zeta; cbn [snd set_app set_blocks reset_graph ns_state ns_conf_limit ns_locked ns_busy ns_events ns_known ns_heads];
      repeat split; try lia; try assumption; try (intros _; reflexivity).
Qed.

Lemma handle_frame : forall fx st c,
  ns_state (snd (handle fx st c)) = ns_state st /\ ns_conf_limit (snd (handle fx st c)) = ns_conf_limit st /\
  ns_locked (snd (handle fx st c)) = ns_locked st.
Proof. intros fx st c. destruct (handle_invariants fx st c) as [A [B [C _]]]. repeat split; assumption. Qed.

Lemma handle_releases_lock : forall fx st c, ns_locked st = false -> ns_locked (snd (handle fx st c)) = false.
Proof. intros fx st c L. destruct (handle_frame fx st c) as [_ [_ H]]. rewrite H. exact L. Qed.

Lemma handle_events_mono : forall fx st c, ns_events st <= ns_events (snd (handle fx st c)).
Proof. intros fx st c. destruct (handle_invariants fx st c) as [_ [_ [_ [_ [H _]]]]]. exact H. Qed.

(* every recorded head is an event of the hashgraph: kept by every command, in particular by an event
   that is refused or silently skipped (both versions of the code) *)
Lemma handle_heads_known : forall fx st c,
  heads_ok (ns_known st) (ns_heads st) = true ->
  heads_ok (ns_known (snd (handle fx st c))) (ns_heads (snd (handle fx st c))) = true.
Proof. intros fx st c. destruct (handle_invariants fx st c) as [_ [_ [_ [_ [_ H]]]]]. exact H. Qed.

Lemma head_of_del_same : forall hs c, head_of (del_head hs c) c = None.
Proof.
  intros hs c. unfold head_of, del_head. induction hs as [|p r IH]; cbn [filter find]; [reflexivity|].
  destruct (fst p =? c) eqn:E; cbn [negb]; [exact IH|]. cbn [find]. rewrite E. exact IH.
Qed.

Lemma head_of_del_other : forall hs c k, (c =? k) = false -> head_of (del_head hs c) k = head_of hs k.
Proof.
  intros hs c k N. unfold head_of, del_head. induction hs as [|p r IH]; cbn [filter find]; [reflexivity|].
  destruct (fst p =? c) eqn:E; cbn [negb].
  - apply Z.eqb_eq in E. rewrite E, N. exact IH.
  - cbn [find]. destruct (fst p =? k); [reflexivity|exact IH].
Qed.

(* a refused or silently skipped event (a validly signed fork, a duplicate, ...) leaves the hashgraph
   as it was and never becomes - nor makes anything else become - the head to use for the next
   self-event: every non-nil head after it was that same head before it *)
Lemma skipped_event_no_new_head : forall fx st e sigs m,
  we_rest_ok e = false ->
  let st' := snd (handle fx st (CEager e sigs m)) in
  ns_known st' = ns_known st /\
  forall k h, head_of (ns_heads st') k = Some (Some h) -> head_of (ns_heads st) k = Some (Some h).
Proof.
  intros fx st e sigs m R. cbv zeta.
  assert (same : ns_known st = ns_known st /\
                 forall k h, head_of (ns_heads st) k = Some (Some h) -> head_of (ns_heads st) k = Some (Some h))
    by (split; [reflexivity|intros k h H; exact H]).
  cbn [handle].
  destruct (negb (gate (ns_state st) false)); [exact same|].
  destruct (ns_locked st); [exact same|].
  destruct (negb (we_read_ok e)); [exact same|].
  destruct (event_verify fx (we_itxs e) (we_bsigs e) (we_creator e) (we_sig e) (we_sigok e)) as [[|]| | |];
    try exact same.
  rewrite R. cbn [negb andb].
  destruct (negb (em_normal m)); [exact same|].
  unfold sync_heads. cbn [andb].
  assert (H2 : forall k h,
    head_of (match head_of (ns_heads st) (em_from m) with
             | Some (Some _) => ns_heads st
             | _ => set_head (ns_heads st) (em_from m) None end) k = Some (Some h) ->
    head_of (ns_heads st) k = Some (Some h)).
  { intros k h. destruct (head_of (ns_heads st) (em_from m)) as [[x|]|] eqn:E; intros H; try exact H;
      unfold set_head in H; unfold head_of in H at 1; cbn [find fst snd] in H;
      destruct (em_from m =? k) eqn:Ek; try discriminate;
      fold (head_of (del_head (ns_heads st) (em_from m)) k) in H;
      rewrite (head_of_del_other _ _ _ Ek) in H; exact H. }
  destruct (ns_busy st).
  - destruct (heads_ok (ns_known st) _) eqn:HO; cbn [negb].
    + destruct (process_sigpool fx (ns_pool st)) as [o' rest]. cbn [snd ns_known ns_heads].
      split; [reflexivity|]. intros k h H. discriminate H.
    + cbn [snd ns_known ns_heads]. split; [reflexivity|exact H2].
  - cbn [negb]. destruct (process_sigpool fx (ns_pool st)) as [o' rest]. cbn [snd ns_known ns_heads].
    split; [reflexivity|exact H2].
Qed.

Definition is_request (c : cmd) : bool :=
  match c with RFastForward _ _ _ => false | _ => true end.

(* whatever request was answered without error before an arbitrary message - a sync request whose
   eventDiff fails, a validly signed but ill-chained event included - is still answered without error
   after it *)
Lemma handle_still_serves : forall st c v,
  ns_locked st = false ->
  heads_ok (ns_known st) (ns_heads st) = true ->
  is_request v = true ->
  fst (handle repaired st v) = Ok tt ->
  fst (handle repaired (snd (handle repaired st c)) v) = Ok tt.
Proof.
  intros st c v L HK Hv Hok.
  destruct (handle_invariants repaired st c) as [Hs [Hc [Hl [Hb [Hm Hh]]]]].
  specialize (Hh HK).
  set (st' := snd (handle repaired st c)) in *.
  rewrite L in Hl.
  destruct v as [limit de|e sigs m|t present| |f snap blocks]; [| | | |discriminate]; cbn [handle] in *;
    rewrite Hs, Hl; rewrite L in Hok.
  - destruct (negb (gate (ns_state st) true)); [discriminate|].
    cbn [fst] in *. rewrite Hc.
    destruct de.
    + exact Hok.
    + unfold sync_request in *. cbn [fx_limit repaired andb] in *.
      destruct (negb (gate (ns_state st) true)); [discriminate|].
      destruct (ns_events st <? 0) eqn:E0; [discriminate|].
      apply Z.ltb_ge in E0.
      replace (ns_events st' <? 0) with false by (symmetry; apply Z.ltb_ge; lia).
      destruct (Z.ltb_spec 0 (ns_events st')) as [Hd|Hd]; [|reflexivity].
      destruct (Z.min limit (ns_conf_limit st) <? 0) eqn:En.
      * destruct (Z.ltb_spec 0 (ns_events st')) as [_|Hd']; [|reflexivity].
        unfold slice_to. replace ((0 <? 0) || (ns_events st' <? 0)) with false; [reflexivity|].
        symmetry; apply orb_false_iff; split; apply Z.ltb_ge; lia.
      * destruct (Z.min limit (ns_conf_limit st) <? ns_events st') eqn:El; [|reflexivity].
        unfold slice_to. apply Z.ltb_ge in En. apply Z.ltb_lt in El.
        replace ((Z.min limit (ns_conf_limit st) <? 0) || (ns_events st' <? Z.min limit (ns_conf_limit st))) with false;
          [reflexivity|].
        symmetry; apply orb_false_iff; split; apply Z.ltb_ge; lia.
  - destruct (negb (gate (ns_state st) false)); [discriminate|].
    destruct (negb (we_read_ok e)); [discriminate|].
    destruct (event_verify repaired (we_itxs e) (we_bsigs e) (we_creator e) (we_sig e) (we_sigok e)) as [[|]| | |];
      try discriminate.
    destruct (negb (we_rest_ok e) && negb (em_normal m)); [discriminate|].
    rewrite Hb.
    pose proof (sync_heads_ok (ns_known st') (ns_heads st') (ns_busy st) (we_rest_ok e) m Hh) as [SH _].
    destruct (sync_heads (ns_known st') (ns_heads st') (ns_busy st) (we_rest_ok e) m) as [[rc k'] h'].
    cbn [fst] in SH. subst rc. cbn [negb].
    set (pending := if we_rest_ok e then ns_pool st' ++ sigs else ns_pool st').
    pose proof (process_sigpool_repaired_ok pending) as H.
    destruct (process_sigpool repaired pending) as [o rest]. exact H.
  - destruct (negb (gate (ns_state st) false)); [discriminate|exact Hok].
  - destruct (negb (gate (ns_state st) false)); [discriminate|reflexivity].
Qed.

(* a sync request whose eventDiff fails is answered with an error and changes nothing *)
Lemma sync_diff_error_is_noop : forall fx st limit,
  gate (ns_state st) true = true -> ns_locked st = false ->
  handle fx st (CSync limit true) = (Err, st).
Proof.
  intros fx st limit G L. cbn [handle]. rewrite G, L. cbn [negb].
  unfold sync_request. rewrite G. cbn [negb]. reflexivity.
Qed.
