(* C08: the code AS IT IS panics / hangs / wedges: one concrete witness per site (vm_compute),
   each replayed on the real code by harness/cmd/hostile (see FINDINGS.md). *)
From Coq Require Import ZArith List Bool.
From V Require Import Model.Hostile Model.HostileWitness Proofs.HostileProofs.
Import ListNotations.
Open Scope Z_scope.

(* the witnesses are well-formed honest objects *)
Lemma good_objects :
  to_public_key asis g_bytes = KPoint g_x g_y /\
  itx_verify asis good_itx = Ok true /\ itx_verify repaired good_itx = Ok true /\
  fst (eager_sync asis 0 good_event []) = Ok tt /\
  ff_check asis good_ff = Ok tt /\ ff_check repaired good_ff = Ok tt /\
  process_sigpool asis [good_entry] = (Ok tt, []).
Proof. vm_compute. repeat split. Qed.

(* 1. common.DecodeFromString: hexString[2:] on "" and on a 1-character string *)
Lemma w_hex : decode_from_string asis [] = Panic /\ decode_from_string asis [48] = Panic /\
              decode_from_string repaired [] = Ok ([], false).
Proof. vm_compute. repeat split. Qed.

(* 2. keys.DecodeSignature: "!|!" decodes WITHOUT error to nil values, which Verify dereferences
      (valid key, so the nil big.Int is the only defect) *)
Lemma w_sig : decode_signature asis s_bang = Ok (None, None) /\
              block_verify asis g_bytes s_bang false = Panic /\
              block_verify repaired g_bytes s_bang false = Err.
Proof. vm_compute. repeat split. Qed.

(* 3. keys.ToPublicKey / Verify: nil key for empty bytes, key with nil X, Y for garbage
      (well-formed signature "1|1", so the key is the only defect) *)
Lemma w_key : to_public_key asis [] = KNil /\ to_public_key asis [4] = KXYNil /\
              block_verify asis [] s_one false = Panic /\ block_verify asis [4] s_one false = Panic /\
              block_verify repaired [] s_one false = Ok false /\ block_verify repaired [4] s_one false = Ok false.
Proof. vm_compute. repeat split. Qed.

(* 4. Event.SelfParent / OtherParent *)
Lemma w_parents : parent_at asis 0 0 = Panic /\ parent_at asis 1 1 = Panic /\ parent_at asis 1 2 = Ok tt.
Proof. vm_compute. repeat split. Qed.

(* 5. processSyncRequest: negative SyncLimit, also while Suspended (state 5) *)
Lemma w_limit : sync_request asis 0 (-1) 1000 3 = Panic /\ sync_request asis 5 (-1) 1000 3 = Panic /\
                sync_request repaired 5 (-1) 1000 3 = Ok 0 /\ sync_request asis 0 (-1) 1000 0 = Ok 0.
Proof. vm_compute. repeat split. Qed.

(* 6. SortedFrameEvents.Less: same Lamport timestamp, one undecodable signature *)
Lemma w_less : fe_less asis (FEv 1 2 s_bang) (FEv 1 2 s_one) = Panic /\
               fe_less asis (FEv 1 2 s_abc) (FEv 1 2 s_one) = Panic /\
               fe_less asis (FEv 1 2 s_bang) (FEv 2 2 s_one) = Ok true /\
               fe_less repaired (FEv 1 2 s_bang) (FEv 1 2 s_one) = Ok true.
Proof. vm_compute. repeat split. Qed.

(* 7. a JoinRequest with an empty PubKeyHex (anybody), in the Babbling state *)
Lemma w_join : join_request asis 0 (mkItx [] [] [] s_one false) false = Panic /\
               join_request repaired 0 (mkItx [] [] [] s_one false) false = Err.
Proof. vm_compute. repeat split. Qed.

(* 8. an event carrying a hostile internal transaction panics BEFORE its own signature is looked
      at: the sender does not need any key (here the event signature is garbage) *)
Lemma w_event_itx :
  event_verify asis [mkItx [48; 88] [] [] s_one false] [] g_bytes s_abc false = Panic /\
  fst (eager_sync asis 0 (mkWE true [mkItx [] [] [] s_one false] [] g_bytes s_abc false true) []) = Panic /\
  fst (eager_sync repaired 0 (mkWE true [mkItx [] [] [] s_one false] [] g_bytes s_abc false true) []) = Err.
Proof. vm_compute. repeat split. Qed.

(* 9. fast-forward responses: null peer, key "" in Block.Signatures, undecodable block signature,
      null root, null frame event, frame event without Core, one parent, U+FFFD anywhere *)
Lemma w_ff :
  ff_check asis (with_peers good_ff [Some g_hex; None]) = Panic /\
  ff_check asis (with_sigs good_ff [([], false, s_one, false)]) = Panic /\
  ff_check asis (with_sigs good_ff [(g_hex, true, s_bang, false)]) = Panic /\
  ff_check asis (with_roots good_ff [None]) = Panic /\
  ff_check asis (with_events good_ff [FNil]) = Panic /\
  ff_check asis (with_events good_ff [FCoreNil 1]) = Panic /\
  ff_check asis (with_events good_ff [FEv 1 1 s_one]) = Panic /\
  ff_check asis (with_fffd good_ff) = Hang /\
  ff_check repaired (with_peers good_ff [Some g_hex; None]) = Err /\
  ff_check repaired (with_roots good_ff [None]) = Err /\
  ff_check repaired (with_events good_ff [FEv 1 1 s_one]) = Err /\
  ff_check repaired (with_fffd good_ff) = Err.
Proof. vm_compute. repeat split. Qed.

(* 10. ProcessSigPool: a malformed signature of a validator is never removed and makes every call
       fail (wedge); an undecodable one panics *)
Lemma w_sigpool :
  process_sigpool asis [mkPE true true g_bytes s_abc false; good_entry] =
     (Err, [mkPE true true g_bytes s_abc false; good_entry]) /\
  fst (process_sigpool asis [mkPE true true g_bytes s_bang false]) = Panic /\
  process_sigpool repaired [mkPE true true g_bytes s_abc false; good_entry] = (Ok tt, []).
Proof. vm_compute. repeat split. Qed.

(* 11. the canonical encoder: a correctly signed internal transaction whose moniker contains U+FFFD
       is accepted, and hashing any frame that contains it never terminates *)
Lemma w_moniker :
  itx_verify asis (mkItx g_hex s_plain s_fffd s_one true) = Ok true /\
  join_request asis 0 (mkItx g_hex s_plain s_fffd s_one true) true = Ok true /\
  quote_str s_fffd = Hang /\
  itx_verify repaired (mkItx g_hex s_plain s_fffd s_one true) = Err.
Proof. vm_compute. repeat split. Qed.

Definition no_panic_statement (fx : fixes) : Prop :=
  forall st c, ns_locked st = false -> safe (fst (handle fx st c)).

(* the no-panic statement is FALSE of the code as it is *)
Lemma no_panic_asis_refuted : ~ no_panic_statement asis.
Proof.
  intros H. destruct (H st_suspended (CSync (-1) false) eq_refl) as [Hp _]. apply Hp. vm_compute. reflexivity.
Qed.

Definition blocks_unchanged_statement (fx : fixes) : Prop := forall st c o st',
  handle fx st c = (o, st') ->
  (ns_blocks st' = ns_blocks st /\ ns_app st' = ns_app st) \/
  (o = Ok tt /\ exists f snap blocks, c = RFastForward f snap blocks).

(* 12. a REJECTED fast-forward response replaces the application state (snapshot 99) ... *)
Lemma w_restore_before_check :
  handle asis st_catching_up (RFastForward (with_frame_hash good_ff false) 99 [50]) =
    (Err, mkNS 1 1000 3 [10; 11] 99 [] false [1; 2] [] true) /\
  handle repaired st_catching_up (RFastForward (with_frame_hash good_ff false) 99 [50]) = (Err, st_catching_up).
Proof. vm_compute. repeat split. Qed.

(* 13. ... and a response that passes the checks but cannot be inserted loses the delivered blocks *)
Lemma w_reset_not_atomic :
  handle asis st_catching_up (RFastForward (with_insert good_ff false) 99 [50]) =
    (Err, mkNS 1 1000 3 [] 99 [] false [] [] true) /\
  handle repaired st_catching_up (RFastForward (with_insert good_ff false) 99 [50]) = (Err, st_catching_up).
Proof. vm_compute. repeat split. Qed.

Lemma blocks_unchanged_asis_refuted : ~ blocks_unchanged_statement asis.
Proof.
  intros H.
  destruct (H st_catching_up (RFastForward (with_frame_hash good_ff false) 99 [50]) Err
              (mkNS 1 1000 3 [10; 11] 99 [] false [1; 2] [] true)) as [[_ Ha]|[Ho _]].
  - vm_compute; reflexivity.
  - vm_compute in Ha. discriminate Ha.
  - discriminate Ho.
Qed.

Definition still_serves_statement (fx : fixes) : Prop := forall st c v,
  ns_locked st = false ->
  heads_ok (ns_known st) (ns_heads st) = true ->
  is_request v = true ->
  fst (handle fx st v) = Ok tt ->
  fst (handle fx (snd (handle fx st c)) v) = Ok tt.

(* 14. after one validly signed event carrying a malformed block signature, every later VALID
       eager sync is answered with an error *)
Definition poison : cmd := CEager good_event [mkPE true true g_bytes s_abc false] good_meta.
Lemma w_wedge :
  fst (handle asis st_babbling (CEager good_event [] good_meta)) = Ok tt /\
  fst (handle asis st_babbling poison) = Err /\
  fst (handle asis (snd (handle asis st_babbling poison)) (CEager good_event [] good_meta)) = Err /\
  fst (handle asis (snd (handle asis (snd (handle asis st_babbling poison)) (CEager good_event [] good_meta))) (CEager good_event [] good_meta)) = Err /\
  fst (handle repaired (snd (handle repaired st_babbling poison)) (CEager good_event [] good_meta)) = Ok tt.
Proof. vm_compute. repeat split. Qed.

Lemma still_serves_asis_refuted : ~ still_serves_statement asis.
Proof.
  intros H. specialize (H st_babbling poison (CEager good_event [] good_meta) eq_refl eq_refl eq_refl).
  assert (E : fst (handle asis st_babbling (CEager good_event [] good_meta)) = Ok tt) by (vm_compute; reflexivity).
  specialize (H E). vm_compute in H. discriminate H.
Qed.

(* 15. the eventDiff-error path: answered with an error, nothing changes, the next valid request is
       served; what a handler that forgot to release the core lock on that path would cause instead *)
Lemma w_sync_diff_error :
  handle asis st_babbling (CSync 10 true) = (Err, st_babbling) /\
  handle repaired st_suspended (CSync 10 true) = (Err, st_suspended) /\
  fst (handle repaired (snd (handle repaired st_babbling (CSync 10 true))) (CSync 10 false)) = Ok tt /\
  fst (handle repaired (leak_lock st_babbling) (CSync 10 false)) = Hang /\
  fst (handle repaired (leak_lock st_babbling) (CEager good_event [] good_meta)) = Hang.
Proof. vm_compute. repeat split. Qed.

(* 16. a validly signed fork of a validator's own chain (refused with a "normal" self-parent error) is
       skipped without an error and is a no-op for a busy node; afterwards a valid push of another
       peer is accepted. What a core.sync that recorded the NOT inserted fork as the sender's head would
       cause instead (seeded/C08-r2): every later valid push fails in recordHeads *)
Lemma w_ill_chained_event :
  handle asis st_babbling (CEager fork_event [] fork_meta) = (Ok tt, st_babbling) /\
  handle repaired st_babbling (CEager fork_event [] fork_meta) = (Ok tt, st_babbling) /\
  fst (handle repaired (snd (handle repaired st_babbling (CEager fork_event [] fork_meta)))
                       (CEager good_event [] (mkEM 100 8 8 false))) = Ok tt /\
  heads_ok (ns_known (poison_head st_babbling 7 999)) (ns_heads (poison_head st_babbling 7 999)) = false /\
  fst (handle repaired (poison_head st_babbling 7 999) (CEager good_event [] (mkEM 100 8 8 false))) = Err /\
  fst (handle repaired (snd (handle repaired (poison_head st_babbling 7 999) (CEager good_event [] (mkEM 100 8 8 false))))
                       (CEager good_event [] (mkEM 101 8 8 false))) = Err.
Proof. vm_compute. repeat split. Qed.
