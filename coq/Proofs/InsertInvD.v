(* Stage D2 (b), insertion, without static membership.  GENERATED from InsertInv.v (Section Insert and the
   final theorem) by text substitution: [cinvD P None] -> [cinvD P (Some x)]. *)
From Coq Require Import ZArith List Bool Lia ZifyBool.
From RecordUpdate Require Import RecordSet.
From V Require Import Model.ZMap Model.Quorum Model.Voting Model.HgImpl
  Proofs.ZMapFacts Proofs.HgFrames Proofs.HgDagFrames Proofs.AdmissionProofs Proofs.InsertShape
  Proofs.Ancestry Proofs.OrderFrames Proofs.Static Proofs.FirstDesc Proofs.FdWalk Proofs.InsertInv Proofs.FirstDescD.
Import ListNotations RecordSetNotations.
Open Scope Z_scope.

Section Insert.
  Variables (P : Z -> peerset) (st st2 st3 : hg) (e : event).
  Let x := e_id e.
  Let c := e_creator e.
  Let i := e_index e.
  Let la := fst (init_coords st e).
  Let es := mkEvst e None None None la [(c, (i, x))] (topo st).
  Hypothesis OK : dag_ok st.
  Hypothesis LA : la_ok st.
  Hypothesis I : cinvD P None st.
  Hypothesis Fresh : get_event st x = None.
  Hypothesis Hsp : check_self_parent st e = InsOk.
  Hypothesis Hop : check_other_parent st e = InsOk.
  Hypothesis G2 : forall y, get_event st2 y = if y =? x then Some es else get_event st y.
  Hypothesis R2 : round_memo st2 = round_memo st.
  Hypothesis W2 : witness_memo st2 = witness_memo st.
  Hypothesis Ro2 : rounds st2 = rounds st.
  Hypothesis P2 : peersets st2 = peersets st.
  Hypothesis T2 : topo st2 = topo st + 1.
  Hypothesis OK2 : dag_ok st2.
  Hypothesis LA2 : la_ok st2.
  Hypothesis U : upd_inv st2 e es (ev_la es) st3.

  Let X : fdx c i x (PA st2 (ev_la es)) st2 st3 := proj1 (proj2 U).

  Lemma ins_x2 : get_event st2 x = Some es.
  Proof. rewrite G2, Z.eqb_refl. reflexivity. Qed.
  Lemma ins_old y ey : get_event st y = Some ey -> y <> x /\ get_event st2 y = Some ey.
  Proof.
    intros H. assert (y <> x) by (intros ->; congruence). split; [assumption|].
    rewrite G2. destruct (Z.eqb_spec y x); [contradiction|exact H].
  Qed.
  Lemma ins_back y ey : get_event st2 y = Some ey -> (y = x /\ ey = es) \/ (y <> x /\ get_event st y = Some ey).
  Proof.
    rewrite G2. destruct (Z.eqb_spec y x) as [->|Hne]; [intros H; inversion H; left; auto|right; auto].
  Qed.

  Lemma ins_rmemo y : rmemo st3 y = rmemo st y.
  Proof. rewrite (fdx_rmemo _ _ _ _ _ _ X). unfold rmemo. rewrite R2. reflexivity. Qed.
  Lemma ins_wmemo y : wmemo st3 y = wmemo st y.
  Proof. rewrite (fdx_wmemo _ _ _ _ _ _ X). unfold wmemo. rewrite W2. reflexivity. Qed.
  Lemma ins_wit y : wit st3 y = wit st y.
  Proof. unfold wit. rewrite ins_wmemo. reflexivity. Qed.
  Lemma ins_prnd p : prnd st3 p = prnd st p.
  Proof. unfold prnd. rewrite ins_rmemo. reflexivity. Qed.
  Lemma ins_get_round r : get_round st3 r = get_round st r.
  Proof. rewrite (fdx_get_round _ _ _ _ _ _ X). unfold get_round. rewrite Ro2. reflexivity. Qed.
  Lemma ins_wl r : wl st3 r = wl st r.
  Proof. unfold wl. rewrite ins_get_round. reflexivity. Qed.
  Lemma ins_wits r : wits st3 r = wits st r.
  Proof. unfold wits. rewrite ins_wl. reflexivity. Qed.

  Lemma ins_rmemo_x : rmemo st x = None.
  Proof.
    destruct (rmemo st x) as [r|] eqn:E; [|reflexivity].
    destruct (cd_rdom _ _ _ I x r E) as [_ [ex [Hx _]]]. congruence.
  Qed.
  Lemma ins_wmemo_x : wmemo st x = None.
  Proof.
    destruct (wmemo st x) as [w|] eqn:E; [|reflexivity].
    destruct (cd_wdom _ _ _ I x w E) as [ex [r [Hx _]]]. congruence.
  Qed.

  (* an old event, read in the final state *)
  Lemma ins_old3 y ey : get_event st y = Some ey ->
    exists ey3, get_event st3 y = Some ey3 /\ ev_e ey3 = ev_e ey /\ ev_la ey3 = ev_la ey /\ ev_round ey3 = ev_round ey /\
                (forall c' v, aget c' (ev_fd ey) = Some v -> aget c' (ev_fd ey3) = Some v).
  Proof. intros H. destruct (ins_old y ey H) as [_ H2]. apply (fdx_fwd_e _ _ _ _ _ _ X y ey H2). Qed.

  Lemma ins_la_lt y ey j y' : get_event st y = Some ey -> aget c (ev_la ey) = Some (j, y') -> j < i.
  Proof.
    intros Hy Hg. destruct (la_s st LA _ _ _ _ _ Hy Hg) as [ez [Hz [Hc [Hi _]]]].
    rewrite <- Hi. apply (fresh_index_above st e y' ez OK Hsp Hz Hc).
  Qed.

  Lemma ins_ss_old g y w ey ew : get_event st y = Some ey -> get_event st w = Some ew ->
    strongly_see st3 y w g = strongly_see st y w g.
  Proof.
    intros Hy Hw. destruct (ins_old y ey Hy) as [_ Hy2]. destruct (ins_old w ew Hw) as [_ Hw2].
    rewrite (strongly_see_fdx g c i x _ st2 st3 y w ey ew X Hy2 Hw2).
    - unfold strongly_see. rewrite Hy2, Hw2, Hy, Hw. reflexivity.
    - intros j y'. apply (ins_la_lt y ey j y' Hy).
  Qed.

  Lemma ins_nwb q lo hi : no_wit_between st q lo hi -> no_wit_between st3 q lo hi.
  Proof.
    intros H y ey3 Hy Hc Hi. rewrite ins_wit.
    destruct (fdx_bwd_e _ _ _ _ _ _ X y ey3 Hy) as [ey2 [Hy2 [Ee _]]].
    destruct (ins_back y ey2 Hy2) as [[-> _]|[_ Hy0]].
    - unfold wit. rewrite ins_wmemo_x. reflexivity.
    - rewrite Ee in *. eapply H; eauto.
  Qed.

  Lemma ins_cond z a : cond st z a -> cond st3 z a.
  Proof.
    intros [ez [ea [t [y [Hz [Ha [Hl [Hi Hn]]]]]]]].
    destruct (ins_old3 z ez Hz) as [ez3 [Hz3 [_ [El _]]]].
    destruct (ins_old3 a ea Ha) as [ea3 [Ha3 [Ee _]]].
    exists ez3, ea3, t, y. rewrite Ee, El. split; [auto|split; [auto|split; [auto|split; [auto|]]]].
    apply ins_nwb. exact Hn.
  Qed.

  (* every entry for c in the final state has index <= i *)
  Lemma ins_entry_le b eb3 i' z' : get_event st3 b = Some eb3 -> aget c (ev_fd eb3) = Some (i', z') -> i' <= i.
  Proof.
    intros Hb Hg. destruct (fdx_bwd_e _ _ _ _ _ _ X b eb3 Hb) as [eb2 [Hb2 [_ [_ [_ Hent]]]]].
    destruct (Hent c (i', z') Hg) as [Hold|[_ [E _]]]; [|inversion E; lia].
    destruct (ins_back b eb2 Hb2) as [[-> ->]|[_ Hb0]].
    - unfold es in Hold. cbn [ev_fd aget] in Hold. rewrite Z.eqb_refl in Hold. inversion Hold. lia.
    - destruct (Z.eq_dec c (e_creator (ev_e eb2))) as [Ec|Hnc].
      + rewrite Ec, (cd_own _ _ _ I b eb2 Hb0) in Hold. inversion Hold; subst i' z'.
        assert (e_index (ev_e eb2) < i) by (apply (fresh_index_above st e b eb2 OK Hsp Hb0); symmetry; exact Ec). lia.
      + destruct (cd_sound _ _ _ I b eb2 c i' z' Hb0 Hold Hnc) as [ez [Hz [Hcz [Hiz _]]]].
        assert (e_index (ev_e ez) < i) by (apply (fresh_index_above st e z' ez OK Hsp Hz Hcz)). lia.
  Qed.

  Lemma ins_x3 : exists es3, get_event st3 x = Some es3 /\ ev_e es3 = e /\ ev_la es3 = la /\ ev_round es3 = None.
  Proof.
    destruct (fdx_fwd_e _ _ _ _ _ _ X x es ins_x2) as [es3 [H3 [Ee [El [Er _]]]]].
    exists es3. auto.
  Qed.

  Lemma insert_cinvD_core : cinvD P (Some x) st3.
  Proof.
    constructor.
    - rewrite (fdx_topo _ _ _ _ _ _ X), T2. pose proof (cd_topo0 _ _ _ I). lia.
    - (* fuel *)
      intros y ey3 Hy. rewrite (fdx_topo _ _ _ _ _ _ X), T2.
      destruct (fdx_bwd_e _ _ _ _ _ _ X y ey3 Hy) as [ey2 [Hy2 [Ee _]]]. rewrite Ee.
      destruct (ins_back y ey2 Hy2) as [[-> ->]|[_ Hy0]].
      + unfold es at 1. cbn [ev_e]. destruct (d_sp st2 OK2 _ _ ins_x2) as [[_ Hi0]|[ps [Hps [_ Hip]]]].
        * unfold es in Hi0. cbn [ev_e] in Hi0. pose proof (cd_topo0 _ _ _ I). lia.
        * unfold es in Hps, Hip. cbn [ev_e] in *. destruct (ins_back _ _ Hps) as [[Ex ->]|[_ Hps0]]; [unfold es in Hip; cbn [ev_e] in Hip; lia|].
          pose proof (cd_fuel _ _ _ I _ _ Hps0). lia.
      + pose proof (cd_fuel _ _ _ I _ _ Hy0). lia.
    - (* rdom *)
      intros y r. rewrite ins_rmemo. intros Hr.
      destruct (cd_rdom _ _ _ I y r Hr) as [H0 [ey [Hy Hq]]]. split; [exact H0|].
      destruct (ins_old3 y ey Hy) as [ey3 [Hy3 [Ee _]]]. exists ey3. split; [exact Hy3|].
      apply (reqD_ext P st st3 y ey ey3 r Ee ins_prnd); [intros r0; rewrite ins_get_round; reflexivity|apply ins_wits| |exact Hq].
      intros g pr w Hw _. unfold ss_true.
      assert (Hws : exists ew, get_event st w = Some ew).
      { unfold wits in Hw. apply in_map_iff in Hw. destruct Hw as [[w' b] [E Hw]]. cbn in E. subst w'.
        apply filter_In in Hw. destruct Hw as [Hw _].
        destruct (cd_tab _ _ _ I pr w b Hw) as [Hrw _].
        destruct (cd_rdom _ _ _ I w pr Hrw) as [_ [ew [Hew _]]]. eauto. }
      destruct Hws as [ew Hew]. rewrite (ins_ss_old g y w ey ew Hy Hew). reflexivity.
    - (* wdom *)
      intros y w. rewrite ins_wmemo. intros Hw.
      destruct (cd_wdom _ _ _ I y w Hw) as [ey [r [Hy [Hr Hq]]]].
      destruct (ins_old3 y ey Hy) as [ey3 [Hy3 [Ee _]]]. exists ey3, r. rewrite ins_rmemo.
      split; [exact Hy3|split; [exact Hr|]]. eapply weq_ext; [exact Ee|apply ins_prnd|exact Hq].
    - (* all *)
      intros y ey3 Hy HE. rewrite ins_rmemo, ins_wmemo.
      destruct (fdx_bwd_e _ _ _ _ _ _ X y ey3 Hy) as [ey2 [Hy2 [_ [_ [Er _]]]]].
      destruct (ins_back y ey2 Hy2) as [[-> _]|[_ Hy0]]; [congruence|].
      rewrite Er. apply (cd_all _ _ _ I y ey2 Hy0). discriminate.
    - (* exc *)
      intros y HE. inversion HE; subst y. rewrite ins_rmemo, ins_wmemo.
      split; [apply ins_rmemo_x|split; [apply ins_wmemo_x|]].
      destruct ins_x3 as [es3 [H3 [Ee3 [_ Er]]]]. exists es3. split; [exact H3|split; [exact Er|]].
      assert (Hpar : forall p, e_sp e = p \/ e_op e = p -> prnd st3 p <> None).
      { intros p Hp. rewrite ins_prnd. unfold prnd. destruct (Z.eqb_spec p (-1)); [discriminate|].
        destruct (checked_parent_stored st e Hsp Hop p n Hp) as [ep Hep].
        destruct (cd_all _ _ _ I p ep Hep ltac:(discriminate)) as [r0 [w0 [Hr0 _]]]. rewrite Hr0. discriminate. }
      rewrite Ee3. split; [apply Hpar; left; reflexivity|split; [apply Hpar; right; reflexivity|]].
      intros z ez3 t y' Hz Hne Hg.
      destruct (fdx_bwd_e _ _ _ _ _ _ X z ez3 Hz) as [ez2 [Hz2 [_ [El _]]]]. rewrite El in Hg.
      destruct (ins_back z ez2 Hz2) as [[-> _]|[_ Hz0]]; [contradiction|].
      apply (ins_la_lt z ez2 t y' Hz0 Hg).
    - intros r y w. rewrite ins_wl, ins_rmemo, ins_wmemo. apply (cd_tab _ _ _ I).
    - intros y r w. rewrite ins_wl, ins_rmemo, ins_wmemo. apply (cd_tabc _ _ _ I).
    - intros r. rewrite ins_wl. apply (cd_tabu _ _ _ I).
    - intros r. rewrite ins_wl, ins_get_round. apply (cd_tabne _ _ _ I).
    - (* own *)
      intros a ea3 Ha.
      destruct (fdx_bwd _ _ _ _ _ _ X a ea3 Ha) as [ea2 [Ha2 Hc]].
      assert (Hown2 : aget (e_creator (ev_e ea2)) (ev_fd ea2) = Some (e_index (ev_e ea2), a)).
      { destruct (ins_back a ea2 Ha2) as [[-> ->]|[_ Ha0]].
        - unfold es. cbn [ev_e ev_fd aget]. fold c. rewrite Z.eqb_refl. reflexivity.
        - apply (cd_own _ _ _ I a ea2 Ha0). }
      destruct Hc as [->|[_ [-> _]]]; [exact Hown2|].
      rewrite add_fd_e. apply aget_add_fd_mono. exact Hown2.
    - (* sound *)
      intros a ea3 c' i' z Ha Hg Hc'.
      destruct (fdx_bwd_e _ _ _ _ _ _ X a ea3 Ha) as [ea2 [Ha2 [Ee [_ [_ Hent]]]]].
      rewrite Ee in Hc'.
      destruct (Hent c' (i', z) Hg) as [Hold|[Ec [Ev [Hn Hp]]]].
      + destruct (ins_back a ea2 Ha2) as [[-> ->]|[_ Ha0]].
        * exfalso. unfold es in Hold, Hc'. cbn [ev_fd aget ev_e] in Hold, Hc'. fold c in Hc'.
          destruct (Z.eqb_spec c c'); [congruence|discriminate].
        * destruct (cd_sound _ _ _ I a ea2 c' i' z Ha0 Hold Hc') as [ez [Hz [H1 [H2 H3]]]].
          destruct (ins_old3 z ez Hz) as [ez3 [Hz3 [Ee' _]]]. exists ez3. rewrite Ee'.
          split; [exact Hz3|split; [exact H1|split; [exact H2|apply ins_cond; exact H3]]].
      + subst c'. inversion Ev; subst i' z.
        destruct ins_x3 as [es3 [H3 [Ee3 [El3 _]]]]. exists es3. rewrite Ee3.
        split; [exact H3|split; [reflexivity|split; [reflexivity|]]].
        destruct Hp as [q [t [y [Hin [Hq [Ht Hnw]]]]]].
        exists es3, ea3, t, y. rewrite Ee, El3, Hq.
        split; [exact H3|split; [exact Ha|split; [|split; [exact Ht|]]]].
        * apply ukeys_In_aget; [apply (la_u st2 LA2 _ _ ins_x2)|exact Hin].
        * apply (fdx_no_wit_between _ _ _ _ _ _ X). exact Hnw.
    - (* closed *)
      intros a ea3 c' i' z Ha Hg Hw Hs.
      destruct (fdx_bwd _ _ _ _ _ _ X a ea3 Ha) as [ea2 [Ha2 Hch]].
      destruct (fdx_bwd_e _ _ _ _ _ _ X a ea3 Ha) as [ea2' [Ha2' [Ee [_ [_ Hent]]]]].
      rewrite Ha2 in Ha2'. inversion Ha2'; subst ea2'. clear Ha2'. rewrite Ee in Hs |- *.
      destruct (Hent c' (i', z) Hg) as [Hold|[Ec [Ev [Hn Hp]]]].
      + destruct (ins_back a ea2 Ha2) as [[-> ->]|[_ Ha0]].
        * (* the new event: only its own entry *)
          unfold es in Hold, Hs. cbn [ev_fd aget ev_e] in Hold, Hs. fold c in Hold.
          destruct (Z.eqb_spec c c') as [<-|]; [|discriminate]. inversion Hold; subst i' z.
          destruct (d_sp st2 OK2 _ _ ins_x2) as [[Hs0 _]|[ps [Hps [Hcp Hip]]]]; [unfold es in Hs0; cbn [ev_e] in Hs0; contradiction|].
          unfold es in Hps, Hcp, Hip. cbn [ev_e] in *. destruct (ins_back _ _ Hps) as [[Ex ->]|[_ Hps0]]; [unfold es in Hip; cbn [ev_e] in Hip; lia|].
          destruct (ins_old3 _ ps Hps0) as [ps3 [Hps3 [_ [_ [_ Hmono]]]]].
          unfold es. cbn [ev_e]. exists ps3, (e_index (ev_e ps)), (e_sp e). split; [exact Hps3|]. split; [|fold i; lia].
          apply Hmono. unfold c. rewrite <- Hcp. apply (cd_own _ _ _ I _ ps Hps0).
        * rewrite ins_wit in Hw.
          destruct (cd_closed _ _ _ I a ea2 c' i' z Ha0 Hold Hw Hs) as [es0 [i0 [z0 [Hes0 [Hg0 Hle]]]]].
          destruct (ins_old3 _ es0 Hes0) as [es3 [Hes3 [_ [_ [_ Hmono]]]]].
          exists es3, i0, z0. auto.
      + subst c'. inversion Ev; subst i' z.
        assert (Ea3 : ea3 = add_fd c i x ea2).
        { destruct Hch as [->|[_ [-> _]]]; [congruence|reflexivity]. }
        subst ea3.
        pose proof (proj2 (proj2 (proj2 U))) as Cl.
        assert (Hw2 : wit st2 a = false).
        { rewrite <- (fdx_wit _ _ _ _ _ _ X). exact Hw. }
        destruct (Cl a ea2 Ha2 Hn Ha Hw2 Hs) as [es' [[i0 z0] [Hes' Hv]]].
        exists es', i0, z0. split; [exact Hes'|split; [exact Hv|]].
        eapply ins_entry_le; eauto.
    - (* top *)
      intros z ez3 q t y Hz Hg.
      destruct (fdx_bwd_e _ _ _ _ _ _ X z ez3 Hz) as [ez2 [Hz2 [Ee [El _]]]].
      rewrite El in Hg. rewrite Ee.
      destruct (ins_back z ez2 Hz2) as [[-> ->]|[_ Hz0]].
      + unfold es in Hg. unfold es at 1 2. cbn [ev_la ev_e] in *.
        pose proof (proj1 (proj2 (proj2 U))) as Top.
        destruct (Top q t y (aget_In _ _ _ Hg)) as [ey [[i0 z0] [Hey Hv]]].
        exists ey, i0, z0. fold c. split; [exact Hey|split; [exact Hv|]].
        fold i. eapply ins_entry_le; eauto.
      + destruct (cd_top _ _ _ I z ez2 q t y Hz0 Hg) as [ey [i0 [z0 [Hey [Hv Hle]]]]].
        destruct (ins_old3 _ ey Hey) as [ey3 [Hey3 [_ [_ [_ Hmono]]]]].
        exists ey3, i0, z0. auto.
  Qed.
End Insert.


Theorem insert_cinvD P all st e st' :
  dag_ok st -> la_ok st -> from_attempts st all -> ids_determine all -> In e all -> 0 <= e_id e ->
  cinvD P None st -> insert_event st e = (InsOk, st') ->
  cinvD P (Some (e_id e)) st' /\ In (e_id e) (undetermined st').
Proof.
  intros OK LA FA ID Hin Hid I H.
  destruct (insert_ok_checks st e st' H) as [Hsig [Hsp Hop]].
  pose proof (checked_fresh st e all OK FA ID Hin Hsp) as Fresh.
  destruct (insert_ok_expose st e st' Fresh Hid H) as [st2 [Hst [G2 [R2 [W2 [Ro2 [P2 [T2 S3]]]]]]]].
  cbv zeta in S3. destruct S3 as [E3 [R3 [W3 [Ro3 [P3 [T3 U3]]]]]].
  set (la := fst (init_coords st e)) in *.
  set (es := mkEvst e None None None la [(e_creator e, (e_index e, e_id e))] (topo st)) in *.
  assert (Hcr : 0 <= e_creator e).
  { unfold check_self_parent in Hsp. destruct (zget (e_creator e) (pevents st)) eqn:Hz; [|discriminate].
    eapply zget_some_nonneg; eauto. }
  assert (OK2 : dag_ok st2).
  { destruct (dag_ok_store st e OK Hid Hcr Hsig Hsp Hop Fresh) as [st2' [Hst' OK2']].
    rewrite (init_coords_topo st e (topo st + 1)) in Hst'.
    pose proof (eq_trans (eq_sym Hst) Hst') as E. inversion E. exact OK2'. }
  assert (LA2 : la_ok st2) by (apply (la_ok_store st st2 e es OK LA eq_refl G2 Fresh Hsp Hop)).
  assert (Hx2 : get_event st2 (e_id e) = Some es) by (rewrite G2, Z.eqb_refl; reflexivity).
  assert (HM0 : forall b eb, get_event st2 b = Some eb -> aget (e_creator e) (ev_fd eb) = None -> wmemo st2 b <> None).
  { intros b eb Hb Hn. rewrite G2 in Hb. destruct (Z.eqb_spec b (e_id e)) as [->|Hne].
    - inversion Hb; subst eb. unfold es in Hn. cbn [ev_fd aget] in Hn. rewrite Z.eqb_refl in Hn. discriminate.
    - destruct (cd_all _ _ _ I b eb Hb ltac:(discriminate)) as [r [w [_ [Hw _]]]].
      unfold wmemo in *. rewrite W2, Hw. discriminate. }
  assert (Hfuel : forall b eb, get_event st2 b = Some eb -> 0 <= e_index (ev_e eb) < topo st2).
  { intros b eb Hb. destruct (d_listed st2 OK2 _ _ Hb) as [_ [_ [Hge _]]]. split; [exact Hge|]. rewrite T2.
    pose proof (cd_topo0 _ _ _ I) as T0.
    assert (Hold : forall y ey, get_event st y = Some ey -> e_index (ev_e ey) < topo st + 1).
    { intros y ey Hy. pose proof (cd_fuel _ _ _ I _ _ Hy). lia. }
    rewrite G2 in Hb. destruct (Z.eqb_spec b (e_id e)) as [->|Hne]; [|eapply Hold; eauto].
    inversion Hb; subst eb. unfold es at 1. cbn [ev_e].
    destruct (d_sp st2 OK2 _ _ Hx2) as [[_ Hi0]|[ps [Hps [_ Hip]]]]; unfold es in *; cbn [ev_e] in *; [lia|].
    rewrite G2 in Hps. destruct (Z.eqb_spec (e_sp e) (e_id e)) as [Ex|_].
    - inversion Hps; subst ps. cbn [ev_e] in Hip. lia.
    - pose proof (cd_fuel _ _ _ I _ _ Hps). lia. }
  pose proof (update_ancestor_fd_spec st2 e es OK2 LA2 Hx2 HM0 Hfuel) as U.
  change (ev_la es) with la in U at 2.
  set (st3 := update_ancestor_fd st2 e la) in *.
  pose proof (insert_cinvD_core P st st2 st3 e OK LA I Fresh Hsp Hop G2 R2 W2 Ro2 T2 OK2 LA2 U) as I3.
  split.
  - eapply cinvD_ckeepD; [exact I3|]. apply ckeep_ckeepD, ckeep_same_fields; assumption.
  - rewrite U3. apply in_or_app. right. left. reflexivity.
Qed.
