(* What a successful InsertEvent does to the event map, in a form reusable by the coordinate
   invariants: the new event is added with its initial coordinates, every other stored event is
   untouched by the store write, and everything that follows (first-descendant updates, queues,
   consensus passes) is a dag_frame step. *)
From Coq Require Import ZArith List Bool Lia ZifyBool.
From RecordUpdate Require Import RecordSet.
From V Require Import Model.ZMap Model.Quorum Model.HgImpl
  Proofs.ZMapFacts Proofs.HgFrames Proofs.HgDagFrames Proofs.AdmissionProofs.
Import ListNotations RecordSetNotations.
Open Scope Z_scope.

Lemma init_coords_topo st e t : init_coords (st <| topo := t |>) e = init_coords st e.
Proof. unfold init_coords. destruct st; reflexivity. Qed.

Lemma store_fresh_get st1 es st2 :
  store_set_event st1 es = Some st2 -> get_event st1 (e_id (ev_e es)) = None -> 0 <= e_id (ev_e es) ->
  forall x, get_event st2 x = if x =? e_id (ev_e es) then Some es else get_event st1 x.
Proof.
  unfold store_set_event. intros H Hf Hid. rewrite Hf in H.
  destruct (zget (e_creator (ev_e es)) (pevents st1)); [|discriminate].
  destruct (pidx_set _ _ _); [|discriminate]. inversion H; subst st2; clear H.
  intros x. unfold get_event, set_evst. destruct st1; cbn. rewrite zget_zset. rewrite (Z.eqb_sym x).
  destruct (Z.eqb_spec (e_id (ev_e es)) x); cbn [andb]; [|reflexivity].
  replace (0 <=? e_id (ev_e es)) with true by lia. reflexivity.
Qed.

(* shape of a successful insertion *)
Lemma insert_event_ok_shape st e all st' :
  dag_ok st -> from_attempts st all -> ids_determine all -> In e all -> 0 <= e_id e ->
  insert_event st e = (InsOk, st') ->
  exists st2,
    let es := mkEvst e None None None (fst (init_coords st e)) (snd (init_coords st e)) (topo st) in
    (forall x, get_event st2 x = if x =? e_id e then Some es else get_event st x) /\
    get_event st (e_id e) = None /\
    dag_frame st2 st' /\ dag_ok st2 /\
    check_self_parent st e = InsOk /\ check_other_parent st e = InsOk.
Proof.
  intros OK FA ID Hin Hid H.
  destruct (insert_ok_checks st e st' H) as [Hsig [Hsp Hop]].
  pose proof (checked_fresh st e all OK FA ID Hin Hsp) as Hfresh.
  assert (Hcr : 0 <= e_creator e).
  { unfold check_self_parent in Hsp. destruct (zget (e_creator e) (pevents st)) eqn:Hz; [|discriminate].
    eapply zget_some_nonneg; eauto. }
  destruct (dag_ok_store st e OK Hid Hcr Hsig Hsp Hop Hfresh) as [st2 [Hst OK2]].
  unfold insert_event in H. rewrite Hsig, Hsp, Hop in H. cbn [negb] in H.
  unfold insert_admitted in H. cbv zeta in H. rewrite Hst in H. inversion H; subst st'; clear H.
  exists st2. cbv zeta.
  assert (G1 : forall x, get_event (st <| topo := topo st + 1 |>) x = get_event st x) by (intros; destruct st; reflexivity).
  split; [|split; [exact Hfresh|split; [|split; [exact OK2|auto]]]].
  - intros x. rewrite <- (init_coords_topo st e (topo st + 1)).
    rewrite (store_fresh_get _ _ _ Hst); cbn [ev_e]; [rewrite G1; reflexivity|rewrite G1; exact Hfresh|exact Hid].
  - apply (dag_frame_after_store st2 e (fst (init_coords (st <| topo := topo st + 1 |>) e))).
Qed.
