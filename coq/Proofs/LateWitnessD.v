(* Dynamic membership (model after fix 05eda0b): the late-witness lemma.  Adapted from Proofs/LateWitness.v. *)
From Coq Require Import ZArith List Bool Lia ZifyBool Permutation.
From RecordUpdate Require Import RecordSet.
From V Require Import Model.ZMap Model.Quorum Model.Voting Model.VotingRef Model.VotingRefD Model.HgImpl
  Proofs.ZMapFacts Proofs.QuorumProofs Proofs.AdmissionProofs Proofs.Ancestry Proofs.BlockInv Proofs.RoundOrder
  Proofs.VotingProofs Proofs.VotingProofsD Proofs.FameBridge Proofs.Static Proofs.FirstDesc Proofs.DivInv
  Proofs.Height Proofs.StronglySee Proofs.RoundFun Proofs.ViewOk Proofs.SameHistory Proofs.Agreement Proofs.LateWitness
  Proofs.FirstDescD Proofs.StronglySeeD Proofs.RoundFunD Proofs.ViewOkD Proofs.SameHistoryD Proofs.AgreementD.
Import ListNotations RecordSetNotations.
Open Scope Z_scope.
Ltac Zify.zify_post_hook ::= Z.div_mod_to_equations.

(** * Abstract level *)
Theorem nobody_sees_decides_falseD n r P W J y0 :
  view_okD n r P W J -> r + 2 <= J -> In y0 (W (r + 2)) ->
  (forall y, In y (W (r + 1)) -> vp_sees P y = Some false) ->
  fame_loop P (fun j => Some (W j)) r (zrange (r + 1) J) [] = Some (Some false).
Proof.
  intros V HJ Hy0 Hsees.
  destruct (loop_no_error_and_votesD n r P W J V) as [E _]. cbv zeta in E. rewrite E. f_equal.
  apply (loop_ref_Some_iffD n r P W J V false). exists (r + 2), y0.
  split; [lia|]. split; [exact Hy0|].
  pose proof (vd_quorum _ _ _ _ _ V (r + 2) y0 ltac:(lia) Hy0) as Hq.
  assert (Hn1 : 1 <= smd n (r + 2)) by (pose proof (vd_n _ _ _ _ _ V (r + 2 - 1)); unfold smd; lia).
  (* the tally of y0: everybody it strongly sees votes false *)
  assert (Hv : forall w, In w (ssset P W (r + 2) y0) -> VzD P W r (smd n) (r + 2 - 1) w = false).
  { intros w Hw. apply ssset_incl in Hw. replace (r + 2 - 1) with (r + 1) in * by lia.
    rewrite Vz_baseD. unfold seesb. rewrite (Hsees w Hw). reflexivity. }
  assert (Ht : tallyf (VzD P W r (smd n) (r + 2 - 1)) (ssset P W (r + 2) y0) =
               (false, Z.of_nat (length (ssset P W (r + 2) y0)))).
  { unfold tallyf. rewrite (filter_all_false _ _ Hv). cbn [length].
    replace (Z.of_nat (length (ssset P W (r + 2) y0)) - Z.of_nat 0) with (Z.of_nat (length (ssset P W (r + 2) y0))) by lia.
    replace (Z.of_nat (length (ssset P W (r + 2) y0)) <=? Z.of_nat 0) with false by lia. reflexivity. }
  assert (Hmod : 0 <? (r + 2 - r) mod 4 = true) by (replace (r + 2 - r) with 2 by lia; reflexivity).
  split.
  - unfold deciderD. rewrite Ht. cbn [snd]. rewrite Hmod.
    replace (2 <=? r + 2 - r) with true by lia. cbn [andb]. apply Z.leb_le. exact Hq.
  - rewrite Vz_stepD by lia. rewrite Hmod, Ht. reflexivity.
Qed.

(** * On states *)
Section Late.
  Variables (P : Z -> peerset) (st1 st2 : hg).
  Hypothesis G1 : goodD P st1.
  Hypothesis G2 : goodD P st2.
  Hypothesis C1 : contig st1.
  Hypothesis C2 : contig st2.
  Hypothesis SAME : same_bodies st1 st2.
  Hypothesis NF : no_cross_fork st1 st2.
  Hypothesis T1 : forall q, 0 <= q <= last_round st1 -> get_peerset st1 q = Some (P q).
  Hypothesis T2 : forall q, 0 <= q <= last_round st2 -> get_peerset st2 q = Some (P q).

  (* st1 decided x famous; st2 does not store x but has a witness of round r+2: impossible *)
  Theorem famous_is_knownD x r y0 :
    fame_of st1 x r = Some (Some true) -> In y0 (wits st2 (r + 2)) -> get_event st2 x <> None.
  Proof.
    intros F1 Hy0 Hx2. 
    destruct (fame_decided_preD P st1 G1 C1 T1 x r true F1) as [Hr1 [e1x H1x]].
    pose proof Hx2 as Hx2'.
    (* the round of y0 exists in st2 *)
    assert (Hlr2 : r + 2 <= last_round st2).
    { assert (Hg : get_round st2 (r + 2) <> None).
      { intros D. unfold wits, wl in Hy0. rewrite D in Hy0. destruct Hy0. }
      apply C2 in Hg. lia. }
    set (sees2 := fun _ : Z => Some false).
    pose proof (view_ok_reachD P st1 G1 C1 T1 x r e1x Hr1 H1x) as V1.
    assert (V2 : view_okD (nD P) r (vparams_with st2 sees2) (view_witnesses st2) (last_round st2)).
    { apply (view_ok_reach_genD P st2 G2 C2 T2 sees2 r); [lia|]. intros y _. discriminate. }
    assert (SH : same_historyD (nD P) r (vparams_of st1 x) (view_witnesses st1) (last_round st1)
                   (vparams_with st2 sees2) (view_witnesses st2) (last_round st2) (GWD st1 st2)).
    { rewrite vparams_of_with. apply (same_history_genD P st1 st2 G1 G2 SAME NF C1 C2 T1 T2); [lia|].
      intros y Hy1 Hy2. unfold sees2.
      destruct (wits_storedD P st1 G1 _ y Hy1) as [e1y H1y]. destruct (wits_storedD P st2 G2 _ y Hy2) as [e2y H2y].
      (* y is stored in st2, x is not: y cannot descend from x *)
      unfold see. destruct (ancestor st1 y x) as [[|]|] eqn:Ea.
      - exfalso. apply (ancestor_correct st1 y x e1y e1x (gD_dag _ _ G1) (gD_la _ _ G1) H1y H1x) in Ea.
        destruct (anc_commonD P P st1 st2 G1 G2 SAME y e1y e2y x H1y H2y Ea) as [_ [e2x H2x]]. congruence.
      - reflexivity.
      - exfalso. unfold ancestor in Ea. destruct (y =? x); [discriminate|]. rewrite H1y, H1x in Ea. discriminate. }
    assert (F2 : fame_loop (vparams_with st2 sees2) (fun j => Some (view_witnesses st2 j)) r
                   (zrange (r + 1) (last_round st2)) [] = Some (Some false)).
    { apply (nobody_sees_decides_falseD (nD P) r _ _ _ y0 V2 Hlr2).
      - rewrite (view_witnesses_witsD P st2 T2) by lia. exact Hy0.
      - intros y _. reflexivity. }
    assert (N1 : forall j, In j (zrange (r + 1) (last_round st1)) -> round_witnesses st1 j <> None).
    { intros j Hj. apply In_zrange in Hj. apply (round_witnesses_someD P st1 C1 T1). lia. }
    rewrite (fame_of_as_view st1 x r N1) in F1.
    pose proof (decisions_agreeD (nD P) r _ _ _ _ _ _ (GWD st1 st2) true false V1 V2 SH F1 F2). discriminate.
  Qed.
End Late.
