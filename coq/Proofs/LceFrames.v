(* Footprint: the last-consensus-event table is touched only by ProcessDecidedRounds. *)
From Coq Require Import ZArith List Bool Lia.
From RecordUpdate Require Import RecordSet.
From V Require Import Model.ZMap Model.Quorum Model.Voting Model.HgImpl Proofs.ZMapFacts Proofs.HgFrames.
Import ListNotations RecordSetNotations.
Open Scope Z_scope.

Definition lcev (st : hg) := last_cons_ev st.

Lemma lcev_nomemo st st' : nomemo st' = nomemo st -> lcev st' = lcev st.
Proof. intros H. unfold lcev. destruct st, st'. cbn in *. inversion H. reflexivity. Qed.

Lemma lcev_set_evst st x e : lcev (set_evst st x e) = lcev st.
Proof. destruct st; reflexivity. Qed.
Lemma lcev_set_round st r ri : lcev (set_round st r ri) = lcev st.
Proof. destruct st; reflexivity. Qed.
Lemma lcev_fail st : lcev (fail st) = lcev st.
Proof. destruct st; reflexivity. Qed.
Lemma lcev_set_pending st p : lcev (st <| pending := p |>) = lcev st.
Proof. destruct st; reflexivity. Qed.
Lemma lcev_set_rounds st p : lcev (st <| rounds := p |>) = lcev st.
Proof. destruct st; reflexivity. Qed.
Lemma lcev_set_undetermined st p : lcev (st <| undetermined := p |>) = lcev st.
Proof. destruct st; reflexivity. Qed.
Lemma lcev_set_pending_loaded st p : lcev (st <| pending_loaded := p |>) = lcev st.
Proof. destruct st; reflexivity. Qed.
Lemma lcev_set_sigpool st p : lcev (st <| sigpool := p |>) = lcev st.
Proof. destruct st; reflexivity. Qed.
Lemma lcev_set_topo st p : lcev (st <| topo := p |>) = lcev st.
Proof. destruct st; reflexivity. Qed.

Lemma round_f_lcev fuel st x : lcev (snd (round_f fuel st x)) = lcev st.
Proof. apply lcev_nomemo, round_f_nomemo. Qed.
Lemma witness_f_lcev fuel st x : lcev (snd (witness_f fuel st x)) = lcev st.
Proof. apply lcev_nomemo, witness_f_nomemo. Qed.
Lemma lamport_f_lcev fuel st x : lcev (snd (lamport_f fuel st x)) = lcev st.
Proof. apply lcev_nomemo, lamport_f_nomemo. Qed.

Lemma fd_walk_lcev fuel : forall st c index x ah, lcev (fd_walk fuel st c index x ah) = lcev st.
Proof.
  induction fuel as [|f IH]; intros st c index x ah; cbn [fd_walk]; [reflexivity|].
  destruct (get_event st ah) as [a|]; [|reflexivity].
  destruct (aget c (ev_fd a)); [reflexivity|].
  set (st1 := set_evst st ah _).
  pose proof (witness_f_lcev (fuel_of st1) st1 ah) as F2.
  assert (F1 : lcev st1 = lcev st) by apply lcev_set_evst.
  destruct (witness_f (fuel_of st1) st1 ah) as [[[|]|] st2]; cbn [snd] in F2; try rewrite IH; congruence.
Qed.

Lemma fold_lcev {A} (f : hg -> A -> hg) (l : list A) :
  (forall s a, lcev (f s a) = lcev s) -> forall st, lcev (fold_left f l st) = lcev st.
Proof.
  intros Hf. induction l as [|a r IH]; intros st; cbn [fold_left]; [reflexivity|]. rewrite IH. apply Hf.
Qed.

Lemma update_ancestor_fd_lcev st e la : lcev (update_ancestor_fd st e la) = lcev st.
Proof. unfold update_ancestor_fd. apply fold_lcev. intros s ce. apply fd_walk_lcev. Qed.

Lemma store_set_event_lcev st es st' : store_set_event st es = Some st' -> lcev st' = lcev st.
Proof.
  unfold store_set_event. destruct (get_event st _).
  - intros H; inversion H. apply lcev_set_evst.
  - destruct (zget _ _); [|discriminate]. destruct (pidx_set _ _ _); [|discriminate].
    intros H; inversion H. rewrite lcev_set_evst. destruct st; reflexivity.
Qed.

Lemma insert_event_lcev st e : lcev (snd (insert_event st e)) = lcev st.
Proof.
  unfold insert_event. destruct (negb _); [reflexivity|].
  destruct (check_self_parent st e); try reflexivity.
  destruct (check_other_parent st e); try reflexivity.
  unfold insert_admitted. cbv zeta.
  destruct (store_set_event _ _) as [st2|] eqn:E; cbn [snd]; [|apply lcev_set_topo].
  apply store_set_event_lcev in E. rewrite lcev_set_topo in E.
  rewrite lcev_set_sigpool.
  destruct (is_loaded e); rewrite ?lcev_set_pending_loaded, lcev_set_undetermined, update_ancestor_fd_lcev; exact E.
Qed.

(** DivideRounds / DecideFame / DecideRoundReceived *)
Lemma divide_round_lcev st x : lcev (divide_round st x) = lcev st.
Proof.
  unfold divide_round.
  pose proof (round_f_lcev (fuel_of st) st x) as Fr.
  destruct (round_f (fuel_of st) st x) as [[r|] s]; cbn [snd] in Fr; [|rewrite lcev_fail; exact Fr].
  cbv zeta.
  set (s1 := set_event_round s x r). set (ri := round_or_new s1 r). set (s2 := maybe_queue s1 r ri).
  assert (F1 : lcev s1 = lcev s).
  { subst s1; unfold set_event_round; destruct (get_event s x); [apply lcev_set_evst|reflexivity]. }
  assert (F2 : lcev s2 = lcev s1).
  { subst s2; unfold maybe_queue; destruct (_ && _ && _); [apply lcev_set_pending|reflexivity]. }
  pose proof (witness_f_lcev (fuel_of s2) s2 x) as Fw.
  destruct (witness_f (fuel_of s2) s2 x) as [[w|] s']; cbn [snd] in Fw;
    rewrite ?lcev_set_round, ?lcev_fail; congruence.
Qed.

Lemma divide_lt_lcev st x : lcev (divide_lt st x) = lcev st.
Proof.
  unfold divide_lt.
  pose proof (lamport_f_lcev (fuel_of st) st x) as Fl.
  destruct (lamport_f (fuel_of st) st x) as [[t|] s]; cbn [snd] in Fl; [|rewrite lcev_fail; exact Fl].
  unfold set_event_lt. destruct (get_event s x); rewrite ?lcev_set_evst; exact Fl.
Qed.

Lemma divide_one_lcev st x : lcev (divide_one st x) = lcev st.
Proof.
  unfold divide_one.
  destruct (failed st); [reflexivity|].
  destruct (get_event st x) as [ev|]; [|apply lcev_fail].
  cbv zeta.
  set (st1 := match ev_round ev with Some _ => st | None => divide_round st x end).
  assert (F1 : lcev st1 = lcev st).
  { subst st1; destruct (ev_round ev); [reflexivity|apply divide_round_lcev]. }
  destruct (failed st1); [exact F1|].
  destruct (get_event st1 x) as [ev1|]; [|rewrite lcev_fail; exact F1].
  destruct (ev_lt ev1); [exact F1|rewrite divide_lt_lcev; exact F1].
Qed.

Lemma divide_rounds_lcev st : lcev (divide_rounds st) = lcev st.
Proof. unfold divide_rounds. apply fold_lcev. apply divide_one_lcev. Qed.

Lemma fold_lcev_fst {A B} (f : hg * B -> A -> hg * B) (l : list A) :
  (forall s b a, lcev (fst (f (s, b) a)) = lcev s) ->
  forall st b, lcev (fst (fold_left f l (st, b))) = lcev st.
Proof.
  intros Hf. induction l as [|a r IH]; intros st b; cbn [fold_left]; [reflexivity|].
  specialize (Hf st b a). destruct (f (st, b) a) as [s' b']. cbn [fst] in Hf. rewrite IH. exact Hf.
Qed.

Lemma decide_fame_round_lcev s dec pr : lcev (fst (decide_fame_round (s, dec) pr)) = lcev s.
Proof.
  unfold decide_fame_round.
  destruct (failed s); [reflexivity|].
  destruct (get_round s (fst pr)); [|apply lcev_fail].
  destruct (get_peerset s (fst pr)); [|apply lcev_fail].
  match goal with |- context [fold_left ?f ?l ?a] => destruct (fold_left f l a) end; [|apply lcev_fail].
  destruct (witnesses_decided _ _) as [d ri'']. cbn [fst]. apply lcev_set_round.
Qed.

Lemma decide_fame_lcev st : lcev (decide_fame st) = lcev st.
Proof.
  unfold decide_fame.
  pose proof (fold_lcev_fst decide_fame_round (pending st) decide_fame_round_lcev st []) as F.
  destruct (fold_left decide_fame_round (pending st) (st, [])) as [s decided]. cbn [fst] in F.
  destruct (failed s); [exact F|]. rewrite lcev_set_pending. exact F.
Qed.

Lemma rr_loop_lcev x : forall is_ st, lcev (fst (rr_loop st x is_)) = lcev st.
Proof.
  induction is_ as [|i rest IH]; intros st; cbn [rr_loop]; [reflexivity|].
  destruct (get_round st i) as [tr|];
    [|destruct (lower_bound st) as [lb0|]; [destruct (i <=? lb0); [apply IH|reflexivity]|reflexivity]].
  destruct (get_peerset st i) as [tps|]; [|apply lcev_fail].
  destruct (witnesses_decided tr tps) as [d tr'].
  set (st1 := st <| rounds := zset i tr' (rounds st) |>).
  assert (F1 : lcev st1 = lcev st) by apply lcev_set_rounds.
  destruct d; cbn [negb].
  - match goal with |- context [fold_left ?f ?l ?a] => destruct (fold_left f l a) as [sees|] end;
      [|cbn [fst]; rewrite lcev_fail; exact F1].
    destruct (_ && _).
    + destruct (get_event st1 x) as [ex|]; cbn [fst]; rewrite ?lcev_set_round, ?lcev_set_evst, ?lcev_fail; exact F1.
    + rewrite IH. exact F1.
  - destruct (lower_bound st1) as [lb|]; [|exact F1].
    destruct (lb <? i); [exact F1|]. rewrite IH. exact F1.
Qed.

Lemma decide_rr_one_lcev s und x : lcev (fst (decide_rr_one (s, und) x)) = lcev s.
Proof.
  unfold decide_rr_one.
  destruct (failed s); [reflexivity|].
  pose proof (round_f_lcev (fuel_of s) s x) as Fr.
  destruct (round_f (fuel_of s) s x) as [[r|] s1]; cbn [snd] in Fr; [|cbn [fst]; rewrite lcev_fail; exact Fr].
  pose proof (rr_loop_lcev x (zrange (r + 1) (last_round s1)) s1) as Fl.
  destruct (rr_loop s1 x (zrange (r + 1) (last_round s1))) as [s' received]. cbn [fst] in *. congruence.
Qed.

Lemma decide_round_received_lcev st : lcev (decide_round_received st) = lcev st.
Proof.
  unfold decide_round_received.
  pose proof (fold_lcev_fst decide_rr_one (undetermined st) decide_rr_one_lcev st []) as F.
  destruct (fold_left decide_rr_one (undetermined st) (st, [])) as [s und]. cbn [fst] in F.
  destruct (failed s); [exact F|]. rewrite lcev_set_undetermined. exact F.
Qed.
