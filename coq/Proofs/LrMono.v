(* GENERATED from LceFrames.v (lemmas that do not hold for last_round removed): last_round is
   changed by set_round only; then: it never decreases along a run. *)
From Coq Require Import ZArith List Bool Lia.
From RecordUpdate Require Import RecordSet.
From V Require Import Model.ZMap Model.Quorum Model.Voting Model.HgImpl Proofs.ZMapFacts Proofs.HgFrames Proofs.HgBlockFrames Proofs.BlockInv Proofs.LrFrames.
Import ListNotations RecordSetNotations.
Open Scope Z_scope.

Definition lrq (st : hg) := last_round st.

Lemma lrq_nomemo st st' : nomemo st' = nomemo st -> lrq st' = lrq st.
Proof. intros H. unfold lrq. destruct st, st'. cbn in *. inversion H. reflexivity. Qed.

Lemma lrq_set_evst st x e : lrq (set_evst st x e) = lrq st.
Proof. destruct st; reflexivity. Qed.
Lemma lrq_fail st : lrq (fail st) = lrq st.
Proof. destruct st; reflexivity. Qed.
Lemma lrq_set_pending st p : lrq (st <| pending := p |>) = lrq st.
Proof. destruct st; reflexivity. Qed.
Lemma lrq_set_rounds st p : lrq (st <| rounds := p |>) = lrq st.
Proof. destruct st; reflexivity. Qed.
Lemma lrq_set_undetermined st p : lrq (st <| undetermined := p |>) = lrq st.
Proof. destruct st; reflexivity. Qed.
Lemma lrq_set_pending_loaded st p : lrq (st <| pending_loaded := p |>) = lrq st.
Proof. destruct st; reflexivity. Qed.
Lemma lrq_set_sigpool st p : lrq (st <| sigpool := p |>) = lrq st.
Proof. destruct st; reflexivity. Qed.
Lemma lrq_set_topo st p : lrq (st <| topo := p |>) = lrq st.
Proof. destruct st; reflexivity. Qed.

Lemma round_f_lrq fuel st x : lrq (snd (round_f fuel st x)) = lrq st.
Proof. apply lrq_nomemo, round_f_nomemo. Qed.
Lemma witness_f_lrq fuel st x : lrq (snd (witness_f fuel st x)) = lrq st.
Proof. apply lrq_nomemo, witness_f_nomemo. Qed.
Lemma lamport_f_lrq fuel st x : lrq (snd (lamport_f fuel st x)) = lrq st.
Proof. apply lrq_nomemo, lamport_f_nomemo. Qed.

Lemma fd_walk_lrq fuel : forall st c index x ah, lrq (fd_walk fuel st c index x ah) = lrq st.
Proof.
  induction fuel as [|f IH]; intros st c index x ah; cbn [fd_walk]; [reflexivity|].
  destruct (get_event st ah) as [a|]; [|reflexivity].
  destruct (aget c (ev_fd a)); [reflexivity|].
  set (st1 := set_evst st ah _).
  pose proof (witness_f_lrq (fuel_of st1) st1 ah) as F2.
  assert (F1 : lrq st1 = lrq st) by apply lrq_set_evst.
  destruct (witness_f (fuel_of st1) st1 ah) as [[[|]|] st2]; cbn [snd] in F2; try rewrite IH; congruence.
Qed.

Lemma fold_lrq {A} (f : hg -> A -> hg) (l : list A) :
  (forall s a, lrq (f s a) = lrq s) -> forall st, lrq (fold_left f l st) = lrq st.
Proof.
  intros Hf. induction l as [|a r IH]; intros st; cbn [fold_left]; [reflexivity|]. rewrite IH. apply Hf.
Qed.

Lemma update_ancestor_fd_lrq st e la : lrq (update_ancestor_fd st e la) = lrq st.
Proof. unfold update_ancestor_fd. apply fold_lrq. intros s ce. apply fd_walk_lrq. Qed.

Lemma store_set_event_lrq st es st' : store_set_event st es = Some st' -> lrq st' = lrq st.
Proof.
  unfold store_set_event. destruct (get_event st _).
  - intros H; inversion H. apply lrq_set_evst.
  - destruct (zget _ _); [|discriminate]. destruct (pidx_set _ _ _); [|discriminate].
    intros H; inversion H. rewrite lrq_set_evst. destruct st; reflexivity.
Qed.

Lemma insert_event_lrq st e : lrq (snd (insert_event st e)) = lrq st.
Proof.
  unfold insert_event. destruct (negb _); [reflexivity|].
  destruct (check_self_parent st e); try reflexivity.
  destruct (check_other_parent st e); try reflexivity.
  unfold insert_admitted. cbv zeta.
  destruct (store_set_event _ _) as [st2|] eqn:E; cbn [snd]; [|apply lrq_set_topo].
  apply store_set_event_lrq in E. rewrite lrq_set_topo in E.
  rewrite lrq_set_sigpool.
  destruct (is_loaded e); rewrite ?lrq_set_pending_loaded, lrq_set_undetermined, update_ancestor_fd_lrq; exact E.
Qed.

(** DivideRounds / DecideFame / DecideRoundReceived *)

Lemma divide_lt_lrq st x : lrq (divide_lt st x) = lrq st.
Proof.
  unfold divide_lt.
  pose proof (lamport_f_lrq (fuel_of st) st x) as Fl.
  destruct (lamport_f (fuel_of st) st x) as [[t|] s]; cbn [snd] in Fl; [|rewrite lrq_fail; exact Fl].
  unfold set_event_lt. destruct (get_event s x); rewrite ?lrq_set_evst; exact Fl.
Qed.



Lemma fold_lrq_fst {A B} (f : hg * B -> A -> hg * B) (l : list A) :
  (forall s b a, lrq (fst (f (s, b) a)) = lrq s) ->
  forall st b, lrq (fst (fold_left f l (st, b))) = lrq st.
Proof.
  intros Hf. induction l as [|a r IH]; intros st b; cbn [fold_left]; [reflexivity|].
  specialize (Hf st b a). destruct (f (st, b) a) as [s' b']. cbn [fst] in Hf. rewrite IH. exact Hf.
Qed.






(** * last_round never decreases *)
Lemma lrq_set_round_le st r ri : lrq st <= lrq (set_round st r ri).
Proof. unfold lrq, set_round. destruct st; cbn. lia. Qed.

Lemma fold_lrq_le {A} (f : hg -> A -> hg) (l : list A) :
  (forall s a, lrq s <= lrq (f s a)) -> forall st, lrq st <= lrq (fold_left f l st).
Proof.
  intros Hf. induction l as [|a r IH]; intros st; cbn [fold_left]; [lia|].
  specialize (Hf st a). specialize (IH (f st a)). lia.
Qed.

Lemma fold_lrq_fst_le {A B} (f : hg * B -> A -> hg * B) (l : list A) :
  (forall s b a, lrq s <= lrq (fst (f (s, b) a))) ->
  forall st b, lrq st <= lrq (fst (fold_left f l (st, b))).
Proof.
  intros Hf. induction l as [|a r IH]; intros st b; cbn [fold_left]; [cbn; lia|].
  specialize (Hf st b a). destruct (f (st, b) a) as [s' b']. cbn [fst] in Hf. specialize (IH s' b'). lia.
Qed.

Lemma divide_round_lrq_le st x : lrq st <= lrq (divide_round st x).
Proof.
  unfold divide_round.
  pose proof (round_f_lrq (fuel_of st) st x) as Fr.
  destruct (round_f (fuel_of st) st x) as [[r|] s]; cbn [snd] in Fr; [|rewrite lrq_fail; lia].
  cbv zeta.
  set (s1 := set_event_round s x r). set (ri := round_or_new s1 r). set (s2 := maybe_queue s1 r ri).
  assert (F1 : lrq s1 = lrq s).
  { subst s1; unfold set_event_round; destruct (get_event s x); [apply lrq_set_evst|reflexivity]. }
  assert (F2 : lrq s2 = lrq s1).
  { subst s2; unfold maybe_queue; destruct (_ && _ && _); [apply lrq_set_pending|reflexivity]. }
  pose proof (witness_f_lrq (fuel_of s2) s2 x) as Fw.
  destruct (witness_f (fuel_of s2) s2 x) as [[w|] s']; cbn [snd] in Fw.
  - pose proof (lrq_set_round_le s' r (add_created ri x w)). lia.
  - rewrite lrq_fail. lia.
Qed.

Lemma divide_one_lrq_le st x : lrq st <= lrq (divide_one st x).
Proof.
  unfold divide_one.
  destruct (failed st); [lia|].
  destruct (get_event st x) as [ev|]; [|rewrite lrq_fail; lia].
  cbv zeta.
  set (st1 := match ev_round ev with Some _ => st | None => divide_round st x end).
  assert (F1 : lrq st <= lrq st1).
  { subst st1; destruct (ev_round ev); [lia|apply divide_round_lrq_le]. }
  destruct (failed st1); [exact F1|].
  destruct (get_event st1 x) as [ev1|]; [|rewrite lrq_fail; exact F1].
  destruct (ev_lt ev1); [exact F1|rewrite divide_lt_lrq; exact F1].
Qed.

Lemma divide_rounds_lrq_le st : lrq st <= lrq (divide_rounds st).
Proof. unfold divide_rounds. apply fold_lrq_le. apply divide_one_lrq_le. Qed.

Lemma decide_fame_round_lrq_le s dec pr : lrq s <= lrq (fst (decide_fame_round (s, dec) pr)).
Proof.
  unfold decide_fame_round.
  destruct (failed s); [cbn; lia|].
  destruct (get_round s (fst pr)); [|cbn [fst]; rewrite lrq_fail; lia].
  destruct (get_peerset s (fst pr)); [|cbn [fst]; rewrite lrq_fail; lia].
  match goal with |- context [fold_left ?f ?l ?a] => destruct (fold_left f l a) end; [|cbn [fst]; rewrite lrq_fail; lia].
  destruct (witnesses_decided _ _) as [d ri'']. cbn [fst]. apply lrq_set_round_le.
Qed.

Lemma decide_fame_lrq_le st : lrq st <= lrq (decide_fame st).
Proof.
  unfold decide_fame.
  pose proof (fold_lrq_fst_le decide_fame_round (pending st) decide_fame_round_lrq_le st []) as F.
  destruct (fold_left decide_fame_round (pending st) (st, [])) as [s decided]. cbn [fst] in F.
  destruct (failed s); [exact F|]. rewrite lrq_set_pending. exact F.
Qed.

Lemma rr_loop_lrq_le x : forall is_ st, lrq st <= lrq (fst (rr_loop st x is_)).
Proof.
  induction is_ as [|i rest IH]; intros st; cbn [rr_loop]; [cbn; lia|].
  destruct (get_round st i) as [tr|];
    [|destruct (lower_bound st) as [lb0|]; [destruct (i <=? lb0); [apply IH|cbn; lia]|cbn; lia]].
  destruct (get_peerset st i) as [tps|]; [|cbn [fst]; rewrite lrq_fail; lia].
  destruct (witnesses_decided tr tps) as [d tr'].
  set (st1 := st <| rounds := zset i tr' (rounds st) |>).
  assert (F1 : lrq st1 = lrq st) by apply lrq_set_rounds.
  destruct d; cbn [negb].
  - match goal with |- context [fold_left ?f ?l ?a] => destruct (fold_left f l a) as [sees|] end;
      [|cbn [fst]; rewrite lrq_fail; lia].
    destruct (_ && _).
    + destruct (get_event st1 x) as [ex|]; cbn [fst]; rewrite ?lrq_fail; try lia.
      match goal with |- _ <= lrq (set_round ?s ?r ?ri) => pose proof (lrq_set_round_le s r ri) as L end.
      rewrite lrq_set_evst in L. lia.
    + specialize (IH st1). lia.
  - destruct (lower_bound st1) as [lb|]; [|cbn [fst]; lia].
    destruct (lb <? i); [cbn [fst]; lia|]. specialize (IH st1). lia.
Qed.

Lemma decide_rr_one_lrq_le s und x : lrq s <= lrq (fst (decide_rr_one (s, und) x)).
Proof.
  unfold decide_rr_one.
  destruct (failed s); [cbn; lia|].
  pose proof (round_f_lrq (fuel_of s) s x) as Fr.
  destruct (round_f (fuel_of s) s x) as [[r|] s1]; cbn [snd] in Fr; [|cbn [fst]; rewrite lrq_fail; lia].
  pose proof (rr_loop_lrq_le x (zrange (r + 1) (last_round s1)) s1) as Fl.
  destruct (rr_loop s1 x (zrange (r + 1) (last_round s1))) as [s' received]. cbn [fst] in *. lia.
Qed.

Lemma decide_round_received_lrq_le st : lrq st <= lrq (decide_round_received st).
Proof.
  unfold decide_round_received.
  pose proof (fold_lrq_fst_le decide_rr_one (undetermined st) decide_rr_one_lrq_le st []) as F.
  destruct (fold_left decide_rr_one (undetermined st) (st, [])) as [s und]. cbn [fst] in F.
  destruct (failed s); [exact F|]. rewrite lrq_set_undetermined. exact F.
Qed.

Lemma run_consensus_lrq_le st : lrq st <= lrq (run_consensus st).
Proof.
  unfold run_consensus.
  pose proof (divide_rounds_lrq_le st) as L1. set (s1 := divide_rounds st) in *.
  destruct (failed s1); [exact L1|].
  pose proof (decide_fame_lrq_le s1) as L2. set (s2 := decide_fame s1) in *.
  destruct (failed s2); [lia|].
  pose proof (decide_round_received_lrq_le s2) as L3. set (s3 := decide_round_received s2) in *.
  destruct (failed s3); [lia|].
  pose proof (lrv_process_decided_rounds s3) as L4. unfold lrv in L4. unfold lrq in *. lia.
Qed.

Lemma hstep_lrq_le st o : last_round st <= last_round (hstep st o).
Proof.
  destruct o as [e|]; cbn [hstep].
  - unfold step, insert_and_run. pose proof (insert_event_lrq st e) as L.
    destruct (insert_event st e) as [r s]. cbn [snd] in L. unfold lrq in L.
    destruct r; cbn [snd]; try lia. pose proof (run_consensus_lrq_le s) as L2. unfold lrq in L2. lia.
  - pose proof (lrv_process_sigpool st) as L. unfold lrv in L. lia.
Qed.

Lemma hrun_lrq_le ops : forall st, last_round st <= last_round (hrun st ops).
Proof.
  induction ops as [|o ops IH]; intros st; cbn [hrun fold_left]; [lia|].
  pose proof (hstep_lrq_le st o). specialize (IH (hstep st o)). unfold hrun in IH. lia.
Qed.
