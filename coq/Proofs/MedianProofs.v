(* Proofs about Model/Median.v  (property C18: block timestamps are BFT medians) *)
From Coq Require Import ZArith List Bool Lia ZifyBool ZifyNat Sorted Permutation.
From V Require Import Model.Median Model.MedianAux.
Import ListNotations.
Open Scope Z_scope.
Ltac Zify.zify_post_hook ::= Z.to_euclidean_division_equations.

(* ------------------------------------------------------------------ *)
(* 1. sortZ is a sorted permutation, invariant under permutation      *)
(* ------------------------------------------------------------------ *)

Lemma insert_sorted_perm : forall x l, Permutation (insert_sorted x l) (x :: l).
Proof.
  intros x l. induction l as [|y r IH]; cbn [insert_sorted].
  - reflexivity.
  - destruct (x <=? y).
    + reflexivity.
    + etransitivity; [apply perm_skip, IH | apply perm_swap].
Qed.

Lemma sortZ_perm : forall l, Permutation (sortZ l) l.
Proof.
  intros l. induction l as [|x r IH]; cbn [sortZ].
  - reflexivity.
  - etransitivity; [apply insert_sorted_perm | apply perm_skip, IH].
Qed.

Lemma sortZ_length : forall l, length (sortZ l) = length l.
Proof. intros l. apply Permutation_length, sortZ_perm. Qed.

Lemma insert_sorted_ssorted : forall x l,
  StronglySorted Z.le l -> StronglySorted Z.le (insert_sorted x l).
Proof.
  intros x l. induction l as [|y r IH]; intros H; cbn [insert_sorted].
  - constructor; constructor.
  - inversion H as [|y' r' Hr Hall]; subst y' r'.
    destruct (Z.leb_spec x y) as [Hxy|Hxy].
    + constructor; [exact H|].
      constructor; [exact Hxy|].
      eapply Forall_impl; [|exact Hall]. cbv beta. intros a Ha. lia.
    + constructor; [apply IH; exact Hr|].
      eapply Permutation_Forall; [symmetry; apply insert_sorted_perm|].
      constructor; [lia|exact Hall].
Qed.

Lemma sortZ_ssorted : forall l, StronglySorted Z.le (sortZ l).
Proof.
  intros l. induction l as [|x r IH]; cbn [sortZ].
  - constructor.
  - apply insert_sorted_ssorted, IH.
Qed.

Lemma sortZ_sorted : forall l, Sorted Z.le (sortZ l).
Proof. intros l. apply StronglySorted_Sorted, sortZ_ssorted. Qed.

Lemma sortZ_locally_sorted : forall l, LocallySorted Z.le (sortZ l).
Proof. intros l. apply Sorted_LocallySorted_iff, sortZ_sorted. Qed.

(* insertion commutes (on arbitrary lists) *)
Lemma insert_sorted_comm : forall x y l,
  insert_sorted x (insert_sorted y l) = insert_sorted y (insert_sorted x l).
Proof.
  intros x y l. induction l as [|a r IH].
  - cbn [insert_sorted].
    destruct (Z.leb_spec y x) as [H1|H1]; destruct (Z.leb_spec x y) as [H2|H2];
      cbn [insert_sorted];
      repeat match goal with
             | |- context [?u <=? ?v] => destruct (Z.leb_spec u v)
             end; try lia; try reflexivity.
    assert (x = y) by lia. subst y. reflexivity.
  - cbn [insert_sorted].
    destruct (Z.leb_spec y a) as [H1|H1]; destruct (Z.leb_spec x a) as [H2|H2];
      cbn [insert_sorted];
      repeat match goal with
             | |- context [?u <=? ?v] => destruct (Z.leb_spec u v)
             end; try lia; try reflexivity.
    + assert (x = y) by lia. subst y. reflexivity.
    + rewrite IH. reflexivity.
Qed.

Lemma sortZ_perm_invariant : forall l l', Permutation l l' -> sortZ l = sortZ l'.
Proof.
  intros l l' HP. induction HP as [|x l l' HP IH|x y l|l l' l'' HP1 IH1 HP2 IH2].
  - reflexivity.
  - cbn [sortZ]. rewrite IH. reflexivity.
  - cbn [sortZ]. apply insert_sorted_comm.
  - rewrite IH1. exact IH2.
Qed.

Lemma median_perm_invariant : forall l l', Permutation l l' -> median l = median l'.
Proof.
  intros l l' HP. unfold median. rewrite (sortZ_perm_invariant l l' HP). reflexivity.
Qed.

(* sortZ is idempotent, and the identity on sorted lists *)
Lemma sortZ_idem : forall l, sortZ (sortZ l) = sortZ l.
Proof. intros l. apply sortZ_perm_invariant, sortZ_perm. Qed.

(* ------------------------------------------------------------------ *)
(* 2. shape of the median                                             *)
(* ------------------------------------------------------------------ *)

Lemma median_nil : median [] = 0.
Proof. reflexivity. Qed.

Lemma median_singleton : forall x, median [x] = x.
Proof. intros x. reflexivity. Qed.

Lemma even_true_half : forall n, Nat.even n = true -> exists m, n = (2 * m)%nat.
Proof. intros n H. apply Nat.even_spec in H. destruct H as [m Hm]. exists m. exact Hm. Qed.

Lemma even_false_half : forall n, Nat.even n = false -> exists m, n = (2 * m + 1)%nat.
Proof.
  intros n H. rewrite <- Nat.negb_odd in H. apply negb_false_iff in H.
  apply Nat.odd_spec in H. destruct H as [m Hm]. exists m. exact Hm.
Qed.

Lemma median_odd : forall l m, length l = (2 * m + 1)%nat ->
  median l = nth m (sortZ l) 0.
Proof.
  intros l m Hlen. unfold median. rewrite sortZ_length.
  destruct (length l) as [|p] eqn:E; [lia|].
  destruct (Nat.even (S p)) eqn:Ev.
  - apply even_true_half in Ev. destruct Ev as [q Hq]. lia.
  - assert (Hd : (S p / 2 = m)%nat) by lia. rewrite Hd. reflexivity.
Qed.

Lemma median_even : forall l m, length l = (2 * m + 2)%nat ->
  median l = Z.quot (wrap64 (nth m (sortZ l) 0 + nth (S m) (sortZ l) 0)) 2.
Proof.
  intros l m Hlen. unfold median. rewrite sortZ_length.
  destruct (length l) as [|p] eqn:E; [lia|].
  destruct (Nat.even (S p)) eqn:Ev.
  - assert (Hd : (S p / 2 = S m)%nat) by lia. rewrite Hd.
    replace (S m - 1)%nat with m by lia. reflexivity.
  - apply even_false_half in Ev. destruct Ev as [q Hq]. lia.
Qed.

Lemma length_cases : forall n : nat,
  n = O \/ (exists m, n = (2 * m + 1)%nat) \/ (exists m, n = (2 * m + 2)%nat).
Proof.
  intros n. destruct n as [|p]; [left; reflexivity|right].
  destruct (Nat.even p) eqn:Ev.
  - apply even_true_half in Ev. destruct Ev as [m Hm]. left. exists m. lia.
  - apply even_false_half in Ev. destruct Ev as [m Hm]. right. exists m. lia.
Qed.

(* for odd length the median is one of the inputs *)
Lemma median_odd_In : forall l m, length l = (2 * m + 1)%nat -> In (median l) l.
Proof.
  intros l m Hlen. rewrite (median_odd l m Hlen).
  eapply Permutation_in; [apply sortZ_perm|].
  apply nth_In. rewrite sortZ_length. lia.
Qed.

(* ------------------------------------------------------------------ *)
(* 3. int64 arithmetic facts                                          *)
(* ------------------------------------------------------------------ *)

Lemma pow63_pos : 0 < 2 ^ 63.
Proof. reflexivity. Qed.
Lemma pow64_double : 2 ^ 64 = 2 * 2 ^ 63.
Proof. reflexivity. Qed.
Lemma pow63_double : 2 ^ 63 = 2 * 2 ^ 62.
Proof. reflexivity. Qed.

Lemma wrap64_small : forall x, - 2 ^ 63 <= x < 2 ^ 63 -> wrap64 x = x.
Proof.
  intros x H. unfold wrap64. rewrite pow64_double.
  pose proof pow63_pos as Hp. revert H Hp. generalize (2 ^ 63). intros p H Hp.
  rewrite Z.mod_small by lia. lia.
Qed.

Lemma wrap64_range : forall x, - 2 ^ 63 <= wrap64 x < 2 ^ 63.
Proof.
  intros x. unfold wrap64. rewrite pow64_double.
  pose proof pow63_pos as Hp. revert Hp. generalize (2 ^ 63). intros p Hp.
  pose proof (Z.mod_pos_bound (x + p) (2 * p)) as Hm. lia.
Qed.

Lemma quot2_between : forall lo hi a b,
  lo <= a <= hi -> lo <= b <= hi -> lo <= Z.quot (a + b) 2 <= hi.
Proof. intros lo hi a b Ha Hb. lia. Qed.

(* ------------------------------------------------------------------ *)
(* 4. counting argument on the sorted list                            *)
(* ------------------------------------------------------------------ *)

Lemma filter_length_le : forall (P : Z -> bool) l, (length (filter P l) <= length l)%nat.
Proof.
  intros P l. induction l as [|a r IH]; cbn [filter length]; [lia|].
  destruct (P a); cbn [length]; lia.
Qed.

Lemma filter_none : forall (P : Z -> bool) l,
  (forall x, In x l -> P x = false) -> filter P l = [].
Proof.
  intros P l. induction l as [|a r IH]; intros H; cbn [filter]; [reflexivity|].
  rewrite (H a (or_introl eq_refl)). apply IH. intros x Hx. apply H. right. exact Hx.
Qed.

Lemma filter_all_length : forall (P : Z -> bool) l,
  Forall (fun x => P x = true) l -> length (filter P l) = length l.
Proof.
  intros P l H. induction H as [|a r Ha Hr IH]; cbn [filter length]; [reflexivity|].
  rewrite Ha. cbn [length]. rewrite IH. reflexivity.
Qed.

(* elements below index k of a sorted list are <= element k *)
Lemma ssorted_prefix_small : forall s k lo,
  StronglySorted Z.le s -> (k < length s)%nat -> nth k s 0 < lo ->
  (k + 1 <= length (filter (fun x => Z.ltb x lo) s))%nat.
Proof.
  intros s. induction s as [|a r IH]; intros k lo HS Hk Hn; cbn [length] in Hk; [lia|].
  inversion HS as [|a' r' Hr Hall]; subst a' r'.
  destruct k as [|k'].
  - cbn [nth] in Hn. cbn [filter].
    destruct (Z.ltb_spec a lo) as [Hlt|Hge]; [cbn [length]; lia | lia].
  - cbn [nth] in Hn.
    assert (Hk' : (k' < length r)%nat) by lia.
    assert (Ha : a <= nth k' r 0).
    { rewrite Forall_forall in Hall. apply Hall. apply nth_In. exact Hk'. }
    cbn [filter].
    destruct (Z.ltb_spec a lo) as [Hlt|Hge]; [|lia].
    cbn [length]. specialize (IH k' lo Hr Hk' Hn). lia.
Qed.

Lemma ssorted_suffix_large : forall s k hi,
  StronglySorted Z.le s -> (k < length s)%nat -> hi < nth k s 0 ->
  (length s - k <= length (filter (fun x => Z.ltb hi x) s))%nat.
Proof.
  intros s. induction s as [|a r IH]; intros k hi HS Hk Hn; cbn [length] in Hk; [lia|].
  inversion HS as [|a' r' Hr Hall]; subst a' r'.
  destruct k as [|k'].
  - cbn [nth] in Hn.
    rewrite filter_all_length; [lia|].
    constructor.
    + apply Z.ltb_lt. exact Hn.
    + eapply Forall_impl; [|exact Hall]. cbv beta. intros x Hx. apply Z.ltb_lt. lia.
  - cbn [nth] in Hn.
    assert (Hk' : (k' < length r)%nat) by lia.
    specialize (IH k' hi Hr Hk' Hn).
    cbn [filter]. destruct (hi <? a); cbn [length]; lia.
Qed.

Lemma filter_perm_app_length : forall (P : Z -> bool) s hon byz,
  Permutation s (hon ++ byz) -> (forall h, In h hon -> P h = false) ->
  (length (filter P s) <= length byz)%nat.
Proof.
  intros P s hon byz HP Hhon.
  assert (HPf : Permutation (filter P s) (filter P (hon ++ byz))).
  { clear Hhon. induction HP as [|x l l' HP IH|x y l|l l' l'' HP1 IH1 HP2 IH2].
    - constructor.
    - cbn [filter]. destruct (P x); [apply perm_skip|]; exact IH.
    - cbn [filter]. destruct (P x); destruct (P y);
        try apply perm_swap; reflexivity.
    - etransitivity; [exact IH1|exact IH2]. }
  rewrite (Permutation_length HPf), filter_app, (filter_none P hon Hhon).
  cbn [app]. apply filter_length_le.
Qed.

(* element k of the sorted list is >= every lower bound of the honest values when k >= |byz| *)
Lemma sorted_nth_lower : forall s hon byz lo k,
  StronglySorted Z.le s -> Permutation s (hon ++ byz) ->
  (forall h, In h hon -> lo <= h) ->
  (length byz <= k)%nat -> (k < length s)%nat ->
  lo <= nth k s 0.
Proof.
  intros s hon byz lo k HS HP Hlo Hb Hk.
  destruct (Z.le_gt_cases lo (nth k s 0)) as [Hle|Hgt]; [exact Hle|exfalso].
  pose proof (ssorted_prefix_small s k lo HS Hk Hgt) as H1.
  pose proof (filter_perm_app_length (fun x => Z.ltb x lo) s hon byz HP) as H2.
  cbv beta in H2.
  assert (H3 : forall h, In h hon -> (h <? lo) = false).
  { intros h Hh. apply Z.ltb_ge. apply Hlo. exact Hh. }
  specialize (H2 H3). lia.
Qed.

(* element k of the sorted list is <= every upper bound of the honest values when k <= n-1-|byz| *)
Lemma sorted_nth_upper : forall s hon byz hi k,
  StronglySorted Z.le s -> Permutation s (hon ++ byz) ->
  (forall h, In h hon -> h <= hi) ->
  (k + length byz < length s)%nat ->
  nth k s 0 <= hi.
Proof.
  intros s hon byz hi k HS HP Hhi Hk.
  destruct (Z.le_gt_cases (nth k s 0) hi) as [Hle|Hgt]; [exact Hle|exfalso].
  assert (Hk' : (k < length s)%nat) by lia.
  pose proof (ssorted_suffix_large s k hi HS Hk' Hgt) as H1.
  pose proof (filter_perm_app_length (fun x => Z.ltb hi x) s hon byz HP) as H2.
  cbv beta in H2.
  assert (H3 : forall h, In h hon -> (hi <? h) = false).
  { intros h Hh. apply Z.ltb_ge. apply Hhi. exact Hh. }
  specialize (H2 H3). lia.
Qed.

Lemma sorted_nth_between : forall l hon byz lo hi k,
  Permutation l (hon ++ byz) ->
  (forall h, In h hon -> lo <= h <= hi) ->
  (length byz <= k)%nat -> (k + length byz < length l)%nat ->
  lo <= nth k (sortZ l) 0 <= hi.
Proof.
  intros l hon byz lo hi k HP Hb Hk1 Hk2.
  assert (HPs : Permutation (sortZ l) (hon ++ byz)).
  { etransitivity; [apply sortZ_perm|exact HP]. }
  pose proof (sortZ_ssorted l) as HS.
  pose proof (sortZ_length l) as HL.
  split.
  - apply (sorted_nth_lower (sortZ l) hon byz lo k HS HPs); [|exact Hk1|lia].
    intros h Hh. apply Hb. exact Hh.
  - apply (sorted_nth_upper (sortZ l) hon byz hi k HS HPs); [|lia].
    intros h Hh. apply Hb. exact Hh.
Qed.

(* ------------------------------------------------------------------ *)
(* 5. the BFT median theorem                                          *)
(* ------------------------------------------------------------------ *)

(* odd number of values: no range premise is needed at all *)
Lemma median_bft_odd : forall (hon byz l : list Z) m,
  Permutation l (hon ++ byz) ->
  length l = (2 * m + 1)%nat ->
  (2 * length byz < length hon + length byz)%nat ->
  forall lo hi, (forall h, In h hon -> lo <= h <= hi) ->
  lo <= median l <= hi.
Proof.
  intros hon byz l m HP Hlen Hmaj lo hi Hb.
  pose proof (Permutation_length HP) as HL. rewrite app_length in HL.
  rewrite (median_odd l m Hlen).
  apply (sorted_nth_between l hon byz lo hi m HP Hb); lia.
Qed.

(* general form: the honest values only need to satisfy "the sum of two does not wrap",
   i.e. -2^62 <= h <= 2^62 - 1 *)
Lemma median_bft : forall (hon byz l : list Z),
  Permutation l (hon ++ byz) ->
  (2 * length byz < length hon + length byz)%nat ->
  (forall h, In h hon -> - 2 ^ 62 <= h <= 2 ^ 62 - 1) ->
  forall lo hi, (forall h, In h hon -> lo <= h <= hi) ->
  lo <= median l <= hi.
Proof.
  intros hon byz l HP Hmaj Hrange lo hi Hb.
  pose proof (Permutation_length HP) as HL. rewrite app_length in HL.
  destruct (length_cases (length l)) as [H0|[[m Hm]|[m Hm]]].
  - lia.
  - exact (median_bft_odd hon byz l m HP Hm Hmaj lo hi Hb).
  - rewrite (median_even l m Hm).
    assert (Ha := sorted_nth_between l hon byz lo hi m HP Hb).
    assert (Hb' := sorted_nth_between l hon byz lo hi (S m) HP Hb).
    assert (Har := sorted_nth_between l hon byz _ _ m HP Hrange).
    assert (Hbr := sorted_nth_between l hon byz _ _ (S m) HP Hrange).
    assert (Ha1 : lo <= nth m (sortZ l) 0 <= hi) by (apply Ha; lia).
    assert (Hb1 : lo <= nth (S m) (sortZ l) 0 <= hi) by (apply Hb'; lia).
    assert (Ha2 : - 2 ^ 62 <= nth m (sortZ l) 0 <= 2 ^ 62 - 1) by (apply Har; lia).
    assert (Hb2 : - 2 ^ 62 <= nth (S m) (sortZ l) 0 <= 2 ^ 62 - 1) by (apply Hbr; lia).
    clear Ha Hb' Har Hbr.
    revert Ha1 Hb1 Ha2 Hb2.
    generalize (nth m (sortZ l) 0). generalize (nth (S m) (sortZ l) 0).
    intros b a Ha1 Hb1 Ha2 Hb2.
    rewrite wrap64_small.
    + apply quot2_between; assumption.
    + rewrite pow63_double. revert Ha2 Hb2. generalize (2 ^ 62). intros p Ha2 Hb2. lia.
Qed.

Lemma median_bft_third : forall (hon byz l : list Z),
  Permutation l (hon ++ byz) ->
  (3 * length byz < length hon + length byz)%nat ->
  (forall h, In h hon -> - 2 ^ 62 <= h <= 2 ^ 62 - 1) ->
  forall lo hi, (forall h, In h hon -> lo <= h <= hi) ->
  lo <= median l <= hi.
Proof.
  intros hon byz l HP Hthird Hrange lo hi Hb.
  apply (median_bft hon byz l HP); [lia|exact Hrange|exact Hb].
Qed.

(* min / max instantiation *)
Lemma list_min_le : forall l x, In x l -> list_min l <= x.
Proof.
  intros l x Hin. destruct l as [|h t]; [destruct Hin|]. cbn [list_min].
  revert h x Hin. induction t as [|a r IH]; intros h x Hin; cbn [fold_right].
  - destruct Hin as [->|[]]. lia.
  - destruct Hin as [->|[->|Hin]].
    + pose proof (IH x x (or_introl eq_refl)). lia.
    + lia.
    + pose proof (IH h x (or_intror Hin)). lia.
Qed.

Lemma list_max_ge : forall l x, In x l -> x <= list_max l.
Proof.
  intros l x Hin. destruct l as [|h t]; [destruct Hin|]. cbn [list_max].
  revert h x Hin. induction t as [|a r IH]; intros h x Hin; cbn [fold_right].
  - destruct Hin as [->|[]]. lia.
  - destruct Hin as [->|[->|Hin]].
    + pose proof (IH x x (or_introl eq_refl)). lia.
    + lia.
    + pose proof (IH h x (or_intror Hin)). lia.
Qed.

Lemma median_bft_minmax : forall (hon byz l : list Z),
  Permutation l (hon ++ byz) ->
  (3 * length byz < length hon + length byz)%nat ->
  (forall h, In h hon -> - 2 ^ 62 <= h <= 2 ^ 62 - 1) ->
  list_min hon <= median l <= list_max hon.
Proof.
  intros hon byz l HP Hthird Hrange.
  apply (median_bft_third hon byz l HP Hthird Hrange).
  intros h Hh. split; [apply list_min_le|apply list_max_ge]; exact Hh.
Qed.

(* the result is always an int64, whatever the inputs, provided the inputs are int64 *)
Lemma median_in_int64 : forall l,
  (forall x, In x l -> in_int64 x) -> in_int64 (median l).
Proof.
  intros l Hall. unfold in_int64, int64_min, int64_max in *.
  destruct (length_cases (length l)) as [H0|[[m Hm]|[m Hm]]].
  - destruct l; [|discriminate]. rewrite median_nil.
    pose proof pow63_pos. lia.
  - apply Hall. exact (median_odd_In l m Hm).
  - rewrite (median_even l m Hm).
    pose proof (wrap64_range (nth m (sortZ l) 0 + nth (S m) (sortZ l) 0)) as Hw.
    revert Hw. generalize (wrap64 (nth m (sortZ l) 0 + nth (S m) (sortZ l) 0)).
    pose proof pow63_pos as Hp. revert Hp. generalize (2 ^ 63). intros p Hp w Hw. lia.
Qed.

(* ------------------------------------------------------------------ *)
(* 6. the un-tightened statement is false at the 2^62 corner          *)
(* ------------------------------------------------------------------ *)

Definition median_bft_closed_range_statement : Prop :=
  forall (hon byz l : list Z),
  Permutation l (hon ++ byz) ->
  (2 * length byz < length hon + length byz)%nat ->
  (forall h, In h hon -> - 2 ^ 62 <= h <= 2 ^ 62) ->
  forall lo hi, (forall h, In h hon -> lo <= h <= hi) ->
  lo <= median l <= hi.

Lemma median_corner_value : median [2 ^ 62; 2 ^ 62] = - 2 ^ 62.
Proof. vm_compute. reflexivity. Qed.

Lemma median_bft_closed_range_refuted : ~ median_bft_closed_range_statement.
Proof.
  intros H.
  specialize (H [2 ^ 62; 2 ^ 62] [] [2 ^ 62; 2 ^ 62] (Permutation_refl _)).
  assert (Hlen : (2 * length (@nil Z) < length [2 ^ 62; 2 ^ 62] + length (@nil Z))%nat)
    by (cbn [length]; lia).
  specialize (H Hlen).
  assert (Hr : forall h, In h [2 ^ 62; 2 ^ 62] -> - 2 ^ 62 <= h <= 2 ^ 62).
  { intros h [<-|[<-|[]]]; split; intros Hc; vm_compute in Hc; discriminate. }
  specialize (H Hr (2 ^ 62) (2 ^ 62)).
  assert (Hb : forall h, In h [2 ^ 62; 2 ^ 62] -> 2 ^ 62 <= h <= 2 ^ 62).
  { intros h [<-|[<-|[]]]; split; apply Z.le_refl. }
  specialize (H Hb). rewrite median_corner_value in H.
  destruct H as [H _]. vm_compute in H. apply H. reflexivity.
Qed.

(* ------------------------------------------------------------------ *)
(* 7. permutation <-> equal sorted lists, and concrete instances      *)
(* ------------------------------------------------------------------ *)

Lemma sortZ_eq_perm : forall l l', sortZ l = sortZ l' -> Permutation l l'.
Proof.
  intros l l' H. etransitivity; [symmetry; apply sortZ_perm|].
  rewrite H. apply sortZ_perm.
Qed.

Lemma sortZ_eq_iff_perm : forall l l', sortZ l = sortZ l' <-> Permutation l l'.
Proof. intros l l'. split; [apply sortZ_eq_perm|apply sortZ_perm_invariant]. Qed.

(* without the range premise the conclusion fails (int64 wrap-around) *)
Lemma median_wrap_needed :
  let hon := [2 ^ 62 + 1; 2 ^ 62 + 1] in
  let byz := @nil Z in
  Permutation hon (hon ++ byz) /\
  (2 * length byz < length hon + length byz)%nat /\
  (forall h, In h hon -> 2 ^ 62 + 1 <= h <= 2 ^ 62 + 1) /\
  median hon = - (2 ^ 62 - 1) /\ median hon < 0 /\
  ~ (2 ^ 62 + 1 <= median hon <= 2 ^ 62 + 1).
Proof.
  cbv zeta. split; [apply Permutation_refl|]. split; [cbn [length]; lia|].
  split; [intros h [<-|[<-|[]]]; split; apply Z.le_refl|].
  split; [vm_compute; reflexivity|]. split; [vm_compute; reflexivity|].
  intros [H _]. vm_compute in H. apply H. reflexivity.
Qed.

Lemma small_range : forall h, 0 <= h <= 1000 -> - 2 ^ 62 <= h <= 2 ^ 62 - 1.
Proof.
  intros h H. assert (H62 : 1000 <= 2 ^ 62 - 1) by (intros Hc; vm_compute in Hc; discriminate).
  revert H62. generalize (2 ^ 62). intros p H62. lia.
Qed.

Lemma hon_example_bounds : forall h, In h [100; 101; 102] -> 100 <= h <= 102.
Proof. intros h [<-|[<-|[<-|[]]]]; lia. Qed.

Lemma hon_example_range : forall h, In h [100; 101; 102] -> - 2 ^ 62 <= h <= 2 ^ 62 - 1.
Proof. intros h Hh. apply small_range. pose proof (hon_example_bounds h Hh). lia. Qed.

Lemma median_example_low : 100 <= median [101; - 2 ^ 63; 100; 102] <= 102.
Proof.
  apply (median_bft [100; 101; 102] [- 2 ^ 63] [101; - 2 ^ 63; 100; 102]).
  - apply sortZ_eq_perm. vm_compute. reflexivity.
  - cbn [length]. lia.
  - exact hon_example_range.
  - exact hon_example_bounds.
Qed.

Lemma median_example_high : 100 <= median [2 ^ 63 - 1; 102; 100; 101] <= 102.
Proof.
  apply (median_bft [100; 101; 102] [2 ^ 63 - 1] [2 ^ 63 - 1; 102; 100; 101]).
  - apply sortZ_eq_perm. vm_compute. reflexivity.
  - cbn [length]. lia.
  - exact hon_example_range.
  - exact hon_example_bounds.
Qed.

(* 7 validators, 2 Byzantine (one at each extreme), fewer than one third *)
Lemma median_example_third :
  list_min [100; 101; 102; 103; 104] <= median [2 ^ 63 - 1; 102; 104; 100; - 2 ^ 63; 103; 101]
    <= list_max [100; 101; 102; 103; 104].
Proof.
  apply (median_bft_minmax [100; 101; 102; 103; 104] [2 ^ 63 - 1; - 2 ^ 63]).
  - apply sortZ_eq_perm. vm_compute. reflexivity.
  - cbn [length]. lia.
  - intros h Hh. apply small_range.
    destruct Hh as [<-|[<-|[<-|[<-|[<-|[]]]]]]; lia.
Qed.
