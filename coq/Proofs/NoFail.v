(* No consensus pass fails: under static membership, every reachable state of the per-event pipeline
   has failed = false.  (The model's `failed` flag records that a pass returned an error; the
   correspondence check reports a DIFF when it is set.)  Each `fail` site is shown unreachable
   from the invariants: cinv (memo tables, round tables), dag_ok, the Lamport invariant, the
   round-queue invariant, well-formedness of the voting view, stored last-consensus events. *)
From Coq Require Import ZArith List Bool Lia ZifyBool Permutation.
From RecordUpdate Require Import RecordSet.
From V Require Import Model.ZMap Model.Quorum Model.Voting Model.VotingRef Model.HgImpl
  Proofs.ZMapFacts Proofs.QuorumProofs Proofs.HgFrames Proofs.HgDagFrames Proofs.AdmissionProofs Proofs.InsertShape
  Proofs.HgBlockFrames Proofs.BlockInv Proofs.RoundOrder Proofs.OrderFrames Proofs.OrderProofs Proofs.Ancestry
  Proofs.VotingProofs Proofs.VotingTheorems Proofs.FameBridge
  Proofs.Static Proofs.FirstDesc Proofs.FdWalk Proofs.InsertInv Proofs.DivInv Proofs.CInvRun Proofs.Height
  Proofs.StronglySee Proofs.ViewOk Proofs.LceFrames.
Import ListNotations RecordSetNotations.
Open Scope Z_scope.

(** * DivideRounds: the Lamport pass *)
Lemma lamport_f_memo_hit fuel st x t : zget x (lt_memo st) = Some t -> lamport_f fuel st x = (Some t, st).
Proof. intros H. destruct fuel; cbn [lamport_f]; rewrite H; reflexivity. Qed.

Lemma lamport_f_some f st x ex :
  get_event st x = Some ex ->
  (e_sp (ev_e ex) = -1 \/ exists t, zget (e_sp (ev_e ex)) (lt_memo st) = Some t) ->
  (e_op (ev_e ex) = -1 \/ exists t, zget (e_op (ev_e ex)) (lt_memo st) = Some t) ->
  fst (lamport_f (S f) st x) <> None.
Proof.
  intros Hx Hs Ho. cbn [lamport_f]. destruct (zget x (lt_memo st)); [discriminate|]. rewrite Hx.
  assert (E1 : exists plt, (if e_sp (ev_e ex) =? -1 then (Some (-1), st) else lamport_f f st (e_sp (ev_e ex))) = (Some plt, st)).
  { destruct Hs as [->|[t Ht]]; [cbn; eauto|]. destruct (_ =? _); [eauto|].
    rewrite (lamport_f_memo_hit f st _ t Ht). eauto. }
  destruct E1 as [plt ->].
  destruct Ho as [->|[t Ht]]; [cbn; discriminate|].
  destruct (e_op (ev_e ex) =? -1); [discriminate|].
  destruct (get_event st (e_op (ev_e ex))); [|discriminate].
  rewrite (lamport_f_memo_hit f st _ t Ht). discriminate.
Qed.

Lemma divide_lt_failed st x ex :
  get_event st x = Some ex ->
  (e_sp (ev_e ex) = -1 \/ exists t, zget (e_sp (ev_e ex)) (lt_memo st) = Some t) ->
  (e_op (ev_e ex) = -1 \/ exists t, zget (e_op (ev_e ex)) (lt_memo st) = Some t) ->
  failed (divide_lt st x) = failed st.
Proof.
  intros Hx Hs Ho. unfold divide_lt, fuel_of.
  pose proof (lamport_f_some (Z.to_nat (topo st)) st x ex Hx Hs Ho) as Hn.
  pose proof (failed_nomemo _ _ (lamport_f_nomemo (S (Z.to_nat (topo st))) st x)) as Ff.
  destruct (lamport_f (S (Z.to_nat (topo st))) st x) as [[t|] s]; cbn [fst snd] in *; [|contradiction].
  unfold set_event_lt. destruct (get_event s x); [|exact Ff]. rewrite <- Ff. destruct s; reflexivity.
Qed.

(* the event being divided: its parents are other events *)
Definition parents_not_self (st : hg) (n : Z) : Prop :=
  forall ex, get_event st n = Some ex -> e_sp (ev_e ex) <> n /\ e_op (ev_e ex) <> n.

Lemma parents_not_self_frame st st' n : dag_frame st st' -> parents_not_self st n -> parents_not_self st' n.
Proof.
  intros F H ex' Hx'. destruct (proj1 (frame_get_event st st' n F) _ Hx') as [ex [Hx E]]. rewrite <- E. apply H. exact Hx.
Qed.

Lemma stored_frame st st' x : dag_frame st st' -> get_event st x <> None -> get_event st' x <> None.
Proof.
  intros F H. destruct (get_event st x) as [ex|] eqn:E; [|contradiction].
  destruct (proj2 (frame_get_event st st' x F) _ E) as [ex' [E' _]]. rewrite E'. discriminate.
Qed.

Lemma divide_one_nofail g E n s y :
  dag_ok s -> cinv g E s -> failed s = false -> dinv n s -> parents_not_self s n ->
  (E = None \/ E = Some n) -> get_event s y <> None ->
  failed (divide_one s y) = false.
Proof.
  intros OK I Hf D Pn HE Hy. unfold divide_one. rewrite Hf.
  destruct (get_event s y) as [ev|] eqn:Hyy; [|contradiction]. cbv zeta.
  set (st1 := match ev_round ev with Some _ => s | None => divide_round s y end).
  assert (H1 : failed st1 = false /\ dag_frame s st1 /\ dinv n st1).
  { subst st1. destruct (ev_round ev) as [r|] eqn:Er; [split; [exact Hf|split; [apply dag_frame_refl|exact D]]|].
    assert (Ey : E = Some y).
    { destruct E as [x|]; [|destruct (c_all _ _ _ I y ev Hyy ltac:(discriminate)) as [r [w [_ [_ C]]]]; congruence].
      destruct (Z.eq_dec x y) as [->|Hne]; [reflexivity|].
      destruct (c_all _ _ _ I y ev Hyy ltac:(congruence)) as [r [w [_ [_ C]]]]. congruence. }
    subst E. destruct (divide_round_cinv g s y OK I) as [_ F'].
    split; [congruence|]. split; [apply divide_round_frame|].
    eapply dinv_okeep; [apply divide_round_okeep|apply divide_round_failed_mono|exact D]. }
  destruct H1 as [F1 [Fr1 D1]]. rewrite F1.
  pose proof (stored_frame s st1 y Fr1 ltac:(rewrite Hyy; discriminate)) as Hy1.
  destruct (get_event st1 y) as [ev1|] eqn:Hy1'; [|contradiction].
  destruct (ev_lt ev1) eqn:El; [exact F1|].
  assert (y = n) by (apply (d_only _ _ D1 F1 y ev1 Hy1' El)). subst y.
  pose proof (dag_ok_frame s st1 OK Fr1) as OK1.
  pose proof (parents_not_self_frame s st1 n Fr1 Pn ev1 Hy1') as [Pn1 Pn2].
  assert (Hpar : forall p ep, get_event st1 p = Some ep -> p <> n -> exists t, zget p (lt_memo st1) = Some t).
  { intros p ep Hp Hpn. destruct (ev_lt ep) as [t|] eqn:Elp.
    - exists t. apply (l_ev _ (d_l _ _ D1) p ep t Hp Elp).
    - exfalso. apply Hpn. apply (d_only _ _ D1 F1 p ep Hp Elp). }
  rewrite (divide_lt_failed st1 n ev1 Hy1'); [exact F1| |].
  - destruct (d_sp st1 OK1 _ _ Hy1') as [[Hs _]|[ps [Hps _]]]; [left; exact Hs|right]. eapply Hpar; eauto.
  - destruct (d_op st1 OK1 _ _ Hy1') as [Ho|[po Hpo]]; [left; exact Ho|right]. eapply Hpar; eauto.
Qed.

Lemma divide_rounds_nofail g n l : forall s E,
  dag_ok s -> cinv g E s -> failed s = false -> dinv n s -> parents_not_self s n ->
  (E = None \/ E = Some n) -> (forall y, In y l -> get_event s y <> None) ->
  failed (fold_left divide_one l s) = false.
Proof.
  induction l as [|y l IH]; intros s E OK I Hf D Pn HE Hl; cbn [fold_left]; [exact Hf|].
  pose proof (divide_one_nofail g E n s y OK I Hf D Pn HE (Hl y (or_introl eq_refl))) as F1.
  pose proof (divide_one_frame s y) as Fr.
  destruct (divide_one_cinv g E s y OK I Hf) as [C|I1]; [congruence|].
  apply (IH (divide_one s y) (after_div E y)).
  - eapply dag_ok_frame; eauto.
  - exact I1.
  - exact F1.
  - apply divide_one_dinv. exact D.
  - eapply parents_not_self_frame; eauto.
  - destruct HE as [->| ->]; cbn [after_div]; [left; reflexivity|]. destruct (n =? y); auto.
  - intros z Hz. apply (stored_frame s _ z Fr). apply Hl. right. exact Hz.
Qed.

(** * DecideFame *)
Lemma hmeasure_frame s s' h : dag_frame s s' -> hmeasure s h -> hmeasure s' h.
Proof.
  intros F H x ex' p Hx Hn Hp. destruct (proj1 (frame_get_event s s' x F) _ Hx) as [ex [Hx0 E]].
  rewrite <- E in Hp. eapply H; eauto.
Qed.

Lemma good_step g s s' : good g s -> dag_frame s s' -> ckeep s s' -> good g s'.
Proof.
  intros [OK LA I [h Hh]] F K. constructor.
  - eapply dag_ok_frame; eauto.
  - eapply la_ok_frame; eauto.
  - eapply cinv_ckeep; eauto.
  - exists h. eapply hmeasure_frame; eauto.
Qed.

Lemma contig_same s s' : (forall r, get_round s' r = None <-> get_round s r = None) -> last_round s' = last_round s ->
  contig s -> contig s'.
Proof.
  intros Hd Hl C r. rewrite Hl, <- (C r). split; intros H D; apply H; apply Hd; exact D.
Qed.

Lemma contig_set_round s r ri ri' : contig s -> get_round s r = Some ri -> contig (set_round s r ri').
Proof.
  intros C Hg.
  assert (Hr : 0 <= r <= last_round s) by (apply C; rewrite Hg; discriminate).
  apply (contig_same s); [| |exact C].
  - intros r'. rewrite (get_round_zset s (set_round s r ri') r ri' r' ltac:(lia)) by (destruct s; reflexivity).
    destruct (Z.eqb_spec r r') as [<-|]; [rewrite Hg; split; discriminate|reflexivity].
  - unfold set_round. destruct s; cbn in *. lia.
Qed.

Lemma fame_of_defined g s x r : good g s -> contig s -> In x (wits s r) -> fame_of s x r <> None.
Proof.
  intros G C Hx.
  pose proof (proj1 (wits_spec g s G r x) Hx) as [Hr Hw].
  destruct (wits_stored g s G r x Hx) as [ex Hex].
  assert (Hg : get_round s r <> None).
  { intros D. unfold wits, wl in Hx. rewrite D in Hx. destruct Hx. }
  pose proof (proj1 (C r) Hg) as Hrr.
  assert (Hn : 1 <= ps_len g).
  { destruct (witness_true g s G x Hw) as [ex' [r' [spr [_ [_ [_ [_ Hm]]]]]]].
    apply mem_key_In in Hm. apply dedup_In in Hm. unfold ps_len.
    destruct (dedup (keys g)); [destruct Hm|cbn [length]; lia]. }
  pose proof (view_ok_reach g s G C x r ex Hn ltac:(lia) Hex) as V.
  rewrite (fame_of_as_view s x r).
  - destruct (VOTE_T1_votes_are_reference_votes _ _ _ _ _ V) as [E _]. rewrite E. discriminate.
  - intros j Hj. apply In_zrange in Hj. apply (round_witnesses_some g s G C). lia.
Qed.

Lemma fame_fold_some s r ws : (forall x, In x ws -> fame_of s x r <> None) -> forall ri0,
  fold_left (fun (a : option rinfo) x =>
               match a with
               | None => None
               | Some ri' =>
                 if is_decided ri' x then Some ri'
                 else match fame_of s x r with
                      | None => None
                      | Some None => Some ri'
                      | Some (Some v) => Some (set_fame ri' x v)
                      end
               end) ws (Some ri0) <> None.
Proof.
  induction ws as [|x ws IH]; intros H ri0; cbn [fold_left]; [discriminate|].
  assert (Hws : forall y, In y ws -> fame_of s y r <> None) by (intros y Hy; apply H; right; exact Hy).
  destruct (is_decided ri0 x); [apply IH; exact Hws|].
  pose proof (H x (or_introl eq_refl)) as Hx.
  destruct (fame_of s x r) as [[v|]|]; [apply IH; exact Hws|apply IH; exact Hws|contradiction].
Qed.

Lemma failed_set_round s r ri : failed (set_round s r ri) = failed s.
Proof. destruct s; reflexivity. Qed.

Lemma decide_fame_round_nofail g s dec pr :
  good g s -> contig s -> failed s = false -> get_round s (fst pr) <> None ->
  failed (fst (decide_fame_round (s, dec) pr)) = false /\ contig (fst (decide_fame_round (s, dec) pr)).
Proof.
  intros G C Hf Hg. unfold decide_fame_round. rewrite Hf.
  destruct (get_round s (fst pr)) as [ri|] eqn:Hri; [|contradiction].
  rewrite (get_peerset_static g s (fst pr) (c_static _ _ _ (gd_c _ _ G))).
  assert (Hall : forall x, In x (witnesses ri) -> fame_of s x (fst pr) <> None).
  { intros x Hx. apply (fame_of_defined g s x (fst pr) G C). rewrite (wits_get_round s _ ri Hri). exact Hx. }
  pose proof (fame_fold_some s (fst pr) (witnesses ri) Hall ri) as Hs.
  match goal with |- context [fold_left ?f ?l ?a] => destruct (fold_left f l a) as [ri'|] end; [|contradiction].
  destruct (witnesses_decided ri' g) as [d ri'']. cbn [fst].
  split; [rewrite failed_set_round; exact Hf|eapply contig_set_round; eauto].
Qed.

Lemma decide_fame_nofail g st :
  good g st -> contig st -> failed st = false ->
  (forall pr, In pr (pending st) -> get_round st (fst pr) <> None) ->
  failed (decide_fame st) = false.
Proof.
  intros G C Hf Hp. unfold decide_fame.
  assert (H : forall l s dec, good g s -> contig s -> failed s = false ->
              (forall pr, In pr l -> get_round s (fst pr) <> None) ->
              failed (fst (fold_left decide_fame_round l (s, dec))) = false).
  { induction l as [|pr l IH]; intros s dec Gs Cs Fs Hl; cbn [fold_left]; [exact Fs|].
    destruct (decide_fame_round_nofail g s dec pr Gs Cs Fs (Hl pr (or_introl eq_refl))) as [F1 C1].
    pose proof (decide_fame_round_ckeep s dec pr) as K1. pose proof (decide_fame_round_frame s dec pr) as Fr1.
    destruct (decide_fame_round (s, dec) pr) as [s' dec']. cbn [fst] in *.
    apply IH; [eapply good_step; eauto|exact C1|exact F1|].
    intros pr' Hpr' D. apply (Hl pr' (or_intror Hpr')). apply (ck_rd _ _ K1). exact D. }
  specialize (H (pending st) st [] G C Hf Hp).
  destruct (fold_left decide_fame_round (pending st) (st, [])) as [s decided]. cbn [fst] in H.
  rewrite H. destruct s; exact H.
Qed.

(** * DecideRoundReceived *)
Lemma famous_in_keys ri x : In x (famous_witnesses ri) -> In x (map fst (ri_created ri)).
Proof.
  unfold famous_witnesses. intros H. apply in_map_iff in H. destruct H as [en [E H]].
  apply filter_In in H. destruct H as [H _]. subst x. apply in_map. exact H.
Qed.

Lemma sees_fold_some st x fws : (forall w, In w fws -> see st w x <> None) -> forall n,
  fold_left (fun (acc : option Z) w =>
               match acc, see st w x with
               | Some n, Some b => Some (if b then n + 1 else n)
               | _, _ => None
               end) fws (Some n) <> None.
Proof.
  induction fws as [|w l IH]; intros H n; cbn [fold_left]; [discriminate|].
  pose proof (H w (or_introl eq_refl)) as Hw. destruct (see st w x) as [b|]; [|contradiction].
  apply IH. intros w' Hw'. apply H. right. exact Hw'.
Qed.

Lemma see_stored st w x : get_event st w <> None -> get_event st x <> None -> see st w x <> None.
Proof.
  intros Hw Hx. unfold see, ancestor. destruct (w =? x); [discriminate|].
  destruct (get_event st w); [|contradiction]. destruct (get_event st x); [|contradiction]. discriminate.
Qed.

Lemma keys_stored g st i tr w : cinv g None st -> get_round st i = Some tr ->
  In w (map fst (ri_created tr)) -> get_event st w <> None.
Proof.
  intros I Hg Hw.
  assert (Hwl : exists b, In (w, b) (wl st i)).
  { unfold wl. rewrite Hg. unfold wl_of. apply in_map_iff in Hw. destruct Hw as [[w' [b f]] [E Hw]]. cbn in E. subst w'.
    exists b. apply in_map_iff. exists (w, (b, f)). auto. }
  destruct Hwl as [b Hb]. destruct (c_tab _ _ _ I i w b Hb) as [Hr _].
  destruct (c_rdom _ _ _ I w i Hr) as [_ [ew [Hew _]]]. rewrite Hew. discriminate.
Qed.

Lemma failed_set_evst s x e : failed (set_evst s x e) = failed s.
Proof. destruct s; reflexivity. Qed.

Lemma rr_loop_nofail g x : forall is_ st,
  cinv g None st -> failed st = false -> get_event st x <> None ->
  failed (fst (rr_loop st x is_)) = false.
Proof.
  induction is_ as [|i rest IH]; intros st I Hf Hx; cbn [rr_loop]; [exact Hf|].
  destruct (get_round st i) as [tr|] eqn:Hg;
    [|destruct (lower_bound st) as [lb0|]; [destruct (i <=? lb0); [apply IH; assumption|exact Hf]|exact Hf]].
  rewrite (get_peerset_static g st i (c_static _ _ _ I)).
  pose proof (wl_of_witnesses_decided tr g) as Hd.
  destruct (witnesses_decided tr g) as [d tr']. cbn [snd] in Hd.
  set (st1 := st <| rounds := zset i tr' (rounds st) |>).
  assert (K1 : ckeep st st1) by (apply (ckeep_set_rounds st i tr tr' Hg Hd)).
  assert (I1 : cinv g None st1) by (eapply cinv_ckeep; eauto).
  assert (F1 : failed st1 = false) by (unfold st1; destruct st; exact Hf).
  assert (E1 : forall y, get_event st1 y = get_event st y) by (intros y; unfold st1; destruct st; reflexivity).
  assert (Hx1 : get_event st1 x <> None) by (rewrite E1; exact Hx).
  destruct d; cbn [negb].
  - assert (Hsees : forall w, In w (famous_witnesses tr') -> see st1 w x <> None).
    { intros w Hw. apply see_stored; [|exact Hx1]. rewrite E1.
      apply (keys_stored g st i tr w I Hg). rewrite <- (wl_of_keys _ _ Hd). apply famous_in_keys. exact Hw. }
    pose proof (sees_fold_some st1 x (famous_witnesses tr') Hsees 0) as Hs.
    match goal with |- context [fold_left ?f ?l ?a] => destruct (fold_left f l a) as [sees|] end; [|contradiction].
    destruct (_ && _).
    + destruct (get_event st1 x) as [ex|]; [|contradiction]. cbn [fst].
      rewrite failed_set_round, failed_set_evst. exact F1.
    + apply IH; assumption.
  - destruct (lower_bound st1) as [lb|]; [|exact F1].
    destruct (lb <? i); [exact F1|]. apply IH; assumption.
Qed.

Lemma decide_rr_one_nofail g s und x :
  cinv g None s -> failed s = false -> get_event s x <> None ->
  failed (fst (decide_rr_one (s, und) x)) = false.
Proof.
  intros I Hf Hx. unfold decide_rr_one. rewrite Hf.
  destruct (get_event s x) as [ex|] eqn:Hex; [|contradiction].
  destruct (c_all _ _ _ I x ex Hex ltac:(discriminate)) as [r [w [Hr _]]].
  unfold fuel_of. rewrite (round_f_memo_hit _ s x r Hr).
  pose proof (rr_loop_nofail g x (zrange (r + 1) (last_round s)) s I Hf ltac:(rewrite Hex; discriminate)) as H.
  destruct (rr_loop s x (zrange (r + 1) (last_round s))) as [s' received]. exact H.
Qed.

Lemma decide_round_received_nofail g st :
  cinv g None st -> failed st = false -> (forall x, In x (undetermined st) -> get_event st x <> None) ->
  failed (decide_round_received st) = false.
Proof.
  intros I Hf Hu. unfold decide_round_received.
  assert (G : forall l s und, ckeep st s -> failed s = false -> (forall x, In x l -> get_event st x <> None) ->
              failed (fst (fold_left decide_rr_one l (s, und))) = false).
  { induction l as [|x l IH]; intros s und K Fs Hl; cbn [fold_left]; [exact Fs|].
    assert (Is : cinv g None s) by (eapply cinv_ckeep; eauto).
    assert (Hxs : get_event s x <> None).
    { pose proof (Hl x (or_introl eq_refl)) as H0. destruct (get_event st x) as [ex|] eqn:E; [|contradiction].
      destruct (ckeep_fwd _ _ _ _ K E) as [ex' [E' _]]. rewrite E'. discriminate. }
    pose proof (decide_rr_one_nofail g s und x Is Fs Hxs) as F1.
    pose proof (decide_rr_one_ckeep g s und x Is) as K1.
    destruct (decide_rr_one (s, und) x) as [s' und']. cbn [fst] in *.
    apply IH; [eapply ckeep_trans; eauto|exact F1|intros y Hy; apply Hl; right; exact Hy]. }
  specialize (G (undetermined st) st [] (ckeep_refl st) Hf Hu).
  destruct (fold_left decide_rr_one (undetermined st) (st, [])) as [s und]. cbn [fst] in G.
  rewrite G. destruct s; exact G.
Qed.

(** * ProcessDecidedRounds: GetFrame never fails *)
Record fready (g : peerset) (st : hg) : Prop := {
  fr_dag : dag_ok st;
  fr_c : cinv g None st;
  fr_lt : forall x ex, get_event st x = Some ex -> zget x (lt_memo st) <> None;
  fr_rcv : forall r x, In x (rcv st r) -> get_event st x <> None;
  fr_lce : forall c h, aget c (last_cons_ev st) = Some h -> get_event st h <> None
}.

Lemma create_frame_event_some g st x : fready g st -> get_event st x <> None -> create_frame_event st x <> None.
Proof.
  intros [OK I Hlt _ _] Hx. unfold create_frame_event.
  destruct (get_event st x) as [ev|] eqn:Hev; [|contradiction].
  destruct (c_all _ _ _ I x ev Hev ltac:(discriminate)) as [r [w [Hr [Hw _]]]].
  unfold rmemo in Hr. rewrite Hr.
  pose proof (c_tabc _ _ _ I x r w Hr Hw) as Hin. unfold wl in Hin.
  destruct (get_round st r) as [ri|]; [|destruct Hin].
  assert (Hk : aget x (ri_created ri) <> None).
  { apply aget_in_keys. unfold wl_of in Hin. apply in_map_iff in Hin. destruct Hin as [[x' wf] [E Hin]].
    cbn in E. inversion E; subst. apply (in_map fst) in Hin. exact Hin. }
  destruct (aget x (ri_created ri)) as [[w' t]|]; [|contradiction].
  pose proof (Hlt x ev Hev) as Hl. destruct (zget x (lt_memo st)); [discriminate|contradiction].
Qed.

Lemma participant_event_stored st c i x : dag_ok st -> participant_event st c i = Some x -> get_event st x <> None.
Proof.
  intros OK. unfold participant_event. destruct (zget c (pevents st)) as [p|] eqn:Hp; [|discriminate].
  unfold pidx_get_item. destruct (_ <? _); [discriminate|]. destruct (_ <=? _); [discriminate|].
  intros Hn. destruct (d_chain st OK _ _ Hp) as [_ Hch]. destruct (Hch _ _ Hn) as [es [Hes _]]. rewrite Hes. discriminate.
Qed.

Lemma root_below_some g st c : fready g st -> forall n index, root_below st c index n <> None.
Proof.
  intros Fr. induction n as [|n IH]; intros index; cbn [root_below]; [discriminate|].
  destruct (index - 1 <? 0); [discriminate|].
  destruct (participant_event st c (index - 1)) as [peh|] eqn:Hp; [|discriminate].
  pose proof (create_frame_event_some g st peh Fr (participant_event_stored st c _ peh (fr_dag _ _ Fr) Hp)) as H1.
  destruct (create_frame_event st peh); [|contradiction].
  specialize (IH (index - 1)). destruct (root_below st c (index - 1) n); [discriminate|contradiction].
Qed.

Lemma create_root_some g st c head : fready g st -> (head = -1 \/ get_event st head <> None) -> create_root st c head <> None.
Proof.
  intros Fr Hh. unfold create_root. destruct (Z.eqb_spec head (-1)); [discriminate|].
  destruct Hh as [?|Hh]; [contradiction|].
  pose proof (create_frame_event_some g st head Fr Hh) as H1.
  destruct (create_frame_event st head); [|contradiction].
  destruct (get_event st head) as [he|]; [|contradiction].
  pose proof (root_below_some g st c Fr ROOT_DEPTH (e_index (ev_e he))) as H2.
  destruct (root_below st c (e_index (ev_e he)) ROOT_DEPTH); [discriminate|contradiction].
Qed.

Lemma cfe_fold_some st xs : (forall x, In x xs -> create_frame_event st x <> None) -> forall acc,
  fold_left (fun (acc : option (list frameev)) x =>
     match acc, create_frame_event st x with
     | Some l, Some fe => Some (l ++ [fe])
     | _, _ => None
     end) xs (Some acc) <> None.
Proof.
  induction xs as [|x xs IH]; intros H acc; cbn [fold_left]; [discriminate|].
  pose proof (H x (or_introl eq_refl)) as Hx. destruct (create_frame_event st x); [|contradiction].
  apply IH. intros y Hy. apply H. right. exact Hy.
Qed.

Lemma sp_of_head st x : dag_ok st -> sp_of st x = -1 \/ get_event st (sp_of st x) <> None.
Proof.
  intros OK. unfold sp_of. destruct (get_event st x) as [e|] eqn:E; [|left; reflexivity].
  destruct (d_sp st OK _ _ E) as [[Hs _]|[ps [Hps _]]]; [left; exact Hs|right; rewrite Hps; discriminate].
Qed.

Lemma get_frame_some g st rr : fready g st -> get_round st rr <> None -> fst (get_frame st rr) <> None.
Proof.
  intros Fr Hg. unfold get_frame.
  destruct (zget rr (frames st)); [discriminate|].
  destruct (get_round st rr) as [ri|] eqn:Hri; [|contradiction].
  rewrite (get_peerset_static g st rr (c_static _ _ _ (fr_c _ _ Fr))).
  assert (Hev : forall x, In x (ri_received ri) -> create_frame_event st x <> None).
  { intros x Hx. apply (create_frame_event_some g st x Fr). apply (fr_rcv _ _ Fr rr). unfold rcv. rewrite Hri. exact Hx. }
  pose proof (cfe_fold_some st (ri_received ri) Hev []) as He.
  match goal with |- context [fold_left ?f (ri_received ri) ?a] => destruct (fold_left f (ri_received ri) a) as [evs|] end;
    [|contradiction].
  (* roots of the frame events *)
  set (sorted := fe_sort st evs).
  assert (H1 : forall l roots, fold_left (fun (acc : option (list (Z * list frameev))) fe =>
                        match acc with
                        | None => None
                        | Some roots =>
                          let p := creator_of st (fe_id fe) in
                          match aget p roots with
                          | Some _ => Some roots
                          | None => match create_root st p (sp_of st (fe_id fe)) with
                                    | Some r => Some (roots_insert p r roots)
                                    | None => None
                                    end
                          end
                        end) l (Some roots) <> None).
  { induction l as [|fe l IH]; intros roots; cbn [fold_left]; [discriminate|]. cbv zeta.
    destruct (aget (creator_of st (fe_id fe)) roots); [apply IH|].
    pose proof (create_root_some g st (creator_of st (fe_id fe)) (sp_of st (fe_id fe)) Fr (sp_of_head st _ (fr_dag _ _ Fr))) as Hc.
    destruct (create_root st (creator_of st (fe_id fe)) (sp_of st (fe_id fe))); [apply IH|contradiction]. }
  specialize (H1 sorted []).
  match goal with |- context [fold_left ?f sorted ?a] => destruct (fold_left f sorted a) as [roots1|] end; [|contradiction].
  assert (H2 : forall (l : list peer) roots, fold_left (fun (acc : option (list (Z * list frameev))) (p : peer) =>
                        match acc with
                        | None => None
                        | Some roots =>
                          match aget (pid p) (first_rounds st) with
                          | None => Some roots
                          | Some fr =>
                            if rr <? fr then Some roots
                            else match aget (pkey p) roots with
                                 | Some _ => Some roots
                                 | None =>
                                   let h := match aget (pkey p) (last_cons_ev st) with Some h => h | None => -1 end in
                                   match create_root st (pkey p) h with
                                   | Some r => Some (roots_insert (pkey p) r roots)
                                   | None => None
                                   end
                                 end
                          end
                        end) l (Some roots) <> None).
  { induction l as [|p l IH]; intros roots; cbn [fold_left]; [discriminate|].
    destruct (aget (pid p) (first_rounds st)); [|apply IH].
    destruct (rr <? z); [apply IH|].
    destruct (aget (pkey p) roots); [apply IH|]. cbv zeta.
    assert (Hh : (match aget (pkey p) (last_cons_ev st) with Some h => h | None => -1 end) = -1 \/
                 get_event st (match aget (pkey p) (last_cons_ev st) with Some h => h | None => -1 end) <> None).
    { destruct (aget (pkey p) (last_cons_ev st)) as [h|] eqn:E; [right; apply (fr_lce _ _ Fr _ _ E)|left; reflexivity]. }
    pose proof (create_root_some g st (pkey p) _ Fr Hh) as Hc.
    destruct (create_root st (pkey p) _); [apply IH|contradiction]. }
  specialize (H2 (repertoire st) roots1).
  match goal with |- context [fold_left ?f (repertoire st) ?a] => destruct (fold_left f (repertoire st) a) end;
    [discriminate|contradiction].
Qed.

(** * ProcessDecidedRounds: the fold *)
Definition lcv (st : hg) := (failed st, last_cons_ev st, lt_memo st).

Lemma lcv_store_set_block st b : lcv (store_set_block st b) = lcv st.
Proof. destruct st; reflexivity. Qed.
Lemma lcv_deliver st b : lcv (deliver st b) = lcv st.
Proof. destruct st; reflexivity. Qed.
Lemma lcv_set_anchor_block st b : lcv (set_anchor_block st b) = lcv st.
Proof.
  unfold set_anchor_block. destruct (get_peerset st (b_rr b)); [|reflexivity].
  destruct (_ && _); [destruct st|]; reflexivity.
Qed.
Lemma lcv_set_peerset st r ps st' : set_peerset st r ps = Some st' -> lcv st' = lcv st.
Proof.
  unfold set_peerset. destruct (existsb _ _); [discriminate|]. intros H; inversion H; subst; clear H.
  set (st1 := st <| peersets := _ |>).
  assert (E1 : lcv st1 = lcv st) by (destruct st; reflexivity). rewrite <- E1. generalize st1. clear.
  induction ps as [|p l IH]; intros s; cbn [fold_left]; [reflexivity|]. rewrite IH.
  cbv zeta. destruct (zmem _ _); destruct s; reflexivity.
Qed.
Lemma lcv_process_receipts st rr itxs : lcv (process_receipts st rr itxs) = lcv st.
Proof.
  unfold process_receipts.
  match goal with |- context [fold_left ?f ?l ?a] => destruct (fold_left f l a) as [vals changed] end.
  destruct changed; [|reflexivity].
  destruct (set_peerset st (rr + 6) vals) eqn:E; [|reflexivity].
  rewrite <- (lcv_set_peerset _ _ _ _ E). destruct h; reflexivity.
Qed.
Lemma lcv_sign_block st b bps : lcv (snd (sign_block st b bps)) = lcv st.
Proof. unfold sign_block. destruct (mem_key _ _); cbn [snd]; [destruct st|]; reflexivity. Qed.
Lemma lcv_commit st b : lcv (commit st b) = lcv st.
Proof.
  unfold commit. destruct (self st =? -1); [apply lcv_deliver|]. cbv zeta.
  set (st0 := st <| oracle := _ |>).
  assert (F0 : lcv st0 = lcv st) by (destruct st; reflexivity).
  match goal with |- context [store_set_block st0 ?b1] => set (bb := b1) end.
  pose proof (lcv_store_set_block st0 bb) as F1.
  destruct (get_peerset (store_set_block st0 bb) (b_rr bb)) as [bps|].
  - pose proof (lcv_sign_block (store_set_block st0 bb) bb bps) as F2.
    destruct (sign_block (store_set_block st0 bb) bb bps) as [b2 st2]. cbn [fst snd] in *.
    rewrite lcv_deliver, lcv_process_receipts, lcv_set_anchor_block. congruence.
  - rewrite lcv_deliver. congruence.
Qed.

Lemma lcv_fields s s' : lcv s' = lcv s -> failed s' = failed s /\ last_cons_ev s' = last_cons_ev s /\ lt_memo s' = lt_memo s.
Proof. unfold lcv. intros H. inversion H. auto. Qed.

Lemma add_consensus_events_lce l : forall s,
  failed (fold_left add_consensus_event l s) = failed s /\
  lt_memo (fold_left add_consensus_event l s) = lt_memo s /\
  forall c h, aget c (last_cons_ev (fold_left add_consensus_event l s)) = Some h ->
              aget c (last_cons_ev s) = Some h \/ In h (map fe_id l).
Proof.
  induction l as [|fe l IH]; intros s; cbn [fold_left map]; [auto|].
  destruct (IH (add_consensus_event s fe)) as [A [B C]].
  split; [rewrite A; destruct s; reflexivity|]. split; [rewrite B; destruct s; reflexivity|].
  intros c h Hh. destruct (C c h Hh) as [H|H]; [|right; right; exact H].
  assert (E : last_cons_ev (add_consensus_event s fe) = aset (creator_of s (fe_id fe)) (fe_id fe) (last_cons_ev s))
    by (destruct s; reflexivity).
  rewrite E, Ancestry.aget_aset in H. destruct (_ =? _); [inversion H; right; left; reflexivity|left; exact H].
Qed.

Lemma process_frame_lce s f :
  failed (process_frame s f) = failed s /\ lt_memo (process_frame s f) = lt_memo s /\
  forall c h, aget c (last_cons_ev (process_frame s f)) = Some h ->
              aget c (last_cons_ev s) = Some h \/ In h (map fe_id (f_events f)).
Proof.
  unfold process_frame. destruct (f_events f) as [|fe rest] eqn:E; [auto|].
  cbv zeta. set (s1 := fold_left add_consensus_event (fe :: rest) s).
  destruct (add_consensus_events_lce (fe :: rest) s) as [A [B C]]. fold s1 in A, B, C.
  set (b := block_of_frame _ _ _).
  assert (K : forall s2, lcv s2 = lcv s1 ->
            failed s2 = failed s /\ lt_memo s2 = lt_memo s /\
            forall c h, aget c (last_cons_ev s2) = Some h -> aget c (last_cons_ev s) = Some h \/ In h (map fe_id (fe :: rest))).
  { intros s2 H. destruct (lcv_fields _ _ H) as [H1 [H2 H3]]. rewrite H1, H2, H3. auto. }
  destruct (b_txs b), (b_itxs b); try (apply K; reflexivity);
    (apply K; rewrite lcv_commit, lcv_store_set_block; reflexivity).
Qed.

Lemma lcv_get_frame st rr : lcv (snd (get_frame st rr)) = lcv st.
Proof.
  unfold get_frame.
  destruct (zget rr (frames st)); [reflexivity|].
  destruct (get_round st rr); [|reflexivity].
  destruct (get_peerset st rr); [|reflexivity].
  match goal with |- context [fold_left ?f ?l ?a] => destruct (fold_left f l a) end; [|reflexivity].
  match goal with |- context [fold_left ?f (repertoire st) ?a] => destruct (fold_left f (repertoire st) a) end;
    [|reflexivity].
  cbn [snd]. destruct st; reflexivity.
Qed.
Lemma lcv_bump s r : lcv (bump_last_consensus s r) = lcv s.
Proof.
  unfold bump_last_consensus. destruct (last_consensus s) as [l|]; [destruct (l <? r)|];
    try reflexivity; destruct s; reflexivity.
Qed.

Lemma get_frame_cached st rr f s1 : get_frame st rr = (Some f, s1) -> zget rr (frames s1) = Some f.
Proof.
  intros H. destruct (get_frame_cases st rr) as [[E _]|[E|[f' [ri [evs [E [Hz [Hri _]]]]]]]]; rewrite E in H.
  - inversion H; subst. congruence.
  - discriminate.
  - inversion H; subst f' s1. pose proof (get_round_some_nonneg _ _ _ Hri) as H0.
    replace (frames (st <| frames := zset rr f (frames st) |>)) with (zset rr f (frames st)) by (destruct st; reflexivity).
    apply zget_zset_same. exact H0.
Qed.

Record pdinv (g : peerset) (all : list event) (s : hg) : Prop := {
  pd_fr : fready g s;
  pd_f : finv s;
  pd_nd : forall r, NoDup (rcv s r);
  pd_fa : from_attempts s all
}.

Lemma fready_transport g s s' :
  fready g s -> dag_frame s s' -> cw s' = cw s -> peersets s' = peersets s -> lt_memo s' = lt_memo s ->
  (forall c h, aget c (last_cons_ev s') = Some h -> get_event s h <> None) ->
  fready g s'.
Proof.
  intros [OK I Hlt Hr Hl] F C P L Hl'.
  destruct (cw_fields _ _ C) as [Ev [Ro _]].
  assert (GE : forall x, get_event s' x = get_event s x) by (intros x; unfold get_event; rewrite Ev; reflexivity).
  constructor.
  - eapply dag_ok_frame; eauto.
  - eapply cinv_ckeep; [exact I|apply ckeep_cw; assumption].
  - intros x ex. rewrite GE, L. apply Hlt.
  - intros r x. unfold rcv, get_round. rewrite Ro, GE. apply Hr.
  - intros c h Hh. rewrite GE. apply (Hl' c h Hh).
Qed.

Lemma process_round_nofail g all s processed stop pr :
  no_accept all -> pdinv g all s -> failed s = false -> get_round s (fst pr) <> None ->
  failed (fst (fst (process_round (s, processed, stop) pr))) = false /\
  pdinv g all (fst (fst (process_round (s, processed, stop) pr))).
Proof.
  intros NA PD Hf Hg.
  destruct (process_round_finv s processed stop pr (pd_f _ _ _ PD) (pd_nd _ _ _ PD)) as [F' K'].
  pose proof (process_round_frame s processed stop pr) as Fr'.
  pose proof (cw_process_round s processed stop pr) as C'.
  pose proof (process_round_peersets all s processed stop pr (pd_fa _ _ _ PD) NA) as P'.
  assert (Core : failed (fst (fst (process_round (s, processed, stop) pr))) = false /\
                 lt_memo (fst (fst (process_round (s, processed, stop) pr))) = lt_memo s /\
                 forall c h, aget c (last_cons_ev (fst (fst (process_round (s, processed, stop) pr)))) = Some h ->
                             get_event s h <> None).
  { unfold process_round. rewrite Hf, orb_false_r.
    destruct stop; [cbn [fst]; split; [exact Hf|split; [reflexivity|apply (fr_lce _ _ (pd_fr _ _ _ PD))]]|].
    destruct (negb (snd pr)); [cbn [fst]; split; [exact Hf|split; [reflexivity|apply (fr_lce _ _ (pd_fr _ _ _ PD))]]|].
    destruct (get_round s (fst pr)) as [ri|] eqn:Hri; [|contradiction].
    pose proof (get_frame_some g s (fst pr) (pd_fr _ _ _ PD) ltac:(rewrite Hri; discriminate)) as Hsome.
    destruct (get_frame_finv s (fst pr) (pd_f _ _ _ PD) (pd_nd _ _ _ PD)) as [F1 K1].
    pose proof (lcv_get_frame s (fst pr)) as L1.
    pose proof (get_frame_cached s (fst pr)) as Spec.
    destruct (get_frame s (fst pr)) as [[f|] s1]; cbn [fst snd] in *; [|contradiction].
    destruct (lcv_fields _ _ L1) as [Lf [Ll Lt]].
    destruct (process_frame_lce s1 f) as [A [B C]].
    destruct (lcv_fields _ _ (lcv_bump (process_frame s1 f) (fst pr))) as [Bf [Bl Bt]].
    split; [congruence|]. split; [congruence|].
    intros c h. rewrite Bl. intros Hh.
    destruct K1 as [_ [Ev1 _]].
    destruct (C c h Hh) as [H|H].
    - rewrite Ll in H. apply (fr_lce _ _ (pd_fr _ _ _ PD) c h H).
    - (* an event of the frame: stored *)
      apply in_map_iff in H. destruct H as [fe [E Hfe]]. subst h.
      pose proof (Spec f s1 eq_refl) as Hz.
      destruct (F1 (fst pr) f Hz) as [_ [_ [_ [_ [Hst _]]]]].
      destruct (Hst fe Hfe) as [ex Hex]. unfold get_event in *. rewrite Ev1 in Hex. rewrite Hex. discriminate. }
  destruct Core as [Ff [Lt Lce]].
  split; [exact Ff|].
  constructor.
  - apply (fready_transport g s); auto. apply (pd_fr _ _ _ PD).
  - exact F'.
  - apply (nodup_nf _ _ K'). apply (pd_nd _ _ _ PD).
  - eapply from_attempts_frame; [apply (pd_fa _ _ _ PD)|exact Fr'].
Qed.

(** * Assembly *)
Lemma insert_post all st e s :
  ids_determine all -> In e all -> 0 <= e_id e -> ginv all st -> insert_event st e = (InsOk, s) ->
  gcore all s /\ finv s /\ dlv s /\ dinv (e_id e) s /\ In (e_id e) (undetermined s) /\ parents_not_self s (e_id e).
Proof.
  intros ID Hin Hid [C A F Dl] E.
  destruct (insert_event_inv st e all InsOk s (g_dag _ _ C) (g_from _ _ C) ID Hin Hid E) as [OK' [FA' Hns]].
  destruct (insert_ok_checks st e s E) as [_ [Hsp _]].
  pose proof (checked_fresh st e all (g_dag _ _ C) (g_from _ _ C) ID Hin Hsp) as Hfresh.
  destruct (insert_ok_shape st e s Hfresh Hid E) as [L [G [R [U Fm]]]].
  pose proof (insert_event_failed st e) as Ff. rewrite E in Ff. cbn [snd] in Ff.
  set (n := e_id e) in *.
  assert (Hold : forall x es, get_event st x = Some es ->
                   x <> n /\ exists es', get_event s x = Some es' /\ ev_b es' = ev_b es).
  { intros x es Hx. assert (Hne : x <> n) by (intros ->; congruence). split; [exact Hne|].
    pose proof (G x) as Gx. rewrite Hx in Gx. replace (x =? n) with false in Gx by lia.
    destruct (get_event s x) as [es'|]; [|discriminate]. cbn [option_map] in Gx. assert (Hb : ev_b es' = ev_b es) by congruence. eauto. }
  assert (Hnew : forall x es', get_event s x = Some es' ->
                   (x = n /\ ev_b es' = (e, None, None)) \/
                   (x <> n /\ exists es, get_event st x = Some es /\ ev_b es' = ev_b es)).
  { intros x es' Hx. pose proof (G x) as Gx. rewrite Hx in Gx. destruct (Z.eqb_spec x n) as [->|Hne].
    - left. cbn [option_map] in Gx. assert (Hb : ev_b es' = (e, None, None)) by congruence. auto.
    - right. split; [exact Hne|]. destruct (get_event st x) as [es|]; [|discriminate]. cbn [option_map] in Gx. assert (Hb : ev_b es' = ev_b es) by congruence. eauto. }
  assert (Hn : exists en, get_event s n = Some en /\ ev_b en = (e, None, None)).
  { pose proof (G n) as Gn. rewrite Z.eqb_refl in Gn. destruct (get_event s n) as [en|]; [|discriminate].
    cbn [option_map] in Gn. assert (Hb : ev_b en = (e, None, None)) by congruence. eauto. }
  destruct (g_l _ _ C) as [LM LE LP]. destruct (g_o _ _ C) as [O1 O2 O3 O4 O5 O6].
  (* timestamps *)
  assert (Ls : linv s).
  { constructor.
    - intros x t. unfold parent_lt. rewrite L. intros Hx. destruct (LM x t Hx) as [ex [a [b [Hex R0]]]].
      destruct (Hold x ex Hex) as [_ [ex' [Hex' Eb]]]. exists ex', a, b.
      unfold ev_b in Eb. inversion Eb as [[Ee El Er]]. rewrite Ee. auto.
    - intros x ex' t Hx Ht. rewrite L. destruct (Hnew x ex' Hx) as [[_ Eb]|[_ [ex [Hex Eb]]]];
        unfold ev_b in Eb; inversion Eb as [[Ee El Er]]; [congruence|]. eapply LE; eauto. congruence.
    - intros x ex' t p Hx Ht Hp Hpn. destruct (Hnew x ex' Hx) as [[_ Eb]|[_ [ex [Hex Eb]]]];
        unfold ev_b in Eb; inversion Eb as [[Ee El Er]]; [congruence|].
      rewrite Ee in Hp. destruct (LP x ex t p Hex ltac:(congruence) Hp Hpn) as [ep [tp [Hep Htp]]].
      destruct (Hold p ep Hep) as [_ [ep' [Hep' Eb']]]. unfold ev_b in Eb'. inversion Eb' as [[Ee' El' Er']].
      exists ep', tp. split; [auto|congruence]. }
  assert (Ds : dinv n s).
  { constructor; [exact Ls|intros x ex Hx; apply (d_op s OK' x ex Hx)|].
    intros Hf y ey Hy Hl. destruct (Hnew y ey Hy) as [[-> _]|[_ [ex [Hex Eb]]]]; [reflexivity|exfalso].
    unfold ev_b in Eb. inversion Eb as [[Ee El Er]]. rewrite Ff in Hf. apply (A Hf y ex Hex). congruence. }
  (* round-received *)
  assert (Os : oinv s).
  { constructor.
    - intros x. rewrite U. intros Hx. apply in_app_or in Hx. destruct Hx as [Hx|[<-|[]]].
      + destruct (O1 x Hx) as [ex Hex]. destruct (Hold x ex Hex) as [_ [ex' [Hex' _]]]. eauto.
      + destruct Hn as [en [Hen _]]. eauto.
    - rewrite U.
      assert (P : Permutation (n :: undetermined st) (undetermined st ++ [n])) by apply Permutation_cons_append.
      eapply Permutation_NoDup; [exact P|]. constructor; [|exact O2].
      intros Hx. destruct (O1 n Hx) as [ex Hex]. congruence.
    - intros Hf x ex'. rewrite U. intros Hx Hex'. rewrite Ff in Hf.
      destruct (Hnew x ex' Hex') as [[_ Eb]|[_ [ex [Hex Eb]]]]; unfold ev_b in Eb; inversion Eb as [[Ee El Er]]; [reflexivity|].
      rewrite Er. apply in_app_or in Hx. destruct Hx as [Hx|[<-|[]]]; [eapply O3; eauto|congruence].
    - intros r x. rewrite R. intros Hx. destruct (O4 r x Hx) as [ex [Hex Hr]].
      destruct (Hold x ex Hex) as [_ [ex' [Hex' Eb]]]. unfold ev_b in Eb. inversion Eb as [[Ee El Er]].
      exists ex'. split; [auto|congruence].
    - intros r. rewrite R. apply O5.
    - intros x ex' r Hex' Hr. rewrite R. destruct (Hnew x ex' Hex') as [[_ Eb]|[_ [ex [Hex Eb]]]];
        unfold ev_b in Eb; inversion Eb as [[Ee El Er]]; [congruence|]. eapply O6; eauto. congruence. }
  assert (Ms : rmono st s).
  { constructor.
    - intros x ex r Hex Hr. destruct (Hold x ex Hex) as [_ [ex' [Hex' Eb]]]. unfold ev_b in Eb. inversion Eb as [[Ee El Er]].
      exists ex'. split; [auto|congruence].
    - intros r. rewrite R. apply incl_refl.
    - intros y t. rewrite L. auto.
    - intros x ex Hex. destruct (Hold x ex Hex) as [_ [ex' [Hex' Eb]]]. unfold ev_b in Eb. inversion Eb as [[Ee El Er]]. eauto. }
  assert (Fs : finv s) by (eapply finv_rmono; eauto).
  assert (Cs : gcore all s) by (constructor; assumption).
  assert (Hund : In n (undetermined s)) by (rewrite U; apply in_or_app; right; left; reflexivity).
  assert (Dls : dlv s).
  { eapply dlv_pass; [exact Dl|exact F|apply (g_o _ _ C)| |apply fext_eq; exact Fm|apply (m_e _ _ Ms)].
    pose proof (delivered_bview _ _ (insert_event_bview st e)) as Db. rewrite E in Db. exact Db. }
  split; [exact Cs|split; [exact Fs|split; [exact Dls|split; [exact Ds|split; [exact Hund|]]]]].
  intros ex Hex. destruct Hn as [en [Hen Ebn]]. rewrite Hen in Hex. inversion Hex; subst ex.
  unfold ev_b in Ebn. inversion Ebn as [[Ee El Er]].
  destruct (insert_ok_checks st e s E) as [_ [Hsp' Hop']].
  assert (Hp : forall p, (e_sp e = p \/ e_op e = p) -> p <> n).
  { intros p Hp Epn. destruct (Z.eq_dec p (-1)) as [->|Hpn]; [subst n; lia|].
    destruct (Ancestry.checked_parent_stored st e Hsp' Hop' p Hpn Hp) as [ep Hep]. subst p. congruence. }
  rewrite Ee. split; apply Hp; [left|right]; reflexivity.
Qed.

Definition lce_ok (st : hg) : Prop := forall c h, aget c (last_cons_ev st) = Some h -> get_event st h <> None.

Lemma process_decided_rounds_nofail g all st :
  no_accept all -> pdinv g all st -> failed st = false ->
  (forall pr, In pr (pending st) -> get_round st (fst pr) <> None) ->
  failed (process_decided_rounds st) = false /\ lce_ok (process_decided_rounds st).
Proof.
  intros NA PD Hf Hp. unfold process_decided_rounds.
  assert (G : forall l s p b, pdinv g all s -> failed s = false ->
              (forall pr, In pr l -> get_round s (fst pr) <> None) ->
              failed (fst (fst (fold_left process_round l (s, p, b)))) = false /\
              pdinv g all (fst (fst (fold_left process_round l (s, p, b))))).
  { induction l as [|pr l IH]; intros s p b PDs Fs Hl; cbn [fold_left]; [auto|].
    destruct (process_round_nofail g all s p b pr NA PDs Fs (Hl pr (or_introl eq_refl))) as [F1 PD1].
    pose proof (cw_process_round s p b pr) as C1.
    destruct (process_round (s, p, b) pr) as [[s1 p1] b1]. cbn [fst] in *.
    apply IH; [exact PD1|exact F1|].
    intros pr' Hpr'. destruct (cw_fields _ _ C1) as [_ [Ro _]]. unfold get_round. rewrite Ro.
    apply (Hl pr' (or_intror Hpr')). }
  destruct (G (pending st) st [] false PD Hf Hp) as [F1 PD1].
  destruct (fold_left process_round (pending st) (st, [], false)) as [[s processed] stop]. cbn [fst] in *.
  split; [destruct s; exact F1|].
  intros c h. replace (last_cons_ev (s <| pending := _ |>)) with (last_cons_ev s) by (destruct s; reflexivity).
  intros Hh. pose proof (fr_lce _ _ (pd_fr _ _ _ PD1) c h Hh) as H. unfold get_event in *. destruct s; exact H.
Qed.

(* the state right after a successful InsertEvent of event n *)
Record post_ins (g : peerset) (all : list event) (n : Z) (s : hg) : Prop := {
  pi_c : gcore all s; pi_f : finv s; pi_d : dinv n s; pi_u : In n (undetermined s);
  pi_p : parents_not_self s n; pi_i : cinv g (Some n) s; pi_la : la_ok s; pi_r : rinv s;
  pi_nf : failed s = false; pi_l : lce_ok s
}.

(* what holds at the successive stages of the consensus run that follows *)
Record stages (g : peerset) (all : list event) (s : hg) : Prop := {
  sg_f1 : failed (divide_rounds s) = false;
  sg_r1 : rinv (divide_rounds s);
  sg_i1 : cinv g None (divide_rounds s);
  sg_g1 : good g (divide_rounds s);
  sg_f2 : failed (decide_fame (divide_rounds s)) = false;
  sg_r2 : rinv (decide_fame (divide_rounds s));
  sg_i2 : cinv g None (decide_fame (divide_rounds s));
  sg_f3 : failed (decide_round_received (decide_fame (divide_rounds s))) = false;
  sg_i3 : cinv g None (decide_round_received (decide_fame (divide_rounds s)));
  sg_fa3 : from_attempts (decide_round_received (decide_fame (divide_rounds s))) all;
  sg_r3 : rinv (decide_round_received (decide_fame (divide_rounds s)));
  sg_c3 : gcore all (decide_round_received (decide_fame (divide_rounds s)));
  sg_pd3 : pdinv g all (decide_round_received (decide_fame (divide_rounds s)));
  sg_eq : run_consensus s = process_decided_rounds (decide_round_received (decide_fame (divide_rounds s)));
  sg_f4 : failed (run_consensus s) = false;
  sg_l4 : lce_ok (run_consensus s)
}.

Lemma run_consensus_stages g all n s :
  no_accept all -> post_ins g all n s -> stages g all s.
Proof.
  intros NA [C F D Hin Pn I LA R Hf Lce].
  assert (Main : forall P : Prop,
    (failed (divide_rounds s) = false -> rinv (divide_rounds s) -> cinv g None (divide_rounds s) ->
     good g (divide_rounds s) ->
     failed (decide_fame (divide_rounds s)) = false -> rinv (decide_fame (divide_rounds s)) ->
     cinv g None (decide_fame (divide_rounds s)) ->
     failed (decide_round_received (decide_fame (divide_rounds s))) = false ->
     cinv g None (decide_round_received (decide_fame (divide_rounds s))) ->
     from_attempts (decide_round_received (decide_fame (divide_rounds s))) all ->
     rinv (decide_round_received (decide_fame (divide_rounds s))) ->
     gcore all (decide_round_received (decide_fame (divide_rounds s))) ->
     pdinv g all (decide_round_received (decide_fame (divide_rounds s))) ->
     failed (process_decided_rounds (decide_round_received (decide_fame (divide_rounds s)))) = false /\
     lce_ok (process_decided_rounds (decide_round_received (decide_fame (divide_rounds s)))) -> P) -> P).
  { intros P HP.
  pose proof (g_dag _ _ C) as OK.
  (* DivideRounds *)
  assert (Hu : forall y, In y (undetermined s) -> get_event s y <> None).
  { intros y Hy. destruct (u_ex _ (g_o _ _ C) y Hy) as [ey Hey]. rewrite Hey. discriminate. }
  pose proof (divide_rounds_nofail g n (undetermined s) s (Some n) OK I Hf D Pn (or_intror eq_refl) Hu) as Hf1.
  destruct (divide_rounds_cinv g (undetermined s) s (Some n) OK (or_intror I) Hin) as [C'|I1];
    [fold (divide_rounds s) in C'; fold (divide_rounds s) in Hf1; congruence|].
  fold (divide_rounds s) in Hf1, I1.
  destruct (divide_rounds_dinv n s D Hin) as [D1 LD1].
  pose proof (divide_rounds_dkeep n s D) as K1.
  pose proof (divide_rounds_frame s) as Fr1.
  pose proof (divide_rounds_rinv s (or_intror R)) as R1.
  pose proof (lcev_fields_divide := divide_rounds_lcev s).
  set (s1 := divide_rounds s) in *.
  destruct R1 as [R1|R1]; [congruence|].
  assert (C1 : gcore all s1).
  { constructor; [eapply dag_ok_frame; [exact OK|exact Fr1]|eapply from_attempts_frame; [apply (g_from _ _ C)|exact Fr1]
                 |apply (d_l _ _ D1)|eapply oinv_qkeep; [apply (dk_q _ _ K1)|intros _; exact Hf|apply (g_o _ _ C)]]. }
  pose proof (rmono_dkeep _ _ K1) as M1.
  assert (F1 : finv s1) by (eapply finv_rmono; [exact F|exact M1|apply (dk_f _ _ K1)]).
  assert (A1 : all_lt s1).
  { intros y ey Hy Hn. pose proof (d_only _ _ D1 Hf1 y ey Hy Hn) as ->.
    destruct LD1 as [C'|[ex [t [Hx Ht]]]]; [congruence|]. rewrite Hy in Hx. inversion Hx; subst. congruence. }
  assert (LA1 : la_ok s1) by (eapply la_ok_frame; eauto).
  assert (G1 : good g s1).
  { constructor; [apply (g_dag _ _ C1)|exact LA1|exact I1|]. eexists. apply (linv_hmeasure s1 (g_l _ _ C1) A1). }
  (* DecideFame *)
  assert (Hp1 : forall pr, In pr (pending s1) -> get_round s1 (fst pr) <> None).
  { intros [r d] Hpr. destruct (r_pend _ (proj1 R1) r d Hpr) as [ri [Hri _]]. cbn [fst]. rewrite Hri. discriminate. }
  pose proof (decide_fame_nofail g s1 G1 (rinv_contig _ R1) Hf1 Hp1) as Hf2.
  pose proof (decide_fame_okeep s1) as O2. pose proof (decide_fame_frame s1) as Fr2.
  pose proof (decide_fame_ckeep s1) as K2. pose proof (decide_fame_rinv s1 R1) as R2.
  pose proof (decide_fame_lcev s1) as L2.
  set (s2 := decide_fame s1) in *.
  assert (C2 : gcore all s2).
  { eapply gcore_pass; [exact C1|exact Fr2|apply okeep_lkeep; exact O2|apply okeep_qkeep; exact O2|intros _; exact Hf1]. }
  pose proof (rmono_okeep _ _ O2) as M2.
  assert (F2 : finv s2) by (eapply finv_rmono; [exact F1|exact M2|apply (o_fr _ _ O2)]).
  assert (A2 : all_lt s2) by (eapply all_lt_lkeep; [apply okeep_lkeep; exact O2|exact A1]).
  assert (I2 : cinv g None s2) by (eapply cinv_ckeep; eauto).
  (* DecideRoundReceived *)
  assert (Hu2 : forall x, In x (undetermined s2) -> get_event s2 x <> None).
  { intros y Hy. destruct (u_ex _ (g_o _ _ C2) y Hy) as [ey Hey]. rewrite Hey. discriminate. }
  pose proof (decide_round_received_nofail g s2 I2 Hf2 Hu2) as Hf3.
  destruct (decide_round_received_oinv s2 (g_o _ _ C2)) as [O3 [M3 E3]].
  pose proof (decide_round_received_lkeep s2) as K3. pose proof (decide_round_received_frame s2) as Fr3.
  pose proof (decide_round_received_ckeep g s2 I2) as Kc3.
  pose proof (decide_round_received_rstep s2 (proj1 (rinv_bounded _ R2))) as Rs3.
  pose proof (decide_round_received_lcev s2) as L3.
  set (s3 := decide_round_received s2) in *.
  assert (C3 : gcore all s3).
  { constructor; [eapply dag_ok_frame; [apply (g_dag _ _ C2)|exact Fr3]|eapply from_attempts_frame; [apply (g_from _ _ C2)|exact Fr3]
                 |eapply linv_lkeep; [exact K3|apply (g_l _ _ C2)]|exact O3]. }
  assert (F3 : finv s3) by (eapply finv_rmono; eauto).
  assert (A3 : all_lt s3) by (eapply all_lt_lkeep; eauto).
  assert (I3 : cinv g None s3) by (eapply cinv_ckeep; eauto).
  assert (R3 : rinv s3) by (eapply rinv_rstep; eauto).
  (* ProcessDecidedRounds *)
  assert (PD3 : pdinv g all s3).
  { constructor; [|exact F3|apply (c_nodup _ O3)|apply (g_from _ _ C3)].
    constructor; [apply (g_dag _ _ C3)|exact I3| | |].
    - intros x ex Hx. destruct (ev_lt ex) as [t|] eqn:Et; [|exfalso; apply (A3 x ex Hx Et)].
      rewrite (l_ev _ (g_l _ _ C3) x ex t Hx Et). discriminate.
    - intros r x Hx. destruct (c_in _ O3 r x Hx) as [ex [Hex _]]. rewrite Hex. discriminate.
    - intros c h. unfold lcev in *. rewrite L3, L2, lcev_fields_divide. intros Hh.
      apply (stored_frame s2 s3 h Fr3). apply (stored_frame s1 s2 h Fr2). apply (stored_frame s s1 h Fr1).
      apply (Lce c h Hh). }
  assert (Hp3 : forall pr, In pr (pending s3) -> get_round s3 (fst pr) <> None).
  { intros [r d] Hpr. destruct (r_pend _ (proj1 R3) r d Hpr) as [ri [Hri _]]. cbn [fst]. rewrite Hri. discriminate. }
  apply HP; try assumption. apply (g_from _ _ C3). apply (process_decided_rounds_nofail g all s3 NA PD3 Hf3 Hp3). }
  apply Main. intros F1 R1 I1 G1 F2 R2 I2 F3 I3 FA3 R3 C3 PD3 [F4 L4].
  assert (Eq : run_consensus s = process_decided_rounds (decide_round_received (decide_fame (divide_rounds s)))).
  { unfold run_consensus. rewrite F1, F2, F3. reflexivity. }
  constructor; try assumption; rewrite Eq; assumption.
Qed.

Lemma run_consensus_nofail g all n s :
  no_accept all -> gcore all s -> finv s -> dinv n s -> In n (undetermined s) -> parents_not_self s n ->
  cinv g (Some n) s -> la_ok s -> rinv s -> failed s = false -> lce_ok s ->
  failed (run_consensus s) = false /\ lce_ok (run_consensus s).
Proof.
  intros NA C F D Hin Pn I LA R Hf Lce.
  destruct (run_consensus_stages g all n s NA (Build_post_ins g all n s C F D Hin Pn I LA R Hf Lce)) as [_ _ _ _ _ _ _ _ _ _ _ _ _ _ A B].
  auto.
Qed.

Lemma lcv_process_sig st s : lcv (process_sig st s) = lcv st.
Proof.
  unfold process_sig.
  destruct (zget (bs_index s) (blocks st)) as [b|]; [|reflexivity].
  destruct (get_peerset st (b_rr b)); [|reflexivity].
  destruct (negb (mem_key _ _)); [reflexivity|].
  destruct (negb (_ =? _)); [reflexivity|].
  cbv zeta. set (b' := b <| b_sigs := _ |>).
  transitivity (lcv (set_anchor_block (store_set_block st b') b')); [destruct (set_anchor_block _ _); reflexivity|].
  rewrite lcv_set_anchor_block. apply lcv_store_set_block.
Qed.
Lemma lcv_process_sigpool st : lcv (process_sigpool st) = lcv st.
Proof.
  unfold process_sigpool. generalize (sigpool st) as l. intros l. revert st.
  induction l as [|s r IH]; intros st; cbn [fold_left]; [reflexivity|].
  rewrite IH. apply lcv_process_sig.
Qed.

Record nf_inv (g : peerset) (all : list event) (st : hg) : Prop := {
  nf_g : ginv all st;
  nf_la : la_ok st;
  nf_c : cinv g None st;
  nf_r : rinv st;
  nf_f : failed st = false;
  nf_l : lce_ok st
}.

Lemma hstep_nf g all st o :
  ids_determine all -> no_accept all -> hop_ok all o -> nf_inv g all st -> nf_inv g all (hstep st o).
Proof.
  intros ID NA Ho [Gi LA I R Hf Lce].
  pose proof (g_dag _ _ (gi_core _ _ Gi)) as OK. pose proof (g_from _ _ (gi_core _ _ Gi)) as FA.
  assert (Core : failed (hstep st o) = false /\ lce_ok (hstep st o)).
  { destruct o as [e|]; cbn [hstep].
    - destruct Ho as [Hin Hid]. unfold step, insert_and_run.
      destruct (insert_event st e) as [r s] eqn:E.
      destruct (insert_event_inv st e all r s OK FA ID Hin Hid E) as [OK' [FA' Hns]].
      assert (Hrej : r <> InsOk -> failed (snd (r, s)) = false /\ lce_ok (snd (r, s))).
      { intros Hn. rewrite (insert_reject_noop st e r s E Hn Hns). auto. }
      destruct r; try (apply Hrej; discriminate). clear Hrej. cbn [snd].
      destruct (insert_post all st e s ID Hin Hid Gi E) as [Cs [Fs [_ [Ds [Hund Pn]]]]].
      destruct (insert_cinv g all st e s OK LA FA ID Hin Hid I E) as [Is _].
      destruct (insert_event_ok_shape st e all s OK FA ID Hin Hid E) as [st2 [GE [Fresh [Fr2 [OK2 [Hsp Hop]]]]]].
      cbv zeta in GE.
      assert (LAs : la_ok s).
      { eapply la_ok_frame; [|exact Fr2]. apply (la_ok_store st st2 e _ OK LA eq_refl GE Fresh Hsp Hop). }
      assert (Rs : rinv s).
      { eapply rinv_rstep; [exact R|]. pose proof (insert_event_rstep st e) as H. rewrite E in H. exact H. }
      assert (Hfs : failed s = false).
      { pose proof (insert_event_failed st e) as H. rewrite E in H. cbn [snd] in H. congruence. }
      assert (Ls : lce_ok s).
      { intros c h. pose proof (insert_event_lcev st e) as H. rewrite E in H. cbn [snd] in H. unfold lcev in H. rewrite H.
        intros Hh. apply (stored_frame st2 s h Fr2). rewrite GE.
        destruct (h =? e_id e); [discriminate|]. apply (Lce c h Hh). }
      apply (run_consensus_nofail g all (e_id e) s NA Cs Fs Ds Hund Pn Is LAs Rs Hfs Ls).
    - destruct (lcv_fields _ _ (lcv_process_sigpool st)) as [A [B _]]. split; [congruence|].
      intros c h. rewrite B. intros Hh. destruct (cw_fields _ _ (cw_process_sigpool st)) as [Ev _].
      unfold get_event. rewrite Ev. apply (Lce c h Hh). }
  destruct Core as [Hf' Lce'].
  constructor; [apply (hstep_ginv all st o ID Ho Gi)| | | |exact Hf'|exact Lce'].
  - destruct o as [e|]; cbn [hstep].
    + destruct Ho as [Hin Hid]. apply (step_la_inv st e all OK LA FA ID Hin Hid).
    + eapply la_ok_frame; [exact LA|apply process_sigpool_frame].
  - destruct o as [e|]; cbn [hstep] in *.
    + destruct Ho as [Hin Hid].
      destruct (step_cinv g all st e OK LA FA ID Hin Hid NA I) as [H|H]; [congruence|exact H].
    + eapply cinv_ckeep; [exact I|]. apply ckeep_cw; [apply cw_process_sigpool|apply process_sigpool_peersets].
  - apply (hstep_rtop st o (rinv_rtop st R)). exact Hf'.
Qed.

Theorem hrun_nf g all self_ oracle_ ops :
  ids_determine all -> no_accept all -> Forall (hop_ok all) ops ->
  nf_inv g all (hrun (init_hg self_ g oracle_) ops).
Proof.
  intros ID NA H.
  assert (G0 : nf_inv g all (init_hg self_ g oracle_)).
  { destruct (cw_fields _ _ (cw_init self_ g oracle_)) as [Ev _].
    constructor; [apply ginv_init| |apply cinv_init|apply rinv_init| |].
    - apply la_ok_no_events. intros x. unfold get_event. rewrite Ev. cbn. apply zget_empty.
    - unfold init_hg. destruct (set_peerset (empty_hg self_) 0 g) as [st|] eqn:S; [|reflexivity].
      destruct (lcv_fields _ _ (lcv_set_peerset _ _ _ _ S)) as [A _].
      transitivity (failed st); [destruct st; reflexivity|]. rewrite A. reflexivity.
    - intros c h. unfold init_hg. destruct (set_peerset (empty_hg self_) 0 g) as [st|] eqn:S.
      + destruct (lcv_fields _ _ (lcv_set_peerset _ _ _ _ S)) as [_ [B _]].
        replace (last_cons_ev (st <| validators := g |> <| oracle := oracle_ |>)) with (last_cons_ev st) by (destruct st; reflexivity).
        rewrite B. cbn. discriminate.
      + cbn. discriminate. }
  revert G0. generalize (init_hg self_ g oracle_). induction H as [|o ops Ho Hops IH]; intros st G0; cbn [hrun fold_left].
  - exact G0.
  - apply IH. apply hstep_nf; assumption.
Qed.

(* NO CONSENSUS PASS FAILS under static membership *)
Corollary hrun_not_failed g all self_ oracle_ ops :
  ids_determine all -> no_accept all -> Forall (hop_ok all) ops ->
  failed (hrun (init_hg self_ g oracle_) ops) = false.
Proof. intros ID NA H. apply (nf_f _ _ _ (hrun_nf g all self_ oracle_ ops ID NA H)). Qed.

(** * The pieces of one step, for later invariants *)
Lemma fd_walk_rounds fuel : forall st c index x ah,
  rounds (fd_walk fuel st c index x ah) = rounds st /\ last_round (fd_walk fuel st c index x ah) = last_round st.
Proof.
  induction fuel as [|f IH]; intros st c index x ah; cbn [fd_walk]; [auto|].
  destruct (get_event st ah) as [a|]; [|auto].
  destruct (aget c (ev_fd a)); [auto|].
  set (st1 := set_evst st ah _).
  assert (F1 : rounds st1 = rounds st /\ last_round st1 = last_round st) by (split; destruct st; reflexivity).
  pose proof (witness_f_nomemo (fuel_of st1) st1 ah) as N.
  assert (F2 : rounds (snd (witness_f (fuel_of st1) st1 ah)) = rounds st1 /\
               last_round (snd (witness_f (fuel_of st1) st1 ah)) = last_round st1).
  { split; [apply nomemo_eq_rounds; exact N|apply nomemo_last_round; exact N]. }
  destruct (witness_f (fuel_of st1) st1 ah) as [[[|]|] st2]; cbn [snd] in F2;
    try (destruct (IH st2 c index x (e_sp (ev_e a))) as [A B]; rewrite A, B);
    destruct F1, F2; split; congruence.
Qed.

Lemma update_ancestor_fd_rounds st e la :
  rounds (update_ancestor_fd st e la) = rounds st /\ last_round (update_ancestor_fd st e la) = last_round st.
Proof.
  unfold update_ancestor_fd. revert st. induction la as [|ce l IH]; intros s; cbn [fold_left]; [auto|].
  destruct (IH (fd_walk (fuel_of s) s (e_creator e) (e_index e) (e_id e) (snd (snd ce)))) as [A B].
  destruct (fd_walk_rounds (fuel_of s) s (e_creator e) (e_index e) (e_id e) (snd (snd ce))) as [C D].
  split; congruence.
Qed.

Lemma insert_event_rounds st e :
  rounds (snd (insert_event st e)) = rounds st /\ last_round (snd (insert_event st e)) = last_round st.
Proof.
  unfold insert_event. destruct (negb _); [auto|].
  destruct (check_self_parent st e); try (split; reflexivity).
  destruct (check_other_parent st e); try (split; reflexivity).
  unfold insert_admitted. cbv zeta.
  destruct (store_set_event _ _) as [st2|] eqn:E; cbn [snd]; [|split; destruct st; reflexivity].
  assert (E2 : rounds st2 = rounds st /\ last_round st2 = last_round st).
  { revert E. unfold store_set_event. destruct (get_event _ _).
    - intros H; inversion H. split; destruct st; reflexivity.
    - destruct (zget _ _); [|discriminate]. destruct (pidx_set _ _ _); [|discriminate].
      intros H; inversion H. split; destruct st; reflexivity. }
  destruct (update_ancestor_fd_rounds st2 e (fst (init_coords (st <| topo := topo st + 1 |>) e))) as [A B].
  destruct E2 as [C D]. rewrite <- C, <- D, <- A, <- B.
  split; destruct (is_loaded e); match goal with |- ?f ?a = ?f ?b => destruct b; reflexivity end.
Qed.

Lemma insert_post_ins g all st e s :
  ids_determine all -> In e all -> 0 <= e_id e -> nf_inv g all st -> insert_event st e = (InsOk, s) ->
  post_ins g all (e_id e) s /\ (forall x, get_event st x <> None -> get_event s x <> None).
Proof.
  intros ID Hin Hid [Gi LA I R Hf Lce] E.
  pose proof (g_dag _ _ (gi_core _ _ Gi)) as OK. pose proof (g_from _ _ (gi_core _ _ Gi)) as FA.
  destruct (insert_post all st e s ID Hin Hid Gi E) as [Cs [Fs [_ [Ds [Hund Pn]]]]].
  destruct (insert_cinv g all st e s OK LA FA ID Hin Hid I E) as [Is _].
  destruct (insert_event_ok_shape st e all s OK FA ID Hin Hid E) as [st2 [GE [Fresh [Fr2 [OK2 [Hsp Hop]]]]]].
  cbv zeta in GE.
  assert (Hst : forall x, get_event st x <> None -> get_event s x <> None).
  { intros x Hx. apply (stored_frame st2 s x Fr2). rewrite GE.
    destruct (x =? e_id e); [discriminate|exact Hx]. }
  split; [|exact Hst]. constructor; try assumption.
  - eapply la_ok_frame; [|exact Fr2]. apply (la_ok_store st st2 e _ OK LA eq_refl GE Fresh Hsp Hop).
  - eapply rinv_rstep; [exact R|]. pose proof (insert_event_rstep st e) as H. rewrite E in H. exact H.
  - pose proof (insert_event_failed st e) as H. rewrite E in H. cbn [snd] in H. congruence.
  - intros c h. pose proof (insert_event_lcev st e) as H. rewrite E in H. cbn [snd] in H. unfold lcev in H. rewrite H.
    intros Hh. apply Hst. apply (Lce c h Hh).
Qed.
