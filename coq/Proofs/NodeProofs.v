From Coq Require Import ZArith List Bool Lia.
From V Require Import Model.NodeModel.
Import ListNotations.
Open Scope Z_scope.

Definition conserved (p : pools) : Prop :=
  p_submitted p = flat_map fst (p_created p) ++ p_txs p /\
  p_isubmitted p = flat_map snd (p_created p) ++ p_itxs p.

Lemma skipn_length_app {A} (l l' : list A) : skipn (length l) (l ++ l') = l'.
Proof. induction l; cbn; auto. Qed.

Lemma pstep_conserved p o : conserved p -> conserved (pstep p o).
Proof.
  intros [H1 H2]. destruct o as [txs|i|gate ok dtx ditx]; cbn [pstep].
  - split; cbn [p_submitted p_isubmitted p_created p_txs p_itxs]; [rewrite H1, <- app_assoc; reflexivity|exact H2].
  - split; cbn [p_submitted p_isubmitted p_created p_txs p_itxs]; [exact H1|rewrite H2, <- app_assoc; reflexivity].
  - destruct gate; cbn [negb]; [|split; auto].
    destruct ok; split; cbn [p_submitted p_isubmitted p_created p_txs p_itxs].
    + rewrite skipn_length_app, flat_map_app. cbn [flat_map fst]. rewrite app_nil_r, H1, <- !app_assoc. reflexivity.
    + rewrite skipn_length_app, flat_map_app. cbn [flat_map snd]. rewrite app_nil_r, H2, <- !app_assoc. reflexivity.
    + rewrite H1, <- app_assoc. reflexivity.
    + rewrite H2, <- app_assoc. reflexivity.
Qed.

Theorem prun_conserved ops : conserved (prun ops).
Proof.
  unfold prun. assert (G : forall p, conserved p -> conserved (fold_left pstep ops p)).
  { induction ops as [|o ops IH]; intros p H; cbn [fold_left]; [exact H|]. apply IH, pstep_conserved, H. }
  apply G. split; reflexivity.
Qed.

(* exactly once: when the accepted transactions are pairwise distinct (the harness tags them with
   serial numbers), each is either still pending or in exactly one self-event, never both, never twice *)
Theorem prun_exactly_once ops :
  NoDup (p_submitted (prun ops)) ->
  NoDup (flat_map fst (p_created (prun ops)) ++ p_txs (prun ops)) /\
  forall t, In t (p_submitted (prun ops)) <->
            In t (flat_map fst (p_created (prun ops))) \/ In t (p_txs (prun ops)).
Proof.
  intros ND. destruct (prun_conserved ops) as [H _]. rewrite H in ND. split; [exact ND|].
  intros t. rewrite H, in_app_iff. tauto.
Qed.

(* a failed insertion never loses a pending transaction *)
Lemma failed_self_event_keeps_pool p dtx ditx :
  p_txs (pstep p (PSelfEvent true false dtx ditx)) = p_txs p ++ dtx /\
  p_itxs (pstep p (PSelfEvent true false dtx ditx)) = p_itxs p ++ ditx /\
  p_created (pstep p (PSelfEvent true false dtx ditx)) = p_created p.
Proof. cbn. auto. Qed.

(* the order of acceptance is the order in events and pool *)
Theorem prun_order ops : p_submitted (prun ops) = flat_map fst (p_created (prun ops)) ++ p_txs (prun ops).
Proof. apply prun_conserved. Qed.

Lemma busy_idle_iff pl p ss lc tr :
  busy pl p ss lc tr = false <->
  (pl <= 0 /\ p_txs p = [] /\ p_itxs p = [] /\ ss = 0%nat /\
   match lc with Some lcr => tr <= lcr | None => True end).
Proof.
  unfold busy. rewrite !orb_false_iff, !negb_false_iff.
  assert (E1 : (0 <? pl) = false <-> pl <= 0) by (rewrite Z.ltb_ge; tauto).
  assert (E2 : forall l : list Z, match l with [] => true | _ => false end = true <-> l = [])
    by (intros [|x r]; split; intros; try reflexivity; discriminate).
  assert (E3 : Nat.eqb ss 0 = true <-> ss = 0%nat) by apply Nat.eqb_eq.
  assert (E4 : match lc with Some lcr => lcr <? tr | None => false end = false <->
               match lc with Some lcr => tr <= lcr | None => True end).
  { destruct lc as [lcr|]; [rewrite Z.ltb_ge; tauto|tauto]. }
  rewrite E1, (E2 (p_txs p)), (E2 (p_itxs p)), E3, E4. tauto.
Qed.
