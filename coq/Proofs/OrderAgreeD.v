(* Dynamic membership, corollaries of Proofs/BlockAgreeD.v / BlockPeersD.v for two nodes that respect the distance
   bound (same genesis set): the committed ORDER of events agrees (C04, cross-node), and what a node computes for a
   shared event does not depend on the insertion order / cut (C03). *)
From Coq Require Import ZArith List Bool Lia.
From V Require Import Proofs.MedianProofs Proofs.TidyC18.
From V Require Import Model.ZMap Model.Quorum Model.HgImpl
  Proofs.BlockInv Proofs.OrderProofs Proofs.AdmissionProofs Proofs.Agreement Proofs.GapWindow Proofs.RoundAgreeD
  Proofs.BlockAgree Proofs.OrderIndepD Proofs.BlockAgreeD Proofs.BlockPeersD.
Import ListNotations.
Open Scope Z_scope.

(* the committed order of a node: the (event, Lamport timestamp) pairs of the frames of its delivered blocks *)
Definition corder (st : hg) : list (Z * Z) := concat (map (fun d => kl (b_frame d)) (delivered st)).

Section OrderD.
  Variables (all : list event) (g : peerset).
  Hypothesis ID : ids_determine all.
  Hypothesis SK : sigkeys_determine all.
  Hypothesis FF : fork_free all.
  Variables (s1 s2 : Z) (o1 o2 : list Z) (ops1 ops2 : list hop).
  Hypothesis S1 : s1 <> -1.
  Hypothesis S2 : s2 <> -1.
  Hypothesis H1 : Forall (hop_ok all) ops1.
  Hypothesis H2 : Forall (hop_ok all) ops2.
  Hypothesis B1 : gap_runb (init_hg s1 g o1) ops1 = true.
  Hypothesis B2 : gap_runb (init_hg s2 g o2) ops2 = true.
  Let st1 := hrun (init_hg s1 g o1) ops1.
  Let st2 := hrun (init_hg s2 g o2) ops2.
  Hypothesis F1 : failed st1 = false.
  Hypothesis F2 : failed st2 = false.

  (* the k-th blocks carry the same events in the same order *)
  Theorem block_events_agree_gap k d1 d2 :
    nth_error (delivered st1) k = Some d1 -> nth_error (delivered st2) k = Some d2 ->
    kl (b_frame d1) = kl (b_frame d2).
  Proof.
    intros Hk1 Hk2.
    destruct (blocks_agree_gap all g ID SK FF s1 s2 o1 o2 ops1 ops2 S1 S2 H1 H2 B1 B2 F1 F2 k d1 d2 Hk1 Hk2) as [_ [Er _]].
    pose proof (gap_tables_agree all g ID SK FF s1 s2 o1 o2 ops1 ops2 S1 S2 H1 H2 B1 B2 F1 F2) as T.
    pose proof (hrun_ginv all s1 g o1 ops1 ID H1) as Gi1. pose proof (hrun_ginv all s2 g o2 ops2 ID H2) as Gi2.
    destruct (delivered_block_payload all _ d1 Gi1 (nth_error_In _ _ Hk1)) as [Hz1 _].
    destruct (delivered_block_payload all _ d2 Gi2 (nth_error_In _ _ Hk2)) as [Hz2 _]. rewrite <- Er in Hz2.
    exact (frames_kl_agree all s1 s2 g g o1 o2 ops1 ops2 (b_rr d1) (b_frame d1) (b_frame d2) ID SK FF S1 S2 H1 H2 B1 B2 F1 F2 T Hz1 Hz2).
  Qed.

  (* the committed order of the node with fewer blocks is a prefix of the other's *)
  Theorem corder_prefix_gap : (length (delivered st1) <= length (delivered st2))%nat ->
    exists l, corder st2 = corder st1 ++ l.
  Proof.
    intros Hlen. set (F := fun d => kl (b_frame d)).
    assert (E : map F (delivered st1) = firstn (length (map F (delivered st1))) (map F (delivered st2))).
    { apply prefix_of_pointwise; [rewrite !map_length; exact Hlen|].
      intros k a b Ha Hb.
      destruct (nth_error (delivered st1) k) as [d1|] eqn:D1.
      2:{ apply nth_error_None in D1. assert (C : nth_error (map F (delivered st1)) k <> None) by (rewrite Ha; discriminate).
          apply nth_error_Some in C. rewrite map_length in C. lia. }
      destruct (nth_error (delivered st2) k) as [d2|] eqn:D2.
      2:{ apply nth_error_None in D2. assert (C : nth_error (map F (delivered st2)) k <> None) by (rewrite Hb; discriminate).
          apply nth_error_Some in C. rewrite map_length in C. lia. }
      rewrite (map_nth_error F _ _ D1) in Ha. rewrite (map_nth_error F _ _ D2) in Hb.
      inversion Ha; inversion Hb; subst. apply (block_events_agree_gap k d1 d2 D1 D2). }
    exists (concat (skipn (length (map F (delivered st1))) (map F (delivered st2)))).
    unfold corder. fold F. rewrite <- (firstn_skipn (length (map F (delivered st1))) (map F (delivered st2))) at 1.
    rewrite concat_app, <- E. reflexivity.
  Qed.

  (* round and Lamport timestamp of a shared event *)
  Theorem obs_agree_gap x : get_event st1 x <> None -> get_event st2 x <> None ->
    option_map (fun e => (ev_round e, ev_lt e)) (get_event st1 x) =
    option_map (fun e => (ev_round e, ev_lt e)) (get_event st2 x).
  Proof.
    intros N1 N2.
    destruct (get_event st1 x) as [e1|] eqn:E1; [|contradiction]. destruct (get_event st2 x) as [e2|] eqn:E2; [|contradiction].
    destruct (gap_consensus_agree all g s1 s2 o1 o2 ops1 ops2 ID SK FF S1 S2 H1 H2 B1 B2 F1 F2) as [A _].
    destruct (A x e1 e2 E1 E2) as [Er _].
    destruct (lamport_agree_any all s1 s2 g g o1 o2 ops1 ops2 x e1 e2 ID H1 H2 F1 F2 E1 E2) as [El _].
    cbn [option_map]. rewrite Er, El. reflexivity.
  Qed.
End OrderD.
