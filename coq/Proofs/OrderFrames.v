(* C04: which passes can change the Lamport memo, the Lamport timestamp / round-received fields of
   stored events, the received lists of the round table, the undetermined list and the frame
   cache.  [okeep] = none of them changes. *)
From Coq Require Import ZArith List Bool Lia.
From RecordUpdate Require Import RecordSet.
From V Require Import Model.ZMap Model.Quorum Model.Voting Model.HgImpl
  Proofs.ZMapFacts Proofs.HgFrames Proofs.HgDagFrames.
Import ListNotations RecordSetNotations.
Open Scope Z_scope.

(* the state with the round and witness memo tables erased *)
Definition nort (st : hg) : hg := st <| round_memo := zempty |> <| witness_memo := zempty |>.

Lemma nort_set_round_memo st m : nort (st <| round_memo := m |>) = nort st.
Proof. destruct st; reflexivity. Qed.
Lemma nort_set_witness_memo st m : nort (st <| witness_memo := m |>) = nort st.
Proof. destruct st; reflexivity. Qed.

Lemma round_f_nort fuel : forall st x, nort (snd (round_f fuel st x)) = nort st.
Proof.
  induction fuel as [|f IH]; intros st x; cbn [round_f].
  - destruct (zget x (round_memo st)); reflexivity.
  - destruct (zget x (round_memo st)); [reflexivity|].
    destruct (get_event st x) as [ex|]; [|reflexivity].
    destruct (e_sp (ev_e ex) =? -1) eqn:Esp.
    + destruct (e_op (ev_e ex) =? -1) eqn:Eop.
      * cbn. repeat match goal with |- context [match ?c with _ => _ end] => destruct c end;
          cbn [snd]; rewrite ?nort_set_round_memo; reflexivity.
      * specialize (IH st (e_op (ev_e ex))). destruct (round_f f st (e_op (ev_e ex))) as [[opr|] st2]; cbn [snd] in *; [|exact IH].
        repeat match goal with |- context [match ?c with _ => _ end] => destruct c end;
          cbn [snd]; rewrite ?nort_set_round_memo; exact IH.
    + pose proof (IH st (e_sp (ev_e ex))) as IH1.
      destruct (round_f f st (e_sp (ev_e ex))) as [[spr|] st1]; cbn [snd] in *; [|exact IH1].
      destruct (e_op (ev_e ex) =? -1) eqn:Eop.
      * repeat match goal with |- context [match ?c with _ => _ end] => destruct c end;
          cbn [snd]; rewrite ?nort_set_round_memo; exact IH1.
      * pose proof (IH st1 (e_op (ev_e ex))) as IH2.
        destruct (round_f f st1 (e_op (ev_e ex))) as [[opr|] st2]; cbn [snd] in *; [|congruence].
        repeat match goal with |- context [match ?c with _ => _ end] => destruct c end;
          cbn [snd]; rewrite ?nort_set_round_memo; congruence.
Qed.

Lemma witness_f_nort fuel st x : nort (snd (witness_f fuel st x)) = nort st.
Proof.
  unfold witness_f.
  destruct (zget x (witness_memo st)); [reflexivity|].
  destruct (get_event st x) as [ex|]; [|reflexivity].
  pose proof (round_f_nort fuel st x) as H1.
  destruct (round_f fuel st x) as [[xr|] st1]; cbn [snd] in *; [|exact H1].
  destruct (get_peerset st1 xr); [|exact H1].
  destruct (negb _); cbn [snd]; [rewrite nort_set_witness_memo; exact H1|].
  destruct (e_sp (ev_e ex) =? -1).
  - cbn [snd]. rewrite nort_set_witness_memo; exact H1.
  - pose proof (round_f_nort fuel st1 (e_sp (ev_e ex))) as H2.
    destruct (round_f fuel st1 (e_sp (ev_e ex))) as [[spr|] st2]; cbn [snd] in *;
      rewrite ?nort_set_witness_memo; congruence.
Qed.

(** * The relation *)
Definition ev_b (es : evst) := (ev_e es, ev_lt es, ev_rr es).
Definition rcv (st : hg) (r : Z) : list Z :=
  match get_round st r with Some ri => ri_received ri | None => [] end.

Record okeep (st st' : hg) : Prop := {
  o_lt : lt_memo st' = lt_memo st;
  o_ev : forall x, option_map ev_b (get_event st' x) = option_map ev_b (get_event st x);
  o_rcv : forall r, rcv st' r = rcv st r;
  o_und : undetermined st' = undetermined st;
  o_fr : frames st' = frames st
}.

Lemma okeep_refl st : okeep st st.
Proof. constructor; reflexivity. Qed.
Lemma okeep_trans a b c : okeep a b -> okeep b c -> okeep a c.
Proof.
  intros [A1 A2 A3 A4 A5] [B1 B2 B3 B4 B5]. constructor; congruence.
Qed.

(* same events, rounds, lt_memo, undetermined, frames *)
Lemma okeep_same st st' :
  events st' = events st -> rounds st' = rounds st -> lt_memo st' = lt_memo st ->
  undetermined st' = undetermined st -> frames st' = frames st -> okeep st st'.
Proof.
  intros E R L U F. constructor; auto.
  - intros x. unfold get_event. rewrite E. reflexivity.
  - intros r. unfold rcv, get_round. rewrite R. reflexivity.
Qed.

Lemma okeep_nort st st' : nort st' = nort st -> okeep st st'.
Proof.
  intros H. apply okeep_same.
  - apply (f_equal events) in H; destruct st, st'; exact H.
  - apply (f_equal rounds) in H; destruct st, st'; exact H.
  - apply (f_equal lt_memo) in H; destruct st, st'; exact H.
  - apply (f_equal undetermined) in H; destruct st, st'; exact H.
  - apply (f_equal frames) in H; destruct st, st'; exact H.
Qed.

Lemma round_f_okeep fuel st x : okeep st (snd (round_f fuel st x)).
Proof. apply okeep_nort, round_f_nort. Qed.
Lemma witness_f_okeep fuel st x : okeep st (snd (witness_f fuel st x)).
Proof. apply okeep_nort, witness_f_nort. Qed.

Lemma get_event_set_evst st x es y :
  get_event (set_evst st x es) y = if (x =? y) && (0 <=? x) then Some es else get_event st y.
Proof. unfold get_event, set_evst. destruct st; cbn. apply zget_zset. Qed.

(* updating a stored event without touching body, timestamp, round-received *)
Lemma okeep_set_evst st x es es' :
  get_event st x = Some es -> ev_b es' = ev_b es -> okeep st (set_evst st x es').
Proof.
  intros Hx Hb. constructor; try (destruct st; reflexivity).
  intros y. rewrite get_event_set_evst.
  destruct (Z.eqb_spec x y) as [->|]; cbn [andb]; [|reflexivity].
  destruct (0 <=? y); [|reflexivity]. rewrite Hx. cbn [option_map]. congruence.
Qed.

Lemma okeep_fail st : okeep st (fail st).
Proof. apply okeep_same; destruct st; reflexivity. Qed.
Lemma okeep_set_pending st p : okeep st (st <| pending := p |>).
Proof. apply okeep_same; destruct st; reflexivity. Qed.
Lemma okeep_set_sigpool st p : okeep st (st <| sigpool := p |>).
Proof. apply okeep_same; destruct st; reflexivity. Qed.
Lemma okeep_set_pending_loaded st p : okeep st (st <| pending_loaded := p |>).
Proof. apply okeep_same; destruct st; reflexivity. Qed.

Ltac okeep_chain := repeat (eapply okeep_trans; [eassumption|]).

Lemma fd_walk_okeep fuel : forall st c index x ah, okeep st (fd_walk fuel st c index x ah).
Proof.
  induction fuel as [|f IH]; intros st c index x ah; cbn [fd_walk]; [apply okeep_refl|].
  destruct (get_event st ah) as [a|] eqn:Ha; [|apply okeep_refl].
  destruct (aget c (ev_fd a)); [apply okeep_refl|].
  set (st1 := set_evst st ah _).
  assert (F1 : okeep st st1) by (eapply okeep_set_evst; eauto; destruct a; reflexivity).
  pose proof (witness_f_okeep (fuel_of st1) st1 ah) as F2.
  destruct (witness_f (fuel_of st1) st1 ah) as [[[|]|] st2]; cbn [snd] in F2; okeep_chain;
    try apply okeep_refl; apply IH.
Qed.

Lemma fold_okeep {A} (f : hg -> A -> hg) (l : list A) :
  (forall s a, okeep s (f s a)) -> forall st, okeep st (fold_left f l st).
Proof.
  intros Hf. induction l as [|a r IH]; intros st; cbn [fold_left]; [apply okeep_refl|].
  eapply okeep_trans; [apply Hf|apply IH].
Qed.

Lemma update_ancestor_fd_okeep st e la : okeep st (update_ancestor_fd st e la).
Proof. unfold update_ancestor_fd. apply fold_okeep. intros s ce. apply fd_walk_okeep. Qed.

(** * rewriting a RoundInfo without touching its received list *)
Lemma rcv_set_round st r ri q :
  rcv (set_round st r ri) q = if (r =? q) && (0 <=? r) then ri_received ri else rcv st q.
Proof.
  unfold rcv, get_round, set_round. destruct st; cbn. rewrite zget_zset.
  destruct ((r =? q) && (0 <=? r)); reflexivity.
Qed.

Lemma okeep_set_round st r ri : ri_received ri = rcv st r -> okeep st (set_round st r ri).
Proof.
  intros H. constructor; try (destruct st; reflexivity).
  intros q. rewrite rcv_set_round. destruct (Z.eqb_spec r q) as [->|]; cbn [andb]; [|reflexivity].
  destruct (0 <=? q); [exact H|reflexivity].
Qed.

Lemma add_created_received ri x w : ri_received (add_created ri x w) = ri_received ri.
Proof. unfold add_created. destruct (aget x (ri_created ri)); [reflexivity|destruct ri; reflexivity]. Qed.
Lemma set_fame_received ri x f : ri_received (set_fame ri x f) = ri_received ri.
Proof. unfold set_fame. destruct (aget x (ri_created ri)) as [[w t]|]; destruct ri; reflexivity. Qed.
Lemma witnesses_decided_received ri ps : ri_received (snd (witnesses_decided ri ps)) = ri_received ri.
Proof.
  unfold witnesses_decided. destruct (ri_decided ri); [reflexivity|].
  destruct (existsb _ _); [reflexivity|]. cbn [snd]. destruct ri; reflexivity.
Qed.

(** * DivideRounds (round part) *)
Lemma divide_round_okeep st x : okeep st (divide_round st x).
Proof.
  unfold divide_round.
  pose proof (round_f_okeep (fuel_of st) st x) as Fr.
  destruct (round_f (fuel_of st) st x) as [[r|] s]; cbn [snd] in Fr; [|okeep_chain; apply okeep_fail].
  cbv zeta.
  set (s1 := set_event_round s x r). set (ri := round_or_new s1 r). set (s2 := maybe_queue s1 r ri).
  assert (F1 : okeep s s1).
  { subst s1. unfold set_event_round. destruct (get_event s x) eqn:H; [|apply okeep_refl].
    eapply okeep_set_evst; [eassumption|destruct e; reflexivity]. }
  assert (F2 : okeep s1 s2).
  { subst s2. unfold maybe_queue. destruct (_ && _ && _); [apply okeep_set_pending|apply okeep_refl]. }
  pose proof (witness_f_okeep (fuel_of s2) s2 x) as Fw.
  destruct (witness_f (fuel_of s2) s2 x) as [[w|] s']; cbn [snd] in Fw; okeep_chain; [|apply okeep_fail].
  apply okeep_set_round. rewrite add_created_received.
  assert (E : rcv s' r = rcv s1 r) by (rewrite (o_rcv _ _ Fw), (o_rcv _ _ F2); reflexivity).
  rewrite E. subst ri. unfold round_or_new, rcv. destruct (get_round s1 r); reflexivity.
Qed.

(** * DecideFame *)
Lemma fame_fold_received s r ws : forall ri ri',
  fold_left (fun (a : option rinfo) x =>
     match a with
     | None => None
     | Some ri' =>
       if is_decided ri' x then Some ri'
       else match fame_of s x r with
            | None => None
            | Some None => Some ri'
            | Some (Some v) => Some (set_fame ri' x v)
            end
     end) ws (Some ri) = Some ri' -> ri_received ri' = ri_received ri.
Proof.
  induction ws as [|x ws IH]; intros ri ri'; cbn [fold_left].
  - intros H; inversion H; reflexivity.
  - destruct (is_decided ri x); [apply IH|].
    destruct (fame_of s x r) as [[v|]|].
    + intros H. rewrite (IH _ _ H). apply set_fame_received.
    + apply IH.
    + clear IH. intros H. exfalso. induction ws as [|y ws IHw]; cbn [fold_left] in H; [discriminate|auto].
Qed.

Lemma decide_fame_round_okeep s dec pr : okeep s (fst (decide_fame_round (s, dec) pr)).
Proof.
  unfold decide_fame_round.
  destruct (failed s); [apply okeep_refl|].
  destruct (get_round s (fst pr)) as [ri|] eqn:Hri; [|apply okeep_fail].
  destruct (get_peerset s (fst pr)) as [rps|]; [|apply okeep_fail].
  match goal with |- context [fold_left ?f ?l ?a] => destruct (fold_left f l a) as [ri'|] eqn:Ef end; [|apply okeep_fail].
  apply fame_fold_received in Ef.
  pose proof (witnesses_decided_received ri' rps) as W.
  destruct (witnesses_decided ri' rps) as [d ri'']. cbn [fst snd] in *.
  apply okeep_set_round. unfold rcv. rewrite Hri. congruence.
Qed.

Lemma fold_okeep_fst {A B} (f : hg * B -> A -> hg * B) (l : list A) :
  (forall s b a, okeep s (fst (f (s, b) a))) ->
  forall st b, okeep st (fst (fold_left f l (st, b))).
Proof.
  intros Hf. induction l as [|a r IH]; intros st b; cbn [fold_left]; [apply okeep_refl|].
  specialize (Hf st b a). destruct (f (st, b) a) as [s' b'] eqn:E. cbn [fst] in Hf.
  eapply okeep_trans; [exact Hf|apply IH].
Qed.

Lemma decide_fame_okeep st : okeep st (decide_fame st).
Proof.
  unfold decide_fame.
  pose proof (fold_okeep_fst decide_fame_round (pending st) decide_fame_round_okeep st []) as F.
  destruct (fold_left decide_fame_round (pending st) (st, [])) as [s decided]. cbn [fst] in F.
  destruct (failed s); [exact F|]. eapply okeep_trans; [exact F|apply okeep_set_pending].
Qed.

(** * commit / ProcessDecidedRounds except the frame cache / ProcessSigPool *)
Definition okeep_nf (st st' : hg) : Prop :=
  lt_memo st' = lt_memo st /\ events st' = events st /\ rounds st' = rounds st /\
  undetermined st' = undetermined st /\ round_memo st' = round_memo st.

Lemma okeep_nf_refl st : okeep_nf st st.
Proof. unfold okeep_nf; auto. Qed.
Lemma okeep_nf_trans a b c : okeep_nf a b -> okeep_nf b c -> okeep_nf a c.
Proof. unfold okeep_nf. intros [A1 [A2 [A3 [A4 A5]]]] [B1 [B2 [B3 [B4 B5]]]]. repeat split; congruence. Qed.

Lemma okeep_of_nf st st' : okeep_nf st st' -> frames st' = frames st -> okeep st st'.
Proof. intros [A1 [A2 [A3 [A4 A5]]]] F. apply okeep_same; auto. Qed.

Definition ov (st : hg) := (lt_memo st, events st, rounds st, undetermined st, round_memo st, frames st).
Lemma ov_nf st st' : ov st' = ov st -> okeep_nf st st' /\ frames st' = frames st.
Proof. unfold ov, okeep_nf. intros H. inversion H. auto 10. Qed.

Lemma ov_store_set_block st b : ov (store_set_block st b) = ov st.
Proof. destruct st; reflexivity. Qed.
Lemma ov_deliver st b : ov (deliver st b) = ov st.
Proof. destruct st; reflexivity. Qed.
Lemma ov_set_anchor_block st b : ov (set_anchor_block st b) = ov st.
Proof.
  unfold set_anchor_block. destruct (get_peerset st (b_rr b)); [|reflexivity].
  destruct (_ && _); [destruct st; reflexivity|reflexivity].
Qed.
Lemma ov_set_peerset st r ps st' : set_peerset st r ps = Some st' -> ov st' = ov st.
Proof.
  unfold set_peerset. destruct (existsb _ _); [discriminate|]. intros H; inversion H; clear H.
  match goal with |- ov (fold_left ?f ps ?s0) = _ =>
    assert (G : forall l s, ov (fold_left f l s) = ov s) end.
  { induction l as [|p l IH]; intros s; cbn [fold_left]; [reflexivity|]. rewrite IH.
    destruct (zmem _ _); destruct s; reflexivity. }
  rewrite G. destruct st; reflexivity.
Qed.
Lemma ov_process_receipts st rr itxs : ov (process_receipts st rr itxs) = ov st.
Proof.
  unfold process_receipts.
  match goal with |- context [fold_left ?f ?l ?a] => destruct (fold_left f l a) as [vals changed] end.
  destruct changed; [|reflexivity].
  destruct (set_peerset st (rr + 6) vals) eqn:E; [|reflexivity].
  apply ov_set_peerset in E. rewrite <- E. destruct h; reflexivity.
Qed.
Lemma ov_sign_block st b bps : ov (snd (sign_block st b bps)) = ov st.
Proof. unfold sign_block. destruct (mem_key _ _); cbn [snd]; [destruct st; reflexivity|reflexivity]. Qed.

Lemma commit_ov st b : ov (commit st b) = ov st.
Proof.
  unfold commit. destruct (self st =? -1); [apply ov_deliver|]. cbv zeta.
  set (st0 := st <| oracle := _ |>).
  assert (F0 : ov st0 = ov st) by (destruct st; reflexivity).
  match goal with |- context [store_set_block st0 ?b1] => set (bb := b1) end.
  pose proof (ov_store_set_block st0 bb) as F1.
  destruct (get_peerset (store_set_block st0 bb) (b_rr bb)) as [bps|].
  - pose proof (ov_sign_block (store_set_block st0 bb) bb bps) as F2.
    destruct (sign_block (store_set_block st0 bb) bb bps) as [b2 st2]. cbn [fst snd] in *.
    rewrite ov_deliver, ov_process_receipts, ov_set_anchor_block. congruence.
  - rewrite ov_deliver. congruence.
Qed.

Lemma ov_add_consensus_events l : forall s, ov (fold_left add_consensus_event l s) = ov s.
Proof. induction l as [|fe l IH]; intros s; cbn [fold_left]; [reflexivity|]. rewrite IH. destruct s; reflexivity. Qed.

Lemma process_frame_ov s f : ov (process_frame s f) = ov s.
Proof.
  unfold process_frame. destruct (f_events f) as [|fe rest]; [reflexivity|]. cbv zeta.
  set (s1 := fold_left add_consensus_event (fe :: rest) s).
  assert (E1 : ov s1 = ov s) by apply ov_add_consensus_events.
  set (b := block_of_frame _ _ _).
  destruct (b_txs b), (b_itxs b); try exact E1; rewrite commit_ov, ov_store_set_block; exact E1.
Qed.

Lemma process_sig_ov st s : ov (process_sig st s) = ov st.
Proof.
  unfold process_sig.
  destruct (zget (bs_index s) (blocks st)) as [b|]; [|reflexivity].
  destruct (get_peerset st (b_rr b)); [|reflexivity].
  destruct (negb (mem_key _ _)); [reflexivity|].
  destruct (negb (_ =? _)); [reflexivity|]. cbv zeta.
  set (b' := b <| b_sigs := _ |>).
  rewrite <- (ov_store_set_block st b'), <- (ov_set_anchor_block (store_set_block st b') b').
  generalize (set_anchor_block (store_set_block st b') b'). intros s2. destruct s2; reflexivity.
Qed.

Lemma process_sigpool_ov st : ov (process_sigpool st) = ov st.
Proof.
  unfold process_sigpool. generalize (sigpool st). intros l. revert st.
  induction l as [|s l IH]; intros st; cbn [fold_left]; [reflexivity|]. rewrite IH. apply process_sig_ov.
Qed.
