(* Dynamic membership: the observations of a stored event that do not depend on the order of insertion.
   Lamport timestamps never read a validator set: they agree between ANY two nodes over one universe (no membership
   premise, no distance bound).  Rounds, witness flags, strongly-see and round-received: Proofs/RoundAgreeD.v,
   Proofs/RoundReceivedD.v (two nodes that respect the distance bound and whose tables agree). *)
From Coq Require Import ZArith List Bool Lia.
From V Require Import Model.ZMap Model.Quorum Model.HgImpl Model.Window
  Proofs.AdmissionProofs Proofs.BlockInv Proofs.OrderProofs Proofs.RoundFun Proofs.Agreement
  Proofs.GapWindow Proofs.CInvRunD Proofs.RoundAgreeD.
Import ListNotations.
Open Scope Z_scope.

Theorem lamport_agree_any all s1 s2 g1 g2 o1 o2 ops1 ops2 x e1 e2 :
  ids_determine all -> Forall (hop_ok all) ops1 -> Forall (hop_ok all) ops2 ->
  failed (hrun (init_hg s1 g1 o1) ops1) = false -> failed (hrun (init_hg s2 g2 o2) ops2) = false ->
  get_event (hrun (init_hg s1 g1 o1) ops1) x = Some e1 -> get_event (hrun (init_hg s2 g2 o2) ops2) x = Some e2 ->
  ev_lt e1 = ev_lt e2 /\ ev_lt e1 <> None.
Proof.
  intros ID H1 H2 F1 F2 E1 E2.
  pose proof (hrun_ginv all s1 g1 o1 ops1 ID H1) as Gi1. pose proof (hrun_ginv all s2 g2 o2 ops2 ID H2) as Gi2.
  assert (SB : same_bodies (hrun (init_hg s1 g1 o1) ops1) (hrun (init_hg s2 g2 o2) ops2)).
  { intros y a b Ha Hb.
    apply ID; [eapply (g_from _ _ (gi_core _ _ Gi1)); eauto|eapply (g_from _ _ (gi_core _ _ Gi2)); eauto|].
    rewrite (d_id _ (g_dag _ _ (gi_core _ _ Gi1)) _ _ Ha), (d_id _ (g_dag _ _ (gi_core _ _ Gi2)) _ _ Hb). reflexivity. }
  destruct (ev_lt e1) as [t1|] eqn:Ht1; [|exfalso; apply (gi_all _ _ Gi1 F1 x e1 E1 Ht1)].
  split; [|discriminate]. symmetry.
  apply (lt_agree_nat all _ _ Gi1 Gi2 F1 F2 SB (S (Z.to_nat t1)) x e1 e2 t1 E1 E2 Ht1). lia.
Qed.
