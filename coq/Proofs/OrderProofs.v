(* C04: committed order and causality.  Lamport timestamps (memo and event field), round-received
   assigned once, received lists, frames. *)
From Coq Require Import ZArith List Bool Lia ZifyBool Sorted Permutation.
From RecordUpdate Require Import RecordSet.
From V Require Import Model.ZMap Model.Quorum Model.Voting Model.HgImpl
  Proofs.ZMapFacts Proofs.HgFrames Proofs.HgDagFrames Proofs.AdmissionProofs Proofs.HgBlockFrames
  Proofs.BlockInv Proofs.RoundOrder Proofs.OrderSort Proofs.OrderFrames.
Import ListNotations RecordSetNotations.
Open Scope Z_scope.

(** * Lamport timestamps: the memo table is self-consistent *)

(* timestamp of a parent reference: -1 for the empty parent *)
Definition parent_lt (st : hg) (p : Z) : option Z := if p =? -1 then Some (-1) else zget p (lt_memo st).

(* every memoised timestamp is 1 + the maximum of the parents' memoised timestamps *)
Definition memo_consistent (st : hg) : Prop :=
  forall x t, zget x (lt_memo st) = Some t ->
    exists ex a b, get_event st x = Some ex /\
      parent_lt st (e_sp (ev_e ex)) = Some a /\ parent_lt st (e_op (ev_e ex)) = Some b /\
      -1 <= a /\ -1 <= b /\ t = 1 + Z.max a b.

Definition ops_present (st : hg) : Prop :=
  forall x ex, get_event st x = Some ex ->
    e_op (ev_e ex) = -1 \/ exists po, get_event st (e_op (ev_e ex)) = Some po.

Definition memo_ext (st st' : hg) : Prop :=
  forall y t, zget y (lt_memo st) = Some t -> zget y (lt_memo st') = Some t.

Lemma memo_ext_refl st : memo_ext st st.
Proof. intros y t H; exact H. Qed.
Lemma memo_ext_trans a b c : memo_ext a b -> memo_ext b c -> memo_ext a c.
Proof. intros H1 H2 y t H. apply H2, H1, H. Qed.

Lemma parent_lt_ext st st' p a : memo_ext st st' -> parent_lt st p = Some a -> parent_lt st' p = Some a.
Proof. unfold parent_lt. intros E. destruct (p =? -1); [auto|apply E]. Qed.

Lemma memo_consistent_nonneg st x t : memo_consistent st -> zget x (lt_memo st) = Some t -> 0 <= t.
Proof. intros M H. destruct (M x t H) as [ex [a [b [_ [_ [_ [Ha [Hb ->]]]]]]]]. lia. Qed.

Lemma parent_lt_ge st p a : memo_consistent st -> parent_lt st p = Some a -> -1 <= a.
Proof.
  unfold parent_lt. intros M. destruct (p =? -1); [intros H; inversion H; lia|].
  intros H. pose proof (memo_consistent_nonneg st p a M H). lia.
Qed.

(* recording x's timestamp computed from its parents' memoised timestamps *)
Lemma mc_set s x ex a b :
  memo_consistent s -> get_event s x = Some ex ->
  parent_lt s (e_sp (ev_e ex)) = Some a -> parent_lt s (e_op (ev_e ex)) = Some b ->
  -1 <= a -> -1 <= b ->
  let F := s <| lt_memo := zset x (1 + Z.max a b) (lt_memo s) |> in
  memo_consistent F /\ memo_ext s F /\ zget x (lt_memo F) = Some (1 + Z.max a b).
Proof.
  intros M Hx Ha Hb Ha1 Hb1 F. set (v := 1 + Z.max a b) in *.
  assert (H0 : 0 <= x) by (eapply zget_some_nonneg; exact Hx).
  assert (GE : forall y, get_event F y = get_event s y) by (intros y; destruct s; reflexivity).
  assert (GM : forall y, zget y (lt_memo F) = if y =? x then Some v else zget y (lt_memo s)).
  { intros y. replace (lt_memo F) with (zset x v (lt_memo s)) by (destruct s; reflexivity).
    rewrite zget_zset, (Z.eqb_sym y). destruct (x =? y); cbn [andb]; [|reflexivity].
    replace (0 <=? x) with true by lia. reflexivity. }
  (* the value already memoised for x, if any, is v *)
  assert (Hsame : forall tx, zget x (lt_memo s) = Some tx -> tx = v).
  { intros tx Htx. destruct (M x tx Htx) as [ex' [a' [b' [Hx' [Ha' [Hb' [_ [_ ->]]]]]]]].
    rewrite Hx in Hx'. inversion Hx'; subst ex'. rewrite Ha in Ha'. rewrite Hb in Hb'.
    inversion Ha'; inversion Hb'; subst. reflexivity. }
  assert (Ext : memo_ext s F).
  { intros y t Hy. rewrite GM. destruct (Z.eqb_spec y x) as [->|]; [|exact Hy].
    rewrite (Hsame t Hy). reflexivity. }
  split; [|split; [exact Ext|rewrite GM, Z.eqb_refl; reflexivity]].
  intros y t. rewrite GM. destruct (Z.eqb_spec y x) as [->|Hne].
  - intros H; inversion H; subst t. exists ex, a, b. rewrite GE.
    split; [exact Hx|]. split; [eapply parent_lt_ext; eauto|]. split; [eapply parent_lt_ext; eauto|]. auto.
  - intros Hy. destruct (M y t Hy) as [ey [a' [b' [Hy' [Ha' [Hb' R]]]]]].
    exists ey, a', b'. rewrite GE. split; [exact Hy'|]. split; [eapply parent_lt_ext; eauto|].
    split; [eapply parent_lt_ext; eauto|exact R].
Qed.

Lemma ops_present_events st st' : events st' = events st -> ops_present st -> ops_present st'.
Proof. intros E H x ex. unfold get_event. rewrite E. apply H. Qed.

Lemma memo_consistent_events st st' :
  events st' = events st -> lt_memo st' = lt_memo st -> memo_consistent st -> memo_consistent st'.
Proof.
  intros E L M x t. unfold parent_lt, get_event. rewrite L, E. apply M.
Qed.

Lemma lamport_f_spec fuel : forall st x, ops_present st -> memo_consistent st ->
  memo_consistent (snd (lamport_f fuel st x)) /\ memo_ext st (snd (lamport_f fuel st x)) /\
  (forall t, fst (lamport_f fuel st x) = Some t -> zget x (lt_memo (snd (lamport_f fuel st x))) = Some t).
Proof.
  induction fuel as [|f IH]; intros st x OP M; cbn [lamport_f].
  - destruct (zget x (lt_memo st)) eqn:Hm; cbn [fst snd]; (split; [exact M|split; [apply memo_ext_refl|]]);
      [intros t H; inversion H; subst; exact Hm|discriminate].
  - destruct (zget x (lt_memo st)) eqn:Hm; cbn [fst snd].
    { split; [exact M|split; [apply memo_ext_refl|]]. intros t H; inversion H; subst; exact Hm. }
    destruct (get_event st x) as [ex|] eqn:Hx; [|cbn [fst snd]; split; [exact M|split; [apply memo_ext_refl|discriminate]]].
    set (sp := e_sp (ev_e ex)). set (op := e_op (ev_e ex)).
    (* self parent *)
    assert (H1 : exists o1 st1, (if sp =? -1 then (Some (-1), st) else lamport_f f st sp) = (o1, st1) /\
                 events st1 = events st /\ memo_consistent st1 /\ memo_ext st st1 /\
                 (forall plt, o1 = Some plt -> parent_lt st1 sp = Some plt)).
    { destruct (sp =? -1) eqn:Esp.
      - exists (Some (-1)), st. split; [reflexivity|]. split; [reflexivity|]. split; [exact M|].
        split; [apply memo_ext_refl|]. intros plt H; inversion H. unfold parent_lt. rewrite Esp. reflexivity.
      - pose proof (lamport_f_events f st sp) as Ev. destruct (IH st sp OP M) as [M1 [E1 O1]].
        destruct (lamport_f f st sp) as [o1 st1]. cbn [fst snd] in *. exists o1, st1.
        split; [reflexivity|]. split; [exact Ev|]. split; [exact M1|]. split; [exact E1|].
        intros plt ->. unfold parent_lt. rewrite Esp. apply O1. reflexivity. }
    destruct H1 as [o1 [st1 [E1 [Ev1 [M1 [X1 O1]]]]]]. rewrite E1.
    destruct o1 as [plt|]; [|cbn [fst snd]; split; [exact M1|split; [exact X1|discriminate]]].
    specialize (O1 plt eq_refl).
    assert (OP1 : ops_present st1) by (eapply ops_present_events; eauto).
    assert (Hx1 : get_event st1 x = Some ex) by (unfold get_event; rewrite Ev1; exact Hx).
    (* other parent *)
    assert (H2 : exists o2 st2,
               (if op =? -1 then (Some plt, st1)
                else match get_event st1 op with
                     | None => (Some (if plt <? min_int32 then min_int32 else plt), st1)
                     | Some _ => match lamport_f f st1 op with
                                 | (None, s) => (None, s)
                                 | (Some t, s) => (Some (if plt <? t then t else plt), s)
                                 end
                     end) = (o2, st2) /\
               events st2 = events st1 /\ memo_consistent st2 /\ memo_ext st1 st2 /\
               (forall m, o2 = Some m -> exists b, parent_lt st2 op = Some b /\ m = Z.max plt b)).
    { destruct (op =? -1) eqn:Eop.
      - exists (Some plt), st1. split; [reflexivity|]. split; [reflexivity|]. split; [exact M1|].
        split; [apply memo_ext_refl|]. intros m H; inversion H; subst m. exists (-1).
        unfold parent_lt. rewrite Eop. split; [reflexivity|]. pose proof (parent_lt_ge _ _ _ M1 O1). lia.
      - destruct (OP1 x ex Hx1) as [C|[po Hpo]]; [fold op in C; lia|]. fold op in Hpo. rewrite Hpo.
        pose proof (lamport_f_events f st1 op) as Ev. destruct (IH st1 op OP1 M1) as [M2 [E2 O2]].
        destruct (lamport_f f st1 op) as [[t|] st2]; cbn [fst snd] in *.
        + exists (Some (if plt <? t then t else plt)), st2. split; [reflexivity|]. split; [exact Ev|].
          split; [exact M2|]. split; [exact E2|]. intros m H; inversion H; subst m. exists t.
          unfold parent_lt. rewrite Eop. split; [apply O2; reflexivity|]. destruct (Z.ltb_spec plt t); lia.
        + exists None, st2. split; [reflexivity|]. split; [exact Ev|]. split; [exact M2|]. split; [exact E2|discriminate]. }
    destruct H2 as [o2 [st2 [E2 [Ev2 [M2 [X2 O2]]]]]]. rewrite E2.
    destruct o2 as [m|]; [|cbn [fst snd]; split; [exact M2|split; [eapply memo_ext_trans; eauto|discriminate]]].
    destruct (O2 m eq_refl) as [b [Hb ->]].
    assert (Hx2 : get_event st2 x = Some ex) by (unfold get_event; rewrite Ev2; exact Hx1).
    assert (Ha2 : parent_lt st2 sp = Some plt) by (eapply parent_lt_ext; eauto).
    pose proof (parent_lt_ge _ _ _ M2 Ha2) as Ga. pose proof (parent_lt_ge _ _ _ M2 Hb) as Gb.
    destruct (mc_set st2 x ex plt b M2 Hx2 Ha2 Hb Ga Gb) as [MF [XF OF]].
    cbn [fst snd]. replace (Z.max plt b + 1) with (1 + Z.max plt b) by lia.
    split; [exact MF|]. split; [eapply memo_ext_trans; [exact X1|eapply memo_ext_trans; eauto]|].
    intros t H; inversion H; subst t. exact OF.
Qed.

(** * Relations between states *)

(* events (up to fields other than body and timestamp) and the Lamport memo are kept *)
Definition ev_l (es : evst) := (ev_e es, ev_lt es).
Record lkeep (st st' : hg) : Prop := {
  k_lt : lt_memo st' = lt_memo st;
  k_ev : forall x, option_map ev_l (get_event st' x) = option_map ev_l (get_event st x)
}.
Lemma lkeep_refl st : lkeep st st.
Proof. constructor; reflexivity. Qed.
Lemma lkeep_trans a b c : lkeep a b -> lkeep b c -> lkeep a c.
Proof. intros [A1 A2] [B1 B2]. constructor; congruence. Qed.

Lemma okeep_lkeep st st' : okeep st st' -> lkeep st st'.
Proof.
  intros O. constructor; [apply (o_lt _ _ O)|]. intros x. pose proof (o_ev _ _ O x) as H.
  destruct (get_event st' x) as [a|], (get_event st x) as [b|]; cbn in *; try discriminate; [|reflexivity].
  unfold ev_b, ev_l in *. inversion H. reflexivity.
Qed.

Lemma lkeep_fwd st st' x es : lkeep st st' -> get_event st x = Some es ->
  exists es', get_event st' x = Some es' /\ ev_e es' = ev_e es /\ ev_lt es' = ev_lt es.
Proof.
  intros K H. pose proof (k_ev _ _ K x) as E. rewrite H in E.
  destruct (get_event st' x) as [es'|]; [|discriminate]. cbn in E. unfold ev_l in E. inversion E. eauto.
Qed.
Lemma lkeep_bwd st st' x es' : lkeep st st' -> get_event st' x = Some es' ->
  exists es, get_event st x = Some es /\ ev_e es' = ev_e es /\ ev_lt es' = ev_lt es.
Proof.
  intros K H. pose proof (k_ev _ _ K x) as E. rewrite H in E.
  destruct (get_event st x) as [es|]; [|discriminate]. cbn in E. unfold ev_l in E. inversion E. eauto.
Qed.

(** * Event timestamps *)
Record linv (st : hg) : Prop := {
  l_memo : memo_consistent st;
  l_ev : forall x ex t, get_event st x = Some ex -> ev_lt ex = Some t -> zget x (lt_memo st) = Some t;
  l_par : forall x ex t p, get_event st x = Some ex -> ev_lt ex = Some t ->
          (p = e_sp (ev_e ex) \/ p = e_op (ev_e ex)) -> p <> -1 ->
          exists ep tp, get_event st p = Some ep /\ ev_lt ep = Some tp
}.

Lemma memo_consistent_lkeep st st' : lkeep st st' -> memo_consistent st -> memo_consistent st'.
Proof.
  intros K M x t. unfold parent_lt. rewrite (k_lt _ _ K). intros H.
  destruct (M x t H) as [ex [a [b [Hx R]]]].
  destruct (lkeep_fwd _ _ _ _ K Hx) as [ex' [Hx' [Ee _]]]. exists ex', a, b. rewrite Ee. auto.
Qed.

Lemma linv_lkeep st st' : lkeep st st' -> linv st -> linv st'.
Proof.
  intros K [M E P]. constructor.
  - eapply memo_consistent_lkeep; eauto.
  - intros x ex' t Hx Ht. rewrite (k_lt _ _ K). destruct (lkeep_bwd _ _ _ _ K Hx) as [ex [Hx0 [_ El]]].
    eapply E; eauto. congruence.
  - intros x ex' t p Hx Ht Hp Hn. destruct (lkeep_bwd _ _ _ _ K Hx) as [ex [Hx0 [Ee El]]].
    rewrite Ee in Hp. destruct (P x ex t p Hx0 ltac:(congruence) Hp Hn) as [ep [tp [Hp0 Htp]]].
    destruct (lkeep_fwd _ _ _ _ K Hp0) as [ep' [Hp' [_ El']]]. exists ep', tp. split; [auto|congruence].
Qed.

Lemma ops_present_lkeep st st' : lkeep st st' -> ops_present st -> ops_present st'.
Proof.
  intros K O x ex' Hx. destruct (lkeep_bwd _ _ _ _ K Hx) as [ex [Hx0 [Ee _]]]. rewrite Ee.
  destruct (O x ex Hx0) as [?|[po Hpo]]; [left; auto|right].
  destruct (lkeep_fwd _ _ _ _ K Hpo) as [po' [Hpo' _]]. eauto.
Qed.

(* state of DivideRounds after the insertion of event n: only n may lack a timestamp *)
Record dinv (n : Z) (st : hg) : Prop := {
  d_l : linv st;
  d_ops : ops_present st;
  d_only : failed st = false -> forall y ey, get_event st y = Some ey -> ev_lt ey = None -> y = n
}.

Lemma dinv_okeep n st st' : okeep st st' -> (failed st' = false -> failed st = false) -> dinv n st -> dinv n st'.
Proof.
  intros O Hf [L Op On]. pose proof (okeep_lkeep _ _ O) as K. constructor.
  - eapply linv_lkeep; eauto.
  - eapply ops_present_lkeep; eauto.
  - intros F y ey' Hy Hn. destruct (lkeep_bwd _ _ _ _ K Hy) as [ey [Hy0 [_ El]]].
    eapply On; eauto. congruence.
Qed.

Lemma failed_okeep_nomemo st st' : nomemo st' = nomemo st -> failed st' = failed st.
Proof. apply failed_nomemo. Qed.

(* failure is never undone by divide_round *)
Lemma divide_round_failed_mono st x : failed (divide_round st x) = false -> failed st = false.
Proof.
  unfold divide_round.
  pose proof (failed_nomemo _ _ (round_f_nomemo (fuel_of st) st x)) as Fr.
  destruct (round_f (fuel_of st) st x) as [[r|] s]; cbn [snd] in Fr; [|rewrite failed_fail; discriminate].
  cbv zeta.
  set (s1 := set_event_round s x r). set (ri := round_or_new s1 r). set (s2 := maybe_queue s1 r ri).
  assert (F1 : failed s1 = failed s).
  { subst s1. unfold set_event_round. destruct (get_event s x); [destruct s; reflexivity|reflexivity]. }
  assert (F2 : failed s2 = failed s1).
  { subst s2. unfold maybe_queue. destruct (_ && _ && _); [destruct s1; reflexivity|reflexivity]. }
  pose proof (failed_nomemo _ _ (witness_f_nomemo (fuel_of s2) s2 x)) as Fw.
  destruct (witness_f (fuel_of s2) s2 x) as [[w|] s']; cbn [snd] in Fw; [|rewrite failed_fail; discriminate].
  replace (failed (set_round s' r (add_created ri x w))) with (failed s') by (destruct s'; reflexivity).
  congruence.
Qed.

Lemma divide_lt_dinv n st x ev1 :
  dinv n st -> failed st = false -> get_event st x = Some ev1 -> ev_lt ev1 = None -> dinv n (divide_lt st x).
Proof.
  intros [L Op On] Hf Hx Hnone. unfold divide_lt.
  destruct (lamport_f_spec (fuel_of st) st x Op (l_memo st L)) as [M1 [X1 O1]].
  pose proof (lamport_f_events (fuel_of st) st x) as Ev.
  pose proof (failed_nomemo _ _ (lamport_f_nomemo (fuel_of st) st x)) as Ff.
  destruct (lamport_f (fuel_of st) st x) as [[t|] s]; cbn [fst snd] in *.
  - (* the timestamp is recorded in the event *)
    specialize (O1 t eq_refl).
    assert (G : forall y, get_event s y = get_event st y) by (intros y; unfold get_event; rewrite Ev; reflexivity).
    unfold set_event_lt. rewrite G, Hx.
    set (ev2 := ev1 <| ev_lt := Some t |>). set (R := set_evst s x ev2).
    assert (H0 : 0 <= x) by (eapply zget_some_nonneg; exact Hx).
    assert (GR : forall y, get_event R y = if y =? x then Some ev2 else get_event st y).
    { intros y. subst R. rewrite get_event_set_evst, G, (Z.eqb_sym y).
      destruct (x =? y); cbn [andb]; [|reflexivity]. replace (0 <=? x) with true by lia. reflexivity. }
    assert (LR : lt_memo R = lt_memo s) by (destruct s; reflexivity).
    assert (Ee : ev_e ev2 = ev_e ev1) by (destruct ev1; reflexivity).
    (* the parents of x carry a timestamp *)
    assert (Hpar : forall p, (p = e_sp (ev_e ev1) \/ p = e_op (ev_e ev1)) -> p <> -1 ->
                     p <> x /\ exists ep tp, get_event st p = Some ep /\ ev_lt ep = Some tp).
    { intros p Hp Hn. destruct (M1 x t O1) as [ex [a [b [Hxs [Ha [Hb [Ga [Gb Et]]]]]]]].
      rewrite G, Hx in Hxs. inversion Hxs; subst ex.
      assert (Hm : exists c, zget p (lt_memo s) = Some c /\ c < t).
      { unfold parent_lt in Ha, Hb. destruct Hp as [->| ->].
        - replace (e_sp (ev_e ev1) =? -1) with false in Ha by lia. exists a. split; [exact Ha|lia].
        - replace (e_op (ev_e ev1) =? -1) with false in Hb by lia. exists b. split; [exact Hb|lia]. }
      destruct Hm as [c [Hc Hlt]].
      assert (Hne : p <> x) by (intros ->; rewrite O1 in Hc; inversion Hc; lia).
      split; [exact Hne|].
      destruct (M1 p c Hc) as [ep [_ [_ [Hep _]]]]. rewrite G in Hep.
      destruct (ev_lt ep) as [tp|] eqn:Hl; [eauto|].
      exfalso. apply Hne. rewrite (On Hf p ep Hep Hl). symmetry. eapply On; eauto. }
    constructor; [constructor| |].
    + intros y ty. unfold parent_lt. rewrite LR. intros Hy.
      destruct (M1 y ty Hy) as [ey [a [b [Hys R0]]]]. rewrite G in Hys.
      destruct (Z.eqb_spec y x) as [->|Hne].
      * exists ev2, a, b. rewrite GR, Z.eqb_refl, Ee. rewrite Hx in Hys. inversion Hys; subst ey. auto.
      * exists ey, a, b. rewrite GR. replace (y =? x) with false by lia. auto.
    + intros y ey ty. rewrite GR, LR. destruct (Z.eqb_spec y x) as [->|Hne].
      * intros H; inversion H; subst ey. cbn. intros H'; inversion H'; subst ty. exact O1.
      * intros Hy Hty. apply X1. eapply (l_ev st L); eauto.
    + intros y ey ty p. rewrite GR. destruct (Z.eqb_spec y x) as [->|Hne].
      * intros H; inversion H; subst ey. rewrite Ee. intros _ Hp Hn.
        destruct (Hpar p Hp Hn) as [Hpx [ep [tp [Hep Htp]]]]. exists ep, tp. rewrite GR.
        replace (p =? x) with false by lia. auto.
      * intros Hy Hty Hp Hn. destruct (l_par st L y ey ty p Hy Hty Hp Hn) as [ep [tp [Hep Htp]]].
        rewrite GR. destruct (Z.eqb_spec p x) as [->|Hpx]; [|eauto].
        exists ev2, t. split; [reflexivity|destruct ev1; reflexivity].
    + intros y ey. rewrite GR. destruct (Z.eqb_spec y x) as [->|Hne].
      * intros H; inversion H; subst ey. rewrite Ee. rewrite GR.
        destruct (Op x ev1 Hx) as [?|[po Hpo]]; [left; auto|right].
        destruct (Z.eqb_spec (e_op (ev_e ev1)) x); eauto.
      * intros Hy. destruct (Op y ey Hy) as [?|[po Hpo]]; [left; auto|right]. rewrite GR.
        destruct (Z.eqb_spec (e_op (ev_e ey)) x); eauto.
    + intros _ y ey. rewrite GR. destruct (Z.eqb_spec y x) as [->|Hne].
      * intros H; inversion H; subst ey. cbn. discriminate.
      * intros Hy Hl. eapply On; eauto.
  - (* failure: only the memo table may have grown *)
    assert (G : forall y, get_event (fail s) y = get_event st y).
    { intros y. unfold get_event. replace (events (fail s)) with (events s) by (destruct s; reflexivity). rewrite Ev. reflexivity. }
    assert (LF : lt_memo (fail s) = lt_memo s) by (destruct s; reflexivity).
    constructor; [constructor| |].
    + intros y ty. unfold parent_lt. rewrite LF. intros Hy.
      destruct (M1 y ty Hy) as [ey [a [b [Hys R0]]]].
      exists ey, a, b. rewrite G. unfold get_event in Hys. rewrite Ev in Hys. auto.
    + intros y ey ty. rewrite G, LF. intros Hy Hty. apply X1. eapply (l_ev st L); eauto.
    + intros y ey ty p. rewrite G. intros Hy Hty Hp Hn.
      destruct (l_par st L y ey ty p Hy Hty Hp Hn) as [ep [tp [Hep Htp]]]. exists ep, tp. rewrite G. auto.
    + intros y ey. rewrite G. intros Hy. destruct (Op y ey Hy) as [?|[po Hpo]]; [left; auto|right]. rewrite G. eauto.
    + rewrite failed_fail. discriminate.
Qed.

Lemma divide_one_failed st x : failed st = true -> divide_one st x = st.
Proof. intros H. unfold divide_one. rewrite H. reflexivity. Qed.

Lemma divide_one_dinv n st x : dinv n st -> dinv n (divide_one st x).
Proof.
  intros D. unfold divide_one.
  destruct (failed st) eqn:Hf; [exact D|].
  destruct (get_event st x) as [ev|]; [|eapply dinv_okeep; [apply okeep_fail|rewrite failed_fail; discriminate|exact D]].
  cbv zeta.
  set (st1 := match ev_round ev with Some _ => st | None => divide_round st x end).
  assert (D1 : dinv n st1).
  { subst st1. destruct (ev_round ev); [exact D|].
    eapply dinv_okeep; [apply divide_round_okeep|apply divide_round_failed_mono|exact D]. }
  destruct (failed st1) eqn:Hf1; [exact D1|].
  destruct (get_event st1 x) as [ev1|] eqn:Hx1;
    [|eapply dinv_okeep; [apply okeep_fail|rewrite failed_fail; discriminate|exact D1]].
  destruct (ev_lt ev1) eqn:Hl; [exact D1|]. eapply divide_lt_dinv; eauto.
Qed.

(* after divide_one x, the state is failed or x carries a timestamp; later divisions keep that *)
Definition lt_done (st : hg) (x : Z) : Prop :=
  failed st = true \/ exists ex t, get_event st x = Some ex /\ ev_lt ex = Some t.

Lemma divide_lt_lt_done st x y : lt_done st x -> lt_done (divide_lt st y) x.
Proof.
  intros [Hf|[ex [t [Hx Ht]]]]; unfold divide_lt.
  - left. pose proof (failed_nomemo _ _ (lamport_f_nomemo (fuel_of st) st y)) as Ff.
    destruct (lamport_f (fuel_of st) st y) as [[t|] s]; cbn [snd] in *; [|apply failed_fail].
    unfold set_event_lt. destruct (get_event s y); [|congruence].
    replace (failed (set_evst s y _)) with (failed s) by (destruct s; reflexivity). congruence.
  - pose proof (lamport_f_events (fuel_of st) st y) as Ev.
    destruct (lamport_f (fuel_of st) st y) as [[t'|] s]; cbn [snd] in *; [|left; apply failed_fail].
    right. assert (G : forall z, get_event s z = get_event st z) by (intros z; unfold get_event; rewrite Ev; reflexivity).
    unfold set_event_lt. destruct (get_event s y) as [ey|] eqn:Hy; [|exists ex, t; rewrite G; auto].
    rewrite get_event_set_evst. destruct ((y =? x) && (0 <=? y)) eqn:E.
    + exists (ey <| ev_lt := Some t' |>), t'. split; [reflexivity|destruct ey; reflexivity].
    + exists ex, t. rewrite G. auto.
Qed.

Lemma okeep_lt_done st st' x : okeep st st' -> (failed st = true -> failed st' = true) -> lt_done st x -> lt_done st' x.
Proof.
  intros O Hf [F|[ex [t [Hx Ht]]]]; [left; auto|right].
  destruct (lkeep_fwd _ _ _ _ (okeep_lkeep _ _ O) Hx) as [ex' [Hx' [_ El]]]. exists ex', t. split; [auto|congruence].
Qed.

Lemma divide_round_failed_keep st x : failed st = true -> failed (divide_round st x) = true.
Proof.
  intros H. destruct (failed (divide_round st x)) eqn:E; [reflexivity|].
  apply divide_round_failed_mono in E. congruence.
Qed.

Lemma divide_one_lt_done st x y : lt_done st x -> lt_done (divide_one st y) x.
Proof.
  intros D. unfold divide_one.
  destruct (failed st) eqn:Hf; [exact D|].
  destruct (get_event st y) as [ev|]; [|left; apply failed_fail]. cbv zeta.
  set (st1 := match ev_round ev with Some _ => st | None => divide_round st y end).
  assert (D1 : lt_done st1 x).
  { subst st1. destruct (ev_round ev); [exact D|].
    eapply okeep_lt_done; [apply divide_round_okeep|apply divide_round_failed_keep|exact D]. }
  destruct (failed st1) eqn:Hf1; [exact D1|].
  destruct (get_event st1 y) as [ev1|]; [|left; apply failed_fail].
  destruct (ev_lt ev1); [exact D1|apply divide_lt_lt_done; exact D1].
Qed.

Lemma divide_one_does st x : lt_done (divide_one st x) x.
Proof.
  unfold divide_one.
  destruct (failed st) eqn:Hf; [left; exact Hf|].
  destruct (get_event st x) as [ev|]; [|left; apply failed_fail]. cbv zeta.
  set (st1 := match ev_round ev with Some _ => st | None => divide_round st x end).
  destruct (failed st1) eqn:Hf1; [left; exact Hf1|].
  destruct (get_event st1 x) as [ev1|] eqn:Hx1; [|left; apply failed_fail].
  destruct (ev_lt ev1) as [t|] eqn:Hl; [right; eauto|].
  unfold divide_lt. pose proof (lamport_f_events (fuel_of st1) st1 x) as Ev.
  destruct (lamport_f (fuel_of st1) st1 x) as [[t|] s]; cbn [snd] in *; [|left; apply failed_fail].
  right. unfold set_event_lt.
  assert (G : get_event s x = Some ev1) by (unfold get_event; rewrite Ev; exact Hx1). rewrite G.
  assert (H0 : 0 <= x) by (eapply zget_some_nonneg; exact Hx1).
  rewrite get_event_set_evst, Z.eqb_refl. replace (0 <=? x) with true by lia. cbn [andb].
  exists (ev1 <| ev_lt := Some t |>), t. split; [reflexivity|destruct ev1; reflexivity].
Qed.

Lemma divide_rounds_dinv n st : dinv n st -> In n (undetermined st) ->
  dinv n (divide_rounds st) /\ lt_done (divide_rounds st) n.
Proof.
  unfold divide_rounds. generalize (undetermined st). intros l D Hin.
  assert (G : forall l s, dinv n s -> dinv n (fold_left divide_one l s)).
  { induction l0 as [|x l0 IH]; intros s Ds; cbn [fold_left]; [exact Ds|]. apply IH, divide_one_dinv, Ds. }
  assert (Q : forall l s, lt_done s n -> lt_done (fold_left divide_one l s) n).
  { induction l0 as [|x l0 IH]; intros s Ds; cbn [fold_left]; [exact Ds|]. apply IH, divide_one_lt_done, Ds. }
  split; [apply G; exact D|].
  revert st D Hin. induction l as [|x l IH]; intros st D Hin; [destruct Hin|]. cbn [fold_left].
  destruct Hin as [->|Hin]; [apply Q, divide_one_does|].
  apply IH; [apply divide_one_dinv; exact D|exact Hin].
Qed.

(** * What an admitted insertion does to the components of interest *)
Lemma insert_ok_shape st e st' :
  get_event st (e_id e) = None -> 0 <= e_id e -> insert_event st e = (InsOk, st') ->
  lt_memo st' = lt_memo st /\
  (forall x, option_map ev_b (get_event st' x) =
             if x =? e_id e then Some (e, None, None) else option_map ev_b (get_event st x)) /\
  (forall r, rcv st' r = rcv st r) /\
  undetermined st' = undetermined st ++ [e_id e] /\ frames st' = frames st.
Proof.
  intros Hfresh Hid. unfold insert_event.
  destruct (negb (e_sigok e)); [discriminate|].
  destruct (check_self_parent st e); try discriminate.
  destruct (check_other_parent st e); try discriminate.
  unfold insert_admitted. cbv zeta.
  set (st1 := st <| topo := topo st + 1 |>).
  set (es := mkEvst e None None None _ _ _).
  destruct (store_set_event st1 es) as [st2|] eqn:Hst; [|discriminate].
  intros Hres.
  (* the store *)
  assert (S2 : lt_memo st2 = lt_memo st /\ rounds st2 = rounds st /\ undetermined st2 = undetermined st /\
               frames st2 = frames st /\
               forall x, get_event st2 x = if x =? e_id e then Some es else get_event st x).
  { revert Hst. unfold store_set_event. change (e_id (ev_e es)) with (e_id e).
    replace (get_event st1 (e_id e)) with (get_event st (e_id e)) by (destruct st; reflexivity). rewrite Hfresh.
    destruct (zget _ _); [|discriminate]. destruct (pidx_set _ _ _); [|discriminate].
    intros H; inversion H; subst st2; clear H.
    repeat (split; [destruct st; reflexivity|]).
    intros x. rewrite get_event_set_evst, (Z.eqb_sym x). replace (0 <=? e_id e) with true by lia.
    rewrite andb_true_r. destruct (e_id e =? x); [reflexivity|destruct st; reflexivity]. }
  destruct S2 as [L2 [R2 [U2 [F2 G2]]]].
  pose proof (update_ancestor_fd_okeep st2 e (fst (init_coords st1 e))) as O3.
  set (st3 := update_ancestor_fd st2 e (fst (init_coords st1 e))) in *.
  set (st4 := st3 <| undetermined := undetermined st3 ++ [e_id e] |>).
  set (st5 := if is_loaded e then st4 <| pending_loaded := pending_loaded st4 + 1 |> else st4).
  set (st6 := st5 <| sigpool := fold_left sigpool_add (e_sigs e) (sigpool st5) |>).
  assert (E' : st' = st6) by (inversion Hres; reflexivity). clear Hres. rewrite E'. clear E' st'.
  assert (E46 : lt_memo st6 = lt_memo st3 /\ events st6 = events st3 /\ rounds st6 = rounds st3 /\
                undetermined st6 = undetermined st3 ++ [e_id e] /\ frames st6 = frames st3).
  { subst st6 st5 st4. destruct (is_loaded e); destruct st3; cbn; auto. }
  destruct E46 as [L6 [E6 [R6 [U6 F6]]]].
  split; [rewrite L6, (o_lt _ _ O3); exact L2|].
  split.
  { intros x. unfold get_event. rewrite E6. fold (get_event st3 x). rewrite (o_ev _ _ O3 x), G2.
    destruct (x =? e_id e); reflexivity. }
  split.
  { intros r. unfold rcv, get_round. rewrite R6. fold (get_round st3 r). fold (rcv st3 r).
    rewrite (o_rcv _ _ O3 r). unfold rcv, get_round. rewrite R2. reflexivity. }
  split; [rewrite U6, (o_und _ _ O3), U2; reflexivity|].
  rewrite F6, (o_fr _ _ O3). exact F2.
Qed.

(** * DecideRoundReceived, one event *)
Record ekeep (st st' : hg) : Prop := {
  ek_ev : events st' = events st;
  ek_lt : lt_memo st' = lt_memo st;
  ek_und : undetermined st' = undetermined st;
  ek_fr : frames st' = frames st;
  ek_rcv : forall r, rcv st' r = rcv st r
}.
Lemma ekeep_refl st : ekeep st st.
Proof. constructor; reflexivity. Qed.
Lemma ekeep_trans a b c : ekeep a b -> ekeep b c -> ekeep a c.
Proof. intros [A1 A2 A3 A4 A5] [B1 B2 B3 B4 B5]. constructor; congruence. Qed.
Lemma ekeep_fail st : ekeep st (fail st).
Proof. constructor; destruct st; reflexivity. Qed.
Lemma ekeep_nort st st' : nort st' = nort st -> ekeep st st'.
Proof.
  intros H. constructor.
  - apply (f_equal events) in H; destruct st, st'; exact H.
  - apply (f_equal lt_memo) in H; destruct st, st'; exact H.
  - apply (f_equal undetermined) in H; destruct st, st'; exact H.
  - apply (f_equal frames) in H; destruct st, st'; exact H.
  - intros r. unfold rcv, get_round. apply (f_equal rounds) in H.
    replace (rounds st') with (rounds st) by (destruct st, st'; symmetry; exact H). reflexivity.
Qed.
Lemma ekeep_get_event st st' x : ekeep st st' -> get_event st' x = get_event st x.
Proof. intros K. unfold get_event. rewrite (ek_ev _ _ K). reflexivity. Qed.

(* x receives round i: its field is set and it is appended to the received list of round i *)
Definition received_at (st st' : hg) (x i : Z) : Prop :=
  exists ex, get_event st x = Some ex /\
    (forall y, get_event st' y = if y =? x then Some (ex <| ev_rr := Some i |>) else get_event st y) /\
    (forall r, rcv st' r = if r =? i then rcv st r ++ [x] else rcv st r) /\
    lt_memo st' = lt_memo st /\ undetermined st' = undetermined st /\ frames st' = frames st.

Lemma ekeep_received st s1 st' x i : ekeep st s1 -> received_at s1 st' x i -> received_at st st' x i.
Proof.
  intros K [ex [Hx [G [R [L [U F]]]]]]. exists ex.
  rewrite (ekeep_get_event _ _ x K) in Hx. split; [exact Hx|].
  split; [intros y; rewrite G, (ekeep_get_event _ _ y K); reflexivity|].
  split; [intros r; rewrite R, (ek_rcv _ _ K); reflexivity|].
  rewrite L, U, F, (ek_lt _ _ K), (ek_und _ _ K), (ek_fr _ _ K). auto.
Qed.

Lemma rr_loop_spec x : forall is_ st,
  (snd (rr_loop st x is_) = false -> ekeep st (fst (rr_loop st x is_))) /\
  (snd (rr_loop st x is_) = true -> exists i, received_at st (fst (rr_loop st x is_)) x i).
Proof.
  induction is_ as [|i rest IH]; intros st; cbn [rr_loop].
  { cbn [fst snd]. split; [intros _; apply ekeep_refl|discriminate]. }
  destruct (get_round st i) as [tr|] eqn:Htr;
    [|destruct (lower_bound st) as [lb0|]; [destruct (i <=? lb0); [apply IH|]|];
      (cbn [fst snd]; split; [intros _; apply ekeep_refl|discriminate])].
  destruct (get_peerset st i) as [tps|]; [|cbn [fst snd]; split; [intros _; apply ekeep_fail|discriminate]].
  pose proof (witnesses_decided_received tr tps) as Wr.
  destruct (witnesses_decided tr tps) as [d tr']. cbn [snd] in Wr.
  set (st1 := st <| rounds := zset i tr' (rounds st) |>).
  assert (H0 : 0 <= i) by (eapply zget_some_nonneg; exact Htr).
  assert (K1 : ekeep st st1).
  { constructor; try (destruct st; reflexivity). intros r. unfold rcv, get_round.
    replace (rounds st1) with (zset i tr' (rounds st)) by (destruct st; reflexivity). rewrite zget_zset.
    destruct (Z.eqb_spec i r) as [->|]; cbn [andb]; [|reflexivity].
    replace (0 <=? r) with true by lia. unfold get_round in Htr. rewrite Htr. exact Wr. }
  assert (Rec : forall s', (snd (rr_loop st1 x rest) = false -> ekeep st1 (fst (rr_loop st1 x rest))) /\
                           (snd (rr_loop st1 x rest) = true -> exists j, received_at st1 (fst (rr_loop st1 x rest)) x j) ->
                s' = rr_loop st1 x rest ->
                (snd s' = false -> ekeep st (fst s')) /\ (snd s' = true -> exists j, received_at st (fst s') x j)).
  { intros s' [A B] ->. split; [intros H; eapply ekeep_trans; [exact K1|apply A, H]|].
    intros H. destruct (B H) as [j Hj]. exists j. eapply ekeep_received; eauto. }
  destruct d; cbn [negb].
  - match goal with |- context [fold_left ?f ?l ?a] => destruct (fold_left f l a) as [sees|] end;
      [|cbn [fst snd]; split; [intros _; eapply ekeep_trans; [exact K1|apply ekeep_fail]|discriminate]].
    destruct (_ && _).
    + destruct (get_event st1 x) as [ex|] eqn:Hx; cbn [fst snd];
        [|split; [intros _; eapply ekeep_trans; [exact K1|apply ekeep_fail]|discriminate]].
      split; [discriminate|]. intros _. exists i. eapply ekeep_received; [exact K1|].
      assert (Hx0 : 0 <= x) by (eapply zget_some_nonneg; exact Hx).
      exists ex. split; [exact Hx|].
      set (st2 := set_evst st1 x (ex <| ev_rr := Some i |>)).
      set (F := set_round st2 i (tr' <| ri_received := ri_received tr' ++ [x] |>)).
      split; [|split; [|subst F st2; destruct st1; cbn; auto]].
      * intros y. replace (get_event F y) with (get_event st2 y) by (subst F; destruct st2; reflexivity).
        subst st2. rewrite get_event_set_evst, (Z.eqb_sym y). replace (0 <=? x) with true by lia.
        rewrite andb_true_r. reflexivity.
      * intros r. subst F. rewrite rcv_set_round, (Z.eqb_sym r). replace (0 <=? i) with true by lia.
        rewrite andb_true_r. replace (rcv st2 r) with (rcv st1 r) by (subst st2; destruct st1; reflexivity).
        destruct (Z.eqb_spec i r) as [->|]; [|reflexivity]. cbn [ri_received].
        replace (ri_received (tr' <| ri_received := ri_received tr' ++ [x] |>)) with (ri_received tr' ++ [x]) by (destruct tr'; reflexivity).
        f_equal. rewrite (ek_rcv _ _ K1). unfold rcv. rewrite Htr. exact Wr.
    + eapply Rec; [apply IH|reflexivity].
  - destruct (lower_bound st1) as [lb|]; [|cbn [fst snd]; split; [intros _; exact K1|discriminate]].
    destruct (lb <? i); [cbn [fst snd]; split; [intros _; exact K1|discriminate]|].
    eapply Rec; [apply IH|reflexivity].
Qed.

(** * Round-received is assigned once; received lists *)
Record oinv (st : hg) : Prop := {
  u_ex : forall x, In x (undetermined st) -> exists ex, get_event st x = Some ex;
  u_nodup : NoDup (undetermined st);
  u_none : failed st = false -> forall x ex, In x (undetermined st) -> get_event st x = Some ex -> ev_rr ex = None;
  c_in : forall r x, In x (rcv st r) -> exists ex, get_event st x = Some ex /\ ev_rr ex = Some r;
  c_nodup : forall r, NoDup (rcv st r);
  c_listed : forall x ex r, get_event st x = Some ex -> ev_rr ex = Some r -> In x (rcv st r)
}.

Definition ev_r (es : evst) := (ev_e es, ev_rr es).
Record qkeep (st st' : hg) : Prop := {
  q_ev : forall x, option_map ev_r (get_event st' x) = option_map ev_r (get_event st x);
  q_rcv : forall r, rcv st' r = rcv st r;
  q_und : undetermined st' = undetermined st
}.
Lemma qkeep_refl st : qkeep st st.
Proof. constructor; reflexivity. Qed.
Lemma qkeep_trans a b c : qkeep a b -> qkeep b c -> qkeep a c.
Proof. intros [A1 A2 A3] [B1 B2 B3]. constructor; congruence. Qed.

Lemma okeep_qkeep st st' : okeep st st' -> qkeep st st'.
Proof.
  intros O. constructor; [|apply (o_rcv _ _ O)|apply (o_und _ _ O)]. intros x. pose proof (o_ev _ _ O x) as H.
  destruct (get_event st' x) as [a|], (get_event st x) as [b|]; cbn in *; try discriminate; [|reflexivity].
  unfold ev_b, ev_r in *. inversion H. reflexivity.
Qed.

Lemma qkeep_fwd st st' x es : qkeep st st' -> get_event st x = Some es ->
  exists es', get_event st' x = Some es' /\ ev_e es' = ev_e es /\ ev_rr es' = ev_rr es.
Proof.
  intros K H. pose proof (q_ev _ _ K x) as E. rewrite H in E.
  destruct (get_event st' x) as [es'|]; [|discriminate]. cbn in E. unfold ev_r in E. inversion E. eauto.
Qed.
Lemma qkeep_bwd st st' x es' : qkeep st st' -> get_event st' x = Some es' ->
  exists es, get_event st x = Some es /\ ev_e es' = ev_e es /\ ev_rr es' = ev_rr es.
Proof.
  intros K H. pose proof (q_ev _ _ K x) as E. rewrite H in E.
  destruct (get_event st x) as [es|]; [|discriminate]. cbn in E. unfold ev_r in E. inversion E. eauto.
Qed.

Lemma oinv_qkeep st st' : qkeep st st' -> (failed st' = false -> failed st = false) -> oinv st -> oinv st'.
Proof.
  intros K Hf [A1 A2 A3 A4 A5 A6]. constructor.
  - intros x. rewrite (q_und _ _ K). intros Hin. destruct (A1 x Hin) as [ex Hx].
    destruct (qkeep_fwd _ _ _ _ K Hx) as [ex' [Hx' _]]. eauto.
  - rewrite (q_und _ _ K). exact A2.
  - intros F x ex'. rewrite (q_und _ _ K). intros Hin Hx'.
    destruct (qkeep_bwd _ _ _ _ K Hx') as [ex [Hx [_ Er]]]. rewrite Er. eapply A3; eauto.
  - intros r x. rewrite (q_rcv _ _ K). intros Hin. destruct (A4 r x Hin) as [ex [Hx Hr]].
    destruct (qkeep_fwd _ _ _ _ K Hx) as [ex' [Hx' [_ Er]]]. exists ex'. split; [auto|congruence].
  - intros r. rewrite (q_rcv _ _ K). apply A5.
  - intros x ex' r Hx' Hr. rewrite (q_rcv _ _ K).
    destruct (qkeep_bwd _ _ _ _ K Hx') as [ex [Hx [_ Er]]]. eapply A6; eauto. congruence.
Qed.

(* monotone facts across any pass *)
Definition rr_mono (st st' : hg) : Prop :=
  forall x ex r, get_event st x = Some ex -> ev_rr ex = Some r ->
    exists ex', get_event st' x = Some ex' /\ ev_rr ex' = Some r.
(* stored events stay, with the same body *)
Definition eext (st st' : hg) : Prop :=
  forall x ex, get_event st x = Some ex -> exists ex', get_event st' x = Some ex' /\ ev_e ex' = ev_e ex.
Record rmono (st st' : hg) : Prop := {
  m_rr : rr_mono st st';
  m_rcv : forall r, incl (rcv st r) (rcv st' r);
  m_memo : memo_ext st st';
  m_e : eext st st'
}.
Lemma rmono_refl st : rmono st st.
Proof.
  constructor; [intros x ex r H1 H2; eauto|intros r; apply incl_refl|apply memo_ext_refl|intros x ex H; eauto].
Qed.
Lemma rmono_trans a b c : rmono a b -> rmono b c -> rmono a c.
Proof.
  intros [A1 A2 A3 A4] [B1 B2 B3 B4]. constructor.
  - intros x ex r H1 H2. destruct (A1 x ex r H1 H2) as [ex' [H1' H2']]. eapply B1; eauto.
  - intros r. eapply incl_tran; eauto.
  - eapply memo_ext_trans; eauto.
  - intros x ex H. destruct (A4 x ex H) as [ex' [H' E']]. destruct (B4 x ex' H') as [ex'' [H'' E'']].
    exists ex''. split; [auto|congruence].
Qed.
Lemma rmono_qkeep st st' : qkeep st st' -> memo_ext st st' -> rmono st st'.
Proof.
  intros K M. constructor; [|intros r; rewrite (q_rcv _ _ K); apply incl_refl|exact M|].
  - intros x ex r Hx Hr. destruct (qkeep_fwd _ _ _ _ K Hx) as [ex' [Hx' [_ Er]]]. exists ex'. split; [auto|congruence].
  - intros x ex Hx. destruct (qkeep_fwd _ _ _ _ K Hx) as [ex' [Hx' [Ee _]]]. eauto.
Qed.
Lemma rmono_okeep st st' : okeep st st' -> rmono st st'.
Proof.
  intros O. apply rmono_qkeep; [apply okeep_qkeep; exact O|]. intros y t. rewrite (o_lt _ _ O). auto.
Qed.

Lemma ekeep_qkeep st st' : ekeep st st' -> qkeep st st'.
Proof.
  intros K. constructor; [|apply (ek_rcv _ _ K)|apply (ek_und _ _ K)].
  intros x. rewrite (ekeep_get_event _ _ x K). reflexivity.
Qed.
Lemma rmono_ekeep st st' : ekeep st st' -> rmono st st'.
Proof. intros K. apply rmono_qkeep; [apply ekeep_qkeep; exact K|]. intros y t. rewrite (ek_lt _ _ K). auto. Qed.

Lemma rmono_received st st' x i ex :
  received_at st st' x i -> get_event st x = Some ex -> ev_rr ex = None -> rmono st st'.
Proof.
  intros [ex0 [Hx [G [R [L _]]]]] Hx' Hn. rewrite Hx in Hx'. inversion Hx'; subst ex0.
  constructor.
  - intros y ey r Hy Hr. rewrite G. destruct (Z.eqb_spec y x) as [->|]; [|eauto].
    rewrite Hx in Hy. inversion Hy; subst. congruence.
  - intros r. rewrite R. destruct (r =? i); [apply incl_appl|]; apply incl_refl.
  - intros y t. rewrite L. auto.
  - intros y ey Hy. rewrite G. destruct (Z.eqb_spec y x) as [->|]; [|eauto].
    rewrite Hx in Hy. inversion Hy; subst. eexists; split; [reflexivity|destruct ey; reflexivity].
Qed.

(* the part of the invariant about received lists, and the list being walked *)
Record rloop (U : list Z) (s : hg) (und l : list Z) : Prop := {
  rl_und : undetermined s = U;
  rl_ex : forall y, In y U -> exists ey, get_event s y = Some ey;
  rl_nd : NoDup (und ++ l);
  rl_incl : incl (und ++ l) U;
  rl_none : failed s = false -> forall y ey, In y (und ++ l) -> get_event s y = Some ey -> ev_rr ey = None;
  rl_in : forall r x, In x (rcv s r) -> exists ex, get_event s x = Some ex /\ ev_rr ex = Some r;
  rl_cnd : forall r, NoDup (rcv s r);
  rl_listed : forall x ex r, get_event s x = Some ex -> ev_rr ex = Some r -> In x (rcv s r)
}.

Lemma rloop_ekeep U s s' und l : ekeep s s' -> failed s = false -> rloop U s und l -> rloop U s' und l.
Proof.
  intros K Fs [A1 A2 A3 A4 A5 A6 A7 A8].
  assert (G : forall y, get_event s' y = get_event s y) by (intros y; apply ekeep_get_event; exact K).
  constructor; auto.
  - rewrite (ek_und _ _ K). exact A1.
  - intros y. rewrite G. apply A2.
  - intros _ y ey Hin. rewrite G. apply A5; auto.
  - intros r x. rewrite (ek_rcv _ _ K), G. apply A6.
  - intros r. rewrite (ek_rcv _ _ K). apply A7.
  - intros x ex r. rewrite (ek_rcv _ _ K), G. apply A8.
Qed.

Lemma NoDup_app_remove {A} (l1 l2 : list A) x : NoDup (l1 ++ x :: l2) -> NoDup (l1 ++ l2) /\ ~ In x (l1 ++ l2).
Proof. intros H. split; [eapply NoDup_remove_1; eauto|eapply NoDup_remove_2; eauto]. Qed.

Lemma decide_rr_one_rloop U s und x l :
  rloop U s und (x :: l) ->
  rloop U (fst (decide_rr_one (s, und) x)) (snd (decide_rr_one (s, und) x)) l /\
  rmono s (fst (decide_rr_one (s, und) x)) /\ frames (fst (decide_rr_one (s, und) x)) = frames s.
Proof.
  intros RL. unfold decide_rr_one.
  destruct (NoDup_app_remove _ _ _ (rl_nd _ _ _ _ RL)) as [ND Hnx].
  assert (Hincl : incl (und ++ l) U).
  { intros y Hy. apply (rl_incl _ _ _ _ RL). apply in_app_or in Hy. apply in_or_app. destruct Hy; [left|right; right]; auto. }
  destruct (failed s) eqn:Fs.
  { cbn [fst snd]. split; [|split; [apply rmono_refl|reflexivity]].
    destruct RL as [A1 A2 A3 A4 A5 A6 A7 A8]. constructor; auto. rewrite Fs. discriminate. }
  pose proof (round_f_nort (fuel_of s) s x) as Nr.
  destruct (round_f (fuel_of s) s x) as [[r|] s1]; cbn [snd] in Nr.
  2:{ cbn [fst snd]. assert (K : ekeep s (fail s1)) by (eapply ekeep_trans; [apply ekeep_nort; exact Nr|apply ekeep_fail]).
      split; [|split; [apply rmono_ekeep; exact K|apply (ek_fr _ _ K)]].
      pose proof (rloop_ekeep _ _ _ _ _ K Fs RL) as [A1 A2 A3 A4 A5 A6 A7 A8]. constructor; auto.
      rewrite failed_fail. discriminate. }
  pose proof (ekeep_nort _ _ Nr) as K1.
  destruct (rr_loop_spec x (zrange (r + 1) (last_round s1)) s1) as [Hno Hyes].
  destruct (rr_loop s1 x (zrange (r + 1) (last_round s1))) as [s' received]. cbn [fst snd] in *.
  destruct received.
  - (* received *)
    destruct (Hyes eq_refl) as [i Hi]. clear Hno Hyes.
    pose proof (ekeep_received _ _ _ _ _ K1 Hi) as Rc.
    destruct Rc as [ex [Hx [G [R [L [Un Fr]]]]]].
    assert (Hrx : ev_rr ex = None).
    { eapply (rl_none _ _ _ _ RL Fs x ex); [apply in_or_app; right; left; reflexivity|exact Hx]. }
    assert (Hnot : forall q, ~ In x (rcv s q)).
    { intros q Hin. destruct (rl_in _ _ _ _ RL q x Hin) as [ex' [Hx' Hr']]. rewrite Hx in Hx'. inversion Hx'; subst. congruence. }
    split; [|split; [eapply rmono_received; [eapply ekeep_received; eauto|exact Hx|exact Hrx]|exact Fr]].
    constructor.
    + rewrite Un. apply (rl_und _ _ _ _ RL).
    + intros y Hy. rewrite G. destruct (y =? x); [eauto|apply (rl_ex _ _ _ _ RL); exact Hy].
    + exact ND.
    + exact Hincl.
    + intros _ y ey Hin. rewrite G. destruct (Z.eqb_spec y x) as [->|]; [contradiction|].
      apply (rl_none _ _ _ _ RL Fs). apply in_app_or in Hin. apply in_or_app. destruct Hin; [left|right; right]; auto.
    + intros q y. rewrite R, G. intros Hin.
      assert (Hc : In y (rcv s q) \/ (q = i /\ y = x)).
      { destruct (Z.eqb_spec q i) as [->|]; [|left; exact Hin].
        apply in_app_or in Hin. destruct Hin as [?|[<-|[]]]; auto. }
      destruct Hc as [Hc|[-> ->]].
      * destruct (Z.eqb_spec y x) as [->|]; [exfalso; eapply Hnot; eauto|]. apply (rl_in _ _ _ _ RL); exact Hc.
      * rewrite Z.eqb_refl. eexists; split; [reflexivity|destruct ex; reflexivity].
    + intros q. rewrite R. destruct (Z.eqb_spec q i) as [->|]; [|apply (rl_cnd _ _ _ _ RL)].
      assert (P : Permutation (x :: rcv s i) (rcv s i ++ [x])) by (apply Permutation_cons_append).
      eapply Permutation_NoDup; [exact P|]. constructor; [apply Hnot|apply (rl_cnd _ _ _ _ RL)].
    + intros y ey q. rewrite G, R. destruct (Z.eqb_spec y x) as [->|Hne].
      * intros H; inversion H; subst ey. replace (ev_rr (ex <| ev_rr := Some i |>)) with (Some i) by (destruct ex; reflexivity).
        intros H'; inversion H'; subst q. rewrite Z.eqb_refl. apply in_or_app. right; left; reflexivity.
      * intros Hy Hr. pose proof (rl_listed _ _ _ _ RL y ey q Hy Hr) as Hin.
        destruct (q =? i); [apply in_or_app; left|]; exact Hin.
  - (* not received *)
    pose proof (ekeep_trans _ _ _ K1 (Hno eq_refl)) as K.
    split; [|split; [apply rmono_ekeep; exact K|apply (ek_fr _ _ K)]].
    pose proof (rloop_ekeep _ _ _ _ _ K Fs RL) as [A1 A2 A3 A4 A5 A6 A7 A8]. constructor; auto.
    + rewrite <- app_assoc. exact A3.
    + rewrite <- app_assoc. exact A4.
    + rewrite <- app_assoc. exact A5.
Qed.

Lemma rloop_start st : oinv st -> rloop (undetermined st) st [] (undetermined st).
Proof.
  intros [A1 A2 A3 A4 A5 A6]. constructor; auto; cbn [app]; auto. apply incl_refl.
Qed.

Lemma decide_round_received_oinv st :
  oinv st -> oinv (decide_round_received st) /\ rmono st (decide_round_received st) /\
             frames (decide_round_received st) = frames st.
Proof.
  intros O. unfold decide_round_received.
  assert (G : forall l s und, rloop (undetermined st) s und l ->
              rloop (undetermined st) (fst (fold_left decide_rr_one l (s, und))) (snd (fold_left decide_rr_one l (s, und))) [] /\
              rmono s (fst (fold_left decide_rr_one l (s, und))) /\
              frames (fst (fold_left decide_rr_one l (s, und))) = frames s).
  { induction l as [|x l IH]; intros s und RL; cbn [fold_left].
    - cbn [fst snd]. split; [exact RL|split; [apply rmono_refl|reflexivity]].
    - destruct (decide_rr_one_rloop _ s und x l RL) as [RL1 [M1 F1]].
      destruct (decide_rr_one (s, und) x) as [s1 und1]. cbn [fst snd] in *.
      destruct (IH s1 und1 RL1) as [RL2 [M2 F2]]. split; [exact RL2|]. split; [eapply rmono_trans; eauto|congruence]. }
  destruct (G (undetermined st) st [] (rloop_start st O)) as [RL [M F]].
  destruct (fold_left decide_rr_one (undetermined st) (st, [])) as [s und]. cbn [fst snd] in *.
  destruct RL as [A1 A2 A3 A4 A5 A6 A7 A8]. rewrite app_nil_r in *.
  destruct (failed s) eqn:Fs.
  - split; [|split; [exact M|exact F]]. constructor; auto.
    + rewrite A1. exact A2.
    + rewrite A1. apply (u_nodup st O).
    + rewrite Fs. discriminate.
  - set (s' := s <| undetermined := und |>).
    assert (Ge : forall y, get_event s' y = get_event s y) by (intros y; destruct s; reflexivity).
    assert (Gr : forall r, rcv s' r = rcv s r) by (intros r; destruct s; reflexivity).
    split; [|split; [|rewrite <- F; destruct s; reflexivity]].
    + constructor.
      * intros x Hx. rewrite Ge. apply A2. apply A4. replace (undetermined s') with und in Hx by (destruct s; reflexivity). exact Hx.
      * replace (undetermined s') with und by (destruct s; reflexivity). exact A3.
      * intros _ x ex. replace (undetermined s') with und by (destruct s; reflexivity). rewrite Ge. apply A5. reflexivity.
      * intros r x. rewrite Gr, Ge. apply A6.
      * intros r. rewrite Gr. apply A7.
      * intros x ex r. rewrite Gr, Ge. apply A8.
    + eapply rmono_trans; [exact M|]. constructor.
      * intros x ex r. rewrite Ge. eauto.
      * intros r. rewrite Gr. apply incl_refl.
      * intros y t. replace (lt_memo s') with (lt_memo s) by (destruct s; reflexivity). auto.
      * intros x ex. rewrite Ge. eauto.
Qed.

(* DecideRoundReceived does not touch timestamps *)
Lemma ekeep_lkeep st st' : ekeep st st' -> lkeep st st'.
Proof. intros K. constructor; [apply (ek_lt _ _ K)|intros x; rewrite (ekeep_get_event _ _ x K); reflexivity]. Qed.
Lemma received_lkeep st st' x i : received_at st st' x i -> lkeep st st'.
Proof.
  intros [ex [Hx [G [_ [L _]]]]]. constructor; [exact L|]. intros y. rewrite G.
  destruct (Z.eqb_spec y x) as [->|]; [|reflexivity]. rewrite Hx. destruct ex; reflexivity.
Qed.

Lemma decide_rr_one_lkeep s und x : lkeep s (fst (decide_rr_one (s, und) x)).
Proof.
  unfold decide_rr_one. destruct (failed s); [apply lkeep_refl|].
  pose proof (round_f_nort (fuel_of s) s x) as Nr.
  destruct (round_f (fuel_of s) s x) as [[r|] s1]; cbn [snd] in Nr;
    [|cbn [fst]; apply ekeep_lkeep; eapply ekeep_trans; [apply ekeep_nort; exact Nr|apply ekeep_fail]].
  pose proof (ekeep_nort _ _ Nr) as K1.
  destruct (rr_loop_spec x (zrange (r + 1) (last_round s1)) s1) as [Hno Hyes].
  destruct (rr_loop s1 x (zrange (r + 1) (last_round s1))) as [s' received]. cbn [fst snd] in *.
  destruct received.
  - destruct (Hyes eq_refl) as [i Hi]. eapply received_lkeep. eapply ekeep_received; eauto.
  - apply ekeep_lkeep. eapply ekeep_trans; eauto.
Qed.

Lemma decide_round_received_lkeep st : lkeep st (decide_round_received st).
Proof.
  unfold decide_round_received.
  assert (G : forall l s und, lkeep s (fst (fold_left decide_rr_one l (s, und)))).
  { induction l as [|x l IH]; intros s und; cbn [fold_left]; [apply lkeep_refl|].
    pose proof (decide_rr_one_lkeep s und x) as K. destruct (decide_rr_one (s, und) x) as [s1 und1]. cbn [fst] in K.
    eapply lkeep_trans; [exact K|apply IH]. }
  specialize (G (undetermined st) st []).
  destruct (fold_left decide_rr_one (undetermined st) (st, [])) as [s und]. cbn [fst] in G.
  destruct (failed s); [exact G|]. eapply lkeep_trans; [exact G|]. constructor; [destruct s; reflexivity|intros x; destruct s; reflexivity].
Qed.

(** * DivideRounds keeps round-received data; the Lamport memo only grows *)
Record dkeep (st st' : hg) : Prop := {
  dk_q : qkeep st st';
  dk_m : memo_ext st st';
  dk_f : frames st' = frames st
}.
Lemma dkeep_refl st : dkeep st st.
Proof. constructor; [apply qkeep_refl|apply memo_ext_refl|reflexivity]. Qed.
Lemma dkeep_trans a b c : dkeep a b -> dkeep b c -> dkeep a c.
Proof.
  intros [A1 A2 A3] [B1 B2 B3]. constructor; [eapply qkeep_trans; eauto|eapply memo_ext_trans; eauto|congruence].
Qed.
Lemma dkeep_okeep st st' : okeep st st' -> dkeep st st'.
Proof.
  intros O. constructor; [apply okeep_qkeep; exact O| |apply (o_fr _ _ O)].
  intros y t. rewrite (o_lt _ _ O). auto.
Qed.

Lemma divide_lt_dkeep st x : ops_present st -> memo_consistent st -> dkeep st (divide_lt st x).
Proof.
  intros Op M. unfold divide_lt.
  destruct (lamport_f_spec (fuel_of st) st x Op M) as [_ [X1 _]].
  pose proof (lamport_f_nomemo (fuel_of st) st x) as N.
  destruct (lamport_f (fuel_of st) st x) as [[t|] s]; cbn [fst snd] in *.
  - assert (D1 : dkeep st s).
    { constructor; [|exact X1|apply (f_equal frames) in N; destruct st, s; exact N].
      constructor.
      - intros y. unfold get_event. rewrite (nomemo_eq_events _ _ N). reflexivity.
      - intros r. unfold rcv, get_round. rewrite (nomemo_eq_rounds _ _ N). reflexivity.
      - apply (f_equal undetermined) in N; destruct st, s; exact N. }
    eapply dkeep_trans; [exact D1|].
    unfold set_event_lt. destruct (get_event s x) as [ev|] eqn:Hx; [|apply dkeep_refl].
    constructor; [|intros y ty H; destruct s; exact H|destruct s; reflexivity].
    constructor; try (destruct s; reflexivity).
    intros y. rewrite get_event_set_evst. destruct (Z.eqb_spec x y) as [->|]; cbn [andb]; [|reflexivity].
    destruct (0 <=? y); [|reflexivity]. rewrite Hx. destruct ev; reflexivity.
  - constructor; [|intros y ty H; replace (lt_memo (fail s)) with (lt_memo s) by (destruct s; reflexivity); apply X1; exact H
                   |apply (f_equal frames) in N; destruct st, s; exact N].
    constructor.
    + intros y. unfold get_event. replace (events (fail s)) with (events s) by (destruct s; reflexivity).
      rewrite (nomemo_eq_events _ _ N). reflexivity.
    + intros r. unfold rcv, get_round. replace (rounds (fail s)) with (rounds s) by (destruct s; reflexivity).
      rewrite (nomemo_eq_rounds _ _ N). reflexivity.
    + apply (f_equal undetermined) in N; destruct st, s; exact N.
Qed.

Lemma divide_one_dkeep n st x : dinv n st -> dkeep st (divide_one st x).
Proof.
  intros D. unfold divide_one.
  destruct (failed st) eqn:Hf; [apply dkeep_refl|].
  destruct (get_event st x) as [ev|]; [|apply dkeep_okeep, okeep_fail]. cbv zeta.
  set (st1 := match ev_round ev with Some _ => st | None => divide_round st x end).
  assert (K1 : dkeep st st1).
  { subst st1. destruct (ev_round ev); [apply dkeep_refl|apply dkeep_okeep, divide_round_okeep]. }
  assert (D1 : dinv n st1).
  { subst st1. destruct (ev_round ev); [exact D|].
    eapply dinv_okeep; [apply divide_round_okeep|apply divide_round_failed_mono|exact D]. }
  destruct (failed st1); [exact K1|].
  destruct (get_event st1 x) as [ev1|]; [|eapply dkeep_trans; [exact K1|apply dkeep_okeep, okeep_fail]].
  destruct (ev_lt ev1); [exact K1|]. eapply dkeep_trans; [exact K1|].
  apply divide_lt_dkeep; [apply (d_ops _ _ D1)|apply (l_memo _ (d_l _ _ D1))].
Qed.

Lemma divide_rounds_dkeep n st : dinv n st -> dkeep st (divide_rounds st).
Proof.
  unfold divide_rounds. generalize (undetermined st). intros l. revert st.
  induction l as [|x l IH]; intros st D; cbn [fold_left]; [apply dkeep_refl|].
  eapply dkeep_trans; [eapply divide_one_dkeep; eauto|apply IH, divide_one_dinv, D].
Qed.

Lemma rmono_dkeep st st' : dkeep st st' -> rmono st st'.
Proof. intros [Q M _]. apply rmono_qkeep; assumption. Qed.

(** * Frames *)
Definition lt_sorted (l : list frameev) : Prop := StronglySorted (fun a b => fe_lt a <= fe_lt b) l.

(* a cached frame of round rr: sorted by timestamp, without repetition, made of events received in
   rr, with the timestamps of the Lamport memo *)
Definition finv (st : hg) : Prop :=
  forall rr f, zget rr (frames st) = Some f ->
    f_round f = rr /\ lt_sorted (f_events f) /\ NoDup (map fe_id (f_events f)) /\
    (forall fe, In fe (f_events f) ->
       In (fe_id fe) (rcv st rr) /\ zget (fe_id fe) (lt_memo st) = Some (fe_lt fe)) /\
    (forall fe, In fe (f_events f) -> exists ex, get_event st (fe_id fe) = Some ex) /\
    StronglySorted (fe_le st) (f_events f).

(* the full sort key of a stored event does not change *)
Lemma sigkey_eext st st' x ex : eext st st' -> get_event st x = Some ex -> sigkey_of st' x = sigkey_of st x.
Proof. intros E Hx. destruct (E x ex Hx) as [ex' [Hx' Ee]]. unfold sigkey_of. rewrite Hx, Hx', Ee. reflexivity. Qed.

Lemma fe_le_keys st st' a b :
  sigkey_of st' (fe_id a) = sigkey_of st (fe_id a) -> sigkey_of st' (fe_id b) = sigkey_of st (fe_id b) ->
  fe_le st a b -> fe_le st' a b.
Proof. intros Ha Hb. rewrite !fe_le_spec, Ha, Hb. auto. Qed.

Lemma StronglySorted_weaken_in {A} (R R' : A -> A -> Prop) l :
  (forall a b, In a l -> In b l -> R a b -> R' a b) -> StronglySorted R l -> StronglySorted R' l.
Proof.
  intros H S. induction S as [|a l S IH F]; constructor.
  - apply IH. intros x y Hx Hy. apply H; right; assumption.
  - rewrite Forall_forall in *. intros x Hx. apply H; [left; reflexivity|right; exact Hx|apply F, Hx].
Qed.

Lemma finv_rmono st st' : finv st -> rmono st st' -> frames st' = frames st -> finv st'.
Proof.
  intros F M E rr f. rewrite E. intros H. destruct (F rr f H) as [H1 [H2 [H3 [H4 [H5 H6]]]]].
  split; [exact H1|]. split; [exact H2|]. split; [exact H3|]. split; [|split].
  - intros fe Hin. destruct (H4 fe Hin) as [Ha Hb]. split; [apply (m_rcv _ _ M); exact Ha|apply (m_memo _ _ M); exact Hb].
  - intros fe Hin. destruct (H5 fe Hin) as [ex Hx]. destruct (m_e _ _ M _ _ Hx) as [ex' [Hx' _]]. eauto.
  - eapply StronglySorted_weaken_in; [|exact H6]. intros a b Ha Hb.
    destruct (H5 a Ha) as [ea Hea]. destruct (H5 b Hb) as [eb Heb].
    apply fe_le_keys; eapply sigkey_eext; eauto; apply (m_e _ _ M).
Qed.

Lemma StronglySorted_weaken {A} (R R' : A -> A -> Prop) l :
  (forall a b, R a b -> R' a b) -> StronglySorted R l -> StronglySorted R' l.
Proof.
  intros H. induction 1 as [|a l S IH F]; constructor; [exact IH|].
  rewrite Forall_forall in *. intros x Hx. apply H, F, Hx.
Qed.

Lemma create_frame_event_spec st x fe :
  create_frame_event st x = Some fe ->
  fe_id fe = x /\ zget x (lt_memo st) = Some (fe_lt fe) /\ exists ex, get_event st x = Some ex.
Proof.
  unfold create_frame_event.
  destruct (get_event st x) as [ex0|]; [|discriminate]. destruct (zget x (round_memo st)); [|discriminate].
  destruct (get_round st z); [|discriminate].
  destruct (aget x (ri_created r)) as [[w t]|]; [|discriminate].
  destruct (zget x (lt_memo st)); [|discriminate]. intros H; inversion H; subst. eauto.
Qed.

Lemma cfe_fold st xs : forall acc evs,
  fold_left (fun (acc : option (list frameev)) x =>
     match acc, create_frame_event st x with
     | Some l, Some fe => Some (l ++ [fe])
     | _, _ => None
     end) xs (Some acc) = Some evs ->
  exists news, evs = acc ++ news /\ map fe_id news = xs /\
               forall fe, In fe news -> zget (fe_id fe) (lt_memo st) = Some (fe_lt fe) /\
                                        exists ex, get_event st (fe_id fe) = Some ex.
Proof.
  induction xs as [|x xs IH]; intros acc evs; cbn [fold_left].
  - intros H; inversion H; subst. exists []. rewrite app_nil_r. split; [reflexivity|split; [reflexivity|intros fe []]].
  - destruct (create_frame_event st x) as [fe|] eqn:Hc.
    + intros H. destruct (IH _ _ H) as [news [E [Hm Hl]]]. exists (fe :: news).
      destruct (create_frame_event_spec _ _ _ Hc) as [Hid [Hlt Hex]].
      split; [rewrite E, <- app_assoc; reflexivity|]. split; [cbn [map]; congruence|].
      intros fe' [<-|Hin]; [rewrite Hid; split; [exact Hlt|exact Hex]|apply Hl; exact Hin].
    + intros H. exfalso. clear - H. induction xs as [|y xs IHx]; cbn [fold_left] in H; [discriminate|auto].
Qed.

(* GetFrame either returns the cached frame or builds, caches and returns a new one *)
Lemma get_frame_cases st rr :
  (get_frame st rr = (zget rr (frames st), st) /\ (zget rr (frames st) = None -> True)) \/
  (get_frame st rr = (None, st)) \/
  exists f ri evs,
    get_frame st rr = (Some f, st <| frames := zset rr f (frames st) |>) /\
    zget rr (frames st) = None /\ get_round st rr = Some ri /\ f_round f = rr /\
    f_events f = fe_sort st evs /\ map fe_id evs = ri_received ri /\
    (forall fe, In fe evs -> zget (fe_id fe) (lt_memo st) = Some (fe_lt fe) /\
                             exists ex, get_event st (fe_id fe) = Some ex).
Proof.
  unfold get_frame.
  destruct (zget rr (frames st)) eqn:Hz; [left; split; [reflexivity|auto]|].
  destruct (get_round st rr) as [ri|] eqn:Hri; [|right; left; reflexivity].
  destruct (get_peerset st rr) as [ps|]; [|right; left; reflexivity].
  match goal with |- context [fold_left ?f (ri_received ri) ?a] => destruct (fold_left f (ri_received ri) a) as [evs|] eqn:Ef end;
    [|right; left; reflexivity].
  match goal with |- context [fold_left ?f (repertoire st) ?a] => destruct (fold_left f (repertoire st) a) as [roots|] end;
    [|right; left; reflexivity].
  right; right. destruct (cfe_fold _ _ _ _ Ef) as [news [E [Hm Hl]]]. cbn [app] in E. subst news.
  eexists _, ri, evs. split; [reflexivity|]. split; [reflexivity|]. split; [reflexivity|].
  split; [reflexivity|]. split; [reflexivity|]. split; [exact Hm|exact Hl].
Qed.

Lemma get_frame_finv st rr :
  finv st -> (forall r, NoDup (rcv st r)) ->
  finv (snd (get_frame st rr)) /\ okeep_nf st (snd (get_frame st rr)).
Proof.
  intros F ND. destruct (get_frame_cases st rr) as [[E _]|[E|[f [ri [evs [E [Hz [Hri [Hr [He [Hm Hl]]]]]]]]]]].
  - rewrite E. split; [exact F|apply okeep_nf_refl].
  - rewrite E. split; [exact F|apply okeep_nf_refl].
  - rewrite E. cbn [snd]. set (s := st <| frames := zset rr f (frames st) |>).
    assert (K : okeep_nf st s) by (unfold okeep_nf; subst s; destruct st; cbn; auto 10).
    split; [|exact K].
    assert (Gr : forall r, rcv s r = rcv st r) by (intros r; destruct st; reflexivity).
    assert (Gl : lt_memo s = lt_memo st) by (destruct st; reflexivity).
    assert (Ge : events s = events st) by (destruct st; reflexivity).
    assert (Gle : forall a b, fe_le s a b <-> fe_le st a b).
    { intros a b. unfold fe_le, fe_less, get_event. rewrite Ge. reflexivity. }
    intros q g. replace (frames s) with (zset rr f (frames st)) by (destruct st; reflexivity).
    rewrite zget_zset, Gr, Gl. destruct ((rr =? q) && (0 <=? rr)) eqn:Eq.
    2:{ intros Hq. destruct (F q g Hq) as [H1 [H2 [H3 [H4 [H5 H6]]]]].
        split; [exact H1|]. split; [exact H2|]. split; [exact H3|]. split; [exact H4|]. split.
        - intros fe Hfe. unfold get_event. rewrite Ge. apply H5. exact Hfe.
        - eapply StronglySorted_weaken; [|exact H6]. intros a b. apply Gle. }
    intros H; inversion H; subst g. assert (q = rr) by lia. subst q.
    pose proof (fe_sort_perm st evs) as P.
    split; [exact Hr|]. split; [|split; [|split; [|split]]].
    + rewrite He. eapply StronglySorted_weaken; [|apply fe_sort_sorted]. intros a b. apply fe_le_lt.
    + rewrite He. eapply Permutation_NoDup; [apply Permutation_sym, Permutation_map, P|].
      rewrite Hm. specialize (ND rr). unfold rcv in ND. rewrite Hri in ND. exact ND.
    + intros fe. rewrite He. intros Hin. apply (Permutation_in _ P) in Hin.
      split; [|apply Hl; exact Hin]. unfold rcv. rewrite Hri, <- Hm. apply in_map. exact Hin.
    + intros fe. rewrite He. intros Hin. apply (Permutation_in _ P) in Hin.
      unfold get_event. rewrite Ge. apply Hl. exact Hin.
    + rewrite He. eapply StronglySorted_weaken; [|apply fe_sort_sorted]. intros a b. apply Gle.
Qed.

Lemma finv_nf st st' : finv st -> okeep_nf st st' -> frames st' = frames st -> finv st'.
Proof.
  intros F [K1 [K2 [K3 [K4 K5]]]] E rr f. rewrite E, K1. unfold rcv, get_round, fe_le, fe_less, get_event. rewrite K3, K2. apply F.
Qed.

Lemma nodup_nf st st' : okeep_nf st st' -> (forall r, NoDup (rcv st r)) -> forall r, NoDup (rcv st' r).
Proof. intros [K1 [K2 [K3 [K4 K5]]]] H r. unfold rcv, get_round. rewrite K3. apply H. Qed.

Lemma process_round_finv s p stop pr :
  finv s -> (forall r, NoDup (rcv s r)) ->
  finv (fst (fst (process_round (s, p, stop) pr))) /\ okeep_nf s (fst (fst (process_round (s, p, stop) pr))).
Proof.
  intros F ND. unfold process_round.
  assert (Kfail : forall s0, okeep_nf s0 (fail s0) /\ frames (fail s0) = frames s0) by (intros s0; apply ov_nf; destruct s0; reflexivity).
  destruct (stop || failed s); [split; [exact F|apply okeep_nf_refl]|].
  destruct (negb (snd pr)); [split; [exact F|apply okeep_nf_refl]|].
  destruct (get_round s (fst pr)); [|cbn [fst]; destruct (Kfail s) as [K E]; split; [eapply finv_nf; eauto|exact K]].
  destruct (get_frame_finv s (fst pr) F ND) as [F1 K1].
  destruct (get_frame s (fst pr)) as [[f|] s1]; cbn [fst snd] in *.
  - destruct (ov_nf _ _ (process_frame_ov s1 f)) as [K2 E2].
    set (s2 := process_frame s1 f) in *.
    assert (K3 : okeep_nf s2 (bump_last_consensus s2 (fst pr)) /\ frames (bump_last_consensus s2 (fst pr)) = frames s2).
    { apply ov_nf. unfold bump_last_consensus. destruct (last_consensus s2) as [l|]; [destruct (l <? fst pr)|];
        try reflexivity; generalize s2; intros s0; destruct s0; reflexivity. }
    destruct K3 as [K3 E3].
    split; [|eapply okeep_nf_trans; [exact K1|eapply okeep_nf_trans; eauto]].
    eapply finv_nf; [|exact K3|exact E3]. eapply finv_nf; eauto.
  - destruct (Kfail s1) as [K E]. split; [eapply finv_nf; eauto|eapply okeep_nf_trans; eauto].
Qed.

Lemma process_decided_rounds_finv st :
  finv st -> (forall r, NoDup (rcv st r)) ->
  finv (process_decided_rounds st) /\ okeep_nf st (process_decided_rounds st).
Proof.
  intros F ND. unfold process_decided_rounds.
  assert (G : forall l s p b, finv s -> (forall r, NoDup (rcv s r)) ->
              finv (fst (fst (fold_left process_round l (s, p, b)))) /\
              okeep_nf s (fst (fst (fold_left process_round l (s, p, b))))).
  { induction l as [|pr l IH]; intros s p b Fs NDs; cbn [fold_left]; [split; [exact Fs|apply okeep_nf_refl]|].
    destruct (process_round_finv s p b pr Fs NDs) as [F1 K1].
    destruct (process_round (s, p, b) pr) as [[s1 p1] b1]. cbn [fst] in *.
    destruct (IH s1 p1 b1 F1 (nodup_nf _ _ K1 NDs)) as [F2 K2]. split; [exact F2|eapply okeep_nf_trans; eauto]. }
  destruct (G (pending st) st [] false F ND) as [F1 K1].
  destruct (fold_left process_round (pending st) (st, [], false)) as [[s processed] stop]. cbn [fst] in *.
  assert (K2 : okeep_nf s (s <| pending := filter (fun p => negb (existsb (Z.eqb (fst p)) processed)) (pending s) |>)
               /\ frames (s <| pending := filter (fun p => negb (existsb (Z.eqb (fst p)) processed)) (pending s) |>) = frames s).
  { apply ov_nf. destruct s; reflexivity. }
  destruct K2 as [K2 E2]. split; [eapply finv_nf; eauto|eapply okeep_nf_trans; eauto].
Qed.

(** * Delivered blocks and frames *)
Definition txs_of (st : hg) (fe : frameev) : list Z :=
  match get_event st (fe_id fe) with Some e => e_txs (ev_e e) | None => [] end.
Definition itxs_of (st : hg) (fe : frameev) : list itx :=
  match get_event st (fe_id fe) with Some e => e_itxs (ev_e e) | None => [] end.
(* payload view of a block *)
Definition pv (b : block) := (b_rr b, b_txs b, b_itxs b, b_frame b).

(* every delivered block was made from the cached frame of its round: its transactions are the
   concatenation of the frame events' transactions, in frame order *)
Definition dlv (st : hg) : Prop :=
  forall d, In d (delivered st) ->
    zget (b_rr d) (frames st) = Some (b_frame d) /\
    b_txs d = flat_map (txs_of st) (f_events (b_frame d)) /\
    b_itxs d = flat_map (itxs_of st) (f_events (b_frame d)).

Definition fext (st st' : hg) : Prop :=
  forall rr f, zget rr (frames st) = Some f -> zget rr (frames st') = Some f.

Lemma flat_map_ext_in {A B} (f g : A -> list B) l : (forall a, In a l -> f a = g a) -> flat_map f l = flat_map g l.
Proof.
  induction l as [|a l IH]; intros H; cbn [flat_map]; [reflexivity|].
  rewrite (H a (or_introl eq_refl)), IH; [reflexivity|]. intros b Hb. apply H. right; exact Hb.
Qed.

Lemma dlv_pass st st' :
  dlv st -> finv st -> oinv st -> delivered st' = delivered st -> fext st st' -> eext st st' -> dlv st'.
Proof.
  intros D F O Ed Ef Ee d. rewrite Ed. intros Hd. destruct (D d Hd) as [H1 [H2 H3]].
  split; [apply Ef; exact H1|].
  destruct (F _ _ H1) as [_ [_ [_ [Hev _]]]].
  assert (Hsame : forall fe, In fe (f_events (b_frame d)) -> txs_of st' fe = txs_of st fe /\ itxs_of st' fe = itxs_of st fe).
  { intros fe Hfe. destruct (Hev fe Hfe) as [Hin _]. destruct (c_in _ O _ _ Hin) as [ex [Hx _]].
    destruct (Ee _ _ Hx) as [ex' [Hx' E]]. unfold txs_of, itxs_of. rewrite Hx, Hx', E. auto. }
  split; [rewrite H2|rewrite H3]; apply flat_map_ext_in; intros fe Hfe; symmetry; apply Hsame; exact Hfe.
Qed.

Lemma dlv_same_events st st' :
  dlv st -> delivered st' = delivered st -> fext st st' -> events st' = events st -> dlv st'.
Proof.
  intros D Ed Ef Ee d. rewrite Ed. intros Hd. destruct (D d Hd) as [H1 [H2 H3]].
  split; [apply Ef; exact H1|]. unfold txs_of, itxs_of, get_event. rewrite Ee. auto.
Qed.

Lemma sign_block_pv st b bps : pv (fst (sign_block st b bps)) = pv b.
Proof. unfold sign_block. destruct (mem_key _ _); cbn [fst]; [destruct b; reflexivity|reflexivity]. Qed.

Lemma commit_delivered_pv st b : exists bf, delivered (commit st b) = delivered st ++ [bf] /\ pv bf = pv b.
Proof.
  unfold commit. destruct (self st =? -1); [exists b; split; [destruct st; reflexivity|reflexivity]|]. cbv zeta.
  set (st0 := st <| oracle := _ |>).
  assert (F0 : delivered st0 = delivered st) by (destruct st; reflexivity).
  match goal with |- context [store_set_block st0 ?b1] => set (bb := b1) end.
  assert (Rb : pv bb = pv b) by (subst bb; destruct b; reflexivity).
  pose proof (delivered_store st0 bb) as F1.
  destruct (get_peerset (store_set_block st0 bb) (b_rr bb)) as [bps|].
  - pose proof (delivered_sign_block (store_set_block st0 bb) bb bps) as F2.
    pose proof (sign_block_pv (store_set_block st0 bb) bb bps) as R2.
    destruct (sign_block (store_set_block st0 bb) bb bps) as [b2 st2]. cbn [fst snd] in *.
    exists b2. split; [|congruence].
    pose proof (delivered_bl _ _ (process_receipts_bl (set_anchor_block st2 b2) (b_rr b2) (b_itxs b2))) as F4.
    pose proof (delivered_bl _ _ (set_anchor_block_bl st2 b2)) as F3.
    match goal with |- delivered (deliver ?s ?d) = _ => change (delivered (deliver s d)) with (delivered s ++ [d]) end.
    congruence.
  - exists bb. split; [|exact Rb].
    match goal with |- delivered (deliver ?s ?d) = _ => change (delivered (deliver s d)) with (delivered s ++ [d]) end.
    congruence.
Qed.

Lemma process_frame_delivered_pv s f :
  delivered (process_frame s f) = delivered s \/
  exists bf, delivered (process_frame s f) = delivered s ++ [bf] /\
             pv bf = (f_round f, flat_map (txs_of s) (f_events f), flat_map (itxs_of s) (f_events f), f).
Proof.
  unfold process_frame. destruct (f_events f) as [|fe rest] eqn:Hfe; [left; reflexivity|]. cbv zeta.
  set (s1 := fold_left add_consensus_event (fe :: rest) s).
  assert (E1 : delivered s1 = delivered s) by (apply delivered_bl, add_consensus_events_bl).
  assert (Ev : events s1 = events s).
  { destruct (ov_nf _ _ (ov_add_consensus_events (fe :: rest) s)) as [[_ [Ev _]] _]. exact Ev. }
  set (b := block_of_frame _ _ _).
  assert (Rb : pv b = (f_round f, flat_map (txs_of s) (fe :: rest), flat_map (itxs_of s) (fe :: rest), f)).
  { subst b. unfold block_of_frame, pv. cbn [b_rr b_txs b_itxs b_frame]. rewrite Hfe. unfold txs_of, itxs_of, get_event. rewrite Ev. reflexivity. }
  assert (C : exists bf, delivered (commit (store_set_block s1 b) b) = delivered s ++ [bf] /\
                         pv bf = (f_round f, flat_map (txs_of s) (fe :: rest), flat_map (itxs_of s) (fe :: rest), f)).
  { destruct (commit_delivered_pv (store_set_block s1 b) b) as [bf [Hd Hr]]. exists bf.
    rewrite Hd, delivered_store, E1. split; [reflexivity|congruence]. }
  destruct (b_txs b), (b_itxs b); auto.
Qed.

Lemma get_frame_some st rr f s :
  get_frame st rr = (Some f, s) ->
  zget rr (frames s) = Some f /\ fext st s /\ events s = events st /\ delivered s = delivered st.
Proof.
  intros H. destruct (get_frame_cases st rr) as [[E _]|[E|[f' [ri [evs [E [Hz [Hri _]]]]]]]].
  - rewrite H in E. inversion E as [[H1 H2]]. rewrite <- H2 in *. split; [symmetry; exact H1|].
    split; [intros q g Hq; exact Hq|auto].
  - rewrite H in E. discriminate.
  - rewrite H in E. inversion E; subst f' s. clear E.
    assert (H0 : 0 <= rr) by (eapply zget_some_nonneg; exact Hri).
    assert (Fm : forall m, frames (st <| frames := m |>) = m) by (intros; destruct st; reflexivity).
    split; [rewrite Fm; apply zget_zset_same; exact H0|]. split; [|split; destruct st; reflexivity].
    intros q g Hq. rewrite Fm, zget_zset. destruct (Z.eqb_spec rr q) as [->|]; cbn [andb]; [congruence|exact Hq].
Qed.

Lemma fext_refl st : fext st st.
Proof. intros q g H; exact H. Qed.
Lemma fext_trans a b c : fext a b -> fext b c -> fext a c.
Proof. intros H1 H2 q g H. apply H2, H1, H. Qed.
Lemma fext_eq st st' : frames st' = frames st -> fext st st'.
Proof. intros E q g. rewrite E. auto. Qed.

Lemma bump_fields s r :
  events (bump_last_consensus s r) = events s /\ frames (bump_last_consensus s r) = frames s /\
  delivered (bump_last_consensus s r) = delivered s.
Proof. unfold bump_last_consensus. destruct (last_consensus s) as [l|]; [destruct (l <? r)|]; destruct s; auto. Qed.

Lemma process_round_dlv s p stop pr :
  dlv s -> finv s -> (forall r, NoDup (rcv s r)) ->
  dlv (fst (fst (process_round (s, p, stop) pr))).
Proof.
  intros D F ND. unfold process_round.
  assert (Dfail : forall s0, dlv s0 -> dlv (fail s0)).
  { intros s0 D0. eapply dlv_same_events; [exact D0| |apply fext_eq|]; destruct s0; reflexivity. }
  destruct (stop || failed s); [exact D|].
  destruct (negb (snd pr)); [exact D|].
  destruct (get_round s (fst pr)); [|apply Dfail, D].
  destruct (get_frame_finv s (fst pr) F ND) as [F1 K1].
  destruct (get_frame s (fst pr)) as [[f|] s1] eqn:Hgf; cbn [fst snd] in *.
  - destruct (get_frame_some _ _ _ _ Hgf) as [Hz [Fx [Ev1 Dl1]]].
    assert (D1 : dlv s1) by (eapply dlv_same_events; eauto).
    destruct (F1 _ _ Hz) as [Hfr _].
    destruct (ov_nf _ _ (process_frame_ov s1 f)) as [[_ [Ev2 _]] Fr2].
    set (s2 := process_frame s1 f) in *.
    assert (D2 : dlv s2).
    { destruct (process_frame_delivered_pv s1 f) as [E|[bf [E Hpv]]]; fold s2 in E.
      - eapply dlv_same_events; [exact D1|exact E|apply fext_eq; exact Fr2|exact Ev2].
      - intros d. rewrite E. intros Hd. apply in_app_or in Hd. destruct Hd as [Hd|[<-|[]]].
        + destruct (D1 d Hd) as [H1 [H2 H3]]. rewrite Fr2. split; [exact H1|].
          unfold txs_of, itxs_of, get_event. rewrite Ev2. auto.
        + unfold pv in Hpv. inversion Hpv as [[P1 P2 P3 P4]]. rewrite P1, P2, P3, P4, Fr2, Hfr.
          split; [exact Hz|]. unfold txs_of, itxs_of, get_event. rewrite Ev2. auto. }
    destruct (bump_fields s2 (fst pr)) as [B1 [B2 B3]].
    eapply dlv_same_events; [exact D2|exact B3|apply fext_eq; exact B2|exact B1].
  - apply Dfail. destruct (get_frame_cases s (fst pr)) as [[E _]|[E|[f' [ri [evs [E _]]]]]]; rewrite Hgf in E.
    + inversion E; subst; exact D.
    + inversion E; subst; exact D.
    + discriminate.
Qed.

Lemma process_decided_rounds_dlv st :
  dlv st -> finv st -> (forall r, NoDup (rcv st r)) -> dlv (process_decided_rounds st).
Proof.
  intros D F ND. unfold process_decided_rounds.
  assert (G : forall l s p b, dlv s -> finv s -> (forall r, NoDup (rcv s r)) ->
              dlv (fst (fst (fold_left process_round l (s, p, b))))).
  { induction l as [|pr l IH]; intros s p b Ds Fs NDs; cbn [fold_left]; [exact Ds|].
    destruct (process_round_finv s p b pr Fs NDs) as [F1 K1].
    pose proof (process_round_dlv s p b pr Ds Fs NDs) as D1.
    destruct (process_round (s, p, b) pr) as [[s1 p1] b1]. cbn [fst] in *.
    apply IH; [exact D1|exact F1|eapply nodup_nf; eauto]. }
  specialize (G (pending st) st [] false D F ND).
  destruct (fold_left process_round (pending st) (st, [], false)) as [[s processed] stop]. cbn [fst] in *.
  eapply dlv_same_events; [exact G| |apply fext_eq|]; destruct s; reflexivity.
Qed.

(** * All reachable states *)
Record gcore (all : list event) (st : hg) : Prop := {
  g_dag : dag_ok st;
  g_from : from_attempts st all;
  g_l : linv st;
  g_o : oinv st
}.
Definition all_lt (st : hg) : Prop := forall x ex, get_event st x = Some ex -> ev_lt ex <> None.
Record ginv (all : list event) (st : hg) : Prop := {
  gi_core : gcore all st;
  gi_all : failed st = false -> all_lt st;
  gi_f : finv st;
  gi_d : dlv st
}.

Lemma okeep_of_nf' st st' : okeep_nf st st' ->
  lkeep st st' /\ qkeep st st' /\ rmono st st'.
Proof.
  intros [K1 [K2 [K3 [K4 K5]]]].
  assert (Ge : forall x, get_event st' x = get_event st x) by (intros x; unfold get_event; rewrite K2; reflexivity).
  assert (Gr : forall r, rcv st' r = rcv st r) by (intros r; unfold rcv, get_round; rewrite K3; reflexivity).
  assert (Q : qkeep st st') by (constructor; [intros x; rewrite Ge; reflexivity|exact Gr|exact K4]).
  split; [constructor; [exact K1|intros x; rewrite Ge; reflexivity]|]. split; [exact Q|].
  apply rmono_qkeep; [exact Q|]. intros y t. rewrite K1. auto.
Qed.

Lemma gcore_pass all st st' :
  gcore all st -> dag_frame st st' -> lkeep st st' -> qkeep st st' -> (failed st' = false -> failed st = false) ->
  gcore all st'.
Proof.
  intros [D Fa L O] Fr K Q Hf. constructor.
  - eapply dag_ok_frame; eauto.
  - eapply from_attempts_frame; eauto.
  - eapply linv_lkeep; eauto.
  - eapply oinv_qkeep; eauto.
Qed.

Lemma all_lt_lkeep st st' : lkeep st st' -> all_lt st -> all_lt st'.
Proof.
  intros K A x ex' Hx. destruct (lkeep_bwd _ _ _ _ K Hx) as [ex [Hx0 [_ El]]]. rewrite El. eapply A; eauto.
Qed.

(* the consensus passes after the insertion of event n *)
Lemma run_consensus_ginv all n st :
  gcore all st -> finv st -> dlv st -> dinv n st -> In n (undetermined st) ->
  ginv all (run_consensus st) /\ rmono st (run_consensus st).
Proof.
  intros C F Dl D Hin. unfold run_consensus.
  destruct (failed st) eqn:Hf.
  { rewrite (divide_rounds_failed st Hf), Hf. split; [|apply rmono_refl].
    constructor; [exact C|congruence|exact F|exact Dl]. }
  (* DivideRounds *)
  destruct (divide_rounds_dinv n st D Hin) as [D1 LD1].
  pose proof (divide_rounds_dkeep n st D) as K1.
  pose proof (divide_rounds_frame st) as Fr1.
  set (s1 := divide_rounds st) in *.
  assert (C1 : gcore all s1).
  { constructor; [eapply dag_ok_frame; [apply (g_dag _ _ C)|exact Fr1]|eapply from_attempts_frame; [apply (g_from _ _ C)|exact Fr1]
                 |apply (d_l _ _ D1)|eapply oinv_qkeep; [apply (dk_q _ _ K1)|intros _; exact Hf|apply (g_o _ _ C)]]. }
  pose proof (rmono_dkeep _ _ K1) as M1.
  assert (F1 : finv s1) by (eapply finv_rmono; [exact F|exact M1|apply (dk_f _ _ K1)]).
  assert (Dl1 : dlv s1).
  { eapply dlv_pass; [exact Dl|exact F|apply (g_o _ _ C)|apply delivered_bview, divide_rounds_bview
                     |apply fext_eq, (dk_f _ _ K1)|apply (m_e _ _ M1)]. }
  destruct (failed s1) eqn:Hf1.
  { split; [constructor; [exact C1|congruence|exact F1|exact Dl1]|exact M1]. }
  assert (A1 : all_lt s1).
  { intros y ey Hy Hn. pose proof (d_only _ _ D1 Hf1 y ey Hy Hn) as ->.
    destruct LD1 as [C'|[ex [t [Hx Ht]]]]; [congruence|]. rewrite Hy in Hx. inversion Hx; subst. congruence. }
  (* DecideFame *)
  pose proof (decide_fame_okeep s1) as O2. pose proof (decide_fame_frame s1) as Fr2.
  set (s2 := decide_fame s1) in *.
  assert (C2 : gcore all s2).
  { eapply gcore_pass; [exact C1|exact Fr2|apply okeep_lkeep; exact O2|apply okeep_qkeep; exact O2|intros _; exact Hf1]. }
  pose proof (rmono_okeep _ _ O2) as M2.
  assert (F2 : finv s2) by (eapply finv_rmono; [exact F1|exact M2|apply (o_fr _ _ O2)]).
  assert (A2 : all_lt s2) by (eapply all_lt_lkeep; [apply okeep_lkeep; exact O2|exact A1]).
  assert (Dl2 : dlv s2).
  { eapply dlv_pass; [exact Dl1|exact F1|apply (g_o _ _ C1)|apply delivered_bview, decide_fame_bview
                     |apply fext_eq, (o_fr _ _ O2)|apply (m_e _ _ M2)]. }
  destruct (failed s2) eqn:Hf2.
  { split; [constructor; [exact C2|congruence|exact F2|exact Dl2]|eapply rmono_trans; eauto]. }
  (* DecideRoundReceived *)
  destruct (decide_round_received_oinv s2 (g_o _ _ C2)) as [O3 [M3 E3]].
  pose proof (decide_round_received_lkeep s2) as K3. pose proof (decide_round_received_frame s2) as Fr3.
  set (s3 := decide_round_received s2) in *.
  assert (C3 : gcore all s3).
  { constructor; [eapply dag_ok_frame; [apply (g_dag _ _ C2)|exact Fr3]|eapply from_attempts_frame; [apply (g_from _ _ C2)|exact Fr3]
                 |eapply linv_lkeep; [exact K3|apply (g_l _ _ C2)]|exact O3]. }
  assert (F3 : finv s3) by (eapply finv_rmono; eauto).
  assert (A3 : all_lt s3) by (eapply all_lt_lkeep; eauto).
  assert (Dl3 : dlv s3).
  { eapply dlv_pass; [exact Dl2|exact F2|apply (g_o _ _ C2)|apply delivered_bview, decide_round_received_bview
                     |apply fext_eq; exact E3|apply (m_e _ _ M3)]. }
  destruct (failed s3) eqn:Hf3.
  { split; [constructor; [exact C3|congruence|exact F3|exact Dl3]|eapply rmono_trans; [exact M1|eapply rmono_trans; eauto]]. }
  (* ProcessDecidedRounds *)
  destruct (process_decided_rounds_finv s3 F3 (c_nodup _ (g_o _ _ C3))) as [F4 K4].
  destruct (okeep_of_nf' _ _ K4) as [L4 [Q4 M4]].
  pose proof (process_decided_rounds_frame s3) as Fr4.
  split; [|eapply rmono_trans; [exact M1|eapply rmono_trans; [exact M2|eapply rmono_trans; eauto]]].
  constructor; [|intros _; eapply all_lt_lkeep; eauto|exact F4
               |apply process_decided_rounds_dlv; [exact Dl3|exact F3|apply (c_nodup _ (g_o _ _ C3))]].
  eapply gcore_pass; [exact C3|exact Fr4|exact L4|exact Q4|intros _; exact Hf3].
Qed.

Lemma step_ginv all st e :
  ids_determine all -> In e all -> 0 <= e_id e -> ginv all st ->
  ginv all (step st e) /\ rmono st (step st e).
Proof.
  intros ID Hin Hid [C A F Dl]. unfold step, insert_and_run.
  destruct (insert_event st e) as [r s] eqn:E.
  destruct (insert_event_inv st e all r s (g_dag _ _ C) (g_from _ _ C) ID Hin Hid E) as [OK' [FA' Hns]].
  assert (Hrej : r <> InsOk -> ginv all (snd (r, s)) /\ rmono st (snd (r, s))).
  { intros Hn. rewrite (insert_reject_noop st e r s E Hn Hns). cbn [snd].
    split; [constructor; assumption|apply rmono_refl]. }
  destruct r; try (apply Hrej; discriminate). clear Hrej Hns. cbn [snd].
  destruct (insert_ok_checks st e s E) as [_ [Hsp _]].
  pose proof (checked_fresh st e all (g_dag _ _ C) (g_from _ _ C) ID Hin Hsp) as Hfresh.
  destruct (insert_ok_shape st e s Hfresh Hid E) as [L [G [R [U Fm]]]].
  pose proof (insert_event_failed st e) as Ff. rewrite E in Ff. cbn [snd] in Ff.
  set (n := e_id e) in *.
  assert (Hold : forall x es, get_event st x = Some es ->
                   x <> n /\ exists es', get_event s x = Some es' /\ ev_b es' = ev_b es).
  { intros x es Hx. assert (Hne : x <> n) by (intros ->; congruence). split; [exact Hne|].
    pose proof (G x) as Gx. rewrite Hx in Gx. replace (x =? n) with false in Gx by lia.
    destruct (get_event s x) as [es'|]; [|discriminate]. cbn [option_map] in Gx. assert (Hb : ev_b es' = ev_b es) by congruence. eauto. }
  assert (Hnew : forall x es', get_event s x = Some es' ->
                   (x = n /\ ev_b es' = (e, None, None)) \/
                   (x <> n /\ exists es, get_event st x = Some es /\ ev_b es' = ev_b es)).
  { intros x es' Hx. pose proof (G x) as Gx. rewrite Hx in Gx. destruct (Z.eqb_spec x n) as [->|Hne].
    - left. cbn [option_map] in Gx. assert (Hb : ev_b es' = (e, None, None)) by congruence. auto.
    - right. split; [exact Hne|]. destruct (get_event st x) as [es|]; [|discriminate]. cbn [option_map] in Gx. assert (Hb : ev_b es' = ev_b es) by congruence. eauto. }
  assert (Hn : exists en, get_event s n = Some en /\ ev_b en = (e, None, None)).
  { pose proof (G n) as Gn. rewrite Z.eqb_refl in Gn. destruct (get_event s n) as [en|]; [|discriminate].
    cbn [option_map] in Gn. assert (Hb : ev_b en = (e, None, None)) by congruence. eauto. }
  destruct (g_l _ _ C) as [LM LE LP]. destruct (g_o _ _ C) as [O1 O2 O3 O4 O5 O6].
  (* timestamps *)
  assert (Ls : linv s).
  { constructor.
    - intros x t. unfold parent_lt. rewrite L. intros Hx. destruct (LM x t Hx) as [ex [a [b [Hex R0]]]].
      destruct (Hold x ex Hex) as [_ [ex' [Hex' Eb]]]. exists ex', a, b.
      unfold ev_b in Eb. inversion Eb as [[Ee El Er]]. rewrite Ee. auto.
    - intros x ex' t Hx Ht. rewrite L. destruct (Hnew x ex' Hx) as [[_ Eb]|[_ [ex [Hex Eb]]]];
        unfold ev_b in Eb; inversion Eb as [[Ee El Er]]; [congruence|]. eapply LE; eauto. congruence.
    - intros x ex' t p Hx Ht Hp Hpn. destruct (Hnew x ex' Hx) as [[_ Eb]|[_ [ex [Hex Eb]]]];
        unfold ev_b in Eb; inversion Eb as [[Ee El Er]]; [congruence|].
      rewrite Ee in Hp. destruct (LP x ex t p Hex ltac:(congruence) Hp Hpn) as [ep [tp [Hep Htp]]].
      destruct (Hold p ep Hep) as [_ [ep' [Hep' Eb']]]. unfold ev_b in Eb'. inversion Eb' as [[Ee' El' Er']].
      exists ep', tp. split; [auto|congruence]. }
  assert (Ds : dinv n s).
  { constructor; [exact Ls|intros x ex Hx; apply (d_op s OK' x ex Hx)|].
    intros Hf y ey Hy Hl. destruct (Hnew y ey Hy) as [[-> _]|[_ [ex [Hex Eb]]]]; [reflexivity|exfalso].
    unfold ev_b in Eb. inversion Eb as [[Ee El Er]]. rewrite Ff in Hf. apply (A Hf y ex Hex). congruence. }
  (* round-received *)
  assert (Os : oinv s).
  { constructor.
    - intros x. rewrite U. intros Hx. apply in_app_or in Hx. destruct Hx as [Hx|[<-|[]]].
      + destruct (O1 x Hx) as [ex Hex]. destruct (Hold x ex Hex) as [_ [ex' [Hex' _]]]. eauto.
      + destruct Hn as [en [Hen _]]. eauto.
    - rewrite U.
      assert (P : Permutation (n :: undetermined st) (undetermined st ++ [n])) by apply Permutation_cons_append.
      eapply Permutation_NoDup; [exact P|]. constructor; [|exact O2].
      intros Hx. destruct (O1 n Hx) as [ex Hex]. congruence.
    - intros Hf x ex'. rewrite U. intros Hx Hex'. rewrite Ff in Hf.
      destruct (Hnew x ex' Hex') as [[_ Eb]|[_ [ex [Hex Eb]]]]; unfold ev_b in Eb; inversion Eb as [[Ee El Er]]; [reflexivity|].
      rewrite Er. apply in_app_or in Hx. destruct Hx as [Hx|[<-|[]]]; [eapply O3; eauto|congruence].
    - intros r x. rewrite R. intros Hx. destruct (O4 r x Hx) as [ex [Hex Hr]].
      destruct (Hold x ex Hex) as [_ [ex' [Hex' Eb]]]. unfold ev_b in Eb. inversion Eb as [[Ee El Er]].
      exists ex'. split; [auto|congruence].
    - intros r. rewrite R. apply O5.
    - intros x ex' r Hex' Hr. rewrite R. destruct (Hnew x ex' Hex') as [[_ Eb]|[_ [ex [Hex Eb]]]];
        unfold ev_b in Eb; inversion Eb as [[Ee El Er]]; [congruence|]. eapply O6; eauto. congruence. }
  assert (Ms : rmono st s).
  { constructor.
    - intros x ex r Hex Hr. destruct (Hold x ex Hex) as [_ [ex' [Hex' Eb]]]. unfold ev_b in Eb. inversion Eb as [[Ee El Er]].
      exists ex'. split; [auto|congruence].
    - intros r. rewrite R. apply incl_refl.
    - intros y t. rewrite L. auto.
    - intros x ex Hex. destruct (Hold x ex Hex) as [_ [ex' [Hex' Eb]]]. unfold ev_b in Eb. inversion Eb as [[Ee El Er]]. eauto. }
  assert (Fs : finv s) by (eapply finv_rmono; eauto).
  assert (Cs : gcore all s) by (constructor; assumption).
  assert (Hund : In n (undetermined s)) by (rewrite U; apply in_or_app; right; left; reflexivity).
  assert (Dls : dlv s).
  { eapply dlv_pass; [exact Dl|exact F|apply (g_o _ _ C)| |apply fext_eq; exact Fm|apply (m_e _ _ Ms)].
    pose proof (delivered_bview _ _ (insert_event_bview st e)) as Db. rewrite E in Db. exact Db. }
  destruct (run_consensus_ginv all n s Cs Fs Dls Ds Hund) as [Gr Mr].
  split; [exact Gr|eapply rmono_trans; eauto].
Qed.

Lemma process_sigpool_failed st : failed (process_sigpool st) = failed st.
Proof.
  unfold process_sigpool. generalize (sigpool st). intros l. revert st.
  induction l as [|s l IH]; intros st; cbn [fold_left]; [reflexivity|]. rewrite IH. apply process_sig_rv.
Qed.

Lemma process_sigpool_ginv all st : ginv all st -> ginv all (process_sigpool st) /\ rmono st (process_sigpool st).
Proof.
  intros [C A F Dl]. destruct (ov_nf _ _ (process_sigpool_ov st)) as [K E].
  destruct (okeep_of_nf' _ _ K) as [L [Q M]]. pose proof (process_sigpool_failed st) as Ff.
  split; [|exact M]. constructor.
  - eapply gcore_pass; [exact C|apply process_sigpool_frame|exact L|exact Q|congruence].
  - intros Hf. eapply all_lt_lkeep; [exact L|apply A; congruence].
  - eapply finv_nf; eauto.
  - eapply dlv_same_events; [exact Dl| |apply fext_eq; exact E|apply K].
    unfold process_sigpool. generalize (sigpool st). intros l. generalize st. clear.
    induction l as [|sg l IH]; intros st; cbn [fold_left]; [reflexivity|]. rewrite IH.
    destruct (process_sig_rv st sg) as [Hrv _]. unfold rv in Hrv. inversion Hrv. reflexivity.
Qed.

Lemma ginv_init all self_ genesis oracle_ : ginv all (init_hg self_ genesis oracle_).
Proof.
  assert (E : ov (init_hg self_ genesis oracle_) = ov (empty_hg self_)).
  { unfold init_hg. destruct (set_peerset (empty_hg self_) 0 genesis) as [st|] eqn:S; [|reflexivity].
    rewrite <- (ov_set_peerset _ _ _ _ S). destruct st; reflexivity. }
  destruct (ov_nf _ _ E) as [[El [Ee [Er [Eu Em]]]] Ef]. clear E.
  assert (Ge : forall x, get_event (init_hg self_ genesis oracle_) x = None).
  { intros x. unfold get_event. rewrite Ee. cbn. apply zget_empty. }
  assert (Gr : forall r, rcv (init_hg self_ genesis oracle_) r = []).
  { intros r. unfold rcv, get_round. rewrite Er. cbn. rewrite zget_empty. reflexivity. }
  constructor; [constructor; [apply dag_ok_init|intros x es H; rewrite Ge in H; discriminate|constructor|constructor]| | |].
  - intros x t. rewrite El. cbn. rewrite zget_empty. discriminate.
  - intros x ex t H. rewrite Ge in H. discriminate.
  - intros x ex t p H. rewrite Ge in H. discriminate.
  - rewrite Eu. intros x [].
  - rewrite Eu. constructor.
  - intros _ x ex _ H. rewrite Ge in H. discriminate.
  - intros r x. rewrite Gr. intros [].
  - intros r. rewrite Gr. constructor.
  - intros x ex r H. rewrite Ge in H. discriminate.
  - intros _ x ex H. rewrite Ge in H. discriminate.
  - intros rr f. rewrite Ef. cbn. rewrite zget_empty. discriminate.
  - intros d. replace (delivered (init_hg self_ genesis oracle_)) with (@nil block); [intros []|].
    unfold init_hg. destruct (set_peerset (empty_hg self_) 0 genesis) as [st|] eqn:S; [|reflexivity].
    pose proof (delivered_bl _ _ (set_peerset_bl _ _ _ _ S)) as D.
    change (delivered (st <| validators := genesis |> <| oracle := oracle_ |>)) with (delivered st).
    rewrite D. reflexivity.
Qed.

(* operations whose inserted events come from a list in which identifiers determine events *)
Definition hop_ok (all : list event) (o : hop) : Prop :=
  match o with HInsert e => In e all /\ 0 <= e_id e | HSigPool => True end.

Lemma hstep_ginv all st o : ids_determine all -> hop_ok all o -> ginv all st ->
  ginv all (hstep st o) /\ rmono st (hstep st o).
Proof.
  intros ID Ho G. destruct o as [e|]; cbn [hstep].
  - destruct Ho as [Hin Hid]. apply step_ginv; auto.
  - apply process_sigpool_ginv; auto.
Qed.

Lemma hrun_ginv_from all ops : ids_determine all -> Forall (hop_ok all) ops ->
  forall st, ginv all st -> ginv all (hrun st ops) /\ rmono st (hrun st ops).
Proof.
  intros ID. induction 1 as [|o ops Ho Hops IH]; intros st G; cbn [hrun fold_left].
  - split; [exact G|apply rmono_refl].
  - destruct (hstep_ginv all st o ID Ho G) as [G1 M1].
    destruct (IH _ G1) as [G2 M2]. split; [exact G2|eapply rmono_trans; eauto].
Qed.

Theorem hrun_ginv all self_ genesis oracle_ ops :
  ids_determine all -> Forall (hop_ok all) ops -> ginv all (hrun (init_hg self_ genesis oracle_) ops).
Proof. intros ID H. apply (hrun_ginv_from all ops ID H). apply ginv_init. Qed.

(** * Consequences *)

(* timestamp carried by a parent reference, read from the stored events *)
Definition parent_ts (st : hg) (p : Z) : option Z :=
  if p =? -1 then Some (-1)
  else match get_event st p with Some ep => ev_lt ep | None => None end.

(* direct parent in the stored DAG, ancestor = transitive closure *)
Definition parent_of (st : hg) (a b : Z) : Prop :=
  exists eb, get_event st b = Some eb /\ a <> -1 /\ (a = e_sp (ev_e eb) \/ a = e_op (ev_e eb)).
Inductive anc (st : hg) : Z -> Z -> Prop :=
| anc_parent a b : parent_of st a b -> anc st a b
| anc_step a b c : anc st a b -> parent_of st b c -> anc st a c.

Theorem lamport_strict all st x ex t :
  ginv all st -> get_event st x = Some ex -> ev_lt ex = Some t ->
  exists a b, parent_ts st (e_sp (ev_e ex)) = Some a /\ parent_ts st (e_op (ev_e ex)) = Some b /\
              -1 <= a /\ -1 <= b /\ t = 1 + Z.max a b.
Proof.
  intros [C _ _ _] Hx Ht. destruct (g_l _ _ C) as [M E P].
  pose proof (E x ex t Hx Ht) as Hm. destruct (M x t Hm) as [ex' [a [b [Hx' [Ha [Hb R]]]]]].
  rewrite Hx in Hx'. inversion Hx'; subst ex'. exists a, b.
  assert (Conv : forall p c, (p = e_sp (ev_e ex) \/ p = e_op (ev_e ex)) -> parent_lt st p = Some c -> parent_ts st p = Some c).
  { intros p c Hp. unfold parent_lt, parent_ts. destruct (Z.eqb_spec p (-1)); [auto|]. intros Hc.
    destruct (P x ex t p Hx Ht Hp n) as [ep [tp [Hep Htp]]]. rewrite Hep, Htp.
    rewrite (E p ep tp Hep Htp) in Hc. exact Hc. }
  split; [apply Conv; auto|]. split; [apply Conv; auto|exact R].
Qed.

Corollary lamport_parent_lt all st x ex t p :
  ginv all st -> get_event st x = Some ex -> ev_lt ex = Some t ->
  (p = e_sp (ev_e ex) \/ p = e_op (ev_e ex)) -> p <> -1 ->
  exists ep tp, get_event st p = Some ep /\ ev_lt ep = Some tp /\ tp < t.
Proof.
  intros G Hx Ht Hp Hn. destruct (lamport_strict all st x ex t G Hx Ht) as [a [b [Ha [Hb [Ga [Gb Et]]]]]].
  unfold parent_ts in Ha, Hb. destruct Hp as [->| ->].
  - replace (e_sp (ev_e ex) =? -1) with false in Ha by lia.
    destruct (get_event st (e_sp (ev_e ex))) as [ep|]; [|discriminate]. exists ep, a. split; [auto|split; [auto|lia]].
  - replace (e_op (ev_e ex) =? -1) with false in Hb by lia.
    destruct (get_event st (e_op (ev_e ex))) as [ep|]; [|discriminate]. exists ep, b. split; [auto|split; [auto|lia]].
Qed.

(* along any chain of parents the memoised timestamp strictly decreases *)
Lemma anc_memo_lt st a b tb :
  memo_consistent st -> anc st a b -> zget b (lt_memo st) = Some tb ->
  exists ta, zget a (lt_memo st) = Some ta /\ ta < tb.
Proof.
  intros M H. revert tb. induction H as [a b [eb [Hb [Hn Hp]]]|a b c Hab IH [ec [Hc [Hn Hp]]]]; intros tb Htb.
  - destruct (M b tb Htb) as [eb' [x [y [Hb' [Hx [Hy [Gx [Gy Et]]]]]]]]. rewrite Hb in Hb'. inversion Hb'; subst eb'.
    unfold parent_lt in Hx, Hy. destruct Hp as [->| ->].
    + replace (e_sp (ev_e eb) =? -1) with false in Hx by lia. exists x. split; [auto|lia].
    + replace (e_op (ev_e eb) =? -1) with false in Hy by lia. exists y. split; [auto|lia].
  - destruct (M c tb Htb) as [ec' [x [y [Hc' [Hx [Hy [Gx [Gy Et]]]]]]]]. rewrite Hc in Hc'. inversion Hc'; subst ec'.
    assert (Hm : exists tm, zget b (lt_memo st) = Some tm /\ tm < tb).
    { unfold parent_lt in Hx, Hy. destruct Hp as [->| ->].
      - replace (e_sp (ev_e ec) =? -1) with false in Hx by lia. exists x. split; [auto|lia].
      - replace (e_op (ev_e ec) =? -1) with false in Hy by lia. exists y. split; [auto|lia]. }
    destruct Hm as [tm [Hm Hlt]]. destruct (IH tm Hm) as [ta [Hta Hl]]. exists ta. split; [auto|lia].
Qed.

Theorem lamport_ancestor_lt all st a b eb tb :
  ginv all st -> anc st a b -> get_event st b = Some eb -> ev_lt eb = Some tb ->
  exists ta, zget a (lt_memo st) = Some ta /\ ta < tb.
Proof.
  intros [C _ _ _] H Hb Ht. destruct (g_l _ _ C) as [M E P].
  eapply anc_memo_lt; eauto.
Qed.

Lemma lt_sorted_position l i j a b :
  lt_sorted l -> nth_error l i = Some a -> nth_error l j = Some b -> fe_lt a < fe_lt b -> (i < j)%nat.
Proof.
  intros S. revert i j. induction S as [|x l S IH F]; intros i j Ha Hb Hlt; [destruct i; discriminate|].
  destruct i as [|i], j as [|j]; cbn in Ha, Hb.
  - inversion Ha; inversion Hb; subst. lia.
  - lia.
  - exfalso. inversion Hb; subst b. rewrite Forall_forall in F.
    apply nth_error_In in Ha. apply F in Ha. lia.
  - apply ->Nat.succ_lt_mono. eapply IH; eauto.
Qed.

(* in a frame an ancestor always comes before its descendant *)
Theorem frame_respects_ancestry all st rr f i j a b :
  ginv all st -> zget rr (frames st) = Some f ->
  nth_error (f_events f) i = Some a -> nth_error (f_events f) j = Some b ->
  anc st (fe_id a) (fe_id b) -> (i < j)%nat.
Proof.
  intros [C _ F _] Hf Ha Hb Hanc. destruct (F rr f Hf) as [_ [S [_ [Hev _]]]].
  destruct (Hev a (nth_error_In _ _ Ha)) as [_ Hma]. destruct (Hev b (nth_error_In _ _ Hb)) as [_ Hmb].
  destruct (anc_memo_lt st _ _ _ (l_memo _ (g_l _ _ C)) Hanc Hmb) as [ta [Hta Hlt]].
  rewrite Hma in Hta. inversion Hta; subst ta.
  eapply lt_sorted_position; eauto.
Qed.

(* round-received, once assigned, is kept by every continuation *)
Theorem rr_stable all st ops x ex r :
  ids_determine all -> Forall (hop_ok all) ops -> ginv all st ->
  get_event st x = Some ex -> ev_rr ex = Some r ->
  exists ex', get_event (hrun st ops) x = Some ex' /\ ev_rr ex' = Some r.
Proof.
  intros ID Hops G Hx Hr. destruct (hrun_ginv_from all ops ID Hops st G) as [_ M]. eapply (m_rr _ _ M); eauto.
Qed.

(* received lists: exactly the events with that round-received, without repetition *)
Theorem received_iff all st r x :
  ginv all st -> (In x (rcv st r) <-> exists ex, get_event st x = Some ex /\ ev_rr ex = Some r).
Proof.
  intros [C _ _ _]. split; [apply (c_in _ (g_o _ _ C))|]. intros [ex [Hx Hr]]. eapply (c_listed _ (g_o _ _ C)); eauto.
Qed.
Theorem received_nodup all st r : ginv all st -> NoDup (rcv st r).
Proof. intros [C _ _ _]. apply (c_nodup _ (g_o _ _ C)). Qed.
Theorem received_one_round all st r r' x : ginv all st -> In x (rcv st r) -> In x (rcv st r') -> r = r'.
Proof.
  intros G H H'. apply (received_iff all st r x G) in H. apply (received_iff all st r' x G) in H'.
  destruct H as [ex [Hx Hr]], H' as [ex' [Hx' Hr']]. congruence.
Qed.

(* frames: no event twice in a frame, no event in the frames of two rounds *)
Theorem frame_nodup all st rr f : ginv all st -> zget rr (frames st) = Some f -> NoDup (map fe_id (f_events f)).
Proof. intros [_ _ F _] H. apply (F rr f H). Qed.
Theorem frame_one_round all st rr rr' f f' x :
  ginv all st -> zget rr (frames st) = Some f -> zget rr' (frames st) = Some f' ->
  In x (map fe_id (f_events f)) -> In x (map fe_id (f_events f')) -> rr = rr'.
Proof.
  intros G H H' Hx Hx'. destruct G as [C A F Dl]. 
  destruct (F rr f H) as [_ [_ [_ [E _]]]]. destruct (F rr' f' H') as [_ [_ [_ [E' _]]]].
  apply in_map_iff in Hx. destruct Hx as [fe [<- Hfe]]. apply in_map_iff in Hx'. destruct Hx' as [fe' [Eq Hfe']].
  destruct (E fe Hfe) as [I1 _]. destruct (E' fe' Hfe') as [I2 _]. rewrite Eq in I2.
  eapply (received_one_round all st); eauto. constructor; assumption.
Qed.
Theorem frame_events_received all st rr f fe :
  ginv all st -> zget rr (frames st) = Some f -> In fe (f_events f) ->
  f_round f = rr /\ zget (fe_id fe) (lt_memo st) = Some (fe_lt fe) /\
  exists ex, get_event st (fe_id fe) = Some ex /\ ev_rr ex = Some rr /\
             (failed st = false -> ev_lt ex = Some (fe_lt fe)).
Proof.
  intros [C A F Dl] H Hfe. destruct (F rr f H) as [Hr [_ [_ [E _]]]]. destruct (E fe Hfe) as [I1 Hm].
  split; [exact Hr|]. split; [exact Hm|].
  destruct (c_in _ (g_o _ _ C) rr _ I1) as [ex [Hx Hrr]]. exists ex. split; [auto|split; [auto|]].
  intros Hf. destruct (ev_lt ex) as [t|] eqn:Hl.
  - pose proof (l_ev _ (g_l _ _ C) _ _ _ Hx Hl) as Hm'. congruence.
  - exfalso. apply (A Hf _ _ Hx). exact Hl.
Qed.

(** * Delivered blocks *)
Theorem delivered_block_payload all st d :
  ginv all st -> In d (delivered st) ->
  zget (b_rr d) (frames st) = Some (b_frame d) /\
  b_txs d = flat_map (txs_of st) (f_events (b_frame d)) /\
  b_itxs d = flat_map (itxs_of st) (f_events (b_frame d)).
Proof. intros [_ _ _ Dl]. apply Dl. Qed.

(* the transactions of one event are a contiguous segment of the block, in the creator's order *)
Theorem delivered_event_segment all st d l1 fe l2 :
  ginv all st -> In d (delivered st) -> f_events (b_frame d) = l1 ++ fe :: l2 ->
  b_txs d = flat_map (txs_of st) l1 ++ txs_of st fe ++ flat_map (txs_of st) l2.
Proof.
  intros G Hd Hs. destruct (delivered_block_payload all st d G Hd) as [_ [Ht _]].
  rewrite Ht, Hs, flat_map_app. reflexivity.
Qed.

Lemma sorted_nth_lt_gen l : StronglySorted Z.lt l ->
  forall k k' a b, (k < k')%nat -> nth_error l k = Some a -> nth_error l k' = Some b -> a < b.
Proof.
  induction 1 as [|x l S IH F]; intros k k' a b Hlt Ha Hb; [destruct k; discriminate|].
  destruct k' as [|k']; [lia|]. destruct k as [|k]; cbn in Ha, Hb.
  - inversion Ha; subst. rewrite Forall_forall in F. apply F. eapply nth_error_In; eauto.
  - eapply IH; [|exact Ha|exact Hb]. lia.
Qed.

(* an event is committed at most once: it belongs to the frame of at most one delivered block *)
Theorem committed_once all self_ genesis oracle_ ops k k' d d' x :
  ids_determine all -> Forall (hop_ok all) ops ->
  let st := hrun (init_hg self_ genesis oracle_) ops in
  nth_error (delivered st) k = Some d -> nth_error (delivered st) k' = Some d' ->
  In x (map fe_id (f_events (b_frame d))) -> In x (map fe_id (f_events (b_frame d'))) ->
  k = k' /\ NoDup (map fe_id (f_events (b_frame d))).
Proof.
  intros ID Hops st Hk Hk' Hx Hx'.
  pose proof (hrun_ginv all self_ genesis oracle_ ops ID Hops) as G. fold st in G.
  destruct (delivered_block_payload all st d G (nth_error_In _ _ Hk)) as [Hf _].
  destruct (delivered_block_payload all st d' G (nth_error_In _ _ Hk')) as [Hf' _].
  pose proof (frame_one_round all st _ _ _ _ x G Hf Hf' Hx Hx') as Er.
  split; [|eapply frame_nodup; eauto].
  destruct (hrun_rtop self_ genesis oracle_ ops) as [S _]. fold st in S.
  assert (Ha : nth_error (map b_rr (delivered st)) k = Some (b_rr d)) by (rewrite nth_error_map, Hk; reflexivity).
  assert (Hb : nth_error (map b_rr (delivered st)) k' = Some (b_rr d')) by (rewrite nth_error_map, Hk'; reflexivity).
  destruct (Nat.lt_trichotomy k k') as [Hlt|[->|Hlt]]; [|reflexivity|].
  - pose proof (sorted_nth_lt_gen _ S _ _ _ _ Hlt Ha Hb). lia.
  - pose proof (sorted_nth_lt_gen _ S _ _ _ _ Hlt Hb Ha). lia.
Qed.

(* inside a delivered block an ancestor's transactions come before its descendant's *)
Theorem delivered_block_respects_ancestry all st d i j a b :
  ginv all st -> In d (delivered st) ->
  nth_error (f_events (b_frame d)) i = Some a -> nth_error (f_events (b_frame d)) j = Some b ->
  anc st (fe_id a) (fe_id b) -> (i < j)%nat.
Proof.
  intros G Hd Ha Hb Hanc. destruct (delivered_block_payload all st d G Hd) as [Hf _].
  eapply frame_respects_ancestry; eauto.
Qed.

(** * Helpers to discharge the hypotheses on concrete histories *)
Fixpoint distinctb (l : list Z) : bool :=
  match l with [] => true | x :: r => negb (mem_key x r) && distinctb r end.

Lemma mem_key_In k l : mem_key k l = true <-> In k l.
Proof.
  induction l as [|x l IH]; cbn [mem_key In]; [split; [discriminate|intros []]|].
  destruct (Z.eqb_spec x k); [split; auto|]. rewrite IH. split; [auto|intros [?|?]; [contradiction|auto]].
Qed.

Lemma distinctb_NoDup l : distinctb l = true -> NoDup l.
Proof.
  induction l as [|x l IH]; cbn [distinctb]; [constructor|].
  intros H. apply andb_prop in H. destruct H as [H1 H2]. constructor; [|apply IH; exact H2].
  intros C. apply mem_key_In in C. rewrite C in H1. discriminate.
Qed.

Lemma ids_determine_distinct all : distinctb (map e_id all) = true -> ids_determine all.
Proof. intros H e e' He He' E. eapply NoDup_map_inj; eauto. apply distinctb_NoDup. exact H. Qed.

Lemma hop_ok_inserts all :
  forallb (fun e => 0 <=? e_id e) all = true -> Forall (hop_ok all) (map HInsert all).
Proof.
  intros H. apply Forall_forall. intros o Ho. apply in_map_iff in Ho. destruct Ho as [e [<- He]].
  cbn. split; [exact He|]. rewrite forallb_forall in H. specialize (H e He). lia.
Qed.

(* a cached frame is sorted by the full key (timestamp, signature rank) of the current state; with
   pairwise distinct keys it is the only sorted arrangement of its events *)
Theorem frame_sorted all st rr f :
  ginv all st -> zget rr (frames st) = Some f ->
  StronglySorted (fe_le st) (f_events f) /\
  (NoDup (map (fe_key st) (f_events f)) ->
   forall l', Permutation l' (f_events f) -> StronglySorted (fe_le st) l' -> l' = f_events f).
Proof.
  intros [_ _ F _] H. destruct (F rr f H) as [_ [_ [_ [_ [_ S]]]]]. split; [exact S|].
  intros N l' P S'. rewrite (fe_sort_unique st (f_events f) l' N P S').
  symmetry. apply fe_sort_unique; [exact N|apply Permutation_refl|exact S].
Qed.
