(* C04: SortedFrameEvents.  fe_sort (insertion sort by fe_less) returns the sorted permutation of
   its input w.r.t. the total preorder "Lamport timestamp, then signature rank"; when the
   (timestamp, rank) pairs are pairwise distinct it is the only sorted permutation, so any correct
   sorting algorithm (Go's unstable sort.Sort) returns the same list. *)
From Coq Require Import ZArith List Bool Lia ZifyBool Sorted Permutation.
From V Require Import Model.ZMap Model.HgImpl.
Import ListNotations.
Open Scope Z_scope.

Definition sigkey_of (st : hg) (x : Z) : Z :=
  match get_event st x with Some e => e_sigkey (ev_e e) | None => 0 end.
Definition fe_key (st : hg) (a : frameev) : Z * Z := (fe_lt a, sigkey_of st (fe_id a)).
(* a is not after b *)
Definition fe_le (st : hg) (a b : frameev) : Prop := fe_less st b a = false.

Lemma fe_less_spec st a b :
  fe_less st a b = true <->
  fe_lt a < fe_lt b \/ (fe_lt a = fe_lt b /\ sigkey_of st (fe_id a) < sigkey_of st (fe_id b)).
Proof.
  unfold fe_less, sigkey_of. destruct (Z.eqb_spec (fe_lt a) (fe_lt b)); cbn [negb]; lia.
Qed.

Lemma fe_le_spec st a b :
  fe_le st a b <->
  fe_lt a < fe_lt b \/ (fe_lt a = fe_lt b /\ sigkey_of st (fe_id a) <= sigkey_of st (fe_id b)).
Proof.
  unfold fe_le. pose proof (fe_less_spec st b a) as H.
  destruct (fe_less st b a).
  - split; [discriminate|]. intros G. exfalso. pose proof (proj1 H eq_refl). lia.
  - split; [intros _|reflexivity].
    assert (N : ~ (fe_lt b < fe_lt a \/ fe_lt b = fe_lt a /\ sigkey_of st (fe_id b) < sigkey_of st (fe_id a))).
    { intros C. apply H in C. discriminate. }
    lia.
Qed.

Lemma fe_le_refl st a : fe_le st a a.
Proof. apply fe_le_spec. lia. Qed.
Lemma fe_le_trans st a b c : fe_le st a b -> fe_le st b c -> fe_le st a c.
Proof. rewrite !fe_le_spec. lia. Qed.
Lemma fe_le_total st a b : fe_le st a b \/ fe_le st b a.
Proof. rewrite !fe_le_spec. lia. Qed.
Lemma fe_less_le st a b : fe_less st a b = true -> fe_le st a b.
Proof. rewrite fe_less_spec, fe_le_spec. lia. Qed.
Lemma fe_le_lt st a b : fe_le st a b -> fe_lt a <= fe_lt b.
Proof. rewrite fe_le_spec. lia. Qed.
Lemma fe_le_antisym_key st a b : fe_le st a b -> fe_le st b a -> fe_key st a = fe_key st b.
Proof. rewrite !fe_le_spec. unfold fe_key. intros H1 H2. f_equal; lia. Qed.

Lemma fe_insert_perm st x l : Permutation (fe_insert st x l) (x :: l).
Proof.
  induction l as [|y r IH]; cbn [fe_insert]; [apply Permutation_refl|].
  destruct (fe_less st y x); [|apply Permutation_refl].
  eapply Permutation_trans; [apply perm_skip; exact IH|apply perm_swap].
Qed.

Lemma fe_insert_sorted st x l :
  StronglySorted (fe_le st) l -> StronglySorted (fe_le st) (fe_insert st x l).
Proof.
  induction l as [|y r IH]; intros S; cbn [fe_insert]; [constructor; constructor|].
  inversion S as [|y' r' S' F]; subst.
  destruct (fe_less st y x) eqn:E.
  - constructor; [apply IH; exact S'|].
    apply Forall_forall. intros z Hz.
    apply (Permutation_in _ (fe_insert_perm st x r)) in Hz. destruct Hz as [<-|Hz].
    + apply fe_less_le. exact E.
    + rewrite Forall_forall in F. apply F. exact Hz.
  - constructor; [exact S|]. constructor; [exact E|].
    apply Forall_forall. intros z Hz. rewrite Forall_forall in F.
    eapply fe_le_trans; [exact E|apply F; exact Hz].
Qed.

Lemma fe_sort_perm st l : Permutation (fe_sort st l) l.
Proof.
  induction l as [|x l IH]; cbn [fe_sort fold_right]; [constructor|].
  eapply Permutation_trans; [apply fe_insert_perm|apply perm_skip; exact IH].
Qed.

Lemma fe_sort_sorted st l : StronglySorted (fe_le st) (fe_sort st l).
Proof.
  induction l as [|x l IH]; cbn [fe_sort fold_right]; [constructor|]. apply fe_insert_sorted. exact IH.
Qed.

(* two sorted permutations of the same elements are equal when the order is antisymmetric on them *)
Lemma sorted_perm_unique {A} (R : A -> A -> Prop) :
  forall l l', Permutation l l' -> StronglySorted R l -> StronglySorted R l' ->
  (forall a b, In a l -> In b l -> R a b -> R b a -> a = b) -> l = l'.
Proof.
  induction l as [|a l IH]; intros l' P S S' Anti.
  - apply Permutation_nil in P. subst; reflexivity.
  - destruct l' as [|a' l']; [apply Permutation_sym, Permutation_nil in P; discriminate|].
    inversion S as [|x y S1 F1]; subst. inversion S' as [|x y S1' F1']; subst.
    rewrite Forall_forall in F1, F1'.
    assert (Ha : In a (a' :: l')) by (eapply Permutation_in; [exact P|left; reflexivity]).
    assert (Ha' : In a' (a :: l)) by (eapply Permutation_in; [apply Permutation_sym; exact P|left; reflexivity]).
    assert (E : a = a').
    { destruct Ha as [->|Ha]; [reflexivity|]. destruct Ha' as [->|Ha']; [reflexivity|].
      apply Anti; [left; reflexivity|right; exact Ha'|apply F1; exact Ha'|apply F1'; exact Ha]. }
    subst a'. f_equal. apply IH; auto.
    + eapply Permutation_cons_inv; eauto.
    + intros x y Hx Hy. apply Anti; right; assumption.
Qed.

Lemma NoDup_map_inj {A B} (f : A -> B) l a b :
  NoDup (map f l) -> In a l -> In b l -> f a = f b -> a = b.
Proof.
  induction l as [|x l IH]; intros N Ha Hb E; [destruct Ha|].
  cbn [map] in N. inversion N as [|y m Hn N']; subst.
  destruct Ha as [->|Ha], Hb as [->|Hb]; auto.
  - exfalso. apply Hn. rewrite E. apply in_map. exact Hb.
  - exfalso. apply Hn. rewrite <- E. apply in_map. exact Ha.
Qed.

(* fe_sort is THE sorted permutation when no two events tie on (timestamp, signature rank) *)
Theorem fe_sort_unique st l l' :
  NoDup (map (fe_key st) l) -> Permutation l' l -> StronglySorted (fe_le st) l' -> l' = fe_sort st l.
Proof.
  intros N P S.
  apply (sorted_perm_unique (fe_le st)); [|exact S|apply fe_sort_sorted|].
  - eapply Permutation_trans; [exact P|apply Permutation_sym, fe_sort_perm].
  - intros a b Ha Hb H1 H2.
    apply (NoDup_map_inj (fe_key st) l); [exact N| | |apply fe_le_antisym_key; assumption];
      eapply Permutation_in; eauto.
Qed.

(* positions in a sorted list: a strictly smaller timestamp comes first *)
Lemma sorted_lt_position st l i j a b :
  StronglySorted (fe_le st) l -> nth_error l i = Some a -> nth_error l j = Some b ->
  fe_lt a < fe_lt b -> (i < j)%nat.
Proof.
  intros S. revert i j. induction S as [|x l S IH F]; intros i j Ha Hb Hlt; [destruct i; discriminate|].
  destruct i as [|i], j as [|j]; cbn in Ha, Hb.
  - inversion Ha; inversion Hb; subst. lia.
  - lia.
  - exfalso. inversion Hb; subst b. rewrite Forall_forall in F.
    apply nth_error_In in Ha. apply F in Ha. apply fe_le_lt in Ha. lia.
  - apply ->Nat.succ_lt_mono. eapply IH; eauto.
Qed.
