(* C10: the validator-set table is a replayable function of the delivered blocks.
   Part 1: the sorted table (insert / lookup).  Part 2: footprints of commit, get_frame,
   process_sig on the components that C10 and C09 read, and a generic lifting of invariants from
   those three functions to every operation sequence.  Part 3: the C10 invariants. *)
From Coq Require Import ZArith List Bool Lia ZifyBool Sorted.
From RecordUpdate Require Import RecordSet.
From V Require Import Model.ZMap Model.Quorum Model.Voting Model.HgImpl Model.PeerSetSpec
  Proofs.ZMapFacts Proofs.QuorumProofs Proofs.HgFrames Proofs.HgBlockFrames Proofs.HgSigFrames Proofs.BlockInv.
Import ListNotations RecordSetNotations.
Open Scope Z_scope.

(** * Part 1: the table *)

(* keys strictly increasing and all above lo *)
Fixpoint keys_above (lo : Z) (t : list (Z * peerset)) : Prop :=
  match t with
  | [] => True
  | (k, _) :: rest => lo < k /\ keys_above k rest
  end.

(* well-formed table: first key 0, keys strictly increasing *)
Definition table_wf (t : list (Z * peerset)) : Prop :=
  exists ps0 rest, t = (0, ps0) :: rest /\ keys_above 0 rest.

Lemma keys_above_weaken lo lo' t : lo' <= lo -> keys_above lo t -> keys_above lo' t.
Proof. destruct t as [|[k p] r]; cbn; [auto|]. intros H [H1 H2]. split; [lia|exact H2]. Qed.

Lemma keys_above_In lo t k p : keys_above lo t -> In (k, p) t -> lo < k.
Proof.
  revert lo. induction t as [|[k' p'] r IH]; intros lo H HI; [destruct HI|].
  destruct H as [H1 H2]. destruct HI as [E|HI]; [inversion E; subst; exact H1|].
  specialize (IH _ H2 HI). lia.
Qed.

Lemma keys_above_sorted lo t : keys_above lo t -> StronglySorted Z.lt (map fst t).
Proof.
  revert lo. induction t as [|[k p] r IH]; intros lo H; cbn [map]; [constructor|].
  destruct H as [H1 H2]. constructor; [eapply IH; eauto|].
  apply Forall_forall. intros k' Hk'. apply in_map_iff in Hk'. destruct Hk' as [[k'' p''] [E HI]].
  cbn in E; subst k''. cbn [fst]. eapply keys_above_In; eauto.
Qed.

Lemma table_wf_sorted t : table_wf t -> StronglySorted Z.lt (map fst t) /\ hd_error (map fst t) = Some 0.
Proof.
  intros [ps0 [rest [-> H]]]. split; [|reflexivity].
  apply (keys_above_sorted (-1) ((0, ps0) :: rest)). cbn. split; [lia|exact H].
Qed.

Lemma table_has_In r t : table_has r t = true <-> exists p, In (r, p) t.
Proof.
  unfold table_has. rewrite existsb_exists. split.
  - intros [[k p] [HI E]]. cbn in E. apply Z.eqb_eq in E. subst. eauto.
  - intros [p HI]. exists (r, p). split; [exact HI|apply Z.eqb_refl].
Qed.

Lemma table_has_false r t : table_has r t = false <-> forall p, ~ In (r, p) t.
Proof.
  split.
  - intros H p HI. assert (T : table_has r t = true) by (apply table_has_In; eauto). congruence.
  - intros H. destruct (table_has r t) eqn:E; [|reflexivity]. apply table_has_In in E. destruct E as [p HI].
    destruct (H p HI).
Qed.

Lemma insert_In r ps t k p : In (k, p) (ps_table_insert r ps t) <-> (k, p) = (r, ps) \/ In (k, p) t.
Proof.
  induction t as [|[r' ps'] rest IH]; cbn [ps_table_insert].
  - cbn. intuition congruence.
  - destruct (r <? r'); cbn [In]; [intuition congruence|]. rewrite IH. intuition congruence.
Qed.

Lemma insert_keys_above lo r ps t :
  keys_above lo t -> lo < r -> table_has r t = false -> keys_above lo (ps_table_insert r ps t).
Proof.
  revert lo. induction t as [|[r' ps'] rest IH]; intros lo H Hlo Hn; cbn [ps_table_insert].
  - cbn. auto.
  - destruct H as [H1 H2].
    assert (Hne : r' <> r).
    { intros ->. rewrite table_has_false in Hn. apply (Hn ps'). left; reflexivity. }
    assert (Hn' : table_has r rest = false).
    { rewrite table_has_false in *. intros p HI. apply (Hn p). right; exact HI. }
    destruct (Z.ltb_spec r r').
    + cbn. repeat split; auto.
    + cbn [keys_above]. split; [exact H1|]. apply IH; auto. lia.
Qed.

Lemma insert_wf r ps t : table_wf t -> 0 < r -> table_has r t = false -> table_wf (ps_table_insert r ps t).
Proof.
  intros [ps0 [rest [-> H]]] Hr Hn. cbn [ps_table_insert].
  replace (r <? 0) with false by lia. exists ps0, (ps_table_insert r ps rest). split; [reflexivity|].
  apply insert_keys_above; auto.
  rewrite table_has_false in *. intros p HI. apply (Hn p). right; exact HI.
Qed.

(* inserting above every key appends *)
Lemma insert_above_all r ps t : (forall k p, In (k, p) t -> k < r) -> ps_table_insert r ps t = t ++ [(r, ps)].
Proof.
  induction t as [|[r' ps'] rest IH]; intros H; cbn [ps_table_insert app]; [reflexivity|].
  assert (r' < r) by (apply (H r' ps'); left; reflexivity).
  replace (r <? r') with false by lia. f_equal. apply IH. intros k p HI. apply (H k p). right; exact HI.
Qed.

(** lookup *)
Lemma get_le_insert_above r k ps t cur :
  r < k -> ps_table_get_le r (ps_table_insert k ps t) cur = ps_table_get_le r t cur.
Proof.
  intros Hr. revert cur. induction t as [|[r' ps'] rest IH]; intros cur; cbn [ps_table_insert ps_table_get_le].
  - replace (k <=? r) with false by lia. reflexivity.
  - destruct (Z.ltb_spec k r'); cbn [ps_table_get_le].
    + replace (k <=? r) with false by lia. replace (r' <=? r) with false by lia. reflexivity.
    + destruct (r' <=? r); [apply IH|reflexivity].
Qed.

(* a new entry at round k does not change the answer for any earlier round, as long as the
   entry does not become the new head of the table *)
Lemma get_insert_above r k ps r0 ps0 rest :
  r0 <= k -> r < k ->
  ps_table_get r (ps_table_insert k ps ((r0, ps0) :: rest)) = ps_table_get r ((r0, ps0) :: rest).
Proof.
  intros H0 Hr. unfold ps_table_get at 2.
  pose proof (get_le_insert_above r k ps ((r0, ps0) :: rest) None Hr) as G.
  cbn [ps_table_insert] in *. replace (k <? r0) with false in * by lia.
  unfold ps_table_get. rewrite G. reflexivity.
Qed.

Lemma get_insert_wf r k ps t :
  table_wf t -> 0 <= k -> r < k -> ps_table_get r (ps_table_insert k ps t) = ps_table_get r t.
Proof. intros [ps0 [rest [-> H]]] Hk Hr. apply get_insert_above; lia. Qed.

(* the first branch of Get ("below all keys: the first entry") is dead when key 0 is present
   and the round is not negative *)
Lemma get_wf_no_below r t : table_wf t -> 0 <= r -> ps_table_get r t = ps_table_get_le r t None.
Proof. intros [ps0 [rest [-> H]]] Hr. unfold ps_table_get. replace (r <? 0) with false by lia. reflexivity. Qed.

Lemma filter_le_above lo r t : keys_above lo t -> r <= lo -> filter (fun e : Z * peerset => fst e <=? r) t = [].
Proof.
  revert lo. induction t as [|[k p] rest IH]; intros lo H Hlo; cbn [filter fst]; [reflexivity|].
  destruct H as [A B]. replace (k <=? r) with false by lia. apply (IH k); auto. lia.
Qed.

(* on a table with increasing keys, the scan stops exactly at the first key above r, so it
   returns the last entry among those <= r *)
Lemma get_le_sorted lo r t cur :
  keys_above lo t ->
  ps_table_get_le r t cur =
  match rev (filter (fun e => fst e <=? r) t) with
  | e :: _ => Some (snd e)
  | [] => cur
  end.
Proof.
  revert lo cur. induction t as [|[r' ps'] rest IH]; intros lo cur H; cbn [ps_table_get_le filter fst]; [reflexivity|].
  destruct H as [H1 H2]. destruct (Z.leb_spec r' r).
  - rewrite (IH r' _ H2). cbn [rev].
    destruct (rev (filter (fun e : Z * peerset => fst e <=? r) rest)) as [|e l]; reflexivity.
  - rewrite (filter_le_above r' r rest H2) by lia. reflexivity.
Qed.

(* C10_lookup: on a well-formed table and a non-negative round, Get = the entry with the
   greatest key <= r, and there always is one *)
Lemma get_is_lookup r t : table_wf t -> 0 <= r -> ps_table_get r t = ps_lookup r t.
Proof.
  intros W Hr. rewrite get_wf_no_below by auto. destruct W as [ps0 [rest [-> H]]].
  unfold ps_lookup. apply (get_le_sorted (-1)). cbn. split; [lia|exact H].
Qed.

Definition greatest_le (r : Z) (t : list (Z * peerset)) (k : Z) (ps : peerset) : Prop :=
  In (k, ps) t /\ k <= r /\ forall k' ps', In (k', ps') t -> k' <= r -> k' <= k.

Lemma last_filter_greatest lo r t e l :
  keys_above lo t -> rev (filter (fun e : Z * peerset => fst e <=? r) t) = e :: l -> greatest_le r t (fst e) (snd e).
Proof.
  revert lo e l. induction t as [|[k p] rest IH]; intros lo e l H E; cbn [filter fst] in E; [discriminate|].
  destruct H as [H1 H2]. destruct (Z.leb_spec k r).
  - cbn [rev] in E. destruct (rev (filter (fun e : Z * peerset => fst e <=? r) rest)) as [|e' l'] eqn:R.
    + cbn in E. inversion E; subst. cbn [fst snd]. split; [left; reflexivity|]. split; [exact H|].
      intros k' ps' [X|HI] Hk'; [inversion X; lia|].
      (* nothing in rest is <= r *)
      assert (F : filter (fun e : Z * peerset => fst e <=? r) rest = []).
      { apply (f_equal (@rev _)) in R. rewrite rev_involutive in R. exact R. }
      assert (HF : In (k', ps') (filter (fun e : Z * peerset => fst e <=? r) rest)).
      { apply filter_In. split; [exact HI|cbn; lia]. }
      rewrite F in HF. destruct HF.
    + cbn [app] in E. inversion E; subst e'. destruct (IH k e l' H2 eq_refl) as [A [B C]].
      split; [right; exact A|]. split; [exact B|].
      intros k' ps' [X|HI] Hk'; [inversion X; subst|apply (C k' ps' HI Hk')].
      pose proof (keys_above_In _ _ _ _ H2 A). lia.
  - destruct (IH k e l H2 E) as [A [B C]]. split; [right; exact A|]. split; [exact B|].
    intros k' ps' [X|HI] Hk'; [inversion X; lia|apply (C k' ps' HI Hk')].
Qed.

Lemma get_greatest r t : table_wf t -> 0 <= r -> exists k ps, ps_table_get r t = Some ps /\ greatest_le r t k ps.
Proof.
  intros W Hr. rewrite get_is_lookup by auto. destruct W as [ps0 [rest [-> H]]]. unfold ps_lookup.
  destruct (rev (filter (fun e : Z * peerset => fst e <=? r) ((0, ps0) :: rest))) as [|e l] eqn:E.
  - exfalso. cbn [filter fst] in E. replace (0 <=? r) with true in E by lia. cbn [rev] in E.
    destruct (rev (filter (fun e : Z * peerset => fst e <=? r) rest)); discriminate.
  - exists (fst e), (snd e). split; [reflexivity|].
    apply (last_filter_greatest (-1) r _ e l); [cbn; split; [lia|exact H]|exact E].
Qed.

(* a non-empty table always answers *)
Lemma get_nonempty r t : t <> [] -> exists ps, ps_table_get r t = Some ps.
Proof.
  destruct t as [|[r0 ps0] rest]; [congruence|]. intros _. unfold ps_table_get.
  destruct (r <? r0) eqn:E; [eauto|]. cbn [ps_table_get_le]. replace (r0 <=? r) with true by lia.
  generalize ps0. induction rest as [|[k p] rest IH]; intros q; cbn [ps_table_get_le]; [eauto|].
  destruct (k <=? r); [apply IH|eauto].
Qed.

Lemma get_In r t ps : ps_table_get r t = Some ps -> exists k, In (k, ps) t.
Proof.
  destruct t as [|[r0 ps0] rest]; [discriminate|]. unfold ps_table_get.
  destruct (r <? r0); [intros H; inversion H; subst; exists r0; left; reflexivity|].
  assert (G : forall t cur, ps_table_get_le r t cur = Some ps -> cur = Some ps \/ exists k, In (k, ps) t).
  { induction t as [|[k p] t IH]; intros cur H; cbn [ps_table_get_le] in H; [left; exact H|].
    destruct (k <=? r); [|left; exact H]. destruct (IH _ H) as [X|[k' X]].
    - inversion X; subst. right. exists k. left; reflexivity.
    - right. exists k'. right; exact X. }
  intros H. destruct (G _ _ H) as [X|X]; [discriminate|exact X].
Qed.

(** * Part 2: footprints of commit / get_frame / process_sig, and lifting of invariants *)

(* the components the C09 / C10 invariants read (bview without the frame cache and the
   last-consensus marker); only commit and process_sig write them *)
Definition pview (st : hg) :=
  (blocks st, last_block st, delivered st, peersets st, validators st, anchor st, self st, oracle st, self_sigs st).

Lemma bview_pview st st' : bview st' = bview st -> pview st' = pview st.
Proof. unfold bview, pview. intros H. inversion H. reflexivity. Qed.
Lemma bview_frames st st' : bview st' = bview st -> frames st' = frames st.
Proof. unfold bview. intros H. inversion H. reflexivity. Qed.

(* everything but the table and core.validators *)
Definition other9 (st : hg) :=
  (blocks st, last_block st, delivered st, anchor st, self st, oracle st, self_sigs st, sigpool st, frames st).

Lemma set_peerset_spec st r ps :
  (table_has r (peersets st) = true /\ set_peerset st r ps = None) \/
  (table_has r (peersets st) = false /\
   exists st', set_peerset st r ps = Some st' /\ other9 st' = other9 st /\
               peersets st' = ps_table_insert r ps (peersets st) /\ validators st' = validators st).
Proof.
  unfold set_peerset, table_has. destruct (existsb _ _); [left; auto|right]. split; [reflexivity|].
  eexists. split; [reflexivity|].
  match goal with |- context [fold_left ?f ps ?s0] =>
    assert (G : forall l s, other9 (fold_left f l s) = other9 s /\ peersets (fold_left f l s) = peersets s /\
                            validators (fold_left f l s) = validators s) end.
  { induction l as [|p l IH]; intros s; cbn [fold_left]; [auto|].
    match goal with |- context [fold_left _ l ?x] => destruct (IH x) as [A [B C]] end.
    rewrite A, B, C. cbv zeta. destruct (zmem _ _); destruct s; auto. }
  match goal with |- context [fold_left ?f ps ?s0] => destruct (G ps s0) as [A [B C]] end.
  rewrite A, B, C. destruct st; auto.
Qed.

Lemma process_receipts_spec st rr itxs :
  other9 (process_receipts st rr itxs) = other9 st /\
  (peersets (process_receipts st rr itxs), validators (process_receipts st rr itxs)) =
  replay_step (peersets st, validators st) rr itxs.
Proof.
  unfold process_receipts, replay_step, apply_receipts, apply_receipt. cbn [fst snd].
  destruct (fold_left _ itxs (validators st, false)) as [vals changed]. cbn [fst snd].
  destruct changed; [|auto].
  destruct (set_peerset_spec st (rr + 6) vals) as [[T E]|[T [st' [E [O [Pt V]]]]]]; rewrite T, E; [auto|].
  split; [rewrite <- O; destruct st'; reflexivity|].
  rewrite <- Pt. destruct st'; reflexivity.
Qed.

Definition new_anchor (st : hg) (b : block) : option Z :=
  match get_peerset st (b_rr b) with
  | None => anchor st
  | Some ps =>
    if (trust_count ps <? Z.of_nat (length (b_sigs b))) &&
       (match anchor st with None => true | Some a => a <? b_index b end)
    then Some (b_index b) else anchor st
  end.

Lemma set_anchor_block_eq st b : set_anchor_block st b = st <| anchor := new_anchor st b |>.
Proof.
  unfold set_anchor_block, new_anchor. destruct (get_peerset st (b_rr b)); [|destruct st; reflexivity].
  destruct (_ && _); destruct st; reflexivity.
Qed.

(* the part of commit after signBlock: SetAnchorBlock, receipts, callback bookkeeping *)
Definition commit_tail (st : hg) (bf : block) : hg :=
  deliver (process_receipts (set_anchor_block st bf) (b_rr bf) (b_itxs bf)) bf.

Lemma commit_tail_spec st bf :
  let s' := commit_tail st bf in
  blocks s' = blocks st /\ last_block s' = last_block st /\ delivered s' = delivered st ++ [bf] /\
  (peersets s', validators s') = replay_block (peersets st, validators st) bf /\
  anchor s' = new_anchor st bf /\ self s' = self st /\ oracle s' = oracle st /\
  self_sigs s' = self_sigs st /\ sigpool s' = sigpool st /\ frames s' = frames st.
Proof.
  cbv zeta. unfold commit_tail. rewrite set_anchor_block_eq.
  set (st3 := st <| anchor := new_anchor st bf |>).
  destruct (process_receipts_spec st3 (b_rr bf) (b_itxs bf)) as [O T].
  set (st4 := process_receipts st3 (b_rr bf) (b_itxs bf)) in *.
  assert (O3 : other9 st3 = (blocks st, last_block st, delivered st, new_anchor st bf, self st, oracle st,
                             self_sigs st, sigpool st, frames st)) by (subst st3; destruct st; reflexivity).
  assert (E10 : peersets st3 = peersets st) by (subst st3; destruct st; reflexivity).
  assert (E11 : validators st3 = validators st) by (subst st3; destruct st; reflexivity).
  rewrite O3 in O. unfold other9 in O.
  assert (E1 : blocks st4 = blocks st) by congruence. assert (E2 : last_block st4 = last_block st) by congruence.
  assert (E3 : delivered st4 = delivered st) by congruence. assert (E4 : anchor st4 = new_anchor st bf) by congruence.
  assert (E5 : self st4 = self st) by congruence. assert (E6 : oracle st4 = oracle st) by congruence.
  assert (E7 : self_sigs st4 = self_sigs st) by congruence. assert (E8 : sigpool st4 = sigpool st) by congruence.
  assert (E9 : frames st4 = frames st) by congruence.
  unfold replay_block. rewrite E10, E11 in T.
  change (blocks (deliver st4 bf)) with (blocks st4). change (last_block (deliver st4 bf)) with (last_block st4).
  change (delivered (deliver st4 bf)) with (delivered st4 ++ [bf]).
  change (peersets (deliver st4 bf)) with (peersets st4). change (validators (deliver st4 bf)) with (validators st4).
  change (anchor (deliver st4 bf)) with (anchor st4). change (self (deliver st4 bf)) with (self st4).
  change (oracle (deliver st4 bf)) with (oracle st4). change (self_sigs (deliver st4 bf)) with (self_sigs st4).
  change (sigpool (deliver st4 bf)) with (sigpool st4). change (frames (deliver st4 bf)) with (frames st4).
  rewrite E3. repeat split; auto.
Qed.

(* the committed copy of a block: state hash (body id) and receipts filled in *)
Definition committed_copy (b : block) (bid : Z) : block :=
  b <| b_committed := true |> <| b_receipts := map (fun t => (itx_id t, itx_accept t)) (b_itxs b) |> <| b_bodyid := bid |>.

(* what commit does, for a node with an application (self <> -1) and a non-empty table *)
Definition commit_post (s : hg) (b : block) (s' : hg) (bps : peerset) (bf : block) : Prop :=
  let bid := hd (-1) (oracle s) in
  let signed := mem_key (self s) (keys bps) in
  get_peerset s (b_rr b) = Some bps /\
  bf = (committed_copy b bid) <| b_sigs := if signed then [(self s, bid)] else [] |> /\
  (forall i, zget i (blocks s') = if i =? b_index b then Some bf else zget i (blocks s)) /\
  last_block s' = Z.max (b_index b) (last_block s) /\
  delivered s' = delivered s ++ [bf] /\
  (peersets s', validators s') = replay_block (peersets s, validators s) bf /\
  anchor s' = (if (trust_count bps <? Z.of_nat (length (b_sigs bf))) &&
                  (match anchor s with None => true | Some a => a <? b_index b end)
               then Some (b_index b) else anchor s) /\
  self_sigs s' = (if signed then sigpool_add (self_sigs s) (mkBsig (self s) (b_index b) bid) else self_sigs s) /\
  self s' = self s /\ sigpool s' = sigpool s /\ frames s' = frames s /\ oracle s' = tl (oracle s).

Lemma commit_spec s b :
  b_sigs b = [] -> 0 <= b_index b -> self s <> -1 -> peersets s <> [] ->
  exists bps bf, commit_post s b (commit (store_set_block s b) b) bps bf.
Proof.
  intros Hs Hk Hself Hne. unfold commit.
  replace (self (store_set_block s b) =? -1) with false by (destruct s; cbn in *; lia).
  cbv zeta.
  set (st := store_set_block s b). set (bid := hd (-1) (oracle st)).
  set (st0 := st <| oracle := tl (oracle st) |>).
  set (b1 := b <| b_committed := true |> <| b_receipts := _ |> <| b_bodyid := bid |>).
  set (st1 := store_set_block st0 b1).
  assert (Ebid : bid = hd (-1) (oracle s)) by (subst bid st; destruct s; reflexivity).
  assert (Eb1 : b1 = committed_copy b (hd (-1) (oracle s))) by (subst b1; rewrite Ebid; reflexivity).
  assert (Hb1i : b_index b1 = b_index b) by (subst b1; destruct b; reflexivity).
  assert (Hb1r : b_rr b1 = b_rr b) by (subst b1; destruct b; reflexivity).
  assert (Hb1s : b_sigs b1 = []) by (subst b1; destruct b; cbn in *; exact Hs).
  assert (Hb1id : b_bodyid b1 = bid) by (subst b1; destruct b; reflexivity).
  assert (G1 : forall i, zget i (blocks st1) = if i =? b_index b then Some b1 else zget i (blocks s)).
  { intros i. subst st1. rewrite zget_blocks_store by lia. rewrite Hb1i.
    destruct (Z.eqb_spec i (b_index b)); [reflexivity|].
    change (blocks st0) with (blocks st). subst st. rewrite zget_blocks_store by lia.
    destruct (Z.eqb_spec i (b_index b)); [contradiction|reflexivity]. }
  assert (L1 : last_block st1 = Z.max (b_index b) (last_block s)).
  { subst st1. rewrite last_block_store, Hb1i. change (last_block st0) with (last_block st).
    subst st. rewrite last_block_store. lia. }
  assert (R1 : delivered st1 = delivered s /\ peersets st1 = peersets s /\ validators st1 = validators s /\
               anchor st1 = anchor s /\ self st1 = self s /\ oracle st1 = tl (oracle s) /\
               self_sigs st1 = self_sigs s /\ sigpool st1 = sigpool s /\ frames st1 = frames s)
    by (subst st1 st0 st; destruct s; repeat split; reflexivity).
  destruct R1 as (D1 & P1 & V1 & A1 & S1 & O1 & SS1 & SP1 & F1).
  destruct (get_nonempty (b_rr b) (peersets s) Hne) as [bps Hbps].
  assert (Hg1 : get_peerset st1 (b_rr b1) = Some bps) by (unfold get_peerset; rewrite P1, Hb1r; exact Hbps).
  rewrite Hg1. unfold sign_block. rewrite S1.
  exists bps. destruct (mem_key (self s) (keys bps)) eqn:Hm; cbn [fst snd].
  - set (b2 := b1 <| b_sigs := aset (self s) (b_bodyid b1) (b_sigs b1) |>).
    set (st2 := (store_set_block st1 b2) <| self_sigs := _ |>).
    assert (Eb2 : b2 = (committed_copy b (hd (-1) (oracle s))) <| b_sigs := [(self s, hd (-1) (oracle s))] |>).
    { subst b2. rewrite Hb1s, Hb1id, Ebid, Eb1. reflexivity. }
    assert (Hb2i : b_index b2 = b_index b) by (subst b2; destruct b1; cbn in *; exact Hb1i).
    assert (Hb2r : b_rr b2 = b_rr b) by (subst b2; destruct b1; cbn in *; exact Hb1r).
    assert (Hb2s : b_sigs b2 = [(self s, hd (-1) (oracle s))]) by (rewrite Eb2; destruct b; reflexivity).
    assert (G2 : forall i, zget i (blocks st2) = if i =? b_index b then Some b2 else zget i (blocks s)).
    { intros i. change (blocks st2) with (blocks (store_set_block st1 b2)).
      rewrite zget_blocks_store by lia. rewrite Hb2i. destruct (Z.eqb_spec i (b_index b)); [reflexivity|].
      rewrite G1. destruct (Z.eqb_spec i (b_index b)); [contradiction|reflexivity]. }
    assert (L2 : last_block st2 = Z.max (b_index b) (last_block s)).
    { change (last_block st2) with (last_block (store_set_block st1 b2)). rewrite last_block_store, Hb2i, L1. lia. }
    assert (R2 : delivered st2 = delivered st1 /\ peersets st2 = peersets st1 /\ validators st2 = validators st1 /\
                 anchor st2 = anchor st1 /\ self st2 = self st1 /\ oracle st2 = oracle st1 /\
                 sigpool st2 = sigpool st1 /\ frames st2 = frames st1)
      by (subst st2; destruct st1; repeat split; reflexivity).
    destruct R2 as (D2 & P2 & V2 & A2 & S2 & O2 & SP2 & F2).
    assert (SS2 : self_sigs st2 = sigpool_add (self_sigs s) (mkBsig (self s) (b_index b) (hd (-1) (oracle s)))).
    { change (self_sigs st2) with (sigpool_add (self_sigs st1) (mkBsig (self s) (b_index b1) (b_bodyid b1))).
      rewrite SS1, Hb1i, Hb1id, Ebid. reflexivity. }
    change (deliver (process_receipts (set_anchor_block st2 b2) (b_rr b2) (b_itxs b2)) b2) with (commit_tail st2 b2).
    destruct (commit_tail_spec st2 b2) as [T1 [T2 [T3 [T4 [T5 [T6 [T7 [T8 [T9 T10]]]]]]]]].
    exists b2. unfold commit_post. cbv zeta. rewrite Hm.
    split; [exact Hbps|]. split; [exact Eb2|].
    split; [intros i; rewrite T1; apply G2|]. split; [rewrite T2; exact L2|].
    split; [rewrite T3, D2, D1; reflexivity|]. split; [rewrite T4, P2, V2, P1, V1; reflexivity|].
    split; [rewrite T5; unfold new_anchor, get_peerset; rewrite P2, P1, Hb2r; unfold get_peerset in Hbps; rewrite Hbps, A2, A1, Hb2i; reflexivity|].
    split; [rewrite T8; exact SS2|]. split; [rewrite T6, S2; exact S1|].
    split; [rewrite T9, SP2; exact SP1|]. split; [rewrite T10, F2; exact F1|]. rewrite T7, O2. exact O1.
  - assert (Eb2 : b1 = (committed_copy b (hd (-1) (oracle s))) <| b_sigs := [] |>).
    { rewrite Eb1. destruct b; cbn in *. subst. reflexivity. }
    change (deliver (process_receipts (set_anchor_block st1 b1) (b_rr b1) (b_itxs b1)) b1) with (commit_tail st1 b1).
    destruct (commit_tail_spec st1 b1) as [T1 [T2 [T3 [T4 [T5 [T6 [T7 [T8 [T9 T10]]]]]]]]].
    exists b1. unfold commit_post. cbv zeta. rewrite Hm.
    split; [exact Hbps|]. split; [exact Eb2|].
    split; [intros i; rewrite T1; apply G1|]. split; [rewrite T2; exact L1|].
    split; [rewrite T3, D1; reflexivity|]. split; [rewrite T4, P1, V1; reflexivity|].
    split; [rewrite T5; unfold new_anchor, get_peerset; rewrite P1, Hb1r; unfold get_peerset in Hbps; rewrite Hbps, A1, Hb1i; reflexivity|].
    split; [rewrite T8; exact SS1|]. split; [rewrite T6; exact S1|].
    split; [rewrite T9; exact SP1|]. split; [rewrite T10; exact F1|]. rewrite T7. exact O1.
Qed.

(** frames: every cached frame sits under its own round and carries the peer set that the
    table snapshot it records gives for that round *)
Definition frame_ok (f : frame) : Prop :=
  0 <= f_round f /\ ps_table_get (f_round f) (f_peersets f) = Some (f_peers f).
Definition finv (st : hg) : Prop :=
  forall rr f, zget rr (frames st) = Some f -> f_round f = rr /\ frame_ok f.

Definition qview (st : hg) := (pview st, sigpool st).

Lemma qview_split st st' : qview st' = qview st -> pview st' = pview st /\ sigpool st' = sigpool st.
Proof. unfold qview. intros H. split; congruence. Qed.

Lemma get_frame_qview st rr : qview (snd (get_frame st rr)) = qview st.
Proof.
  unfold get_frame.
  destruct (zget rr (frames st)); [reflexivity|].
  destruct (get_round st rr); [|reflexivity].
  destruct (get_peerset st rr); [|reflexivity].
  match goal with |- context [fold_left ?f ?l ?a] => destruct (fold_left f l a) end; [|reflexivity].
  match goal with |- context [fold_left ?f (repertoire st) ?a] => destruct (fold_left f (repertoire st) a) end;
    [|reflexivity].
  cbn [snd]. destruct st; reflexivity.
Qed.

(* C10_peers_hash, at the source: a frame that GetFrame computes (no cached one) is for the
   requested round, records the current table and carries get_peerset of that round *)
Lemma get_frame_fresh st rr f st' :
  zget rr (frames st) = None -> get_frame st rr = (Some f, st') ->
  f_round f = rr /\ f_peersets f = peersets st /\ get_peerset st rr = Some (f_peers f) /\ 0 <= rr /\
  frames st' = zset rr f (frames st).
Proof.
  unfold get_frame. intros Hc. rewrite Hc.
  destruct (get_round st rr) as [ri|] eqn:Hr; [|discriminate].
  destruct (get_peerset st rr) as [ps|] eqn:Hp; [|discriminate].
  match goal with |- context [fold_left ?f ?l ?a] => destruct (fold_left f l a) end; [|discriminate].
  match goal with |- context [fold_left ?f (repertoire st) ?a] => destruct (fold_left f (repertoire st) a) end;
    [|discriminate].
  intros H. inversion H; subst; clear H. cbn [f_round f_peersets f_peers].
  unfold get_round in Hr. apply zget_some_nonneg in Hr.
  repeat split; auto; try (destruct st; reflexivity).
Qed.

Lemma get_frame_cached st rr f0 : zget rr (frames st) = Some f0 -> get_frame st rr = (Some f0, st).
Proof. unfold get_frame. intros ->. reflexivity. Qed.

Lemma get_frame_finv st rr f st' :
  finv st -> get_frame st rr = (Some f, st') -> f_round f = rr /\ frame_ok f /\ finv st'.
Proof.
  intros FI H. destruct (zget rr (frames st)) as [f0|] eqn:Hc.
  - rewrite (get_frame_cached _ _ _ Hc) in H. inversion H; subst. destruct (FI _ _ Hc). auto.
  - destruct (get_frame_fresh _ _ _ _ Hc H) as [A [B [C [D E]]]].
    assert (OK : frame_ok f).
    { split; [lia|]. rewrite A, B. exact C. }
    split; [exact A|]. split; [exact OK|].
    intros r' f'. rewrite E, zget_zset. destruct (Z.eqb_spec rr r') as [->|Hne]; cbn [andb].
    + replace (0 <=? r') with true by lia. intros X; inversion X; subst. auto.
    + apply FI.
Qed.

Lemma commit_frames st b : frames (commit st b) = frames st.
Proof.
  unfold commit. destruct (self st =? -1); [destruct st; reflexivity|]. cbv zeta.
  match goal with |- context [store_set_block ?s0 ?bb] => set (st1 := store_set_block s0 bb); set (b1 := bb) end.
  assert (F1 : frames st1 = frames st) by (subst st1; destruct st; reflexivity).
  destruct (get_peerset st1 (b_rr b1)) as [bps|]; [|rewrite <- F1; destruct st1; reflexivity].
  assert (F2 : frames (snd (sign_block st1 b1 bps)) = frames st1).
  { unfold sign_block. destruct (mem_key _ _); cbn [snd]; [destruct st1; reflexivity|reflexivity]. }
  destruct (sign_block st1 b1 bps) as [b2 st2]. cbn [fst snd] in *.
  change (deliver _ b2) with (commit_tail st2 b2).
  destruct (commit_tail_spec st2 b2) as [_ [_ [_ [_ [_ [_ [_ [_ [_ T10]]]]]]]]]. congruence.
Qed.

Lemma process_sig_frames st s : frames (process_sig st s) = frames st.
Proof.
  unfold process_sig.
  destruct (zget (bs_index s) (blocks st)) as [b|]; [|reflexivity].
  destruct (get_peerset st (b_rr b)); [|reflexivity].
  destruct (negb (mem_key _ _)); [reflexivity|].
  destruct (negb (_ =? _)); [reflexivity|]. cbv zeta.
  rewrite set_anchor_block_eq. destruct st; reflexivity.
Qed.

Lemma add_consensus_events_qview l : forall s, qview (fold_left add_consensus_event l s) = qview s /\
                                               frames (fold_left add_consensus_event l s) = frames s.
Proof.
  induction l as [|fe l IH]; intros s; cbn [fold_left]; [auto|].
  destruct (IH (add_consensus_event s fe)) as [A B]. rewrite A, B. destruct s; auto.
Qed.

Lemma bump_last_consensus_qview s r : qview (bump_last_consensus s r) = qview s /\
                                      frames (bump_last_consensus s r) = frames s.
Proof.
  unfold bump_last_consensus. destruct (last_consensus s) as [l|]; [destruct (l <? r)|];
    try (split; reflexivity); destruct s; split; reflexivity.
Qed.

Lemma fail_qview s : qview (fail s) = qview s /\ frames (fail s) = frames s.
Proof. destruct s; split; reflexivity. Qed.

Lemma finv_frames st st' : frames st' = frames st -> finv st -> finv st'.
Proof. unfold finv. intros ->. auto. Qed.

Inductive op_ok (Q : event -> Prop) : hop -> Prop :=
| ok_insert e : Q e -> op_ok Q (HInsert e)
| ok_sigpool : op_ok Q HSigPool.

(** Lifting: an invariant that reads only [pview] and the signature pool, and is preserved by
    commit of a fresh block, by process_sig and by the pool update of InsertEvent, holds along
    every operation sequence (together with binv and finv). *)
Section Lift.
  Variable Q : event -> Prop.      (* what is known about the events handed to InsertEvent *)
  Variable P : hg -> Prop.
  Variable R : bsig -> Prop.       (* what P guarantees about an entry of the pool *)
  Hypothesis P_ext : forall st st', pview st' = pview st -> sigpool st' = sigpool st -> P st -> P st'.
  Hypothesis P_insert : forall st st' e, Q e -> P st -> pview st' = pview st ->
    sigpool st' = fold_left sigpool_add (e_sigs e) (sigpool st) -> P st'.
  Hypothesis P_commit : forall s f, binv s -> finv s -> frame_ok f -> P s ->
    let b := block_of_frame (last_block s + 1) f s in P (commit (store_set_block s b) b).
  Hypothesis P_pool : forall st s, P st -> In s (sigpool st) -> R s.
  Hypothesis P_sig : forall st s, binv st -> finv st -> P st -> R s -> P (process_sig st s).

  Let P_q st st' : qview st' = qview st -> P st -> P st'.
  Proof. intros H. destruct (qview_split _ _ H). apply P_ext; auto. Qed.

  Lemma process_frame_lift s f :
    binv s -> finv s -> frame_ok f -> P s -> finv (process_frame s f) /\ P (process_frame s f).
  Proof.
    intros OK FI FO HP. unfold process_frame. destruct (f_events f) as [|fe rest]; [auto|].
    cbv zeta. set (s1 := fold_left add_consensus_event (fe :: rest) s).
    destruct (add_consensus_events_qview (fe :: rest) s) as [Q1 F1]. fold s1 in Q1, F1.
    assert (OK1 : binv s1).
    { eapply binv_bl; [|exact OK]. apply add_consensus_events_bl. }
    assert (FI1 : finv s1) by (eapply finv_frames; eauto).
    assert (HP1 : P s1) by (eapply P_q; eauto).
    set (b := block_of_frame (last_block s1 + 1) f s1).
    destruct (b_txs b), (b_itxs b); auto;
      (split; [eapply finv_frames; [|exact FI1]; rewrite commit_frames; destruct s1; reflexivity
              |apply P_commit; auto]).
  Qed.

  Lemma process_round_lift s processed stop pr :
    binv s -> finv s -> P s ->
    finv (fst (fst (process_round (s, processed, stop) pr))) /\ P (fst (fst (process_round (s, processed, stop) pr))).
  Proof.
    intros OK FI HP. unfold process_round.
    destruct (stop || failed s); [auto|].
    destruct (negb (snd pr)); [auto|].
    destruct (get_round s (fst pr)).
    2:{ cbn [fst]. destruct (fail_qview s) as [A B]. split; [eapply finv_frames; eauto|eapply P_q; eauto]. }
    pose proof (get_frame_qview s (fst pr)) as Fq. pose proof (get_frame_bl s (fst pr)) as Fb.
    destruct (get_frame s (fst pr)) as [[f|] s1] eqn:G; cbn [fst snd] in *.
    - destruct (get_frame_finv _ _ _ _ FI G) as [_ [FO FI1]].
      assert (OK1 : binv s1) by (eapply binv_bl; eauto).
      assert (HP1 : P s1) by (eapply P_q; eauto).
      destruct (process_frame_lift s1 f OK1 FI1 FO HP1) as [FI2 HP2].
      destruct (bump_last_consensus_qview (process_frame s1 f) (fst pr)) as [A B].
      split; [eapply finv_frames; eauto|eapply P_q; eauto].
    - assert (FI1 : finv s1).
      { unfold get_frame in G. destruct (zget (fst pr) (frames s)); [discriminate|].
        destruct (get_round s (fst pr)); [|inversion G; subst; exact FI].
        destruct (get_peerset s (fst pr)); [|inversion G; subst; exact FI].
        match type of G with context [fold_left ?f ?l ?a] => destruct (fold_left f l a) end; [|inversion G; subst; exact FI].
        match type of G with context [fold_left ?f (repertoire s) ?a] => destruct (fold_left f (repertoire s) a) end;
          [discriminate|inversion G; subst; exact FI]. }
      destruct (fail_qview s1) as [A B].
      split; [eapply finv_frames; eauto|]. eapply P_q; [exact A|]. eapply P_q; eauto.
  Qed.

  Lemma process_decided_rounds_lift st :
    binv st -> finv st -> P st -> finv (process_decided_rounds st) /\ P (process_decided_rounds st).
  Proof.
    intros OK FI HP. unfold process_decided_rounds.
    assert (G : forall l s p b, binv s -> finv s -> P s ->
                finv (fst (fst (fold_left process_round l (s, p, b)))) /\ P (fst (fst (fold_left process_round l (s, p, b))))).
    { induction l as [|pr rest IH]; intros s p b Hs Fs Ps; cbn [fold_left]; [auto|].
      pose proof (process_round_binv s p b pr Hs) as Hb.
      destruct (process_round_lift s p b pr Hs Fs Ps) as [Fs' Ps'].
      destruct (process_round (s, p, b) pr) as [[s' p'] b']. cbn [fst] in *. apply IH; auto. }
    specialize (G (pending st) st [] false OK FI HP).
    destruct (fold_left process_round (pending st) (st, [], false)) as [[s processed] stop]. cbn [fst] in G.
    destruct G as [A B]. split; [eapply finv_frames; [|exact A]; destruct s; reflexivity|].
    eapply P_q; [|exact B]. destruct s; reflexivity.
  Qed.

  (* a DAG pass: bview and the pool unchanged *)
  Let dag_keep st st' : bview st' = bview st -> spool st' = spool st -> binv st -> finv st -> P st ->
                        binv st' /\ finv st' /\ P st'.
  Proof.
    intros B S OK FI HP. split; [eapply binv_bview; eauto|].
    split; [eapply finv_frames; [apply bview_frames; exact B|exact FI]|].
    apply (P_ext st); auto. apply bview_pview; exact B.
  Qed.

  Lemma run_consensus_lift st : binv st -> finv st -> P st -> finv (run_consensus st) /\ P (run_consensus st).
  Proof.
    intros OK FI HP. unfold run_consensus.
    destruct (dag_keep st (divide_rounds st) (divide_rounds_bview st) (divide_rounds_spool st) OK FI HP) as [OK1 [FI1 HP1]].
    destruct (failed (divide_rounds st)); [auto|].
    destruct (dag_keep _ _ (decide_fame_bview (divide_rounds st)) (decide_fame_spool (divide_rounds st)) OK1 FI1 HP1)
      as [OK2 [FI2 HP2]].
    destruct (failed (decide_fame _)); [auto|].
    destruct (dag_keep _ _ (decide_round_received_bview (decide_fame (divide_rounds st)))
                (decide_round_received_spool (decide_fame (divide_rounds st))) OK2 FI2 HP2) as [OK3 [FI3 HP3]].
    destruct (failed (decide_round_received _)); [auto|].
    apply process_decided_rounds_lift; auto.
  Qed.

  Lemma step_lift st e : Q e -> binv st -> finv st -> P st -> finv (step st e) /\ P (step st e).
  Proof.
    intros Qe OK FI HP. unfold step, insert_and_run.
    pose proof (insert_event_bview st e) as B. pose proof (insert_event_spool st e) as S.
    destruct (insert_event st e) as [r s]. cbn [fst snd] in *.
    assert (OKs : binv s) by (eapply binv_bview; eauto).
    assert (FIs : finv s) by (eapply finv_frames; [apply bview_frames; exact B|exact FI]).
    assert (HPs : P s).
    { destruct S as [S|[_ S]]; [apply (P_ext st); auto; apply bview_pview; exact B|].
      apply (P_insert st s e); auto. apply bview_pview; exact B. }
    destruct r; cbn [snd]; auto. apply run_consensus_lift; auto.
  Qed.

  Lemma process_sigpool_lift st : binv st -> finv st -> P st -> finv (process_sigpool st) /\ P (process_sigpool st).
  Proof.
    intros OK FI HP. unfold process_sigpool.
    assert (HR : forall s, In s (sigpool st) -> R s) by (intros s; apply P_pool; exact HP).
    revert HR. generalize (sigpool st) as l. intros l. revert st OK FI HP.
    induction l as [|s l IH]; intros st OK FI HP HR; cbn [fold_left]; [auto|].
    apply IH.
    - apply process_sig_binv; exact OK.
    - eapply finv_frames; [apply process_sig_frames|exact FI].
    - apply P_sig; auto. apply HR. left; reflexivity.
    - intros s' Hs'. apply HR. right; exact Hs'.
  Qed.

  Lemma hstep_lift st o : op_ok Q o -> binv st -> finv st -> P st -> finv (hstep st o) /\ P (hstep st o).
  Proof.
    intros Ho OK FI HP. destruct Ho as [e Qe|]; cbn [hstep]; [apply step_lift|apply process_sigpool_lift]; auto.
  Qed.

  Lemma hrun_lift ops : forall st, Forall (op_ok Q) ops -> binv st -> finv st -> P st ->
                                   finv (hrun st ops) /\ P (hrun st ops).
  Proof.
    induction ops as [|o ops IH]; intros st Ho OK FI HP; cbn [hrun fold_left]; [auto|].
    inversion Ho; subst. destruct (hstep_lift st o H1 OK FI HP) as [FI' HP'].
    apply IH; auto. apply hstep_binv; exact OK.
  Qed.
End Lift.

Lemma op_ok_true ops : Forall (op_ok (fun _ => True)) ops.
Proof. apply Forall_forall. intros o _. destruct o; constructor; exact I. Qed.

(* the special case of an invariant that does not read the pool *)
Section LiftNoPool.
  Variable P : hg -> Prop.
  Hypothesis P_ext : forall st st', pview st' = pview st -> P st -> P st'.
  Hypothesis P_commit : forall s f, binv s -> finv s -> frame_ok f -> P s ->
    let b := block_of_frame (last_block s + 1) f s in P (commit (store_set_block s b) b).
  Hypothesis P_sig : forall st s, binv st -> finv st -> P st -> P (process_sig st s).

  Lemma hstep_lift0 st o : binv st -> finv st -> P st -> finv (hstep st o) /\ P (hstep st o).
  Proof.
    apply (hstep_lift (fun _ => True) P (fun _ => True)); auto.
    - intros s s' A _. apply P_ext; exact A.
    - intros s s' e _ Hs A _. eapply P_ext; eauto.
    - destruct o; constructor; exact I.
  Qed.

  Lemma hrun_lift0 ops st : binv st -> finv st -> P st -> finv (hrun st ops) /\ P (hrun st ops).
  Proof.
    apply (hrun_lift (fun _ => True) P (fun _ => True)); auto.
    - intros s s' A _. apply P_ext; exact A.
    - intros s s' e _ Hs A _. eapply P_ext; eauto.
    - apply op_ok_true.
  Qed.
End LiftNoPool.

(** * Part 3: C10 *)

Lemma process_sig_rest st s :
  delivered (process_sig st s) = delivered st /\ peersets (process_sig st s) = peersets st /\
  validators (process_sig st s) = validators st /\ self (process_sig st s) = self st /\
  oracle (process_sig st s) = oracle st /\ self_sigs (process_sig st s) = self_sigs st.
Proof.
  unfold process_sig.
  destruct (zget (bs_index s) (blocks st)) as [b|]; [|repeat split; reflexivity].
  destruct (get_peerset st (b_rr b)); [|repeat split; reflexivity].
  destruct (negb (mem_key _ _)); [repeat split; reflexivity|].
  destruct (negb (_ =? _)); [repeat split; reflexivity|]. cbv zeta.
  rewrite set_anchor_block_eq. destruct st; repeat split; reflexivity.
Qed.

Lemma init_hg_spec self_ genesis oracle_ :
  let st := init_hg self_ genesis oracle_ in
  blocks st = zempty /\ last_block st = -1 /\ delivered st = [] /\ peersets st = [(0, genesis)] /\
  validators st = genesis /\ anchor st = None /\ self st = self_ /\ oracle st = oracle_ /\
  self_sigs st = [] /\ sigpool st = [] /\ frames st = zempty.
Proof.
  cbv zeta. unfold init_hg.
  destruct (set_peerset_spec (empty_hg self_) 0 genesis) as [[T _]|[_ [st' [E [O [Pt V]]]]]]; [discriminate|].
  rewrite E. unfold other9 in O. cbn in O, Pt.
  assert (E1 : blocks st' = zempty) by congruence. assert (E2 : last_block st' = -1) by congruence.
  assert (E3 : delivered st' = []) by congruence. assert (E4 : anchor st' = None) by congruence.
  assert (E5 : self st' = self_) by congruence. assert (E7 : self_sigs st' = []) by congruence.
  assert (E8 : sigpool st' = []) by congruence. assert (E9 : frames st' = zempty) by congruence.
  destruct st'; cbn in *. repeat split; auto.
Qed.

Lemma finv_init self_ genesis oracle_ : finv (init_hg self_ genesis oracle_).
Proof.
  destruct (init_hg_spec self_ genesis oracle_) as (_ & _ & _ & _ & _ & _ & _ & _ & _ & _ & F).
  intros rr f. rewrite F, zget_empty. discriminate.
Qed.

(** replay *)
Lemma replay_app tbl vals ds ds' :
  replay tbl vals (ds ++ ds') = replay (fst (replay tbl vals ds)) (snd (replay tbl vals ds)) ds'.
Proof. unfold replay. rewrite fold_left_app. destruct (fold_left replay_block ds (tbl, vals)); reflexivity. Qed.

Lemma replay_snoc tbl vals ds d : replay tbl vals (ds ++ [d]) = replay_block (replay tbl vals ds) d.
Proof. unfold replay. rewrite fold_left_app. reflexivity. Qed.

Lemma replay_step_wf acc rr itxs : table_wf (fst acc) -> 0 <= rr -> table_wf (fst (replay_step acc rr itxs)).
Proof.
  intros W Hr. unfold replay_step. destruct (snd (apply_receipts (snd acc) itxs)); [|exact W].
  destruct (table_has (rr + 6) (fst acc)) eqn:T; [exact W|]. cbn [fst]. apply insert_wf; auto. lia.
Qed.

(* C10_no_retroactive on the specification: a block of round-received rr changes the answer
   for no round below rr + 6 *)
Lemma replay_step_no_retro acc rr itxs r :
  table_wf (fst acc) -> 0 <= rr -> r < rr + 6 ->
  ps_table_get r (fst (replay_step acc rr itxs)) = ps_table_get r (fst acc).
Proof.
  intros W Hr Hlt. unfold replay_step. destruct (snd (apply_receipts (snd acc) itxs)); [|reflexivity].
  destruct (table_has (rr + 6) (fst acc)); [reflexivity|]. cbn [fst]. apply get_insert_wf; auto. lia.
Qed.

Lemma replay_wf tbl vals ds :
  table_wf tbl -> Forall (fun d => 0 <= b_rr d) ds -> table_wf (fst (replay tbl vals ds)).
Proof.
  revert tbl vals. induction ds as [|d ds IH]; intros tbl vals W F; [exact W|].
  inversion F; subst. unfold replay. cbn [fold_left].
  pose proof (replay_step_wf (tbl, vals) (b_rr d) (b_itxs d) W H1) as W'.
  unfold replay_block. destruct (replay_step (tbl, vals) (b_rr d) (b_itxs d)) as [t' v']. apply IH; auto.
Qed.

Lemma replay_no_retro tbl vals ds r :
  table_wf tbl -> Forall (fun d => 0 <= b_rr d /\ r < b_rr d + 6) ds ->
  ps_table_get r (fst (replay tbl vals ds)) = ps_table_get r tbl.
Proof.
  revert tbl vals. induction ds as [|d ds IH]; intros tbl vals W F; [reflexivity|].
  inversion F as [|x l [H0 H1] H2]; subst. unfold replay. cbn [fold_left].
  pose proof (replay_step_wf (tbl, vals) (b_rr d) (b_itxs d) W H0) as W'.
  pose proof (replay_step_no_retro (tbl, vals) (b_rr d) (b_itxs d) r W H0 H1) as G.
  unfold replay_block. destruct (replay_step (tbl, vals) (b_rr d) (b_itxs d)) as [t' v']. cbn [fst] in *.
  rewrite <- G. apply IH; auto.
Qed.

(* what the delivered copy of a block inherits from the frame it was built from *)
Definition block_frame_ok (d : block) : Prop :=
  frame_ok (b_frame d) /\ b_peers d = f_peers (b_frame d) /\ b_rr d = f_round (b_frame d).

Record c10inv (genesis : peerset) (st : hg) : Prop := {
  c_self : self st <> -1;
  c_wf : table_wf (peersets st);
  c_replay : (peersets st, validators st) = replay_genesis genesis (delivered st);
  c_frames : forall d, In d (delivered st) -> block_frame_ok d
}.

Lemma c10inv_ext g st st' : pview st' = pview st -> c10inv g st -> c10inv g st'.
Proof.
  unfold pview. intros E [H1 H2 H3 H4].
  assert (E1 : self st' = self st) by congruence. assert (E2 : peersets st' = peersets st) by congruence.
  assert (E3 : validators st' = validators st) by congruence. assert (E4 : delivered st' = delivered st) by congruence.
  constructor; rewrite ?E1, ?E2, ?E3, ?E4; auto.
Qed.

Lemma table_wf_nonempty t : table_wf t -> t <> [].
Proof. intros [ps0 [rest [-> _]]]. discriminate. Qed.

Lemma committed_fields b bid sg :
  let bf := (committed_copy b bid) <| b_sigs := sg |> in
  b_index bf = b_index b /\ b_rr bf = b_rr b /\ b_itxs bf = b_itxs b /\ b_frame bf = b_frame b /\
  b_peers bf = b_peers b /\ b_bodyid bf = bid /\ b_sigs bf = sg.
Proof. destruct b; cbn. repeat split; reflexivity. Qed.

(* everything the invariants need to know about the block handed to commit *)
Lemma fresh_block_facts s f :
  binv s -> frame_ok f ->
  let b := block_of_frame (last_block s + 1) f s in
  b_sigs b = [] /\ 0 <= b_index b /\ b_index b = last_block s + 1 /\ b_rr b = f_round f /\ 0 <= b_rr b /\
  b_frame b = f /\ b_peers b = f_peers f.
Proof.
  intros OK [F0 F1]. cbv zeta. pose proof (b_lb s OK). unfold block_of_frame. cbn. repeat split; auto; lia.
Qed.

Lemma c10inv_commit g s f :
  binv s -> finv s -> frame_ok f -> c10inv g s ->
  let b := block_of_frame (last_block s + 1) f s in c10inv g (commit (store_set_block s b) b).
Proof.
  intros OK FI FO [H1 H2 H3 H4]. cbv zeta.
  destruct (fresh_block_facts s f OK FO) as (Bs & Bk & Bi & Br & Br0 & Bf & Bp).
  set (b := block_of_frame (last_block s + 1) f s) in *.
  destruct (commit_spec s b Bs Bk H1 (table_wf_nonempty _ H2)) as [bps [bf CP]].
  unfold commit_post in CP. cbv zeta in CP.
  destruct CP as (C1 & C2 & C3 & C4 & C5 & C6 & C7 & C8 & C9 & C10 & C11 & C12).
  destruct (committed_fields b (hd (-1) (oracle s))
              (if mem_key (self s) (keys bps) then [(self s, hd (-1) (oracle s))] else []))
    as (G1 & G2 & G3 & G4 & G5 & G6 & G7).
  rewrite <- C2 in *.
  constructor.
  - rewrite C9. exact H1.
  - apply (f_equal fst) in C6. cbn [fst] in C6. rewrite C6. unfold replay_block.
    apply replay_step_wf; [exact H2|]. rewrite G2. exact Br0.
  - rewrite C6, C5. unfold replay_genesis. rewrite replay_snoc. fold (replay_genesis g (delivered s)).
    rewrite <- H3. reflexivity.
  - intros d. rewrite C5, in_app_iff. intros [HI|[<-|[]]]; [apply H4; exact HI|].
    unfold block_frame_ok. rewrite G4, G5, G2, Bf. auto.
Qed.

Lemma c10inv_sig g st s : c10inv g st -> c10inv g (process_sig st s).
Proof.
  intros [H1 H2 H3 H4]. destruct (process_sig_rest st s) as (E1 & E2 & E3 & E4 & _ & _).
  constructor; rewrite ?E1, ?E2, ?E3, ?E4; auto.
Qed.

Lemma c10inv_init self_ genesis oracle_ : self_ <> -1 -> c10inv genesis (init_hg self_ genesis oracle_).
Proof.
  intros Hs. destruct (init_hg_spec self_ genesis oracle_) as (_ & _ & D & Pt & V & _ & S & _).
  constructor; rewrite ?D, ?Pt, ?V, ?S; auto.
  - exists genesis, []. split; [reflexivity|exact I].
  - intros d [].
Qed.

Theorem hrun_c10inv self_ genesis oracle_ ops :
  self_ <> -1 ->
  finv (hrun (init_hg self_ genesis oracle_) ops) /\ c10inv genesis (hrun (init_hg self_ genesis oracle_) ops).
Proof.
  intros Hs. apply (hrun_lift0 (c10inv genesis)).
  - apply c10inv_ext.
  - apply c10inv_commit.
  - intros st s _ _. apply c10inv_sig.
  - apply binv_init.
  - apply finv_init.
  - apply c10inv_init; exact Hs.
Qed.

(* C10_only_commit, function by function: nothing but commit writes the table or core.validators *)
Definition tbl (st : hg) := (peersets st, validators st).

Lemma tbl_bview st st' : bview st' = bview st -> tbl st' = tbl st.
Proof. unfold bview, tbl. intros H. inversion H. reflexivity. Qed.

Lemma only_commit_insert st e : tbl (snd (insert_event st e)) = tbl st.
Proof. apply tbl_bview, insert_event_bview. Qed.
Lemma only_commit_divide st : tbl (divide_rounds st) = tbl st.
Proof. apply tbl_bview, divide_rounds_bview. Qed.
Lemma only_commit_fame st : tbl (decide_fame st) = tbl st.
Proof. apply tbl_bview, decide_fame_bview. Qed.
Lemma only_commit_rr st : tbl (decide_round_received st) = tbl st.
Proof. apply tbl_bview, decide_round_received_bview. Qed.
Lemma only_commit_get_frame st rr : tbl (snd (get_frame st rr)) = tbl st.
Proof. pose proof (get_frame_qview st rr) as H. unfold qview, pview, tbl in *. congruence. Qed.
Lemma only_commit_sigpool st : tbl (process_sigpool st) = tbl st.
Proof.
  unfold process_sigpool. generalize (sigpool st) as l. intros l. revert st.
  induction l as [|s l IH]; intros st; cbn [fold_left]; [reflexivity|]. rewrite IH.
  destruct (process_sig_rest st s) as (_ & E2 & E3 & _). unfold tbl. congruence.
Qed.

(* the blocks of a reachable state all have non-negative round-received *)
Lemma c10inv_rr_nonneg g st : c10inv g st -> Forall (fun d => 0 <= b_rr d) (delivered st).
Proof.
  intros H. apply Forall_forall. intros d HI. destruct (c_frames g st H d HI) as [[F0 _] [_ E]]. lia.
Qed.

(** the table as "genesis modified by exactly the blocks with rr + 6 <= r", when round-received
    increases along the delivered blocks *)
Definition rr_increasing_list (ds : list block) : Prop := StronglySorted Z.lt (map b_rr ds).

Lemma replay_keys tbl0 vals ds k p :
  In (k, p) (fst (replay tbl0 vals ds)) -> (exists p0, In (k, p0) tbl0) \/ exists d, In d ds /\ k = b_rr d + 6.
Proof.
  revert tbl0 vals. induction ds as [|d ds IH]; intros tbl0 vals H; [left; eauto|].
  unfold replay in H. cbn [fold_left] in H.
  destruct (replay_block (tbl0, vals) d) as [t' v'] eqn:E.
  destruct (IH t' v' H) as [[p0 H0]|[d' [A B]]]; [|right; exists d'; split; [right; exact A|exact B]].
  unfold replay_block, replay_step in E. cbn [fst snd] in E.
  destruct (snd (apply_receipts vals (b_itxs d))); [|inversion E; subst; left; eauto].
  destruct (table_has (b_rr d + 6) tbl0); [inversion E; subst; left; eauto|].
  inversion E; subst. apply insert_In in H0. destruct H0 as [X|X].
  - inversion X; subst. right. exists d. split; [left; reflexivity|reflexivity].
  - left; eauto.
Qed.

Lemma sorted_snoc_lt (l : list Z) x y : StronglySorted Z.lt (l ++ [x]) -> In y l -> y < x.
Proof.
  induction l as [|a l IH]; intros S HI; [destruct HI|]. cbn [app] in S. inversion S; subst.
  destruct HI as [->|HI]; [|apply IH; auto].
  rewrite Forall_forall in H2. apply H2. apply in_or_app. right. left. reflexivity.
Qed.

Lemma sorted_app_l (l l' : list Z) : StronglySorted Z.lt (l ++ l') -> StronglySorted Z.lt l.
Proof.
  induction l as [|a l IH]; intros S; [constructor|]. cbn [app] in S. inversion S; subst.
  constructor; [apply IH; exact H1|]. rewrite Forall_forall in *. intros y Hy. apply H2. apply in_or_app. left. exact Hy.
Qed.

Lemma ps_lookup_snoc r t k ps :
  ps_lookup r (t ++ [(k, ps)]) = if k <=? r then Some ps else ps_lookup r t.
Proof.
  unfold ps_lookup. rewrite filter_app. cbn [filter fst]. destruct (k <=? r).
  - rewrite rev_app_distr. reflexivity.
  - rewrite app_nil_r. reflexivity.
Qed.

Theorem lookup_is_prefix_replay genesis ds r :
  rr_increasing_list ds -> Forall (fun d => 0 <= b_rr d) ds -> 0 <= r ->
  ps_table_get r (fst (replay_genesis genesis ds)) = Some (validators_at genesis ds r).
Proof.
  intros S F Hr. unfold validators_at, effective_blocks.
  rewrite get_is_lookup; [|apply replay_wf; [exists genesis, []; split; [reflexivity|exact I]|exact F]|exact Hr].
  induction ds as [|d ds IH] using rev_ind.
  - cbn. unfold ps_lookup. cbn. replace (0 <=? r) with true by lia. reflexivity.
  - unfold rr_increasing_list in S. rewrite map_app in S. cbn [map] in S.
    assert (S' : rr_increasing_list ds) by (eapply sorted_app_l; eauto).
    assert (F' : Forall (fun d => 0 <= b_rr d) ds).
    { rewrite Forall_forall in *. intros x Hx. apply F. apply in_or_app. left; exact Hx. }
    assert (Fd : 0 <= b_rr d).
    { rewrite Forall_forall in F. apply F. apply in_or_app. right. left. reflexivity. }
    specialize (IH S' F').
    assert (Hlt : forall d', In d' ds -> b_rr d' < b_rr d).
    { intros d' Hd'. eapply sorted_snoc_lt; [exact S|]. apply in_map. exact Hd'. }
    unfold replay_genesis in *. rewrite replay_snoc. rewrite filter_app. cbn [filter].
    assert (W : table_wf (fst (replay [(0, genesis)] genesis ds))).
    { apply replay_wf; [exists genesis, []; split; [reflexivity|exact I]|exact F']. }
    assert (Hkeys : forall k p, In (k, p) (fst (replay [(0, genesis)] genesis ds)) -> k < b_rr d + 6).
    { intros k p HI. destruct (replay_keys _ _ _ _ _ HI) as [[p0 [X|[]]]|[d' [A B]]].
      - inversion X; subst. lia.
      - specialize (Hlt d' A). lia. }
    destruct (Z.leb_spec (b_rr d + 6) r) as [Hle|Hgt].
    + (* every earlier block is effective too *)
      assert (Fall : filter (fun d0 : block => b_rr d0 + 6 <=? r) ds = ds).
      { clear -Hlt Hle. induction ds as [|x ds IH]; cbn [filter]; [reflexivity|].
        assert (b_rr x < b_rr d) by (apply Hlt; left; reflexivity).
        replace (b_rr x + 6 <=? r) with true by lia. f_equal. apply IH. intros d' Hd'. apply Hlt. right; exact Hd'. }
      rewrite Fall in *. rewrite replay_snoc.
      destruct (replay [(0, genesis)] genesis ds) as [T V] eqn:ER. cbn [fst snd] in *.
      unfold replay_block, replay_step. cbn [fst snd].
      destruct (snd (apply_receipts V (b_itxs d))) eqn:Ch; [|exact IH].
      assert (Tn : table_has (b_rr d + 6) T = false).
      { apply table_has_false. intros p HI. specialize (Hkeys _ _ HI). lia. }
      rewrite Tn. cbn [fst snd]. rewrite insert_above_all by exact Hkeys.
      rewrite ps_lookup_snoc. replace (b_rr d + 6 <=? r) with true by lia. reflexivity.
    + rewrite app_nil_r.
      destruct (replay [(0, genesis)] genesis ds) as [T V] eqn:ER. cbn [fst snd] in *.
      unfold replay_block, replay_step. cbn [fst snd].
      destruct (snd (apply_receipts V (b_itxs d))) eqn:Ch; [|exact IH].
      assert (Tn : table_has (b_rr d + 6) T = false).
      { apply table_has_false. intros p HI. specialize (Hkeys _ _ HI). lia. }
      rewrite Tn. cbn [fst snd]. rewrite insert_above_all by exact Hkeys.
      rewrite ps_lookup_snoc. replace (b_rr d + 6 <=? r) with false by lia. exact IH.
Qed.

(** trace-level corollaries for reachable states *)
Definition reach (self_ : Z) (genesis : peerset) (oracle_ : list Z) (ops : list hop) : hg :=
  hrun (init_hg self_ genesis oracle_) ops.

Lemma reach_app self_ genesis oracle_ ops ops' :
  reach self_ genesis oracle_ (ops ++ ops') = hrun (reach self_ genesis oracle_ ops) ops'.
Proof. unfold reach. apply hrun_app. Qed.

Lemma reach_table self_ genesis oracle_ ops :
  self_ <> -1 ->
  (peersets (reach self_ genesis oracle_ ops), validators (reach self_ genesis oracle_ ops)) =
  replay [(0, genesis)] genesis (delivered (reach self_ genesis oracle_ ops)).
Proof. intros Hs. destruct (hrun_c10inv self_ genesis oracle_ ops Hs) as [_ H]. exact (c_replay _ _ H). Qed.

Lemma reach_only_commit self_ genesis oracle_ ops ops' :
  self_ <> -1 ->
  delivered (reach self_ genesis oracle_ (ops ++ ops')) = delivered (reach self_ genesis oracle_ ops) ->
  tbl (reach self_ genesis oracle_ (ops ++ ops')) = tbl (reach self_ genesis oracle_ ops).
Proof. intros Hs E. unfold tbl. rewrite !reach_table by exact Hs. rewrite E. reflexivity. Qed.

Lemma reach_no_retro self_ genesis oracle_ ops ops' r :
  self_ <> -1 ->
  (forall l, delivered (reach self_ genesis oracle_ (ops ++ ops')) = delivered (reach self_ genesis oracle_ ops) ++ l ->
             Forall (fun d => r < b_rr d + 6) l) ->
  get_peerset (reach self_ genesis oracle_ (ops ++ ops')) r = get_peerset (reach self_ genesis oracle_ ops) r.
Proof.
  intros Hs Hl.
  destruct (hrun_c10inv self_ genesis oracle_ ops Hs) as [_ I1].
  destruct (hrun_c10inv self_ genesis oracle_ (ops ++ ops') Hs) as [_ I2]. fold (reach self_ genesis oracle_ ops) in I1.
  fold (reach self_ genesis oracle_ (ops ++ ops')) in I2.
  assert (D : del_ext (reach self_ genesis oracle_ ops) (reach self_ genesis oracle_ (ops ++ ops'))).
  { rewrite reach_app. apply hrun_del. apply hrun_binv. }
  destruct D as [l Hd]. specialize (Hl l Hd).
  pose proof (c10inv_rr_nonneg _ _ I2) as N. rewrite Hd in N. apply Forall_app in N. destruct N as [_ N].
  unfold get_peerset.
  pose proof (f_equal fst (c_replay _ _ I2)) as T2. pose proof (c_replay _ _ I1) as T1. cbn [fst] in T2.
  rewrite T2, Hd. unfold replay_genesis. rewrite replay_app. unfold replay_genesis in T1. rewrite <- T1. cbn [fst snd].
  apply replay_no_retro; [exact (c_wf _ _ I1)|].
  rewrite Forall_forall in *. intros d Hd'. split; [apply N|apply Hl]; exact Hd'.
Qed.

(** * membership gates of the DAG functions (the parts that are local to one call) *)

(* _witness, when it computes (no memoised answer): an event is a witness only if its creator is
   in the peer set that the table gives for the event's round *)
Lemma witness_gate fuel st x st' :
  zget x (witness_memo st) = None -> witness_f fuel st x = (Some true, st') ->
  exists ex xr ps, get_event st x = Some ex /\ fst (round_f fuel st x) = Some xr /\
                   get_peerset st xr = Some ps /\ mem_key (e_creator (ev_e ex)) (keys ps) = true.
Proof.
  unfold witness_f. intros Hm. rewrite Hm.
  destruct (get_event st x) as [ex|] eqn:Ge; [|discriminate].
  pose proof (round_f_nomemo fuel st x) as N.
  destruct (round_f fuel st x) as [[xr|] st1] eqn:Rf; cbn [snd] in N; [|discriminate].
  assert (Gp : get_peerset st1 xr = get_peerset st xr).
  { rewrite <- (get_peerset_nomemo st1), <- (get_peerset_nomemo st), N. reflexivity. }
  rewrite Gp. destruct (get_peerset st xr) as [ps|] eqn:Gs; [|discriminate].
  destruct (mem_key (e_creator (ev_e ex)) (keys ps)) eqn:M; cbn [negb].
  - intros _. exists ex, xr, ps. repeat split; auto.
  - intros H. inversion H.
Qed.

(* _stronglySee: the quorum is counted over the distinct keys of the given peer set only, and
   compared with that set's supermajority *)
Lemma strongly_see_gate st x y ps :
  strongly_see st x y ps = Some true ->
  exists l, NoDup l /\ incl l (keys ps) /\ super_majority ps <= Z.of_nat (length l).
Proof.
  unfold strongly_see. destruct (get_event st x) as [ex|]; [|discriminate].
  destruct (get_event st y) as [ey|]; [|discriminate]. intros H. inversion H as [H1]. clear H.
  unfold ss_count in H1.
  match type of H1 with context [filter ?f ?l] => exists (filter f l) end.
  split; [apply QuorumProofs.NoDup_filter, QuorumProofs.dedup_NoDup|]. split; [|lia].
  intros k Hk. apply filter_In in Hk. apply QuorumProofs.dedup_In. apply Hk.
Qed.
