(* GENERATED from Static.v by text substitution: with static membership (no accepted internal
   transaction) the consensus passes and ProcessSigPool leave the per-creator listings (pevents)
   alone; only an admitted insertion extends the listing of the event's creator. *)
From Coq Require Import ZArith List Bool Lia ZifyBool.
From RecordUpdate Require Import RecordSet.
From V Require Import Model.ZMap Model.Quorum Model.Voting Model.HgImpl
  Proofs.ZMapFacts Proofs.HgFrames Proofs.HgDagFrames Proofs.AdmissionProofs Proofs.HgBlockFrames
  Proofs.BlockInv Proofs.Static Proofs.HgRepFrames.
Import ListNotations RecordSetNotations.
Open Scope Z_scope.

Lemma rview_pev st st' : rview st' = rview st -> pevents st' = pevents st.
Proof. unfold rview. intros H. inversion H. reflexivity. Qed.

(** * commit with no accepted internal transaction *)

Lemma pevents_store_set_block st b : pevents (store_set_block st b) = pevents st.
Proof. destruct st; reflexivity. Qed.
Lemma pevents_deliver st b : pevents (deliver st b) = pevents st.
Proof. destruct st; reflexivity. Qed.
Lemma pevents_set_anchor_block st b : pevents (set_anchor_block st b) = pevents st.
Proof.
  unfold set_anchor_block. destruct (get_peerset st (b_rr b)); [|reflexivity].
  destruct (_ && _); [destruct st|]; reflexivity.
Qed.
Lemma pevents_sign_block st b bps : pevents (snd (sign_block st b bps)) = pevents st.
Proof. unfold sign_block. destruct (mem_key _ _); cbn [snd]; [destruct st|]; reflexivity. Qed.

Lemma commit_pevents st b :
  (forall t, In t (b_itxs b) -> itx_accept t = false) -> pevents (commit st b) = pevents st.
Proof.
  intros H. unfold commit. destruct (self st =? -1); [apply pevents_deliver|]. cbv zeta.
  set (st0 := st <| oracle := _ |>).
  assert (P0 : pevents st0 = pevents st) by (destruct st; reflexivity).
  match goal with |- context [store_set_block st0 ?b1] => set (bb := b1) end.
  assert (Hbb : b_itxs bb = b_itxs b) by reflexivity.
  destruct (get_peerset (store_set_block st0 bb) (b_rr bb)) as [bps|].
  - pose proof (sign_block_itxs (store_set_block st0 bb) bb bps) as Hi.
    pose proof (pevents_sign_block (store_set_block st0 bb) bb bps) as Hp.
    destruct (sign_block (store_set_block st0 bb) bb bps) as [b2 st2]. cbn [fst snd] in *.
    rewrite pevents_deliver, process_receipts_noaccept.
    + rewrite pevents_set_anchor_block, Hp, pevents_store_set_block. exact P0.
    + intros t Ht. apply H. rewrite <- Hbb, <- Hi. exact Ht.
  - rewrite pevents_deliver, pevents_store_set_block. exact P0.
Qed.

Lemma pevents_add_consensus_events l : forall s, pevents (fold_left add_consensus_event l s) = pevents s.
Proof. induction l as [|fe r IH]; intros s; cbn [fold_left]; [reflexivity|]. rewrite IH. destruct s; reflexivity. Qed.


Lemma process_frame_pevents all s f :
  from_attempts s all -> no_accept all -> pevents (process_frame s f) = pevents s.
Proof.
  intros FA NA. unfold process_frame. destruct (f_events f) as [|fe rest] eqn:E; [reflexivity|].
  cbv zeta. set (s1 := fold_left add_consensus_event (fe :: rest) s).
  assert (P1 : pevents s1 = pevents s) by apply pevents_add_consensus_events.
  assert (FA1 : from_attempts s1 all).
  { intros x es Hx. apply (FA x es). unfold get_event in *. subst s1. rewrite events_add_consensus_events in Hx. exact Hx. }
  set (b := block_of_frame _ _ _).
  assert (Hb : forall t, In t (b_itxs b) -> itx_accept t = false).
  { intros t Ht. eapply block_of_frame_itxs; eauto. }
  destruct (b_txs b), (b_itxs b) eqn:Ei; try exact P1;
    (rewrite commit_pevents; [rewrite pevents_store_set_block; exact P1|rewrite Ei; exact Hb]).
Qed.

Lemma pevents_get_frame st rr : pevents (snd (get_frame st rr)) = pevents st.
Proof.
  unfold get_frame.
  destruct (zget rr (frames st)); [reflexivity|].
  destruct (get_round st rr); [|reflexivity].
  destruct (get_peerset st rr); [|reflexivity].
  match goal with |- context [fold_left ?f ?l ?a] => destruct (fold_left f l a) end; [|reflexivity].
  match goal with |- context [fold_left ?f (repertoire st) ?a] => destruct (fold_left f (repertoire st) a) end;
    [|reflexivity].
  cbn [snd]. destruct st; reflexivity.
Qed.

Lemma pevents_bump s r : pevents (bump_last_consensus s r) = pevents s.
Proof.
  unfold bump_last_consensus. destruct (last_consensus s) as [l|]; [destruct (l <? r)|];
    try reflexivity; destruct s; reflexivity.
Qed.
Lemma pevents_fail s : pevents (fail s) = pevents s.
Proof. destruct s; reflexivity. Qed.

Lemma process_round_pevents all s processed stop pr :
  from_attempts s all -> no_accept all ->
  pevents (fst (fst (process_round (s, processed, stop) pr))) = pevents s.
Proof.
  intros FA NA. unfold process_round.
  destruct (stop || failed s); [reflexivity|].
  destruct (negb (snd pr)); [reflexivity|].
  destruct (get_round s (fst pr)); [|apply pevents_fail].
  pose proof (get_frame_frame s (fst pr)) as F.
  pose proof (pevents_get_frame s (fst pr)) as P.
  destruct (get_frame s (fst pr)) as [[f|] s1]; cbn [fst snd] in *.
  - rewrite pevents_bump, (process_frame_pevents all); [exact P| |exact NA].
    eapply from_attempts_frame; eauto.
  - rewrite pevents_fail. exact P.
Qed.

Lemma process_decided_rounds_pevents all st :
  from_attempts st all -> no_accept all -> pevents (process_decided_rounds st) = pevents st.
Proof.
  intros FA NA. unfold process_decided_rounds.
  assert (G : forall l s p b, from_attempts s all ->
              pevents (fst (fst (fold_left process_round l (s, p, b)))) = pevents s).
  { induction l as [|pr rest IH]; intros s p b FAs; cbn [fold_left]; [reflexivity|].
    pose proof (process_round_pevents all s p b pr FAs NA) as P.
    pose proof (process_round_frame s p b pr) as F.
    destruct (process_round (s, p, b) pr) as [[s' p'] b']. cbn [fst] in *.
    rewrite IH; [exact P|]. eapply from_attempts_frame; eauto. }
  specialize (G (pending st) st [] false FA).
  destruct (fold_left process_round (pending st) (st, [], false)) as [[s processed] stop]. cbn [fst] in G.
  rewrite <- G. destruct s; reflexivity.
Qed.

Lemma run_consensus_pevents all st :
  from_attempts st all -> no_accept all -> pevents (run_consensus st) = pevents st.
Proof.
  intros FA NA. unfold run_consensus.
  pose proof (divide_rounds_frame st) as F1. pose proof (rview_pev _ _ (divide_rounds_rview st)) as P1.
  set (s1 := divide_rounds st) in *.
  destruct (failed s1); [exact P1|].
  pose proof (decide_fame_frame s1) as F2. pose proof (rview_pev _ _ (decide_fame_rview s1)) as P2.
  set (s2 := decide_fame s1) in *.
  destruct (failed s2); [congruence|].
  pose proof (decide_round_received_frame s2) as F3.
  pose proof (rview_pev _ _ (decide_round_received_rview s2)) as P3.
  set (s3 := decide_round_received s2) in *.
  destruct (failed s3); [congruence|].
  rewrite (process_decided_rounds_pevents all); [congruence| |exact NA].
  eapply from_attempts_frame; [|exact F3]. eapply from_attempts_frame; [|exact F2].
  eapply from_attempts_frame; eauto.
Qed.


Lemma process_sig_pevents st s : pevents (process_sig st s) = pevents st.
Proof.
  unfold process_sig.
  destruct (zget (bs_index s) (blocks st)) as [b|]; [|reflexivity].
  destruct (get_peerset st (b_rr b)); [|reflexivity].
  destruct (negb (mem_key _ _)); [reflexivity|].
  destruct (negb (_ =? _)); [reflexivity|].
  cbv zeta. set (b' := b <| b_sigs := _ |>).
  transitivity (pevents (set_anchor_block (store_set_block st b') b')); [destruct (set_anchor_block _ _); reflexivity|].
  rewrite pevents_set_anchor_block. apply pevents_store_set_block.
Qed.

Lemma process_sigpool_pevents st : pevents (process_sigpool st) = pevents st.
Proof.
  unfold process_sigpool. generalize (sigpool st) as l. intros l. revert st.
  induction l as [|s r IH]; intros st; cbn [fold_left]; [reflexivity|].
  rewrite IH. apply process_sig_pevents.
Qed.
